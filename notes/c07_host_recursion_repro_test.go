// Reproducers (public API only) for the two deviations from C07 that the host <-> guest recursion tie found on the
// UNCHANGED tree. Copy into a directory of a wazero checkout (e.g. zz_repro/repro_test.go) and run
//
//	GOFLAGS=-mod=mod GOPROXY=off GOSUMDB=off GOTOOLCHAIN=local go test -count=1 -vet=off -v ./zz_repro/
//
// A. TestHostRecursion/close, /freshctx: the guest cycle  walk -> imported Go function visit -> walk.Call(ctx) -> walk ...
//    contains no loop header and no tail call; its only check point is the entry of the nested call, and that entry
//    check reads ctx.Done() only (interpreter.go callEngine.call, wazevo/call_engine.go callWithStack), never the closed
//    word. So the recursion is stopped by cancelling the context that is handed down, but NOT
//      - by Module.CloseWithExitCode from another goroutine (close), nor
//      - by cancelling the outer call's context when the host function passes another context to the nested call
//        (freshctx: the outer call's watcher goroutine writes the closed word, nothing on the cycle reads it).
//    It runs until the Go stack is exhausted (a safety net stops the test after 300 levels).
//    check sig: {"kind": "host-recursion-keeps-running", "entry_check_needed": "closed-word", ...} and
//               {"kind": "host-cycle-unchecked", "entry_check_needed": "closed-word", ...}
// B. TestCrossInstanceOuterModuleNotClosed: A.walk -> visit -> B.walk -> visit -> A.walk ... The entry pre-check closes the
//    module whose function is being entered (B). The outer call on A returns "module closed with context canceled", but A is
//    closed only if one of A's watcher goroutines gets to run before the call returns: with GOMAXPROCS(1) never, with the
//    default on a loaded machine in 5-10% of the runs A stays open.
//    check sig: {"kind": "module-not-closed", "cross_instance": true, "cause": "cancel", ...}
package zz_repro

import (
	"context"
	"runtime"
	"sync/atomic"
	"testing"
	"time"

	"github.com/tetratelabs/wazero"
	"github.com/tetratelabs/wazero/api"
)

// (module (import "env" "visit" (func $visit)) (func (export "walk") call $visit))
var guestWasm = []byte{
	0x00, 0x61, 0x73, 0x6d, 0x01, 0x00, 0x00, 0x00,
	0x01, 0x04, 0x01, 0x60, 0x00, 0x00,
	0x02, 0x0d, 0x01, 0x03, 'e', 'n', 'v', 0x05, 'v', 'i', 's', 'i', 't', 0x00, 0x00,
	0x03, 0x02, 0x01, 0x00,
	0x07, 0x08, 0x01, 0x04, 'w', 'a', 'l', 'k', 0x00, 0x01,
	0x0a, 0x06, 0x01, 0x04, 0x00, 0x10, 0x00, 0x0b,
}

func engines() map[string]func() wazero.RuntimeConfig {
	return map[string]func() wazero.RuntimeConfig{"interpreter": wazero.NewRuntimeConfigInterpreter, "compiler": wazero.NewRuntimeConfigCompiler}
}

func hostRecursion(t *testing.T, cfg wazero.RuntimeConfig, mode string) {
	bg := context.Background()
	r := wazero.NewRuntimeWithConfig(bg, cfg.WithCloseOnContextDone(true))
	defer r.Close(bg)
	var arrived atomic.Bool
	var after, total int64
	_, err := r.NewHostModuleBuilder("env").NewFunctionBuilder().
		WithGoModuleFunction(api.GoModuleFunc(func(ctx context.Context, mod api.Module, _ []uint64) {
			total++
			if arrived.Load() {
				if after++; after > 300 {
					return // safety net: the recursion would go on until the Go stack is exhausted
				}
			}
			time.Sleep(200 * time.Microsecond)
			c := ctx
			if mode == "freshctx" {
				c = bg
			}
			if _, err := mod.ExportedFunction("walk").Call(c); err != nil {
				panic(err)
			}
		}), nil, nil).Export("visit").Instantiate(bg)
	if err != nil {
		t.Fatal(err)
	}
	mod, err := r.InstantiateWithConfig(bg, guestWasm, wazero.NewModuleConfig().WithName("guest"))
	if err != nil {
		t.Fatal(err)
	}
	ctx, cancel := context.WithCancel(bg)
	defer cancel()
	go func() {
		time.Sleep(50 * time.Millisecond)
		if mode == "close" {
			_ = mod.CloseWithExitCode(bg, 7)
		} else {
			cancel()
		}
		arrived.Store(true)
	}()
	_, callErr := mod.ExportedFunction("walk").Call(ctx)
	t.Logf("mode=%s err=%v levels=%d levels entered after the cause=%d closed=%v", mode, callErr, total, after, mod.IsClosed())
	if after > 3 {
		t.Errorf("the guest kept running: %d host<->guest nesting levels were entered after the cause", after)
	}
}

func TestHostRecursion(t *testing.T) {
	for _, mode := range []string{"cancel" /* control: passes */, "close", "freshctx"} {
		for name, cfg := range engines() {
			t.Run(mode+"/"+name, func(t *testing.T) { hostRecursion(t, cfg(), mode) })
		}
	}
}

func TestCrossInstanceOuterModuleNotClosed(t *testing.T) {
	defer runtime.GOMAXPROCS(runtime.GOMAXPROCS(1))
	for name, cfg := range engines() {
		t.Run(name, func(t *testing.T) {
			bg := context.Background()
			r := wazero.NewRuntimeWithConfig(bg, cfg().WithCloseOnContextDone(true))
			defer r.Close(bg)
			var a, b api.Module
			ctx, cancel := context.WithCancel(bg)
			defer cancel()
			level := 0
			_, err := r.NewHostModuleBuilder("env").NewFunctionBuilder().
				WithGoModuleFunction(api.GoModuleFunc(func(ctx context.Context, mod api.Module, _ []uint64) {
					if level++; level == 3 {
						cancel() // the call's context is cancelled while the guest is inside this host function
					}
					other := a
					if mod == a {
						other = b
					}
					if _, err := other.ExportedFunction("walk").Call(ctx); err != nil {
						panic(err)
					}
				}), nil, nil).Export("visit").Instantiate(bg)
			if err != nil {
				t.Fatal(err)
			}
			if a, err = r.InstantiateWithConfig(bg, guestWasm, wazero.NewModuleConfig().WithName("A")); err != nil {
				t.Fatal(err)
			}
			if b, err = r.InstantiateWithConfig(bg, guestWasm, wazero.NewModuleConfig().WithName("B")); err != nil {
				t.Fatal(err)
			}
			_, callErr := a.ExportedFunction("walk").Call(ctx)
			t.Logf("A.walk returned %v; A closed=%v B closed=%v", callErr, a.IsClosed(), b.IsClosed())
			if callErr == nil || !a.IsClosed() {
				t.Errorf("the call on A returned %v but A.IsClosed()=%v", callErr, a.IsClosed())
			}
		})
	}
}
