// Reproducer for the C09 finding "shared-memory-freed-on-close" (sig {"kind": "shared-memory-freed-on-close", "witness": "MEMFREE"}).
// Public API only. Copy into a directory of the wazero module (e.g. zz_c09alloc/alloc_test.go) and run
//   go test -count=1 -vet=off ./zz_c09alloc/
// Fails on the unchanged tree on both engines: closing the importer (or the definer) of a shared memory hands the
// memory to LinearMemory.Free while the other instance is live; that instance then reads the freed buffer.
// Cause: internal/wasm/module_instance.go ensureResourcesClosed frees m.MemoryInstance.expBuffer whether or not the
// memory is imported / still imported by other instances.
package zz_c09alloc

import (
	"context"
	"testing"

	"github.com/tetratelabs/wazero"
	"github.com/tetratelabs/wazero/experimental"
)

// A user-supplied linear memory (experimental.WithMemoryAllocator). Free poisons the buffer and records the call;
// an mmap-backed allocator would unmap it (then the accesses below fault instead of reading the poison).
type lin struct {
	buf   []byte
	freed *int
}

func (l *lin) Reallocate(size uint64) []byte {
	if uint64(cap(l.buf)) < size {
		nb := make([]byte, size)
		copy(nb, l.buf)
		l.buf = nb
	}
	l.buf = l.buf[:size]
	return l.buf
}

func (l *lin) Free() {
	*l.freed++
	b := l.buf[:cap(l.buf)]
	for i := range b {
		b[i] = 0xdd
	}
}

var hdr = []byte{0x00, 0x61, 0x73, 0x6d, 0x01, 0x00, 0x00, 0x00}

func sec(id byte, c ...byte) []byte { return append([]byte{id, byte(len(c))}, c...) }
func cat(p ...[]byte) (r []byte) {
	for _, x := range p {
		r = append(r, x...)
	}
	return
}
func name(s string) []byte { return append([]byte{byte(len(s))}, s...) }

// (module (memory (export "mem") 1 4) (func (export "load") (param i32) (result i32) (i32.load (local.get 0)))
//         (func (export "store") (param i32 i32) (i32.store (local.get 0) (local.get 1))))
var modA = cat(hdr,
	sec(1, 2, 0x60, 1, 0x7f, 1, 0x7f, 0x60, 2, 0x7f, 0x7f, 0),
	sec(3, 2, 0, 1),
	sec(5, 1, 0x01, 1, 4),
	sec(7, cat([]byte{3}, name("mem"), []byte{2, 0}, name("load"), []byte{0, 0}, name("store"), []byte{0, 1})...),
	sec(10, cat([]byte{2}, []byte{7, 0, 0x20, 0, 0x28, 2, 0, 0x0b}, []byte{9, 0, 0x20, 0, 0x20, 1, 0x36, 2, 0, 0x0b})...),
)

// (module (import "a" "mem" (memory 1 4)) (func (export "load") (param i32) (result i32) (i32.load (local.get 0))))
var modB = cat(hdr,
	sec(1, 1, 0x60, 1, 0x7f, 1, 0x7f),
	sec(2, cat([]byte{1}, name("a"), name("mem"), []byte{2, 0x01, 1, 4})...),
	sec(3, 1, 0),
	sec(7, cat([]byte{1}, name("load"), []byte{0, 0})...),
	sec(10, cat([]byte{1}, []byte{7, 0, 0x20, 0, 0x28, 2, 0, 0x0b})...),
)

func run(t *testing.T, cfg wazero.RuntimeConfig, closeImporter bool) {
	freed := 0
	ctx := experimental.WithMemoryAllocator(context.Background(), experimental.MemoryAllocatorFunc(func(cap, max uint64) experimental.LinearMemory {
		return &lin{buf: make([]byte, 0, cap), freed: &freed}
	}))
	r := wazero.NewRuntimeWithConfig(ctx, cfg)
	defer r.Close(ctx)
	a, err := r.InstantiateWithConfig(ctx, modA, wazero.NewModuleConfig().WithName("a"))
	if err != nil {
		t.Fatal(err)
	}
	b, err := r.InstantiateWithConfig(ctx, modB, wazero.NewModuleConfig().WithName("b"))
	if err != nil {
		t.Fatal(err)
	}
	if _, err = a.ExportedFunction("store").Call(ctx, 8, 111); err != nil {
		t.Fatal(err)
	}
	live, dead := a, b // the importer is closed, the definer stays live ...
	if !closeImporter {
		live, dead = b, a // ... or the definer is closed and the importer stays live
	}
	if err = dead.Close(ctx); err != nil {
		t.Fatal(err)
	}
	if freed != 0 {
		t.Errorf("the memory of the live instance %q was handed to LinearMemory.Free (%d call) when %q was closed", live.Name(), freed, dead.Name())
	}
	res, err := live.ExportedFunction("load").Call(ctx, 8)
	if err != nil {
		t.Errorf("load on the live instance: %v", err)
	} else if res[0] != 111 {
		t.Errorf("load on the live instance = %#x, want 111 (reads the freed buffer)", res[0])
	}
}

func TestCloseFreesSharedMemory(t *testing.T) {
	for n, cfg := range map[string]func() wazero.RuntimeConfig{"compiler": wazero.NewRuntimeConfigCompiler, "interpreter": wazero.NewRuntimeConfigInterpreter} {
		t.Run(n+"/close-importer", func(t *testing.T) { run(t, cfg(), true) })
		t.Run(n+"/close-definer", func(t *testing.T) { run(t, cfg(), false) })
	}
}
