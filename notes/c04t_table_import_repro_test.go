// Reproducers for two C04 observations on the unchanged tree (public API only, both engines).
// Copy into a directory of a wazero checkout (package name is free) and run
//
//	GOFLAGS=-mod=mod GOPROXY=off GOSUMDB=off GOTOOLCHAIN=local go test -count=1 -vet=off ./zz_c04t/
//
//  1. TestImportGrownTable: a table import's minimum is judged against the exporter's DECLARED minimum, not the
//     table's current size (internal/wasm/store.go resolveImports: `expected.Min > importedTable.Min`); the memory
//     case next to it uses the current size. The specification's external type of a table instance carries its
//     current size as the minimum, so `(table 2 funcref)` matches a table declared with 1 that has grown to 2.
//     check sig: {"kind":"rejects-spec-accepts","extern":1,"what":"table-current-size"}
//  2. TestNullElemOverwritesImportedTable: an active element segment `(elem (i32.const 0) funcref (ref.null func))`
//     applied to an imported table leaves a non-null slot as it is (store.go applyElements `continue`s on
//     ElementInitNullReference); per the specification the slot becomes null and the owner's call_indirect traps.
//     check sig: {"kind":"elem-null-ignored"}
package zz_c04t

import (
	"context"
	"testing"

	"github.com/tetratelabs/wazero"
)

var header = []byte{0x00, 0x61, 0x73, 0x6d, 0x01, 0x00, 0x00, 0x00}

func cat(bs ...[]byte) (ret []byte) {
	for _, b := range bs {
		ret = append(ret, b...)
	}
	return
}

// (module $t (type (func (result i32)))
//
//	(table (export "tab") 1 funcref)
//	(func $f (result i32) (i32.const 42))
//	(func (export "call0") (result i32) (call_indirect (type 0) (i32.const 0)))
//	(func (export "grow") (result i32) (table.grow 0 (ref.null func) (i32.const 1)))
//	(func (export "size") (result i32) (table.size 0))
//	(elem (i32.const 0) $f))
var modT = cat(header,
	[]byte{0x01, 0x05, 0x01, 0x60, 0x00, 0x01, 0x7f},
	[]byte{0x03, 0x05, 0x04, 0x00, 0x00, 0x00, 0x00},
	[]byte{0x04, 0x04, 0x01, 0x70, 0x00, 0x01},
	[]byte{0x07, 0x1d, 0x04,
		0x03, 't', 'a', 'b', 0x01, 0x00,
		0x05, 'c', 'a', 'l', 'l', '0', 0x00, 0x01,
		0x04, 'g', 'r', 'o', 'w', 0x00, 0x02,
		0x04, 's', 'i', 'z', 'e', 0x00, 0x03},
	[]byte{0x09, 0x07, 0x01, 0x00, 0x41, 0x00, 0x0b, 0x01, 0x00},
	[]byte{0x0a, 0x1e, 0x04,
		0x04, 0x00, 0x41, 0x2a, 0x0b,
		0x07, 0x00, 0x41, 0x00, 0x11, 0x00, 0x00, 0x0b,
		0x09, 0x00, 0xd0, 0x70, 0x41, 0x01, 0xfc, 0x0f, 0x00, 0x0b,
		0x05, 0x00, 0xfc, 0x10, 0x00, 0x0b},
)

// (module (table (import "t" "tab") 1 funcref) (elem (i32.const 0) funcref (ref.null func)))
var modNullElem = cat(header,
	[]byte{0x02, 0x0b, 0x01, 0x01, 't', 0x03, 't', 'a', 'b', 0x01, 0x70, 0x00, 0x01},
	[]byte{0x09, 0x09, 0x01, 0x04, 0x41, 0x00, 0x0b, 0x01, 0xd0, 0x70, 0x0b},
)

// (module (table (import "t" "tab") 2 funcref))
var modImport2 = cat(header,
	[]byte{0x02, 0x0b, 0x01, 0x01, 't', 0x03, 't', 'a', 'b', 0x01, 0x70, 0x00, 0x02},
)

// (module (table (import "t" "tab") 3 funcref)): one more than the current size, must be rejected
var modImport3 = cat(header,
	[]byte{0x02, 0x0b, 0x01, 0x01, 't', 0x03, 't', 'a', 'b', 0x01, 0x70, 0x00, 0x03},
)

func engines() map[string]wazero.RuntimeConfig {
	return map[string]wazero.RuntimeConfig{
		"interpreter": wazero.NewRuntimeConfigInterpreter(),
		"compiler":    wazero.NewRuntimeConfigCompiler(),
	}
}

func TestImportGrownTable(t *testing.T) {
	for name, cfg := range engines() {
		t.Run(name, func(t *testing.T) {
			ctx := context.Background()
			r := wazero.NewRuntimeWithConfig(ctx, cfg)
			defer r.Close(ctx)
			mt, err := r.InstantiateWithConfig(ctx, modT, wazero.NewModuleConfig().WithName("t"))
			if err != nil {
				t.Fatal(err)
			}
			if res, err := mt.ExportedFunction("grow").Call(ctx); err != nil || res[0] != 1 {
				t.Fatalf("grow: %v %v", res, err)
			}
			if res, err := mt.ExportedFunction("size").Call(ctx); err != nil || res[0] != 2 {
				t.Fatalf("size: %v %v", res, err)
			}
			// The table now has 2 elements: its external type is {min 2, no max}, which an import {min 2} matches.
			if _, err = r.InstantiateWithConfig(ctx, modImport2, wazero.NewModuleConfig().WithName("i2")); err != nil {
				t.Errorf("import of the grown table with min=2 rejected: %v", err)
			}
			// ... and {min 3} does not.
			if _, err = r.InstantiateWithConfig(ctx, modImport3, wazero.NewModuleConfig().WithName("i3")); err == nil {
				t.Errorf("import of the grown table (2 elements) with min=3 accepted")
			}
		})
	}
}

func TestNullElemOverwritesImportedTable(t *testing.T) {
	for name, cfg := range engines() {
		t.Run(name, func(t *testing.T) {
			ctx := context.Background()
			r := wazero.NewRuntimeWithConfig(ctx, cfg)
			defer r.Close(ctx)
			mt, err := r.InstantiateWithConfig(ctx, modT, wazero.NewModuleConfig().WithName("t"))
			if err != nil {
				t.Fatal(err)
			}
			if res, err := mt.ExportedFunction("call0").Call(ctx); err != nil || res[0] != 42 {
				t.Fatalf("before: %v %v", res, err)
			}
			if _, err = r.InstantiateWithConfig(ctx, modNullElem, wazero.NewModuleConfig().WithName("n")); err != nil {
				t.Fatal(err)
			}
			res, err := mt.ExportedFunction("call0").Call(ctx)
			if err == nil {
				t.Errorf("slot 0 must be null after the importer's (elem (i32.const 0) funcref (ref.null func)), but call_indirect returned %v", res)
			}
		})
	}
}
