package exp
import (
 "context"
 "testing"
 "os"
 "fmt"
 "runtime"
 "runtime/debug"
 "time"
 "github.com/tetratelabs/wazero"
)
func modB() []byte {
 m := &Mod{}
 m.Types = [][]byte{FT(B(FuncRef), nil), FT(nil, B(I32))}
 m.Funcs = [][]byte{U32(0), U32(1)}
 m.Tables = [][]byte{Cat(B(FuncRef), B(0), U32(4))}
 m.Exports = [][]byte{Export("store",0,0), Export("callit",0,1)}
 m.Codes = [][]byte{
  Code(nil, I32Const(0), LocalGet(0), B(0x26, 0)),            // table.set 0
  Code(nil, I32Const(0), Cat(B(0x11), U32(1), U32(0))),        // call_indirect type1 table0
 }
 return m.Bytes()
}
func modA() []byte {
 m := &Mod{}
 m.Types = [][]byte{FT(B(FuncRef), nil), FT(nil, B(I32)), FT(nil, nil)}
 m.Imports = [][]byte{ImportFunc("b","store",0)}
 m.Funcs = [][]byte{U32(1), U32(2)}
 m.Exports = [][]byte{Export("f",0,1), Export("pass",0,2)}
 m.Elems = [][]byte{Cat(B(3), B(0), Vec(U32(1)))} // declarative elem so ref.func 1 is valid
 m.Codes = [][]byte{
  Code(nil, I32Const(4242)),
  Code(nil, Cat(B(0xd2), U32(1)), B(0x10, 0)),                 // ref.func 1; call store
 }
 return m.Bytes()
}
func TestDangling(t *testing.T){
 ctx := context.Background()
 cfg := wazero.NewRuntimeConfigCompiler()
 if os.Getenv("ENG") == "interp" { cfg = wazero.NewRuntimeConfigInterpreter() }
 r := wazero.NewRuntimeWithConfig(ctx, cfg)
 cb, err := r.CompileModule(ctx, modB()); if err != nil { t.Fatal(err) }
 b, err := r.InstantiateModule(ctx, cb, wazero.NewModuleConfig().WithName("b")); if err != nil { t.Fatal(err) }
 func(){
  ca, err := r.CompileModule(ctx, modA()); if err != nil { t.Fatal(err) }
  a, err := r.InstantiateModule(ctx, ca, wazero.NewModuleConfig().WithName("a")); if err != nil { t.Fatal(err) }
  _, err = a.ExportedFunction("pass").Call(ctx); if err != nil { t.Fatal(err) }
  res, err := b.ExportedFunction("callit").Call(ctx); fmt.Println("before close:", res, err)
  a.Close(ctx); ca.Close(ctx)
 }()
 for i := 0; i < 5; i++ { runtime.GC(); debug.FreeOSMemory(); time.Sleep(20*time.Millisecond) }
 // churn the heap so freed records get reused
 var junk [][]byte; for i := 0; i < 20000; i++ { junk = append(junk, make([]byte, 64)) }; _ = junk
 res, err := b.ExportedFunction("callit").Call(ctx); fmt.Println("RESULT after close+GC:", res, err)
}
