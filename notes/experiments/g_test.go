package exp
import (
 "context"
 "testing"
 "os"
 "strconv"
 "fmt"
 "github.com/tetratelabs/wazero"
)
// ops: name -> (opcode bytes prefix, result type, align)
func TestAddrCase(t *testing.T){
 base, _ := strconv.ParseUint(os.Getenv("BASE"), 0, 64)
 off, _ := strconv.ParseUint(os.Getenv("OFF"), 0, 64)
 op := os.Getenv("OP")
 shape := os.Getenv("SHAPE") // const | param
 ctx := context.Background()
 r := wazero.NewRuntimeWithConfig(ctx, wazero.NewRuntimeConfigCompiler())
 m := &Mod{}
 var opc []byte; res := byte(I32)
 switch op {
 case "load8_u": opc = B(0x2d, 0)
 case "i32.load": opc = B(0x28, 0)
 case "i64.load": opc = B(0x29, 0); res = I64
 case "f64.load": opc = B(0x2b, 0); res = F64
 case "v128.load": opc = B(0xfd, 0, 0); res = V128
 }
 opc = append(opc, U32(uint32(off))...)
 m.Mems = [][]byte{MemLimits(65535, nil)}
 body := [][]byte{}
 if shape == "const" { m.Types = [][]byte{FT(nil, B(res))}; body = append(body, I32Const(int32(uint32(base)))) } else { m.Types = [][]byte{FT(B(I32), B(res))}; body = append(body, LocalGet(0)) }
 body = append(body, opc)
 if res == V128 { m.Types[0] = FT(m.Types[0][2:2+int(m.Types[0][1])], B(I64)); body = append(body, B(0xfd, 0x1d, 0)) } // i64x2.extract_lane 0
 m.Funcs = [][]byte{U32(0)}
 m.Exports = [][]byte{Export("f",0,0)}
 m.Codes = [][]byte{ Code(nil, body...) }
 mod, err := r.Instantiate(ctx, m.Bytes()); if err != nil { t.Fatal(err) }
 ea := base + off
 if ea + 16 <= 65535*65536 { mod.Memory().WriteByte(uint32(ea), 0x5a) }
 var resv []uint64
 if shape == "const" { resv, err = mod.ExportedFunction("f").Call(ctx) } else { resv, err = mod.ExportedFunction("f").Call(ctx, base) }
 es := "nil"; if err != nil { es = "trap" }
 fmt.Printf("RESULT base=%#x off=%#x op=%s shape=%s -> %x err=%s expect_inbounds=%v\n", base, off, op, shape, resv, es, ea+16 <= 65535*65536)
}
