package exp
import (
 "context"
 "testing"
 "fmt"
 "math"
 "github.com/tetratelabs/wazero"
)
func TestReuseAfterCall(t *testing.T){
 ctx := context.Background()
 r := wazero.NewRuntimeWithConfig(ctx, wazero.NewRuntimeConfigCompiler())
 m := &Mod{}
 m.Types = [][]byte{FT(nil, B(I32)), FT(nil, nil)}
 m.Funcs = [][]byte{U32(0), U32(1)}
 m.Mems = [][]byte{MemLimits(40000, nil)}
 m.Exports = [][]byte{Export("f",0,0)}
 m.Codes = [][]byte{
  Code(B(I32), I32Const(math.MinInt32), B(0x21,0), LocalGet(0), B(0x2d,0,0), B(0x1a), B(0x10,1), LocalGet(0), B(0x2d,0,0)),
  Code(nil),
 }
 mod, err := r.Instantiate(ctx, m.Bytes()); if err != nil { t.Fatal(err) }
 mod.Memory().WriteByte(0x80000000, 0x5a)
 res, err := mod.ExportedFunction("f").Call(ctx)
 fmt.Printf("RESULT %x %v\n", res, err)
}
