package exp
import (
 "context"
 "testing"
 "time"
 "runtime"
 "github.com/tetratelabs/wazero"
)
func tryCompile(t *testing.T, name string, bin []byte) {
 ctx := context.Background()
 r := wazero.NewRuntimeWithConfig(ctx, wazero.NewRuntimeConfigInterpreter())
 var m0, m1 runtime.MemStats; runtime.ReadMemStats(&m0)
 t0 := time.Now()
 func(){ defer func(){ if e := recover(); e != nil { t.Log(name, "PANIC:", e) } }()
  _, err := r.CompileModule(ctx, bin); t.Log(name, "err:", err) }()
 runtime.ReadMemStats(&m1)
 t.Log(name, "len", len(bin), "time", time.Since(t0), "alloc MiB", (m1.TotalAlloc-m0.TotalAlloc)>>20)
}
func TestAllocAmp(t *testing.T){
 hdr := []byte{0,0x61,0x73,0x6d,1,0,0,0}
 tryCompile(t, "types 2^24", append(append([]byte{}, hdr...), 1, 4, 0x80,0x80,0x80,0x08))
 tryCompile(t, "funcs 2^28", append(append([]byte{}, hdr...), 3, 5, 0x80,0x80,0x80,0x80,0x01))
 // one function with 2^28 locals i32: type sec, func sec, code sec
 bin := append([]byte{}, hdr...)
 bin = append(bin, 1,4,1,0x60,0,0, 3,2,1,0)
 body := []byte{1, 0x80,0x80,0x80,0x80,0x01, 0x7f, 0x0b}
 code := append([]byte{1, byte(len(body))}, body...)
 bin = append(bin, 10, byte(len(code))); bin = append(bin, code...)
 tryCompile(t, "locals 2^28", bin)
}
