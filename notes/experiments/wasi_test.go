package exp
import (
 "context"
 "testing"
 "os"
 "path/filepath"
 "runtime"
 "github.com/tetratelabs/wazero"
 "github.com/tetratelabs/wazero/api"
 "github.com/tetratelabs/wazero/imports/wasi_snapshot_preview1"
)
type wf struct{ name string; params []byte }
var wasiFuncs = []wf{
 {"fd_renumber", B(I32,I32)}, {"fd_close", B(I32)}, {"poll_oneoff", B(I32,I32,I32,I32)},
 {"path_open", B(I32,I32,I32,I32,I32,I64,I64,I32,I32)}, {"fd_read", B(I32,I32,I32,I32)}, {"fd_write", B(I32,I32,I32,I32)},
 {"fd_fdstat_get", B(I32,I32)},
}
func proxy() []byte {
 m := &Mod{}
 for i, f := range wasiFuncs {
  m.Types = append(m.Types, FT(f.params, B(I32)))
  m.Imports = append(m.Imports, ImportFunc("wasi_snapshot_preview1", f.name, uint32(i)))
  m.Funcs = append(m.Funcs, U32(uint32(i)))
  var body [][]byte
  for p := range f.params { body = append(body, LocalGet(uint32(p))) }
  body = append(body, Cat(B(0x10), U32(uint32(i))))
  m.Codes = append(m.Codes, Code(nil, body...))
  m.Exports = append(m.Exports, Export(f.name, 0, uint32(len(wasiFuncs)+i)))
 }
 m.Mems = [][]byte{MemLimits(1, nil)}
 m.Exports = append(m.Exports, Export("memory", 2, 0))
 return m.Bytes()
}
func setup(t *testing.T, cfg wazero.ModuleConfig) (context.Context, wazero.Runtime, api.Module) {
 ctx := context.Background()
 r := wazero.NewRuntimeWithConfig(ctx, wazero.NewRuntimeConfigInterpreter())
 wasi_snapshot_preview1.MustInstantiate(ctx, r)
 mod, err := r.InstantiateWithConfig(ctx, proxy(), cfg)
 if err != nil { t.Fatal(err) }
 return ctx, r, mod
}
func call(t *testing.T, ctx context.Context, mod api.Module, name string, args ...uint64) (uint64, error) {
 res, err := mod.ExportedFunction(name).Call(ctx, args...)
 if err != nil { return 0, err }
 return res[0], nil
}
func TestRenumberSelf(t *testing.T){
 dir := t.TempDir(); os.WriteFile(filepath.Join(dir,"a"), []byte("hello"), 0o644)
 ctx, _, mod := setup(t, wazero.NewModuleConfig().WithFSConfig(wazero.NewFSConfig().WithDirMount(dir, "/")))
 mem := mod.Memory(); mem.Write(100, []byte("a"))
 e, err := call(t, ctx, mod, "path_open", 3, 0, 100, 1, 0, 2 /*FD_READ*/, 0, 0, 200); t.Log("open", e, err)
 fd, _ := mem.ReadUint32Le(200); t.Log("fd", fd)
 e, err = call(t, ctx, mod, "fd_renumber", uint64(fd), uint64(fd)); t.Log("renumber self", e, err)
 mem.WriteUint32Le(300, 400); mem.WriteUint32Le(304, 5)
 e, err = call(t, ctx, mod, "fd_read", uint64(fd), 300, 1, 500); t.Log("read after", e, err)
 e, err = call(t, ctx, mod, "fd_fdstat_get", uint64(fd), 600); t.Log("fdstat after", e, err)
}
func TestROCreate(t *testing.T){
 dir := t.TempDir(); os.WriteFile(filepath.Join(dir,"a"), []byte("hello"), 0o644)
 ctx, _, mod := setup(t, wazero.NewModuleConfig().WithFSConfig(wazero.NewFSConfig().WithReadOnlyDirMount(dir, "/")))
 mem := mod.Memory(); mem.Write(100, []byte("a")); mem.Write(110, []byte("new"))
 e, err := call(t, ctx, mod, "path_open", 3, 0, 110, 3, 1 /*O_CREAT*/, 2, 0, 0, 200); t.Log("open creat", e, err)
 _, serr := os.Stat(filepath.Join(dir,"new")); t.Log("new exists:", serr == nil)
 e, err = call(t, ctx, mod, "path_open", 3, 0, 100, 1, 8 /*O_TRUNC*/, 2, 0, 0, 200); t.Log("open trunc", e, err)
 b, _ := os.ReadFile(filepath.Join(dir,"a")); t.Log("a content:", string(b))
}
func TestPoll(t *testing.T){
 ctx, _, mod := setup(t, wazero.NewModuleConfig())
 e, err := call(t, ctx, mod, "poll_oneoff", 0, 1024, 1<<28, 4096); t.Log("poll 2^28", e, err)
}
func TestRenumberBig(t *testing.T){
 dir := t.TempDir(); os.WriteFile(filepath.Join(dir,"a"), []byte("hello"), 0o644)
 ctx, _, mod := setup(t, wazero.NewModuleConfig().WithFSConfig(wazero.NewFSConfig().WithDirMount(dir, "/")))
 mem := mod.Memory(); mem.Write(100, []byte("a"))
 e, err := call(t, ctx, mod, "path_open", 3, 0, 100, 1, 0, 2, 0, 0, 200); t.Log("open", e, err)
 fd, _ := mem.ReadUint32Le(200)
 var m0, m1 runtime.MemStats; runtime.ReadMemStats(&m0)
 e, err = call(t, ctx, mod, "fd_renumber", uint64(fd), 1<<27); t.Log("renumber 2^27", e, err)
 runtime.ReadMemStats(&m1); t.Log("heap growth MiB", (int64(m1.HeapSys)-int64(m0.HeapSys))>>20, "total alloc MiB", (m1.TotalAlloc-m0.TotalAlloc)>>20)
}
func TestEnvAlias(t *testing.T){
 base := wazero.NewModuleConfig().WithEnv("a","1").WithEnv("b","2").WithEnv("c","3")
 c1 := base.WithEnv("d","c1")
 c2 := base.WithEnv("d","c2")
 _ = c2
 t.Logf("c1=%v", showEnv(t, c1))
 p := wazero.NewModuleConfig().WithEnv("k","parent")
 _ = p.WithEnv("k","child")
 t.Logf("p=%v", showEnv(t, p))
}
