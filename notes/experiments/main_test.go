package exp
import (
 "context"
 "testing"
 "github.com/tetratelabs/wazero"
)
var empty = []byte{0,0x61,0x73,0x6d,1,0,0,0}
func TestDupName(t *testing.T){
 ctx:=context.Background()
 r:=wazero.NewRuntimeWithConfig(ctx, wazero.NewRuntimeConfigInterpreter())
 c,_:=r.CompileModule(ctx, empty)
 a,err:=r.InstantiateModule(ctx,c,wazero.NewModuleConfig().WithName("x"))
 t.Log("a",a!=nil,err)
 b,err:=r.InstantiateModule(ctx,c,wazero.NewModuleConfig().WithName("x"))
 t.Log("b",b!=nil,err)
 t.Log("lookup x after failed dup:", r.Module("x")!=nil, "a closed?", a.IsClosed())
 d,err:=r.InstantiateModule(ctx,c,wazero.NewModuleConfig().WithName("x"))
 t.Log("d",d!=nil,err, "a closed?", a.IsClosed())
}
