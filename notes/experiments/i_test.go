package exp
import (
 "context"
 "testing"
 "fmt"
 "github.com/tetratelabs/wazero"
 "github.com/tetratelabs/wazero/api"
 "github.com/tetratelabs/wazero/experimental"
)
func TestHostAfterClose(t *testing.T){
 ctx := context.Background()
 for name, mk := range engines {
  r := wazero.NewRuntimeWithConfig(ctx, mk())
  r.Close(ctx)
  func(){ defer func(){ if e := recover(); e != nil { t.Log(name, "PANIC:", e) } }()
   c, err := r.NewHostModuleBuilder("env").NewFunctionBuilder().WithFunc(func() uint32 { return 1 }).Export("f").Compile(ctx)
   t.Log(name, "host Compile after close:", c != nil, err)
   m, err := r.NewHostModuleBuilder("env2").NewFunctionBuilder().WithFunc(func() uint32 { return 1 }).Export("f").Instantiate(ctx)
   t.Log(name, "host Instantiate after close:", m != nil, err)
  }()
 }
}
type rec struct{ ev []string }
func (r *rec) NewFunctionListener(d api.FunctionDefinition) experimental.FunctionListener { return &lsn{r, d.Index()} }
type lsn struct{ r *rec; idx uint32 }
func (l *lsn) Before(ctx context.Context, mod api.Module, def api.FunctionDefinition, params []uint64, si experimental.StackIterator) { l.r.ev = append(l.r.ev, "B") }
func (l *lsn) After(ctx context.Context, mod api.Module, def api.FunctionDefinition, results []uint64) { l.r.ev = append(l.r.ev, "A") }
func (l *lsn) Abort(ctx context.Context, mod api.Module, def api.FunctionDefinition, err error) { l.r.ev = append(l.r.ev, "X") }
func TestAbortDeep(t *testing.T){
 for name, mk := range engines {
  r0 := &rec{}
  ctx := experimental.WithFunctionListenerFactory(context.Background(), r0)
  r := wazero.NewRuntimeWithConfig(ctx, mk())
  // f(n): if n==0 unreachable else f(n-1)
  m := &Mod{}
  m.Types = [][]byte{FT(B(I32), nil)}
  m.Funcs = [][]byte{U32(0)}
  m.Exports = [][]byte{Export("f",0,0)}
  m.Codes = [][]byte{ Code(nil, LocalGet(0), B(0x45), B(0x04,0x40), B(0x00), B(0x0b), LocalGet(0), I32Const(1), B(0x6b), B(0x10,0)) }
  mod, err := r.Instantiate(ctx, m.Bytes()); if err != nil { t.Fatal(err) }
  _, err = mod.ExportedFunction("f").Call(ctx, 49)
  nb, na, nx := 0,0,0
  for _, e := range r0.ev { switch e { case "B": nb++; case "A": na++; case "X": nx++ } }
  fmt.Println(name, "depth 50: before", nb, "after", na, "abort", nx, "err!=nil", err != nil)
 }
}
