package exp
import (
 "context"
 "testing"
 "math"
 "github.com/tetratelabs/wazero"
 "github.com/tetratelabs/wazero/api"
)
func TestSNaN(t *testing.T){
 ctx := context.Background()
 for name, mk := range engines {
  r := wazero.NewRuntimeWithConfig(ctx, mk())
  var seen uint32
  r.NewHostModuleBuilder("env").NewFunctionBuilder().WithFunc(func(f float32) float32 { seen = math.Float32bits(f); return f }).Export("id").Instantiate(ctx)
  m := &Mod{}
  m.Types = [][]byte{FT(B(F32), B(F32)), FT(B(I32), B(I32))}
  m.Imports = [][]byte{ImportFunc("env","id",0)}
  m.Funcs = [][]byte{U32(1)}
  m.Exports = [][]byte{Export("f",0,1)}
  m.Codes = [][]byte{ Code(nil, LocalGet(0), B(0xbe), B(0x10,0), B(0xbc)) } // f32.reinterpret_i32; call; i32.reinterpret_f32
  mod, err := r.Instantiate(ctx, m.Bytes()); if err != nil { t.Fatal(err) }
  res, err := mod.ExportedFunction("f").Call(ctx, 0x7fa00000)
  t.Logf("%s sNaN in=7fa00000 host saw=%x guest got=%x err=%v", name, seen, res, err)
 }
}
func TestConstAddrHigh(t *testing.T){
 ctx := context.Background()
 for name, mk := range engines {
  r := wazero.NewRuntimeWithConfig(ctx, mk())
  m := &Mod{}
  m.Types = [][]byte{FT(nil, B(I32))}
  m.Funcs = [][]byte{U32(0)}
  m.Mems = [][]byte{MemLimits(32770, nil)}
  m.Exports = [][]byte{Export("f",0,0), Export("memory",2,0)}
  m.Codes = [][]byte{ Code(nil, I32Const(math.MinInt32), B(0x2d,0,0)) } // i32.const 0x80000000; i32.load8_u
  mod, err := r.Instantiate(ctx, m.Bytes()); if err != nil { t.Fatal(err) }
  mod.Memory().WriteByte(0x80000000, 0x5a)
  _ = api.ValueTypeI32
  res, err := mod.ExportedFunction("f").Call(ctx)
  t.Logf("%s load8 [0x80000000] = %v err=%v", name, res, err)
  r.Close(ctx)
 }
}
