package exp
import (
 "context"
 "testing"
 "fmt"
 "github.com/tetratelabs/wazero"
)
func memMod(min uint32, max *uint32) []byte {
 m := &Mod{}
 m.Types = [][]byte{FT(nil, B(I32)), FT(B(I32), B(I32))}
 m.Funcs = [][]byte{U32(0), U32(1), U32(1)}
 m.Mems = [][]byte{MemLimits(min, max)}
 m.Exports = [][]byte{Export("size",0,0), Export("load8",0,1), Export("grow",0,2), Export("mem",2,0)}
 m.Codes = [][]byte{ Code(nil, B(0x3f,0)), Code(nil, LocalGet(0), B(0x2d,0,0)), Code(nil, LocalGet(0), B(0x40,0)) }
 return m.Bytes()
}
func Test4G(t *testing.T){
 ctx:=context.Background()
 for _, cfg := range []wazero.RuntimeConfig{wazero.NewRuntimeConfigInterpreter(), wazero.NewRuntimeConfigCompiler()} {
  r:=wazero.NewRuntimeWithConfig(ctx, cfg)
  mx := uint32(65536)
  mod,err:=r.Instantiate(ctx, memMod(65536,&mx))
  if err!=nil { t.Log("inst err", err); continue }
  res,err:=mod.ExportedFunction("size").Call(ctx)
  t.Log("size", res, err)
  res,err=mod.ExportedFunction("load8").Call(ctx, 0xfffffff0)
  t.Log("load8", res, err)
  mem := mod.Memory()
  t.Log("api size", mem.Size())
  func(){ defer func(){ if e:=recover(); e!=nil { t.Log("PANIC ReadUint32Le:", e) } }(); v,ok:=mem.ReadUint32Le(0xfffffffc); t.Log("ReadUint32Le last", v, ok) }()
  func(){ defer func(){ if e:=recover(); e!=nil { t.Log("PANIC Read:", e) } }(); v,ok:=mem.Read(0xfffffff0, 16); t.Log("Read last16", len(v), ok) }()
  func(){ defer func(){ if e:=recover(); e!=nil { t.Log("PANIC ReadByte:", e) } }(); v,ok:=mem.ReadByte(0xffffffff); t.Log("ReadByte last", v, ok) }()
  func(){ defer func(){ if e:=recover(); e!=nil { t.Log("PANIC WriteU64:", e) } }(); ok:=mem.WriteUint64Le(0xfffffff8, 7); t.Log("WriteU64 last", ok) }()
  r.Close(ctx)
 }
}
func TestCapFromMax(t *testing.T){
 ctx:=context.Background()
 for _, cfm := range []bool{false,true} {
  r:=wazero.NewRuntimeWithConfig(ctx, wazero.NewRuntimeConfigInterpreter().WithMemoryLimitPages(10).WithMemoryCapacityFromMax(cfm))
  mx := uint32(100)
  _,err:=r.CompileModule(ctx, memMod(1,&mx))
  fmt.Println("cfm",cfm,"compile err:",err)
 }
}
