package exp
import (
 "context"
 "testing"
 "time"
 "github.com/tetratelabs/wazero"
 "github.com/tetratelabs/wazero/api"
 "github.com/tetratelabs/wazero/experimental"
)
var engines = map[string]func() wazero.RuntimeConfig{"interp": wazero.NewRuntimeConfigInterpreter, "compiler": wazero.NewRuntimeConfigCompiler}
func TestHostI32(t *testing.T){
 ctx := context.Background()
 for name, mk := range engines {
  r := wazero.NewRuntimeWithConfig(ctx, mk())
  r.NewHostModuleBuilder("env").NewFunctionBuilder().WithFunc(func() int32 { return -1 }).Export("m1").Instantiate(ctx)
  m := &Mod{}
  m.Types = [][]byte{FT(nil, B(I32))}
  m.Imports = [][]byte{ImportFunc("env","m1",0)}
  m.Funcs = [][]byte{U32(0), U32(0)}
  m.Exports = [][]byte{Export("ne",0,1), Export("eqz64",0,2)}
  m.Codes = [][]byte{ Code(nil, B(0x10,0), I32Const(-1), B(0x47)), // call; i32.const -1; i32.ne
     Code(nil, B(0x10,0), B(0xad), I64Const(0xffffffff), B(0x51)) } // call; i64.extend_i32_u; i64.const; i64.eq
  mod, err := r.Instantiate(ctx, m.Bytes()); if err != nil { t.Fatal(err) }
  res, err := mod.ExportedFunction("ne").Call(ctx); t.Log(name, "(-1 != -1) =", res, err)
  res, err = mod.ExportedFunction("eqz64").Call(ctx); t.Log(name, "extend_u(-1)==0xffffffff =", res, err)
 }
}
func TestReturnCallLoop(t *testing.T){
 for name, mk := range engines {
  ctx := context.Background()
  r := wazero.NewRuntimeWithConfig(ctx, mk().WithCloseOnContextDone(true).WithCoreFeatures(api.CoreFeaturesV2|experimental.CoreFeaturesTailCall))
  m := &Mod{}
  m.Types = [][]byte{FT(nil, nil)}
  m.Funcs = [][]byte{U32(0)}
  m.Exports = [][]byte{Export("f",0,0)}
  m.Codes = [][]byte{ Code(nil, B(0x12,0)) } // return_call 0
  mod, err := r.Instantiate(ctx, m.Bytes()); if err != nil { t.Log(name, "inst", err); continue }
  cctx, cancel := context.WithTimeout(ctx, 200*time.Millisecond)
  done := make(chan error, 1)
  go func(){ _, err := mod.ExportedFunction("f").Call(cctx); done <- err }()
  select { case err := <-done: t.Log(name, "returned", err)
  case <-time.After(3*time.Second): t.Log(name, "STILL RUNNING after 3s") }
  cancel()
 }
}
