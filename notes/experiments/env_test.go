package exp
import (
 "testing"
 "reflect"
 "unsafe"
 "github.com/tetratelabs/wazero"
)
func showEnv(t *testing.T, c wazero.ModuleConfig) []string {
 v := reflect.ValueOf(c).Elem().FieldByName("environ")
 v = reflect.NewAt(v.Type(), unsafe.Pointer(v.UnsafeAddr())).Elem()
 bs := v.Interface().([][]byte)
 var o []string
 for _, b := range bs { o = append(o, string(b)) }
 return o
}
