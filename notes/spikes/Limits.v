(* Spike for DESIGN §3.1/§6-C12/C14: what go2coq would emit for binary.newMemorySizer and
   Memory.Validate (unfixed tree), and whether lia closes the theorems over wrapped ints. *)
From Coq Require Import ZArith Lia Bool.
Open Scope Z_scope.
Ltac Zify.zify_post_hook ::= Z.div_mod_to_equations.

Definition wrap (w : Z) (z : Z) := z mod 2 ^ w.
Definition u32 (z : Z) : Prop := 0 <= z < 2 ^ 32.
Definition MemoryLimitPages := 65536.

(* func(minPages uint32, maxPages ptr-uint32) (min, capacity, max uint32)  -- pointer param as option *)
Definition memorySizer (fixed : bool) (memoryLimitPages : Z) (memoryCapacityFromMax : bool)
           (minPages : Z) (maxPages : option Z) : Z * Z * Z :=
  match maxPages with
  | Some mx =>
      if fixed then
        if MemoryLimitPages <? mx then (minPages, minPages, mx)
        else let mx' := if memoryLimitPages <? mx then memoryLimitPages else mx in
             if memoryCapacityFromMax then (minPages, mx', mx') else (minPages, minPages, mx')
      else
        if memoryCapacityFromMax then (minPages, mx, mx)
        else if MemoryLimitPages <? mx then (minPages, minPages, mx)
        else if memoryLimitPages <? mx then (minPages, minPages, memoryLimitPages)
        else (minPages, minPages, mx)
  | None =>
      if memoryCapacityFromMax then (minPages, memoryLimitPages, memoryLimitPages)
      else (minPages, minPages, memoryLimitPages)
  end.

Inductive res := Ok | Err (site : nat).
Definition validate (memoryLimitPages : Z) (m : Z * Z * Z) : res :=
  let '(mn, cp, mx) := m in
  if memoryLimitPages <? mx then Err 0
  else if memoryLimitPages <? mn then Err 1
  else if mx <? mn then Err 2
  else if cp <? mn then Err 3
  else if memoryLimitPages <? cp then Err 4
  else Ok.

Definition accept fixed lim cfm mn mx := match validate lim (memorySizer fixed lim cfm mn mx) with Ok => true | _ => false end.

(* C12: the tuning flag does not change acceptance nor (min,max) -- false before F11, true after *)
Example capfrommax_refuted : accept false 10 true 1 (Some 100) <> accept false 10 false 1 (Some 100).
Proof. vm_compute. discriminate. Qed.

Theorem sizer_semantic_part lim mn mx :
  u32 lim -> lim <= MemoryLimitPages -> u32 mn -> (forall m, mx = Some m -> u32 m) ->
  accept true lim true mn mx = accept true lim false mn mx /\
  (accept true lim true mn mx = true ->
     let '(a, _, c) := memorySizer true lim true mn mx in
     let '(a', _, c') := memorySizer true lim false mn mx in a = a' /\ c = c').
Proof.
  intros Hl Hl2 Hm Hx. unfold accept, validate, memorySizer, MemoryLimitPages, u32 in *.
  destruct mx as [m|]; [specialize (Hx m eq_refl)|];
  repeat match goal with |- context [if ?c <? ?d then _ else _] => destruct (Z.ltb_spec c d) end;
  cbn; try (split; [reflexivity | intros; split; reflexivity]); try (split; [lia | intros; lia]);
  try (split; [reflexivity|discriminate]); try lia.
Qed.

(* C14: accepted configurations satisfy min <= cap <= max <= limit. Note: Validate itself never
   compares cap with max; the bound comes from the sizer, so the theorem is about the composition. *)
Theorem validate_bounds fixed lim cfm mn mx :
  accept fixed lim cfm mn mx = true ->
  let '(a, b, c) := memorySizer fixed lim cfm mn mx in a <= b <= c /\ c <= lim.
Proof.
  unfold accept, validate, memorySizer, MemoryLimitPages.
  destruct mx as [m|], fixed, cfm;
  repeat match goal with |- context [if ?c <? ?d then _ else _] => destruct (Z.ltb_spec c d) end;
  cbn; try discriminate; intros _; lia.
Qed.
Print Assumptions validate_bounds.
