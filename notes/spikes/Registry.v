(* Spike for DESIGN §6-C10: atomic-step model of Store.registerModule/deleteModule/module and
   ModuleInstance.CloseWithExitCode; exhaustive interleavings of small thread programs; a
   linearizability check against the sequential registry spec; the F09 and F10 witnesses. *)
From Coq Require Import List Bool Arith Lia.
Import ListNotations.

Definition name := nat.  Definition inst := nat.

(* ---------- sequential specification ---------- *)
Record spec := { owner : list (name * inst); closed_s : list inst }.
Definition spec0 : spec := {| owner := []; closed_s := [] |}.
Fixpoint lookup (n : name) (l : list (name * inst)) : option inst :=
  match l with [] => None | (m, i) :: t => if n =? m then Some i else lookup n t end.
Definition remove_inst (i : inst) (l : list (name * inst)) := filter (fun p => negb (snd p =? i)) l.

Inductive op := Inst (n : name) (i : inst) | Close (i : inst) | Look (n : name).
Inductive ret := RInstOk | RInstDup | RClose | RLook (r : option inst).
Definition ret_eqb (a b : ret) : bool :=
  match a, b with
  | RInstOk, RInstOk | RInstDup, RInstDup | RClose, RClose => true
  | RLook None, RLook None => true
  | RLook (Some x), RLook (Some y) => x =? y
  | _, _ => false
  end.

Definition spec_step (s : spec) (o : op) : spec * ret :=
  match o with
  | Inst n i => match lookup n (owner s) with
                | Some _ => (s, RInstDup)
                | None => ({| owner := (n, i) :: owner s; closed_s := closed_s s |}, RInstOk)
                end
  | Close i => ({| owner := remove_inst i (owner s); closed_s := i :: closed_s s |}, RClose)
  | Look n => (s, RLook (lookup n (owner s)))
  end.

(* ---------- implementation: atomic steps ---------- *)
(* store: name map (name -> inst); per-instance closed word; which name an instance carries *)
Record impl := { nmap : list (name * inst); closedw : list inst; iname : list (inst * name) }.
Definition impl0 : impl := {| nmap := []; closedw := []; iname := [] |}.
Definition is_closed (s : impl) (i : inst) := existsb (Nat.eqb i) (closedw s).
Fixpoint del_name (n : name) (l : list (name * inst)) :=
  match l with [] => [] | (m, i) :: t => if n =? m then t else (m, i) :: del_name n t end.
Fixpoint name_of (i : inst) (l : list (inst * name)) : option name :=
  match l with [] => None | (j, n) :: t => if i =? j then Some n else name_of i t end.

(* micro-steps of one operation; `fixed` = with the F09 repair (delete only own entry) *)
Inductive micro :=
| MRegister (n : name) (i : inst)      (* lock; check; insert; unlock  -> may turn into close of i *)
| MCas (i : inst)                      (* CompareAndSwap on the closed word *)
| MDelete (i : inst)                   (* lock; delete(nameToModule, name); unlock *)
| MLookup (n : name)
| MRet (r : ret).

Section Impl.
Variable fixed : bool.

(* run one micro step; returns new state and the continuation (remaining micro steps) *)
Definition mstep (s : impl) (m : micro) (k : list micro) : impl * list micro :=
  match m with
  | MRegister n i =>
      let s1 := {| nmap := nmap s; closedw := closedw s; iname := (i, n) :: iname s |} in
      match lookup n (nmap s) with
      | Some _ => (s1, MCas i :: MDelete i :: MRet RInstDup :: nil)      (* m.Close(ctx) of the NEW instance *)
      | None => ({| nmap := (n, i) :: nmap s; closedw := closedw s; iname := (i, n) :: iname s |}, MRet RInstOk :: nil)
      end
  | MCas i => if is_closed s i then (s, MRet RClose :: nil)            (* already closed: return nil at once *)
              else ({| nmap := nmap s; closedw := i :: closedw s; iname := iname s |}, k)
  | MDelete i =>
      match name_of i (iname s) with
      | None => (s, k)
      | Some n =>
          let mine := match lookup n (nmap s) with Some j => j =? i | None => false end in
          if fixed && negb mine then (s, k)
          else ({| nmap := del_name n (nmap s); closedw := closedw s; iname := iname s |}, k)
      end
  | MLookup n => (s, MRet (RLook (lookup n (nmap s))) :: nil)
  | MRet _ => (s, k)
  end.
End Impl.

Definition compile (o : op) : list micro :=
  match o with
  | Inst n i => [MRegister n i]
  | Close i => [MCas i; MDelete i; MRet RClose]
  | Look n => [MLookup n]
  end.

(* A thread is a list of ops; history events carry invocation/response order via a global clock. *)
Record thr := { todo : list op; cur : option (op * nat * list micro) (* op, inv time, remaining *) }.
Record ev := { e_op : op; e_ret : ret; e_inv : nat; e_res : nat }.

(* enumerate all interleavings (exhaustive DFS with fuel) and collect complete histories *)
Fixpoint replace_nth {A} (n : nat) (x : A) (l : list A) :=
  match l, n with [], _ => [] | _ :: t, 0 => x :: t | h :: t, S k => h :: replace_nth k x t end.

Fixpoint explore (fixed : bool) (fuel : nat) (s : impl) (ts : list thr) (clock : nat) (h : list ev) : list (list ev) :=
  match fuel with
  | 0 => []
  | S f =>
      let idxs := seq 0 (length ts) in
      let moves := flat_map (fun k =>
        match nth_error ts k with
        | None => []
        | Some t =>
            match cur t with
            | None => match todo t with
                      | [] => []
                      | o :: rest => (* invoke *)
                          [ (s, replace_nth k {| todo := rest; cur := Some (o, clock, compile o) |} ts, h) ]
                      end
            | Some (o, inv, []) => []   (* cannot happen: every op ends with MRet *)
            | Some (o, inv, MRet r :: _) =>
                [ (s, replace_nth k {| todo := todo t; cur := None |} ts,
                   {| e_op := o; e_ret := r; e_inv := inv; e_res := clock |} :: h) ]
            | Some (o, inv, m :: ms) =>
                let '(s', ms') := mstep fixed s m ms in
                [ (s', replace_nth k {| todo := todo t; cur := Some (o, inv, ms') |} ts, h) ]
            end
        end) idxs in
      match moves with
      | [] => [h]          (* all threads finished *)
      | _ => flat_map (fun mv => let '(s', ts', h') := mv in explore fixed f s' ts' (S clock) h') moves
      end
  end.

(* linearizability check: search for a permutation respecting real time that the spec explains *)
Fixpoint remove_at {A} (n : nat) (l : list A) := match l, n with [], _ => [] | _ :: t, 0 => t | h :: t, S k => h :: remove_at k t end.
Fixpoint lin (fuel : nat) (s : spec) (pending : list ev) : bool :=
  match fuel with
  | 0 => false
  | S f =>
      match pending with
      | [] => true
      | _ =>
          existsb (fun k =>
            match nth_error pending k with
            | None => false
            | Some e =>
                (* e may go first only if no other pending event returned before e was invoked *)
                forallb (fun e' => negb (e_res e' <? e_inv e)) pending &&
                let '(s', r) := spec_step s (e_op e) in
                ret_eqb r (e_ret e) && lin f s' (remove_at k pending)
            end) (seq 0 (length pending))
      end
  end.

Definition mk (ops : list op) : thr := {| todo := ops; cur := None |}.
Definition nonlin (fixed : bool) (prog : list (list op)) : list (list ev) :=
  filter (fun h => negb (lin 20 spec0 h)) (explore fixed 60 impl0 (map mk prog) 0 []).

(* F09: purely sequential: instantiate x twice (second fails), then look up x *)
Definition f09 := [[Inst 0 1; Inst 0 2; Look 0]].
Eval vm_compute in (length (nonlin false f09), length (nonlin true f09)).

(* F10: instance 1 already registered as name 0; two closers, and a re-instantiation by the thread
   whose own Close has already returned *)
Definition impl1 : impl := {| nmap := [(0, 1)]; closedw := []; iname := [(1, 0)] |}.
Definition spec1 : spec := {| owner := [(0, 1)]; closed_s := [] |}.
Definition f10 := [[Close 1]; [Close 1; Inst 0 2]].
Definition f10_all := explore true 40 impl1 (map mk f10) 0 [].
Definition f10_bad := filter (fun h => negb (lin 20 spec1 h)) f10_all.
Eval vm_compute in (length f10_all, length f10_bad).
Eval vm_compute in (hd [] f10_bad).
