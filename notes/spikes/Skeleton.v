(* Spike for DESIGN §6-C01: one generic definitional interpreter for structured control flow,
   parameterised by the value domain; a logical relation between two domains lifts from the
   operators to whole programs (this is the proof skeleton of C01_slot_machine_refines_spec). *)
From Coq Require Import ZArith List Lia Bool.
Import ListNotations.
Open Scope Z_scope.

Inductive binop := Add | Sub | Mul | Ne | Eq | LtU | Shl | DivU.
Inductive instr :=
| Const (c : Z)                       (* i32.const *)
| Bin (o : binop)
| Eqz
| Drop
| LocalGet (i : nat) | LocalSet (i : nat)
| GlobalGet (i : nat) | GlobalSet (i : nat)
| Load (off : Z) | Store (off : Z)    (* i32.load / i32.store *)
| Block (body : list instr)
| Loop (body : list instr)
| If (t e : list instr)
| Br (n : nat) | BrIf (n : nat)
| Return
| Call (f : nat)
| HostCall (h : nat)                  (* pops one value, logs it, pushes what the host returns *)
| Unreachable.

Record func := { nlocals : nat; body : list instr; nargs : nat }.

(* ---------- the value domain ---------- *)
Record domain := {
  val : Type;
  of_const : Z -> val;
  d_bin : binop -> val -> val -> option val;       (* None = trap *)
  d_eqz : val -> val;
  truthy : val -> bool;                             (* br_if / if condition *)
  to_u32 : val -> Z;                                (* address / observable integer *)
  of_u32 : Z -> val;                                (* what a load / host call produces *)
}.

Inductive trap := TUnreachable | TDiv | TOob | TStack.

Section Exec.
Variable D : domain.
Variable prog : list func.
Variable host : nat -> Z -> Z.                      (* host function: observable int in, int out *)

Record st := { stack : list (val D); locals : list (val D); globals : list (val D);
               mem : Z -> Z (* word-addressed toy memory *); memlen : Z; log : list (nat * Z) }.

Inductive out := Normal (s : st) | Branch (n : nat) (s : st) | Ret (s : st) | Trap (t : trap) (s : st) | OutOfFuel.

Definition upd {A} (l : list A) (i : nat) (x : A) : list A := firstn i l ++ x :: skipn (S i) l.

Fixpoint exec (fuel : nat) (s : st) (is : list instr) {struct fuel} : out :=
  match fuel with
  | O => OutOfFuel
  | S f =>
    match is with
    | [] => Normal s
    | i :: rest =>
      let continue s' := exec f s' rest in
      let setstack s stk := {| stack := stk; locals := locals s; globals := globals s; mem := mem s; memlen := memlen s; log := log s |} in
      match i, stack s with
      | Const c, stk => continue (setstack s (of_const D c :: stk))
      | Bin o, y :: x :: stk =>
          match d_bin D o x y with
          | Some v => continue (setstack s (v :: stk))
          | None => Trap TDiv s
          end
      | Eqz, x :: stk => continue (setstack s (d_eqz D x :: stk))
      | Drop, _ :: stk => continue (setstack s stk)
      | LocalGet k, stk => match nth_error (locals s) k with
                           | Some v => continue (setstack s (v :: stk)) | None => Trap TStack s end
      | LocalSet k, v :: stk =>
          continue {| stack := stk; locals := upd (locals s) k v; globals := globals s; mem := mem s; memlen := memlen s; log := log s |}
      | GlobalGet k, stk => match nth_error (globals s) k with
                            | Some v => continue (setstack s (v :: stk)) | None => Trap TStack s end
      | GlobalSet k, v :: stk =>
          continue {| stack := stk; locals := locals s; globals := upd (globals s) k v; mem := mem s; memlen := memlen s; log := log s |}
      | Load off, a :: stk =>
          let ea := to_u32 D a + off in
          if ea + 4 <=? memlen s then continue (setstack s (of_u32 D (mem s ea) :: stk)) else Trap TOob s
      | Store off, v :: a :: stk =>
          let ea := to_u32 D a + off in
          if ea + 4 <=? memlen s then
            continue {| stack := stk; locals := locals s; globals := globals s;
                        mem := fun x => if x =? ea then to_u32 D v else mem s x; memlen := memlen s; log := log s |}
          else Trap TOob s
      | Block b, _ =>
          match exec f s b with
          | Normal s' => continue s'
          | Branch O s' => continue s'
          | Branch (S n) s' => Branch n s'
          | o => o
          end
      | Loop b, _ =>
          match exec f s b with
          | Normal s' => continue s'
          | Branch O s' => exec f s' (Loop b :: rest)
          | Branch (S n) s' => Branch n s'
          | o => o
          end
      | If t e, c :: stk =>
          match exec f (setstack s stk) (if truthy D c then t else e) with
          | Normal s' => continue s'
          | Branch O s' => continue s'
          | Branch (S n) s' => Branch n s'
          | o => o
          end
      | Br n, _ => Branch n s
      | BrIf n, c :: stk => if truthy D c then Branch n (setstack s stk) else continue (setstack s stk)
      | Return, _ => Ret s
      | Call k, stk =>
          match nth_error prog k with
          | None => Trap TStack s
          | Some fn =>
              let args := rev (firstn (nargs fn) stk) in
              let callee := {| stack := []; locals := args ++ repeat (of_const D 0) (nlocals fn);
                               globals := globals s; mem := mem s; memlen := memlen s; log := log s |} in
              let finish s' := continue {| stack := firstn 1 (stack s') ++ skipn (nargs fn) stk; locals := locals s;
                                           globals := globals s'; mem := mem s'; memlen := memlen s'; log := log s' |} in
              match exec f callee (body fn) with
              | Normal s' | Ret s' | Branch _ s' => finish s'
              | o => o
              end
          end
      | HostCall h, a :: stk =>
          let x := to_u32 D a in
          continue {| stack := of_u32 D (host h x) :: stk; locals := locals s; globals := globals s;
                      mem := mem s; memlen := memlen s; log := log s ++ [(h, x)] |}
      | Unreachable, _ => Trap TUnreachable s
      | _, _ => Trap TStack s          (* ill-typed: excluded by validation in the real development *)
      end
    end
  end.
End Exec.
Arguments stack {D} _. Arguments locals {D} _. Arguments globals {D} _. Arguments mem {D} _ _.
Arguments memlen {D} _. Arguments log {D} _.
Arguments Normal {D} _. Arguments Branch {D} _ _. Arguments Ret {D} _. Arguments Trap {D} _ _. Arguments OutOfFuel {D}.

(* ---------- two domains: the typed spec value and the interpreter's 64-bit slot ---------- *)
Definition W32 := 4294967296.
Definition spec_bin (o : binop) (x y : Z) : option Z :=
  match o with
  | Add => Some ((x + y) mod W32) | Sub => Some ((x - y) mod W32) | Mul => Some ((x * y) mod W32)
  | Ne => Some (if x =? y then 0 else 1) | Eq => Some (if x =? y then 1 else 0)
  | LtU => Some (if x <? y then 1 else 0)
  | Shl => Some ((x * 2 ^ (y mod 32)) mod W32)
  | DivU => if y =? 0 then None else Some (x / y)
  end.
Definition Spec : domain :=
  {| val := Z; of_const := fun c => c mod W32; d_bin := spec_bin; d_eqz := fun x => if x =? 0 then 1 else 0;
     truthy := fun x => negb (x =? 0); to_u32 := fun x => x; of_u32 := fun x => x mod W32 |}.

(* the slot machine as interpreter.go writes it: Ne compares the WHOLE slot, Eq truncates first *)
Definition W64 := 18446744073709551616.
Definition slot_bin (o : binop) (x y : Z) : option Z :=
  match o with
  | Add => Some (((x mod W32) + (y mod W32)) mod W32)
  | Sub => Some (((x mod W32) - (y mod W32)) mod W32)
  | Mul => Some (((x mod W32) * (y mod W32)) mod W32)
  | Ne => Some (if x =? y then 0 else 1)
  | Eq => Some (if (x mod W32) =? (y mod W32) then 1 else 0)
  | LtU => Some (if (x mod W32) <? (y mod W32) then 1 else 0)
  | Shl => Some (((x mod W32) * 2 ^ ((y mod W32) mod 32)) mod W32)
  | DivU => if (y mod W32) =? 0 then None else Some ((x mod W32) / (y mod W32))
  end.
Definition Slot : domain :=
  {| val := Z; of_const := fun c => c mod W32; d_bin := slot_bin; d_eqz := fun x => if x =? 0 then 1 else 0;
     truthy := fun x => negb ((x mod W32) =? 0); to_u32 := fun x => x mod W32; of_u32 := fun x => x mod W32 |}.

(* the logical relation: the slot is the zero-extended encoding of the value *)
Definition R (slot v : Z) : Prop := slot = v /\ 0 <= v < W32.

Lemma R_bin o a b x y : R a x -> R b y ->
  match slot_bin o a b, spec_bin o x y with
  | Some s, Some v => R s v
  | None, None => True
  | _, _ => False
  end.
Proof.
  intros [-> Hx] [-> Hy]. unfold R in *.
  destruct o; cbn [slot_bin spec_bin]; unfold W32 in *; rewrite ?(Z.mod_small x), ?(Z.mod_small y) by lia.
  - split; [reflexivity | apply Z.mod_pos_bound; lia].
  - split; [reflexivity | apply Z.mod_pos_bound; lia].
  - split; [reflexivity | apply Z.mod_pos_bound; lia].
  - destruct (_ =? _); (split; [reflexivity | lia]).
  - destruct (_ =? _); (split; [reflexivity | lia]).
  - destruct (_ <? _); (split; [reflexivity | lia]).
  - split; [reflexivity | apply Z.mod_pos_bound; lia].
  - destruct (y =? 0) eqn:E; [exact I|]. apply Z.eqb_neq in E. split; [reflexivity|].
    split; [apply Z.div_pos; lia|]. apply Z.div_lt_upper_bound; nia.
Qed.

(* without well-formedness Ne is wrong: this is what F06 injects through a host function *)
Example ne_needs_wf : slot_bin Ne 18446744073709551615 4294967295 = Some 1
                    /\ spec_bin Ne (18446744073709551615 mod W32) (4294967295 mod W32) = Some 0.
Proof. vm_compute. split; reflexivity. Qed.

(* ---------- lifting the relation from operators to programs ---------- *)
Section Lift.
Variables D1 D2 : domain.
Variable Rv : val D1 -> val D2 -> Prop.
Hypothesis H_const : forall c, Rv (of_const D1 c) (of_const D2 c).
Hypothesis H_bin : forall o a b x y, Rv a x -> Rv b y ->
  match d_bin D1 o a b, d_bin D2 o x y with
  | Some s, Some v => Rv s v | None, None => True | _, _ => False end.
Hypothesis H_eqz : forall a x, Rv a x -> Rv (d_eqz D1 a) (d_eqz D2 x).
Hypothesis H_truthy : forall a x, Rv a x -> truthy D1 a = truthy D2 x.
Hypothesis H_to : forall a x, Rv a x -> to_u32 D1 a = to_u32 D2 x.
Hypothesis H_of : forall z, Rv (of_u32 D1 z) (of_u32 D2 z).
Variable prog : list func.
Variable host : nat -> Z -> Z.

Definition Rl := Forall2 Rv.
Record Rst (s1 : st D1) (s2 : st D2) : Prop := {
  r_stack : Rl (stack s1) (stack s2);
  r_locals : Rl (locals s1) (locals s2);
  r_globals : Rl (globals s1) (globals s2);
  r_mem : forall a, mem s1 a = mem s2 a;
  r_memlen : memlen s1 = memlen s2;
  r_log : log s1 = log s2 }.

Definition Rout (o1 : out D1) (o2 : out D2) : Prop :=
  match o1, o2 with
  | Normal s1, Normal s2 | Ret s1, Ret s2 => Rst s1 s2
  | Branch n s1, Branch m s2 => n = m /\ Rst s1 s2
  | Trap t s1, Trap u s2 => t = u /\ Rst s1 s2
  | OutOfFuel, OutOfFuel => True
  | _, _ => False
  end.

Lemma Rl_nth l1 l2 k : Rl l1 l2 ->
  match nth_error l1 k, nth_error l2 k with
  | Some a, Some x => Rv a x | None, None => True | _, _ => False end.
Proof. intros H. revert k. induction H; intros [|k]; cbn; auto. apply IHForall2. Qed.
Lemma Rl_firstn n l1 l2 : Rl l1 l2 -> Rl (firstn n l1) (firstn n l2).
Proof. intros H. revert n. induction H as [|a x l1 l2 Hax H IH]; intros [|n]; cbn; try constructor; [exact Hax | apply IH]. Qed.
Lemma Rl_skipn n l1 l2 : Rl l1 l2 -> Rl (skipn n l1) (skipn n l2).
Proof.
  intros H. revert n. induction H as [|a x l1 l2 Hax H IH]; intros [|n]; cbn.
  - constructor. - constructor. - constructor; assumption. - apply IH.
Qed.
Lemma Rl_upd l1 l2 k a x : Rl l1 l2 -> Rv a x -> Rl (upd l1 k a) (upd l2 k x).
Proof.
  intros H Hax. unfold upd. apply Forall2_app; [apply Rl_firstn; auto|].
  constructor; [auto | apply Rl_skipn; auto].
Qed.
Lemma Rl_rev l1 l2 : Rl l1 l2 -> Rl (rev l1) (rev l2).
Proof. induction 1; cbn; [constructor|]. apply Forall2_app; auto. Qed.
Lemma Rl_repeat a x n : Rv a x -> Rl (repeat a n) (repeat x n).
Proof. intros H. induction n; cbn; constructor; auto. Qed.

Ltac inv H := inversion H; subst; clear H.
Ltac rst := constructor; cbn [stack locals globals mem memlen log]; auto.

Theorem exec_related fuel : forall s1 s2 is, Rst s1 s2 ->
  Rout (exec D1 prog host fuel s1 is) (exec D2 prog host fuel s2 is).
Proof.
  induction fuel as [|f IH]; intros s1 s2 is Hs; [exact I|].
  destruct is as [|i rest]; [exact Hs|].
  destruct Hs as [Hstk Hloc Hglb Hmem Hlen Hlog].
  destruct s1 as [stk1 loc1 glb1 mem1 len1 log1], s2 as [stk2 loc2 glb2 mem2 len2 log2].
  cbn [stack locals globals mem memlen log] in *. subst len2 log2.
  cbn [exec stack locals globals mem memlen log].
  destruct i.
  - (* Const *) apply IH. rst. constructor; auto.
  - (* Bin *) inv Hstk; [split; [reflexivity|rst; constructor]|]. 
    match goal with H : Forall2 _ _ _ |- _ => inv H end; [split; [reflexivity|rst; repeat constructor; auto]|].
    match goal with |- context [d_bin D1 ?o ?a ?b] => 
      match goal with |- context [d_bin D2 o ?x ?y] =>
        pose proof (H_bin o a b x y ltac:(assumption) ltac:(assumption)) as Hb end end.
    destruct (d_bin D1 _ _ _), (d_bin D2 _ _ _); try contradiction.
    + apply IH. rst. constructor; auto.
    + split; [reflexivity|]. rst. repeat constructor; auto.
  - (* Eqz *) inv Hstk; [split; [reflexivity|rst; constructor]|]. apply IH. rst. constructor; auto.
  - (* Drop *) inv Hstk; [split; [reflexivity|rst; constructor]|]. apply IH. rst.
  - (* LocalGet *) pose proof (Rl_nth _ _ i Hloc) as Hn.
    destruct (nth_error loc1 i), (nth_error loc2 i); try contradiction.
    + apply IH. rst. constructor; auto.
    + split; [reflexivity|]. rst.
  - (* LocalSet *) inv Hstk; [split; [reflexivity|rst; constructor]|]. apply IH. rst. apply Rl_upd; auto.
  - (* GlobalGet *) pose proof (Rl_nth _ _ i Hglb) as Hn.
    destruct (nth_error glb1 i), (nth_error glb2 i); try contradiction.
    + apply IH. rst. constructor; auto.
    + split; [reflexivity|]. rst.
  - (* GlobalSet *) inv Hstk; [split; [reflexivity|rst; constructor]|]. apply IH. rst. apply Rl_upd; auto.
  - (* Load *) inv Hstk; [split; [reflexivity|rst; constructor]|].
    erewrite H_to by eassumption.
    destruct (_ <=? _).
    + apply IH. rst. constructor; auto. rewrite Hmem. apply H_of.
    + split; [reflexivity|]. rst. constructor; auto.
  - (* Store *) inv Hstk; [split; [reflexivity|rst; constructor]|].
    match goal with H : Forall2 _ _ _ |- _ => inv H end; [split; [reflexivity|rst; repeat constructor; auto]|].
    repeat match goal with Hr : Rv ?a ?x |- context [to_u32 D1 ?a] => rewrite (H_to a x Hr) end.
    destruct (_ <=? _).
    + apply IH. rst. intros a. rewrite Hmem. reflexivity.
    + split; [reflexivity|]. rst. repeat constructor; auto.
  - (* Block *)
    match goal with |- context [exec D1 prog host f ?a body0] =>
      match goal with |- context [exec D2 prog host f ?b body0] =>
        pose proof (IH a b body0 ltac:(rst)) as Hb;
        destruct (exec D1 prog host f a body0) as [a'|[|n] a'|a'|t' a'|], (exec D2 prog host f b body0) as [b'|[|m] b'|b'|u' b'|] end end;
      cbn in Hb; try contradiction; try (destruct Hb; discriminate); try exact Hb;
      try (apply IH; tauto).
    destruct Hb as [E Hb]. inv E. split; auto.
  - (* Loop *)
    match goal with |- context [exec D1 prog host f ?a body0] =>
      match goal with |- context [exec D2 prog host f ?b body0] =>
        pose proof (IH a b body0 ltac:(rst)) as Hb;
        destruct (exec D1 prog host f a body0) as [a'|[|n] a'|a'|t' a'|], (exec D2 prog host f b body0) as [b'|[|m] b'|b'|u' b'|] end end;
      cbn in Hb; try contradiction; try (destruct Hb; discriminate); try exact Hb;
      try (apply IH; tauto).
    destruct Hb as [E Hb]. inv E. split; auto.
  - (* If *) inv Hstk; [split; [reflexivity|rst; constructor]|].
    erewrite H_truthy by eassumption.
    match goal with |- context [exec D1 prog host f ?a ?c] =>
      match goal with |- context [exec D2 prog host f ?b c] =>
        pose proof (IH a b c ltac:(rst)) as Hb;
        destruct (exec D1 prog host f a c) as [a'|[|n] a'|a'|t' a'|], (exec D2 prog host f b c) as [b'|[|m] b'|b'|u' b'|] end end;
      cbn in Hb; try contradiction; try (destruct Hb; discriminate); try exact Hb;
      try (apply IH; tauto).
    destruct Hb as [E Hb]. inv E. split; auto.
  - (* Br *) split; [reflexivity|]. rst.
  - (* BrIf *) inv Hstk; [split; [reflexivity|rst; constructor]|].
    erewrite H_truthy by eassumption. destruct (truthy D2 _).
    + split; [reflexivity|]. rst.
    + apply IH. rst.
  - (* Return *) rst.
  - (* Call *)
    destruct (nth_error prog f0) as [fn|]; [|split; [reflexivity|rst]].
    match goal with |- context [exec D1 prog host f ?a (body fn)] =>
      match goal with |- context [exec D2 prog host f ?b (body fn)] =>
        assert (Hc : Rst a b) by (rst; [constructor | apply Forall2_app; [apply Rl_rev, Rl_firstn; auto | apply Rl_repeat; auto]]);
        pose proof (IH a b (body fn) Hc) as Hb;
        destruct (exec D1 prog host f a (body fn)) as [a'|n a'|a'|t' a'|], (exec D2 prog host f b (body fn)) as [b'|m b'|b'|u' b'|] end end;
      cbn in Hb; try contradiction; try exact Hb.
    all: try (match type of Hb with _ /\ _ => destruct Hb as [_ Hb] end).
    all: destruct Hb as [Hs' Hl' Hg' Hm' Hn' Hlg'];
         apply IH; rst; apply Forall2_app; [apply Rl_firstn; auto | apply Rl_skipn; auto].
  - (* HostCall *) inv Hstk; [split; [reflexivity|rst; constructor]|].
    erewrite H_to by eassumption. apply IH. rst. constructor; auto.
  - (* Unreachable *) split; [reflexivity|]. rst.
Qed.
End Lift.

(* ---------- instantiate: the slot machine refines the spec for every program ---------- *)
Theorem slot_machine_refines_spec prog host fuel s1 s2 is :
  Rst Slot Spec R s1 s2 ->
  Rout Slot Spec R (exec Slot prog host fuel s1 is) (exec Spec prog host fuel s2 is).
Proof.
  apply exec_related.
  - intros c. split; [reflexivity|]. cbn. apply Z.mod_pos_bound. unfold W32. lia.
  - intros o a b x y Ha Hb. apply R_bin; assumption.
  - intros a x [-> Hx]. cbn. destruct (x =? 0); (split; [reflexivity | unfold W32; lia]).
  - intros a x [-> Hx]. cbn. rewrite Z.mod_small by assumption. reflexivity.
  - intros a x [-> Hx]. cbn. apply Z.mod_small. assumption.
  - intros z. split; [reflexivity|]. cbn. apply Z.mod_pos_bound. unfold W32. lia.
Qed.
Print Assumptions slot_machine_refines_spec.

(* non-vacuity: a program with a loop, a call, memory and a host call, run in both domains *)
Definition fact_like : list func :=
  [ {| nlocals := 1; nargs := 1;
       body := [ Const 1; LocalSet 1;
                 Block [ Loop [ LocalGet 0; Eqz; BrIf 1;
                                LocalGet 1; LocalGet 0; Bin Mul; LocalSet 1;
                                LocalGet 0; Const 1; Bin Sub; LocalSet 0; Br 0 ] ];
                 Const 16; LocalGet 1; Store 0; Const 16; Load 0; HostCall 7 ] |};
    {| nlocals := 0; nargs := 0; body := [ Const 5; Call 0 ] |} ].
Definition st0 (D : domain) : st D :=
  {| stack := []; locals := []; globals := []; mem := fun _ => 0; memlen := 65536; log := [] |}.
Definition obs {D} (o : out D) : option (list Z * list (nat * Z)) :=
  match o with Normal s => Some (map (to_u32 D) (stack s), log s) | _ => None end.
Example run_both :
  obs (exec Slot fact_like (fun _ x => x + 1) 500 (st0 Slot) [Call 1]) = Some ([121], [(7%nat, 120)]) /\
  obs (exec Spec fact_like (fun _ x => x + 1) 500 (st0 Spec) [Call 1]) = Some ([121], [(7%nat, 120)]).
Proof. vm_compute. split; reflexivity. Qed.
