(* Spike for DESIGN §6-C19: Go slices with shared backing arrays; moduleConfig.WithEnv before and
   after the F18 repair; immutability of every earlier node under any derivation sequence and ANY
   append growth policy. *)
From Coq Require Import List Arith Lia Bool.
Import ListNotations.

Definition str := nat.                                  (* strings are opaque *)
Record slice := { aid : nat; len : nat; cap : nat }.    (* offset is always 0 in config.go *)
Definition heap := list (list str).                     (* arrays by id; arrays only grow at allocation *)

Definition arr (h : heap) (a : nat) : list str := nth a h [].
Definition view (h : heap) (s : slice) : list str := firstn (len s) (arr h (aid s)).  (* visible elements *)
Definition set_arr (h : heap) (a : nat) (l : list str) : heap := firstn a h ++ l :: skipn (S a) h.

Section Grow.
Variable grow : nat -> nat -> nat.                      (* newcap = grow oldlen needed *)
Hypothesis grow_ok : forall l n, n <= grow l n.

(* append(s, xs...) exactly as Go does it: in place when capacity allows *)
Definition append (h : heap) (s : slice) (xs : list str) : heap * slice :=
  let need := len s + length xs in
  if need <=? cap s then
    let a := arr h (aid s) in
    (set_arr h (aid s) (firstn (len s) a ++ xs ++ skipn need a), {| aid := aid s; len := need; cap := cap s |})
  else
    let c := grow (len s) need in
    (h ++ [view h s ++ xs ++ repeat 0 (c - need)], {| aid := length h; len := need; cap := c |}).

(* s[i] = x *)
Definition store (h : heap) (s : slice) (i : nat) (x : str) : heap :=
  let a := arr h (aid s) in set_arr h (aid s) (firstn i a ++ x :: skipn (S i) a).

(* a moduleConfig, reduced to what WithEnv touches: environ slice + environKeys (copied map) *)
Record cfg := { environ : slice; keys : list (str * nat) }.
Fixpoint find (k : str) (m : list (str * nat)) : option nat :=
  match m with [] => None | (k', i) :: t => if k =? k' then Some i else find k t end.

Definition nil_slice : slice := {| aid := 0; len := 0; cap := 0 |}.

Definition clone (fixed : bool) (h : heap) (c : cfg) : heap * cfg :=
  if fixed then
    (* ret.environ = append([][]byte(nil), c.environ...) : always a fresh array *)
    let n := len (environ c) in
    let cp := grow 0 n in
    (h ++ [view h (environ c) ++ repeat 0 (cp - n)], {| environ := {| aid := length h; len := n; cap := cp |}; keys := keys c |})
  else (h, c).                                          (* ret := *c shares the backing array *)

Definition with_env (fixed : bool) (h : heap) (c : cfg) (k v : str) : heap * cfg :=
  let '(h1, r) := clone fixed h c in
  match find k (keys r) with
  | Some i => (store h1 (environ r) (S i) v, r)
  | None =>
      let '(h2, s) := append h1 (environ r) [k; v] in
      (h2, {| environ := s; keys := (k, len (environ r)) :: keys r |})
  end.
End Grow.

(* ---- the defect: with Go's real growth (cap doubles), two children of one parent collide ---- *)
Definition go_grow (l n : nat) := if n <=? 2 * l then 2 * l else n.
Definition base0 : heap * cfg := ([[]], {| environ := nil_slice; keys := [] |}).
Definition derive (fixed : bool) (hc : heap * cfg) (kv : str * str) :=
  with_env go_grow fixed (fst hc) (snd hc) (fst kv) (snd kv).

Example withenv_alias_refuted :
  let '(h3, p) := fold_left (derive false) [(1, 11); (2, 12); (3, 13)] base0 in  (* len 6, cap 8 *)
  let '(h4, c1) := with_env go_grow false h3 p 4 100 in
  let '(h5, c2) := with_env go_grow false h4 p 4 200 in
  view h4 (environ c1) = [1; 11; 2; 12; 3; 13; 4; 100] /\
  view h5 (environ c1) = [1; 11; 2; 12; 3; 13; 4; 200].          (* c1 changed by deriving c2 *)
Proof. vm_compute. split; reflexivity. Qed.
Example withenv_parent_rewritten_refuted :
  let '(h1, p) := with_env go_grow false (fst base0) (snd base0) 7 1 in
  let '(h2, _) := with_env go_grow false h1 p 7 2 in
  view h1 (environ p) = [7; 1] /\ view h2 (environ p) = [7; 2].
Proof. vm_compute. split; reflexivity. Qed.

(* ---- the theorem for the repaired code: any growth policy, any derivation sequence ---- *)
Section Fixed.
Variable grow : nat -> nat -> nat.
Hypothesis grow_ok : forall l n, n <= grow l n.

(* well-formed: the slice lives inside the heap and inside its array *)
Definition wf (h : heap) (c : cfg) : Prop :=
  aid (environ c) < length h /\ len (environ c) <= cap (environ c) /\
  cap (environ c) <= length (arr h (aid (environ c))) /\
  forall k i, find k (keys c) = Some i -> S i < len (environ c).

Lemma arr_app_old h l a : a < length h -> arr (h ++ l) a = arr h a.
Proof. intros H. unfold arr. apply app_nth1. exact H. Qed.
Lemma arr_app_new h l : arr (h ++ [l]) (length h) = l.
Proof. unfold arr. rewrite app_nth2 by lia. rewrite Nat.sub_diag. reflexivity. Qed.
Lemma nth_set_other {A} (h : list A) : forall a b l d, a <> b -> a < length h ->
  nth b (firstn a h ++ l :: skipn (S a) h) d = nth b h d.
Proof.
  induction h as [|x h IH]; intros a b l d Hne Ha; [cbn in Ha; lia|].
  destruct a as [|a], b as [|b]; cbn; try reflexivity; try lia.
  apply IH; cbn in Ha; lia.
Qed.
Lemma arr_set_other h a l b : a <> b -> a < length h -> arr (set_arr h a l) b = arr h b.
Proof. intros Hne Ha. unfold arr, set_arr. apply nth_set_other; assumption. Qed.
Lemma set_arr_length h a l : a < length h -> length (set_arr h a l) = length h.
Proof.
  intros H. unfold set_arr. rewrite app_length, firstn_length. cbn [length]. rewrite skipn_length. lia.
Qed.

(* one derivation only writes to the array it has just allocated *)
Lemma with_env_frame h c k v h' c' :
  wf h c -> with_env grow true h c k v = (h', c') ->
  length h <= length h' /\ (forall a, a < length h -> arr h' a = arr h a).
Proof.
  intros Hwf. unfold with_env, clone.
  set (n := len (environ c)). set (cp := grow 0 n).
  set (h1 := h ++ [view h (environ c) ++ repeat 0 (cp - n)]).
  cbn [keys environ aid len cap].
  assert (Hl1 : length h1 = S (length h)) by (unfold h1; rewrite app_length; cbn; lia).
  destruct (find k (keys c)) as [i|].
  - intros E. injection E as <- <-. unfold store. cbn [aid].
    rewrite (set_arr_length h1 (length h)) by lia. split; [lia|].
    intros a Ha. rewrite arr_set_other by lia. apply arr_app_old. exact Ha.
  - unfold append. cbn [aid len cap length]. fold n. fold cp.
    destruct (n + 2 <=? cp).
    + cbv beta iota. intros E. injection E as <- <-. rewrite (set_arr_length h1 (length h)) by lia. split; [lia|].
      intros a Ha. rewrite arr_set_other by lia. apply arr_app_old. exact Ha.
    + cbv beta iota. intros E. injection E as <- <-. rewrite app_length. split; [lia|].
      intros a Ha. rewrite arr_app_old by lia. apply arr_app_old. exact Ha.
Qed.

Lemma set_arr_same h a l : a < length h -> arr (set_arr h a l) a = l.
Proof.
  intros H. unfold arr, set_arr. rewrite app_nth2 by (rewrite firstn_length; lia).
  rewrite firstn_length, Nat.min_l by lia. rewrite Nat.sub_diag. reflexivity.
Qed.
Lemma length_cons {A} (x : A) l : length (x :: l) = S (length l).
Proof. reflexivity. Qed.
Lemma find_cons_some k k' i0 m i : find k ((k', i0) :: m) = Some i -> (i = i0) \/ find k m = Some i.
Proof. cbn. destruct (k =? k'); intros H; [left; congruence | right; exact H]. Qed.

(* the node created by a derivation is well-formed *)
Lemma with_env_wf_new h c k v h' c' :
  wf h c -> with_env grow true h c k v = (h', c') -> wf h' c'.
Proof.
  intros (Ha & Hlc & Hcl & Hk). unfold with_env, clone.
  set (n := len (environ c)). set (cp := grow 0 n).
  set (h1 := h ++ [view h (environ c) ++ repeat 0 (cp - n)]).
  cbn [keys environ aid len cap].
  assert (Hncp : n <= cp) by (unfold cp; apply grow_ok).
  assert (Hl1 : length h1 = S (length h)) by (unfold h1; rewrite app_length; cbn; lia).
  assert (Hview : length (view h (environ c)) = n).
  { unfold view. rewrite firstn_length. fold n. lia. }
  assert (Ha1 : arr h1 (length h) = view h (environ c) ++ repeat 0 (cp - n)) by (unfold h1; apply arr_app_new).
  assert (Hla1 : length (arr h1 (length h)) = cp).
  { rewrite Ha1, app_length, repeat_length. lia. }
  destruct (find k (keys c)) as [i|] eqn:Ef.
  - intros E. injection E as <- <-. unfold wf, store. cbn [aid len cap environ keys].
    rewrite set_arr_length by lia. rewrite set_arr_same by lia.
    pose proof (Hk k i Ef) as Hi. fold n in Hi.
    repeat split; try lia.
    + rewrite app_length, length_cons, firstn_length, skipn_length. lia.
    + intros k0 i0 H0. fold n. apply (Hk k0 i0 H0).
  - unfold append. cbn [aid len cap length]. fold n. fold cp.
    destruct (n + 2 <=? cp) eqn:Ecap.
    + apply Nat.leb_le in Ecap. cbv beta iota. intros E. injection E as <- <-.
      unfold wf. cbn [aid len cap environ keys].
      rewrite set_arr_length by lia. rewrite set_arr_same by lia.
      repeat split; try lia.
      * rewrite !app_length, !length_cons, firstn_length, skipn_length. cbn [length]. lia.
      * intros k0 i0 H0. apply find_cons_some in H0 as [-> | H0]; [lia|].
        pose proof (Hk k0 i0 H0). fold n in H. lia.
    + apply Nat.leb_gt in Ecap. cbv beta iota. intros E. injection E as <- <-.
      unfold wf. cbn [aid len cap environ keys].
      pose proof (grow_ok n (n + 2)) as Hg.
      rewrite app_length. cbn [length]. rewrite arr_app_new.
      repeat split; try lia.
      * rewrite !app_length, !length_cons, repeat_length.
        assert (length (view h1 {| aid := length h; len := n; cap := cp |}) = n).
        { unfold view. cbn [aid len]. rewrite firstn_length. lia. }
        lia.
      * intros k0 i0 H0. apply find_cons_some in H0 as [-> | H0]; [lia|].
        pose proof (Hk k0 i0 H0). fold n in H. lia.
Qed.

(* consequence: every EARLIER node keeps its view and stays well-formed *)
Lemma old_node_unchanged h c k v h' c' p :
  wf h c -> wf h p -> with_env grow true h c k v = (h', c') ->
  view h' (environ p) = view h (environ p) /\ wf h' p.
Proof.
  intros Hc Hp E. destruct (with_env_frame h c k v h' c' Hc E) as [Hlen Hold].
  destruct Hp as (Ha & Hlc & Hcl & Hk).
  split.
  - unfold view. rewrite Hold by exact Ha. reflexivity.
  - unfold wf. rewrite Hold by exact Ha. repeat split; try assumption; lia.
Qed.

(* any sequence of derivations, each from ANY node created so far *)
Definition deriv := (nat * str * str)%type.        (* parent index, key, value *)
Definition step (st : heap * list cfg) (d : deriv) : heap * list cfg :=
  let '(pi, k, v) := d in
  match nth_error (snd st) pi with
  | None => st
  | Some parent => let '(h', c') := with_env grow true (fst st) parent k v in (h', snd st ++ [c'])
  end.

Theorem derivations_preserve_old_nodes ds : forall h nodes,
  Forall (wf h) nodes ->
  forall p, In p nodes -> view (fst (fold_left step ds (h, nodes))) (environ p) = view h (environ p).
Proof.
  induction ds as [|[[pi k] v] ds IH]; intros h nodes Hwf p Hin; [reflexivity|].
  cbn [fold_left]. unfold step at 2. cbn [fst snd].
  destruct (nth_error nodes pi) as [parent|] eqn:En; [|apply IH; assumption].
  destruct (with_env grow true h parent k v) as [h' c'] eqn:E.
  assert (Hpar : wf h parent) by (rewrite Forall_forall in Hwf; apply Hwf; eapply nth_error_In; eassumption).
  assert (Hp : wf h p) by (rewrite Forall_forall in Hwf; apply Hwf; assumption).
  destruct (old_node_unchanged h parent k v h' c' p Hpar Hp E) as [Hv _].
  rewrite <- Hv. apply IH.
  - apply Forall_app. split.
    + rewrite Forall_forall in *. intros q Hq.
      destruct (old_node_unchanged h parent k v h' c' q Hpar (Hwf q Hq) E) as [_ Hq']. exact Hq'.
    + constructor; [|constructor]. eapply with_env_wf_new; [exact Hpar | exact E].
  - apply in_or_app. left. exact Hin.
Qed.
End Fixed.
Print Assumptions derivations_preserve_old_nodes.
