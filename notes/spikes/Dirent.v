(* Spike for DESIGN §6-C16: DirentCache.Read (internal/sys/fs.go) + fdReaddirFn/maxDirents
   (imports/wasi_snapshot_preview1/fs.go) at the level of entries; is "every entry exactly once,
   truncated rather than skipped" the true statement? Explored by exhaustive vm_compute first. *)
From Coq Require Import ZArith Lia Bool List Arith.
Import ListNotations.

(* an entry is represented by its name length (names are distinct by position) *)
Definition entry := nat.          (* name length, > 0 *)

Record cache := {
  dirents : option (list (nat * entry));   (* None = nil (re-read needed); entries tagged with index *)
  countRead : nat;
  eof : bool;
  upos : nat                                (* position of the underlying directory stream *)
}.
Definition init : cache := {| dirents := None; countRead := 0; eof := false; upos := 0 |}.

Section Dir.
Variable dir : list entry.                  (* real entries, without dot entries *)
Definition dots : list (nat * entry) := [(0, 1); (1, 2)].      (* "." and ".." with their indices *)

(* underlying Readdir(n): next n entries, tagged with global index (+2 for the dots) *)
Definition u_readdir (pos n : nat) : list (nat * entry) :=
  combine (seq (pos + 2) n) (firstn n (skipn pos dir)).

Definition cached (c : cache) (n : nat) : list (nat * entry) :=
  match dirents c with None => [] | Some l => firstn n l end.

Inductive res := ENOENT | OK (c : cache) (out : list (nat * entry)).

(* DirentCache.Read(pos, n), n >= 3 always in fd_readdir *)
Definition read (c : cache) (pos n : nat) : res :=
  if countRead c <? pos then ENOENT else
  let c := match dirents c with
           | Some _ => if pos =? 0 then {| dirents := None; countRead := 0; eof := eof c; upos := 0 |} else c
           | None => c end in
  if n =? 0 then OK c [] else
  match dirents c with
  | None =>
      let toRead := n - 2 in
      let got := u_readdir (upos c) toRead in
      if (toRead =? 0) then OK {| dirents := Some dots; countRead := 2; eof := false; upos := upos c |} [] (* named result is still nil *)
      else
      let c' := match got with
                | [] => {| dirents := Some dots; countRead := 2; eof := false; upos := upos c |}
                | _ => {| dirents := Some (dots ++ got); countRead := 2 + length got;
                          eof := length got <? toRead; upos := upos c + length got |}
                end in
      OK c' (cached c' n)
  | Some l =>
      let cacheStart := countRead c - length l in
      if pos <? cacheStart then ENOENT else
      let l := skipn (pos - cacheStart) l in
      let toRead := n - length l in
      let c' :=
        if (0 <? toRead) && negb (eof c) then
          let got := u_readdir (upos c) toRead in
          match got with
          | [] => {| dirents := Some l; countRead := countRead c; eof := eof c; upos := upos c |}
          | _ => {| dirents := Some (l ++ got); countRead := countRead c + length got;
                    eof := length got <? toRead; upos := upos c + length got |}
          end
        else {| dirents := Some l; countRead := countRead c; eof := eof c; upos := upos c |} in
      OK c' (cached c' n)
  end.

(* maxDirents: how many complete entries fit, and whether a truncated one follows *)
Fixpoint fit (l : list (nat * entry)) (rem : nat) : list (nat * entry) * bool * nat :=
  match l with
  | [] => ([], false, 0)
  | (i, nl) :: tl =>
      if rem =? 0 then ([], false, 0) else
      let el := 24 + nl in
      if rem <? el then ([], true, Nat.min rem 24)
      else let '(r, t, w) := fit tl (rem - el) in ((i, nl) :: r, t, el + w)
  end.

(* fd_readdir(bufLen, cookie): complete entries (with their d_next = index+1), bufused *)
Inductive rres := RErr | ROK (c : cache) (complete : list (nat * (nat * entry))) (bufused : nat).
Definition readdir (c : cache) (bufLen cookie : nat) : rres :=
  if bufLen <? 24 then RErr else
  match read c cookie (bufLen / 24 + 2) with
  | ENOENT => RErr
  | OK c' out => let '(r, t, w) := fit out bufLen in
                 (* d_next is computed from the cookie, not from the entry: cookie+1, cookie+2, ... *)
                 ROK c' (combine (seq (cookie + 1) (length r)) r) (if t then bufLen else w)
  end.

(* the client: continue from the d_next of the last complete entry; stop when bufused < bufLen *)
Inductive cres := Done (l : list (nat * entry)) | More (l : list (nat * entry)) | Fail (l : list (nat * entry)).
Fixpoint client (fuel : nat) (c : cache) (bufs : nat -> nat) (step cookie : nat) (acc : list (nat * entry)) : cres :=
  match fuel with
  | 0 => More acc
  | S f =>
      match readdir c (bufs step) cookie with
      | RErr => Fail acc
      | ROK c' r used =>
          let acc' := acc ++ map snd r in
          let cookie' := match rev r with [] => cookie | (dnext, _) :: _ => dnext end in
          if used <? bufs step then Done acc' else client f c' bufs (S step) cookie' acc'
      end
  end.

Definition full : list (nat * entry) := dots ++ combine (seq 2 (length dir)) dir.
End Dir.

Fixpoint is_prefix (a b : list (nat * entry)) : bool :=
  match a, b with
  | [], _ => true
  | (i, x) :: a', (j, y) :: b' => (i =? j) && (x =? y) && is_prefix a' b'
  | _, _ => false
  end.
Definition eq_list a b := is_prefix a b && is_prefix b a.

(* exhaustive exploration: all directories of up to 4 entries with name lengths in {1,9,40},
   buffer sizes cycling through a pattern *)
Definition pats : list (list nat) :=
  [[24]; [25]; [26]; [33]; [48]; [49]; [50]; [57]; [58]; [64]; [72]; [96]; [100]; [200];
   [24; 64]; [33; 25; 100]; [26; 200]; [48; 49; 50]; [64; 24; 24; 200]; [200; 24]].
Definition bufs_of (p : list nat) (i : nat) : nat := nth (i mod length p) p 24.

Fixpoint dirs (n : nat) : list (list entry) :=
  match n with 0 => [[]] | S k => let ds := dirs k in ds ++ flat_map (fun d => [1 :: d; 9 :: d; 40 :: d]) (filter (fun d => length d =? k) ds) end.

Definition check1 (d : list entry) (p : list nat) : bool :=
  match client d 200 init (bufs_of p) 0 0 [] with
  | Done l => eq_list l (full d)
  | More l => is_prefix l (full d)     (* no progress possible with too-small buffers: still a prefix *)
  | Fail l => false
  end.
Definition bad := filter (fun dp => negb (check1 (fst dp) (snd dp))) (list_prod (dirs 4) pats).
Definition is_done (d : list entry) (p : list nat) : bool :=
  match client d 200 init (bufs_of p) 0 0 [] with Done _ => true | _ => false end.
Definition big (p : list nat) := forallb (fun b => 64 <=? b) p.
Definition notdone_big := filter (fun dp => big (snd dp) && negb (is_done (fst dp) (snd dp))) (list_prod (dirs 4) pats).
Eval vm_compute in (length (dirs 4), length bad, firstn 3 bad,
                    length (filter (fun dp => is_done (fst dp) (snd dp)) (list_prod (dirs 4) pats)),
                    length notdone_big).
