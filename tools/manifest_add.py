#!/usr/bin/env python3
"""tools/manifest_add.py <ID> <text> <note> <technique> — add or replace a check entry in MANIFEST.json."""
import json, sys
pid, text, note, tech = sys.argv[1:5]
m = json.load(open('/verif/MANIFEST.json'))
m["checks"] = [c for c in m["checks"] if c["property_id"] != pid]
m["checks"].append({"property_id": pid, "quick_cmd": "./check %s quick" % pid, "thorough_cmd": "./check %s thorough" % pid,
                    "evidence_file": "/verif/evidence/%s.json" % pid, "replay_cmd_template": "cat {path}",
                    "level_claimed": {"category": "proof", "text": text, "design_ref": "DESIGN.md §6 %s" % pid}, "level_note": note, "technique": tech})
m["checks"].sort(key=lambda c: c["property_id"])
m["not_applicable"] = [x for x in m["not_applicable"] if x["property_id"] != pid]
json.dump(m, open('/verif/MANIFEST.json', 'w'), indent=1)
