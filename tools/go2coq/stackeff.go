// Stack-effect mode of go2coq: selected `case operationKindX:` clauses of the interpreter's big
// `switch op.Kind` in callEngine.callNativeFunc are translated into Gallina functions
//
//	exec_operationKindX (op_B1 op_B2 : Z) (op_B3 : bool) (stk : list Z) : effect
//
// where `ce.popValue()` consumes the head of stk (pops are hoisted in Go's lexical evaluation order),
// `ce.pushValue(e)` conses, `panic(wasmruntime.ErrRuntimeX)` is `ETrap ErrRuntimeX`, a division by a
// variable gets Go's run-time zero check (`EGoPanic`), statements that go through floating point are
// the outcome `EOpaque`, and the trailing `frame.pc++` (required) is dropped. The meaning given to
// popValue/pushValue is checked against their current source text. A second table, "lower", records
// which unionOperation the interpreter's compiler emits for a wasm opcode. Everything outside these
// shapes is a translation error.
package main

import (
	"bytes"
	"fmt"
	"go/ast"
	"go/constant"
	"go/printer"
	"go/token"
	"go/types"
	"sort"
	"strings"
)

type casesSpec struct {
	Func        string   `json:"func"`
	Kinds       []string `json:"kinds"`
	OpaqueCalls []string `json:"opaque_calls"`
}

type lowerSpec struct {
	Func    string   `json:"func"`
	Opcodes []string `json:"opcodes"`
}

type seState struct {
	popNames  map[*ast.CallExpr]string
	npops     int
	ceObj     types.Object
	opaque    map[string]bool
	divGuards []string
}

var bitsIntrinsics = map[string]bool{
	"LeadingZeros32": true, "LeadingZeros64": true, "TrailingZeros32": true, "TrailingZeros64": true,
	"OnesCount32": true, "OnesCount64": true, "RotateLeft32": true, "RotateLeft64": true,
}

// intrinsic: calls into math/bits that coq/Lib/GoBits.v defines (stack-effect mode only).
func (f *fnTr) intrinsic(x *ast.CallExpr) (string, bool) {
	if f.se == nil {
		return "", false
	}
	sel, ok := x.Fun.(*ast.SelectorExpr)
	if !ok {
		return "", false
	}
	fo, ok := f.p.info.Uses[sel.Sel].(*types.Func)
	if !ok || fo.Pkg() == nil || fo.Pkg().Path() != "math/bits" {
		return "", false
	}
	if !bitsIntrinsics[fo.Name()] {
		fail(f.pos(x), "math/bits.%s is not a known intrinsic", fo.Name())
	}
	var args []string
	for _, a := range x.Args {
		args = append(args, f.expr(a))
	}
	return "(" + fo.Name() + " " + strings.Join(args, " ") + ")", true
}

func normWS(s string) string { return strings.Join(strings.Fields(s), " ") }

// the primitives the mode gives a fixed meaning to must still have the bodies that meaning was read from
var sePrimitives = map[string]string{
	"callEngine.popValue":  "{ stackTopIndex := len(ce.stack) - 1 v = ce.stack[stackTopIndex] ce.stack = ce.stack[:stackTopIndex] return }",
	"callEngine.pushValue": "{ ce.stack = append(ce.stack, v) }",
}

func (p *pkgTr) checkPrimitives(decls map[string]*ast.FuncDecl) {
	for key, want := range sePrimitives {
		fd, ok := decls[key]
		if !ok {
			panic(trErr{"primitive " + key + " not found"})
		}
		var buf bytes.Buffer
		if err := printer.Fprint(&buf, p.fset, fd.Body); err != nil {
			panic(trErr{"printing " + key + ": " + err.Error()})
		}
		if got := normWS(buf.String()); got != want {
			panic(trErr{fmt.Sprintf("primitive %s changed: body is now %q (stack-effect mode reads it as %q)", key, got, want)})
		}
	}
}

func isPopCall(info *types.Info, ce types.Object, c *ast.CallExpr) bool {
	sel, ok := c.Fun.(*ast.SelectorExpr)
	if !ok || sel.Sel.Name != "popValue" || len(c.Args) != 0 {
		return false
	}
	id, ok := sel.X.(*ast.Ident)
	return ok && info.Uses[id] == ce
}

func (f *fnTr) isPushCall(c *ast.CallExpr) bool {
	sel, ok := c.Fun.(*ast.SelectorExpr)
	if !ok || sel.Sel.Name != "pushValue" || len(c.Args) != 1 {
		return false
	}
	id, ok := sel.X.(*ast.Ident)
	return ok && f.p.info.Uses[id] == f.se.ceObj
}

// floaty: the expression computes with floating point (or calls a helper declared opaque in the target)
func (f *fnTr) floaty(e ast.Expr) bool {
	found := false
	ast.Inspect(e, func(n ast.Node) bool {
		if found {
			return false
		}
		ex, ok := n.(ast.Expr)
		if !ok {
			return true
		}
		if t := f.p.info.TypeOf(ex); t != nil {
			if b, ok := t.Underlying().(*types.Basic); ok && b.Info()&types.IsFloat != 0 {
				found = true
				return false
			}
		}
		if c, ok := ex.(*ast.CallExpr); ok {
			if id, ok := c.Fun.(*ast.Ident); ok && f.se.opaque[id.Name] {
				found = true
				return false
			}
		}
		return true
	})
	return found
}

// seWith translates the expressions of one statement: pops are hoisted (lexical order) into matches on
// the stack, zero-divisor guards are placed before the statement, then build makes the continuation.
func (f *fnTr) seWith(exprs []ast.Expr, build func(vals []string) string) string {
	for _, e := range exprs {
		if f.floaty(e) {
			return "EOpaque"
		}
	}
	var pops []*ast.CallExpr
	for _, e := range exprs {
		var walk func(n ast.Node, cond bool)
		walk = func(n ast.Node, cond bool) {
			ast.Inspect(n, func(m ast.Node) bool {
				switch y := m.(type) {
				case *ast.FuncLit:
					fail(f.pos(y), "function literal in stack-effect mode")
				case *ast.BinaryExpr:
					if y.Op == token.LAND || y.Op == token.LOR {
						walk(y.X, cond)
						walk(y.Y, true)
						return false
					}
				case *ast.CallExpr:
					if isPopCall(f.p.info, f.se.ceObj, y) {
						if cond {
							fail(f.pos(y), "popValue under a short-circuit operator")
						}
						pops = append(pops, y)
					}
				}
				return true
			})
		}
		walk(e, false)
	}
	sort.SliceStable(pops, func(i, j int) bool { return pops[i].Pos() < pops[j].Pos() })
	var names []string
	for _, c := range pops {
		f.se.npops++
		n := fmt.Sprintf("pop%d_", f.se.npops)
		f.se.popNames[c] = n
		names = append(names, n)
	}
	f.se.divGuards = nil
	var vals []string
	for _, e := range exprs {
		vals = append(vals, f.expr(e))
	}
	guards := f.se.divGuards
	f.se.divGuards = nil
	out := build(vals)
	for i := len(guards) - 1; i >= 0; i-- {
		out = fmt.Sprintf("(if (%s =? 0) then EGoPanic else\n  %s)", guards[i], out)
	}
	for i := len(names) - 1; i >= 0; i-- {
		out = fmt.Sprintf("match stk with [] => EUnderflow | %s :: stk =>\n  %s end", names[i], out)
	}
	return out
}

func (f *fnTr) seStmts(ss []ast.Stmt) string {
	if len(ss) == 0 {
		return "Eff stk"
	}
	s, rest := ss[0], ss[1:]
	info := f.p.info
	cont := func(more ...ast.Stmt) string { return f.seStmts(append(append([]ast.Stmt{}, more...), rest...)) }
	switch x := s.(type) {
	case *ast.EmptyStmt:
		return cont()
	case *ast.BlockStmt:
		return cont(x.List...)
	case *ast.ExprStmt:
		c, ok := x.X.(*ast.CallExpr)
		if !ok {
			fail(f.pos(x), "unsupported expression statement")
		}
		if f.isPushCall(c) {
			return f.seWith([]ast.Expr{c.Args[0]}, func(v []string) string {
				return fmt.Sprintf("let stk := %s :: stk in\n  %s", v[0], cont())
			})
		}
		if id, ok := c.Fun.(*ast.Ident); ok && id.Name == "panic" {
			if _, isB := info.Uses[id].(*types.Builtin); isB && len(c.Args) == 1 {
				if sel, ok := c.Args[0].(*ast.SelectorExpr); ok {
					if v, ok := info.Uses[sel.Sel].(*types.Var); ok && v.Pkg() != nil && v.Pkg().Name() == "wasmruntime" &&
						strings.HasPrefix(v.Name(), "ErrRuntime") {
						return "ETrap " + v.Name()
					}
				}
			}
			fail(f.pos(x), "panic with something other than a wasmruntime.ErrRuntime* sentinel")
		}
		fail(f.pos(x), "unsupported call statement in stack-effect mode")
	case *ast.DeclStmt:
		gd := x.Decl.(*ast.GenDecl)
		if gd.Tok == token.CONST || gd.Tok == token.TYPE {
			return cont()
		}
		if gd.Tok != token.VAR {
			fail(f.pos(x), "unsupported declaration")
		}
		var exprs []ast.Expr
		type bind struct {
			id  *ast.Ident
			val int // index into exprs, -1 = zero value
		}
		var binds []bind
		for _, sp := range gd.Specs {
			vs := sp.(*ast.ValueSpec)
			if len(vs.Values) != 0 && len(vs.Values) != len(vs.Names) {
				fail(f.pos(x), "unsupported var declaration")
			}
			for i, n := range vs.Names {
				t := info.Defs[n].Type()
				if _, _, isInt := intInfo(t); !isInt && !isBool(t) {
					if b, ok := t.Underlying().(*types.Basic); ok && b.Info()&types.IsFloat != 0 {
						return "EOpaque"
					}
					fail(f.pos(n), "variable %s of unsupported type %s", n.Name, t)
				}
				if i < len(vs.Values) {
					exprs = append(exprs, vs.Values[i])
					binds = append(binds, bind{n, len(exprs) - 1})
				} else {
					binds = append(binds, bind{n, -1})
				}
			}
		}
		return f.seWith(exprs, func(v []string) string {
			out := ""
			for _, b := range binds {
				val := zero(info.Defs[b.id].Type())
				if b.val >= 0 {
					val = v[b.val]
				}
				out += fmt.Sprintf("let %s := %s in\n  ", f.lhsName(b.id), val)
			}
			return out + cont()
		})
	case *ast.IncDecStmt:
		if _, ok := x.X.(*ast.Ident); !ok {
			fail(f.pos(x), "unsupported increment target (frame.pc++ is only accepted as the last statement of a case)")
		}
		t := info.TypeOf(x.X)
		op := " + 1"
		if x.Tok == token.DEC {
			op = " - 1"
		}
		return f.seWith([]ast.Expr{x.X}, func(v []string) string {
			return fmt.Sprintf("let %s := %s in\n  %s", f.lhsName(x.X), wrapTo(t, "("+v[0]+op+")"), cont())
		})
	case *ast.AssignStmt:
		for _, l := range x.Lhs {
			if _, ok := l.(*ast.Ident); !ok {
				fail(f.pos(l), "unsupported assignment target in stack-effect mode")
			}
		}
		if x.Tok != token.DEFINE && x.Tok != token.ASSIGN {
			var op token.Token
			switch x.Tok {
			case token.ADD_ASSIGN:
				op = token.ADD
			case token.SUB_ASSIGN:
				op = token.SUB
			case token.MUL_ASSIGN:
				op = token.MUL
			case token.AND_ASSIGN:
				op = token.AND
			case token.OR_ASSIGN:
				op = token.OR
			case token.XOR_ASSIGN:
				op = token.XOR
			case token.SHL_ASSIGN:
				op = token.SHL
			case token.SHR_ASSIGN:
				op = token.SHR
			case token.AND_NOT_ASSIGN:
				op = token.AND_NOT
			case token.QUO_ASSIGN:
				op = token.QUO
			case token.REM_ASSIGN:
				op = token.REM
			default:
				fail(f.pos(x), "unsupported assignment %s", x.Tok)
			}
			be := &ast.BinaryExpr{X: x.Lhs[0], Op: op, Y: x.Rhs[0], OpPos: x.TokPos}
			info.Types[be] = types.TypeAndValue{Type: info.TypeOf(x.Lhs[0])}
			return f.seWith([]ast.Expr{be}, func(v []string) string {
				return fmt.Sprintf("let %s := %s in\n  %s", f.lhsName(x.Lhs[0]), v[0], cont())
			})
		}
		if len(x.Lhs) != len(x.Rhs) {
			fail(f.pos(x), "unsupported tuple assignment in stack-effect mode")
		}
		for _, l := range x.Lhs {
			id := l.(*ast.Ident)
			if id.Name == "_" {
				continue
			}
			t := info.TypeOf(l)
			if _, _, isInt := intInfo(t); !isInt && !isBool(t) {
				if b, ok := t.Underlying().(*types.Basic); ok && b.Info()&types.IsFloat != 0 {
					return "EOpaque"
				}
				fail(f.pos(l), "assignment to %s of unsupported type %s", id.Name, t)
			}
		}
		return f.seWith(x.Rhs, func(v []string) string {
			if len(v) == 1 {
				return fmt.Sprintf("let %s := %s in\n  %s", f.lhsName(x.Lhs[0]), v[0], cont())
			}
			out := ""
			for i := range v {
				out += fmt.Sprintf("let tmp%d_ := %s in\n  ", i, v[i])
			}
			for i, l := range x.Lhs {
				out += fmt.Sprintf("let %s := tmp%d_ in\n  ", f.lhsName(l), i)
			}
			return out + cont()
		})
	case *ast.IfStmt:
		if x.Init != nil {
			y := *x
			y.Init = nil
			return cont(x.Init, &y)
		}
		return f.seWith([]ast.Expr{x.Cond}, func(v []string) string {
			thenS := cont(x.Body.List...)
			var elseS string
			if x.Else != nil {
				elseS = cont(x.Else)
			} else {
				elseS = cont()
			}
			return fmt.Sprintf("(if %s then\n  %s\n  else\n  %s)", v[0], thenS, elseS)
		})
	case *ast.SwitchStmt:
		if x.Init != nil {
			y := *x
			y.Init = nil
			return cont(x.Init, &y)
		}
		var tagE []ast.Expr
		var tagT types.Type
		if x.Tag != nil {
			tagE = []ast.Expr{x.Tag}
			tagT = info.TypeOf(x.Tag)
		}
		return f.seWith(tagE, func(v []string) string {
			type arm struct {
				cond string
				body []ast.Stmt
			}
			var arms []arm
			var deflt []ast.Stmt
			for _, cs := range x.Body.List {
				cc := cs.(*ast.CaseClause)
				for _, b := range cc.Body {
					if br, ok := b.(*ast.BranchStmt); ok {
						fail(f.pos(br), "unsupported branch statement in switch")
					}
				}
				if cc.List == nil {
					deflt = cc.Body
					continue
				}
				var cds []string
				for _, e := range cc.List {
					if x.Tag != nil {
						if tv := info.Types[e]; tv.Value == nil {
							fail(f.pos(e), "non-constant case expression")
						}
						if isBool(tagT) {
							cds = append(cds, "(Bool.eqb "+v[0]+" "+f.expr(e)+")")
						} else {
							cds = append(cds, "("+v[0]+" =? "+f.expr(e)+")")
						}
					} else {
						if f.floaty(e) {
							fail(f.pos(e), "floating-point condition in a tagless switch")
						}
						cds = append(cds, f.expr(e))
					}
				}
				arms = append(arms, arm{strings.Join(cds, " || "), cc.Body})
			}
			out := cont(deflt...)
			for i := len(arms) - 1; i >= 0; i-- {
				out = fmt.Sprintf("(if %s then\n  %s\n  else\n  %s)", arms[i].cond, cont(arms[i].body...), out)
			}
			return out
		})
	}
	fail(f.pos(s), "unsupported statement %T in stack-effect mode", s)
	return ""
}

// findKindSwitch: the `switch op.Kind` of the function and the object `op`.
func (p *pkgTr) findKindSwitch(fd *ast.FuncDecl) (*ast.SwitchStmt, types.Object) {
	var sw *ast.SwitchStmt
	var opObj types.Object
	ast.Inspect(fd.Body, func(n ast.Node) bool {
		if sw != nil {
			return false
		}
		s, ok := n.(*ast.SwitchStmt)
		if !ok || s.Tag == nil {
			return true
		}
		sel, ok := s.Tag.(*ast.SelectorExpr)
		if !ok || sel.Sel.Name != "Kind" {
			return true
		}
		id, ok := sel.X.(*ast.Ident)
		if !ok {
			return true
		}
		sw, opObj = s, p.info.Uses[id]
		return false
	})
	if sw == nil {
		panic(trErr{"no `switch op.Kind` found"})
	}
	return sw, opObj
}

func (p *pkgTr) translateCase(spec *casesSpec, decls map[string]*ast.FuncDecl, kind string) string {
	p.checkPrimitives(decls)
	fd, ok := decls[spec.Func]
	if !ok {
		panic(trErr{"function " + spec.Func + " not found"})
	}
	if fd.Recv == nil || len(fd.Recv.List) != 1 || len(fd.Recv.List[0].Names) != 1 {
		panic(trErr{"stack-effect mode needs a named receiver"})
	}
	ceObj := p.info.Defs[fd.Recv.List[0].Names[0]]
	sw, opObj := p.findKindSwitch(fd)
	var clause *ast.CaseClause
	for _, cs := range sw.Body.List {
		cc := cs.(*ast.CaseClause)
		for _, e := range cc.List {
			if id, ok := e.(*ast.Ident); ok && id.Name == kind {
				if clause != nil {
					fail(p.fset.Position(e.Pos()), "kind %s listed twice", kind)
				}
				clause = cc
			}
		}
	}
	if clause == nil {
		panic(trErr{"no case clause for " + kind})
	}
	body := clause.Body
	// the clause must end with frame.pc++ (a plain, non-branching operation); it is dropped
	if len(body) == 0 {
		fail(p.fset.Position(clause.Pos()), "empty case body")
	}
	last, ok := body[len(body)-1].(*ast.IncDecStmt)
	okPC := false
	if ok && last.Tok == token.INC {
		if sel, ok := last.X.(*ast.SelectorExpr); ok && sel.Sel.Name == "pc" {
			if id, ok := sel.X.(*ast.Ident); ok && id.Name == "frame" {
				okPC = true
			}
		}
	}
	if !okPC {
		fail(p.fset.Position(clause.Pos()), "case %s does not end with frame.pc++ (control-flow operations are outside stack-effect mode)", kind)
	}
	body = body[:len(body)-1]
	f := &fnTr{p: p, recvObjs: map[types.Object]string{opObj: "op"}, fields: map[string]bool{}, names: map[types.Object]string{},
		used: map[string]int{"stk": 1, "op_B1": 1, "op_B2": 1, "op_B3": 1}, ptrParams: map[types.Object]bool{},
		se: &seState{popNames: map[*ast.CallExpr]string{}, ceObj: ceObj, opaque: map[string]bool{}}}
	for _, o := range spec.OpaqueCalls {
		f.se.opaque[o] = true
	}
	out := f.seStmts(body)
	for k := range f.fields {
		switch k {
		case "op_B1", "op_B2", "op_B3":
		default:
			fail(p.fset.Position(clause.Pos()), "case %s reads %s (only op.B1, op.B2, op.B3 are supported)", kind, k)
		}
	}
	pos := p.fset.Position(clause.Pos())
	return fmt.Sprintf("(* %s: interpreter.go line %d *)\nDefinition exec_%s (op_B1 op_B2 : Z) (op_B3 : bool) (stk : list Z) : effect :=\n  %s.\n\n",
		kind, pos.Line, kind, out)
}

func (p *pkgTr) constZ(name string) string {
	cn, ok := p.pkg.Scope().Lookup(name).(*types.Const)
	if !ok {
		panic(trErr{"constant " + name + " not found"})
	}
	return zlit(constant.ToInt(cn.Val()))
}

// caseDispatch: exec_op dispatches a lowered operation to the translated case bodies by Kind value.
func (p *pkgTr) caseDispatch(spec *casesSpec) string {
	seen := map[string]string{}
	var sb strings.Builder
	sb.WriteString("Definition exec_op (l : lowered) (stk : list Z) : effect :=\n")
	for _, k := range spec.Kinds {
		v := p.constZ(k)
		if o, dup := seen[v]; dup {
			panic(trErr{fmt.Sprintf("kinds %s and %s have the same value", o, k)})
		}
		seen[v] = k
		sb.WriteString(fmt.Sprintf("  if l_kind l =? %s then exec_%s (l_b1 l) (l_b2 l) (l_b3 l) stk else\n", v, k))
	}
	sb.WriteString("  EOpaque.\n\n")
	return sb.String()
}

// translateLower: `case wasm.OpcodeX: c.emit(newOperationY(consts...))` together with the constructor
// newOperationY gives the unionOperation{Kind, B1, B2, B3} emitted for the opcode.
func (p *pkgTr) translateLower(spec *lowerSpec, decls map[string]*ast.FuncDecl, opc string) string {
	fd, ok := decls[spec.Func]
	if !ok {
		panic(trErr{"function " + spec.Func + " not found"})
	}
	var clause *ast.CaseClause
	ast.Inspect(fd.Body, func(n ast.Node) bool {
		cc, ok := n.(*ast.CaseClause)
		if !ok {
			return true
		}
		for _, e := range cc.List {
			if sel, ok := e.(*ast.SelectorExpr); ok && sel.Sel.Name == opc {
				if id, ok := sel.X.(*ast.Ident); ok && id.Name == "wasm" {
					if clause != nil {
						fail(p.fset.Position(e.Pos()), "opcode %s handled twice", opc)
					}
					if len(cc.List) != 1 {
						fail(p.fset.Position(e.Pos()), "opcode %s shares its case clause", opc)
					}
					clause = cc
				}
			}
		}
		return true
	})
	if clause == nil {
		panic(trErr{"no case clause for wasm." + opc})
	}
	pos := p.fset.Position(clause.Pos())
	if len(clause.Body) != 1 {
		fail(pos, "lowering of %s is not a single c.emit(...)", opc)
	}
	es, ok := clause.Body[0].(*ast.ExprStmt)
	var emit *ast.CallExpr
	if ok {
		emit, _ = es.X.(*ast.CallExpr)
	}
	if emit == nil || len(emit.Args) != 1 {
		fail(pos, "lowering of %s is not a single c.emit(...)", opc)
	}
	if sel, ok := emit.Fun.(*ast.SelectorExpr); !ok || sel.Sel.Name != "emit" {
		fail(pos, "lowering of %s is not a single c.emit(...)", opc)
	}
	ctorCall, ok := emit.Args[0].(*ast.CallExpr)
	if !ok {
		fail(pos, "c.emit argument is not a constructor call")
	}
	cid, ok := ctorCall.Fun.(*ast.Ident)
	if !ok {
		fail(pos, "c.emit argument is not a constructor call")
	}
	ctor, ok := decls[cid.Name]
	if !ok || ctor.Recv != nil {
		fail(pos, "constructor %s not found", cid.Name)
	}
	env := map[types.Object]constant.Value{}
	var params []*ast.Ident
	for _, fld := range ctor.Type.Params.List {
		params = append(params, fld.Names...)
	}
	if len(params) != len(ctorCall.Args) {
		fail(pos, "constructor %s arity", cid.Name)
	}
	for i, a := range ctorCall.Args {
		tv := p.info.Types[a]
		if tv.Value == nil {
			fail(p.fset.Position(a.Pos()), "non-constant constructor argument")
		}
		env[p.info.Defs[params[i]]] = tv.Value
	}
	fields := map[string]constant.Value{}
	var eval func(e ast.Expr) constant.Value
	eval = func(e ast.Expr) constant.Value {
		if tv, ok := p.info.Types[e]; ok && tv.Value != nil {
			return tv.Value
		}
		switch y := e.(type) {
		case *ast.ParenExpr:
			return eval(y.X)
		case *ast.Ident:
			if v, ok := env[p.info.Uses[y]]; ok {
				return v
			}
		case *ast.CallExpr:
			if tv, ok := p.info.Types[y.Fun]; ok && tv.IsType() && len(y.Args) == 1 {
				v := eval(y.Args[0])
				if w, sg, ok := intInfo(tv.Type); ok && v.Kind() == constant.Int {
					// the conversion must not change the value
					lo, hi := constant.MakeInt64(0), constant.Shift(constant.MakeInt64(1), token.SHL, uint(w))
					if sg {
						fail(p.fset.Position(e.Pos()), "signed conversion in constructor")
					}
					if constant.Compare(v, token.LSS, lo) || !constant.Compare(v, token.LSS, hi) {
						fail(p.fset.Position(e.Pos()), "conversion truncates in constructor")
					}
					return v
				}
			}
		}
		fail(p.fset.Position(e.Pos()), "unsupported expression in constructor %s", cid.Name)
		return nil
	}
	setLit := func(cl *ast.CompositeLit) {
		if id, ok := cl.Type.(*ast.Ident); !ok || id.Name != "unionOperation" {
			fail(p.fset.Position(cl.Pos()), "constructor does not build a unionOperation")
		}
		for _, el := range cl.Elts {
			kv, ok := el.(*ast.KeyValueExpr)
			if !ok {
				fail(p.fset.Position(el.Pos()), "positional composite literal")
			}
			fields[kv.Key.(*ast.Ident).Name] = eval(kv.Value)
		}
	}
	var opVar types.Object
	done := false
	for _, st := range ctor.Body.List {
		if done {
			fail(p.fset.Position(st.Pos()), "statement after return in constructor")
		}
		switch y := st.(type) {
		case *ast.ReturnStmt:
			if len(y.Results) != 1 {
				fail(p.fset.Position(st.Pos()), "bad return")
			}
			switch r := y.Results[0].(type) {
			case *ast.CompositeLit:
				if opVar != nil {
					fail(p.fset.Position(st.Pos()), "unsupported constructor shape")
				}
				setLit(r)
			case *ast.Ident:
				if opVar == nil || p.info.Uses[r] != opVar {
					fail(p.fset.Position(st.Pos()), "unsupported constructor shape")
				}
			default:
				fail(p.fset.Position(st.Pos()), "unsupported constructor shape")
			}
			done = true
		case *ast.AssignStmt:
			if y.Tok != token.DEFINE || len(y.Lhs) != 1 || len(y.Rhs) != 1 || opVar != nil {
				fail(p.fset.Position(st.Pos()), "unsupported constructor shape")
			}
			cl, ok := y.Rhs[0].(*ast.CompositeLit)
			if !ok {
				fail(p.fset.Position(st.Pos()), "unsupported constructor shape")
			}
			setLit(cl)
			opVar = p.info.Defs[y.Lhs[0].(*ast.Ident)]
		case *ast.IfStmt:
			if y.Init != nil || y.Else != nil || opVar == nil {
				fail(p.fset.Position(st.Pos()), "unsupported constructor shape")
			}
			c := eval(y.Cond)
			if c.Kind() != constant.Bool {
				fail(p.fset.Position(st.Pos()), "non-boolean condition")
			}
			for _, bs := range y.Body.List {
				as, ok := bs.(*ast.AssignStmt)
				if !ok || as.Tok != token.ASSIGN || len(as.Lhs) != 1 || len(as.Rhs) != 1 {
					fail(p.fset.Position(bs.Pos()), "unsupported constructor shape")
				}
				sel, ok := as.Lhs[0].(*ast.SelectorExpr)
				if !ok {
					fail(p.fset.Position(bs.Pos()), "unsupported constructor shape")
				}
				if id, ok := sel.X.(*ast.Ident); !ok || p.info.Uses[id] != opVar {
					fail(p.fset.Position(bs.Pos()), "unsupported constructor shape")
				}
				v := eval(as.Rhs[0])
				if constant.BoolVal(c) {
					fields[sel.Sel.Name] = v
				}
			}
		default:
			fail(p.fset.Position(st.Pos()), "unsupported constructor shape")
		}
	}
	if !done {
		fail(pos, "constructor %s does not return", cid.Name)
	}
	get := func(k, dflt string) string {
		v, ok := fields[k]
		if !ok {
			return dflt
		}
		delete(fields, k)
		if v.Kind() == constant.Bool {
			if constant.BoolVal(v) {
				return "true"
			}
			return "false"
		}
		return zlit(constant.ToInt(v))
	}
	kind, ok := fields["Kind"]
	if !ok {
		fail(pos, "constructor %s sets no Kind", cid.Name)
	}
	_ = kind
	k, b1, b2, b3 := get("Kind", "0"), get("B1", "0"), get("B2", "0"), get("B3", "false")
	for left := range fields {
		fail(pos, "constructor %s sets %s (only Kind, B1, B2, B3 are supported)", cid.Name, left)
	}
	return fmt.Sprintf("(* wasm.%s: compiler.go line %d, %s *)\nDefinition lower_%s : lowered := {| l_kind := %s; l_b1 := %s; l_b2 := %s; l_b3 := %s |}.\n",
		opc, pos.Line, cid.Name, opc, k, b1, b2, b3)
}
