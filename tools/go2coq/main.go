// go2coq translates a small, pure subset of Go (fixed-width integers, booleans, if/switch/return,
// calls between translated functions, receiver field reads) into Gallina definitions over Z with
// explicit wrap-around. It is run on every check against /repo's working tree; the generated files
// under coq/Gen are never edited by hand. Anything outside the subset is a translation error.
//
// usage: go2coq -repo /repo -targets targets.json -out /verif/coq/Gen
package main

import (
	"encoding/json"
	"flag"
	"fmt"
	"go/ast"
	"go/build"
	"go/constant"
	"go/importer"
	"go/parser"
	"go/token"
	"go/types"
	"os"
	"path/filepath"
	"sort"
	"strings"
)

type target struct {
	Pkg    string   `json:"pkg"`
	Out    string   `json:"out"`
	Funcs  []string `json:"funcs"`
	Consts []string `json:"consts"`
	Cases  *casesSpec `json:"cases"` // stack-effect mode (stackeff.go)
	Lower  *lowerSpec `json:"lower"` // opcode lowering table (stackeff.go)
}

type funcMeta struct {
	Name    string   `json:"name"`
	Params  []string `json:"params"`
	Results int      `json:"results"`
	Errors  []string `json:"error_sites"`
}

type trErr struct{ msg string }

func fail(pos token.Position, f string, a ...any) {
	panic(trErr{fmt.Sprintf("%s: %s", pos, fmt.Sprintf(f, a...))})
}

type translated struct {
	coqName     string
	fieldParams []string // suffixes relative to the receiver, sorted
	recvName    string
	nresults    int
}

type pkgTr struct {
	fset  *token.FileSet
	info  *types.Info
	pkg   *types.Package
	funcs map[string]*translated // key: Go name ("T.m" or "f")
}

type fnTr struct {
	p         *pkgTr
	recvObjs  map[types.Object]string // struct-pointer/struct params (incl. receiver): object -> coq prefix
	fields    map[string]bool         // field params used (full coq names)
	names     map[types.Object]string
	used      map[string]int
	errSites  []string
	named     []types.Object // named results
	nres      int
	ptrParams map[types.Object]bool
	se        *seState // non-nil in stack-effect mode
}

func intInfo(t types.Type) (w int, signed bool, ok bool) {
	b, isb := t.Underlying().(*types.Basic)
	if !isb {
		return 0, false, false
	}
	switch b.Kind() {
	case types.Int8:
		return 8, true, true
	case types.Int16:
		return 16, true, true
	case types.Int32:
		return 32, true, true
	case types.Int64, types.Int:
		return 64, true, true
	case types.Uint8:
		return 8, false, true
	case types.Uint16:
		return 16, false, true
	case types.Uint32:
		return 32, false, true
	case types.Uint64, types.Uint, types.Uintptr:
		return 64, false, true
	case types.UntypedInt, types.UntypedRune:
		return 0, true, true
	}
	return 0, false, false
}

func isBool(t types.Type) bool {
	b, ok := t.Underlying().(*types.Basic)
	return ok && (b.Kind() == types.Bool || b.Kind() == types.UntypedBool)
}

func isError(t types.Type) bool {
	return t.String() == "error"
}

func wrapTo(t types.Type, s string) string {
	w, sg, ok := intInfo(t)
	if !ok || w == 0 {
		return s
	}
	if sg {
		return fmt.Sprintf("(swrap %d %s)", w, s)
	}
	return fmt.Sprintf("(wrap %d %s)", w, s)
}

func zlit(v constant.Value) string {
	s := v.ExactString()
	if strings.HasPrefix(s, "-") {
		return "(" + s + ")"
	}
	return s
}

func (f *fnTr) pos(n ast.Node) token.Position { return f.p.fset.Position(n.Pos()) }

func (f *fnTr) nameOf(obj types.Object) string {
	if n, ok := f.names[obj]; ok {
		return n
	}
	base := obj.Name()
	switch base { // avoid Coq keywords / common clashes
	case "min", "max", "end", "in", "at", "as", "fun", "let", "match", "with", "then", "else", "if", "return", "Type", "Set", "Prop", "fix", "forall", "exists", "using", "where", "mod", "cofix":
		base = base + "_"
	}
	n := base
	if c := f.used[base]; c > 0 {
		n = fmt.Sprintf("%s_%d", base, c)
	}
	f.used[base]++
	f.names[obj] = n
	return n
}

// path renders x, x.a, x.a.b as a field-parameter name if rooted at a struct param.
func (f *fnTr) path(e ast.Expr) (string, bool) {
	switch x := e.(type) {
	case *ast.Ident:
		obj := f.p.info.Uses[x]
		if obj == nil {
			obj = f.p.info.Defs[x]
		}
		if p, ok := f.recvObjs[obj]; ok {
			return p, true
		}
	case *ast.SelectorExpr:
		if p, ok := f.path(x.X); ok {
			return p + "_" + x.Sel.Name, true
		}
	case *ast.ParenExpr:
		return f.path(x.X)
	case *ast.StarExpr:
		return f.path(x.X)
	}
	return "", false
}

func (f *fnTr) fieldParam(name string) string {
	f.fields[name] = true
	return name
}

func (f *fnTr) expr(e ast.Expr) string {
	info := f.p.info
	if tv, ok := info.Types[e]; ok && tv.Value != nil {
		switch tv.Value.Kind() {
		case constant.Int:
			return zlit(tv.Value)
		case constant.Bool:
			if constant.BoolVal(tv.Value) {
				return "true"
			}
			return "false"
		}
	}
	switch x := e.(type) {
	case *ast.ParenExpr:
		return f.expr(x.X)
	case *ast.Ident:
		if x.Name == "nil" {
			return "0"
		}
		obj := info.Uses[x]
		if obj == nil {
			obj = info.Defs[x]
		}
		if obj == nil {
			fail(f.pos(e), "unresolved identifier %s", x.Name)
		}
		if _, isVar := obj.(*types.Var); !isVar {
			fail(f.pos(e), "unsupported identifier %s", x.Name)
		}
		if obj.Pkg() != nil && obj.Parent() == obj.Pkg().Scope() {
			fail(f.pos(e), "package-level variable %s", x.Name)
		}
		return f.nameOf(obj)
	case *ast.SelectorExpr:
		if p, ok := f.path(e); ok {
			t := info.TypeOf(e)
			if _, _, isInt := intInfo(t); isInt || isBool(t) {
				return f.fieldParam(p)
			}
			fail(f.pos(e), "field %s of unsupported type %s", p, t)
		}
		fail(f.pos(e), "unsupported selector")
	case *ast.StarExpr:
		if id, ok := x.X.(*ast.Ident); ok {
			obj := info.Uses[id]
			if f.ptrParams[obj] {
				return f.nameOf(obj) + "_val"
			}
		}
		fail(f.pos(e), "unsupported dereference")
	case *ast.UnaryExpr:
		a := f.expr(x.X)
		t := info.TypeOf(e)
		switch x.Op {
		case token.NOT:
			return "(negb " + a + ")"
		case token.SUB:
			return wrapTo(t, "(- "+a+")")
		case token.ADD:
			return a
		case token.XOR:
			w, sg, _ := intInfo(t)
			if sg {
				return "(-1 - " + a + ")"
			}
			return fmt.Sprintf("(2 ^ %d - 1 - %s)", w, a)
		}
		fail(f.pos(e), "unsupported unary %s", x.Op)
	case *ast.BinaryExpr:
		return f.binary(x)
	case *ast.CallExpr:
		return f.call(x)
	}
	fail(f.pos(e), "unsupported expression %T", e)
	return ""
}

func (f *fnTr) isNilCmp(x *ast.BinaryExpr) (string, bool) {
	isNil := func(e ast.Expr) bool { id, ok := e.(*ast.Ident); return ok && id.Name == "nil" }
	var other ast.Expr
	if isNil(x.Y) {
		other = x.X
	} else if isNil(x.X) {
		other = x.Y
	} else {
		return "", false
	}
	t := f.p.info.TypeOf(other)
	var s string
	if id, ok := other.(*ast.Ident); ok && f.ptrParams[f.p.info.Uses[id]] {
		s = f.nameOf(f.p.info.Uses[id]) + "_nil"
	} else if isError(t) {
		s = "(is_nil " + f.expr(other) + ")"
	} else {
		fail(f.pos(x), "unsupported nil comparison on %s", t)
	}
	if x.Op == token.NEQ {
		return "(negb " + s + ")", true
	}
	return s, true
}

func (f *fnTr) binary(x *ast.BinaryExpr) string {
	info := f.p.info
	if x.Op == token.EQL || x.Op == token.NEQ {
		if s, ok := f.isNilCmp(x); ok {
			return s
		}
	}
	t := info.TypeOf(x)
	switch x.Op {
	case token.LAND:
		return "(" + f.expr(x.X) + " && " + f.expr(x.Y) + ")"
	case token.LOR:
		return "(" + f.expr(x.X) + " || " + f.expr(x.Y) + ")"
	}
	a, b := f.expr(x.X), f.expr(x.Y)
	ot := info.TypeOf(x.X)
	switch x.Op {
	case token.EQL, token.NEQ:
		var s string
		if isBool(ot) {
			s = "(Bool.eqb " + a + " " + b + ")"
		} else if _, _, ok := intInfo(ot); ok || isError(ot) {
			s = "(" + a + " =? " + b + ")"
		} else {
			fail(f.pos(x), "unsupported comparison on %s", ot)
		}
		if x.Op == token.NEQ {
			return "(negb " + s + ")"
		}
		return s
	case token.LSS:
		return "(" + a + " <? " + b + ")"
	case token.LEQ:
		return "(" + a + " <=? " + b + ")"
	case token.GTR:
		return "(" + b + " <? " + a + ")"
	case token.GEQ:
		return "(" + b + " <=? " + a + ")"
	case token.ADD:
		return wrapTo(t, "("+a+" + "+b+")")
	case token.SUB:
		return wrapTo(t, "("+a+" - "+b+")")
	case token.MUL:
		return wrapTo(t, "("+a+" * "+b+")")
	case token.AND:
		return "(Z.land " + a + " " + b + ")"
	case token.OR:
		return "(Z.lor " + a + " " + b + ")"
	case token.XOR:
		return "(Z.lxor " + a + " " + b + ")"
	case token.AND_NOT:
		return "(Z.ldiff " + a + " " + b + ")"
	case token.QUO, token.REM:
		tv := info.Types[x.Y]
		if tv.Value == nil && f.se != nil {
			// variable divisor: Go panics at run time when it is zero; the guard is hoisted before the statement
			w, sg, ok := intInfo(t)
			if !ok || w == 0 {
				fail(f.pos(x), "division on unsupported type %s", t)
			}
			f.se.divGuards = append(f.se.divGuards, b)
			if sg {
				if x.Op == token.QUO {
					return wrapTo(t, "(Z.quot "+a+" "+b+")")
				}
				return wrapTo(t, "(Z.rem "+a+" "+b+")")
			}
			if x.Op == token.QUO {
				return "(" + a + " / " + b + ")"
			}
			return "(" + a + " mod " + b + ")"
		}
		if tv.Value == nil || constant.Sign(tv.Value) <= 0 {
			fail(f.pos(x), "division only by a positive constant")
		}
		_, sg, _ := intInfo(t)
		if sg {
			if x.Op == token.QUO {
				return "(Z.quot " + a + " " + b + ")"
			}
			return "(Z.rem " + a + " " + b + ")"
		}
		if x.Op == token.QUO {
			return "(" + a + " / " + b + ")"
		}
		return "(" + a + " mod " + b + ")"
	case token.SHL, token.SHR:
		w, sg, _ := intInfo(t)
		if w == 0 {
			fail(f.pos(x), "untyped shift")
		}
		tv := info.Types[x.Y]
		if tv.Value != nil {
			k, _ := constant.Int64Val(tv.Value)
			if x.Op == token.SHL {
				if k >= int64(w) {
					return "0"
				}
				if sg {
					return fmt.Sprintf("(sshl %d %s %d)", w, a, k)
				}
				return fmt.Sprintf("(shl %d %s %d)", w, a, k)
			}
			if k >= int64(w) {
				return fmt.Sprintf("(shrv %d %s %d)", w, a, k)
			}
			return fmt.Sprintf("(shr %s %d)", a, k)
		}
		if _, bsg, _ := intInfo(info.TypeOf(x.Y)); bsg {
			fail(f.pos(x), "signed variable shift count")
		}
		if x.Op == token.SHL {
			if sg {
				return fmt.Sprintf("(sshlv %d %s %s)", w, a, b)
			}
			return fmt.Sprintf("(shlv %d %s %s)", w, a, b)
		}
		return fmt.Sprintf("(shrv %d %s %s)", w, a, b)
	}
	fail(f.pos(x), "unsupported binary %s", x.Op)
	return ""
}

func (f *fnTr) call(x *ast.CallExpr) string {
	info := f.p.info
	if s, ok := f.intrinsic(x); ok {
		return s
	}
	if f.se != nil {
		if n, ok := f.se.popNames[x]; ok {
			return n
		}
	}
	// conversion?
	if tv, ok := info.Types[x.Fun]; ok && tv.IsType() {
		if len(x.Args) != 1 {
			fail(f.pos(x), "bad conversion")
		}
		to := tv.Type
		from := info.TypeOf(x.Args[0])
		a := f.expr(x.Args[0])
		tw, tsg, tok := intInfo(to)
		fw, fsg, fok := intInfo(from)
		if !tok || !fok {
			if isBool(to) && isBool(from) {
				return a
			}
			fail(f.pos(x), "unsupported conversion %s -> %s", from, to)
		}
		if fw == 0 { // untyped constant: handled by constant folding normally
			return wrapTo(to, a)
		}
		if tsg == fsg && tw >= fw {
			return a
		}
		if !fsg && tsg && tw > fw {
			return a
		}
		return wrapTo(to, a)
	}
	// builtin len
	if id, ok := x.Fun.(*ast.Ident); ok {
		if b, isB := info.Uses[id].(*types.Builtin); isB {
			if b.Name() == "len" {
				if p, ok := f.path(x.Args[0]); ok {
					return f.fieldParam(p + "_len")
				}
				if aid, ok := x.Args[0].(*ast.Ident); ok {
					obj := info.Uses[aid]
					if _, isSlice := obj.Type().Underlying().(*types.Slice); isSlice || obj.Type().String() == "string" {
						return f.nameOf(obj) + "_len"
					}
				}
			}
			fail(f.pos(x), "unsupported builtin %s", b.Name())
		}
	}
	// error construction
	if isError(info.TypeOf(x)) {
		if _, ok := f.calleeKey(x); !ok {
			return f.errSite(x)
		}
	}
	key, ok := f.calleeKey(x)
	if !ok {
		fail(f.pos(x), "call to untranslated function")
	}
	callee := f.p.funcs[key]
	var args []string
	if sel, isSel := x.Fun.(*ast.SelectorExpr); isSel && callee.recvName != "" {
		p, ok := f.path(sel.X)
		if !ok {
			fail(f.pos(x), "method call on unsupported receiver")
		}
		for _, fp := range callee.fieldParams {
			args = append(args, f.fieldParam(p+"_"+fp))
		}
	} else if len(callee.fieldParams) > 0 {
		fail(f.pos(x), "callee %s needs struct fields", key)
	}
	for _, a := range x.Args {
		if id, ok := a.(*ast.Ident); ok && f.ptrParams[info.Uses[id]] {
			n := f.nameOf(info.Uses[id])
			args = append(args, n+"_nil", n+"_val")
			continue
		}
		args = append(args, f.expr(a))
	}
	return "(" + callee.coqName + " " + strings.Join(args, " ") + ")"
}

func (f *fnTr) calleeKey(x *ast.CallExpr) (string, bool) {
	info := f.p.info
	var obj types.Object
	switch fn := x.Fun.(type) {
	case *ast.Ident:
		obj = info.Uses[fn]
	case *ast.SelectorExpr:
		obj = info.Uses[fn.Sel]
	}
	fo, ok := obj.(*types.Func)
	if !ok {
		return "", false
	}
	key := fo.Name()
	if sig := fo.Type().(*types.Signature); sig.Recv() != nil {
		rt := sig.Recv().Type()
		if p, ok := rt.(*types.Pointer); ok {
			rt = p.Elem()
		}
		if n, ok := rt.(*types.Named); ok {
			key = n.Obj().Name() + "." + key
		}
	}
	if fo.Pkg() != f.p.pkg {
		key = fo.Pkg().Name() + "." + key
	}
	_, ok = f.p.funcs[key]
	return key, ok
}

func (f *fnTr) errSite(n ast.Node) string {
	p := f.pos(n)
	f.errSites = append(f.errSites, fmt.Sprintf("%s:%d", filepath.Base(p.Filename), p.Line))
	return fmt.Sprintf("%d", len(f.errSites))
}

func (f *fnTr) retExpr(e ast.Expr) string {
	t := f.p.info.TypeOf(e)
	if isError(t) {
		if id, ok := e.(*ast.Ident); ok {
			if id.Name == "nil" {
				return "0"
			}
			if v, isVar := f.p.info.Uses[id].(*types.Var); isVar && !(v.Pkg() != nil && v.Parent() == v.Pkg().Scope()) {
				return f.nameOf(v)
			}
			return f.errSite(e) // sentinel error variable
		}
		if c, ok := e.(*ast.CallExpr); ok {
			return f.call(c)
		}
		return f.errSite(e)
	}
	return f.expr(e)
}

func tuple(xs []string) string {
	if len(xs) == 0 {
		return "tt"
	}
	if len(xs) == 1 {
		return xs[0]
	}
	return "(" + strings.Join(xs, ", ") + ")"
}

func (f *fnTr) namedTuple() string {
	var xs []string
	for _, o := range f.named {
		xs = append(xs, f.nameOf(o))
	}
	return tuple(xs)
}

func zero(t types.Type) string {
	if isBool(t) {
		return "false"
	}
	return "0"
}

func (f *fnTr) lhsName(e ast.Expr) string {
	id, ok := e.(*ast.Ident)
	if !ok {
		fail(f.pos(e), "unsupported assignment target")
	}
	if id.Name == "_" {
		return "_"
	}
	obj := f.p.info.Defs[id]
	if obj == nil {
		obj = f.p.info.Uses[id]
	}
	return f.nameOf(obj)
}

func (f *fnTr) stmts(ss []ast.Stmt) string {
	if len(ss) == 0 {
		if f.nres == 0 {
			return "tt"
		}
		if len(f.named) == 0 {
			panic(trErr{"missing return"})
		}
		return f.namedTuple()
	}
	s, rest := ss[0], ss[1:]
	info := f.p.info
	switch x := s.(type) {
	case *ast.EmptyStmt:
		return f.stmts(rest)
	case *ast.ReturnStmt:
		if len(x.Results) == 0 {
			return f.stmts(nil)
		}
		if len(x.Results) == 1 && f.nres > 1 {
			c, ok := x.Results[0].(*ast.CallExpr)
			if !ok {
				fail(f.pos(x), "bad return")
			}
			return f.call(c)
		}
		var xs []string
		for _, r := range x.Results {
			xs = append(xs, f.retExpr(r))
		}
		return tuple(xs)
	case *ast.BlockStmt:
		return f.stmts(append(append([]ast.Stmt{}, x.List...), rest...))
	case *ast.DeclStmt:
		gd := x.Decl.(*ast.GenDecl)
		if gd.Tok != token.VAR {
			return f.stmts(rest)
		}
		out := ""
		for _, sp := range gd.Specs {
			vs := sp.(*ast.ValueSpec)
			for i, n := range vs.Names {
				v := zero(info.Defs[n].Type())
				if i < len(vs.Values) {
					v = f.retExpr(vs.Values[i])
				}
				out += fmt.Sprintf("let %s := %s in\n  ", f.lhsName(n), v)
			}
		}
		return out + f.stmts(rest)
	case *ast.IncDecStmt:
		t := info.TypeOf(x.X)
		op := " + 1"
		if x.Tok == token.DEC {
			op = " - 1"
		}
		v := wrapTo(t, "("+f.expr(x.X)+op+")")
		return fmt.Sprintf("let %s := %s in\n  %s", f.lhsName(x.X), v, f.stmts(rest))
	case *ast.AssignStmt:
		if x.Tok != token.DEFINE && x.Tok != token.ASSIGN {
			// op-assign
			var op token.Token
			switch x.Tok {
			case token.ADD_ASSIGN:
				op = token.ADD
			case token.SUB_ASSIGN:
				op = token.SUB
			case token.MUL_ASSIGN:
				op = token.MUL
			case token.AND_ASSIGN:
				op = token.AND
			case token.OR_ASSIGN:
				op = token.OR
			case token.XOR_ASSIGN:
				op = token.XOR
			case token.SHL_ASSIGN:
				op = token.SHL
			case token.SHR_ASSIGN:
				op = token.SHR
			case token.AND_NOT_ASSIGN:
				op = token.AND_NOT
			default:
				fail(f.pos(x), "unsupported assignment %s", x.Tok)
			}
			be := &ast.BinaryExpr{X: x.Lhs[0], Op: op, Y: x.Rhs[0], OpPos: x.TokPos}
			info.Types[be] = types.TypeAndValue{Type: info.TypeOf(x.Lhs[0])}
			v := f.binary(be)
			return fmt.Sprintf("let %s := %s in\n  %s", f.lhsName(x.Lhs[0]), v, f.stmts(rest))
		}
		if len(x.Rhs) == 1 && len(x.Lhs) > 1 {
			c, ok := x.Rhs[0].(*ast.CallExpr)
			if !ok {
				fail(f.pos(x), "unsupported tuple assignment")
			}
			v := f.call(c)
			var ls []string
			for _, l := range x.Lhs {
				ls = append(ls, f.lhsName(l))
			}
			return fmt.Sprintf("let '(%s) := %s in\n  %s", strings.Join(ls, ", "), v, f.stmts(rest))
		}
		if len(x.Lhs) == 1 {
			v := f.retExpr(x.Rhs[0])
			return fmt.Sprintf("let %s := %s in\n  %s", f.lhsName(x.Lhs[0]), v, f.stmts(rest))
		}
		out := ""
		var tmps []string
		for i, r := range x.Rhs {
			tmp := fmt.Sprintf("tmp%d_", i)
			tmps = append(tmps, tmp)
			out += fmt.Sprintf("let %s := %s in\n  ", tmp, f.retExpr(r))
		}
		for i, l := range x.Lhs {
			out += fmt.Sprintf("let %s := %s in\n  ", f.lhsName(l), tmps[i])
		}
		return out + f.stmts(rest)
	case *ast.IfStmt:
		pre := ""
		if x.Init != nil {
			// translate init as a statement prefix, then the if without init
			y := *x
			y.Init = nil
			return f.stmts(append([]ast.Stmt{x.Init, &y}, rest...))
		}
		c := f.expr(x.Cond)
		thenS := f.stmts(append(append([]ast.Stmt{}, x.Body.List...), rest...))
		var elseS string
		if x.Else != nil {
			elseS = f.stmts(append([]ast.Stmt{x.Else}, rest...))
		} else {
			elseS = f.stmts(rest)
		}
		return fmt.Sprintf("%s(if %s then\n  %s\n  else\n  %s)", pre, c, thenS, elseS)
	case *ast.SwitchStmt:
		if x.Init != nil {
			y := *x
			y.Init = nil
			return f.stmts(append([]ast.Stmt{x.Init, &y}, rest...))
		}
		tag := ""
		var tagT types.Type
		if x.Tag != nil {
			tag = f.expr(x.Tag)
			tagT = info.TypeOf(x.Tag)
		}
		type arm struct {
			cond string
			body []ast.Stmt
		}
		var arms []arm
		var deflt []ast.Stmt
		hasDefault := false
		for _, cs := range x.Body.List {
			cc := cs.(*ast.CaseClause)
			for _, b := range cc.Body {
				if br, ok := b.(*ast.BranchStmt); ok {
					fail(f.pos(br), "unsupported branch statement in switch")
				}
			}
			if cc.List == nil {
				deflt = cc.Body
				hasDefault = true
				continue
			}
			var cs []string
			for _, e := range cc.List {
				if x.Tag != nil {
					if isBool(tagT) {
						cs = append(cs, "(Bool.eqb "+tag+" "+f.expr(e)+")")
					} else {
						cs = append(cs, "("+tag+" =? "+f.expr(e)+")")
					}
				} else {
					cs = append(cs, f.expr(e))
				}
			}
			arms = append(arms, arm{strings.Join(cs, " || "), cc.Body})
		}
		_ = hasDefault
		out := f.stmts(append(append([]ast.Stmt{}, deflt...), rest...))
		for i := len(arms) - 1; i >= 0; i-- {
			b := f.stmts(append(append([]ast.Stmt{}, arms[i].body...), rest...))
			out = fmt.Sprintf("(if %s then\n  %s\n  else\n  %s)", arms[i].cond, b, out)
		}
		return out
	}
	fail(f.pos(s), "unsupported statement %T", s)
	return ""
}

func (p *pkgTr) translate(key string, fd *ast.FuncDecl) (string, funcMeta) {
	f := &fnTr{p: p, recvObjs: map[types.Object]string{}, fields: map[string]bool{}, names: map[types.Object]string{},
		used: map[string]int{}, ptrParams: map[types.Object]bool{}}
	coqName := strings.ReplaceAll(key, ".", "_")
	var params []string
	addParams := func(fl *ast.FieldList) {
		if fl == nil {
			return
		}
		for _, fld := range fl.List {
			for _, n := range fld.Names {
				obj := p.info.Defs[n]
				if n.Name == "_" {
					params = append(params, fmt.Sprintf("(_unused%d : Z)", len(params)))
					continue
				}
				t := obj.Type()
				if pt, ok := t.(*types.Pointer); ok {
					if _, isStruct := pt.Elem().Underlying().(*types.Struct); isStruct {
						f.recvObjs[obj] = n.Name
						continue
					}
					if _, _, ok := intInfo(pt.Elem()); ok {
						f.ptrParams[obj] = true
						nm := f.nameOf(obj)
						params = append(params, "("+nm+"_nil : bool)", "("+nm+"_val : Z)")
						continue
					}
					fail(p.fset.Position(n.Pos()), "unsupported pointer parameter")
				}
				if _, isStruct := t.Underlying().(*types.Struct); isStruct {
					f.recvObjs[obj] = n.Name
					continue
				}
				if isBool(t) {
					params = append(params, "("+f.nameOf(obj)+" : bool)")
					continue
				}
				if _, isSlice := t.Underlying().(*types.Slice); isSlice || t.String() == "string" {
					params = append(params, "("+f.nameOf(obj)+"_len : Z)")
					continue
				}
				if _, _, ok := intInfo(t); ok {
					params = append(params, "("+f.nameOf(obj)+" : Z)")
					continue
				}
				// opaque parameter (context etc.): ignored
			}
		}
	}
	recvName := ""
	if fd.Recv != nil {
		addParams(fd.Recv)
		if len(fd.Recv.List[0].Names) > 0 {
			recvName = fd.Recv.List[0].Names[0].Name
		} else {
			recvName = "_"
		}
	}
	addParams(fd.Type.Params)
	body := fd.Body
	ftype := fd.Type
	// closure flattening: func outer(...) T { return func(...) ... { body } }
	if len(body.List) == 1 {
		if rs, ok := body.List[0].(*ast.ReturnStmt); ok && len(rs.Results) == 1 {
			if fl, ok := rs.Results[0].(*ast.FuncLit); ok {
				addParams(fl.Type.Params)
				body = fl.Body
				ftype = fl.Type
			}
		}
	}
	if ftype.Results != nil {
		for _, fld := range ftype.Results.List {
			if len(fld.Names) == 0 {
				f.nres++
			}
			for _, n := range fld.Names {
				f.nres++
				f.named = append(f.named, p.info.Defs[n])
			}
		}
	}
	// named results start at their zero value
	pre := ""
	for _, o := range f.named {
		pre += fmt.Sprintf("let %s := %s in\n  ", f.nameOf(o), zero(o.Type()))
	}
	bodyS := pre + f.stmts(body.List)
	var fps []string
	for k := range f.fields {
		fps = append(fps, k)
	}
	sort.Strings(fps)
	var all []string
	var suffixes []string
	for _, k := range fps {
		all = append(all, "("+k+" : Z)")
		if recvName != "" && strings.HasPrefix(k, recvName+"_") {
			suffixes = append(suffixes, strings.TrimPrefix(k, recvName+"_"))
		} else {
			suffixes = append(suffixes, k)
		}
	}
	all = append(all, params...)
	p.funcs[key] = &translated{coqName: coqName, fieldParams: suffixes, recvName: recvName, nresults: f.nres}
	def := fmt.Sprintf("Definition %s %s :=\n  %s.\n", coqName, strings.Join(all, " "), bodyS)
	var pn []string
	for _, a := range all {
		pn = append(pn, strings.Trim(a, "()"))
	}
	return def, funcMeta{Name: coqName, Params: pn, Results: f.nres, Errors: f.errSites}
}

func main() {
	repo := flag.String("repo", "/repo", "repository root")
	targetsFile := flag.String("targets", "", "targets json")
	out := flag.String("out", "", "output directory")
	flag.Parse()
	// -targets names a directory of *.json files (each a list of targets), read in name order
	var targets []target
	ents, err := os.ReadDir(*targetsFile)
	if err != nil {
		panic(err)
	}
	for _, e := range ents {
		if !strings.HasSuffix(e.Name(), ".json") {
			continue
		}
		raw, err := os.ReadFile(filepath.Join(*targetsFile, e.Name()))
		if err != nil {
			panic(err)
		}
		var ts []target
		if err := json.Unmarshal(raw, &ts); err != nil {
			panic(fmt.Errorf("%s: %w", e.Name(), err))
		}
		targets = append(targets, ts...)
	}
	if err := os.Chdir(*repo); err != nil {
		panic(err)
	}
	fset := token.NewFileSet()
	imp := importer.ForCompiler(fset, "source", nil)
	status := 0
	meta := map[string][]funcMeta{}
	for _, t := range targets {
		dir := filepath.Join(*repo, t.Pkg)
		bp, err := build.Default.ImportDir(dir, 0)
		if err != nil {
			fmt.Fprintf(os.Stderr, "go2coq: %s: %v\n", t.Pkg, err)
			status = 1
			continue
		}
		var files []*ast.File
		for _, fn := range bp.GoFiles {
			af, err := parser.ParseFile(fset, filepath.Join(dir, fn), nil, 0)
			if err != nil {
				fmt.Fprintf(os.Stderr, "go2coq: %v\n", err)
				status = 1
				continue
			}
			files = append(files, af)
		}
		info := &types.Info{Types: map[ast.Expr]types.TypeAndValue{}, Defs: map[*ast.Ident]types.Object{}, Uses: map[*ast.Ident]types.Object{}}
		conf := types.Config{Importer: imp, Error: func(err error) {}}
		pkg, _ := conf.Check(bp.ImportPath, fset, files, info)
		p := &pkgTr{fset: fset, info: info, pkg: pkg, funcs: map[string]*translated{}}
		decls := map[string]*ast.FuncDecl{}
		for _, af := range files {
			for _, d := range af.Decls {
				fd, ok := d.(*ast.FuncDecl)
				if !ok || fd.Body == nil {
					continue
				}
				key := fd.Name.Name
				if fd.Recv != nil {
					rt := fd.Recv.List[0].Type
					if s, ok := rt.(*ast.StarExpr); ok {
						rt = s.X
					}
					if id, ok := rt.(*ast.Ident); ok {
						key = id.Name + "." + key
					}
				}
				decls[key] = fd
			}
		}
		var sb strings.Builder
		sb.WriteString("(* GENERATED by tools/go2coq from " + t.Pkg + " of the working tree. DO NOT EDIT. *)\n")
		if t.Cases != nil || t.Lower != nil {
			sb.WriteString("From Verif Require Import Lib.GoInt Lib.GoBits Lib.StackEff.\nOpen Scope Z_scope.\n\n")
		} else {
			sb.WriteString("From Verif Require Import Lib.GoInt.\nOpen Scope Z_scope.\n\n")
		}
		for _, c := range t.Consts {
			obj := pkg.Scope().Lookup(c)
			cn, ok := obj.(*types.Const)
			if !ok {
				fmt.Fprintf(os.Stderr, "go2coq: %s: constant %s not found\n", t.Pkg, c)
				status = 1
				continue
			}
			sb.WriteString(fmt.Sprintf("Definition %s : Z := %s.\n", c, zlit(constant.ToInt(cn.Val()))))
		}
		sb.WriteString("\n")
		for _, key := range t.Funcs {
			fd, ok := decls[key]
			if !ok {
				fmt.Fprintf(os.Stderr, "go2coq: %s: function %s not found\n", t.Pkg, key)
				status = 1
				continue
			}
			func() {
				defer func() {
					if r := recover(); r != nil {
						if te, ok := r.(trErr); ok {
							fmt.Fprintf(os.Stderr, "go2coq: %s.%s: %s\n", t.Pkg, key, te.msg)
							status = 1
							return
						}
						panic(r)
					}
				}()
				def, m := p.translate(key, fd)
				sb.WriteString(def + "\n")
				meta[t.Out] = append(meta[t.Out], m)
			}()
		}
		guarded := func(what string, fn func() string) {
			defer func() {
				if r := recover(); r != nil {
					if te, ok := r.(trErr); ok {
						fmt.Fprintf(os.Stderr, "go2coq: %s %s: %s\n", t.Pkg, what, te.msg)
						status = 1
						return
					}
					panic(r)
				}
			}()
			sb.WriteString(fn())
		}
		if t.Cases != nil {
			for _, kind := range t.Cases.Kinds {
				kind := kind
				guarded("case "+kind, func() string { return p.translateCase(t.Cases, decls, kind) })
			}
			guarded("dispatch", func() string { return p.caseDispatch(t.Cases) })
		}
		if t.Lower != nil {
			for _, opc := range t.Lower.Opcodes {
				opc := opc
				guarded("lowering "+opc, func() string { return p.translateLower(t.Lower, decls, opc) })
			}
		}
		if err := os.WriteFile(filepath.Join(*out, t.Out+".v"), []byte(sb.String()), 0o644); err != nil {
			panic(err)
		}
	}
	mj, _ := json.MarshalIndent(meta, "", " ")
	os.WriteFile(filepath.Join(*out, "gen_meta.json"), mj, 0o644)
	os.Exit(status)
}
