#!/bin/bash
# tools/seedsweep.sh [worktree-of-verif] — re-run every kept seeded change (seeded/*/patch.diff) against the CURRENT checks.
# For each seed: private worktree of /repo at HEAD (falling back to the commit recorded in meta.json "base" when the patch no
# longer applies), apply, run the property's quick check with VERIF_REPO, record caught / missed. Never touches /repo itself.
V=${1:-/verif}
cd "$V" || exit 1
OUT=$V/.work/seedsweep.txt; mkdir -p $V/.work; : > $OUT
for d in seeded/*/; do
  n=$(basename $d); p=$(python3 -c "import json;print(json.load(open('$d/meta.json'))['property'])" 2>/dev/null) || continue
  base=$(python3 -c "import json;print(json.load(open('$d/meta.json')).get('base',''))" 2>/dev/null)
  W=/tmp/wz_sweep_$n
  git -C /repo worktree remove --force $W 2>/dev/null
  git -C /repo worktree add --detach $W HEAD -q || continue
  how=HEAD
  if ! (cd $W && git apply $V/$d/patch.diff 2>/dev/null); then
    if [ -n "$base" ]; then
      git -C /repo worktree remove --force $W; git -C /repo worktree add --detach $W $base -q
      (cd $W && git apply $V/$d/patch.diff 2>/dev/null) && how=$base || how=UNAPPLICABLE
    else how=UNAPPLICABLE; fi
  fi
  if [ "$how" = UNAPPLICABLE ]; then echo "$n $p UNAPPLICABLE" >> $OUT; git -C /repo worktree remove --force $W; continue; fi
  VERIF_REPO=$W timeout 2400 ./check $p quick > .work/sweep_$n.log 2>&1; rc=$?
  v=$(grep -c '^VIOLATION' .work/sweep_$n.log); nf=$(grep -c 'no-failing-input-found' .work/sweep_$n.log)
  echo "$n $p base=$how rc=$rc violations=$v (without-input=$nf)" >> $OUT
  git -C /repo worktree remove --force $W
done
cat $OUT
