#!/bin/bash
# tools/runall.sh [seed] — run every claimed check's quick tier against /repo and summarise (regenerates evidence/).
cd "$(dirname "$0")/.."
SEED=${1:-1}
for p in $(python3 -c "import json; print(' '.join(c['property_id'] for c in json.load(open('MANIFEST.json'))['checks']))"); do
  s=$(date +%s)
  VERIF_SEED=$SEED timeout 2400 ./check $p quick > .work/runall_$p.log 2>&1
  rc=$?
  e=$(( $(date +%s) - s ))
  echo "$p rc=$rc ${e}s $(grep -c '^VIOLATION' .work/runall_$p.log) violations, $(grep -c '^KNOWN-FINDING' .work/runall_$p.log) known"
done
