#!/bin/bash
# tools/seedtest.sh <PROP> <seed-worktree> [name]: validate a seeded defect and run the property's check against it.
# Uses a private worktree /tmp/wz_seed of /repo; never touches /repo itself.
P=$1; SD=$2; NAME=${3:-$P}
export GOFLAGS=-mod=mod GOPROXY=off GOSUMDB=off GOTOOLCHAIN=local
W=/tmp/wz_seed_$NAME
git -C /repo worktree remove --force $W 2>/dev/null
git -C /repo worktree add --detach $W HEAD -q || exit 1
OUT=/verif/seeded/$NAME; mkdir -p $OUT
cp $SD/zz_demo/patch.diff $OUT/patch.diff
cp $SD/zz_demo/*.go $OUT/ 2>/dev/null; cp $SD/zz_demo/README.md $OUT/README.agent.md 2>/dev/null
mkdir -p $W/zz_demo; cp $SD/zz_demo/*.go $W/zz_demo/
cd $W
echo "== demo on unchanged tree"; (timeout 600 go test -count=1 -vet=off ./zz_demo/ 2>&1 | tail -3) > $OUT/demo_clean.txt; cat $OUT/demo_clean.txt
git apply $OUT/patch.diff || { echo "PATCH DOES NOT APPLY"; exit 1; }
echo "== build"; go build ./... && echo build-ok
echo "== demo with patch"; (timeout 600 go test -count=1 -vet=off ./zz_demo/ 2>&1 | tail -5) > $OUT/demo_patched.txt; cat $OUT/demo_patched.txt
rm -rf $W/zz_demo
echo "== check $P quick against the patched tree"
cd /verif && VERIF_REPO=$W timeout 1500 ./check $P quick > $OUT/check_quick.txt 2>&1; echo "exit=$?" >> $OUT/check_quick.txt; grep -v "^\[$P\] note" $OUT/check_quick.txt | tail -6
