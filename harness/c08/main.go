// C08 correspondence harness: generated host-function signatures x definition styles x call forms x
// re-entrancy on both engines. For every call it records the values seen inside the host function, the
// values the host returned, what the caller received and what an exported identity function returned
// when the host called back into the guest; plus what FunctionABI.Init computes for the signature.
package main

import (
	"context"
	"flag"
	"fmt"
	"math"
	"reflect"
	"sync"

	"github.com/tetratelabs/wazero"
	"github.com/tetratelabs/wazero/api"
	"github.com/tetratelabs/wazero/internal/engine/wazevo/backend"
	"github.com/tetratelabs/wazero/internal/engine/wazevo/backend/isa/amd64"
	"github.com/tetratelabs/wazero/internal/engine/wazevo/frontend"
	"github.com/tetratelabs/wazero/internal/wasm"
	c "github.com/tetratelabs/wazero/internal/zz_verif/common"
)

// a Go value of a given kind: unsigned kinds and float bit patterns in U, signed kinds in S
type gv struct {
	U uint64
	S int64
}

func (v gv) num(k string) any {
	if k == "i32" || k == "i64" {
		return v.S
	}
	return v.U
}

type Call struct {
	T      string   `json:"t"`
	Sid    int      `json:"sid"`
	Engine string   `json:"engine"`
	Style  string   `json:"style"` // reflect | gofunc | gomod
	Ctx    string   `json:"ctx"`   // reflect only: none | ctx | ctxmod
	Form   string   `json:"form"`  // call | stack
	Reent  bool     `json:"reent"`
	PT     []string `json:"pt"`
	RT     []string `json:"rt"`
	PK     []string `json:"pk"`
	RK     []string `json:"rk"`
	Args   []uint64 `json:"args"`
	HRet   []any    `json:"hret"`
	Seen   []any    `json:"seen"`
	Raw    []uint64 `json:"raw,omitempty"` // stack-based styles: the slots as the host found them
	Got    []uint64 `json:"got"`
	Back   []uint64 `json:"back,omitempty"`
	Calls  int      `json:"calls"` // times the host function ran
	Err    string   `json:"err,omitempty"`
	Defined bool    `json:"defined,omitempty"` // reflect style: parameter/result types are DEFINED types (type T float32 ...)
}

type Abi struct {
	T        string     `json:"t"`
	Sid      int        `json:"sid"`
	PT       []string   `json:"pt"`
	RT       []string   `json:"rt"`
	Args     [][3]int64 `json:"args"` // kind (0 reg, 1 stack), real register, offset
	Rets     [][3]int64 `json:"rets"`
	ArgStack int64      `json:"argstack"`
	RetStack int64      `json:"retstack"`
	Aligned  uint32     `json:"aligned"`
	GSA      int64      `json:"gsa"`
	GSU      int64      `json:"gsu"`
}

var tyByte = map[string]byte{"i32": c.I32, "i64": c.I64, "f32": c.F32, "f64": c.F64, "externref": c.ExternRef}
var kindsOf = map[string][]string{"i32": {"u32", "i32"}, "i64": {"u64", "i64"}, "f32": {"f32"}, "f64": {"f64"}, "externref": {"ptr"}}

var goType = map[string]reflect.Type{
	"u32": reflect.TypeOf(uint32(0)), "i32": reflect.TypeOf(int32(0)), "u64": reflect.TypeOf(uint64(0)), "i64": reflect.TypeOf(int64(0)),
	"f32": reflect.TypeOf(float32(0)), "f64": reflect.TypeOf(float64(0)), "ptr": reflect.TypeOf(uintptr(0)),
}
// defined types with the same underlying types (the builder accepts them by kind): used for every other signature
type (
	dU32 uint32
	dI32 int32
	dU64 uint64
	dI64 int64
	dF32 float32
	dF64 float64
	dPtr uintptr
)

var goTypeDefined = map[string]reflect.Type{
	"u32": reflect.TypeOf(dU32(0)), "i32": reflect.TypeOf(dI32(0)), "u64": reflect.TypeOf(dU64(0)), "i64": reflect.TypeOf(dI64(0)),
	"f32": reflect.TypeOf(dF32(0)), "f64": reflect.TypeOf(dF64(0)), "ptr": reflect.TypeOf(dPtr(0)),
}

// bitsOf / valueOfBits move the raw bits of a value of kind k in and out of a reflect.Value of type t through memory
// (no numeric conversion anywhere, whatever the type's name)
func bitsOf(v reflect.Value, k string) gv {
	p := reflect.New(v.Type())
	p.Elem().Set(v)
	switch k {
	case "u32", "f32":
		return gv{U: uint64(*(*uint32)(p.UnsafePointer()))}
	case "i32":
		return gv{S: int64(*(*int32)(p.UnsafePointer()))}
	case "i64":
		return gv{S: *(*int64)(p.UnsafePointer())}
	default:
		return gv{U: *(*uint64)(p.UnsafePointer())}
	}
}
func valueOfBits(v gv, k string, t reflect.Type) reflect.Value {
	p := reflect.New(t)
	switch k {
	case "u32", "f32":
		*(*uint32)(p.UnsafePointer()) = uint32(v.U)
	case "i32":
		*(*int32)(p.UnsafePointer()) = int32(v.S)
	case "i64":
		*(*int64)(p.UnsafePointer()) = v.S
	default:
		*(*uint64)(p.UnsafePointer()) = v.U
	}
	return p.Elem()
}

var (
	ctxType = reflect.TypeOf((*context.Context)(nil)).Elem()
	modType = reflect.TypeOf((*api.Module)(nil)).Elem()
)

// ---- Go values <-> reflect.Value without any numeric conversion ----
func fromReflect(v reflect.Value, k string) gv {
	switch k {
	case "u32", "u64", "ptr":
		return gv{U: v.Uint()}
	case "i32", "i64":
		return gv{S: v.Int()}
	case "f32":
		return gv{U: uint64(math.Float32bits(v.Interface().(float32)))}
	case "f64":
		return gv{U: math.Float64bits(v.Interface().(float64))}
	}
	panic(k)
}

func toReflect(v gv, k string) reflect.Value {
	switch k {
	case "u32":
		return reflect.ValueOf(uint32(v.U))
	case "i32":
		return reflect.ValueOf(int32(v.S))
	case "u64":
		return reflect.ValueOf(v.U)
	case "i64":
		return reflect.ValueOf(v.S)
	case "f32":
		return reflect.ValueOf(math.Float32frombits(uint32(v.U)))
	case "f64":
		return reflect.ValueOf(math.Float64frombits(v.U))
	case "ptr":
		return reflect.ValueOf(uintptr(v.U))
	}
	panic(k)
}

// ---- the api helpers, as a stack-based host function uses them ----
func apiDecode(k string, s uint64) gv {
	switch k {
	case "u32":
		return gv{U: uint64(api.DecodeU32(s))}
	case "i32":
		return gv{S: int64(api.DecodeI32(s))}
	case "u64":
		return gv{U: s}
	case "i64":
		return gv{S: int64(s)}
	case "f32":
		return gv{U: uint64(math.Float32bits(api.DecodeF32(s)))}
	case "f64":
		return gv{U: math.Float64bits(api.DecodeF64(s))}
	case "ptr":
		return gv{U: uint64(api.DecodeExternref(s))}
	}
	panic(k)
}

func apiEncode(k string, v gv) uint64 {
	switch k {
	case "u32":
		return api.EncodeU32(uint32(v.U))
	case "i32":
		return api.EncodeI32(int32(v.S))
	case "u64":
		return v.U
	case "i64":
		return api.EncodeI64(v.S)
	case "f32":
		return api.EncodeF32(math.Float32frombits(uint32(v.U)))
	case "f64":
		return api.EncodeF64(math.Float64frombits(v.U))
	case "ptr":
		return api.EncodeExternref(uintptr(v.U))
	}
	panic(k)
}

// ---- per-call record shared with the host functions of one runtime ----
type rec struct {
	pk, rk []string
	hret   []gv
	reent  bool
	form   string
	seen   []gv
	raw    []uint64
	back   []uint64
	calls  int
	err    string
}

type env struct {
	cur   *rec
	guest api.Module
}

func (e *env) body(ctx context.Context, mod api.Module, seen []gv) {
	r := e.cur
	r.calls++
	r.seen = seen
	if r.reent && r.calls == 1 {
		m := mod
		if m == nil {
			m = e.guest
		}
		args := make([]uint64, len(seen))
		for i := range seen {
			args[i] = apiEncode(r.pk[i], seen[i])
		}
		back := m.ExportedFunction("back")
		if r.form == "stack" {
			err := back.CallWithStack(ctx, args)
			if err != nil {
				r.err = "back: " + err.Error()
			}
			r.back = args
		} else {
			res, err := back.Call(ctx, args...)
			if err != nil {
				r.err = "back: " + err.Error()
			}
			r.back = res
		}
	}
}

func (e *env) stackFn(ctx context.Context, mod api.Module, stack []uint64) {
	r := e.cur
	n := len(r.pk)
	r.raw = append([]uint64(nil), stack[:n]...)
	seen := make([]gv, n)
	for i := 0; i < n; i++ {
		seen[i] = apiDecode(r.pk[i], stack[i])
	}
	e.body(ctx, mod, seen)
	for j, k := range r.rk {
		stack[j] = apiEncode(k, r.hret[j])
	}
}

// reflectFn builds a Go function with typed parameters and results for WithFunc.
func (e *env) reflectFn(ctxKind string, pk, rk []string, defined bool) any {
	goType := goType
	if defined {
		goType = goTypeDefined
	}
	var in, out []reflect.Type
	off := 0
	if ctxKind != "none" {
		in = append(in, ctxType)
		off++
	}
	if ctxKind == "ctxmod" {
		in = append(in, modType)
		off++
	}
	for _, k := range pk {
		in = append(in, goType[k])
	}
	for _, k := range rk {
		out = append(out, goType[k])
	}
	ft := reflect.FuncOf(in, out, false)
	return reflect.MakeFunc(ft, func(a []reflect.Value) []reflect.Value {
		r := e.cur
		ctx := context.Background()
		var mod api.Module
		if ctxKind != "none" && !a[0].IsNil() {
			ctx = a[0].Interface().(context.Context)
		}
		if ctxKind == "ctxmod" && !a[1].IsNil() {
			mod = a[1].Interface().(api.Module)
		}
		seen := make([]gv, len(pk))
		for i, k := range pk {
			if defined {
				seen[i] = bitsOf(a[off+i], k)
			} else {
				seen[i] = fromReflect(a[off+i], k)
			}
		}
		e.body(ctx, mod, seen)
		res := make([]reflect.Value, len(rk))
		for j, k := range rk {
			if defined {
				res[j] = valueOfBits(r.hret[j], k, goType[k])
			} else {
				res[j] = toReflect(r.hret[j], k)
			}
		}
		return res
	}).Interface()
}

func vts(ts []string) []byte {
	o := make([]byte, len(ts))
	for i, t := range ts {
		o[i] = tyByte[t]
	}
	return o
}

var styles = []string{"reflect", "gofunc", "gomod"}

func guestMod(pt, rt []string) []byte {
	m := &c.Mod{}
	p, r := vts(pt), vts(rt)
	m.Types = [][]byte{c.FT(p, r), c.FT(p, p)}
	for _, s := range styles {
		m.Imports = append(m.Imports, c.ImportFunc("env", "h_"+s, 0))
	}
	m.Funcs = [][]byte{c.U32(0), c.U32(0), c.U32(0), c.U32(1)}
	var gets [][]byte
	for i := range pt {
		gets = append(gets, c.LocalGet(uint32(i)))
	}
	for i, s := range styles {
		m.Codes = append(m.Codes, c.Code(nil, c.Cat(gets...), c.Call(uint32(i))))
		m.Exports = append(m.Exports, c.Export("echo_"+s, 0, uint32(3+i)))
	}
	m.Codes = append(m.Codes, c.Code(nil, c.Cat(gets...)))
	m.Exports = append(m.Exports, c.Export("back", 0, 6))
	return m.Bytes()
}

// ---- values ----
var vals32 = []uint64{0, 1, 0x7fffffff, 0x80000000, 0xffffffff, 0xfffffffe, 0x80000001, 0xdeadbeef, 0x00010000}
var vals64 = []uint64{0, 1, 0xffffffff, 0x100000000, 0x7fffffffffffffff, 0x8000000000000000, 0xffffffffffffffff, 0xffffffff00000000, 0xdeadbeefcafef00d, 0x80000000}
var valsF32 = []uint64{0, 0x80000000, 0x3f800000, 0xbf800000, 0x7f800000, 0xff800000, 0x7fc00000, 0xffc00000, 0x7fa00000, 0xffa00001, 0x7f800001,
	0x7fbfffff, 0x7fffffff, 0x7fc00001, 0xffffffff, 0x00000001, 0x007fffff, 0x00800000, 0x7f7fffff, 0x80000001, 0x3eaaaaab, 0x4b7fffff}
var valsF64 = []uint64{0, 0x8000000000000000, 0x3ff0000000000000, 0x7ff0000000000000, 0xfff0000000000000, 0x7ff8000000000000, 0x7ff4000000000000,
	0x7ff0000000000001, 0xfff4000000000001, 0x7fffffffffffffff, 0xffffffffffffffff, 0x0000000000000001, 0x000fffffffffffff, 0x0010000000000000,
	0x7fefffffffffffff, 0x47efffffffffffff, 0x36a0000000000000, 0x3fd5555555555555, 0x7ff00000ffffffff, 0xfff8000000000001}

func pickSlot(rng *c.Rng, t string) uint64 {
	rnd := rng.Intn(3) == 0
	switch t {
	case "i32":
		if rnd {
			return rng.U64() & 0xffffffff
		}
		return rng.Pick(vals32)
	case "f32":
		if rnd {
			return rng.U64() & 0xffffffff
		}
		return rng.Pick(valsF32)
	case "f64":
		if rnd {
			return rng.U64()
		}
		return rng.Pick(valsF64)
	default:
		if rnd {
			return rng.U64()
		}
		return rng.Pick(vals64)
	}
}

// the Go value of kind k whose canonical slot is s
func valOfSlot(k string, s uint64) gv {
	switch k {
	case "i32":
		return gv{S: int64(int32(uint32(s)))}
	case "i64":
		return gv{S: int64(s)}
	}
	return gv{U: s}
}

// ---- signatures ----
type sig struct {
	pt, rt []string
}

var num4 = []string{"i32", "i64", "f32", "f64"}

func genTypes(rng *c.Rng, mode int) []string {
	var ts []string
	ints := []string{"i32", "i64"}
	flts := []string{"f32", "f64"}
	add := func(from []string, n int) {
		for i := 0; i < n; i++ {
			ts = append(ts, from[rng.Intn(len(from))])
		}
	}
	switch mode {
	case 0: // around the register -> stack cliffs, grouped
		add(ints, 5+rng.Intn(6))
		add(flts, 6+rng.Intn(5))
	case 1: // around the cliffs, interleaved
		ni, nf := 5+rng.Intn(6), 6+rng.Intn(5)
		for ni > 0 || nf > 0 {
			if nf == 0 || (ni > 0 && rng.Bool()) {
				add(ints, 1)
				ni--
			} else {
				add(flts, 1)
				nf--
			}
		}
	case 2: // one type, maximal arity
		t := num4[rng.Intn(4)]
		for i := 0; i < 24; i++ {
			ts = append(ts, t)
		}
	case 3: // small
		add(num4, rng.Intn(4))
	default:
		add(num4, rng.Intn(25))
	}
	if len(ts) > 24 {
		ts = ts[:24]
	}
	for i := range ts {
		if ts[i] == "i64" && rng.Intn(12) == 0 {
			ts[i] = "externref"
		}
	}
	return ts
}

func wasmTypes(ts []string) []wasm.ValueType { return vts(ts) }

func abiOf(sid int, s sig) Abi {
	ft := &wasm.FunctionType{Params: wasmTypes(s.pt), Results: wasmTypes(s.rt)}
	ssaSig := frontend.SignatureForWasmFunctionType(ft)
	a := amd64.ZZVerifABI(&ssaSig)
	conv := func(xs []backend.ABIArg) [][3]int64 {
		o := make([][3]int64, len(xs))
		for i := range xs {
			x := &xs[i]
			if x.Kind == backend.ABIArgKindReg {
				o[i] = [3]int64{0, int64(x.Reg.RealReg()), 0}
			} else {
				o[i] = [3]int64{1, 0, x.Offset}
			}
		}
		return o
	}
	gsa, gsu := backend.GoFunctionCallRequiredStackSize(&ssaSig, 2)
	return Abi{T: "abi", Sid: sid, PT: s.pt, RT: s.rt, Args: conv(a.Args), Rets: conv(a.Rets), ArgStack: a.ArgStackSize, RetStack: a.RetStackSize,
		Aligned: a.AlignedArgResultStackSlotSize(), GSA: gsa, GSU: gsu}
}

type plan struct {
	style, ctx, form string
	reent            bool
	pk, rk           []string
	args             []uint64
	hret             []gv
}

func runSig(ctx context.Context, sid int, s sig, engine string, plans []plan) []Call {
	var rc wazero.RuntimeConfig
	if engine == "compiler" {
		rc = wazero.NewRuntimeConfigCompiler()
	} else {
		rc = wazero.NewRuntimeConfigInterpreter()
	}
	r := wazero.NewRuntimeWithConfig(ctx, rc)
	defer r.Close(ctx)
	e := &env{}
	fail := func(err string) []Call {
		var out []Call
		for _, p := range plans {
			out = append(out, Call{T: "call", Sid: sid, Engine: engine, Style: p.style, Ctx: p.ctx, Form: p.form, Reent: p.reent, PT: s.pt, RT: s.rt, PK: p.pk, RK: p.rk, Err: err})
		}
		return out
	}
	// one host module exporting the same signature in the three definition styles; the Go kinds are those of the first plan of each style
	b := r.NewHostModuleBuilder("env")
	byStyle := map[string]plan{}
	for _, p := range plans {
		if _, ok := byStyle[p.style]; !ok {
			byStyle[p.style] = p
		}
	}
	pv, rv := vts(s.pt), vts(s.rt)
	for _, st := range styles {
		p, ok := byStyle[st]
		if !ok {
			p = plan{style: st, ctx: "none", pk: defaultKinds(s.pt), rk: defaultKinds(s.rt)}
		}
		switch st {
		case "reflect":
			b = b.NewFunctionBuilder().WithFunc(e.reflectFn(p.ctx, p.pk, p.rk, sid%2 == 1)).Export("h_reflect")
		case "gofunc":
			b = b.NewFunctionBuilder().WithGoFunction(api.GoFunc(func(ctx context.Context, stack []uint64) { e.stackFn(ctx, nil, stack) }), pv, rv).Export("h_gofunc")
		case "gomod":
			b = b.NewFunctionBuilder().WithGoModuleFunction(api.GoModuleFunc(func(ctx context.Context, mod api.Module, stack []uint64) { e.stackFn(ctx, mod, stack) }), pv, rv).Export("h_gomod")
		}
	}
	if _, err := b.Instantiate(ctx); err != nil {
		return fail("host: " + err.Error())
	}
	g, err := r.Instantiate(ctx, guestMod(s.pt, s.rt))
	if err != nil {
		return fail("guest: " + err.Error())
	}
	e.guest = g
	var out []Call
	for _, p := range plans {
		rc := &rec{pk: p.pk, rk: p.rk, hret: p.hret, reent: p.reent, form: p.form}
		e.cur = rc
		cs := Call{T: "call", Sid: sid, Engine: engine, Style: p.style, Ctx: p.ctx, Form: p.form, Reent: p.reent, PT: s.pt, RT: s.rt, PK: p.pk, RK: p.rk, Args: p.args, Defined: p.style == "reflect" && sid%2 == 1}
		fn := g.ExportedFunction("echo_" + p.style)
		func() {
			defer func() {
				if x := recover(); x != nil {
					cs.Err = fmt.Sprint("PANIC ", x)
				}
			}()
			if p.form == "stack" {
				n := len(p.args)
				if len(p.rk) > n {
					n = len(p.rk)
				}
				st := make([]uint64, n)
				copy(st, p.args)
				if err := fn.CallWithStack(ctx, st); err != nil {
					cs.Err = err.Error()
				}
				cs.Got = append([]uint64{}, st[:len(p.rk)]...)
			} else {
				res, err := fn.Call(ctx, p.args...)
				if err != nil {
					cs.Err = err.Error()
				}
				cs.Got = append([]uint64{}, res...)
			}
		}()
		if rc.err != "" && cs.Err == "" {
			cs.Err = rc.err
		}
		cs.Calls = rc.calls
		cs.Raw = rc.raw
		cs.Back = rc.back
		cs.Seen = []any{}
		for i, v := range rc.seen {
			cs.Seen = append(cs.Seen, v.num(p.pk[i]))
		}
		cs.HRet = []any{}
		for j, v := range p.hret {
			cs.HRet = append(cs.HRet, v.num(p.rk[j]))
		}
		out = append(out, cs)
	}
	return out
}

func defaultKinds(ts []string) []string {
	o := make([]string, len(ts))
	for i, t := range ts {
		o[i] = kindsOf[t][0]
	}
	return o
}

// forceCtx, when set, is the reflective form of every signature added (otherwise random per signature)
var forceCtx string

func pickKinds(rng *c.Rng, ts []string) []string {
	o := make([]string, len(ts))
	for i, t := range ts {
		ks := kindsOf[t]
		o[i] = ks[rng.Intn(len(ks))]
	}
	return o
}

func mkPlan(rng *c.Rng, s sig, style string, pk, rk []string) plan {
	p := plan{style: style, ctx: "none", form: "call", pk: pk, rk: rk}
	if rng.Bool() {
		p.form = "stack"
	}
	p.reent = rng.Intn(3) == 0
	for _, t := range s.pt {
		p.args = append(p.args, pickSlot(rng, t))
	}
	for j, t := range s.rt {
		p.hret = append(p.hret, valOfSlot(rk[j], pickSlot(rng, t)))
	}
	return p
}

// selfTest: the harness' own plumbing (MakeFunc, boxing, Float32bits) does not alter a signalling NaN.
func selfTest() bool {
	var seen uint32
	ft := reflect.FuncOf([]reflect.Type{goType["f32"]}, []reflect.Type{goType["f32"]}, false)
	f := reflect.MakeFunc(ft, func(a []reflect.Value) []reflect.Value {
		seen = uint32(fromReflect(a[0], "f32").U)
		return []reflect.Value{toReflect(gv{U: 0xffa00001}, "f32")}
	}).Interface().(func(float32) float32)
	got := math.Float32bits(f(math.Float32frombits(0x7fa00000)))
	return seen == 0x7fa00000 && got == 0xffa00001
}

func main() {
	seed := flag.Uint64("seed", 1, "")
	n := flag.Int("n", 300, "number of generated signatures")
	perStyle := flag.Int("k", 1, "calls per signature, style and engine")
	flag.Parse()
	rng := c.NewRng(*seed)
	out := c.NewOut()
	defer out.Flush()
	ctx := context.Background()
	out.Emit(map[string]any{"t": "selftest", "ok": selfTest()})

	type job struct {
		sid    int
		s      sig
		engine string
		plans  []plan
	}
	var jobs []job
	var abis []Abi
	sid := 0
	addSig := func(s sig, mk func(style string, pk, rk []string) []plan) {
		abis = append(abis, abiOf(sid, s))
		for _, eng := range []string{"interp", "compiler"} {
			var plans []plan
			for _, st := range styles {
				pk, rk := pickKinds(rng, s.pt), pickKinds(rng, s.rt)
				plans = append(plans, mk(st, pk, rk)...)
			}
			ctxKind := []string{"none", "ctx", "ctxmod"}[rng.Intn(3)]
			if forceCtx != "" {
				ctxKind = forceCtx
			}
			for i := range plans {
				if plans[i].style == "reflect" {
					plans[i].ctx = ctxKind
				}
			}
			jobs = append(jobs, job{sid, s, eng, plans})
		}
		sid++
	}
	// fixed witnesses: a signalling NaN as parameter and as result through every style, form and re-entrancy (F07 lives in `reflect`);
	// int32 -1 as a reflective result (F06 regression); the cliff signatures of HostCodecP.abi_cliffs
	fixed := func(s sig, args []uint64, hretSlots []uint64, kinds func(t string) string) {
		addSig(s, func(style string, _, _ []string) []plan {
			pk, rk := make([]string, len(s.pt)), make([]string, len(s.rt))
			for i, t := range s.pt {
				pk[i] = kinds(t)
			}
			for i, t := range s.rt {
				rk[i] = kinds(t)
			}
			var ps []plan
			for _, form := range []string{"call", "stack"} {
				for _, re := range []bool{false, true} {
					p := plan{style: style, ctx: "none", form: form, reent: re, pk: pk, rk: rk, args: args}
					for j := range s.rt {
						p.hret = append(p.hret, valOfSlot(rk[j], hretSlots[j]))
					}
					ps = append(ps, p)
				}
			}
			return ps
		})
	}
	signed := func(t string) string { ks := kindsOf[t]; return ks[len(ks)-1] }
	fixed(sig{[]string{"f32"}, []string{"f32"}}, []uint64{0x7fa00000}, []uint64{0x7fa00000}, signed)
	fixed(sig{[]string{"f32", "f64", "f32"}, []string{"f64", "f32"}}, []uint64{0xffa00001, 0x7ff4000000000000, 0x7f800001}, []uint64{0xfff0000000000001, 0x7fbfffff}, signed)
	fixed(sig{[]string{"i32", "i64"}, []string{"i32", "i64", "i32"}}, []uint64{0xffffffff, 0xffffffffffffffff}, []uint64{0xffffffff, 0x8000000000000000, 0x80000000}, signed)
	{
		var pt []string
		var args []uint64
		for i := 0; i < 8; i++ {
			pt = append(pt, "i32")
			args = append(args, uint64(0xfffffff0+i))
		}
		for i := 0; i < 9; i++ {
			pt = append(pt, "f64")
			args = append(args, 0x7ff4000000000000+uint64(i))
		}
		var rt []string
		var hr []uint64
		for i := 0; i < 10; i++ {
			rt = append(rt, "i64")
			hr = append(hr, 0xfffffffffffffff0+uint64(i))
		}
		for i := 0; i < 9; i++ {
			rt = append(rt, "f32")
			hr = append(hr, 0xffc00000+uint64(i)*0x1001) // quiet NaN payloads
		}
		fixed(sig{pt, rt}, args, hr, signed)
	}
	// the everyday shapes, enumerated: 0-4 parameters of ONE integer kind (int32, uint32, int64, uint64), no result or one of
	// the same kind, in each reflective form (no context / context / context + module), plain and defined types
	// (consecutive signature ids alternate), extreme values in both directions
	for _, fc := range []string{"none", "ctx", "ctxmod"} {
		forceCtx = fc
		for _, t := range []string{"i32", "i64"} {
			for _, ki := range []int{0, 1} {
				kind := func(string) string { return kindsOf[t][ki] }
				for np := 0; np <= 4; np++ {
					for nr := 0; nr <= 1; nr++ {
						if np == 0 && nr == 0 {
							continue
						}
						var pt, rt []string
						var args, hr []uint64
						neg := []uint64{0xfffffffb, 0x80000000, 0xffffffff, 0x7fffffff}
						if t == "i64" {
							neg = []uint64{0xfffffffffffffffb, 0x8000000000000000, 0xffffffff00000000, 0x00000000ffffffff}
						}
						for i := 0; i < np; i++ {
							pt = append(pt, t)
							args = append(args, neg[i%len(neg)])
						}
						for i := 0; i < nr; i++ {
							rt = append(rt, t)
							hr = append(hr, neg[(np+i)%len(neg)])
						}
						for rep := 0; rep < 2; rep++ {
							fixed(sig{pt, rt}, args, hr, kind)
						}
					}
				}
			}
		}
	}
	forceCtx = ""
	for i := 0; i < *n; i++ {
		s := sig{genTypes(rng, rng.Intn(6)), genTypes(rng, rng.Intn(6))}
		addSig(s, func(style string, pk, rk []string) []plan {
			var ps []plan
			for j := 0; j < *perStyle; j++ {
				ps = append(ps, mkPlan(rng, s, style, pk, rk))
			}
			return ps
		})
	}
	for _, a := range abis {
		out.Emit(a)
	}
	res := make([][]Call, len(jobs))
	var wg sync.WaitGroup
	sem := make(chan struct{}, 8)
	for i := range jobs {
		wg.Add(1)
		sem <- struct{}{}
		go func(i int) {
			defer wg.Done()
			defer func() { <-sem }()
			j := jobs[i]
			res[i] = runSig(ctx, j.sid, j.s, j.engine, j.plans)
		}(i)
	}
	wg.Wait()
	for _, cs := range res {
		for _, x := range cs {
			out.Emit(x)
		}
	}
}
