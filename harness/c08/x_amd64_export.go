package amd64

import (
	"github.com/tetratelabs/wazero/internal/engine/wazevo/backend"
	"github.com/tetratelabs/wazero/internal/engine/wazevo/ssa"
)

// ZZVerifABI runs the real FunctionABI.Init with the real amd64 register files (C08 correspondence harness).
func ZZVerifABI(sig *ssa.Signature) *backend.FunctionABI {
	a := &backend.FunctionABI{}
	a.Init(sig, intArgResultRegs, floatArgResultRegs)
	return a
}
