// C10 correspondence harness: module lifecycle and name registry on the real runtime.
//
//	seq    — random sequential histories (results + close-notification and fs-close counters)
//	conc   — random concurrent histories from 8 goroutines over 3 names with logical invocation/response timestamps
//	forced — schedules forced through wasm.VerifYieldHook (and a yielding context for the notifier attachment):
//	         enumerated / sampled schedules of small programs, plus the model's witness interleavings.
//	         Window families: an instantiate (named / anonymous, binary / host) sits between two of its atomic steps
//	         (after Store.instantiate and before registerModule; registered and not yet attached) while Runtime.Close
//	         runs to completion — forced through the yield hook, and, without any hook, by user code that runs inside
//	         InstantiateModule (a wasm start-section function / a "_start" export calling a host function that closes
//	         the runtime).
//
// Anonymous modules (name 0) come in three flavours chosen by the instance id: id%3 == 0 WithName(""), id%3 == 1 no
// WithName on a binary without a name section, id%3 == 2 WithName("") on a binary WITH a name section. Host modules are
// always named (wasm.NewHostModule rejects the empty name).
// Every concurrent / forced history ends with IsClosed probes of every module that was handed out.
//
// One JSON object per line on stdout.
package main

import (
	"context"
	"flag"
	"fmt"
	"os"
	"runtime"
	"strconv"
	"strings"
	"sync"
	"sync/atomic"
	"time"

	"github.com/tetratelabs/wazero"
	"github.com/tetratelabs/wazero/api"
	"github.com/tetratelabs/wazero/experimental"
	expsys "github.com/tetratelabs/wazero/experimental/sys"
	"github.com/tetratelabs/wazero/experimental/sysfs"
	"github.com/tetratelabs/wazero/internal/expctxkeys"
	"github.com/tetratelabs/wazero/internal/wasm"
	c "github.com/tetratelabs/wazero/internal/zz_verif/common"
	wsys "github.com/tetratelabs/wazero/sys"
)

// ---------------------------------------------------------------------------------------------- operations
// op: ["inst", host, name, id] | ["look", name] | ["close", id, code] | ["isclosed", id] | ["rtclose", code] | ["compile", host]
type Op []int64

const (
	kInst = iota
	kLook
	kClose
	kIsClosed
	kRtClose
	kCompile
)

var kindNames = []string{"inst", "look", "close", "isclosed", "rtclose", "compile"}

func (o Op) json() []any {
	r := []any{kindNames[o[0]]}
	for _, v := range o[1:] {
		r = append(r, v)
	}
	return r
}

type Event struct {
	Thr int   `json:"thr"`
	Op  []any `json:"op"`
	Ret []any `json:"ret"`
	Inv int64 `json:"inv"`
	Res int64 `json:"res"`
	// instantiate that returned a module: [tick taken after the return, 1 if IsClosed() was false when sampled after that tick]
	Obs []int64 `json:"obs,omitempty"`
}

// ---------------------------------------------------------------------------------------------- counting resources
type world struct {
	r         wazero.Runtime
	compiled  wazero.CompiledModule
	compiledN wazero.CompiledModule // the same module with a name section ("sect")
	compiledS wazero.CompiledModule // start-section function calls n9.hook
	compiledU wazero.CompiledModule // export "_start" calls n9.hook
	flavour   map[int64]int         // instance id -> 1 start-section binary, 2 "_start" binary
	hookFn    func(ctx context.Context)
	notifyFn  func(id int64) // user code inside a close notification (runs inside the sweep of Runtime.Close)
	clock     atomic.Int64
	hostCompiles atomic.Int64
	notif     sync.Map // id -> *atomic.Int64
	fsClosed  sync.Map // id -> *atomic.Int64
	fsOpened  sync.Map // id -> *atomic.Int64
	byPtr     sync.Map // *wasm.ModuleInstance -> id
	handles   sync.Map // id -> api.Module
	insts     sync.Map // id -> *wasm.ModuleInstance
	isHost    sync.Map // id -> bool
}

func ctr(m *sync.Map, id int64) *atomic.Int64 {
	v, _ := m.LoadOrStore(id, new(atomic.Int64))
	return v.(*atomic.Int64)
}

type cntFS struct {
	expsys.UnimplementedFS
	w  *world
	id int64
}

func (f *cntFS) OpenFile(path string, flag expsys.Oflag, perm os.FileMode) (expsys.File, expsys.Errno) {
	if path != "." {
		return nil, expsys.ENOENT
	}
	ctr(&f.w.fsOpened, f.id).Add(1)
	return &cntFile{w: f.w, id: f.id}, 0
}

type cntFile struct {
	expsys.UnimplementedFile
	w  *world
	id int64
}

func (f *cntFile) IsDir() (bool, expsys.Errno) { return true, 0 }
func (f *cntFile) Stat() (wsys.Stat_t, expsys.Errno) {
	return wsys.Stat_t{Mode: os.ModeDir | 0o755}, 0
}
func (f *cntFile) Close() expsys.Errno { ctr(&f.w.fsClosed, f.id).Add(1); return 0 }

type notifier struct {
	w  *world
	id int64
}

func (n *notifier) CloseNotify(ctx context.Context, exitCode uint32) {
	ctr(&n.w.notif, n.id).Add(1)
	if fn := n.w.notifyFn; fn != nil {
		fn(n.id)
	}
	if th := curThread(); th != nil && th.yieldNotify {
		th.yield("notify")
	}
}

// ---------------------------------------------------------------------------------------------- threads and yield points
type thread struct {
	idx           int
	w             *world
	curID         int64 // instance id of the instantiate in progress
	forced        bool
	atomicMode    bool // close-atomic schedules: no yield between CAS and delete
	yieldNotify   bool
	inHostCompile bool
	obs           []int64
	resume        chan struct{}
	at            chan string // to controller: point name, or "done"
}

var threads sync.Map // goroutine id -> *thread

func goid() int64 {
	var buf [64]byte
	n := runtime.Stack(buf[:], false)
	f := strings.Fields(string(buf[:n]))
	id, _ := strconv.ParseInt(f[1], 10, 64)
	return id
}
func curThread() *thread {
	if v, ok := threads.Load(goid()); ok {
		return v.(*thread)
	}
	return nil
}

func (t *thread) yield(point string) {
	t.at <- point
	<-t.resume
}

func hook(point string, m *wasm.ModuleInstance) {
	th := curThread()
	if th == nil {
		return
	}
	switch point {
	case "instantiate:before-register":
		th.w.byPtr.Store(m, th.curID)
		th.w.insts.Store(th.curID, m)
		// open the lazily opened pre-open so that closing the instance closes a counted file
		if m.Sys != nil {
			if e, ok := m.Sys.FS().LookupFile(3); ok {
				_, _ = e.File.Stat()
			}
		}
		if th.forced {
			th.yield(point)
		}
	case "close:after-cas":
		if th.forced && !th.atomicMode {
			th.yield(point)
		}
	}
}

// yctx yields when InstantiateModule asks for the close notifier (after registration, before attaching it).
type yctx struct {
	context.Context
	th *thread
}

func (y yctx) Value(key any) any {
	if _, ok := key.(expctxkeys.CloseNotifierKey); ok && y.th != nil && y.th.forced {
		y.th.yield("attach")
	}
	// HostModuleBuilder.Compile asks for the listener factory after the closed-runtime check and before the type ids
	if _, ok := key.(expctxkeys.FunctionListenerFactoryKey); ok && y.th != nil && y.th.forced && y.th.inHostCompile {
		y.th.yield("compile:listeners")
	}
	return y.Context.Value(key)
}

// ---------------------------------------------------------------------------------------------- running one operation
var bin, bin2 []byte        // bin2: a different binary for compile operations (compiled modules of one binary share their engine entry)
var binN, binS, binU []byte // name section "sect"; start section calling n9.hook; "_start" export calling n9.hook

func mkBin(k int32) []byte {
	m := &c.Mod{}
	m.Types = [][]byte{c.FT(nil, c.B(c.I32))}
	m.Funcs = [][]byte{c.U32(0)}
	m.Exports = [][]byte{c.Export("f", 0, 0)}
	m.Codes = [][]byte{c.Code(nil, c.I32Const(k))}
	return m.Bytes()
}

// nameSec is a custom "name" section that names the module.
func nameSec(mod string) []byte {
	sub := c.Name(mod)
	return c.Cat(c.Name("name"), c.B(0), c.U32(uint32(len(sub))), sub)
}

// mkHookBin: (import "n9" "hook" (func)) (func $g call 0) (func (export "f") (result i32) i32.const 9), with $g either the
// start-section function (runs inside Store.instantiate, before registerModule) or the export "_start" (run by
// InstantiateModule after registration).
func mkHookBin(startSection bool) []byte {
	m := &c.Mod{}
	m.Types = [][]byte{c.FT(nil, nil), c.FT(nil, c.B(c.I32))}
	m.Imports = [][]byte{c.ImportFunc("n9", "hook", 0)}
	m.Funcs = [][]byte{c.U32(0), c.U32(1)}
	m.Exports = [][]byte{c.Export("f", 0, 2)}
	if startSection {
		m.Start = c.U32(1)
	} else {
		m.Exports = append(m.Exports, c.Export("_start", 0, 1))
	}
	m.Codes = [][]byte{c.Code(nil, c.Call(0)), c.Code(nil, c.I32Const(9))}
	return m.Bytes()
}

func init() {
	bin, bin2 = mkBin(7), mkBin(8)
	mn := &c.Mod{}
	mn.Types = [][]byte{c.FT(nil, c.B(c.I32))}
	mn.Funcs = [][]byte{c.U32(0)}
	mn.Exports = [][]byte{c.Export("f", 0, 0)}
	mn.Codes = [][]byte{c.Code(nil, c.I32Const(6))}
	mn.Custom = [][]byte{nameSec("sect")}
	binN = mn.Bytes()
	binS, binU = mkHookBin(true), mkHookBin(false)
}

func nameOf(n int64) string {
	if n == 0 {
		return ""
	}
	return "n" + strconv.FormatInt(n, 10)
}

func classify(err error) []any {
	if err == nil {
		return []any{"ok"}
	}
	s := err.Error()
	switch {
	case strings.Contains(s, "has already been instantiated"):
		return []any{"dup"}
	case strings.Contains(s, "runtime closed with exit_code") || s == "already closed" ||
		// the engine was closed between the closed-runtime check and the instantiation
		strings.Contains(s, "source module must be compiled before instantiation"):
		return []any{"closed"}
	}
	return []any{"other", s}
}

func newWorld(ctx context.Context) *world {
	w := &world{}
	w.r = wazero.NewRuntimeWithConfig(ctx, wazero.NewRuntimeConfigInterpreter())
	cm, err := w.r.CompileModule(ctx, bin)
	if err != nil {
		panic(err)
	}
	w.compiled = cm
	if w.compiledN, err = w.r.CompileModule(ctx, binN); err != nil {
		panic(err)
	}
	return w
}

// withHookBinaries compiles the two binaries whose instantiation runs user code (reentrant window family).
func (w *world) withHookBinaries(ctx context.Context) {
	var err error
	if w.compiledS, err = w.r.CompileModule(ctx, binS); err != nil {
		panic(err)
	}
	if w.compiledU, err = w.r.CompileModule(ctx, binU); err != nil {
		panic(err)
	}
	w.flavour = map[int64]int{}
}

func (w *world) run(ctx context.Context, th *thread, op Op) (ret []any) {
	defer func() {
		if e := recover(); e != nil {
			ret = []any{"panic", fmt.Sprint(e)}
		}
	}()
	switch op[0] {
	case kInst:
		host, name, id := op[1] == 1, nameOf(op[2]), op[3]
		if th != nil {
			th.curID = id
		}
		w.isHost.Store(id, host)
		ictx := experimental.WithCloseNotifier(ctx, &notifier{w: w, id: id})
		if th != nil {
			ictx = yctx{ictx, th}
		}
		var mod api.Module
		var err error
		if host {
			mod, err = w.r.NewHostModuleBuilder(name).
				NewFunctionBuilder().WithFunc(func() {}).Export("f").
				NewFunctionBuilder().WithFunc(func(hctx context.Context) {
				if fn := w.hookFn; fn != nil {
					fn(hctx)
				}
			}).Export("hook").Instantiate(ictx)
		} else {
			cfg := wazero.NewModuleConfig().
				WithFSConfig(wazero.NewFSConfig().(sysfs.FSConfig).WithSysFSMount(&cntFS{w: w, id: id}, "/"))
			code := w.compiled
			switch {
			case w.flavour[id] == 1:
				code, cfg = w.compiledS, cfg.WithName(name)
			case w.flavour[id] == 2:
				code, cfg = w.compiledU, cfg.WithName(name)
			case name != "":
				cfg = cfg.WithName(name)
			case id%3 == 0: // anonymous: explicit empty name
				cfg = cfg.WithName("")
			case id%3 == 1: // anonymous: no name configured, no name section
			default: // anonymous: the binary's name section is overridden by an explicit empty name
				code, cfg = w.compiledN, cfg.WithName("")
			}
			mod, err = w.r.InstantiateModule(ictx, code, cfg)
		}
		if err == nil {
			w.handles.Store(id, mod)
			if th != nil {
				chk := w.clock.Add(1)
				open := int64(0)
				if !mod.IsClosed() {
					open = 1
				}
				th.obs = []int64{chk, open}
			}
		}
		return classify(err)
	case kLook:
		m := w.r.Module(nameOf(op[1]))
		if m == nil {
			return []any{"look", int64(-1)}
		}
		mi := wazero.VerifUnwrap(m)
		id, ok := w.byPtr.Load(mi)
		if !ok {
			return []any{"other", "lookup returned an unknown instance"}
		}
		w.handles.LoadOrStore(id.(int64), m)
		return []any{"look", id.(int64)}
	case kClose:
		h, ok := w.handles.Load(op[1])
		if !ok {
			return []any{"skip"}
		}
		var err error
		if op[2] == 0 {
			err = h.(api.Module).Close(ctx)
		} else {
			err = h.(api.Module).CloseWithExitCode(ctx, uint32(op[2]))
		}
		return classify(err)
	case kIsClosed:
		mi, ok := w.insts.Load(op[1])
		h, ok2 := w.handles.Load(op[1])
		if !ok || !ok2 {
			return []any{"skip"}
		}
		word := mi.(*wasm.ModuleInstance).Closed.Load()
		isc := h.(api.Module).IsClosed()
		if word == 0 {
			if isc {
				// closed between the two reads: read the word again
				word = mi.(*wasm.ModuleInstance).Closed.Load()
				return []any{"exit", int64(word >> 32)}
			}
			return []any{"exit", int64(-1)}
		}
		return []any{"exit", int64(word >> 32)}
	case kRtClose:
		var err error
		if op[1] == 0 {
			err = w.r.Close(ctx)
		} else {
			err = w.r.CloseWithExitCode(ctx, uint32(op[1]))
		}
		return classify(err)
	case kCompile:
		var err error
		var cm wazero.CompiledModule
		if op[1] == 1 {
			cctx := ctx
			if th != nil && th.forced {
				th.inHostCompile = true
				cctx = yctx{ctx, th}
			}
			if (th == nil || !th.forced) && w.hostCompiles.Add(1)%2 == 0 {
				// every other host compilation outside the forced schedules: a host module WITHOUT functions (an empty
				// type section): the closed-runtime answer must not depend on what the module contains
				cm, err = w.r.NewHostModuleBuilder("hc").Compile(cctx)
			} else {
				cm, err = w.r.NewHostModuleBuilder("hc").NewFunctionBuilder().WithFunc(func() {}).Export("f").Compile(cctx)
			}
			if th != nil {
				th.inHostCompile = false
			}
		} else {
			cm, err = w.r.CompileModule(ctx, bin2)
		}
		if err == nil && cm != nil {
			_ = cm.Close(ctx)
		}
		return classify(err)
	}
	return []any{"other", "bad op"}
}

func (w *world) timed(ctx context.Context, th *thread, thr int, op Op) Event {
	inv := w.clock.Add(1)
	var keep []int64
	if th != nil {
		keep, th.obs = th.obs, nil // a nested (reentrant) operation must not lose the outer one's observation
	}
	ret := w.run(ctx, th, op)
	res := w.clock.Add(1)
	ev := Event{Thr: thr, Op: op.json(), Ret: ret, Inv: inv, Res: res}
	if th != nil {
		ev.Obs, th.obs = th.obs, keep
	}
	return ev
}

// probes reads the closed word of every module that was handed out (IsClosed through the handle), at the end of a history.
func (w *world) probes(ctx context.Context, th *thread, thr int, ids []int64) []Event {
	var out []Event
	for _, id := range ids {
		if _, ok := w.handles.Load(id); !ok {
			continue
		}
		if ev := w.timed(ctx, th, thr, Op{kIsClosed, id}); ev.Ret[0] != "skip" {
			out = append(out, ev)
		}
	}
	return out
}

// counters: [id, notifications, fs closes (99 = not observed: host module), fs opens, closed word != 0,
// linked in Store.moduleList (1/0; -1 = the instance was never built)]
func (w *world) counters(ids []int64) [][]int64 {
	var out [][]int64
	listed := map[*wasm.ModuleInstance]bool{}
	for _, m := range wazero.VerifStore(w.r).VerifListed() {
		listed[m] = true
	}
	for _, id := range ids {
		host, _ := w.isHost.Load(id)
		fs := ctr(&w.fsClosed, id).Load()
		if host == true {
			fs = 99
		}
		closed, inList := int64(-1), int64(-1)
		if mi, ok := w.insts.Load(id); ok {
			if mi.(*wasm.ModuleInstance).Closed.Load() != 0 {
				closed = 1
			} else {
				closed = 0
			}
			inList = 0
			if listed[mi.(*wasm.ModuleInstance)] {
				inList = 1
			}
		}
		out = append(out, []int64{id, ctr(&w.notif, id).Load(), fs, ctr(&w.fsOpened, id).Load(), closed, inList})
	}
	return out
}

// ---------------------------------------------------------------------------------------------- sequential histories
type SeqCase struct {
	Kind     string    `json:"kind"`
	Ops      [][]any   `json:"ops"`
	Rets     [][]any   `json:"rets"`
	Counters [][]int64 `json:"counters"`
}

func genSeq(rng *c.Rng) []Op {
	n := 5 + rng.Intn(12)
	var ops []Op
	next := int64(1)
	var made []int64
	rtAt := -1
	if rng.Intn(3) == 0 {
		rtAt = n/2 + rng.Intn(n/2+1)
	}
	for i := 0; i < n; i++ {
		if i == rtAt {
			ops = append(ops, Op{kRtClose, int64(rng.Intn(2) * 3)})
			continue
		}
		switch k := rng.Intn(16); {
		case k < 5:
			host := int64(0)
			name := int64(rng.Intn(4)) // 0 = anonymous
			if rng.Intn(5) == 0 {
				host = 1
				if name == 0 { // wasm.NewHostModule rejects an empty module name: host modules are always named
					name = 1
				}
			}
			ops = append(ops, Op{kInst, host, name, next})
			made = append(made, next)
			next++
		case k < 8:
			ops = append(ops, Op{kLook, int64(rng.Intn(4))})
		case k < 12:
			if len(made) == 0 {
				ops = append(ops, Op{kLook, 1})
				continue
			}
			ops = append(ops, Op{kClose, made[rng.Intn(len(made))], int64(rng.Intn(3) * 2)})
		case k < 14:
			if len(made) == 0 {
				ops = append(ops, Op{kCompile, 0})
				continue
			}
			ops = append(ops, Op{kIsClosed, made[rng.Intn(len(made))]})
		case k == 14:
			ops = append(ops, Op{kCompile, int64(rng.Intn(2))})
		default:
			ops = append(ops, Op{kRtClose, int64(rng.Intn(2) * 5)})
		}
	}
	return ops
}

func runSeq(ctx context.Context, ops []Op) SeqCase {
	w := newWorld(ctx)
	th := &thread{idx: 0, w: w}
	threads.Store(goid(), th)
	defer threads.Delete(goid())
	cs := SeqCase{Kind: "seq"}
	var ids []int64
	for _, op := range ops {
		if op[0] == kInst {
			ids = append(ids, op[3])
		}
		cs.Ops = append(cs.Ops, op.json())
		cs.Rets = append(cs.Rets, w.run(ctx, th, op))
	}
	cs.Counters = w.counters(ids)
	_ = w.r.Close(ctx)
	return cs
}

// ---------------------------------------------------------------------------------------------- concurrent histories
type ConcCase struct {
	Kind     string    `json:"kind"`
	Events   []Event   `json:"events"`
	Counters [][]int64 `json:"counters"`
	Threads  int       `json:"threads"`
}

func runConc(ctx context.Context, rng *c.Rng, nthreads, maxOps int) ConcCase {
	w := newWorld(ctx)
	cs := ConcCase{Kind: "conc", Threads: nthreads}
	var ids []int64
	next := int64(1)
	// sequential setup by the main goroutine (thread index = nthreads)
	main := &thread{idx: nthreads, w: w}
	threads.Store(goid(), main)
	var shared []int64
	for i, k := 0, rng.Intn(4); i < k; i++ {
		op := Op{kInst, 0, int64(rng.Intn(4)), next} // name 0: anonymous
		ids = append(ids, next)
		ev := w.timed(ctx, main, nthreads, op)
		if ev.Ret[0] == "ok" {
			shared = append(shared, next)
		}
		next++
		cs.Events = append(cs.Events, ev)
	}
	threads.Delete(goid())
	// plans
	plans := make([][]Op, nthreads)
	budget := maxOps
	rtUsed := false
	for t := 0; t < nthreads; t++ {
		n := 1 + rng.Intn(2)
		var own []int64
		for j := 0; j < n && budget > 0; j++ {
			budget--
			var op Op
			switch k := rng.Intn(20); {
			case k < 7:
				op = Op{kInst, 0, int64(rng.Intn(4)), next} // name 0: anonymous
				if rng.Intn(8) == 0 {
					op[1] = 1
					if op[2] == 0 { // host modules are always named
						op[2] = 1
					}
				}
				ids = append(ids, next)
				own = append(own, next)
				next++
			case k < 10:
				op = Op{kLook, int64(1 + rng.Intn(3))}
			case k < 15:
				pool := append(append([]int64{}, shared...), own...)
				if len(pool) == 0 {
					op = Op{kLook, int64(1 + rng.Intn(3))}
				} else {
					op = Op{kClose, pool[rng.Intn(len(pool))], int64(rng.Intn(2) * 4)}
				}
			case k < 17:
				pool := append(append([]int64{}, shared...), own...)
				if len(pool) == 0 {
					op = Op{kCompile, 0}
				} else {
					op = Op{kIsClosed, pool[rng.Intn(len(pool))]}
				}
			case k < 19:
				op = Op{kCompile, int64(rng.Intn(2))}
			default:
				if rtUsed {
					op = Op{kLook, int64(1 + rng.Intn(3))}
				} else {
					rtUsed = true
					op = Op{kRtClose, int64(rng.Intn(2) * 3)}
				}
			}
			plans[t] = append(plans[t], op)
		}
	}
	var wg sync.WaitGroup
	start := make(chan struct{})
	evs := make([][]Event, nthreads)
	for t := 0; t < nthreads; t++ {
		wg.Add(1)
		go func(t int) {
			defer wg.Done()
			th := &thread{idx: t, w: w}
			g := goid()
			threads.Store(g, th)
			defer threads.Delete(g)
			<-start
			for _, op := range plans[t] {
				ev := w.timed(ctx, th, t, op)
				if ev.Ret[0] == "skip" {
					continue
				}
				evs[t] = append(evs[t], ev)
			}
		}(t)
	}
	close(start)
	wg.Wait()
	for t := range evs {
		cs.Events = append(cs.Events, evs[t]...)
	}
	cs.Events = append(cs.Events, w.probes(ctx, main, nthreads, ids)...)
	cs.Counters = w.counters(ids)
	_ = w.r.Close(ctx)
	return cs
}

// ---------------------------------------------------------------------------------------------- forced schedules
type ForcedCase struct {
	Kind     string    `json:"kind"`
	Label    string    `json:"label"`
	Atomic   bool      `json:"atomic"`
	Pre      [][]any   `json:"pre"`
	Prog     [][][]any `json:"prog"`
	Sched    []int     `json:"sched"`
	Points   []string  `json:"points"`
	Events   []Event   `json:"events"`
	Rets     [][][]any `json:"rets"`
	Counters [][]int64 `json:"counters"`
	Deadlock bool      `json:"deadlock,omitempty"`
	// reentrant window family: where the instantiate was when Runtime.Close ran, and the model schedule (thread, steps; 0 = finish the operation)
	Window string   `json:"window,omitempty"`
	Blocks [][2]int `json:"blocks,omitempty"`
}

// runForced executes prog under the schedule prefix `pre` (then `pick` chooses among enabled threads);
// returns the case and, for every decision, the list of enabled threads.
func runForced(ctx context.Context, label string, setup []Op, prog [][]Op, atomicMode, yieldNotify bool, prefix []int,
	pick func(enabled []int) int) (ForcedCase, [][]int) {
	w := newWorld(ctx)
	fc := ForcedCase{Kind: "forced", Label: label, Atomic: atomicMode}
	var ids []int64
	main := &thread{idx: len(prog), w: w}
	threads.Store(goid(), main)
	for _, op := range setup {
		if op[0] == kInst {
			ids = append(ids, op[3])
		}
		fc.Pre = append(fc.Pre, op.json())
		ev := w.timed(ctx, main, len(prog), op)
		fc.Events = append(fc.Events, ev)
	}
	threads.Delete(goid())
	n := len(prog)
	ths := make([]*thread, n)
	evs := make([][]Event, n)
	done := make([]bool, n)
	for t := 0; t < n; t++ {
		ths[t] = &thread{idx: t, w: w, forced: true, atomicMode: atomicMode, yieldNotify: yieldNotify,
			resume: make(chan struct{}), at: make(chan string, 1)}
		var po [][]any
		for _, op := range prog[t] {
			po = append(po, op.json())
			if op[0] == kInst {
				ids = append(ids, op[3])
			}
		}
		fc.Prog = append(fc.Prog, po)
		go func(t int) {
			th := ths[t]
			g := goid()
			threads.Store(g, th)
			defer threads.Delete(g)
			<-th.resume
			for i, op := range prog[t] {
				if i > 0 {
					th.yield("op")
				}
				ev := w.timed(ctx, th, t, op)
				evs[t] = append(evs[t], ev)
			}
			th.at <- "done"
		}(t)
	}
	var enabledLog [][]int
	step := 0
	for {
		var enabled []int
		for t := 0; t < n; t++ {
			if !done[t] {
				enabled = append(enabled, t)
			}
		}
		if len(enabled) == 0 {
			break
		}
		var k int
		if step < len(prefix) && prefix[step] < n && !done[prefix[step]] {
			k = prefix[step]
		} else {
			k = pick(enabled)
		}
		enabledLog = append(enabledLog, enabled)
		fc.Sched = append(fc.Sched, k)
		step++
		ths[k].resume <- struct{}{}
		select {
		case p := <-ths[k].at:
			fc.Points = append(fc.Points, p)
			if p == "done" {
				done[k] = true
			}
		case <-time.After(5 * time.Second):
			fc.Deadlock = true
			return fc, enabledLog
		}
	}
	for t := 0; t < n; t++ {
		fc.Events = append(fc.Events, evs[t]...)
		var rs [][]any
		for _, e := range evs[t] {
			rs = append(rs, e.Ret)
		}
		fc.Rets = append(fc.Rets, rs)
	}
	fc.Events = append(fc.Events, w.probes(ctx, main, n, ids)...)
	fc.Counters = w.counters(ids)
	_ = w.r.Close(ctx)
	return fc, enabledLog
}

// runReentrant forces the window without any hook: the instantiate of `inst` runs user code — its start-section function
// (flavour 1: inside Store.instantiate, i.e. after failIfClosed and before registerModule) or its "_start" export
// (flavour 2: after registration and attachment, before InstantiateModule returns) — which calls the host function
// n9.hook, which calls Runtime.Close on the same goroutine. Reported as the two-thread program [[inst]; [rtclose]].
func runReentrant(ctx context.Context, label string, setup []Op, inst Op, flavour int, code int64) ForcedCase {
	w := newWorld(ctx)
	w.withHookBinaries(ctx)
	w.flavour[inst[3]] = flavour
	fc := ForcedCase{Kind: "forced", Label: label, Atomic: true, Sched: []int{0, 1, 0}, Points: []string{"hook", "done", "done"}}
	main := &thread{idx: 2, w: w}
	g := goid()
	threads.Store(g, main)
	defer threads.Delete(g)
	var ids []int64
	for _, op := range setup {
		if op[0] == kInst {
			ids = append(ids, op[3])
		}
		fc.Pre = append(fc.Pre, op.json())
		fc.Events = append(fc.Events, w.timed(ctx, main, 2, op))
	}
	ids = append(ids, inst[3])
	rt := Op{kRtClose, code}
	fc.Prog = [][][]any{{inst.json()}, {rt.json()}}
	var nested []Event
	w.hookFn = func(hctx context.Context) {
		if len(nested) == 0 { // once
			nested = append(nested, w.timed(ctx, main, 1, rt))
		}
	}
	ev := w.timed(ctx, main, 0, inst)
	w.hookFn = nil
	fc.Events = append(fc.Events, ev)
	fc.Events = append(fc.Events, nested...)
	fc.Rets = [][][]any{{ev.Ret}, {}}
	for _, e := range nested {
		fc.Rets[1] = append(fc.Rets[1], e.Ret)
	}
	if flavour == 1 {
		fc.Window, fc.Blocks = "built", [][2]int{{0, 3}, {1, 0}, {0, 0}}
	} else {
		fc.Window, fc.Blocks = "attached", [][2]int{{0, 5}, {1, 0}, {0, 0}}
	}
	fc.Events = append(fc.Events, w.probes(ctx, main, 2, ids)...)
	fc.Counters = w.counters(ids)
	_ = w.r.Close(ctx)
	return fc
}

// explore enumerates schedules depth-first (stateless re-execution) up to `limit`; beyond the limit it samples.
func explore(ctx context.Context, out *c.Out, rng *c.Rng, label string, setup []Op, prog [][]Op, atomicMode bool, limit int) (int, bool) {
	count := 0
	var prefix []int
	first := func(en []int) int { return en[0] }
	for {
		fc, enabled := runForced(ctx, label, setup, prog, atomicMode, false, prefix, first)
		out.Emit(fc)
		count++
		if fc.Deadlock {
			return count, false
		}
		// backtrack: deepest decision with an untried alternative
		i := len(fc.Sched) - 1
		for ; i >= 0; i-- {
			en := enabled[i]
			pos := -1
			for j, v := range en {
				if v == fc.Sched[i] {
					pos = j
				}
			}
			if pos >= 0 && pos+1 < len(en) {
				prefix = append(append([]int{}, fc.Sched[:i]...), en[pos+1])
				break
			}
		}
		if i < 0 {
			return count, true
		}
		if count >= limit {
			// sample the rest at random
			for s := 0; s < limit/2; s++ {
				fc, _ := runForced(ctx, label+"/sample", setup, prog, atomicMode, false, nil, func(en []int) int { return en[rng.Intn(len(en))] })
				out.Emit(fc)
				count++
			}
			return count, false
		}
	}
}

func alphaOp(rng *c.Rng, id int64) Op {
	switch rng.Intn(7) {
	case 0:
		return Op{kInst, 0, 1, id}
	case 1:
		if rng.Intn(2) == 0 {
			return Op{kInst, 0, 0, id} // anonymous (flavour by id)
		}
		return Op{kInst, 0, 1, id}
	case 2:
		return Op{kLook, 1}
	case 3, 4:
		return Op{kClose, 1, 0}
	case 5:
		return Op{kIsClosed, 1}
	default:
		if rng.Intn(2) == 0 {
			return Op{kRtClose, 0}
		}
		return Op{kCompile, 0}
	}
}

func main() {
	seed := flag.Uint64("seed", 1, "")
	mode := flag.String("mode", "all", "seq|conc|forced|all")
	nseq := flag.Int("nseq", 300, "")
	nconc := flag.Int("nconc", 300, "")
	nprog := flag.Int("nprog", 12, "random forced programs")
	limit := flag.Int("limit", 400, "schedules per forced program")
	flag.Parse()
	wasm.VerifYieldHook = hook
	rng := c.NewRng(*seed)
	out := c.NewOut()
	defer out.Flush()
	ctx := context.Background()

	if *mode == "seq" || *mode == "all" {
		// fixed regression shapes first (F09, F21, idempotent close with exit codes), then random
		fixed := [][]Op{
			{{kInst, 0, 1, 1}, {kInst, 0, 1, 2}, {kLook, 1}, {kInst, 0, 1, 3}, {kClose, 1, 0}, {kInst, 0, 1, 4}, {kLook, 1}},
			{{kInst, 0, 1, 1}, {kRtClose, 0}, {kCompile, 1}, {kInst, 1, 2, 2}, {kCompile, 0}, {kInst, 0, 2, 3}, {kIsClosed, 1}, {kLook, 1}},
			{{kInst, 0, 2, 1}, {kClose, 1, 0}, {kClose, 1, 6}, {kIsClosed, 1}, {kInst, 1, 2, 2}, {kClose, 2, 4}, {kClose, 2, 0}, {kIsClosed, 2}, {kRtClose, 2}, {kRtClose, 0}},
			// anonymous modules, all three flavours: no lookup finds them, closing through the handle is idempotent, Runtime.Close
			// closes the ones that are alive, nothing can be instantiated afterwards
			{{kInst, 0, 0, 1}, {kInst, 0, 0, 2}, {kInst, 0, 0, 3}, {kLook, 0}, {kClose, 2, 0}, {kIsClosed, 2}, {kClose, 2, 5}, {kInst, 0, 0, 4}, {kIsClosed, 1},
				{kRtClose, 3}, {kIsClosed, 1}, {kIsClosed, 3}, {kIsClosed, 4}, {kIsClosed, 2}, {kInst, 0, 0, 5}, {kInst, 0, 0, 6}, {kInst, 0, 0, 7}, {kCompile, 0}},
			{{kInst, 0, 0, 1}, {kInst, 0, 1, 2}, {kInst, 1, 2, 3}, {kRtClose, 0}, {kIsClosed, 1}, {kIsClosed, 2}, {kIsClosed, 3}, {kInst, 0, 0, 4}, {kInst, 1, 1, 5},
				{kClose, 1, 7}, {kIsClosed, 1}, {kRtClose, 4}, {kLook, 1}},
		}
		// bulk: 220 named modules alive at once, then the first 130 closed one by one; after each close its name is free
		// (lookup finds nothing, the name can be taken, and freed again): the registry's bookkeeping of many names
		// (map growth and shrinking) must not show
		{
			var bulk []Op
			for i := int64(1); i <= 220; i++ {
				bulk = append(bulk, Op{kInst, 0, i, i})
			}
			for i := int64(1); i <= 130; i++ {
				bulk = append(bulk, Op{kClose, i, 0}, Op{kLook, i}, Op{kInst, 0, i, 1000 + i}, Op{kLook, i}, Op{kClose, 1000 + i, 0}, Op{kLook, i})
			}
			bulk = append(bulk, Op{kLook, 131}, Op{kLook, 220}, Op{kRtClose, 0}, Op{kLook, 200})
			fixed = append(fixed, bulk)
		}
		for _, ops := range fixed {
			out.Emit(runSeq(ctx, ops))
		}
		for i := 0; i < *nseq; i++ {
			out.Emit(runSeq(ctx, genSeq(rng)))
		}
	}
	if *mode == "conc" || *mode == "all" {
		for i := 0; i < *nconc; i++ {
			out.Emit(runConc(ctx, rng, 8, 11))
		}
	}
	if *mode == "forced" || *mode == "all" {
		setup := []Op{{kInst, 0, 1, 1}}
		// the model's witnesses, replayed with the model's schedule at yield-point granularity
		// F10: thread 0 stops after its CAS; thread 1 closes (returns at once) and instantiates under the name
		f10 := [][]Op{{{kClose, 1, 0}}, {{kClose, 1, 0}, {kInst, 0, 1, 2}}}
		fc, _ := runForced(ctx, "witness:F10", setup, f10, false, false, []int{0, 1, 1, 1, 1, 0}, func(en []int) int { return en[0] })
		out.Emit(fc)
		// notifier attached after registration: thread 0 registers and stops before attaching; thread 1 closes the module
		lost := [][]Op{{{kInst, 0, 1, 1}}, {{kLook, 1}, {kClose, 1, 0}}}
		fc, _ = runForced(ctx, "witness:notify-lost", nil, lost, true, false, []int{0, 0, 1, 1, 0}, func(en []int) int { return en[0] })
		out.Emit(fc)
		// a host compile that passed the closed-runtime check, then Runtime.Close, then the rest of the compile
		cp := [][]Op{{{kCompile, 1}}, {{kRtClose, 0}}}
		fc, _ = runForced(ctx, "witness:compile-during-close", setup, cp, true, false, []int{0, 1, 0}, func(en []int) int { return en[0] })
		out.Emit(fc)
		// two closers, the first one stopped inside its close notification: exactly one notification
		dbl := [][]Op{{{kClose, 1, 0}}, {{kClose, 1, 5}}}
		fc, _ = runForced(ctx, "double-close", setup, dbl, true, true, []int{0, 1, 0}, func(en []int) int { return en[0] })
		out.Emit(fc)
		// exhaustive: all schedules of the F10 program (free) and of fixed small programs (atomic and free)
		explore(ctx, out, rng, "f10-all", setup, f10, false, *limit*4)
		explore(ctx, out, rng, "f10-atomic", setup, f10, true, *limit*4)
		three := [][]Op{{{kClose, 1, 0}}, {{kClose, 1, 0}, {kInst, 0, 1, 2}}, {{kLook, 1}, {kInst, 0, 1, 3}}}
		explore(ctx, out, rng, "three", setup, three, true, *limit)
		rtp := [][]Op{{{kRtClose, 0}}, {{kCompile, 0}, {kLook, 1}}, {{kInst, 0, 1, 2}, {kIsClosed, 1}}}
		explore(ctx, out, rng, "rtclose", setup, rtp, true, *limit)
		for p := 0; p < *nprog; p++ {
			nt := 2 + rng.Intn(2)
			prog := make([][]Op, nt)
			id := int64(10)
			for t := 0; t < nt; t++ {
				for j, k := 0, 1+rng.Intn(2); j < k; j++ {
					prog[t] = append(prog[t], alphaOp(rng, id))
					id++
				}
			}
			explore(ctx, out, rng, fmt.Sprintf("rand%d", p), setup, prog, p%4 != 3, *limit)
		}
		windowFamilies(ctx, out, rng, *limit)
	}
}

// runNotifyWindow observes a Runtime.Close from the inside, deterministically and without any hook: the close notification
// of instance `at` (user code) runs in the middle of the locked loop of Store.CloseWithExitCode — the runtime's flag is set,
// the newer modules are closed, the older ones are not yet — and performs `nested` (lock-free operations only: compile,
// IsClosed). This is the window of open finding F33.
func runNotifyWindow(ctx context.Context, label string, setup []Op, code int64, at int64, nested []Op) ForcedCase {
	w := newWorld(ctx)
	fc := ForcedCase{Kind: "forced", Label: label, Atomic: true, Window: "sweeping"}
	main := &thread{idx: 2, w: w}
	g := goid()
	threads.Store(g, main)
	defer threads.Delete(g)
	var ids []int64
	for _, op := range setup {
		if op[0] == kInst {
			ids = append(ids, op[3])
		}
		fc.Pre = append(fc.Pre, op.json())
		fc.Events = append(fc.Events, w.timed(ctx, main, 2, op))
	}
	rt := Op{kRtClose, code}
	po := [][]any{}
	for _, op := range nested {
		po = append(po, op.json())
	}
	fc.Prog = [][][]any{{rt.json()}, po}
	var inner []Event
	fired := false
	w.notifyFn = func(id int64) {
		if id == at && !fired {
			fired = true
			for _, op := range nested {
				inner = append(inner, w.timed(ctx, main, 1, op))
			}
		}
	}
	ev := w.timed(ctx, main, 0, rt)
	w.notifyFn = nil
	fc.Events = append(fc.Events, ev)
	fc.Events = append(fc.Events, inner...)
	fc.Events = append(fc.Events, w.probes(ctx, main, 2, ids)...)
	fc.Counters = w.counters(ids)
	_ = w.r.Close(ctx)
	return fc
}

// windowFamilies: Runtime.Close runs to completion while an instantiate sits between two of its atomic steps.
// A named module (1), an anonymous module (5) and a host module (6) are alive when the runtime is closed.
// (Host modules are always named: wasm.NewHostModule rejects an empty name.)
func windowFamilies(ctx context.Context, out *c.Out, rng *c.Rng, limit int) {
	alive := []Op{{kInst, 0, 1, 1}, {kInst, 0, 0, 5}, {kInst, 1, 3, 6}}
	first := func(en []int) int { return en[0] }
	type target struct {
		tag string
		op  Op
	}
	targets := []target{
		{"anon-empty-name", Op{kInst, 0, 0, 21}},   // WithName("")
		{"anon-no-name", Op{kInst, 0, 0, 22}},      // no WithName, no name section
		{"anon-named-binary", Op{kInst, 0, 0, 23}}, // name section overridden by WithName("")
		{"named", Op{kInst, 0, 2, 24}},
		{"host-named", Op{kInst, 1, 2, 26}},
	}
	thirds := []Op{{kCompile, 0}, {kLook, 1}, {kInst, 0, 0, 27}, {kClose, 5, 0}, {kInst, 0, 2, 28}, {kIsClosed, 5}}
	for ti, tg := range targets {
		for _, code := range []int64{0, 3} {
			prog := [][]Op{{tg.op}, {{kRtClose, code}}}
			// thread 0 stops after Store.instantiate (before registerModule); thread 1 closes the runtime; thread 0 goes on
			fc, _ := runForced(ctx, "win:built/"+tg.tag, alive, prog, true, false, []int{0, 1}, first)
			out.Emit(fc)
			// thread 0 registers and stops before attaching the notifier; thread 1 closes the runtime; thread 0 goes on
			fc, _ = runForced(ctx, "win:registered/"+tg.tag, alive, prog, true, false, []int{0, 0, 1}, first)
			out.Emit(fc)
			// the same without close-atomicity (the refused instance's own Close yields after its CAS)
			fc, _ = runForced(ctx, "win:built-free/"+tg.tag, alive, prog, false, false, []int{0, 1}, first)
			out.Emit(fc)
		}
		prog := [][]Op{{tg.op}, {{kRtClose, 0}}}
		explore(ctx, out, rng, "winx:"+tg.tag, alive, prog, true, limit)
		explore(ctx, out, rng, "winx-free:"+tg.tag, alive, prog, false, limit)
		for k := 0; k < 3; k++ {
			third := thirds[(ti+2*k)%len(thirds)]
			prog3 := [][]Op{{tg.op}, {{kRtClose, 0}}, {third}}
			explore(ctx, out, rng, "win3:"+tg.tag, alive, prog3, true, limit/5)
		}
		// two anonymous/named instantiates racing one close
		prog2 := [][]Op{{tg.op}, {{kRtClose, 5}}, {{kInst, 0, 0, 29}}}
		explore(ctx, out, rng, "win2i:"+tg.tag, alive, prog2, ti%2 == 0, limit/4)
	}
	// Runtime.Close seen from inside its sweep (F33): the notification of the newest module (5, anonymous) runs user code
	// while the older named module 1 is still open. First the flag (compile fails) against an open module; then the
	// closed words of two modules, newest first.
	two := []Op{{kInst, 0, 1, 1}, {kInst, 0, 0, 5}}
	out.Emit(runNotifyWindow(ctx, "reent:notify/flag-before-sweep", two, 0, 5, []Op{{kCompile, 0}, {kIsClosed, 1}}))
	out.Emit(runNotifyWindow(ctx, "reent:notify/module-by-module", two, 3, 5, []Op{{kIsClosed, 5}, {kIsClosed, 1}}))
	// user code inside InstantiateModule closes the runtime (no hook involved)
	setupR := []Op{{kInst, 1, 9, 90}, {kInst, 0, 1, 1}, {kInst, 0, 0, 5}}
	for _, tg := range []target{{"anon", Op{kInst, 0, 0, 30}}, {"named", Op{kInst, 0, 2, 31}}} {
		for fl, win := range []string{"", "start-section", "start-export"} {
			for _, code := range []int64{0, 3} {
				// a "_start" that finds its module closed with a non-zero exit code makes InstantiateModule return that
				// exit error (and the closed module): outside the registry's result alphabet, so only Close(ctx) there
				if fl == 1 || (fl == 2 && code == 0) {
					out.Emit(runReentrant(ctx, "reent:"+win+"/"+tg.tag, setupR, tg.op, fl, code))
				}
			}
		}
	}
}
