//go:build verif

package wazero

import (
	"github.com/tetratelabs/wazero/api"
	"github.com/tetratelabs/wazero/internal/wasm"
)

// VerifUnwrap returns the module instance behind an api.Module returned by Runtime.Module or Instantiate.
func VerifUnwrap(m api.Module) *wasm.ModuleInstance {
	switch v := m.(type) {
	case *wasm.ModuleInstance:
		return v
	case hostModuleInstance:
		return VerifUnwrap(v.Module)
	}
	return nil
}

// VerifStore returns the store of a runtime.
func VerifStore(r Runtime) *wasm.Store { return r.(*runtime).store }
