//go:build verif

package wasm

// VerifListed returns the instances linked in the store's module list (Store.moduleList), head first.
func (s *Store) VerifListed() []*ModuleInstance {
	s.mux.RLock()
	defer s.mux.RUnlock()
	var out []*ModuleInstance
	for m := s.moduleList; m != nil; m = m.next {
		out = append(out, m)
	}
	return out
}
