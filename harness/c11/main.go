// C11 correspondence harness: N instances of one compiled module (and instances in a second runtime sharing
// the compilation cache) driven by an interleaved call sequence; every instance must observe exactly what a lone
// instance observes for its own subsequence of calls, on both engines.
package main

import (
	"context"
	"encoding/hex"
	"flag"
	"fmt"
	"sync"

	"github.com/tetratelabs/wazero"
	"github.com/tetratelabs/wazero/api"
	c "github.com/tetratelabs/wazero/internal/zz_verif/common"
)

type InstObs struct {
	Obs     []c.CallObs `json:"obs"`
	Globals []uint64    `json:"globals"`
	Mem     [][2]uint32 `json:"mem"`
	Pages   uint32      `json:"pages"`
	HLog    [][]uint64  `json:"hlog"`
}

type EngObs struct {
	Inter []InstObs `json:"inter"` // per instance, from the interleaved run
	Lone  []InstObs `json:"lone"`  // per instance, the same calls on a lone instance in a fresh runtime
	Err   string    `json:"err,omitempty"`
}

type Case struct {
	ID      int               `json:"id"`
	Store   string            `json:"store"`
	HRes    [][]int           `json:"hres"`
	N       int               `json:"n"`
	Sched   [][]uint64        `json:"sched"` // [instance, function, args...]
	Engines map[string]EngObs `json:"engines"`
	Wasm    string            `json:"wasm"`
}

func newRT(ctx context.Context, engine string, cache wazero.CompilationCache) wazero.Runtime {
	var rc wazero.RuntimeConfig
	if engine == "compiler" {
		rc = wazero.NewRuntimeConfigCompiler()
	} else {
		rc = wazero.NewRuntimeConfigInterpreter()
	}
	if cache != nil {
		rc = rc.WithCompilationCache(cache)
	}
	return wazero.NewRuntimeWithConfig(ctx, rc)
}

func final(m *c.ModSpec, mod api.Module, io *InstObs) {
	for i, t := range m.Globals {
		v := mod.ExportedGlobal(fmt.Sprintf("g%d", i)).Get()
		if t == c.I32 {
			v &= 0xffffffff
		}
		io.Globals = append(io.Globals, v)
	}
	if m.HasMem {
		io.Mem = c.NonZero(mod.Memory(), 4096)
		io.Pages, _ = mod.Memory().Grow(0)
	}
}

func call(ctx context.Context, m *c.ModSpec, mod api.Module, cl []uint64, io *InstObs) {
	fi := int(cl[0])
	res, err := mod.ExportedFunction(fmt.Sprintf("f%d", fi)).Call(ctx, cl[1:]...)
	if err != nil {
		io.Obs = append(io.Obs, c.CallObs{Trap: c.TrapClass(err)})
	} else {
		io.Obs = append(io.Obs, c.CallObs{Res: c.MaskRes(res, m.FuncSig(fi).R)})
	}
}

func runOn(engine string, m *c.ModSpec, bin []byte, n int, sched [][]uint64) (eo EngObs) {
	defer func() {
		if e := recover(); e != nil {
			eo.Err = fmt.Sprint("PANIC: ", e)
		}
	}()
	ctx := context.Background()
	cache := wazero.NewCompilationCache()
	defer cache.Close(ctx)
	// interleaved: instances alternate between two runtimes that share the cache; each runtime has its own env
	// (host state is per runtime), each instance its own host log through a per-call marker
	rts := []wazero.Runtime{newRT(ctx, engine, cache), newRT(ctx, engine, cache)}
	logs := []*c.HostLog{{}, {}}
	var cms []wazero.CompiledModule
	for k, rt := range rts {
		defer rt.Close(ctx)
		if err := c.InstantiateEnv(ctx, rt, m, logs[k]); err != nil {
			eo.Err = "env: " + err.Error()
			return
		}
		cm, err := rt.CompileModule(ctx, bin)
		if err != nil {
			eo.Err = "compile: " + err.Error()
			return
		}
		cms = append(cms, cm)
	}
	mods := make([]api.Module, n)
	for i := 0; i < n; i++ {
		mod, err := rts[i%2].InstantiateModule(ctx, cms[i%2], wazero.NewModuleConfig().WithName(""))
		if err != nil {
			eo.Err = "instantiate: " + err.Error()
			return
		}
		mods[i] = mod
	}
	eo.Inter = make([]InstObs, n)
	for _, s := range sched {
		i := int(s[0])
		lg := logs[i%2]
		before := len(lg.Events)
		call(ctx, m, mods[i], s[1:], &eo.Inter[i])
		eo.Inter[i].HLog = append(eo.Inter[i].HLog, lg.Events[before:]...)
	}
	for i := range mods {
		final(m, mods[i], &eo.Inter[i])
	}
	// lone runs
	eo.Lone = make([]InstObs, n)
	for i := 0; i < n; i++ {
		rt := newRT(ctx, engine, nil)
		lg := &c.HostLog{}
		if err := c.InstantiateEnv(ctx, rt, m, lg); err != nil {
			eo.Err = "env: " + err.Error()
			return
		}
		mod, err := rt.InstantiateWithConfig(ctx, bin, wazero.NewModuleConfig().WithName("lone"))
		if err != nil {
			eo.Err = "instantiate lone: " + err.Error()
			return
		}
		for _, s := range sched {
			if int(s[0]) == i {
				call(ctx, m, mod, s[1:], &eo.Lone[i])
			}
		}
		eo.Lone[i].HLog = lg.Events
		final(m, mod, &eo.Lone[i])
		rt.Close(ctx)
	}
	return
}

func main() {
	seed := flag.Uint64("seed", 1, "")
	n := flag.Int("n", 100, "")
	flag.Parse()
	rng := c.NewRng(*seed)
	out := c.NewOut()
	defer out.Flush()
	cases := make([]Case, *n)
	mods := make([]*c.ModSpec, *n)
	bins := make([][]byte, *n)
	for i := 0; i < *n; i++ {
		g := &c.Gen{R: rng, OOBRate: 2 + rng.Intn(3), TrapRate: 4 + rng.Intn(6)}
		m := g.Program(2 + rng.Intn(3))
		bin := m.Encode()
		ni := 2 + rng.Intn(3)
		var sched [][]uint64
		for k := 6 + rng.Intn(10); k > 0; k-- {
			fi := len(m.Hosts) + rng.Intn(len(m.Funcs))
			s := []uint64{uint64(rng.Intn(ni)), uint64(fi)}
			for _, t := range m.FuncSig(fi).P {
				v := rng.Pick([]uint64{0, 1, 2, 5, 9, 0xffffffff, 0x80000000, rng.U64(), uint64(rng.Intn(70))})
				if t == c.I32 {
					v &= 0xffffffff
				}
				s = append(s, v)
			}
			sched = append(sched, s)
		}
		var hres [][]int
		for _, h := range m.Hosts {
			ws := []int{}
			for _, t := range h.Sig.R {
				if t == c.I64 {
					ws = append(ws, 64)
				} else {
					ws = append(ws, 32)
				}
			}
			hres = append(hres, ws)
		}
		cases[i] = Case{ID: i, Store: m.CoqStore(), HRes: hres, N: ni, Sched: sched, Wasm: hex.EncodeToString(bin), Engines: map[string]EngObs{}}
		mods[i], bins[i] = m, bin
	}
	var wg sync.WaitGroup
	var mu sync.Mutex
	sem := make(chan struct{}, 12)
	for i := range cases {
		for _, eng := range []string{"interp", "compiler"} {
			wg.Add(1)
			sem <- struct{}{}
			go func(i int, eng string) {
				defer wg.Done()
				defer func() { <-sem }()
				eo := runOn(eng, mods[i], bins[i], cases[i].N, cases[i].Sched)
				mu.Lock()
				cases[i].Engines[eng] = eo
				mu.Unlock()
			}(i, eng)
		}
	}
	wg.Wait()
	for i := range cases {
		out.Emit(cases[i])
	}
}
