// C11 correspondence harness: N instances of one compiled module (and instances in a second runtime sharing
// the compilation cache) driven by an interleaved call sequence; every instance must observe exactly what a lone
// instance observes for its own subsequence of calls, on both engines.
package main

import (
	"context"
	"encoding/hex"
	"flag"
	"fmt"
	"sync"

	"github.com/tetratelabs/wazero"
	"github.com/tetratelabs/wazero/api"
	c "github.com/tetratelabs/wazero/internal/zz_verif/common"
)

type InstObs struct {
	Obs     []c.CallObs `json:"obs"`
	Globals []uint64    `json:"globals"`
	Mem     [][2]uint32 `json:"mem"`
	Pages   uint32      `json:"pages"`
	HLog    [][]uint64  `json:"hlog"`
}

type EngObs struct {
	Inter []InstObs `json:"inter"` // per instance, from the interleaved run
	Lone  []InstObs `json:"lone"`  // per instance, the same calls on a lone instance in a fresh runtime
	Err   string    `json:"err,omitempty"`
}

type Case struct {
	ID      int               `json:"id"`
	Store   string            `json:"store"`
	HRes    [][]int           `json:"hres"`
	N       int               `json:"n"`
	Sched   [][]uint64        `json:"sched"` // [instance, function, args...]
	Engines map[string]EngObs `json:"engines"`
	Wasm    string            `json:"wasm"`
}

func newRT(ctx context.Context, engine string, cache wazero.CompilationCache) wazero.Runtime {
	var rc wazero.RuntimeConfig
	if engine == "compiler" {
		rc = wazero.NewRuntimeConfigCompiler()
	} else {
		rc = wazero.NewRuntimeConfigInterpreter()
	}
	if cache != nil {
		rc = rc.WithCompilationCache(cache)
	}
	return wazero.NewRuntimeWithConfig(ctx, rc)
}

func final(m *c.ModSpec, mod api.Module, io *InstObs) {
	for i, t := range m.Globals {
		v := mod.ExportedGlobal(fmt.Sprintf("g%d", i)).Get()
		if t == c.I32 {
			v &= 0xffffffff
		}
		io.Globals = append(io.Globals, v)
	}
	if m.HasMem {
		io.Mem = c.NonZero(mod.Memory(), 4096)
		io.Pages, _ = mod.Memory().Grow(0)
	}
}

func call(ctx context.Context, m *c.ModSpec, mod api.Module, cl []uint64, io *InstObs) {
	fi := int(cl[0])
	res, err := mod.ExportedFunction(fmt.Sprintf("f%d", fi)).Call(ctx, cl[1:]...)
	if err != nil {
		io.Obs = append(io.Obs, c.CallObs{Trap: c.TrapClass(err)})
	} else if len(m.Hosts) == 0 {
		io.Obs = append(io.Obs, c.CallObs{Res: c.MaskRes(res, []byte{c.I32})})
	} else {
		io.Obs = append(io.Obs, c.CallObs{Res: c.MaskRes(res, m.FuncSig(fi).R)})
	}
}

func runOn(engine string, m *c.ModSpec, bin []byte, n int, sched [][]uint64) (eo EngObs) {
	defer func() {
		if e := recover(); e != nil {
			eo.Err = fmt.Sprint("PANIC: ", e)
		}
	}()
	ctx := context.Background()
	cache := wazero.NewCompilationCache()
	defer cache.Close(ctx)
	// interleaved: instances alternate between two runtimes that share the cache; each runtime has its own env
	// (host state is per runtime), each instance its own host log through a per-call marker
	rts := []wazero.Runtime{newRT(ctx, engine, cache), newRT(ctx, engine, cache)}
	logs := []*c.HostLog{{}, {}}
	var cms []wazero.CompiledModule
	for k, rt := range rts {
		defer rt.Close(ctx)
		if err := c.InstantiateEnv(ctx, rt, m, logs[k]); err != nil {
			eo.Err = "env: " + err.Error()
			return
		}
		cm, err := rt.CompileModule(ctx, bin)
		if err != nil {
			eo.Err = "compile: " + err.Error()
			return
		}
		cms = append(cms, cm)
	}
	mods := make([]api.Module, n)
	for i := 0; i < n; i++ {
		mod, err := rts[i%2].InstantiateModule(ctx, cms[i%2], wazero.NewModuleConfig().WithName(""))
		if err != nil {
			eo.Err = "instantiate: " + err.Error()
			return
		}
		mods[i] = mod
	}
	eo.Inter = make([]InstObs, n)
	for _, s := range sched {
		i := int(s[0])
		lg := logs[i%2]
		before := len(lg.Events)
		call(ctx, m, mods[i], s[1:], &eo.Inter[i])
		eo.Inter[i].HLog = append(eo.Inter[i].HLog, lg.Events[before:]...)
	}
	for i := range mods {
		final(m, mods[i], &eo.Inter[i])
	}
	// lone runs
	eo.Lone = make([]InstObs, n)
	for i := 0; i < n; i++ {
		rt := newRT(ctx, engine, nil)
		lg := &c.HostLog{}
		if err := c.InstantiateEnv(ctx, rt, m, lg); err != nil {
			eo.Err = "env: " + err.Error()
			return
		}
		mod, err := rt.InstantiateWithConfig(ctx, bin, wazero.NewModuleConfig().WithName("lone"))
		if err != nil {
			eo.Err = "instantiate lone: " + err.Error()
			return
		}
		for _, s := range sched {
			if int(s[0]) == i {
				call(ctx, m, mod, s[1:], &eo.Lone[i])
			}
		}
		eo.Lone[i].HLog = lg.Events
		final(m, mod, &eo.Lone[i])
		rt.Close(ctx)
	}
	return
}

func main() {
	seed := flag.Uint64("seed", 1, "")
	n := flag.Int("n", 100, "")
	flag.Parse()
	rng := c.NewRng(*seed)
	out := c.NewOut()
	defer out.Flush()
	successors(context.Background(), out)
	cases := make([]Case, *n)
	mods := make([]*c.ModSpec, *n)
	bins := make([][]byte, *n)
	for i := 0; i < *n; i++ {
		g := &c.Gen{R: rng, OOBRate: 2 + rng.Intn(3), TrapRate: 4 + rng.Intn(6)}
		m := g.Program(2 + rng.Intn(3))
		bin := m.Encode()
		ni := 2 + rng.Intn(3)
		var sched [][]uint64
		for k := 6 + rng.Intn(10); k > 0; k-- {
			fi := len(m.Hosts) + rng.Intn(len(m.Funcs))
			s := []uint64{uint64(rng.Intn(ni)), uint64(fi)}
			for _, t := range m.FuncSig(fi).P {
				v := rng.Pick([]uint64{0, 1, 2, 5, 9, 0xffffffff, 0x80000000, rng.U64(), uint64(rng.Intn(70))})
				if t == c.I32 {
					v &= 0xffffffff
				}
				s = append(s, v)
			}
			sched = append(sched, s)
		}
		var hres [][]int
		for _, h := range m.Hosts {
			ws := []int{}
			for _, t := range h.Sig.R {
				if t == c.I64 {
					ws = append(ws, 64)
				} else {
					ws = append(ws, 32)
				}
			}
			hres = append(hres, ws)
		}
		cases[i] = Case{ID: i, Store: m.CoqStore(), HRes: hres, N: ni, Sched: sched, Wasm: hex.EncodeToString(bin), Engines: map[string]EngObs{}}
		mods[i], bins[i] = m, bin
	}
	// fixed case: per-instance values that are NOT module constants — a funcref global initialised by ref.func, used for
	// an indirect call that bumps instance state; plus a passive data segment dropped in one instance and used in another
	{
		mm := &c.Mod{}
		mm.Types = [][]byte{c.FT(nil, c.B(c.I32)), c.FT(c.B(c.I32), c.B(c.I32))}
		mm.Funcs = [][]byte{c.U32(0), c.U32(0), c.U32(1), c.U32(0)}
		mm.Tables = [][]byte{c.Cat(c.B(c.FuncRef, 0), c.U32(2))}
		mm.Mems = [][]byte{c.MemLimits(1, nil)}
		mm.Globals = [][]byte{c.Cat(c.B(c.I32, 1), c.I32Const(0), c.B(0x0b)), c.Cat(c.B(c.FuncRef, 0), c.B(0xd2), c.U32(0), c.B(0x0b))}
		mm.Exports = [][]byte{c.Export("f4", 0, 0), c.Export("f5", 0, 1), c.Export("f6", 0, 2), c.Export("f7", 0, 3), c.Export("mem", 2, 0), c.Export("g0", 3, 0)}
		mm.DataCount = true
		mm.Datas = [][]byte{c.Cat(c.U32(1), c.U32(4), c.B(9, 8, 7, 6))} // passive
		mm.Codes = [][]byte{
			// f4 = bump: counter++; mem[0] = counter; return counter
			c.Code(nil, c.GlobalGet(0), c.I32Const(1), c.B(0x6a), c.GlobalSet(0), c.I32Const(0), c.GlobalGet(0), c.B(0x36, 2, 0), c.GlobalGet(0)),
			// f5 = run: table[0] = $fp; call_indirect table[0]
			c.Code(nil, c.I32Const(0), c.GlobalGet(1), c.B(0x26, 0), c.I32Const(0), c.B(0x11, 0, 0)),
			// f6(x) = memory.init seg0 to address 16 (traps if dropped); returns mem[16]
			c.Code(nil, c.I32Const(16), c.I32Const(0), c.I32Const(4), c.B(0xfc, 8, 0, 0), c.I32Const(16), c.B(0x28, 2, 0)),
			// f7 = data.drop 0
			c.Code(nil, c.B(0xfc, 9, 0), c.I32Const(1)),
		}
		bin := mm.Bytes()
		ms := &c.ModSpec{HasMem: true, Globals: []byte{c.I32}, GInit: []uint64{0}}
		ms.Hosts = nil
		ms.Funcs = []*c.FuncSpec{{Sig: c.Sig{R: []byte{c.I32}}}, {Sig: c.Sig{R: []byte{c.I32}}}, {Sig: c.Sig{P: []byte{c.I32}, R: []byte{c.I32}}}, {Sig: c.Sig{R: []byte{c.I32}}}}
		// function indices in the schedule are offset by the (absent) host imports: exports are named f4..f7 for uniformity
		// instances 0 and 2 live in the same runtime and come from the same compiled module, 1 in the other runtime:
		// 1 drops (must not affect 0), later 2 drops (must not affect 0 either, nor 3 created from the same compiled module)
		sched := [][]uint64{{0, 5}, {1, 5}, {1, 5}, {0, 6, 0}, {1, 7}, {0, 6, 0}, {1, 6, 0}, {2, 5}, {2, 6, 0}, {0, 5},
			{2, 7}, {0, 6, 0}, {2, 6, 0}, {3, 6, 0}, {0, 7}, {3, 6, 0}, {1, 6, 0}}
		cases = append(cases, Case{ID: len(cases), Store: "", HRes: nil, N: 4, Sched: sched, Wasm: hex.EncodeToString(bin), Engines: map[string]EngObs{}})
		mods, bins = append(mods, ms), append(bins, bin)
	}
	// fixed case 2: a function reference created AT RUN TIME by the ref.func instruction (not by an initialiser), stored
	// with table.set and called indirectly; also table.grow/table.size of the private table: all per-instance state
	{
		mm := &c.Mod{}
		mm.Types = [][]byte{c.FT(nil, c.B(c.I32))}
		mm.Funcs = [][]byte{c.U32(0), c.U32(0), c.U32(0)}
		mm.Tables = [][]byte{c.Cat(c.B(c.FuncRef, 1), c.U32(2), c.U32(8))}
		mm.Mems = [][]byte{c.MemLimits(1, nil)}
		mm.Globals = [][]byte{c.Cat(c.B(c.I32, 1), c.I32Const(0), c.B(0x0b))}
		mm.Exports = [][]byte{c.Export("f4", 0, 0), c.Export("f5", 0, 1), c.Export("f6", 0, 2), c.Export("mem", 2, 0), c.Export("g0", 3, 0)}
		mm.Elems = [][]byte{c.Cat(c.U32(3), c.B(0x00), c.Vec(c.U32(0)))} // declarative: function 0 may be named by ref.func
		mm.Codes = [][]byte{
			// f4 = bump: counter++; mem[0] = counter; return counter
			c.Code(nil, c.GlobalGet(0), c.I32Const(1), c.B(0x6a), c.GlobalSet(0), c.I32Const(0), c.GlobalGet(0), c.B(0x36, 2, 0), c.GlobalGet(0)),
			// f5 = run: table[1] = ref.func bump; call_indirect table[1]
			c.Code(nil, c.I32Const(1), c.B(0xd2, 0), c.B(0x26, 0), c.I32Const(1), c.B(0x11, 0, 0)),
			// f6 = table.grow by one null entry; return table.size
			c.Code(nil, c.B(0xd0, c.FuncRef), c.I32Const(1), c.B(0xfc, 15, 0), c.B(0x1a), c.B(0xfc, 16, 0)),
		}
		bin := mm.Bytes()
		ms := &c.ModSpec{HasMem: true, Globals: []byte{c.I32}, GInit: []uint64{0}}
		ms.Funcs = []*c.FuncSpec{{Sig: c.Sig{R: []byte{c.I32}}}, {Sig: c.Sig{R: []byte{c.I32}}}, {Sig: c.Sig{R: []byte{c.I32}}}}
		sched := [][]uint64{{0, 5}, {0, 5}, {1, 5}, {1, 6}, {2, 6}, {1, 5}, {0, 5}, {2, 5}, {2, 6}, {3, 5}, {0, 6}, {3, 5}}
		cases = append(cases, Case{ID: len(cases), Store: "", HRes: nil, N: 4, Sched: sched, Wasm: hex.EncodeToString(bin), Engines: map[string]EngObs{}})
		mods, bins = append(mods, ms), append(bins, bin)
	}
	var wg sync.WaitGroup
	var mu sync.Mutex
	sem := make(chan struct{}, 12)
	for i := range cases {
		for _, eng := range []string{"interp", "compiler"} {
			wg.Add(1)
			sem <- struct{}{}
			go func(i int, eng string) {
				defer wg.Done()
				defer func() { <-sem }()
				eo := runOn(eng, mods[i], bins[i], cases[i].N, cases[i].Sched)
				mu.Lock()
				cases[i].Engines[eng] = eo
				mu.Unlock()
			}(i, eng)
		}
	}
	wg.Wait()
	for i := range cases {
		out.Emit(cases[i])
	}
}
