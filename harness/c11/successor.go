package main

import (
	"context"
	"fmt"

	"github.com/tetratelabs/wazero"
	"github.com/tetratelabs/wazero/api"
	c "github.com/tetratelabs/wazero/internal/zz_verif/common"
)

// Successor instances: an instance A grows its memory, fills the new pages and is CLOSED; an unrelated instance B created
// afterwards (same compiled module, another module with the same limits, in the same runtime or in a second runtime
// sharing the compilation cache; capacity-from-max on and off) grows its own memory and reads the new pages: they are
// zero, as for a lone instance. Nothing of a closed instance's memory may reach a later one.
type Successor struct {
	Kind   string `json:"kind"` // "successor"
	Engine string `json:"engine"`
	CapMax bool   `json:"capmax"`
	Where  string `json:"where"` // same-module | other-module | other-runtime
	Reads  []uint32 `json:"reads"` // what B read at the addresses A had written (all must be 0)
	Err    string `json:"err,omitempty"`
}

func succMod(tag int32) []byte {
	m := &c.Mod{}
	four := uint32(4)
	m.Types = [][]byte{c.FT(c.B(c.I32), c.B(c.I32)), c.FT(c.B(c.I32, c.I32), nil), c.FT(nil, c.B(c.I32))}
	m.Funcs = [][]byte{c.U32(0), c.U32(1), c.U32(0), c.U32(2)}
	m.Mems = [][]byte{c.MemLimits(1, &four)}
	m.Exports = [][]byte{c.Export("grow", 0, 0), c.Export("store", 0, 1), c.Export("load", 0, 2), c.Export("tag", 0, 3)}
	m.Codes = [][]byte{
		c.Code(nil, c.LocalGet(0), c.B(0x40, 0)),
		c.Code(nil, c.LocalGet(0), c.LocalGet(1), c.B(0x36), c.MemArg(2, 0)),
		c.Code(nil, c.LocalGet(0), c.B(0x28), c.MemArg(2, 0)),
		c.Code(nil, c.I32Const(tag)),
	}
	return m.Bytes()
}

func successors(ctx context.Context, out *c.Out) {
	addrs := []uint64{65536 + 16, 2*65536 - 4, 2 * 65536, 3*65536 - 8, 4*65536 - 4}
	for _, eng := range []string{"interp", "compiler"} {
		for _, capmax := range []bool{true, false} {
			for _, where := range []string{"same-module", "other-module", "other-runtime"} {
				s := Successor{Kind: "successor", Engine: eng, CapMax: capmax, Where: where}
				func() {
					defer func() {
						if e := recover(); e != nil {
							s.Err = fmt.Sprint("go panic: ", e)
						}
					}()
					cache := wazero.NewCompilationCache()
					defer cache.Close(ctx)
					mk := func() wazero.Runtime {
						rc := wazero.NewRuntimeConfigInterpreter()
						if eng == "compiler" {
							rc = wazero.NewRuntimeConfigCompiler()
						}
						return wazero.NewRuntimeWithConfig(ctx, rc.WithMemoryCapacityFromMax(capmax).WithCompilationCache(cache))
					}
					r1 := mk()
					defer r1.Close(ctx)
					call := func(m api.Module, f string, args ...uint64) uint32 {
						res, err := m.ExportedFunction(f).Call(ctx, args...)
						if err != nil {
							panic(err)
						}
						if len(res) == 0 {
							return 0
						}
						return uint32(res[0])
					}
					for round := 0; round < 3; round++ { // several generations: A, closed; B, checked, filled, closed; ...
						a, err := r1.InstantiateWithConfig(ctx, succMod(1), wazero.NewModuleConfig().WithName(""))
						if err != nil {
							panic(err)
						}
						call(a, "grow", 3)
						for i, ad := range addrs {
							call(a, "store", ad, uint64(0x5ec2e700+i))
						}
						a.Close(ctx)
						rt := r1
						bin := succMod(1)
						if where == "other-module" {
							bin = succMod(2)
						}
						if where == "other-runtime" {
							rt = mk()
							defer rt.Close(ctx)
						}
						b, err := rt.InstantiateWithConfig(ctx, bin, wazero.NewModuleConfig().WithName(""))
						if err != nil {
							panic(err)
						}
						call(b, "grow", 3)
						for _, ad := range addrs {
							s.Reads = append(s.Reads, call(b, "load", ad))
						}
						b.Close(ctx)
					}
				}()
				out.Emit(s)
			}
		}
	}
}
