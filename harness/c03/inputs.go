package main

import (
	"bytes"
	"encoding/hex"
	"fmt"

	c "github.com/tetratelabs/wazero/internal/zz_verif/common"
)

// Input classes:
//
//	valid   a module of harness/common/gen.go (valid by construction)
//	validx  the same with by-construction-valid additions: name section, custom sections, padded LEB128
//	        section sizes, a data count section
//	valid2  a module of the second generator (gen2.go): every value type, multi-value block types, tables,
//	        bulk memory, references, SIMD lanes (valid by construction; engines compared with each other)
//	mut     a structured mutation of a valid module (Mut names the operator)
//	rand    random bytes (with or without header / section framing)
//	probe   a directed input for one allocation site or decoder corner (Mut names it)
type Input struct {
	ID    int    `json:"id"`
	Class string `json:"class"`
	Mut   string `json:"mut,omitempty"`
	Hex   string `json:"hex"`
}

var header = []byte{0, 0x61, 0x73, 0x6d, 1, 0, 0, 0}

type sec struct {
	id   byte
	body []byte
	// encoding overrides used by mutations
	size    int64 // declared size; -1 = len(body)
	padSize bool  // encode the size as a padded 5-byte LEB128 (still valid)
}

func splitSections(bin []byte) []sec {
	var out []sec
	p := 8
	for p < len(bin) {
		id := bin[p]
		p++
		sz, n := readU32(bin[p:])
		p += n
		end := p + int(sz)
		if n == 0 || end > len(bin) {
			break
		}
		out = append(out, sec{id: id, body: append([]byte{}, bin[p:end]...), size: -1})
		p = end
	}
	return out
}

func readU32(b []byte) (uint32, int) {
	var v uint32
	for i := 0; i < 5 && i < len(b); i++ {
		v |= uint32(b[i]&0x7f) << (7 * uint(i))
		if b[i] < 0x80 {
			return v, i + 1
		}
	}
	return 0, 0
}

func padded5(v uint32) []byte {
	return []byte{byte(v&0x7f) | 0x80, byte(v>>7&0x7f) | 0x80, byte(v>>14&0x7f) | 0x80, byte(v>>21&0x7f) | 0x80, byte(v >> 28)}
}

func join(secs []sec) []byte {
	o := append([]byte{}, header...)
	for _, s := range secs {
		o = append(o, s.id)
		sz := uint32(len(s.body))
		if s.size >= 0 {
			sz = uint32(s.size)
		}
		if s.padSize {
			o = append(o, padded5(sz)...)
		} else {
			o = append(o, c.U32(sz)...)
		}
		o = append(o, s.body...)
	}
	return o
}

func customSec(name string, payload []byte) sec {
	return sec{id: 0, body: c.Cat(c.Name(name), payload), size: -1}
}

func nameSection(m *c.ModSpec, rng *c.Rng) sec {
	var body []byte
	sub := func(id byte, b []byte) { body = append(body, c.Cat([]byte{id}, c.U32(uint32(len(b))), b)...) }
	sub(0, c.Name("m"))
	nf := len(m.Hosts) + len(m.Funcs)
	var fn [][]byte
	for i := 0; i < nf; i++ {
		if rng.Intn(3) != 0 {
			fn = append(fn, c.Cat(c.U32(uint32(i)), c.Name(fmt.Sprintf("fn%d", i))))
		}
	}
	sub(1, c.Vec(fn...))
	var ln [][]byte
	for i := range m.Funcs {
		if rng.Bool() {
			f := m.Funcs[i]
			var ls [][]byte
			for j := 0; j < len(f.Sig.P)+len(f.Locals); j++ {
				ls = append(ls, c.Cat(c.U32(uint32(j)), c.Name(fmt.Sprintf("l%d", j))))
			}
			ln = append(ln, c.Cat(c.U32(uint32(len(m.Hosts)+i)), c.Vec(ls...)))
		}
	}
	sub(2, c.Vec(ln...))
	if rng.Intn(4) == 0 { // an unknown subsection is skipped by its size
		sub(7, []byte{1, 2, 3})
	}
	return customSec("name", body)
}

func randBytes(rng *c.Rng, n int) []byte {
	b := make([]byte, n)
	for i := range b {
		b[i] = byte(rng.Intn(256))
	}
	return b
}

func newProgram(rng *c.Rng) *c.ModSpec {
	g := &c.Gen{R: rng, OOBRate: 1 + rng.Intn(3), TrapRate: 4 + rng.Intn(8)}
	return g.Program(1 + rng.Intn(4))
}

// validExtras adds by-construction-valid material to a generated module.
func validExtras(m *c.ModSpec, rng *c.Rng) ([]byte, string) {
	secs := splitSections(m.Encode())
	what := ""
	if rng.Bool() {
		what += "+name"
		secs = append(secs, nameSection(m, rng))
	}
	if rng.Bool() { // custom section with an EMPTY payload in the middle (at the very end: see the probe)
		what += "+custom-empty-mid"
		k := rng.Intn(len(secs))
		secs = append(secs[:k], append([]sec{customSec("e", nil)}, secs[k:]...)...)
	}
	if rng.Bool() {
		what += "+custom"
		k := rng.Intn(len(secs) + 1)
		secs = append(secs[:k], append([]sec{customSec("x.y", randBytes(rng, 1+rng.Intn(20)))}, secs[k:]...)...)
	}
	if rng.Intn(3) == 0 {
		what += "+datacount"
		nd := 0
		for _, s := range secs {
			if s.id == 11 {
				v, _ := readU32(s.body)
				nd = int(v)
			}
		}
		for k, s := range secs {
			if s.id == 10 {
				dc := sec{id: 12, body: c.U32(uint32(nd)), size: -1}
				secs = append(secs[:k], append([]sec{dc}, secs[k:]...)...)
				break
			}
		}
	}
	if rng.Bool() {
		what += "+padded-sizes"
		for k := range secs {
			if rng.Bool() {
				secs[k].padSize = true
			}
		}
	}
	if what == "" {
		what = "+nothing"
	}
	return join(secs), what
}

var hugeCounts = []uint64{0x7f, 0x80, 0x3fff, 0x4000, 1 << 16, 1 << 20, 1 << 22, 1 << 24, 1<<28 - 1, 1 << 31, 1<<32 - 1}
var valtypes = []byte{0x7f, 0x7e, 0x7d, 0x7c, 0x7b, 0x70, 0x6f, 0x40, 0x60}
var hotOpcodes = []byte{0x00, 0x01, 0x02, 0x03, 0x04, 0x05, 0x0b, 0x0c, 0x0d, 0x0e, 0x0f, 0x10, 0x11, 0x12, 0x13, 0x1a, 0x1b, 0x1c,
	0x20, 0x21, 0x22, 0x23, 0x24, 0x25, 0x26, 0x28, 0x36, 0x3f, 0x40, 0x41, 0x42, 0x43, 0x44, 0xd0, 0xd1, 0xd2, 0xfc, 0xfd, 0xfe, 0x6a, 0xa7}

func pickSec(secs []sec, rng *c.Rng, id int) int {
	if id >= 0 {
		for k, s := range secs {
			if int(s.id) == id {
				return k
			}
		}
	}
	return rng.Intn(len(secs))
}

// setCount rewrites the leading vector count of a section body.
func setCount(body []byte, v uint32) []byte {
	_, n := readU32(body)
	if n == 0 {
		return body
	}
	return c.Cat(c.U32(v), body[n:])
}

// mutate applies one structured mutation operator; most keep the section framing consistent so that the
// decoder's inner checks and the validator are reached.
func mutate(m *c.ModSpec, rng *c.Rng) ([]byte, string) { return mutateBin(m.Encode(), m, rng) }

// mutateBin: m is nil for modules of the second generator (operators that need the ModSpec are replaced)
func mutateBin(bin []byte, m *c.ModSpec, rng *c.Rng) ([]byte, string) {
	secs := splitSections(bin)
	op := rng.Intn(20)
	if m == nil && op == 14 {
		op = 3 + rng.Intn(6)
	}
	switch op {
	case 18, 19: // an index inside the element section (function / global indices of items, table index, segment kind)
		k := pickSec(secs, rng, 9)
		if secs[k].id != 9 || len(secs[k].body) < 3 {
			return bin, "noop"
		}
		b := secs[k].body
		p := 1 + rng.Intn(len(b)-1)
		old := b[p]
		b[p] = byte(rng.Pick([]uint64{uint64(old) + 1, uint64(old) + 7, 0x7f, 0x3f, 100, uint64(rng.Intn(16))}))
		return join(secs), fmt.Sprintf("elem-index(%d)", int(b[p])-int(old))
	case 16, 17: // an immediate byte of a function body re-encoded as a longer (non-canonical) LEB128 of the same value, sizes kept consistent
		k := pickSec(secs, rng, 10)
		if secs[k].id != 10 {
			return bin, "noop"
		}
		b := secs[k].body
		cnt, n0 := readU32(b)
		if cnt == 0 {
			return bin, "noop"
		}
		// a random entry; half of the time one that contains a bulk-memory / table instruction (0xfc prefix), if any
		want := rng.Intn(int(cnt))
		if rng.Bool() {
			var with []int
			o := n0
			for e := 0; e < int(cnt) && o < len(b); e++ {
				sz, n := readU32(b[o:])
				end := o + n + int(sz)
				if end > len(b) {
					break
				}
				for i := o + n; i+1 < end; i++ {
					if b[i] == 0xfc && b[i+1] >= 0x08 && b[i+1] <= 0x0b {
						with = append(with, e)
						break
					}
				}
				o = end
			}
			if len(with) > 0 {
				want = with[rng.Intn(len(with))]
			}
		}
		off := n0
		for e := 0; e < want && off < len(b); e++ {
			sz, n := readU32(b[off:])
			off += n + int(sz)
		}
		if off >= len(b) {
			return bin, "noop"
		}
		sz, n1 := readU32(b[off:])
		if off+n1+int(sz) > len(b) || sz < 3 {
			return bin, "noop"
		}
		entry := b[off+n1 : off+n1+int(sz)]
		var zeros, smalls []int
		for i := 1; i < len(entry)-1; i++ {
			if entry[i] == 0 {
				zeros = append(zeros, i)
			}
			if entry[i] < 0x40 {
				smalls = append(smalls, i)
			}
		}
		// reserved bytes / index immediates of memory.size, memory.grow, memory.init/copy/fill, table.* and call_indirect
		var reserved []int
		for i := 1; i+2 < len(entry); i++ {
			switch {
			case (entry[i] == 0x3f || entry[i] == 0x40) && entry[i+1] == 0:
				reserved = append(reserved, i+1)
			case entry[i] == 0xfc && entry[i+1] >= 0x08 && entry[i+1] <= 0x11:
				for j := i + 2; j < i+4 && j < len(entry)-1; j++ {
					if entry[j] < 0x40 {
						reserved = append(reserved, j)
					}
				}
			case entry[i] == 0x11 && entry[i+2] < 0x40:
				reserved = append(reserved, i+2)
			}
		}
		pos := smalls
		what := "small"
		if len(zeros) > 0 && rng.Intn(3) != 0 {
			pos, what = zeros, "zero"
		}
		if len(reserved) > 0 && rng.Intn(4) != 0 {
			pos, what = reserved, "reserved"
		}
		if len(pos) == 0 {
			return bin, "noop"
		}
		q := pos[rng.Intn(len(pos))]
		extra := 1 + rng.Intn(4)
		wide := []byte{entry[q] | 0x80}
		for i := 1; i < extra; i++ {
			wide = append(wide, 0x80)
		}
		wide = append(wide, 0x00)
		ne := c.Cat(entry[:q], wide, entry[q+1:])
		secs[k].body = c.Cat(b[:off], c.U32(uint32(len(ne))), ne, b[off+n1+int(sz):])
		return join(secs), fmt.Sprintf("leb-widen(%s,%d)", what, extra+1)
	case 0: // declared section size off
		k := rng.Intn(len(secs))
		n := int64(len(secs[k].body))
		secs[k].size = []int64{n + 1, n - 1, 0, n + int64(rng.Intn(100)), int64(rng.Pick(hugeCounts))}[rng.Intn(5)]
		if secs[k].size < 0 {
			secs[k].size = 0
		}
		return join(secs), fmt.Sprintf("section-size(id=%d)", secs[k].id)
	case 1: // vector count changed, section size kept consistent with the body
		k := rng.Intn(len(secs))
		old, _ := readU32(secs[k].body)
		v := []uint64{uint64(old) + 1, uint64(old) - 1, 0, rng.Pick(hugeCounts), rng.Pick(hugeCounts)}[rng.Intn(5)]
		secs[k].body = setCount(secs[k].body, uint32(v))
		return join(secs), fmt.Sprintf("vector-count(id=%d,%d)", secs[k].id, uint32(v))
	case 2: // vector count changed and the old declared size kept (both checks disagree)
		k := rng.Intn(len(secs))
		n := int64(len(secs[k].body))
		secs[k].body = setCount(secs[k].body, uint32(rng.Pick(hugeCounts)))
		secs[k].size = n
		return join(secs), fmt.Sprintf("vector-count-keep-size(id=%d)", secs[k].id)
	case 3, 4: // size-preserving byte replacement inside a section (indices, types, flags, immediates)
		k := rng.Intn(len(secs))
		if len(secs[k].body) == 0 {
			return bin, "noop"
		}
		for r := 1 + rng.Intn(2); r > 0; r-- {
			p := rng.Intn(len(secs[k].body))
			switch rng.Intn(4) {
			case 0:
				secs[k].body[p] = byte(rng.Intn(256))
			case 1:
				secs[k].body[p] = byte(rng.Pick([]uint64{0, 1, 2, 3, 4, 5, 7, 0x7f, 0x80, 0xff, 0x40, 0x0b}))
			case 2:
				secs[k].body[p] = valtypes[rng.Intn(len(valtypes))]
			default:
				secs[k].body[p] ^= 1 << uint(rng.Intn(8))
			}
		}
		return join(secs), fmt.Sprintf("byte(id=%d)", secs[k].id)
	case 5, 6, 7: // opcode / immediate replacement inside the code section (size preserving)
		k := pickSec(secs, rng, 10)
		b := secs[k].body
		if len(b) < 4 {
			return bin, "noop"
		}
		for r := 1 + rng.Intn(3); r > 0; r-- {
			p := 2 + rng.Intn(len(b)-2)
			if rng.Bool() {
				b[p] = hotOpcodes[rng.Intn(len(hotOpcodes))]
			} else {
				b[p] = byte(rng.Intn(10))
			}
		}
		return join(secs), "opcode"
	case 8: // branch depth tweak: the byte after a br / br_if opcode becomes a small depth
		k := pickSec(secs, rng, 10)
		b := secs[k].body
		var pos []int
		for i := 0; i+1 < len(b); i++ {
			if (b[i] == 0x0c || b[i] == 0x0d) && b[i+1] < 0x10 {
				pos = append(pos, i+1)
			}
		}
		if len(pos) == 0 {
			return bin, "noop"
		}
		p := pos[rng.Intn(len(pos))]
		b[p] = byte(rng.Intn(8))
		return join(secs), "br-depth"
	case 9: // truncation
		if len(bin) <= 8 {
			return bin, "noop"
		}
		return bin[:8+rng.Intn(len(bin)-8)], "truncate"
	case 10: // duplicated / swapped / dropped section
		k := rng.Intn(len(secs))
		switch rng.Intn(3) {
		case 0:
			secs = append(secs[:k+1], secs[k:]...)
			return join(secs), fmt.Sprintf("dup-section(id=%d)", secs[k].id)
		case 1:
			j := rng.Intn(len(secs))
			secs[k], secs[j] = secs[j], secs[k]
			return join(secs), fmt.Sprintf("swap-sections(%d,%d)", secs[k].id, secs[j].id)
		default:
			id := secs[k].id
			secs = append(secs[:k], secs[k+1:]...)
			return join(secs), fmt.Sprintf("drop-section(id=%d)", id)
		}
	case 11: // a huge LEB128 dropped over a random position
		k := rng.Intn(len(secs))
		if len(secs[k].body) == 0 {
			return bin, "noop"
		}
		p := rng.Intn(len(secs[k].body))
		v := c.U32(uint32(rng.Pick(hugeCounts)))
		secs[k].body = c.Cat(secs[k].body[:p], v, secs[k].body[p+1:])
		if rng.Bool() {
			secs[k].size = int64(len(secs[k].body)) - int64(len(v)) + 1
		}
		return join(secs), fmt.Sprintf("huge-leb(id=%d)", secs[k].id)
	case 12: // locals of the first function body: one group with a large count (kept well-formed)
		k := pickSec(secs, rng, 10)
		if secs[k].id != 10 {
			return bin, "noop"
		}
		b := secs[k].body
		cnt, n0 := readU32(b)
		if cnt == 0 {
			return bin, "noop"
		}
		sz, n1 := readU32(b[n0:])
		entry := b[n0+n1 : n0+n1+int(sz)]
		ng, n2 := readU32(entry) // number of local groups; the new group goes behind the existing ones
		p := n2
		for g := uint32(0); g < ng && p < len(entry); g++ {
			_, n := readU32(entry[p:])
			p += n + 1
		}
		if p > len(entry) {
			return bin, "noop"
		}
		num := uint32(rng.Pick([]uint64{200, 5000, 50000, 1 << 17}))
		group := c.Cat(c.U32(num), []byte{[]byte{0x7f, 0x7e}[rng.Intn(2)]})
		ne := c.Cat(c.U32(ng+1), entry[n2:p], group, entry[p:])
		secs[k].body = c.Cat(b[:n0], c.U32(uint32(len(ne))), ne, b[n0+n1+int(sz):])
		return join(secs), fmt.Sprintf("locals(%d)", num)
	case 13: // start section pointing at some function
		nfn := 8
		if m != nil {
			nfn = len(m.Hosts) + len(m.Funcs) + 2
		}
		idx := uint32(rng.Intn(nfn))
		st := sec{id: 8, body: c.U32(idx), size: -1}
		for k, s := range secs {
			if s.id > 8 && s.id != 12 || k == len(secs)-1 {
				secs = append(secs[:k], append([]sec{st}, secs[k:]...)...)
				break
			}
		}
		return join(secs), "start"
	case 14: // name section / DWARF sections with damaged content
		switch rng.Intn(3) {
		case 0:
			ns := nameSection(m, rng)
			if len(ns.body) > 6 {
				p := 5 + rng.Intn(len(ns.body)-5)
				ns.body[p] = byte(rng.Pick([]uint64{0, 0xff, 0x80, 0x7f, uint64(rng.Intn(256))}))
			}
			secs = append(secs, ns)
			return join(secs), "name-damaged"
		case 1:
			ns := nameSection(m, rng)
			secs = append(secs, ns, nameSection(m, rng))
			return join(secs), "name-twice"
		default:
			// a unit header debug/dwarf accepts, then noise
			info := c.Cat([]byte{40, 0, 0, 0, 4, 0, 0, 0, 0, 0, 4}, randBytes(rng, 40))
			secs = append(secs, customSec(".debug_info", info), customSec(".debug_abbrev", randBytes(rng, 30)),
				customSec(".debug_line", randBytes(rng, 40)), customSec(".debug_str", randBytes(rng, 10)),
				customSec(".debug_ranges", randBytes(rng, 16)))
			return join(secs), "dwarf-noise"
		}
	default: // two mutations stacked: a count and a byte
		k := rng.Intn(len(secs))
		old, _ := readU32(secs[k].body)
		secs[k].body = setCount(secs[k].body, old+uint32(rng.Intn(3)))
		if len(secs[k].body) > 0 {
			secs[k].body[rng.Intn(len(secs[k].body))] ^= byte(1 << uint(rng.Intn(8)))
		}
		return join(secs), fmt.Sprintf("count+byte(id=%d)", secs[k].id)
	}
}

func randomInput(rng *c.Rng) ([]byte, string) {
	switch rng.Intn(4) {
	case 0:
		return randBytes(rng, rng.Intn(64)), "raw"
	case 1:
		return c.Cat(header, randBytes(rng, rng.Intn(64))), "header+raw"
	case 2: // well-framed sections with random bodies
		o := append([]byte{}, header...)
		for k := 1 + rng.Intn(4); k > 0; k-- {
			body := randBytes(rng, rng.Intn(24))
			if rng.Bool() && len(body) > 0 {
				body[0] = byte(rng.Intn(4)) // a small count
			}
			o = append(o, c.Sec(byte(rng.Intn(14)), append(body, 0))...)
		}
		return o, "framed"
	default: // a section that is one huge count
		id := byte(rng.Intn(13))
		cnt := c.U32(uint32(rng.Pick(hugeCounts)))
		body := c.Cat(cnt, randBytes(rng, rng.Intn(6)))
		if id == 0 {
			body = c.Cat(c.Name([]string{"name", "x"}[rng.Intn(2)]), []byte{byte(rng.Intn(3))}, c.U32(uint32(len(cnt)+2)), cnt, randBytes(rng, 2))
		}
		return c.Cat(header, c.Sec(id, body)), fmt.Sprintf("huge-count(id=%d)", id)
	}
}

// the directed probes: one per unguarded allocation site (sizes chosen to stay far below the child's
// address-space limit) and the decoder corner found while modelling.
func probeInputs() []Input {
	u := c.U32
	mk := func(name string, b []byte) Input { return Input{Class: "probe", Mut: name, Hex: hex.EncodeToString(b)} }
	// directed inputs that are also instantiated and called when an engine accepts them (class "mut": judged like mutants)
	mkrun := func(name string, b []byte) Input { return Input{Class: "mut", Mut: "directed:" + name, Hex: hex.EncodeToString(b)} }
	typeSec := c.Sec(1, c.Vec(c.FT(nil, nil)))
	funcSec := c.Sec(3, c.Vec(u(0)))
	localsMod := func(n uint32) []byte {
		body := c.Cat(u(1), u(n), []byte{0x7f}, []byte{0x0b})
		return c.Cat(header, typeSec, funcSec, c.Sec(10, c.Cat(u(1), u(uint32(len(body))), body)))
	}
	return []Input{
		mk("export-count-2^22", c.Cat(header, c.Sec(7, u(1<<22)))),
		mk("locals-2^20-valid-module", localsMod(1<<20)),
		mk("name-function-count-2^22", c.Cat(header, c.Sec(0, c.Cat(c.Name("name"), []byte{1}, u(4), u(1<<22))))),
		mk("name-local-count-2^22", c.Cat(header, c.Sec(0, c.Cat(c.Name("name"), []byte{2}, u(6), u(1), u(0), u(1<<22))))),
		mk("data-size-2^28", c.Cat(header, c.Sec(11, c.Cat(u(1), u(0), c.I32Const(0), []byte{0x0b}, u(1<<28))))),
		mk("import-name-size-2^28", c.Cat(header, c.Sec(2, c.Cat(u(1), u(1<<28))))),
		mk("type-param-count-2^28", c.Cat(header, c.Sec(1, c.Cat(u(1), []byte{0x60}, u(1<<28))))),
		mk("code-body-size-2^28", c.Cat(header, typeSec, funcSec, c.Sec(10, c.Cat(u(1), u(1<<28), u(0))))),
		mk("custom-data-size-2^28", c.Cat(header, []byte{0}, u(1<<28), c.Name("x"), []byte{1})),
		mk("custom-empty-payload-at-end", c.Cat(header, typeSec, c.Sec(0, c.Name("a")))),
		mk("custom-empty-payload-then-section", c.Cat(header, c.Sec(0, c.Name("a")), typeSec)),
		// function 0 calls function 1, whose type index is out of range
		mk("call-to-function-with-invalid-type-index", c.Cat(header, typeSec, c.Sec(3, c.Vec(u(0), u(5))),
			c.Sec(10, c.Vec(c.Code(nil, c.Call(1)), c.Code(nil))))),
		// guarded since 14ba147: must now be cheap
		mk("type-count-2^24-guarded", c.Cat(header, c.Sec(1, u(1<<24)))),
		mk("element-init-count-2^24-guarded", c.Cat(header, c.Sec(9, c.Cat(u(1), u(0), c.I32Const(0), []byte{0x0b}, u(1<<24))))),
		// one type with 100,000 parameters: decoding must stay linear in the input (was quadratic: F58)
		mk("type-100000-params", func() []byte {
			ps := make([]byte, 100000)
			for i := range ps {
				ps[i] = 0x7f
			}
			return c.Cat(header, c.Sec(1, c.Cat(u(1), []byte{0x60}, u(100000), ps, u(0))))
		}()),
		// (global i64 (i64.const 0x12345678)) (table 1 funcref) (elem (i32.const 0) funcref (item (global.get 0)))
		// (func (export "f0") (call_indirect (i32.const 0))): the element item names a global that is not a reference:
		// must be rejected (was accepted and the call dereferenced 0x12345678+16: F57)
		mkrun("elem-item-global-get-of-i64-global", c.Cat(header, typeSec, funcSec, c.Sec(4, c.Vec([]byte{0x70, 0x00, 0x01})),
			c.Sec(6, c.Vec(c.Cat([]byte{0x7e, 0x00}, c.I64Const(0x12345678), []byte{0x0b}))),
			c.Sec(7, c.Vec(c.Export("f0", 0, 0))),
			c.Sec(9, c.Vec(c.Cat(u(4), c.I32Const(0), []byte{0x0b}, c.Vec([]byte{0x23, 0x00, 0x0b})))),
			c.Sec(10, c.Vec(c.Code(nil, c.I32Const(0), []byte{0x11, 0x00, 0x00}))))),
		// the same through an i32 global and a PASSIVE segment + table.init
		mkrun("elem-item-global-get-of-i32-global-passive", c.Cat(header, typeSec, funcSec, c.Sec(4, c.Vec([]byte{0x70, 0x00, 0x01})),
			c.Sec(6, c.Vec(c.Cat([]byte{0x7f, 0x00}, c.I32Const(0x1234568), []byte{0x0b}))),
			c.Sec(7, c.Vec(c.Export("f0", 0, 0))),
			c.Sec(9, c.Vec(c.Cat(u(5), []byte{0x70}, c.Vec([]byte{0x23, 0x00, 0x0b})))),
			c.Sec(10, c.Vec(c.Code(nil, c.I32Const(0), c.I32Const(0), c.I32Const(1), []byte{0xfc, 12, 0, 0}, c.I32Const(0), []byte{0x11, 0x00, 0x00}))))),
	}
}

func mustHex(h string) []byte {
	b, err := hex.DecodeString(h)
	if err != nil {
		panic(err)
	}
	return b
}

// directedValid: hand-written VALID modules around index-space sizes the generators do not reach (class validx: must be
// accepted, instantiated and run on both engines).
func directedValid() []Input {
	header := []byte{0, 0x61, 0x73, 0x6d, 1, 0, 0, 0}
	u := c.U32
	var ins []Input
	// n imported funcref globals, a table of n entries initialised by an element segment whose items are
	// global.get 0 .. n-1 (indexes 64..127 have bit 6 set in their one-byte LEB128 encoding, 8192.. in two bytes),
	// f0 = call_indirect (table[n-1]) which is null: traps
	for _, n := range []uint32{65, 130} {
		var imps, items [][]byte
		for i := uint32(0); i < n; i++ {
			imps = append(imps, c.Cat(c.Name("env"), c.Name(fmt.Sprintf("g%d", i)), []byte{3, 0x70, 0}))
			items = append(items, c.Cat([]byte{0x23}, u(i), []byte{0x0b}))
		}
		b := c.Cat(header, c.Sec(1, c.Vec(c.FT(nil, nil))), c.Sec(2, c.Vec(imps...)), c.Sec(3, c.Vec(u(0))),
			c.Sec(4, c.Vec(c.Cat([]byte{0x70, 0x00}, u(n)))), c.Sec(7, c.Vec(c.Export("f0", 0, 0))),
			c.Sec(9, c.Vec(c.Cat(u(4), c.I32Const(0), []byte{0x0b}, c.Vec(items...)))),
			c.Sec(10, c.Vec(c.Code(nil, c.I32Const(int32(n-1)), []byte{0x11, 0x00, 0x00}))))
		ins = append(ins, Input{Class: "validx", Mut: fmt.Sprintf("directed:elem-items-global-get-0..%d", n-1), Hex: hex.EncodeToString(b)})
	}
	return ins
}

func genInputs(rng *c.Rng, nValid, nValid2, nMut, nRand int, withProbes bool) []Input {
	var ins []Input
	add := func(class, mut string, b []byte) {
		ins = append(ins, Input{Class: class, Mut: mut, Hex: hex.EncodeToString(b)})
	}
	var pool []*c.ModSpec
	for i := 0; i < nValid; i++ {
		m := newProgram(rng)
		pool = append(pool, m)
		if i%2 == 0 {
			add("valid", "", m.Encode())
		} else {
			b, what := validExtras(m, rng)
			add("validx", what, b)
		}
	}
	if len(pool) == 0 {
		pool = append(pool, newProgram(rng))
	}
	for _, d := range directedValid() {
		add("validx", d.Mut, mustHex(d.Hex))
	}
	for i := 0; i < nValid2; i++ { // the structural/type-coverage generator (gen2.go)
		add("valid2", "", genModule2(rng))
	}
	var pool2 [][]byte
	for _, in := range ins {
		if in.Class == "valid2" {
			b, _ := hex.DecodeString(in.Hex)
			pool2 = append(pool2, b)
		}
	}
	for i := 0; i < nMut; i++ {
		if len(pool2) > 0 && i%3 == 2 { // a third of the mutants come from the second generator's modules
			src := pool2[rng.Intn(len(pool2))]
			b, what := mutateBin(src, nil, rng)
			if what == "noop" || bytes.Equal(b, src) {
				b, what = mutateBin(src, nil, rng)
			}
			add("mut", "g2:"+what, b)
			continue
		}
		m := pool[rng.Intn(len(pool))]
		b, what := mutate(m, rng)
		if what == "noop" || bytes.Equal(b, m.Encode()) {
			b, what = mutate(m, rng)
		}
		add("mut", what, b)
	}
	for i := 0; i < nRand; i++ {
		b, what := randomInput(rng)
		add("rand", what, b)
	}
	if withProbes {
		ins = append(ins, probeInputs()...)
	}
	// interleave so that every child sees every class and the expensive inputs are spread
	out := make([]Input, 0, len(ins))
	k := *par
	if k < 1 {
		k = 1
	}
	for r := 0; r < k; r++ {
		for i := r; i < len(ins); i += k {
			out = append(out, ins[i])
		}
	}
	return out
}
