// C03 correspondence harness (compiled into the wazero module through -overlay).
//
//	-mode leb    : the real internal/leb128 functions on all byte strings of length <= 2 (as row
//	               checksums), on boundary/random strings up to 11 bytes and the encoders on
//	               boundary/random values (explicit cases)
//	-mode lebrow : the explicit results of one row (used when a checksum differs)
//	-mode sizes  : unsafe.Sizeof of the element types the allocation model charges
//	-mode run    : generates the inputs (valid-by-construction modules, structured mutations, random
//	               bytes, directed probes) and has CHILD processes (this binary, -mode child) compile,
//	               instantiate and run them under RLIMIT_AS and a watchdog; a child that dies is an
//	               observation attributed to the input it announced last
//	-mode child  : processes inputs [from, to) of an inputs file
package main

import (
	"bufio"
	"encoding/json"
	"flag"
	"fmt"
	"os"
	"os/exec"
	"strings"
	"sync"
	"time"
	"unsafe"

	"github.com/tetratelabs/wazero/internal/wasm"
	c "github.com/tetratelabs/wazero/internal/zz_verif/common"
)

var (
	mode    = flag.String("mode", "run", "")
	seed    = flag.Uint64("seed", 1, "")
	nLeb    = flag.Int("nleb", 400, "explicit LEB strings")
	nValid  = flag.Int("nvalid", 60, "")
	nValid2 = flag.Int("nvalid2", 60, "modules of the second generator")
	nMut    = flag.Int("nmut", 400, "")
	nRand   = flag.Int("nrand", 200, "")
	par     = flag.Int("par", 4, "children in parallel")
	asLimit = flag.Uint64("aslimit", 3<<30, "RLIMIT_AS of a child in bytes")
	inFile  = flag.String("in", "", "")
	from    = flag.Int("from", 0, "")
	to      = flag.Int("to", 0, "")
	fArg    = flag.Int("f", 0, "")
	b0Arg   = flag.Int("b0", 0, "")
	watch   = flag.Int("watchdog", 25, "seconds without output before a child is killed")
	work    = flag.String("work", os.TempDir(), "directory for the inputs file")
	probes  = flag.Bool("probes", true, "include the directed probes")
)

func main() {
	flag.Parse()
	switch *mode {
	case "leb":
		lebMode()
	case "lebrow":
		lebRow(*fArg, byte(*b0Arg))
	case "sizes":
		out := c.NewOut()
		out.Emit(map[string]any{"k": "sizes", "sizes": []uintptr{
			unsafe.Sizeof(wasm.FunctionType{}), unsafe.Sizeof(wasm.Import{}), unsafe.Sizeof(wasm.Index(0)),
			unsafe.Sizeof(wasm.Table{}), unsafe.Sizeof(wasm.Global{}), unsafe.Sizeof(wasm.Export{}),
			unsafe.Sizeof(wasm.ElementSegment{}), unsafe.Sizeof(wasm.Code{}), unsafe.Sizeof(wasm.DataSegment{}),
			unsafe.Sizeof(wasm.NameAssoc{}), unsafe.Sizeof(wasm.NameMapAssoc{})}})
		out.Flush()
	case "child":
		childMode()
	case "run":
		runMode()
	case "iso":
		isoMode()
	default:
		fmt.Fprintln(os.Stderr, "unknown mode")
		os.Exit(2)
	}
}

// ---- parent: generate inputs, supervise children ----

type deathRec struct {
	ID     int    `json:"id"`
	Ev     string `json:"ev"`
	Stage  string `json:"stage"`
	How    string `json:"how"`
	Stderr string `json:"stderr"`
}

func runMode() {
	rng := c.NewRng(*seed)
	inputs := genInputs(rng, *nValid, *nValid2, *nMut, *nRand, *probes)
	path := fmt.Sprintf("%s/c03_inputs_%d_%d.jsonl", *work, *seed, os.Getpid())
	f, err := os.Create(path)
	if err != nil {
		panic(err)
	}
	w := bufio.NewWriter(f)
	for i := range inputs {
		inputs[i].ID = i
		b, _ := json.Marshal(inputs[i])
		w.Write(b)
		w.WriteByte('\n')
	}
	w.Flush()
	f.Close()
	defer os.Remove(path)

	var mu sync.Mutex
	stdout := bufio.NewWriterSize(os.Stdout, 1<<20)
	emit := func(line string) {
		mu.Lock()
		stdout.WriteString(line)
		stdout.WriteByte('\n')
		mu.Unlock()
	}
	// the inputs themselves (class, mutation, bytes) come first
	for i := range inputs {
		b, _ := json.Marshal(map[string]any{"ev": "input", "id": i, "class": inputs[i].Class, "mut": inputs[i].Mut, "hex": inputs[i].Hex})
		emit(string(b))
	}
	n := len(inputs)
	k := *par
	if k < 1 {
		k = 1
	}
	var wg sync.WaitGroup
	// interleaved chunks so that every child sees every class
	chunk := (n + k - 1) / k
	for ci := 0; ci < k; ci++ {
		lo, hi := ci*chunk, (ci+1)*chunk
		if hi > n {
			hi = n
		}
		if lo >= hi {
			continue
		}
		wg.Add(1)
		go func(lo, hi int) {
			defer wg.Done()
			supervise(path, lo, hi, emit)
		}(lo, hi)
	}
	wg.Wait()
	stdout.Flush()
}

// supervise runs children over [lo, hi); after a death it resumes behind the input that was being processed.
func supervise(path string, lo, hi int, emit func(string)) {
	self, _ := os.Executable()
	startupFailures := 0
	for lo < hi {
		cmd := exec.Command(self, "-mode", "child", "-in", path, "-from", fmt.Sprint(lo), "-to", fmt.Sprint(hi),
			"-aslimit", fmt.Sprint(*asLimit))
		cmd.Env = append(os.Environ(), "GOTRACEBACK=single", "GOMAXPROCS=2")
		pipe, _ := cmd.StdoutPipe()
		var errBuf tailBuf
		cmd.Stderr = &errBuf
		if err := cmd.Start(); err != nil {
			panic(err)
		}
		cur, stage := -1, ""
		lines := make(chan string, 64)
		go func() {
			sc := bufio.NewScanner(pipe)
			sc.Buffer(make([]byte, 1<<20), 64<<20)
			for sc.Scan() {
				lines <- sc.Text()
			}
			close(lines)
		}()
		killed := false
		done := -1
	loop:
		for {
			select {
			case ln, ok := <-lines:
				if !ok {
					break loop
				}
				if strings.HasPrefix(ln, "#start ") {
					fmt.Sscanf(ln, "#start %d", &cur)
					stage = "start"
				} else if strings.HasPrefix(ln, "#stage ") {
					stage = strings.TrimPrefix(ln, "#stage ")
				} else if strings.HasPrefix(ln, "{") {
					done = cur
					emit(ln)
				}
			case <-time.After(time.Duration(*watch) * time.Second):
				killed = true
				cmd.Process.Kill()
			}
		}
		err := cmd.Wait()
		if err == nil && !killed {
			return // the child finished its range
		}
		how := "exit"
		if err != nil {
			how = err.Error()
		}
		if killed {
			how = "hang: no output for " + fmt.Sprint(*watch) + "s, killed"
		}
		if cur > done && cur >= lo {
			b, _ := json.Marshal(deathRec{ID: cur, Ev: "died", Stage: stage, How: how, Stderr: errBuf.String()})
			emit(string(b))
			lo = cur + 1
			startupFailures = 0
			continue
		}
		// died outside the processing of an input (start-up, or between two inputs)
		b, _ := json.Marshal(deathRec{ID: done, Ev: "died-between", Stage: stage, How: how, Stderr: errBuf.String()})
		emit(string(b))
		if done >= lo {
			lo = done + 1
		}
		startupFailures++
		if startupFailures >= 3 {
			return
		}
	}
}

// tailBuf keeps the first 2 KiB and the last 2 KiB of what is written to it.
type tailBuf struct {
	mu   sync.Mutex
	head []byte
	tail []byte
}

func (t *tailBuf) Write(p []byte) (int, error) {
	t.mu.Lock()
	defer t.mu.Unlock()
	if len(t.head) < 2048 {
		k := 2048 - len(t.head)
		if k > len(p) {
			k = len(p)
		}
		t.head = append(t.head, p[:k]...)
	}
	t.tail = append(t.tail, p...)
	if len(t.tail) > 2048 {
		t.tail = t.tail[len(t.tail)-2048:]
	}
	return len(p), nil
}
func (t *tailBuf) String() string {
	t.mu.Lock()
	defer t.mu.Unlock()
	if len(t.head) < 2048 {
		return string(t.head)
	}
	return string(t.head) + "\n...\n" + string(t.tail)
}
