package main

// A second by-construction-valid generator, aimed at structural and type coverage rather than semantics (there is
// no Coq term): every value type (i32 i64 f32 f64 v128 funcref externref) as parameter, result, local and global;
// block/loop/if with PARAMETERS and multiple results through type-index block types; typed and untyped select;
// br / br_if / br_table carrying multi-value payloads; calls and call_indirect with such signatures; funcref and
// externref tables with table.get/set/grow/size/fill/copy/init and elem.drop; ref.null / ref.is_null / ref.func;
// memory loads/stores of every type incl. v128, memory.copy/fill/init and data.drop; a few SIMD lane operations.
// Every function terminates: calls go to higher function indices only, tables hold leaf functions only, loops run
// on a counter local.
//
// Determinism across engines: the only nondeterminism WebAssembly allows here is the payload of NaNs produced by
// float arithmetic. Computed floats therefore never reach integer or v128 values: no float->int reinterpretation,
// float stores go to their own memory region, float lanes of a v128 are only written from constants. Function results
// of float type are compared by class when they are NaNs.

import (
	"fmt"

	c "github.com/tetratelabs/wazero/internal/zz_verif/common"
)

type sig2 struct{ P, R []byte }

func (s sig2) key() string { return string(s.P) + ">" + string(s.R) }

type func2 struct {
	sig    sig2
	locals []byte // beyond the parameters
	body   []byte
	leaf   bool
}

type glob2 struct {
	t   byte
	mut bool
	imp bool
}

type tab2 struct {
	rt       byte
	min, max uint32
}

type gen2 struct {
	r       *c.Rng
	types   []sig2
	tmap    map[string]int
	imps    []sig2 // imported functions (module "env")
	funcs   []*func2
	globals []glob2
	tables  []tab2
	nData   int // data segments: 0 active, 1.. passive
	elems   []byte
	// per function
	cur    int
	fn     *func2
	lt     []byte   // types of params + locals
	labels [][]byte // branch arity of the enclosing labels, innermost last
	isLoop []bool
	counter map[int]bool // loop counter locals: never assigned by generated statements
	tab0    []int        // initial content of table 0: function index or -1
	size    int          // rough instruction budget
	tail    bool         // tail-call proposal: functions may end in return_call / return_call_indirect; longer, integer-heavy signatures
}

// SIMD operators whose results are fully determined by the specification for every bit pattern of the operands
// (integer operators, bitwise operators, float comparisons/abs/neg/pmin/pmax, conversions from integers and saturating
// truncations); float arithmetic and rounding are left out because the payload of a NaN result is not determined.
var simdBin, simdUn, simdShift, simdToI32 []uint64

func init() {
	rg := func(dst *[]uint64, lo, hi uint64) {
		for o := lo; o <= hi; o++ {
			*dst = append(*dst, o)
		}
	}
	rg(&simdBin, 0x23, 0x4c) // integer and float comparisons
	rg(&simdBin, 0xd6, 0xdb)
	rg(&simdBin, 0x4e, 0x51) // and andnot or xor
	simdBin = append(simdBin, 0x0e, 0x65, 0x66, 0x85, 0x86) // swizzle, narrow
	rg(&simdBin, 0x6e, 0x73)
	rg(&simdBin, 0x76, 0x79)
	simdBin = append(simdBin, 0x7b, 0x82, 0x82, 0x82)
	rg(&simdBin, 0x8e, 0x93)
	rg(&simdBin, 0x95, 0x99)
	rg(&simdBin, 0x9b, 0x9f)
	simdBin = append(simdBin, 0xae, 0xb1)
	rg(&simdBin, 0xb5, 0xba)
	rg(&simdBin, 0xbc, 0xbf)
	simdBin = append(simdBin, 0xce, 0xd1, 0xd5)
	rg(&simdBin, 0xdc, 0xdf)
	simdBin = append(simdBin, 0xea, 0xeb, 0xf6, 0xf7) // pmin pmax
	simdUn = append(simdUn, 0x4d, 0x60, 0x61, 0x62, 0x7c, 0x7d, 0x7e, 0x7f, 0x80, 0x81)
	rg(&simdUn, 0x87, 0x8a)
	simdUn = append(simdUn, 0xa0, 0xa1)
	rg(&simdUn, 0xa7, 0xaa)
	simdUn = append(simdUn, 0xc0, 0xc1)
	rg(&simdUn, 0xc7, 0xca)
	simdUn = append(simdUn, 0xe0, 0xe1, 0xec, 0xed) // float abs/neg
	rg(&simdUn, 0xf8, 0xff)                          // trunc_sat and convert
	simdShift = append(simdShift, 0x6b, 0x6c, 0x6d, 0x8b, 0x8c, 0x8d, 0xab, 0xac, 0xad, 0xcb, 0xcc, 0xcd)
	simdToI32 = append(simdToI32, 0x53, 0x63, 0x64, 0x83, 0x84, 0xa3, 0xa4, 0xc3, 0xc4)
}

var numTypes = []byte{c.I32, c.I64, c.F32, c.F64, c.V128}
var allTypes = []byte{c.I32, c.I64, c.F32, c.F64, c.V128, c.FuncRef, c.ExternRef}

func (g *gen2) typeIdx(s sig2) int {
	if i, ok := g.tmap[s.key()]; ok {
		return i
	}
	g.types = append(g.types, s)
	g.tmap[s.key()] = len(g.types) - 1
	return len(g.types) - 1
}

func (g *gen2) pick(ts []byte) byte { return ts[g.r.Intn(len(ts))] }
func (g *gen2) anyType() byte {
	if g.r.Intn(3) == 0 {
		return g.pick(allTypes)
	}
	return g.pick(numTypes)
}
func (g *gen2) typeList(max int) []byte {
	var o []byte
	for n := g.r.Intn(max + 1); n > 0; n-- {
		o = append(o, g.anyType())
	}
	return o
}

func simd(op uint32, imm ...byte) []byte { return c.Cat([]byte{0xfd}, c.U32(op), imm) }
func fc(op uint32, imm ...[]byte) []byte  { return c.Cat([]byte{0xfc}, c.U32(op), c.Cat(imm...)) }

func (g *gen2) newLocal(t byte) int {
	g.fn.locals = append(g.fn.locals, t)
	g.lt = append(g.lt, t)
	return len(g.lt) - 1
}

func (g *gen2) localsOf(t byte) []int {
	var o []int
	for i, x := range g.lt {
		if x == t && !g.counter[i] {
			o = append(o, i)
		}
	}
	return o
}

func (g *gen2) globalsOf(t byte, mutOnly bool) []int {
	var o []int
	for i, x := range g.globals {
		if x.t == t && (!mutOnly || x.mut) {
			o = append(o, i)
		}
	}
	return o
}

func (g *gen2) tablesOf(rt byte) []int {
	var o []int
	for i, x := range g.tables {
		if x.rt == rt {
			o = append(o, i)
		}
	}
	return o
}

func (g *gen2) leafFuncs() []int {
	var o []int
	for i, f := range g.funcs {
		if f.leaf {
			o = append(o, len(g.imps)+i)
		}
	}
	return o
}

func (g *gen2) constOf(t byte) []byte {
	switch t {
	case c.I32:
		return c.I32Const(int32(g.r.Pick([]uint64{0, 1, 2, 3, 7, 8, 16, 255, 4095, 65535, 65536, 0x7fffffff, 0x80000000, 0xffffffff, g.r.U64()})))
	case c.I64:
		return c.I64Const(int64(g.r.Pick([]uint64{0, 1, 2, 63, 64, 0xffffffff, 1 << 32, 1<<63 - 1, 1 << 63, ^uint64(0), g.r.U64()})))
	case c.F32:
		v := uint32(g.r.Pick([]uint64{0, 0x80000000, 0x3f800000, 0xbf800000, 0x40490fdb, 0x7f800000, 0xff800000, 0x7fc00000, 0x7fa00000, 0x00000001, 0x4f000000, g.r.U64()}))
		return []byte{0x43, byte(v), byte(v >> 8), byte(v >> 16), byte(v >> 24)}
	case c.F64:
		v := g.r.Pick([]uint64{0, 1 << 63, 0x3ff0000000000000, 0xbff0000000000000, 0x7ff0000000000000, 0x7ff8000000000000, 0x7ff4000000000000, 1, 0x41e0000000000000, 0x43e0000000000000, g.r.U64()})
		o := []byte{0x44}
		for i := 0; i < 8; i++ {
			o = append(o, byte(v>>(8*uint(i))))
		}
		return o
	case c.V128:
		o := simd(12)
		a, b := g.r.U64(), g.r.U64()
		if g.r.Intn(3) == 0 {
			a, b = g.r.Pick([]uint64{0, ^uint64(0), 1}), g.r.Pick([]uint64{0, ^uint64(0), 1 << 63})
		}
		for i := 0; i < 8; i++ {
			o = append(o, byte(a>>(8*uint(i))))
		}
		for i := 0; i < 8; i++ {
			o = append(o, byte(b>>(8*uint(i))))
		}
		return o
	case c.FuncRef:
		if lf := g.leafFuncs(); len(lf) > 0 && g.r.Bool() {
			return c.Cat([]byte{0xd2}, c.U32(uint32(lf[g.r.Intn(len(lf))])))
		}
		return []byte{0xd0, c.FuncRef}
	default:
		return []byte{0xd0, c.ExternRef}
	}
}

// addr leaves an i32 address inside [0, 4064] (16-byte aligned), so that with offsets < 8, widths <= 16 and bulk
// lengths < 32 integer accesses stay below 4096; float stores add 4096 through the memarg offset.
func (g *gen2) addr(d int) []byte {
	if g.r.Intn(12) == 0 { // rare: anything (may trap out of bounds, identically on both engines)
		return g.e(c.I32, d-1)
	}
	if g.r.Bool() {
		return c.I32Const(int32(16 * g.r.Intn(255)))
	}
	return c.Cat(g.e(c.I32, d-1), c.I32Const(0xfe0), []byte{0x71})
}

// tidx: a table index that is in range most of the time
func (g *gen2) tidx(ti int) []byte {
	if g.r.Intn(8) == 0 {
		return c.I32Const(int32(g.r.Intn(int(g.tables[ti].min) + 3)))
	}
	return c.I32Const(int32(g.r.Intn(int(g.tables[ti].min))))
}

func memarg(off uint32) []byte { return c.Cat(c.U32(0), c.U32(off)) }

// e leaves exactly one value of type t on the stack.
func (g *gen2) e(t byte, d int) []byte {
	g.size++
	if d <= 0 || g.size > 400 {
		switch g.r.Intn(3) {
		case 0:
			if ls := g.localsOf(t); len(ls) > 0 {
				return c.LocalGet(uint32(ls[g.r.Intn(len(ls))]))
			}
		case 1:
			if gs := g.globalsOf(t, false); len(gs) > 0 {
				return c.GlobalGet(uint32(gs[g.r.Intn(len(gs))]))
			}
		}
		return g.constOf(t)
	}
	// constructs available for every type
	switch g.r.Intn(14) {
	case 0: // typed or untyped select
		a, b, cond := g.e(t, d-1), g.e(t, d-1), g.e(c.I32, d-1)
		if t == c.FuncRef || t == c.ExternRef || g.r.Bool() {
			return c.Cat(a, b, cond, []byte{0x1c, 0x01, t})
		}
		return c.Cat(a, b, cond, []byte{0x1b})
	case 1: // local.tee
		if ls := g.localsOf(t); len(ls) > 0 {
			return c.Cat(g.e(t, d-1), c.LocalTee(uint32(ls[g.r.Intn(len(ls))])))
		}
	case 2: // call of a function whose results end in t
		if o := g.callFor(t, d); o != nil {
			return o
		}
	case 3: // multi-value structured instruction whose results end in t
		return g.ctrl(append(g.typeList(2), t), d, true)
	case 4: // value passed THROUGH a structured instruction as parameter and result
		if g.r.Bool() {
			return g.passThrough([]byte{t}, d)
		}
	case 5: // if with a result
		cond := g.e(c.I32, d-1)
		g.push([]byte{t}, false)
		th, el := g.e(t, d-1), g.e(t, d-1)
		g.pop()
		return c.Cat(cond, []byte{0x04, t}, th, []byte{0x05}, el, []byte{0x0b})
	}
	switch t {
	case c.I32:
		switch g.r.Intn(16) {
		case 0, 1, 2:
			op := g.pick([]byte{0x6a, 0x6b, 0x6c, 0x71, 0x72, 0x73, 0x74, 0x75, 0x76, 0x77, 0x78})
			if g.r.Intn(10) == 0 {
				op = g.pick([]byte{0x6d, 0x6e, 0x6f, 0x70})
			}
			return c.Cat(g.e(t, d-1), g.e(t, d-1), []byte{op})
		case 3:
			return c.Cat(g.e(t, d-1), []byte{g.pick([]byte{0x45, 0x67, 0x68, 0x69, 0xc0, 0xc1})})
		case 4:
			return c.Cat(g.e(c.I32, d-1), g.e(c.I32, d-1), []byte{0x46 + byte(g.r.Intn(10))})
		case 5:
			if g.r.Bool() {
				return c.Cat(g.e(c.I64, d-1), []byte{0x50})
			}
			return c.Cat(g.e(c.I64, d-1), g.e(c.I64, d-1), []byte{0x51 + byte(g.r.Intn(10))})
		case 6:
			return c.Cat(g.e(c.F32, d-1), g.e(c.F32, d-1), []byte{0x5b + byte(g.r.Intn(6))})
		case 7:
			return c.Cat(g.e(c.F64, d-1), g.e(c.F64, d-1), []byte{0x61 + byte(g.r.Intn(6))})
		case 8:
			switch g.r.Intn(4) {
			case 0:
				return c.Cat(g.e(c.I64, d-1), []byte{0xa7})
			case 1:
				return c.Cat(g.e(c.F32, d-1), fc(uint32(g.r.Intn(2))))
			case 2:
				return c.Cat(g.e(c.F64, d-1), fc(uint32(2+g.r.Intn(2))))
			default: // trapping conversion
				return c.Cat(g.e(c.F32, d-1), []byte{0xa8 + byte(g.r.Intn(2))})
			}
		case 9:
			op := g.pick([]byte{0x28, 0x2c, 0x2d, 0x2e, 0x2f})
			return c.Cat(g.addr(d), []byte{op}, memarg(uint32(g.r.Intn(8))))
		case 10:
			if g.r.Bool() {
				return []byte{0x3f, 0x00}
			}
			return fc(16, c.U32(uint32(g.r.Intn(len(g.tables)))))
		case 11:
			rt := g.pick([]byte{c.FuncRef, c.ExternRef})
			return c.Cat(g.e(rt, d-1), []byte{0xd1})
		case 12:
			switch g.r.Intn(4) {
			case 0:
				return c.Cat(g.e(c.V128, d-1), simd(27, byte(g.r.Intn(4))))
			case 1:
				return c.Cat(g.e(c.V128, d-1), simd(21+uint32(g.r.Intn(2)), byte(g.r.Intn(16))))
			case 2:
				return c.Cat(g.e(c.V128, d-1), simd(24+uint32(g.r.Intn(2)), byte(g.r.Intn(8))))
			default:
				return c.Cat(g.e(c.V128, d-1), simd(uint32(g.r.Pick(simdToI32))))
			}
		case 13: // memory.grow by 0 or 1
			return c.Cat(c.I32Const(int32(g.r.Intn(2))), []byte{0x40, 0x00})
		case 14: // table.grow
			ti := g.r.Intn(len(g.tables))
			return c.Cat(g.e(g.tables[ti].rt, d-1), c.I32Const(int32(g.r.Intn(3))), fc(15, c.U32(uint32(ti))))
		}
	case c.I64:
		switch g.r.Intn(8) {
		case 0, 1, 2:
			op := g.pick([]byte{0x7c, 0x7d, 0x7e, 0x83, 0x84, 0x85, 0x86, 0x87, 0x88, 0x89, 0x8a})
			if g.r.Intn(10) == 0 {
				op = g.pick([]byte{0x7f, 0x80, 0x81, 0x82})
			}
			return c.Cat(g.e(t, d-1), g.e(t, d-1), []byte{op})
		case 3:
			return c.Cat(g.e(t, d-1), []byte{g.pick([]byte{0x79, 0x7a, 0x7b, 0xc2, 0xc3, 0xc4})})
		case 4:
			return c.Cat(g.e(c.I32, d-1), []byte{0xac + byte(g.r.Intn(2))})
		case 5:
			if g.r.Bool() {
				return c.Cat(g.e(c.F32, d-1), fc(uint32(4+g.r.Intn(2))))
			}
			return c.Cat(g.e(c.F64, d-1), fc(uint32(6+g.r.Intn(2))))
		case 6:
			op := g.pick([]byte{0x29, 0x30, 0x31, 0x32, 0x33, 0x34, 0x35})
			return c.Cat(g.addr(d), []byte{op}, memarg(uint32(g.r.Intn(8))))
		case 7:
			return c.Cat(g.e(c.V128, d-1), simd(29, byte(g.r.Intn(2))))
		}
	case c.F32:
		switch g.r.Intn(7) {
		case 0, 1:
			if g.r.Intn(7) == 0 { // copysign: the sign must not come from a computed value (the sign of a NaN result is not determined)
				return c.Cat(g.e(t, d-1), g.constOf(t), []byte{0x98})
			}
			return c.Cat(g.e(t, d-1), g.e(t, d-1), []byte{0x92 + byte(g.r.Intn(6))})
		case 2:
			return c.Cat(g.e(t, d-1), []byte{0x8b + byte(g.r.Intn(7))})
		case 3:
			switch g.r.Intn(4) {
			case 0:
				return c.Cat(g.e(c.I32, d-1), []byte{0xb2 + byte(g.r.Intn(2))})
			case 1:
				return c.Cat(g.e(c.I64, d-1), []byte{0xb4 + byte(g.r.Intn(2))})
			case 2:
				return c.Cat(g.e(c.F64, d-1), []byte{0xb6})
			default:
				return c.Cat(g.e(c.I32, d-1), []byte{0xbe})
			}
		case 4: // float loads may read either region
			return c.Cat(g.addr(d), []byte{0x2a}, memarg(uint32(4096*g.r.Intn(2))))
		case 5:
			return c.Cat(g.e(c.V128, d-1), simd(31, byte(g.r.Intn(4))))
		}
	case c.F64:
		switch g.r.Intn(7) {
		case 0, 1:
			if g.r.Intn(7) == 0 {
				return c.Cat(g.e(t, d-1), g.constOf(t), []byte{0xa6})
			}
			return c.Cat(g.e(t, d-1), g.e(t, d-1), []byte{0xa0 + byte(g.r.Intn(6))})
		case 2:
			return c.Cat(g.e(t, d-1), []byte{0x99 + byte(g.r.Intn(7))})
		case 3:
			switch g.r.Intn(4) {
			case 0:
				return c.Cat(g.e(c.I32, d-1), []byte{0xb7 + byte(g.r.Intn(2))})
			case 1:
				return c.Cat(g.e(c.I64, d-1), []byte{0xb9 + byte(g.r.Intn(2))})
			case 2:
				return c.Cat(g.e(c.F32, d-1), []byte{0xbb})
			default:
				return c.Cat(g.e(c.I64, d-1), []byte{0xbf})
			}
		case 4:
			return c.Cat(g.addr(d), []byte{0x2b}, memarg(uint32(4096*g.r.Intn(2))))
		case 5:
			return c.Cat(g.e(c.V128, d-1), simd(33, byte(g.r.Intn(2))))
		}
	case c.V128:
		switch g.r.Intn(10) {
		case 0:
			return c.Cat(g.e(c.I32, d-1), simd(uint32(g.r.Pick([]uint64{15, 16, 17}))))
		case 1:
			return c.Cat(g.e(c.I64, d-1), simd(18))
		case 2: // float lanes only from constants
			if g.r.Bool() {
				return c.Cat(g.constOf(c.F32), simd(19))
			}
			return c.Cat(g.constOf(c.F64), simd(20))
		case 3:
			return c.Cat(g.e(t, d-1), g.e(t, d-1), simd(uint32(g.r.Pick(simdBin))))
		case 4:
			return c.Cat(g.e(t, d-1), simd(uint32(g.r.Pick(simdUn))))
		case 5:
			return c.Cat(g.e(t, d-1), g.e(t, d-1), g.e(t, d-1), simd(82))
		case 6:
			if g.r.Bool() {
				return c.Cat(g.e(t, d-1), g.e(c.I32, d-1), simd(28, byte(g.r.Intn(4))))
			}
			return c.Cat(g.e(t, d-1), g.e(c.I64, d-1), simd(30, byte(g.r.Intn(2))))
		case 7:
			switch g.r.Intn(4) {
			case 3: // v128.load{8,16,32,64}_lane: (address, vector) -> vector
				k := g.r.Intn(4)
				return c.Cat(g.addr(d), g.e(t, d-1), simd(84+uint32(k), 0, byte(g.r.Intn(8)), byte(g.r.Intn(16>>uint(k)))))
			case 0:
				return c.Cat(g.addr(d), simd(0), memarg(uint32(g.r.Intn(8))))
			case 1:
				return c.Cat(g.addr(d), simd(7), memarg(uint32(g.r.Intn(8))))
			default:
				return c.Cat(g.addr(d), simd(92), memarg(uint32(g.r.Intn(8))))
			}
		case 8:
			lanes := make([]byte, 16)
			for i := range lanes {
				lanes[i] = byte(g.r.Intn(32))
			}
			return c.Cat(g.e(t, d-1), g.e(t, d-1), simd(13, lanes...))
		case 9:
			return c.Cat(g.e(t, d-1), g.e(c.I32, d-1), simd(uint32(g.r.Pick(simdShift))))
		}
	case c.FuncRef, c.ExternRef:
		if ts := g.tablesOf(t); len(ts) > 0 && g.r.Bool() {
			ti := ts[g.r.Intn(len(ts))]
			return c.Cat(g.tidx(ti), []byte{0x25}, c.U32(uint32(ti)))
		}
	}
	return g.e(t, d-1)
}

// callFor: a call (direct or indirect) of a function whose last result has type t; the other results are dropped.
func (g *gen2) callFor(t byte, d int) []byte {
	var cands []int
	n := len(g.imps) + len(g.funcs)
	for i := 0; i < n; i++ {
		if i >= len(g.imps) && (i-len(g.imps) <= g.cur || g.fn.leaf) {
			continue
		}
		s := g.sigOf(i)
		if len(s.R) > 0 && s.R[len(s.R)-1] == t {
			cands = append(cands, i)
		}
	}
	if len(cands) == 0 {
		return nil
	}
	f := cands[g.r.Intn(len(cands))]
	s := g.sigOf(f)
	var o []byte
	for _, p := range s.P {
		o = append(o, g.e(p, d-1)...)
	}
	o = append(o, c.Call(uint32(f))...)
	return append(o, g.keepTop(s.R)...)
}

func (g *gen2) sigOf(i int) sig2 {
	if i < len(g.imps) {
		return g.imps[i]
	}
	return g.funcs[i-len(g.imps)].sig
}

// keepTop: with values of types ts on the stack, drop all but the last one.
func (g *gen2) keepTop(ts []byte) []byte {
	if len(ts) <= 1 {
		return nil
	}
	l := g.newLocal(ts[len(ts)-1])
	o := c.LocalSet(uint32(l))
	for i := 0; i < len(ts)-1; i++ {
		o = append(o, 0x1a)
	}
	return append(o, c.LocalGet(uint32(l))...)
}

func (g *gen2) push(arity []byte, loop bool) {
	g.labels = append(g.labels, arity)
	g.isLoop = append(g.isLoop, loop)
}
func (g *gen2) pop() {
	g.labels = g.labels[:len(g.labels)-1]
	g.isLoop = g.isLoop[:len(g.isLoop)-1]
}

func (g *gen2) values(ts []byte, d int) []byte {
	var o []byte
	for _, t := range ts {
		o = append(o, g.e(t, d)...)
	}
	return o
}

// sinkParams: with values of types ps on top of the stack, move them into fresh locals (so that later code can use them).
func (g *gen2) sinkParams(ps []byte) []byte {
	var o []byte
	for i := len(ps) - 1; i >= 0; i-- {
		if g.r.Intn(4) == 0 {
			o = append(o, 0x1a)
		} else {
			o = append(o, c.LocalSet(uint32(g.newLocal(ps[i])))...)
		}
	}
	return o
}

func (g *gen2) blockType(p, r []byte) []byte {
	if len(p) == 0 && len(r) == 0 {
		return []byte{0x40}
	}
	if len(p) == 0 && len(r) == 1 && g.r.Bool() {
		return []byte{r[0]}
	}
	return c.S64(int64(g.typeIdx(sig2{p, r})))
}

// ctrl: a block, loop or if with 0-3 parameters and results rs; leaves rs (or only the last of rs when keepLast).
func (g *gen2) ctrl(rs []byte, d int, keepLast bool) []byte {
	ps := g.typeList(3)
	o := g.values(ps, d-1)
	bt := g.blockType(ps, rs)
	switch g.r.Intn(3) {
	case 0: // block: parameters sunk, statements, conditional early exit with a payload, results
		g.push(rs, false)
		body := c.Cat(g.sinkParams(ps), g.stmts(d-1, g.r.Intn(3)))
		body = append(body, g.values(rs, d-1)...)
		body = append(body, g.e(c.I32, d-1)...)
		body = append(body, 0x0d, 0x00) // br_if 0 carrying rs
		g.pop()
		o = c.Cat(o, []byte{0x02}, bt, body, []byte{0x0b})
	case 1: // if / else
		o = append(o, g.e(c.I32, d-1)...)
		g.push(rs, false)
		th := c.Cat(g.sinkParams(ps), g.stmts(d-1, g.r.Intn(2)), g.values(rs, d-1))
		el := c.Cat(g.sinkParams(ps), g.stmts(d-1, g.r.Intn(2)), g.values(rs, d-1))
		g.pop()
		o = c.Cat(o, []byte{0x04}, bt, th, []byte{0x05}, el, []byte{0x0b})
	default: // loop whose back edge carries the parameters again, bounded by a counter local
		cnt := g.newLocal(c.I32)
		g.counter[cnt] = true
		pre := c.Cat(c.I32Const(int32(1+g.r.Intn(3))), c.LocalSet(uint32(cnt)))
		g.push(ps, true)
		body := c.Cat(g.sinkParams(ps), g.stmts(d-1, g.r.Intn(2)))
		body = c.Cat(body, c.LocalGet(uint32(cnt)), c.I32Const(1), []byte{0x6b}, c.LocalTee(uint32(cnt)))
		g.push(nil, false) // the `if` around the back edge
		back := c.Cat(g.values(ps, d-1), []byte{0x0c, 0x01})
		g.pop()
		body = c.Cat(body, []byte{0x04, 0x40}, back, []byte{0x0b}, g.values(rs, d-1))
		g.pop()
		o = c.Cat(pre, o, []byte{0x03}, bt, body, []byte{0x0b})
	}
	if keepLast {
		o = append(o, g.keepTop(rs)...)
	}
	return o
}

// passThrough: values of types ts enter a structured instruction as parameters and leave it untouched as results.
func (g *gen2) passThrough(ts []byte, d int) []byte {
	o := g.values(ts, d-1)
	bt := c.S64(int64(g.typeIdx(sig2{ts, ts})))
	switch g.r.Intn(3) {
	case 0:
		g.push(ts, false)
		body := g.stmtsNoBranchOut(d - 1)
		g.pop()
		return c.Cat(o, []byte{0x02}, bt, body, []byte{0x0b})
	case 1:
		g.push(ts, true)
		body := g.stmtsNoBranchOut(d - 1)
		g.pop()
		return c.Cat(o, []byte{0x03}, bt, body, []byte{0x0b})
	default:
		o = append(o, g.e(c.I32, d-1)...)
		g.push(ts, false)
		th := g.stmtsNoBranchOut(d - 1)
		g.pop()
		if g.r.Bool() { // without else: allowed since parameters == results
			return c.Cat(o, []byte{0x04}, bt, th, []byte{0x0b})
		}
		g.push(ts, false)
		el := g.stmtsNoBranchOut(d - 1)
		g.pop()
		return c.Cat(o, []byte{0x04}, bt, th, []byte{0x05}, el, []byte{0x0b})
	}
}

// statements that leave the operand stack below them untouched and do not branch to an enclosing label
func (g *gen2) stmtsNoBranchOut(d int) []byte {
	save, saveL := g.labels, g.isLoop
	g.labels, g.isLoop = nil, nil
	o := g.stmts(d, g.r.Intn(3))
	g.labels, g.isLoop = save, saveL
	return o
}

func (g *gen2) stmts(d, n int) []byte {
	var o []byte
	for i := 0; i < n; i++ {
		o = append(o, g.stmt(d)...)
	}
	return o
}

func (g *gen2) intMemType() byte { return g.pick([]byte{c.I32, c.I64, c.V128}) }

// stmt: a stack-neutral statement.
func (g *gen2) stmt(d int) []byte {
	g.size++
	if d < 0 || g.size > 400 {
		return []byte{0x01}
	}
	t := g.anyType()
	switch g.r.Intn(24) {
	case 0, 1:
		if ls := g.localsOf(t); len(ls) > 0 {
			return c.Cat(g.e(t, d), c.LocalSet(uint32(ls[g.r.Intn(len(ls))])))
		}
		return c.Cat(g.e(t, d), c.LocalSet(uint32(g.newLocal(t))))
	case 2, 3:
		if gs := g.globalsOf(t, true); len(gs) > 0 {
			return c.Cat(g.e(t, d), c.GlobalSet(uint32(gs[g.r.Intn(len(gs))])))
		}
	case 4:
		return c.Cat(g.e(t, d), []byte{0x1a})
	case 5, 6: // stores: integers and vectors in [0,4096), floats in [4096,8192)
		switch mt := g.pick([]byte{c.I32, c.I64, c.F32, c.F64, c.V128}); mt {
		case c.I32:
			return c.Cat(g.addr(d), g.e(mt, d), []byte{g.pick([]byte{0x36, 0x3a, 0x3b})}, memarg(uint32(g.r.Intn(8))))
		case c.I64:
			return c.Cat(g.addr(d), g.e(mt, d), []byte{g.pick([]byte{0x37, 0x3c, 0x3d, 0x3e})}, memarg(uint32(g.r.Intn(8))))
		case c.F32:
			return c.Cat(g.addr(d), g.e(mt, d), []byte{0x38}, memarg(4096))
		case c.F64:
			return c.Cat(g.addr(d), g.e(mt, d), []byte{0x39}, memarg(4096))
		default:
			if g.r.Bool() { // v128.store{8,16,32,64}_lane: memarg, then a one-byte lane index
				k := g.r.Intn(4)
				return c.Cat(g.addr(d), g.e(mt, d), simd(88+uint32(k), 0, byte(g.r.Intn(8)), byte(g.r.Intn(16>>uint(k)))))
			}
			return c.Cat(g.addr(d), g.e(mt, d), simd(11), memarg(uint32(g.r.Intn(8))))
		}
	case 7: // bulk memory inside the integer region
		n := c.I32Const(int32(g.r.Intn(32)))
		switch g.r.Intn(4) {
		case 0:
			return c.Cat(g.addr(d), g.e(c.I32, d-1), n, fc(11, []byte{0}))
		case 1:
			return c.Cat(g.addr(d), g.addr(d), n, fc(10, []byte{0, 0}))
		case 2:
			if g.nData > 1 {
				seg := 1 + g.r.Intn(g.nData-1)
				return c.Cat(g.addr(d), c.I32Const(int32(g.r.Intn(6))), c.I32Const(int32(g.r.Intn(8))), fc(8, c.U32(uint32(seg)), []byte{0}))
			}
		default:
			if g.nData > 1 && g.r.Intn(3) == 0 {
				return fc(9, c.U32(uint32(1+g.r.Intn(g.nData-1))))
			}
		}
	case 8: // table.set (the table used by call_indirect only ever holds leaf functions or null)
		ti := g.r.Intn(len(g.tables))
		if ti == 0 && g.r.Intn(3) != 0 {
			ti = 1 + g.r.Intn(len(g.tables)-1)
		}
		return c.Cat(g.tidx(ti), g.e(g.tables[ti].rt, d-1), []byte{0x26}, c.U32(uint32(ti)))
	case 9: // table.fill / table.copy / table.init / elem.drop
		ti := g.r.Intn(len(g.tables))
		switch g.r.Intn(4) {
		case 0:
			return c.Cat(g.tidx(ti), g.e(g.tables[ti].rt, d-1), c.I32Const(int32(g.r.Intn(2))), fc(17, c.U32(uint32(ti))))
		case 1:
			ts := g.tablesOf(g.tables[ti].rt)
			tj := ts[g.r.Intn(len(ts))]
			return c.Cat(g.tidx(ti), g.tidx(tj), c.I32Const(int32(g.r.Intn(2))), fc(14, c.U32(uint32(ti)), c.U32(uint32(tj))))
		case 2:
			var es []int
			for i, rt := range g.elems {
				if rt == g.tables[ti].rt {
					es = append(es, i)
				}
			}
			if len(es) > 0 {
				return c.Cat(g.tidx(ti), c.I32Const(0), c.I32Const(int32(g.r.Intn(2))), fc(12, c.U32(uint32(es[g.r.Intn(len(es))])), c.U32(uint32(ti))))
			}
		default:
			if len(g.elems) > 0 && g.r.Intn(3) == 0 {
				return fc(13, c.U32(uint32(g.r.Intn(len(g.elems)))))
			}
		}
	case 10: // call for effect
		return g.callStmt(d)
	case 11: // call_indirect through table 0 (leaf functions): any declared type, may trap on null / signature mismatch
		if !g.fn.leaf {
			slot := g.r.Intn(len(g.tab0))
			if g.r.Intn(10) == 0 {
				slot = len(g.tab0) + g.r.Intn(6) // beyond the initial size
			}
			var s sig2
			if slot < len(g.tab0) && g.tab0[slot] >= 0 && g.r.Intn(6) != 0 {
				s = g.sigOf(g.tab0[slot])
			} else {
				s = g.types[g.r.Intn(len(g.types))]
			}
			o := g.values(s.P, d-1)
			o = c.Cat(o, c.I32Const(int32(slot)), []byte{0x11}, c.U32(uint32(g.typeIdx(s))), []byte{0x00})
			return append(o, g.sinkParams(s.R)...)
		}
	case 12, 13: // multi-value structured instruction, results consumed
		rs := g.typeList(3)
		o := g.ctrl(rs, d, false)
		return append(o, g.sinkParams(rs)...)
	case 14: // values passing through a structured instruction
		ts := g.typeList(3)
		if len(ts) == 0 {
			ts = []byte{g.anyType()}
		}
		return c.Cat(g.passThrough(ts, d), g.sinkParams(ts))
	case 15: // br_table over nested blocks carrying a payload
		rs := g.typeList(2)
		bt := g.blockType(nil, rs)
		g.push(rs, false)
		g.push(rs, false)
		g.push(rs, false)
		inner := c.Cat(g.values(rs, d-1), g.e(c.I32, d-1), []byte{0x0e}, c.Vec(c.U32(0), c.U32(1), c.U32(2), c.U32(1)), c.U32(uint32(g.r.Intn(3))))
		g.pop()
		mid := c.Cat([]byte{0x02}, bt, inner, []byte{0x0b}, g.stmts(d-1, g.r.Intn(2)))
		g.pop()
		outer := c.Cat([]byte{0x02}, bt, mid, []byte{0x0b}, g.stmts(d-1, g.r.Intn(2)))
		g.pop()
		return c.Cat([]byte{0x02}, bt, outer, []byte{0x0b}, g.sinkParams(rs))
	case 16: // conditional branch to an enclosing non-loop label with its payload
		if len(g.labels) > 0 {
			k := g.r.Intn(len(g.labels))
			if !g.isLoop[len(g.labels)-1-k] {
				cond := g.e(c.I32, d-1)
				g.push(nil, false)
				body := c.Cat(g.values(g.labels[len(g.labels)-2-k], d-1), []byte{0x0c}, c.U32(uint32(k+1)))
				g.pop()
				return c.Cat(cond, []byte{0x04, 0x40}, body, []byte{0x0b})
			}
		}
	case 17: // br_if to an enclosing non-loop label: the payload stays when the branch is not taken
		if len(g.labels) > 0 {
			k := g.r.Intn(len(g.labels))
			if !g.isLoop[len(g.labels)-1-k] {
				ts := g.labels[len(g.labels)-1-k]
				o := c.Cat(g.values(ts, d-1), g.e(c.I32, d-1), []byte{0x0d}, c.U32(uint32(k)))
				for range ts {
					o = append(o, 0x1a)
				}
				return o
			}
		}
	case 18: // conditional return
		cond := g.e(c.I32, d-1)
		g.push(nil, false)
		body := c.Cat(g.values(g.fn.sig.R, d-1), []byte{0x0f})
		g.pop()
		return c.Cat(cond, []byte{0x04, 0x40}, body, []byte{0x0b})
	case 19: // plain if / else
		cond := g.e(c.I32, d-1)
		g.push(nil, false)
		th, el := g.stmts(d-1, 1+g.r.Intn(2)), g.stmts(d-1, g.r.Intn(2))
		g.pop()
		return c.Cat(cond, []byte{0x04, 0x40}, th, []byte{0x05}, el, []byte{0x0b})
	case 20: // rare trap
		if g.r.Intn(8) == 0 {
			return c.Cat(g.e(c.I32, d-1), []byte{0x04, 0x40, 0x00, 0x0b})
		}
	case 21, 22: // DEAD CODE: fully typed statements after an unconditional transfer (both engines must skip every
		// immediate of every instruction they do not lower)
		g.push(nil, false)
		var dead []byte
		switch g.r.Intn(3) {
		case 0:
			dead = c.Cat([]byte{0x0c, 0x00}, g.stmts(d-1, 1+g.r.Intn(2))) // br 0; dead
		case 1: // a value-producing expression in dead code, dropped
			dead = c.Cat([]byte{0x0c, 0x00}, g.e(t, d-1), []byte{0x1a}, g.stmts(d-1, 1))
		default: // never taken: if (0) { return / unreachable; dead }
			g.push(nil, false) // the `if`: everything generated for its body must see its label
			inner := c.Cat(g.values(g.fn.sig.R, d-1), []byte{0x0f})
			if g.r.Bool() {
				inner = []byte{0x00}
			}
			inner = c.Cat(inner, g.stmts(d-1, 1+g.r.Intn(2)))
			g.pop()
			dead = c.Cat(c.I32Const(0), []byte{0x04, 0x40}, inner, []byte{0x0b})
		}
		g.pop()
		return c.Cat([]byte{0x02, 0x40}, dead, []byte{0x0b})
	}
	return []byte{0x01}
}

func (g *gen2) callStmt(d int) []byte {
	var cands []int
	n := len(g.imps) + len(g.funcs)
	for i := 0; i < n; i++ {
		if i >= len(g.imps) && (i-len(g.imps) <= g.cur || g.fn.leaf) {
			continue
		}
		cands = append(cands, i)
	}
	if len(cands) == 0 {
		return []byte{0x01}
	}
	f := cands[g.r.Intn(len(cands))]
	s := g.sigOf(f)
	o := c.Cat(g.values(s.P, d-1), c.Call(uint32(f)))
	return append(o, g.sinkParams(s.R)...)
}

// tailCall: the function ends in return_call of a later function / an import, or return_call_indirect through table 0
// (leaf functions), whose result types are exactly the current function's; nil when tail calls are off or nothing fits.
func (g *gen2) tailCall(d int) []byte {
	if !g.tail || g.r.Intn(3) == 0 {
		return nil
	}
	same := func(a, b []byte) bool { return string(a) == string(b) }
	if g.r.Intn(3) == 0 && !g.fn.leaf { // indirect: any leaf signature with the same results
		var ts []int
		for _, fi := range g.leafFuncs() {
			if s := g.sigOf(fi); same(s.R, g.fn.sig.R) {
				ts = append(ts, g.typeIdx(s))
			}
		}
		if len(ts) > 0 {
			ti := ts[g.r.Intn(len(ts))]
			return c.Cat(g.values(g.types[ti].P, d-1), g.tidx(0), []byte{0x13}, c.U32(uint32(ti)), c.U32(0))
		}
	}
	var cands []int
	n := len(g.imps) + len(g.funcs)
	for i := 0; i < n; i++ {
		if i >= len(g.imps) && (i-len(g.imps) <= g.cur || g.fn.leaf) {
			continue
		}
		if same(g.sigOf(i).R, g.fn.sig.R) {
			cands = append(cands, i)
		}
	}
	if len(cands) == 0 {
		return nil
	}
	f := cands[g.r.Intn(len(cands))]
	return c.Cat(g.values(g.sigOf(f).P, d-1), []byte{0x12}, c.U32(uint32(f)))
}

// constInit: a constant expression of type t for globals (may read an imported immutable global of that type)
func (g *gen2) constInit(t byte, nImpGlobals int) []byte {
	if g.r.Intn(3) == 0 {
		for i := 0; i < nImpGlobals; i++ {
			if g.globals[i].t == t && !g.globals[i].mut {
				return c.GlobalGet(uint32(i))
			}
		}
	}
	// (ref.func in a global initializer: leaf functions only, as everywhere — see constOf)
	return g.constOf(t)
}

// genModule2 builds one module.
func genModule2(r *c.Rng) []byte {
	g := &gen2{r: r, tmap: map[string]int{}}
	g.tail = r.Intn(4) == 0
	sig := func(maxP, maxR int) sig2 {
		if g.tail && r.Bool() { // up to 10 parameters, mostly of the types passed in integer registers
			var ps []byte
			for n := int(r.Pick([]uint64{0, 1, 2, 3, 4, 5, 6, 7, 7, 7, 7, 8, 8, 9, 10})); n > 0; n-- {
				if r.Intn(6) == 0 {
					ps = append(ps, g.anyType())
				} else {
					ps = append(ps, g.pick([]byte{c.I32, c.I64, c.I64, c.ExternRef}))
				}
			}
			return sig2{ps, g.typeList(maxR)}
		}
		return sig2{g.typeList(maxP), g.typeList(maxR)}
	}
	for i := r.Intn(3); i > 0; i-- {
		g.imps = append(g.imps, sig(3, 2))
	}
	nf := 2 + r.Intn(4)
	nleaf := 1 + r.Intn(2)
	for i := 0; i < nf; i++ {
		g.funcs = append(g.funcs, &func2{sig: sig(4, 3), leaf: i >= nf-nleaf})
	}
	// globals: a few imported immutable ones first, then every type, mutable and immutable
	nImpGlobals := r.Intn(3)
	for i := 0; i < nImpGlobals; i++ {
		g.globals = append(g.globals, glob2{t: g.pick([]byte{c.I32, c.I64, c.F64, c.V128, c.ExternRef}), imp: true})
	}
	for _, t := range allTypes {
		if r.Intn(4) != 0 {
			g.globals = append(g.globals, glob2{t: t, mut: r.Bool()})
		}
	}
	g.tables = []tab2{{c.FuncRef, 4, 8}, {c.FuncRef, uint32(1 + r.Intn(4)), 16}, {c.ExternRef, uint32(1 + r.Intn(4)), 16}}
	g.nData = 1 + r.Intn(3)
	g.elems = []byte{c.FuncRef} // segment 0: active, fills table 0
	for i := r.Intn(3); i > 0; i-- {
		g.elems = append(g.elems, g.pick([]byte{c.FuncRef, c.ExternRef}))
	}
	lf := g.leafFuncs()
	for i := 0; i < 4; i++ {
		if r.Intn(5) == 0 {
			g.tab0 = append(g.tab0, -1)
		} else {
			g.tab0 = append(g.tab0, lf[r.Intn(len(lf))])
		}
	}
	// make sure the signatures of leaf functions exist as types before bodies use call_indirect
	for _, s := range g.imps {
		g.typeIdx(s)
	}
	for _, f := range g.funcs {
		g.typeIdx(f.sig)
	}
	for i := nf - 1; i >= 0; i-- {
		f := g.funcs[i]
		g.cur, g.fn = i, f
		g.lt = append([]byte{}, f.sig.P...)
		g.counter = map[int]bool{}
		for k := r.Intn(4); k > 0; k-- {
			g.newLocal(g.anyType())
		}
		g.labels, g.isLoop = nil, nil
		g.push(f.sig.R, false)
		g.size = 0
		d := 2 + r.Intn(2)
		body := g.stmts(d, 2+r.Intn(4))
		if i == nf-1 || r.Intn(4) == 0 { // a zoo of dead statements: never executed, but lowered (or skipped) by both engines
			g.push(nil, false)
			save := g.size
			zoo := g.stmts(d, 6+r.Intn(6))
			g.size = save
			g.pop()
			body = c.Cat(body, []byte{0x02, 0x40, 0x0c, 0x00}, zoo, []byte{0x0b})
		}
		if tc := g.tailCall(d); tc != nil {
			body = append(body, tc...)
		} else {
			body = append(body, g.values(f.sig.R, d)...)
			if nr := len(f.sig.R); g.tail && nr > 0 && (f.sig.R[nr-1] == c.I32 || f.sig.R[nr-1] == c.I64) {
				// the last result depends on every integer parameter (so a parameter damaged on the way in is seen)
				for pi, pt := range f.sig.P {
					if pt != c.I32 && pt != c.I64 {
						continue
					}
					body = append(body, c.LocalGet(uint32(pi))...)
					switch {
					case pt == c.I64 && f.sig.R[nr-1] == c.I32:
						body = append(body, 0xa7, 0x73) // wrap, i32.xor
					case pt == c.I32 && f.sig.R[nr-1] == c.I64:
						body = append(body, 0xad, 0x85) // extend_u, i64.xor
					case pt == c.I32:
						body = append(body, 0x73)
					default:
						body = append(body, 0x85)
					}
				}
			}
		}
		g.pop()
		f.body = body
	}
	// ---- assemble
	mod := &c.Mod{}
	for i, s := range g.imps {
		mod.Imports = append(mod.Imports, c.ImportFunc("env", fmt.Sprintf("h%d", i), uint32(g.typeIdx(s))))
	}
	for i := 0; i < nImpGlobals; i++ {
		mod.Imports = append(mod.Imports, c.Cat(c.Name("env"), c.Name(fmt.Sprintf("g%d", i)), []byte{0x03, g.globals[i].t, 0}))
	}
	for i, f := range g.funcs {
		mod.Funcs = append(mod.Funcs, c.U32(uint32(g.typeIdx(f.sig))))
		mod.Codes = append(mod.Codes, c.Code(f.locals, f.body))
		mod.Exports = append(mod.Exports, c.Export(fmt.Sprintf("f%d", i), 0, uint32(len(g.imps)+i)))
	}
	// two "sampler" functions (i64, i64) -> i64 in every other module: each applies EVERY deterministic SIMD operator once
	// (in its own random order) to vectors made from the parameters and folds the result; operators that keep per-function
	// backend state (constant pools, mask tables) are thereby used by two functions of one module
	if r.Bool() {
		st := g.typeIdx(sig2{[]byte{c.I64, c.I64}, []byte{c.I64}})
		for k := 0; k < 2; k++ {
			body := c.Cat(c.LocalGet(0), simd(18), c.LocalSet(2), c.LocalGet(1), simd(18), c.LocalGet(0), simd(18), simd(81), c.LocalSet(3)) // v = splat p0; w = splat p1 xor v
			type sop struct {
				kind int
				op   uint64
			}
			var ops []sop
			for _, o := range simdBin {
				ops = append(ops, sop{0, o})
			}
			for _, o := range simdUn {
				ops = append(ops, sop{1, o})
			}
			for _, o := range simdShift {
				ops = append(ops, sop{2, o})
			}
			for i := len(ops) - 1; i > 0; i-- {
				j := r.Intn(i + 1)
				ops[i], ops[j] = ops[j], ops[i]
			}
			for _, o := range ops {
				switch o.kind {
				case 0:
					body = c.Cat(body, c.LocalGet(2), c.LocalGet(3), simd(uint32(o.op)))
				case 1:
					body = c.Cat(body, c.LocalGet(2), simd(uint32(o.op)))
				default:
					body = c.Cat(body, c.LocalGet(2), c.LocalGet(1), []byte{0xa7}, simd(uint32(o.op)))
				}
				// keep the bits moving: v = result xor (w rotated into v's place), w = old v
				body = c.Cat(body, c.LocalGet(3), simd(81), c.LocalGet(2), c.LocalSet(3), c.LocalSet(2))
			}
			body = c.Cat(body, c.LocalGet(2), simd(29, 0), c.LocalGet(2), simd(29, 1), []byte{0x85})
			mod.Funcs = append(mod.Funcs, c.U32(uint32(st)))
			mod.Codes = append(mod.Codes, c.Code([]byte{c.V128, c.V128}, body))
			mod.Exports = append(mod.Exports, c.Export(fmt.Sprintf("f%d", nf+k), 0, uint32(len(g.imps)+nf+k)))
		}
	}
	for _, t := range g.tables {
		mod.Tables = append(mod.Tables, c.Cat([]byte{t.rt, 1}, c.U32(t.min), c.U32(t.max)))
	}
	mx := uint32(2)
	mod.Mems = [][]byte{c.MemLimits(1, &mx)}
	mod.Exports = append(mod.Exports, c.Export("mem", 2, 0))
	for i := nImpGlobals; i < len(g.globals); i++ {
		gl := g.globals[i]
		m := byte(0)
		if gl.mut {
			m = 1
		}
		mod.Globals = append(mod.Globals, c.Cat([]byte{gl.t, m}, g.constInit(gl.t, nImpGlobals), []byte{0x0b}))
	}
	// element segments: 0 active into table 0 (leaf functions and null), the others passive; plus one declarative
	// segment naming every function (ref.func needs the function to be declared)
	var items [][]byte
	for _, fi := range g.tab0 {
		if fi < 0 {
			items = append(items, []byte{0xd0, c.FuncRef, 0x0b})
		} else {
			items = append(items, c.Cat([]byte{0xd2}, c.U32(uint32(fi)), []byte{0x0b}))
		}
	}
	mod.Elems = append(mod.Elems, c.Cat(c.U32(4), c.I32Const(0), []byte{0x0b}, c.Vec(items...))) // prefix 4: active, table 0, expressions
	for _, rt := range g.elems[1:] {
		var it [][]byte
		for k := 1 + r.Intn(3); k > 0; k-- {
			if rt == c.FuncRef && r.Bool() {
				it = append(it, c.Cat([]byte{0xd2}, c.U32(uint32(lf[r.Intn(len(lf))])), []byte{0x0b}))
			} else {
				it = append(it, []byte{0xd0, rt, 0x0b})
			}
		}
		mod.Elems = append(mod.Elems, c.Cat(c.U32(5), []byte{rt}, c.Vec(it...))) // prefix 5: passive, expressions
	}
	var all [][]byte
	for i := 0; i < len(g.imps)+nf; i++ {
		all = append(all, c.U32(uint32(i)))
	}
	mod.Elems = append(mod.Elems, c.Cat(c.U32(3), []byte{0x00}, c.Vec(all...))) // prefix 3: declarative, function indices
	// data: segment 0 active (offset possibly from an imported immutable i32 global), the others passive
	off := c.I32Const(int32(16 * r.Intn(64)))
	for i := 0; i < nImpGlobals; i++ {
		if g.globals[i].t == c.I32 && r.Bool() {
			off = c.GlobalGet(uint32(i))
		}
	}
	mod.Datas = append(mod.Datas, c.Cat(c.U32(0), off, []byte{0x0b}, c.Name(string(randBytes(r, 1+r.Intn(24))))))
	for i := 1; i < g.nData; i++ {
		mod.Datas = append(mod.Datas, c.Cat(c.U32(1), c.Name(string(randBytes(r, r.Intn(16))))))
	}
	mod.DataCount = true
	for _, s := range g.types {
		mod.Types = append(mod.Types, c.FT(s.P, s.R))
	}
	return mod.Bytes()
}
