package main

// -mode iso (used by the C11 check): modules of the type-coverage generator (gen2.go: every value type, tables with
// table.set/grow/fill/copy/init, ref.func at run time, passive segments with data.drop/elem.drop, bulk memory, SIMD),
// THREE anonymous instances of one compiled module spread over two runtimes that share a compilation cache, driven by
// an interleaved call sequence; each instance must log exactly what a lone instance in a fresh runtime logs for its
// own subsequence of calls. The instances share nothing mutable (imports are immutable globals and pure functions).

import (
	"context"
	"encoding/hex"
	"fmt"
	"time"

	"github.com/tetratelabs/wazero"
	"github.com/tetratelabs/wazero/api"
	binaryformat "github.com/tetratelabs/wazero/internal/wasm/binary"
	"github.com/tetratelabs/wazero/internal/wasm"
	c "github.com/tetratelabs/wazero/internal/zz_verif/common"
)

type isoCall struct {
	inst int
	fn   string
	av   int
	args []uint64
	rt   []api.ValueType
}

type IsoRes struct {
	Ev     string `json:"ev"`
	ID     int    `json:"id"`
	Engine string `json:"engine"`
	Calls  int    `json:"calls"`
	Skip   string `json:"skip,omitempty"`
	Diff   string `json:"diff,omitempty"`
	Hex    string `json:"wasm_hex,omitempty"`
}

func isoRT(ctx context.Context, eng string, cache wazero.CompilationCache, sups map[string][]byte, order []string) (wazero.Runtime, string) {
	rc := rtConfig(eng).WithMemoryLimitPages(256)
	if cache != nil {
		rc = rc.WithCompilationCache(cache)
	}
	r := wazero.NewRuntimeWithConfig(ctx, rc)
	for _, name := range order {
		if _, err := r.InstantiateWithConfig(ctx, sups[name], wazero.NewModuleConfig().WithName(name)); err != nil {
			r.Close(ctx)
			return nil, "supplier " + name + ": " + short(err.Error())
		}
	}
	return r, ""
}

func isoDo(ctx context.Context, mod api.Module, cl isoCall) callRec {
	rec := callRec{fn: cl.fn, av: cl.av, rt: cl.rt}
	f := mod.ExportedFunction(cl.fn)
	if f == nil {
		rec.trap = "no-export"
		return rec
	}
	tctx, cancel := context.WithTimeout(ctx, 2*time.Second)
	out, err := f.Call(tctx, cl.args...)
	cancel()
	if err != nil {
		rec.trap = outcomeClass(err)
	} else {
		rec.res = append([]uint64{}, out...)
	}
	return rec
}

func memDigest(mod api.Module) string {
	mem := mod.Memory()
	if mem == nil {
		return "none"
	}
	b, ok := mem.Read(0, mem.Size())
	if !ok {
		return "unreadable"
	}
	h := uint64(14695981039346656037)
	for _, x := range b {
		h = (h ^ uint64(x)) * 1099511628211
	}
	return fmt.Sprintf("%d:%x", mem.Size(), h)
}

func isoMode() {
	rng := c.NewRng(*seed)
	out := c.NewOut()
	defer out.Flush()
	ctx := context.Background()
	const nInst = 3
	for id := 0; id < *nValid2; id++ {
		bin := genModule2(rng)
		m, err := binaryformat.DecodeModule(bin, api.CoreFeaturesV2, wasm.MemoryLimitPages, false, true, false)
		if err != nil {
			out.Emit(IsoRes{Ev: "iso", ID: id, Skip: "decode: " + short(err.Error()), Hex: hex.EncodeToString(bin)})
			continue
		}
		sups, order, why := suppliers(m)
		if why != "" {
			out.Emit(IsoRes{Ev: "iso", ID: id, Skip: why})
			continue
		}
		perm := rng.U64()
		for _, eng := range engines {
			res := IsoRes{Ev: "iso", ID: id, Engine: eng}
			func() {
				defer func() {
					if e := recover(); e != nil {
						res.Diff = "PANIC escaped the runtime: " + short(fmt.Sprint(e))
						res.Hex = hex.EncodeToString(bin)
					}
				}()
				cache := wazero.NewCompilationCache()
				defer cache.Close(ctx)
				var rts []wazero.Runtime
				var cms []wazero.CompiledModule
				for k := 0; k < 2; k++ {
					r, why := isoRT(ctx, eng, cache, sups, order)
					if why != "" {
						res.Skip = why
						return
					}
					defer r.Close(ctx)
					cm, err := r.CompileModule(ctx, bin)
					if err != nil {
						res.Skip = "compile: " + short(err.Error())
						return
					}
					rts, cms = append(rts, r), append(cms, cm)
				}
				mods := make([]api.Module, nInst)
				for i := range mods {
					mod, err := rts[i%2].InstantiateModule(ctx, cms[i%2], wazero.NewModuleConfig().WithName(""))
					if err != nil {
						res.Skip = "instantiate: " + short(err.Error())
						return
					}
					mods[i] = mod
				}
				// the schedule: every export x every argument vector, each assigned to an instance by a seeded permutation;
				// instance 2 gets every call twice as late as the others get theirs (different histories per instance)
				defs := cms[0].ExportedFunctions()
				var names []string
				for n := range defs {
					names = append(names, n)
				}
				sortStrings(names)
				var sched []isoCall
				p := perm
				for round := 0; round < 2; round++ {
					for _, n := range names {
						d := defs[n]
						for av, args := range argVectors(d.ParamTypes()) {
							p = p*6364136223846793005 + 1442695040888963407
							sched = append(sched, isoCall{inst: int(p>>33) % nInst, fn: n, av: av, args: args, rt: d.ResultTypes()})
						}
					}
				}
				logs := make([][]callRec, nInst)
				for _, cl := range sched {
					if mods[cl.inst].IsClosed() {
						continue
					}
					logs[cl.inst] = append(logs[cl.inst], isoDo(ctx, mods[cl.inst], cl))
					res.Calls++
				}
				digests := make([]string, nInst)
				for i := range mods {
					digests[i] = memDigest(mods[i])
				}
				for i := 0; i < nInst; i++ {
					r, why := isoRT(ctx, eng, nil, sups, order)
					if why != "" {
						res.Skip = why
						return
					}
					mod, err := r.InstantiateWithConfig(ctx, bin, wazero.NewModuleConfig().WithName("lone"))
					if err != nil {
						r.Close(ctx)
						res.Skip = "instantiate lone: " + short(err.Error())
						return
					}
					var lone []callRec
					for _, cl := range sched {
						if cl.inst == i && !mod.IsClosed() {
							lone = append(lone, isoDo(ctx, mod, cl))
						}
					}
					loneDigest := memDigest(mod)
					r.Close(ctx)
					a, b := &RunObs{log: logs[i]}, &RunObs{log: lone}
					for _, x := range append(append([]callRec{}, logs[i]...), lone...) {
						if x.trap == "timeout" || x.trap == "exhaust" {
							a, b = nil, nil
							break
						}
					}
					if a == nil {
						continue
					}
					if len(logs[i]) != len(lone) {
						res.Diff = fmt.Sprintf("instance %d: %d calls interleaved, %d lone", i, len(logs[i]), len(lone))
					} else if d := compareEngines(a, b); d != "" {
						res.Diff = fmt.Sprintf("instance %d (interleaved vs lone): %s", i, d)
					} else if digests[i] != loneDigest {
						res.Diff = fmt.Sprintf("instance %d: final memory (size:hash) interleaved %s, lone %s", i, digests[i], loneDigest)
					}
					if res.Diff != "" {
						res.Hex = hex.EncodeToString(bin)
						return
					}
				}
			}()
			out.Emit(res)
		}
	}
}
