package main

import (
	"bytes"
	"errors"
	"io"

	"github.com/tetratelabs/wazero/internal/leb128"
	c "github.com/tetratelabs/wazero/internal/zz_verif/common"
)

// function numbering shared with coq/Wasm/Leb.v run_dec / run_enc
const (
	fDecodeUint32 = iota
	fLoadUint32
	fLoadUint64
	fDecodeInt32
	fLoadInt32
	fDecodeInt33
	fDecodeInt64
	fLoadInt64
	nDecFuncs
)

type lebObs struct {
	Cls int    // 0 ok, 1 EOF, 2 overflow
	V   uint64 // two's complement bits of the value
	N   uint64
	S   bool // the value is signed
}

func classify(err error) int {
	if err == nil {
		return 0
	}
	if errors.Is(err, io.EOF) {
		return 1
	}
	return 2
}

func realDec(f int, bs []byte) lebObs {
	switch f {
	case fDecodeUint32:
		v, n, err := leb128.DecodeUint32(bytes.NewReader(bs))
		return lebObs{classify(err), uint64(v), n, false}
	case fLoadUint32:
		v, n, err := leb128.LoadUint32(bs)
		return lebObs{classify(err), uint64(v), n, false}
	case fLoadUint64:
		v, n, err := leb128.LoadUint64(bs)
		return lebObs{classify(err), v, n, false}
	case fDecodeInt32:
		v, n, err := leb128.DecodeInt32(bytes.NewReader(bs))
		return lebObs{classify(err), uint64(int64(v)), n, true}
	case fLoadInt32:
		v, n, err := leb128.LoadInt32(bs)
		return lebObs{classify(err), uint64(int64(v)), n, true}
	case fDecodeInt33:
		v, n, err := leb128.DecodeInt33AsInt64(bytes.NewReader(bs))
		return lebObs{classify(err), uint64(v), n, true}
	case fDecodeInt64:
		v, n, err := leb128.DecodeInt64(bytes.NewReader(bs))
		return lebObs{classify(err), uint64(v), n, true}
	default:
		v, n, err := leb128.LoadInt64(bs)
		return lebObs{classify(err), uint64(v), n, true}
	}
}

const hashP = 2147483647

// the same code / hash as coq/Wasm/LebCheck.v lcode / hstep
func (o lebObs) code() uint64 {
	if o.Cls != 0 {
		return uint64(o.Cls)
	}
	return 3*o.N + 97*(o.V%hashP)
}
func hstep(h, code uint64) uint64 { return (h*1000003 + code) % hashP }

func rowHash(f int, b0 byte) uint64 {
	h := hstep(0, realDec(f, []byte{b0}).code())
	for b1 := 0; b1 < 256; b1++ {
		h = hstep(h, realDec(f, []byte{b0, byte(b1)}).code())
	}
	return h
}

type lebCase struct {
	K   string `json:"k"`
	F   int    `json:"f"`
	Bs  []int  `json:"bs,omitempty"`
	Cls int    `json:"cls"`
	V   string `json:"v"` // decimal, signed where the function is signed
	N   uint64 `json:"n"`
	Out []int  `json:"out,omitempty"`
}

func decStr(o lebObs) string {
	if o.S {
		return itoa(int64(o.V))
	}
	return utoa(o.V)
}

func ints(bs []byte) []int {
	o := make([]int, len(bs))
	for i, b := range bs {
		o[i] = int(b)
	}
	return o
}

func lebMode() {
	out := c.NewOut()
	defer out.Flush()
	rng := c.NewRng(*seed)
	// (1) exhaustive on length <= 2, as 256 row checksums per function (+ the empty string)
	for f := 0; f < nDecFuncs; f++ {
		rows := make([]uint64, 256)
		for b0 := 0; b0 < 256; b0++ {
			rows[b0] = rowHash(f, byte(b0))
		}
		out.Emit(map[string]any{"k": "rows", "f": f, "rows": rows, "empty": realDec(f, nil).code()})
	}
	// (2) boundary and random strings up to 11 bytes, every function on every string
	var strs [][]byte
	add := func(b []byte) { strs = append(strs, append([]byte{}, b...)) }
	lastBytes := []byte{0x00, 0x01, 0x07, 0x08, 0x0f, 0x10, 0x1f, 0x20, 0x3e, 0x3f, 0x40, 0x41, 0x47, 0x48, 0x4f, 0x70, 0x77, 0x78, 0x7e, 0x7f}
	for n := 3; n <= 11; n++ {
		for _, fill := range []byte{0x80, 0xff} {
			for _, lb := range lastBytes {
				b := bytes.Repeat([]byte{fill}, n-1)
				add(append(b, lb))
			}
			add(bytes.Repeat([]byte{fill}, n)) // never terminated
		}
	}
	for target := len(strs) + *nLeb; len(strs) < target; {
		n := 1 + rng.Intn(11)
		b := make([]byte, n)
		for i := range b {
			switch rng.Intn(4) {
			case 0:
				b[i] = byte(rng.Intn(256))
			case 1:
				b[i] = 0x80 | byte(rng.Intn(128))
			case 2:
				b[i] = byte(rng.Pick([]uint64{0x80, 0xff, 0x7f, 0x00, 0xc0, 0xbf}))
			default:
				b[i] = 0x80 | byte(rng.Intn(4))
			}
		}
		if rng.Intn(3) != 0 {
			b[n-1] &= 0x7f
		}
		add(b)
	}
	for _, b := range strs {
		for f := 0; f < nDecFuncs; f++ {
			o := realDec(f, b)
			out.Emit(lebCase{K: "dec", F: f, Bs: ints(b), Cls: o.Cls, V: decStr(o), N: o.N})
		}
	}
	// (3) encoders on boundary and random values
	var u64s []uint64
	for s := 0; s < 64; s++ {
		u64s = append(u64s, 1<<uint(s), (1<<uint(s))-1, (1<<uint(s))+1)
	}
	u64s = append(u64s, 0, ^uint64(0), ^uint64(0)-1)
	for i := 0; i < 60; i++ {
		u64s = append(u64s, rng.U64()>>uint(rng.Intn(64)))
	}
	for _, v := range u64s {
		out.Emit(lebCase{K: "enc", F: 11, V: utoa(v), Out: ints(leb128.EncodeUint64(v))})
		out.Emit(lebCase{K: "enc", F: 10, V: utoa(uint64(uint32(v))), Out: ints(leb128.EncodeUint32(uint32(v)))})
		out.Emit(lebCase{K: "enc", F: 13, V: itoa(int64(v)), Out: ints(leb128.EncodeInt64(int64(v)))})
		out.Emit(lebCase{K: "enc", F: 12, V: itoa(int64(int32(v))), Out: ints(leb128.EncodeInt32(int32(v)))})
		out.Emit(lebCase{K: "enc", F: 13, V: itoa(-int64(v)), Out: ints(leb128.EncodeInt64(-int64(v)))})
	}
}

func lebRow(f int, b0 byte) {
	out := c.NewOut()
	defer out.Flush()
	o := realDec(f, []byte{b0})
	out.Emit(lebCase{K: "dec", F: f, Bs: []int{int(b0)}, Cls: o.Cls, V: decStr(o), N: o.N})
	for b1 := 0; b1 < 256; b1++ {
		o := realDec(f, []byte{b0, byte(b1)})
		out.Emit(lebCase{K: "dec", F: f, Bs: []int{int(b0), b1}, Cls: o.Cls, V: decStr(o), N: o.N})
	}
}

func utoa(v uint64) string {
	if v == 0 {
		return "0"
	}
	var b [24]byte
	i := len(b)
	for v > 0 {
		i--
		b[i] = byte('0' + v%10)
		v /= 10
	}
	return string(b[i:])
}
func itoa(v int64) string {
	if v < 0 {
		return "-" + utoa(uint64(-(v + 1))+1)
	}
	return utoa(uint64(v))
}
