package main

import (
	"bufio"
	"context"
	"encoding/hex"
	"encoding/json"
	"errors"
	"fmt"
	"os"
	"runtime"
	"runtime/debug"
	"strings"
	"syscall"
	"time"

	"github.com/tetratelabs/wazero"
	"github.com/tetratelabs/wazero/api"
	"github.com/tetratelabs/wazero/experimental"
	"github.com/tetratelabs/wazero/internal/wasm"
	binaryformat "github.com/tetratelabs/wazero/internal/wasm/binary"
	c "github.com/tetratelabs/wazero/internal/zz_verif/common"
	"github.com/tetratelabs/wazero/sys"
)

// Meas is one measured call of the decoder or of CompileModule.
type Meas struct {
	Ok    bool   `json:"ok"`
	Err   string `json:"err,omitempty"`
	Alloc uint64 `json:"alloc"` // runtime.MemStats.TotalAlloc delta (minimum over the re-measurements)
	Ns    int64  `json:"ns"`
	Panic   string `json:"panic,omitempty"`
	PanicFn string `json:"panicfn,omitempty"` // innermost wazero function on the panicking stack
	PanicAt string `json:"panicat,omitempty"`
	Tries   int    `json:"tries,omitempty"`
}

// RunObs is what instantiating an accepted module and calling its exports showed.
type RunObs struct {
	Skipped  string         `json:"skipped,omitempty"`
	InstErr  string         `json:"insterr,omitempty"`
	Calls    int            `json:"calls"`
	Outcomes map[string]int `json:"outcomes,omitempty"`
	Internal []string       `json:"internal,omitempty"` // error texts that show an internal failure of the runtime
	Others   []string       `json:"others,omitempty"`   // error texts outside the known trap classes (first few)
	Timeouts int            `json:"timeouts,omitempty"`
	log      []callRec
}

// callRec is one export call as seen on one engine (kept to compare the engines on valid-by-construction modules).
type callRec struct {
	fn   string
	av   int
	trap string
	res  []uint64
	rt   []api.ValueType
}

type Res struct {
	Ev    string             `json:"ev"`
	ID    int                `json:"id"`
	Len   int                `json:"len"`
	Dec   Meas               `json:"dec"`
	Comp  map[string]Meas    `json:"comp"`
	// CompClosed: CompileModule through a runtime whose CompilationCache was closed before (every 8th input):
	// an error or a module, never a panic
	CompClosed map[string]Meas `json:"comp_closed,omitempty"`
	Run   map[string]*RunObs `json:"run,omitempty"`
	NFunc int                `json:"nfunc"`
	// EngDiff: first call on which interpreter and compiler disagree (results, or trap class); valid classes only
	EngDiff string `json:"engdiff,omitempty"`
}

func allocLimit(n int) uint64  { return 1<<20 + 4096*uint64(n) }
func timeLimit(n int) int64    { return 200e6 + 50e3*int64(n) }
func over(m Meas, n int) bool  { return m.Alloc > allocLimit(n) || m.Ns > timeLimit(n) }
func short(s string) string {
	if i := strings.Index(s, "\n"); i >= 0 {
		s = s[:i]
	}
	if len(s) > 300 {
		s = s[:300]
	}
	return s
}

// measure runs f (which must be repeatable); when a threshold is exceeded it re-measures twice and keeps
// the minima, so that a scheduling hiccup or a one-time initialisation is not reported as amplification.
func measure(n int, setup func() (run func() error, cleanup func())) Meas {
	var best Meas
	for try := 0; try < 3; try++ {
		var m Meas
		var m0, m1 runtime.MemStats
		f, cleanup := setup()
		runtime.ReadMemStats(&m0)
		t0 := time.Now()
		func() {
			defer func() {
				if e := recover(); e != nil {
					m.Panic = short(fmt.Sprint(e))
					m.PanicFn, m.PanicAt = firstFrames(string(debug.Stack()))
				}
			}()
			if err := f(); err != nil {
				m.Err = short(err.Error())
			} else {
				m.Ok = true
			}
		}()
		m.Ns = time.Since(t0).Nanoseconds()
		runtime.ReadMemStats(&m1)
		m.Alloc = m1.TotalAlloc - m0.TotalAlloc
		if cleanup != nil {
			cleanup()
		}
		if m.Alloc > 32<<20 {
			runtime.GC()
			debug.FreeOSMemory()
		}
		if try == 0 {
			best = m
		} else {
			if m.Alloc < best.Alloc {
				best.Alloc = m.Alloc
			}
			if m.Ns < best.Ns {
				best.Ns = m.Ns
			}
		}
		best.Tries = try + 1
		if !over(best, n) || m.Panic != "" {
			break
		}
	}
	return best
}

// firstFrames returns the innermost wazero function (outside this harness) and the first three file:line frames.
func firstFrames(st string) (fn string, at string) {
	var keep []string
	lines := strings.Split(st, "\n")
	for i, ln := range lines {
		if strings.Contains(ln, "/internal/") && !strings.Contains(ln, "zz_verif") && strings.Contains(ln, ".go:") && strings.HasPrefix(ln, "\t") {
			if fn == "" && i > 0 {
				fn = lines[i-1]
				if k := strings.LastIndex(fn, "("); k > 0 {
					fn = fn[:k]
				}
				if k := strings.LastIndex(fn, "/"); k >= 0 {
					fn = fn[k+1:]
				}
			}
			keep = append(keep, strings.TrimSpace(ln))
			if len(keep) == 3 {
				break
			}
		}
	}
	return fn, strings.Join(keep, " <- ")
}

func rtConfig(eng string) wazero.RuntimeConfig {
	var rc wazero.RuntimeConfig
	if eng == "compiler" {
		rc = wazero.NewRuntimeConfigCompiler()
	} else {
		rc = wazero.NewRuntimeConfigInterpreter()
	}
	// the tail-call proposal is on: a quarter of the second generator's modules end functions in return_call[_indirect]
	return rc.WithCloseOnContextDone(true).WithCoreFeatures(api.CoreFeaturesV2 | experimental.CoreFeaturesTailCall)
}

var engines = []string{"interp", "compiler"}

func childMode() {
	lim := *asLimit
	if lim > 0 {
		if err := syscall.Setrlimit(9 /* RLIMIT_AS */, &syscall.Rlimit{Cur: lim, Max: lim}); err != nil {
			fmt.Fprintln(os.Stderr, "setrlimit:", err)
			os.Exit(3)
		}
	}
	f, err := os.Open(*inFile)
	if err != nil {
		fmt.Fprintln(os.Stderr, err)
		os.Exit(3)
	}
	sc := bufio.NewScanner(f)
	sc.Buffer(make([]byte, 1<<20), 64<<20)
	w := bufio.NewWriter(os.Stdout)
	say := func(s string) { w.WriteString(s); w.WriteByte('\n'); w.Flush() }
	ctx := context.Background()
	// warm-up: one-time initialisations of both engines must not be charged to the first input
	warm := (&c.Gen{R: c.NewRng(7), OOBRate: 2, TrapRate: 5}).Program(2).Encode()
	for _, eng := range engines {
		r := wazero.NewRuntimeWithConfig(ctx, rtConfig(eng))
		if cm, err := r.CompileModule(ctx, warm); err == nil {
			cm.Close(ctx)
		}
		r.Close(ctx)
	}
	for sc.Scan() {
		var in Input
		if json.Unmarshal(sc.Bytes(), &in) != nil || in.ID < *from || in.ID >= *to {
			continue
		}
		bin, _ := hex.DecodeString(in.Hex)
		say(fmt.Sprintf("#start %d", in.ID))
		res := Res{Ev: "res", ID: in.ID, Len: len(bin), Comp: map[string]Meas{}, Run: map[string]*RunObs{}}
		say("#stage decode")
		var mod *wasm.Module
		res.Dec = measure(len(bin), func() (func() error, func()) {
			return func() error {
				m, err := binaryformat.DecodeModule(bin, api.CoreFeaturesV2, wasm.MemoryLimitPages, false, true, false)
				mod = m
				return err
			}, nil
		})
		if mod != nil {
			res.NFunc = len(mod.FunctionSection)
		}
		for _, eng := range engines {
			say("#stage compile-" + eng)
			res.Comp[eng] = measure(len(bin), func() (func() error, func()) {
				r := wazero.NewRuntimeWithConfig(ctx, rtConfig(eng))
				return func() error {
					_, err := r.CompileModule(ctx, bin)
					return err
				}, func() { r.Close(ctx) }
			})
			if in.ID%8 == 3 && len(bin) < 1<<16 {
				say("#stage compile-closed-cache-" + eng)
				if res.CompClosed == nil {
					res.CompClosed = map[string]Meas{}
				}
				res.CompClosed[eng] = measure(len(bin), func() (func() error, func()) {
					cache := wazero.NewCompilationCache()
					r := wazero.NewRuntimeWithConfig(ctx, rtConfig(eng).WithCompilationCache(cache))
					if in.ID%16 == 3 { // the engine exists already when the cache is closed
						if cm, err := r.CompileModule(ctx, warm); err == nil {
							cm.Close(ctx)
						}
					}
					cache.Close(ctx)
					return func() error {
						_, err := r.CompileModule(ctx, bin)
						return err
					}, func() { r.Close(ctx) }
				})
			}
			if res.Comp[eng].Ok && mod != nil && in.Class != "probe" {
				say("#stage run-" + eng)
				res.Run[eng] = runModule(ctx, eng, bin, mod)
			}
		}
		if strings.HasPrefix(in.Class, "valid") && res.Run["interp"] != nil && res.Run["compiler"] != nil {
			res.EngDiff = compareEngines(res.Run["interp"], res.Run["compiler"])
		}
		b, _ := json.Marshal(res)
		say(string(b))
	}
}

// ---- stage (c): instantiate with a permissive supplier for every import, call every export ----

var internalMarks = []string{"runtime error", "BUG", "index out of range", "nil pointer", "invalid memory address",
	"slice bounds out of range", "nil map", "makeslice", "unexpected fault"}

func isInternal(msg string) bool {
	first := msg
	if i := strings.Index(first, "wasm stack trace"); i >= 0 {
		first = first[:i]
	}
	for _, m := range internalMarks {
		if strings.Contains(first, m) {
			return true
		}
	}
	return false
}

func zeroOf(t byte) []byte {
	switch t {
	case c.I32:
		return c.I32Const(0)
	case c.I64:
		return c.I64Const(0)
	case c.F32:
		return []byte{0x43, 0, 0, 0, 0}
	case c.F64:
		return []byte{0x44, 0, 0, 0, 0, 0, 0, 0, 0}
	case c.V128:
		return append([]byte{0xfd, 0x0c}, make([]byte, 16)...)
	case c.FuncRef:
		return []byte{0xd0, 0x70}
	case c.ExternRef:
		return []byte{0xd0, 0x6f}
	}
	return nil
}

// suppliers builds, per imported module name, a wasm module exporting something that satisfies each import.
// Returns nil, reason when the import list cannot be satisfied this way.
func suppliers(m *wasm.Module) (map[string][]byte, []string, string) {
	type sup struct {
		mod  c.Mod
		seen map[string]string
		mem  bool
		ntab int
	}
	sups := map[string]*sup{}
	var order []string
	for i := range m.ImportSection {
		imp := &m.ImportSection[i]
		s := sups[imp.Module]
		if s == nil {
			s = &sup{seen: map[string]string{}}
			sups[imp.Module] = s
			order = append(order, imp.Module)
		}
		var key string
		switch imp.Type {
		case wasm.ExternTypeFunc:
			if int(imp.DescFunc) >= len(m.TypeSection) {
				return nil, nil, "import type index out of range"
			}
			ft := &m.TypeSection[imp.DescFunc]
			key = "f" + ft.String()
			if s.seen[imp.Name] == "" {
				var body []byte
				for _, r := range ft.Results {
					z := zeroOf(r)
					if z == nil {
						return nil, nil, "unknown result type"
					}
					body = append(body, z...)
					if r == c.I32 || r == c.I64 { // integer results depend on every integer parameter: acc*31 + p
						for pi, pt := range ft.Params {
							if pt != c.I32 && pt != c.I64 {
								continue
							}
							if r == c.I32 {
								body = append(body, c.I32Const(31)...)
								body = append(body, 0x6c)
								body = append(body, c.LocalGet(uint32(pi))...)
								if pt == c.I64 {
									body = append(body, 0xa7) // i32.wrap_i64
								}
								body = append(body, 0x6a)
							} else {
								body = append(body, c.I64Const(31)...)
								body = append(body, 0x7e)
								body = append(body, c.LocalGet(uint32(pi))...)
								if pt == c.I32 {
									body = append(body, 0xad) // i64.extend_i32_u
								}
								body = append(body, 0x7c)
							}
						}
					}
				}
				s.mod.Types = append(s.mod.Types, c.FT(ft.Params, ft.Results))
				s.mod.Funcs = append(s.mod.Funcs, c.U32(uint32(len(s.mod.Types)-1)))
				s.mod.Codes = append(s.mod.Codes, c.Code(nil, body))
				s.mod.Exports = append(s.mod.Exports, c.Export(imp.Name, 0, uint32(len(s.mod.Funcs)-1)))
			}
		case wasm.ExternTypeGlobal:
			gt := imp.DescGlobal
			key = fmt.Sprintf("g%x.%v", gt.ValType, gt.Mutable)
			if s.seen[imp.Name] == "" {
				z := zeroOf(gt.ValType)
				if z == nil {
					return nil, nil, "unknown global type"
				}
				mut := byte(0)
				if gt.Mutable {
					mut = 1
				}
				s.mod.Globals = append(s.mod.Globals, c.Cat([]byte{gt.ValType, mut}, z, []byte{0x0b}))
				s.mod.Exports = append(s.mod.Exports, c.Export(imp.Name, 3, uint32(len(s.mod.Globals)-1)))
			}
		case wasm.ExternTypeMemory:
			dm := imp.DescMem
			if dm == nil || dm.Min > 64 {
				return nil, nil, "imported memory too large for the run stage"
			}
			key = fmt.Sprintf("m%d.%d.%v", dm.Min, dm.Max, dm.IsMaxEncoded)
			if s.seen[imp.Name] == "" {
				if s.mem {
					return nil, nil, "two memories from one module"
				}
				s.mem = true
				var mx *uint32
				if dm.IsMaxEncoded {
					v := dm.Max
					mx = &v
				}
				s.mod.Mems = [][]byte{c.MemLimits(dm.Min, mx)}
				s.mod.Exports = append(s.mod.Exports, c.Export(imp.Name, 2, 0))
			}
		case wasm.ExternTypeTable:
			dt := imp.DescTable
			if dt.Min > 1<<16 {
				return nil, nil, "imported table too large for the run stage"
			}
			key = fmt.Sprintf("t%x.%d.%v", dt.Type, dt.Min, dt.Max)
			if s.seen[imp.Name] == "" {
				lim := c.Cat([]byte{0}, c.U32(dt.Min))
				if dt.Max != nil {
					lim = c.Cat([]byte{1}, c.U32(dt.Min), c.U32(*dt.Max))
				}
				s.mod.Tables = append(s.mod.Tables, c.Cat([]byte{dt.Type}, lim))
				s.mod.Exports = append(s.mod.Exports, c.Export(imp.Name, 1, uint32(s.ntab)))
				s.ntab++
			}
		default:
			return nil, nil, "unknown import kind"
		}
		if old := s.seen[imp.Name]; old != "" && old != key {
			return nil, nil, "one name imported with two types"
		}
		s.seen[imp.Name] = key
	}
	out := map[string][]byte{}
	for name, s := range sups {
		out[name] = s.mod.Bytes()
	}
	return out, order, ""
}

func tooBigToRun(m *wasm.Module) string {
	if m.MemorySection != nil && m.MemorySection.Min > 64 {
		return "memory too large for the run stage"
	}
	for i := range m.TableSection {
		if m.TableSection[i].Min > 1<<16 {
			return "table too large for the run stage"
		}
	}
	return ""
}

// argVectors: zero, all-ones and mixed boundary arguments; a v128 parameter takes two 64-bit slots, reference
// parameters are null (externref: also an opaque non-null value).
func argVectors(ps []api.ValueType) [][]uint64 {
	var zero, ones, mix []uint64
	for i, t := range ps {
		switch t {
		case api.ValueTypeI32, api.ValueTypeF32:
			zero, ones = append(zero, 0), append(ones, 0xffffffff)
			mix = append(mix, []uint64{0x7fffffff, 0x80000000, 1, 65536}[i%4])
		case api.ValueTypeI64, api.ValueTypeF64:
			zero, ones = append(zero, 0), append(ones, ^uint64(0))
			mix = append(mix, []uint64{1 << 63, 1<<63 - 1, 1, 1 << 32}[i%4])
		case 0x7b: // v128
			zero, ones = append(zero, 0, 0), append(ones, ^uint64(0), ^uint64(0))
			mix = append(mix, 0x0123456789abcdef, 1<<63|uint64(i))
		case api.ValueTypeExternref:
			zero, ones, mix = append(zero, 0), append(ones, 0), append(mix, 0x1234)
		default: // funcref: null
			zero, ones, mix = append(zero, 0), append(ones, 0), append(mix, 0)
		}
	}
	if len(ps) == 0 {
		return [][]uint64{zero}
	}
	return [][]uint64{zero, ones, mix}
}

func isNaN(t api.ValueType, v uint64) bool {
	if t == api.ValueTypeF32 {
		return uint32(v)&0x7fffffff > 0x7f800000
	}
	return t == api.ValueTypeF64 && v&0x7fffffffffffffff > 0x7ff0000000000000
}

// compareEngines: both engines must return the same results or the same trap class on every call; NaN results are
// compared by class, function references by null-ness (their representation is an address). Comparison stops at the
// first timeout or call-stack exhaustion, where the engines may legitimately differ.
func compareEngines(a, b *RunObs) string {
	if a.Skipped != "" || b.Skipped != "" {
		return ""
	}
	if (a.InstErr == "") != (b.InstErr == "") {
		return fmt.Sprintf("instantiation: interpreter %q, compiler %q", a.InstErr, b.InstErr)
	}
	for i := 0; i < len(a.log) && i < len(b.log); i++ {
		x, y := a.log[i], b.log[i]
		if x.trap == "timeout" || y.trap == "timeout" || x.trap == "exhaust" || y.trap == "exhaust" {
			return ""
		}
		if x.trap != y.trap {
			return fmt.Sprintf("call %d %s(args #%d): interpreter %q, compiler %q", i, x.fn, x.av, x.trap+fmt.Sprint(x.res), y.trap+fmt.Sprint(y.res))
		}
		slot := 0
		for _, t := range x.rt {
			n := 1
			if t == 0x7b {
				n = 2
			}
			for k := 0; k < n && slot < len(x.res) && slot < len(y.res); k, slot = k+1, slot+1 {
				u, v := x.res[slot], y.res[slot]
				if t == api.ValueTypeI32 || t == api.ValueTypeF32 {
					u, v = u&0xffffffff, v&0xffffffff
				}
				same := u == v
				if isNaN(t, u) && isNaN(t, v) {
					same = true
				}
				if t == 0x70 {
					same = (u == 0) == (v == 0)
				}
				if !same {
					return fmt.Sprintf("call %d %s(args #%d) result slot %d (type %#x): interpreter %#x, compiler %#x", i, x.fn, x.av, slot, t, u, v)
				}
			}
		}
	}
	return ""
}

func outcomeClass(err error) string {
	var ee *sys.ExitError
	if errors.As(err, &ee) {
		switch ee.ExitCode() {
		case sys.ExitCodeDeadlineExceeded, sys.ExitCodeContextCanceled:
			return "timeout"
		}
		return "exit"
	}
	if errors.Is(err, context.DeadlineExceeded) {
		return "timeout"
	}
	t := c.TrapClass(err)
	if strings.HasPrefix(t, "other:") {
		return "other"
	}
	return t
}

func runModule(ctx context.Context, eng string, bin []byte, m *wasm.Module) (obs *RunObs) {
	obs = &RunObs{Outcomes: map[string]int{}}
	defer func() {
		if e := recover(); e != nil {
			fn, at := firstFrames(string(debug.Stack()))
			obs.Internal = append(obs.Internal, "PANIC escaped the runtime: "+short(fmt.Sprint(e))+" | "+fn+" | "+at)
		}
	}()
	if why := tooBigToRun(m); why != "" {
		obs.Skipped = why
		return
	}
	sups, order, why := suppliers(m)
	if why != "" {
		obs.Skipped = why
		return
	}
	// the run stage caps guest memories at 256 pages: a guest growing its memory to 4 GiB is legitimate and would
	// only exercise the host's allocator (declared maxima above the cap are clamped, not rejected)
	r := wazero.NewRuntimeWithConfig(ctx, rtConfig(eng).WithMemoryLimitPages(256))
	defer r.Close(ctx)
	for _, name := range order {
		if _, err := r.InstantiateWithConfig(ctx, sups[name], wazero.NewModuleConfig().WithName(name)); err != nil {
			obs.Skipped = "supplier " + name + ": " + short(err.Error())
			return
		}
	}
	cm, err := r.CompileModule(ctx, bin)
	if err != nil {
		obs.Skipped = "not compilable under the run stage's memory cap: " + short(err.Error())
		return
	}
	note := func(err error) {
		k := outcomeClass(err)
		obs.Outcomes[k]++
		if k == "timeout" {
			obs.Timeouts++
		}
		if k == "other" && len(obs.Others) < 3 {
			obs.Others = append(obs.Others, short(err.Error()))
		}
		if isInternal(err.Error()) {
			if len(obs.Internal) < 4 {
				obs.Internal = append(obs.Internal, short(err.Error()))
			}
		}
	}
	seq := 0
	inst := func() api.Module {
		seq++
		tctx, cancel := context.WithTimeout(ctx, 300*time.Millisecond)
		defer cancel()
		mod, err := r.InstantiateModule(tctx, cm, wazero.NewModuleConfig().WithName(fmt.Sprintf("m%d", seq)))
		if err != nil {
			obs.InstErr = short(err.Error())
			note(err)
			return nil
		}
		return mod
	}
	mod := inst()
	if mod == nil {
		return
	}
	defs := cm.ExportedFunctions()
	names := make([]string, 0, len(defs))
	for n := range defs {
		names = append(names, n)
	}
	sortStrings(names)
	if len(names) > 8 {
		names = names[:8]
	}
	for _, n := range names {
		d := defs[n]
		ok := true
		for _, t := range append(append([]api.ValueType{}, d.ParamTypes()...), d.ResultTypes()...) {
			switch t {
			case api.ValueTypeI32, api.ValueTypeI64, api.ValueTypeF32, api.ValueTypeF64, api.ValueTypeExternref, 0x7b, 0x70:
			default:
				ok = false
			}
		}
		if !ok {
			continue
		}
		for av, args := range argVectors(d.ParamTypes()) {
			if obs.Timeouts >= 2 {
				return
			}
			if mod == nil || mod.IsClosed() {
				if mod = inst(); mod == nil {
					return
				}
			}
			f := mod.ExportedFunction(n)
			if f == nil {
				continue
			}
			tctx, cancel := context.WithTimeout(ctx, 150*time.Millisecond)
			out, err := f.Call(tctx, args...)
			cancel()
			obs.Calls++
			rec := callRec{fn: n, av: av, rt: d.ResultTypes()}
			if err != nil {
				note(err)
				rec.trap = outcomeClass(err)
			} else {
				obs.Outcomes["values"]++
				rec.res = append([]uint64{}, out...)
			}
			obs.log = append(obs.log, rec)
		}
	}
	return
}

func sortStrings(a []string) {
	for i := 1; i < len(a); i++ {
		for j := i; j > 0 && a[j] < a[j-1]; j-- {
			a[j], a[j-1] = a[j-1], a[j]
		}
	}
}
