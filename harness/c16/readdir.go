// Stream "readdir": fd_readdir scripts over real directories, through the real WASI host functions.
package main

import (
	"context"
	"encoding/hex"
	"fmt"
	"os"
	"path/filepath"

	c "github.com/tetratelabs/wazero/internal/zz_verif/common"
)

type RdEntry struct {
	Name string `json:"name"`
	Ino  uint64 `json:"ino"`
	Type uint32 `json:"type"`
}
type RdCall struct {
	BufLen uint32 `json:"buf_len"`
	Cookie uint64 `json:"cookie"`
	Kind   string `json:"kind"` // how the harness chose the cookie
	Errno  int64  `json:"errno"`
	Used   uint32 `json:"used"`
	Buf    string `json:"buf"` // hex of the buf_len bytes after the call (pre-filled with Fill)
	Trap   string `json:"trap,omitempty"`
}
type RdCase struct {
	Stream string    `json:"stream"`
	Dir    string    `json:"dir"`
	DotIno uint64    `json:"dot_ino"`
	List   []RdEntry `json:"list"` // the implementation's first full listing, without the dot entries
	Fill   byte      `json:"fill"`
	Calls  []RdCall  `json:"calls"`
	Ops    [][]any   `json:"ops"` // (kind, buf_len) summary for the distribution
	Obs    [][]any   `json:"obs"`
}

const rdFill = 0xAA

// one fd_readdir call; returns errno, bufused, buffer
func (w *Wasi) readdir(fd int64, bufLen uint32, cookie uint64) (int64, uint32, []byte, string) {
	fill := make([]byte, bufLen)
	for i := range fill {
		fill[i] = rdFill
	}
	w.mem.Write(aBuf, fill)
	w.mem.WriteUint32Le(aRes, 0xdeadbeef)
	e, trap := w.call("fd_readdir", uint64(uint32(fd)), aBuf, uint64(bufLen), cookie, aRes)
	buf, _ := w.mem.Read(aBuf, bufLen)
	out := append([]byte{}, buf...)
	return e, w.u32(aRes), out, trap
}

type parsed struct {
	dnext uint64
	ino   uint64
	typ   uint32
	name  string
}

// parse the complete entries of a buffer the way wasi-libc does
func parseDirents(buf []byte, used uint32) (es []parsed) {
	pos := uint32(0)
	for pos+24 <= used {
		nl := le.Uint32(buf[pos+16:])
		if uint64(pos)+24+uint64(nl) > uint64(used) {
			break
		}
		es = append(es, parsed{le.Uint64(buf[pos:]), le.Uint64(buf[pos+8:]), le.Uint32(buf[pos+20:]), string(buf[pos+24 : pos+24+nl])})
		pos += 24 + nl
	}
	return
}

func genReaddir(ctx context.Context, rng *c.Rng, out *c.Out, root string, nDirs, scriptsPerDir int) {
	w := newWasi(ctx, root, false)
	defer w.Close()
	for di := 0; di < nDirs; di++ {
		// directory sizes 0..40, biased to the small ones and to the sizes around buf_len/24+2
		var size int
		switch rng.Intn(4) {
		case 0:
			size = rng.Intn(4)
		case 1:
			size = rng.Intn(12)
		default:
			size = rng.Intn(41)
		}
		dname := fmt.Sprintf("rd%d", di)
		dpath := filepath.Join(root, dname)
		if err := os.Mkdir(dpath, 0o755); err != nil {
			panic(err)
		}
		style := rng.Intn(4) // 0: short names, 1: mixed, 2: long names, 3: one very long among short
		for i := 0; i < size; i++ {
			var nl int
			switch style {
			case 0:
				nl = 1 + rng.Intn(3)
			case 1:
				nl = 1 + rng.Intn(40)
			case 2:
				nl = 30 + rng.Intn(60)
			default:
				nl = 1 + rng.Intn(4)
				if rng.Intn(6) == 0 {
					nl = 100 + rng.Intn(80)
				}
			}
			name := []byte(fmt.Sprintf("%d", i))
			for len(name) < nl {
				name = append(name, byte('a'+rng.Intn(26)))
			}
			p := filepath.Join(dpath, string(name))
			if rng.Intn(5) == 0 {
				os.Mkdir(p, 0o755)
			} else {
				os.WriteFile(p, []byte("x"), 0o644)
			}
		}
		// first full listing on its own descriptor
		e, fd := w.pathOpen(3, dname, 2 /*O_DIRECTORY*/, 0, rightRead)
		if e != 0 {
			panic(fmt.Sprint("path_open dir: ", e))
		}
		e2, used, buf, _ := w.readdir(fd, 16384, 0)
		if e2 != 0 || used >= 16384 {
			panic(fmt.Sprint("listing failed ", e2, used))
		}
		all := parseDirents(buf, used)
		w.call("fd_close", uint64(fd))
		if len(all) != size+2 || all[0].name != "." || all[1].name != ".." {
			// reported as a case with an impossible listing so that the oracle flags it
			out.Emit(RdCase{Stream: "readdir", Dir: dname, Ops: [][]any{{"listing", len(all)}}, Obs: [][]any{{"bad-listing", size}}})
			continue
		}
		cs0 := RdCase{Stream: "readdir", Dir: dname, DotIno: all[0].ino, Fill: rdFill}
		maxName := 2
		for _, p := range all[2:] {
			cs0.List = append(cs0.List, RdEntry{p.name, p.ino, p.typ})
			if len(p.name) > maxName {
				maxName = len(p.name)
			}
		}
		for si := 0; si < scriptsPerDir; si++ {
			cs := cs0
			cs.Calls, cs.Ops, cs.Obs = nil, nil, nil
			e, fd := w.pathOpen(3, dname, 2, 0, rightRead)
			if e != 0 {
				panic("path_open")
			}
			// buffer size policy of this script
			pol := rng.Intn(6)
			bufLen := func() uint32 {
				switch pol {
				case 0:
					return uint32(24 + rng.Intn(12)) // too small for most entries: headers only
				case 1:
					return uint32(24 + maxName + rng.Intn(3)) // just enough for the longest name
				case 2:
					return uint32(24 + rng.Intn(177)) // 24..200
				case 3:
					return []uint32{24, 25, 26, 47, 48, 49, 50, 51, 52, 72, 73, 74, 96, 100, 120, 199, 200}[rng.Intn(17)]
				case 4:
					return uint32(200 + rng.Intn(2000))
				default:
					if rng.Bool() {
						return uint32(24 + rng.Intn(30))
					}
					return uint32(24 + maxName + rng.Intn(120))
				}
			}
			cookie := uint64(0) // next protocol cookie
			prev := uint64(0)   // cookie of the previous call
			ncalls := 3 + rng.Intn(2*size/3+6)
			for j := 0; j < ncalls; j++ {
				kind := "cont"
				ck := cookie
				if j > 0 {
					switch r := rng.Intn(24); {
					case r == 0:
						kind, ck = "rewind", 0
					case r == 1:
						kind, ck = "reread", prev
					case r == 2 && pol != 0:
						kind, ck = "arbitrary", uint64(rng.Intn(size+4))
					case r == 3 && rng.Intn(3) == 0:
						kind, ck = "far", []uint64{uint64(size + 3), uint64(size + 50), 1 << 32, 1<<63 - 1, 1 << 63, 1<<64 - 1}[rng.Intn(6)]
					}
				}
				bl := bufLen()
				if kind != "cont" && rng.Intn(8) == 0 {
					bl = uint32(rng.Intn(24)) // below the header size: EINVAL
					kind = "small"
				}
				en, used, buf, trap := w.readdir(fd, bl, ck)
				cs.Calls = append(cs.Calls, RdCall{BufLen: bl, Cookie: ck, Kind: kind, Errno: en, Used: used, Buf: hex.EncodeToString(buf), Trap: trap})
				cs.Ops = append(cs.Ops, []any{kind, bl})
				cs.Obs = append(cs.Obs, []any{en})
				if en == 0 {
					prev = ck
					cookie = ck
					if ps := parseDirents(buf, used); len(ps) > 0 {
						cookie = ps[len(ps)-1].dnext
					}
				}
			}
			w.call("fd_close", uint64(fd))
			out.Emit(cs)
		}
	}
}
