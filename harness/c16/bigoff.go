package main

import (
	"context"
	"encoding/hex"
	"fmt"
	"os"
	"path/filepath"

	c "github.com/tetratelabs/wazero/internal/zz_verif/common"
)

// Positional I/O at offsets beyond 2^31 and 2^32 (a sparse file; the reference model and the Python oracle keep file
// contents as byte lists, so these histories carry their own expectations): what pwrite stores at an offset is what
// pread returns there, the bytes before stay what they were, and the size is offset + length.
type BigOffStep struct {
	Op   []any `json:"op"`
	Got  []any `json:"got"`
	Want []any `json:"want"`
}

type BigOffCase struct {
	Stream string       `json:"stream"` // "bigoff"
	Engine string       `json:"engine"`
	Steps  []BigOffStep `json:"steps"`
}

func genBigOff(ctx context.Context, rng *c.Rng, out *c.Out, root string) {
	for ei, eng := range []string{"interp", "compiler"} {
		dir := filepath.Join(root, fmt.Sprintf("bigoff%d", ei))
		if err := os.Mkdir(dir, 0o755); err != nil {
			panic(err)
		}
		w := newWasi(ctx, dir, eng == "compiler")
		cs := BigOffCase{Stream: "bigoff", Engine: eng}
		step := func(op []any, want ...any) []any {
			got := fsExec(w, op)
			cs.Steps = append(cs.Steps, BigOffStep{Op: op, Got: got, Want: want})
			return got
		}
		hx := func(s string) string { return hex.EncodeToString([]byte(s)) }
		// open "big" for reading and writing, creating it (oflags 1 = O_CREAT; rights read|write as the fs stream passes them)
		got := step([]any{"open", "big", int64(1), int64(0), int64(0x42)}, int64(0), int64(4))
		if len(got) < 2 || got[0] != int64(0) {
			w.Close()
			out.Emit(cs)
			continue
		}
		fd := got[1].(int64)
		step([]any{"write", fd, []string{hx("hello world")}}, int64(0), int64(11))
		size := int64(11)
		offs := []int64{1<<31 - 1, 1 << 31, 1<<32 - 1, 1<<32 + 1, 1<<33 + 5 + int64(rng.Intn(1000))}
		for i, off := range offs {
			data := fmt.Sprintf("X%dY", i)
			step([]any{"pwrite", fd, []string{hx(data)}, off}, int64(0), int64(len(data)))
			if off+int64(len(data)) > size {
				size = off + int64(len(data))
			}
			step([]any{"pread", fd, []int64{11}, int64(0)}, int64(0), int64(11), hx("hello world"))
			step([]any{"pread", fd, []int64{int64(len(data))}, off}, int64(0), int64(len(data)), hx(data))
			step([]any{"fstat", fd}, int64(0), int64(4), size) // filetype regular file, size
		}
		step([]any{"setsize", fd, int64(0)}, int64(0)) // give the blocks back
		step([]any{"close", fd}, int64(0))
		w.Close()
		out.Emit(cs)
	}
}
