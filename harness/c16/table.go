// Stream "table": random + boundary operation sequences on the real descriptor.Table[int32, int64].
package main

import (
	"fmt"

	"github.com/tetratelabs/wazero/internal/descriptor"
	c "github.com/tetratelabs/wazero/internal/zz_verif/common"
)

type TableCase struct {
	Stream string   `json:"stream"`
	Ops    [][]any  `json:"ops"`
	Obs    [][]any  `json:"obs"`
	Masks  []uint64 `json:"masks"`
	NItems int      `json:"nitems"`
}

func tableGuard(f func() []any) (res []any) {
	defer func() {
		if e := recover(); e != nil {
			res = []any{"panic", fmt.Sprint(e)}
		}
	}()
	return f()
}

func runTable(ops [][]any) TableCase {
	cs := TableCase{Stream: "table", Ops: ops}
	var t descriptor.Table[int32, int64]
	for _, op := range ops {
		i := func(k int) int64 { return op[k].(int64) }
		var o []any
		switch op[0].(string) {
		case "ins":
			o = tableGuard(func() []any { k, ok := t.Insert(i(1)); return []any{"key", int64(k), ok} })
		case "at":
			o = tableGuard(func() []any { return []any{"bool", t.InsertAt(i(1), int32(i(2)))} })
		case "get":
			o = tableGuard(func() []any { v, ok := t.Lookup(int32(i(1))); return []any{"item", v, ok} })
		case "del":
			o = tableGuard(func() []any { t.Delete(int32(i(1))); return []any{"unit"} })
		case "reset":
			o = tableGuard(func() []any { t.Reset(); return []any{"unit"} })
		}
		cs.Obs = append(cs.Obs, o)
		if o[0] == "panic" {
			break
		}
	}
	m, n := descriptor.VerifState(&t)
	cs.Masks = append([]uint64{}, m...)
	cs.NItems = n
	return cs
}

func genTable(rng *c.Rng, out *c.Out, n int) {
	boundary := []int64{0, 1, 2, 62, 63, 64, 65, 66, 126, 127, 128, 129, 130, 191, 192, 193, 255, 256, -1, -2, -64, -2147483648}
	for ci := 0; ci < n; ci++ {
		var ops [][]any
		var live []int64 // keys believed to be in use (only used to aim the generator)
		nops := 10 + rng.Intn(60)
		style := rng.Intn(6)
		far := style == 0 // a case with an InsertAt far away (<= 5000)
		key := func() int64 {
			switch rng.Intn(5) {
			case 0:
				if len(live) > 0 {
					return live[rng.Intn(len(live))]
				}
				fallthrough
			case 1, 2:
				return boundary[rng.Intn(len(boundary))]
			case 3:
				return int64(rng.Intn(200))
			default:
				if far {
					return int64(rng.Intn(5000))
				}
				return int64(rng.Intn(140))
			}
		}
		if style == 1 { // fill one or two whole words first so that Insert has to cross the word boundary and grow
			for k := 0; k < 63+rng.Intn(70); k++ {
				ops = append(ops, []any{"ins", int64(k + 1000)})
				live = append(live, int64(k))
			}
		}
		if style == 2 { // fill by InsertAt, descending
			top := int64(60 + rng.Intn(80))
			for k := top; k >= 0; k-- {
				if rng.Intn(9) != 0 {
					ops = append(ops, []any{"at", k + 2000, k})
					live = append(live, k)
				}
			}
		}
		for j := 0; j < nops; j++ {
			v := int64(rng.Intn(1 << 20))
			if rng.Intn(10) == 0 {
				v = 0 // the zero Item is a legal item
			}
			switch k := rng.Intn(20); {
			case k < 7:
				ops = append(ops, []any{"ins", v})
			case k < 10:
				kk := key()
				ops = append(ops, []any{"at", v, kk})
				live = append(live, kk)
			case k < 14:
				ops = append(ops, []any{"get", key()})
			case k < 19:
				ops = append(ops, []any{"del", key()})
			default:
				if rng.Intn(4) == 0 {
					ops = append(ops, []any{"reset"})
					live = nil
				} else {
					ops = append(ops, []any{"get", key()})
				}
			}
		}
		// read back around the boundaries at the end
		for _, k := range []int64{0, 63, 64, 65, 127, 128} {
			ops = append(ops, []any{"get", k})
		}
		out.Emit(runTable(ops))
	}
}
