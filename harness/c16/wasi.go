// WASI session through a proxy guest: a real guest module imports every wasi_snapshot_preview1
// function the harness needs and re-exports a guest function that `call`s it, so the host function
// sees a guest caller with a real memory.
package main

import (
	"context"
	"encoding/binary"
	"fmt"

	"github.com/tetratelabs/wazero"
	"github.com/tetratelabs/wazero/api"
	"github.com/tetratelabs/wazero/imports/wasi_snapshot_preview1"
	c "github.com/tetratelabs/wazero/internal/zz_verif/common"
)

type wasiFn struct {
	name   string
	params []byte
}

var wasiFns = []wasiFn{
	{"fd_close", c.B(c.I32)},
	{"fd_renumber", c.B(c.I32, c.I32)},
	{"fd_read", c.B(c.I32, c.I32, c.I32, c.I32)},
	{"fd_write", c.B(c.I32, c.I32, c.I32, c.I32)},
	{"fd_pread", c.B(c.I32, c.I32, c.I32, c.I64, c.I32)},
	{"fd_pwrite", c.B(c.I32, c.I32, c.I32, c.I64, c.I32)},
	{"fd_seek", c.B(c.I32, c.I64, c.I32, c.I32)},
	{"fd_tell", c.B(c.I32, c.I32)},
	{"fd_filestat_set_size", c.B(c.I32, c.I64)},
	{"fd_filestat_get", c.B(c.I32, c.I32)},
	{"fd_fdstat_get", c.B(c.I32, c.I32)},
	{"fd_fdstat_set_flags", c.B(c.I32, c.I32)},
	{"fd_readdir", c.B(c.I32, c.I32, c.I32, c.I64, c.I32)},
	{"path_open", c.B(c.I32, c.I32, c.I32, c.I32, c.I32, c.I64, c.I64, c.I32, c.I32)},
	{"path_create_directory", c.B(c.I32, c.I32, c.I32)},
	{"path_remove_directory", c.B(c.I32, c.I32, c.I32)},
	{"path_unlink_file", c.B(c.I32, c.I32, c.I32)},
	{"path_rename", c.B(c.I32, c.I32, c.I32, c.I32, c.I32, c.I32)},
	{"path_filestat_get", c.B(c.I32, c.I32, c.I32, c.I32, c.I32)},
}

func proxyModule() []byte {
	m := &c.Mod{}
	n := uint32(len(wasiFns))
	for i, f := range wasiFns {
		m.Types = append(m.Types, c.FT(f.params, c.B(c.I32)))
		m.Imports = append(m.Imports, c.ImportFunc("wasi_snapshot_preview1", f.name, uint32(i)))
		m.Funcs = append(m.Funcs, c.U32(uint32(i)))
		var body [][]byte
		for p := range f.params {
			body = append(body, c.LocalGet(uint32(p)))
		}
		body = append(body, c.Call(uint32(i)))
		m.Codes = append(m.Codes, c.Code(nil, body...))
		m.Exports = append(m.Exports, c.Export(f.name, 0, n+uint32(i)))
	}
	m.Mems = [][]byte{c.MemLimits(2, nil)}
	m.Exports = append(m.Exports, c.Export("memory", 2, 0))
	return m.Bytes()
}

type Wasi struct {
	ctx context.Context
	r   wazero.Runtime
	mod api.Module
	mem api.Memory
	fns map[string]api.Function
}

var proxyBytes = proxyModule()

// newWasi mounts root at "/" (pre-opened as fd 3) in a fresh runtime.
func newWasi(ctx context.Context, root string, compiler bool) *Wasi {
	var rc wazero.RuntimeConfig
	if compiler {
		rc = wazero.NewRuntimeConfigCompiler()
	} else {
		rc = wazero.NewRuntimeConfigInterpreter()
	}
	r := wazero.NewRuntimeWithConfig(ctx, rc)
	wasi_snapshot_preview1.MustInstantiate(ctx, r)
	cfg := wazero.NewModuleConfig().WithName("proxy").WithFSConfig(wazero.NewFSConfig().WithDirMount(root, "/"))
	mod, err := r.InstantiateWithConfig(ctx, proxyBytes, cfg)
	if err != nil {
		panic(err)
	}
	w := &Wasi{ctx: ctx, r: r, mod: mod, mem: mod.Memory(), fns: map[string]api.Function{}}
	for _, f := range wasiFns {
		w.fns[f.name] = mod.ExportedFunction(f.name)
	}
	return w
}

func (w *Wasi) Close() { w.r.Close(w.ctx) }

// call returns the WASI errno, or -1 with a message when the call trapped/panicked.
func (w *Wasi) call(name string, args ...uint64) (errno int64, trap string) {
	defer func() {
		if e := recover(); e != nil {
			errno, trap = -1, fmt.Sprint(e)
		}
	}()
	res, err := w.fns[name].Call(w.ctx, args...)
	if err != nil {
		return -1, err.Error()
	}
	return int64(uint32(res[0])), ""
}

// memory layout used by the harness
const (
	aRes   = 16   // result cell (u32 / u64)
	aPath  = 64   // path bytes (<= 448)
	aPath2 = 512  // second path
	aIov   = 1024 // iovec array (<= 8 entries)
	aStat  = 1200 // filestat (64 bytes) / fdstat (24 bytes)
	aBuf   = 4096 // data / dirent buffer
)

func (w *Wasi) putPath(addr uint32, p string) (uint64, uint64) {
	w.mem.Write(addr, []byte(p))
	return uint64(addr), uint64(len(p))
}
func (w *Wasi) u32(addr uint32) uint32 { v, _ := w.mem.ReadUint32Le(addr); return v }
func (w *Wasi) u64(addr uint32) uint64 { v, _ := w.mem.ReadUint64Le(addr); return v }

const (
	rightsAll  = uint64(0x1fffffff)
	rightRead  = uint64(2)  // RIGHT_FD_READ
	rightWrite = uint64(64) // RIGHT_FD_WRITE
)

// pathOpen returns (errno, fd)
func (w *Wasi) pathOpen(dirfd int64, path string, oflags, fdflags uint64, rights uint64) (int64, int64) {
	p, l := w.putPath(aPath, path)
	w.mem.WriteUint32Le(aRes, 0xdeadbeef)
	e, _ := w.call("path_open", uint64(uint32(dirfd)), 0, p, l, oflags, rights, rights, fdflags, aRes)
	if e != 0 {
		return e, -1
	}
	return 0, int64(int32(w.u32(aRes)))
}

var le = binary.LittleEndian
