// C16 correspondence harness. Streams (one JSON case per line, field "stream"):
//   table   — descriptor.Table[int32,int64] operation sequences           (table.go)
//   readdir — fd_readdir scripts over real temp directories                (readdir.go)
//   fs      — WASI file-system call sequences through a proxy guest module (fs.go)
package main

import (
	"context"
	"flag"
	"os"

	c "github.com/tetratelabs/wazero/internal/zz_verif/common"
)

func main() {
	seed := flag.Uint64("seed", 1, "")
	nTable := flag.Int("table", 200, "number of table cases")
	nDirs := flag.Int("dirs", 40, "number of directories of the readdir stream")
	nScripts := flag.Int("scripts", 6, "fd_readdir scripts per directory")
	nFs := flag.Int("fs", 100, "number of fs cases")
	compEvery := flag.Int("compiler-every", 10, "run every k-th fs case on the compiler engine (0 = never)")
	script := flag.String("script", "", "fs stream only: execute the operation lists of this file (one JSON array per line)")
	flag.Parse()
	ctx := context.Background()
	root, err := os.MkdirTemp("", "verif-c16-")
	if err != nil {
		panic(err)
	}
	defer os.RemoveAll(root)
	out := c.NewOut()
	defer out.Flush()
	if *script != "" {
		runFsScript(ctx, out, root, *script)
		return
	}
	genTable(c.NewRng(*seed*3+1), out, *nTable)
	genReaddir(ctx, c.NewRng(*seed*3+2), out, root, *nDirs, *nScripts)
	genFs(ctx, c.NewRng(*seed*3+3), out, root, *nFs, *compEvery)
	genBigOff(ctx, c.NewRng(*seed*3+4), out, root)
}
