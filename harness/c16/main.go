// C16 correspondence harness. Streams (one JSON case per line, field "stream"):
//   table   — descriptor.Table[int32,int64] operation sequences           (table.go)
//   readdir — fd_readdir scripts over real temp directories                (readdir.go)
//   fs      — WASI file-system call sequences through a proxy guest module (fs.go)
package main

import (
	"flag"

	c "github.com/tetratelabs/wazero/internal/zz_verif/common"
)

func main() {
	seed := flag.Uint64("seed", 1, "")
	nTable := flag.Int("table", 200, "number of table cases")
	flag.Parse()
	out := c.NewOut()
	defer out.Flush()
	genTable(c.NewRng(*seed*3+1), out, *nTable)
}
