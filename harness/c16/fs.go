// Stream "fs": random WASI file-system call sequences on a real temp directory, through the real
// host functions (proxy guest), one fresh runtime + directory per case.
package main

import (
	"context"
	"encoding/hex"
	"fmt"
	"os"
	"path"
	"path/filepath"
	"sort"
	"strings"

	c "github.com/tetratelabs/wazero/internal/zz_verif/common"
)

type FsCase struct {
	Stream string     `json:"stream"`
	Engine string     `json:"engine"`
	Ops    [][]any    `json:"ops"`
	Obs    [][]any    `json:"obs"`
	Tree   [][]string `json:"tree"` // final host tree: [path, "dir"] or [path, "file", hex content], sorted by path
}

var fsNames = []string{"a", "b", "c", "d", "e", "f"}

func fsPath(rng *c.Rng) string {
	n := 1
	switch rng.Intn(10) {
	case 0, 1, 2:
		n = 2
	case 3:
		n = 3
	}
	parts := make([]string, n)
	for i := range parts {
		// directories tend to be d/e/f, files a/b/c, but nothing enforces it
		if i < n-1 {
			parts[i] = fsNames[3+rng.Intn(3)]
			if rng.Intn(8) == 0 {
				parts[i] = fsNames[rng.Intn(6)]
			}
		} else {
			parts[i] = fsNames[rng.Intn(6)]
		}
	}
	return strings.Join(parts, "/")
}

func (w *Wasi) iovs(lens []int, data [][]byte) (uint64, uint64) {
	// iovec array at aIov, buffers packed from aBuf
	pos := uint32(aBuf)
	for i, l := range lens {
		w.mem.WriteUint32Le(aIov+uint32(i)*8, pos)
		w.mem.WriteUint32Le(aIov+uint32(i)*8+4, uint32(l))
		if data != nil {
			w.mem.Write(pos, data[i])
		} else {
			fill := make([]byte, l)
			for j := range fill {
				fill[j] = 0xEE
			}
			w.mem.Write(pos, fill)
		}
		pos += uint32(l)
	}
	return aIov, uint64(len(lens))
}

func (w *Wasi) gather(lens []int, n uint32) []byte {
	var out []byte
	pos := uint32(aBuf)
	for _, l := range lens {
		b, _ := w.mem.Read(pos, uint32(l))
		take := uint32(l)
		if take > n {
			take = n
		}
		out = append(out, b[:take]...)
		n -= take
		pos += uint32(l)
	}
	return out
}

func (w *Wasi) stat64() (ftype uint64, size uint64) {
	return w.u64(aStat + 16), w.u64(aStat + 32)
}

func fsExec(w *Wasi, op []any) []any {
	s := func(i int) string { return op[i].(string) }
	n := func(i int) int64 { return op[i].(int64) }
	ints := func(i int) []int {
		var r []int
		for _, x := range op[i].([]int64) {
			r = append(r, int(x))
		}
		return r
	}
	chunks := func(i int) (lens []int, data [][]byte) {
		for _, h := range op[i].([]string) {
			b, _ := hex.DecodeString(h)
			data = append(data, b)
			lens = append(lens, len(b))
		}
		return
	}
	res := func(e int64, trap string, more ...any) []any {
		if e < 0 {
			return []any{int64(-1), trap}
		}
		if e != 0 {
			return []any{e}
		}
		return append([]any{int64(0)}, more...)
	}
	dirfd := func() uint64 { // optional trailing dirfd (default: the pre-open, 3)
		if v, ok := op[len(op)-1].(int64); ok && (s(0) == "mkdir" || s(0) == "rmdir" || s(0) == "unlink" || s(0) == "stat" || s(0) == "rename" || (s(0) == "open" && len(op) > 5)) {
			return uint64(uint32(v))
		}
		return 3
	}
	switch s(0) {
	case "open":
		p, l := w.putPath(aPath, s(1))
		w.mem.WriteUint32Le(aRes, 0xdeadbeef)
		e, t := w.call("path_open", dirfd(), 0, p, l, uint64(n(2)), uint64(n(4)), uint64(n(4)), uint64(n(3)), aRes)
		return res(e, t, int64(int32(w.u32(aRes))))
	case "close":
		e, t := w.call("fd_close", uint64(uint32(n(1))))
		return res(e, t)
	case "renumber":
		e, t := w.call("fd_renumber", uint64(uint32(n(1))), uint64(uint32(n(2))))
		return res(e, t)
	case "read", "pread":
		lens := ints(2)
		iv, cnt := w.iovs(lens, nil)
		w.mem.WriteUint32Le(aRes, 0xdeadbeef)
		var e int64
		var t string
		if s(0) == "read" {
			e, t = w.call("fd_read", uint64(uint32(n(1))), iv, cnt, aRes)
		} else {
			e, t = w.call("fd_pread", uint64(uint32(n(1))), iv, cnt, uint64(n(3)), aRes)
		}
		nr := w.u32(aRes)
		return res(e, t, int64(nr), hex.EncodeToString(w.gather(lens, nr)))
	case "write", "pwrite":
		lens, data := chunks(2)
		iv, cnt := w.iovs(lens, data)
		w.mem.WriteUint32Le(aRes, 0xdeadbeef)
		var e int64
		var t string
		if s(0) == "write" {
			e, t = w.call("fd_write", uint64(uint32(n(1))), iv, cnt, aRes)
		} else {
			e, t = w.call("fd_pwrite", uint64(uint32(n(1))), iv, cnt, uint64(n(3)), aRes)
		}
		return res(e, t, int64(w.u32(aRes)))
	case "seek":
		w.mem.WriteUint64Le(aRes, 0xdeadbeefdeadbeef)
		e, t := w.call("fd_seek", uint64(uint32(n(1))), uint64(n(2)), uint64(uint32(n(3))), aRes)
		return res(e, t, int64(w.u64(aRes)))
	case "tell":
		w.mem.WriteUint64Le(aRes, 0xdeadbeefdeadbeef)
		e, t := w.call("fd_tell", uint64(uint32(n(1))), aRes)
		return res(e, t, int64(w.u64(aRes)))
	case "setsize":
		e, t := w.call("fd_filestat_set_size", uint64(uint32(n(1))), uint64(n(2)))
		return res(e, t)
	case "fstat":
		e, t := w.call("fd_filestat_get", uint64(uint32(n(1))), aStat)
		ft, sz := w.stat64()
		if ft == 3 {
			sz = 0 // directory sizes are a host detail
		}
		return res(e, t, int64(ft), int64(sz))
	case "mkdir":
		p, l := w.putPath(aPath, s(1))
		e, t := w.call("path_create_directory", dirfd(), p, l)
		return res(e, t)
	case "rmdir":
		p, l := w.putPath(aPath, s(1))
		e, t := w.call("path_remove_directory", dirfd(), p, l)
		return res(e, t)
	case "unlink":
		p, l := w.putPath(aPath, s(1))
		e, t := w.call("path_unlink_file", dirfd(), p, l)
		return res(e, t)
	case "rename":
		p, l := w.putPath(aPath, s(1))
		p2, l2 := w.putPath(aPath2, s(2))
		d1, d2 := dirfd(), dirfd() // ["rename", from, to, dirfd] or ["rename", from, to, dirfd, dirfd2]
		if len(op) > 4 {
			d1 = uint64(uint32(n(3)))
		}
		e, t := w.call("path_rename", d1, p, l, d2, p2, l2)
		return res(e, t)
	case "stat":
		p, l := w.putPath(aPath, s(1))
		e, t := w.call("path_filestat_get", dirfd(), 0, p, l, aStat)
		ft, sz := w.stat64()
		if ft == 3 {
			sz = 0
		}
		return res(e, t, int64(ft), int64(sz))
	}
	panic("unknown op " + s(0))
}

func hostTree(root string) [][]string {
	var out [][]string
	filepath.Walk(root, func(p string, info os.FileInfo, err error) error {
		if err != nil || p == root {
			return nil
		}
		rel, _ := filepath.Rel(root, p)
		if info.IsDir() {
			out = append(out, []string{rel, "dir"})
		} else {
			b, _ := os.ReadFile(p)
			out = append(out, []string{rel, "file", hex.EncodeToString(b)})
		}
		return nil
	})
	sort.Slice(out, func(i, j int) bool { return out[i][0] < out[j][0] })
	return out
}

func genFs(ctx context.Context, rng *c.Rng, out *c.Out, root string, n int, compilerEvery int) {
	for ci := 0; ci < n; ci++ {
		dir := filepath.Join(root, fmt.Sprintf("fs%d", ci))
		if err := os.Mkdir(dir, 0o755); err != nil {
			panic(err)
		}
		compiler := compilerEvery > 0 && ci%compilerEvery == compilerEvery-1
		w := newWasi(ctx, dir, compiler)
		cs := FsCase{Stream: "fs", Engine: "interp"}
		if compiler {
			cs.Engine = "compiler"
		}
		var fds []int64    // descriptors believed open (aims the generator only)
		var known []string // clean paths (relative to the mount) created so far; entries go stale on purpose
		// names: for every descriptor opened by path_open and still open, the string wazero keeps as
		// FileEntry.Name (the path it was opened with, prefixed by the name of the directory descriptor
		// it was opened through; a trailing slash is kept). Exact, because exec() follows every result.
		names := map[int64]string{}
		isDir := map[int64]bool{}  // descriptors believed to be directories (aim only)
		kind := map[string]byte{}  // clean path -> 'd' | 'f' as last seen (aim only)
		hasSlash := func(p string) bool { return strings.HasSuffix(p, "/") }
		// route: what atPath puts in front of a path given through dirfd; ok=false: not an open path_open descriptor
		route := func(dirfd int64) (string, bool) {
			if dirfd == 3 {
				return "", true
			}
			if nm, ok := names[dirfd]; ok {
				return nm + "/", true
			}
			return "", false
		}
		slash := func(p string) string { // about 1 path argument in 6 ends in '/'
			if rng.Intn(6) == 0 {
				return p + "/"
			}
			return p
		}
		// descriptors for content operations: never the stdio streams, which the model leaves out
		pickFd := func() int64 {
			switch r := rng.Intn(16); {
			case r < 13 && len(fds) > 0:
				return fds[rng.Intn(len(fds))]
			case r < 14:
				return int64(4 + rng.Intn(5))
			case r == 14:
				return []int64{3, -1, 9, 63, 64, 65, 100}[rng.Intn(7)]
			default:
				return int64(3 + rng.Intn(9))
			}
		}
		// descriptors for close/renumber: stdio and the pre-open included
		pickAnyFd := func() int64 {
			if rng.Intn(6) == 0 {
				return []int64{0, 1, 2, 3, -1, 700}[rng.Intn(6)]
			}
			return pickFd()
		}
		pickRootPath := func() string {
			if len(known) > 0 && rng.Intn(5) < 3 {
				p := known[rng.Intn(len(known))]
				if rng.Intn(5) == 0 {
					p = p + "/" + fsNames[rng.Intn(6)]
				}
				return p
			}
			return fsPath(rng)
		}
		// known paths strictly below the directory dirfd was opened as, made relative to it (wantDir: directories only)
		below := func(dirfd int64, wantDir bool) []string {
			var out []string
			pre := ""
			if dirfd != 3 {
				nm, ok := names[dirfd]
				if !ok {
					return nil
				}
				if pre = strings.TrimPrefix(path.Clean("/"+nm), "/"); pre != "" {
					pre += "/"
				}
			}
			seen := map[string]bool{}
			for _, k := range known {
				if strings.HasPrefix(k, pre) && len(k) > len(pre) && !seen[k] && (!wantDir || kind[k] == 'd') {
					seen[k] = true
					out = append(out, k[len(pre):])
				}
			}
			return out
		}
		// a path argument for dirfd, without the trailing-slash decision: through a directory descriptor other
		// than the pre-open mostly a path RELATIVE to that directory which names something known
		pickRel := func(dirfd int64) string {
			if _, ok := names[dirfd]; !ok || dirfd == 3 {
				return pickRootPath()
			}
			cands := below(dirfd, false)
			switch r := rng.Intn(10); {
			case r < 7 && len(cands) > 0:
				p := cands[rng.Intn(len(cands))]
				if rng.Intn(6) == 0 {
					p = p + "/" + fsNames[rng.Intn(6)]
				}
				return p
			case r < 9:
				p := fsNames[rng.Intn(6)]
				if rng.Intn(4) == 0 {
					p = fsNames[3+rng.Intn(3)] + "/" + p
				}
				return p
			default:
				return pickRootPath()
			}
		}
		// decor: about 1 path argument in 8 is not clean — ".", "..", empty components, now and then a path that
		// leaves the directory or is rooted (EPERM). atPath normalises lexically, so "x/../a" is "a" whether or not x
		// exists. A path that normalises to the directory itself is only produced where the caller allows it.
		decor := func(p string, allowEmpty bool) string {
			if rng.Intn(8) != 0 {
				return p
			}
			comps := strings.Split(p, "/")
			join := func(c []string) string { return strings.Join(c, "/") }
			q := p
			switch rng.Intn(10) {
			case 0:
				q = "./" + p
			case 1:
				q = p + "/."
			case 2, 3:
				i := 1 + rng.Intn(len(comps))
				mid := []string{"//", "/./", "/.//"}[rng.Intn(3)]
				q = join(comps[:i]) + mid + join(comps[i:])
			case 4, 5:
				i := rng.Intn(len(comps))
				c := append(append(append([]string{}, comps[:i]...), fsNames[rng.Intn(6)], ".."), comps[i:]...)
				q = join(c)
			case 6:
				q = p + "/../" + comps[len(comps)-1]
			case 7:
				q = p + "/.."
			case 8:
				q = []string{"../" + p, p + strings.Repeat("/..", len(comps)+1), "..", p + "/../../" + comps[0]}[rng.Intn(4)]
			default:
				q = "/" + p
			}
			if !allowEmpty && !strings.HasPrefix(q, "/") && path.Clean(q) == "." {
				return p
			}
			return q
		}
		pickPath := func(dirfd int64, allowEmpty bool) string { return slash(decor(pickRel(dirfd), allowEmpty)) }
		// an open directory descriptor other than the pre-open half of the time (if there is one), now and then anything, else the pre-open
		pickDirfd := func() int64 {
			var dirs []int64
			for _, fd := range fds {
				if isDir[fd] {
					dirs = append(dirs, fd)
				}
			}
			switch r := rng.Intn(20); {
			case r < 10 && len(dirs) > 0:
				return dirs[rng.Intn(len(dirs))]
			case r < 18:
				return 3
			default:
				return pickFd()
			}
		}
		data := func() string {
			l := rng.Intn(9)
			if rng.Intn(6) == 0 {
				l = rng.Intn(30)
			}
			b := make([]byte, l)
			for i := range b {
				b[i] = byte(1 + rng.Intn(255))
			}
			return hex.EncodeToString(b)
		}
		nops := 8 + rng.Intn(30)
		style := rng.Intn(4) // 0: mixed, 1: content-heavy on few files, 2: directory-heavy, 3: descriptor-heavy
		// a little initial structure; two times out of three a directory descriptor other than the pre-open from the start
		pre := [][]any{{"mkdir", "d", int64(3)}, {"open", "a", int64(1), int64(0), int64(66), int64(3)}}
		if rng.Bool() {
			pre = append(pre, []any{"mkdir", "e", int64(3)}, []any{"open", "d/a", int64(1), int64(0), int64(66), int64(3)})
		}
		if rng.Intn(3) != 0 {
			pre = append(pre, []any{"open", slash("d"), int64(2), int64(0), int64(2), int64(3)})
		}
		drop := func(fd int64) {
			for i := 0; i < len(fds); i++ {
				if fds[i] == fd {
					fds = append(fds[:i], fds[i+1:]...)
					i--
				}
			}
			delete(names, fd)
			delete(isDir, fd)
		}
		// full: the string atPath produces for (dirfd, p), when dirfd is the pre-open or a tracked descriptor
		full := func(dirfd int64, p string) (string, bool) {
			r, ok := route(dirfd)
			c := path.Clean(p) // atPath: path.Clean, then the trailing slash is put back
			if hasSlash(p) {
				c += "/"
			}
			return r + c, ok
		}
		// cl: the mount-relative clean path a full string stands for ("" = the mount point)
		cl := func(fp string) string { return strings.TrimPrefix(path.Clean("/"+fp), "/") }
		exec := func(op []any) {
			ob := fsExec(w, op)
			cs.Ops = append(cs.Ops, op)
			cs.Obs = append(cs.Obs, ob)
			if ob[0].(int64) != 0 {
				return
			}
			switch op[0] {
			case "open":
				fd := ob[1].(int64)
				fp, _ := full(op[5].(int64), op[1].(string))
				cp := cl(fp)
				drop(fd)
				fds = append(fds, fd)
				names[fd] = fp
				if fp == "." || fp == "/" { // FSContext.OpenFile
					names[fd] = ""
				}
				if op[2].(int64)&1 != 0 {
					known = append(known, cp)
					if kind[cp] == 0 {
						kind[cp] = 'f'
					}
				}
				isDir[fd] = op[2].(int64)&2 != 0 || hasSlash(fp) || kind[cp] == 'd' || cp == ""
			case "mkdir":
				fp, _ := full(op[2].(int64), op[1].(string))
				known = append(known, cl(fp))
				kind[cl(fp)] = 'd'
			case "rmdir", "unlink":
				fp, _ := full(op[2].(int64), op[1].(string))
				delete(kind, cl(fp))
			case "rename":
				fa, _ := full(op[3].(int64), op[1].(string))
				fb, _ := full(op[4].(int64), op[2].(string))
				ca, cb := cl(fa), cl(fb)
				if ca != cb {
					known = append(known, cb)
					if k, ok := kind[ca]; ok {
						kind[cb] = k
						delete(kind, ca)
					}
				}
			case "close":
				drop(op[1].(int64))
			case "renumber":
				if from, to := op[1].(int64), op[2].(int64); from != to {
					nm, isn := names[from]
					dr := isDir[from]
					drop(from)
					drop(to)
					fds = append(fds, to)
					if isn {
						names[to] = nm
						isDir[to] = dr
					}
				}
			}
		}
		for _, op := range pre {
			exec(op)
		}
		for j := 0; j < nops; j++ {
			k := rng.Intn(100)
			switch style {
			case 1:
				if k < 30 {
					k = 30 + rng.Intn(45) // content ops
				}
			case 2:
				if k >= 30 && k < 75 && rng.Bool() {
					k = 75 + rng.Intn(25)
				}
			case 3:
				if k >= 30 && rng.Bool() {
					k = rng.Intn(30)
				}
			}
			var op []any
			switch {
			case k < 14: // open
				oflags := int64([]int{0, 0, 1, 1, 1, 9, 8, 5, 2, 3, 13}[rng.Intn(11)])
				fdflags := int64(0)
				if rng.Intn(4) == 0 {
					fdflags = 1 // APPEND
				}
				rights := int64([]int{66, 66, 66, 2, 64, 0}[rng.Intn(6)])
				if oflags&2 != 0 && rng.Intn(4) != 0 {
					rights = 2
				}
				dfd := pickDirfd()
				p := pickPath(dfd, oflags == 0 || oflags == 2)
				if rng.Intn(4) == 0 { // open a known directory, so that later calls can go through it
					if ds := below(dfd, true); len(ds) > 0 {
						oflags = int64([]int{2, 2, 2, 0}[rng.Intn(4)])
						p = slash(decor(ds[rng.Intn(len(ds))], true))
						rights = 2
					}
				}
				op = []any{"open", p, oflags, fdflags, rights, dfd}
			case k < 22:
				op = []any{"close", pickAnyFd()}
			case k < 30:
				to := pickAnyFd()
				if rng.Intn(3) == 0 {
					to = int64([]int{4, 5, 6, 7, 8, 9, 10, 63, 64, 65, 130}[rng.Intn(11)])
				}
				from := pickAnyFd()
				if rng.Intn(8) == 0 {
					to = from
				}
				op = []any{"renumber", from, to}
			case k < 40:
				lens := []int64{int64(rng.Intn(12))}
				if rng.Intn(3) == 0 {
					lens = append(lens, int64(rng.Intn(6)))
				}
				if rng.Intn(8) == 0 {
					lens = append([]int64{0}, lens...)
				}
				op = []any{"read", pickFd(), lens}
			case k < 52:
				ch := []string{data()}
				if rng.Intn(3) == 0 {
					ch = append(ch, data())
				}
				op = []any{"write", pickFd(), ch}
			case k < 57:
				off := int64(rng.Intn(24))
				if rng.Intn(12) == 0 {
					off = -1 - int64(rng.Intn(3))
				}
				lens := []int64{int64(rng.Intn(12))}
				if rng.Intn(3) == 0 {
					lens = append(lens, int64(1+rng.Intn(6)))
				}
				op = []any{"pread", pickFd(), lens, off}
			case k < 63:
				off := int64(rng.Intn(24))
				if rng.Intn(12) == 0 {
					off = -1 - int64(rng.Intn(3))
				}
				ch := []string{data()}
				if rng.Intn(3) == 0 {
					ch = append(ch, data())
				}
				op = []any{"pwrite", pickFd(), ch, off}
			case k < 69:
				wh := int64(rng.Intn(3))
				off := int64(rng.Intn(20))
				if wh != 0 || rng.Intn(6) == 0 {
					off -= int64(rng.Intn(14))
				}
				if rng.Intn(15) == 0 {
					wh = int64(3 + rng.Intn(3))
				}
				op = []any{"seek", pickFd(), off, wh}
			case k < 72:
				op = []any{"tell", pickFd()}
			case k < 76:
				sz := int64(rng.Intn(20))
				if rng.Intn(12) == 0 {
					sz = -1
				}
				op = []any{"setsize", pickFd(), sz}
			case k < 79:
				op = []any{"fstat", pickFd()}
			case k < 83:
				dfd := pickDirfd()
				p := fsPath(rng)
				if _, ok := names[dfd]; ok && dfd != 3 && rng.Intn(4) != 0 {
					p = pickRel(dfd)
				}
				op = []any{"mkdir", slash(decor(p, false)), dfd}
			case k < 86:
				dfd := pickDirfd()
				op = []any{"rmdir", pickPath(dfd, false), dfd}
			case k < 90:
				dfd := pickDirfd()
				op = []any{"unlink", pickPath(dfd, false), dfd}
			case k < 95:
				d1 := pickDirfd()
				d2 := d1
				if rng.Intn(10) < 3 {
					d2 = pickDirfd()
				}
				a, b := pickRel(d1), pickRel(d2)
				if rng.Intn(10) == 0 {
					b, d2 = a, d1
				}
				if rng.Intn(10) == 0 {
					b, d2 = a+"/"+fsNames[rng.Intn(6)], d1
				}
				a, b = slash(decor(a, false)), slash(decor(b, false))
				// Not generated: the same path spelled in two textually different ways with equal trailing-slash
				// flags (possible only through a directory descriptor opened as "dir/": "dir//x" vs "dir/x").
				// sysfs.rename short-cuts textually identical names only; the model identifies a name with its
				// component list and cannot tell the two spellings apart.
				fa, oka := full(d1, a)
				fb, okb := full(d2, b)
				if oka && okb && fa != fb && cl(fa) == cl(fb) && hasSlash(a) == hasSlash(b) {
					b, d2 = a, d1
				}
				op = []any{"rename", a, b, d1, d2}
			default:
				dfd := pickDirfd()
				op = []any{"stat", pickPath(dfd, true), dfd}
			}
			exec(op)
		}
		w.Close()
		cs.Tree = hostTree(dir)
		out.Emit(cs)
	}
}
