// Stream "fs": random WASI file-system call sequences on a real temp directory, through the real
// host functions (proxy guest), one fresh runtime + directory per case.
package main

import (
	"context"
	"encoding/hex"
	"fmt"
	"os"
	"path/filepath"
	"sort"
	"strings"

	c "github.com/tetratelabs/wazero/internal/zz_verif/common"
)

type FsCase struct {
	Stream string     `json:"stream"`
	Engine string     `json:"engine"`
	Ops    [][]any    `json:"ops"`
	Obs    [][]any    `json:"obs"`
	Tree   [][]string `json:"tree"` // final host tree: [path, "dir"] or [path, "file", hex content], sorted by path
}

var fsNames = []string{"a", "b", "c", "d", "e", "f"}

func fsPath(rng *c.Rng) string {
	n := 1
	switch rng.Intn(10) {
	case 0, 1, 2:
		n = 2
	case 3:
		n = 3
	}
	parts := make([]string, n)
	for i := range parts {
		// directories tend to be d/e/f, files a/b/c, but nothing enforces it
		if i < n-1 {
			parts[i] = fsNames[3+rng.Intn(3)]
			if rng.Intn(8) == 0 {
				parts[i] = fsNames[rng.Intn(6)]
			}
		} else {
			parts[i] = fsNames[rng.Intn(6)]
		}
	}
	return strings.Join(parts, "/")
}

func (w *Wasi) iovs(lens []int, data [][]byte) (uint64, uint64) {
	// iovec array at aIov, buffers packed from aBuf
	pos := uint32(aBuf)
	for i, l := range lens {
		w.mem.WriteUint32Le(aIov+uint32(i)*8, pos)
		w.mem.WriteUint32Le(aIov+uint32(i)*8+4, uint32(l))
		if data != nil {
			w.mem.Write(pos, data[i])
		} else {
			fill := make([]byte, l)
			for j := range fill {
				fill[j] = 0xEE
			}
			w.mem.Write(pos, fill)
		}
		pos += uint32(l)
	}
	return aIov, uint64(len(lens))
}

func (w *Wasi) gather(lens []int, n uint32) []byte {
	var out []byte
	pos := uint32(aBuf)
	for _, l := range lens {
		b, _ := w.mem.Read(pos, uint32(l))
		take := uint32(l)
		if take > n {
			take = n
		}
		out = append(out, b[:take]...)
		n -= take
		pos += uint32(l)
	}
	return out
}

func (w *Wasi) stat64() (ftype uint64, size uint64) {
	return w.u64(aStat + 16), w.u64(aStat + 32)
}

func fsExec(w *Wasi, op []any) []any {
	s := func(i int) string { return op[i].(string) }
	n := func(i int) int64 { return op[i].(int64) }
	ints := func(i int) []int {
		var r []int
		for _, x := range op[i].([]int64) {
			r = append(r, int(x))
		}
		return r
	}
	chunks := func(i int) (lens []int, data [][]byte) {
		for _, h := range op[i].([]string) {
			b, _ := hex.DecodeString(h)
			data = append(data, b)
			lens = append(lens, len(b))
		}
		return
	}
	res := func(e int64, trap string, more ...any) []any {
		if e < 0 {
			return []any{int64(-1), trap}
		}
		if e != 0 {
			return []any{e}
		}
		return append([]any{int64(0)}, more...)
	}
	dirfd := func() uint64 { // optional trailing dirfd (default: the pre-open, 3)
		if v, ok := op[len(op)-1].(int64); ok && (s(0) == "mkdir" || s(0) == "rmdir" || s(0) == "unlink" || s(0) == "stat" || s(0) == "rename" || (s(0) == "open" && len(op) > 5)) {
			return uint64(uint32(v))
		}
		return 3
	}
	switch s(0) {
	case "open":
		p, l := w.putPath(aPath, s(1))
		w.mem.WriteUint32Le(aRes, 0xdeadbeef)
		e, t := w.call("path_open", dirfd(), 0, p, l, uint64(n(2)), uint64(n(4)), uint64(n(4)), uint64(n(3)), aRes)
		return res(e, t, int64(int32(w.u32(aRes))))
	case "close":
		e, t := w.call("fd_close", uint64(uint32(n(1))))
		return res(e, t)
	case "renumber":
		e, t := w.call("fd_renumber", uint64(uint32(n(1))), uint64(uint32(n(2))))
		return res(e, t)
	case "read", "pread":
		lens := ints(2)
		iv, cnt := w.iovs(lens, nil)
		w.mem.WriteUint32Le(aRes, 0xdeadbeef)
		var e int64
		var t string
		if s(0) == "read" {
			e, t = w.call("fd_read", uint64(uint32(n(1))), iv, cnt, aRes)
		} else {
			e, t = w.call("fd_pread", uint64(uint32(n(1))), iv, cnt, uint64(n(3)), aRes)
		}
		nr := w.u32(aRes)
		return res(e, t, int64(nr), hex.EncodeToString(w.gather(lens, nr)))
	case "write", "pwrite":
		lens, data := chunks(2)
		iv, cnt := w.iovs(lens, data)
		w.mem.WriteUint32Le(aRes, 0xdeadbeef)
		var e int64
		var t string
		if s(0) == "write" {
			e, t = w.call("fd_write", uint64(uint32(n(1))), iv, cnt, aRes)
		} else {
			e, t = w.call("fd_pwrite", uint64(uint32(n(1))), iv, cnt, uint64(n(3)), aRes)
		}
		return res(e, t, int64(w.u32(aRes)))
	case "seek":
		w.mem.WriteUint64Le(aRes, 0xdeadbeefdeadbeef)
		e, t := w.call("fd_seek", uint64(uint32(n(1))), uint64(n(2)), uint64(uint32(n(3))), aRes)
		return res(e, t, int64(w.u64(aRes)))
	case "tell":
		w.mem.WriteUint64Le(aRes, 0xdeadbeefdeadbeef)
		e, t := w.call("fd_tell", uint64(uint32(n(1))), aRes)
		return res(e, t, int64(w.u64(aRes)))
	case "setsize":
		e, t := w.call("fd_filestat_set_size", uint64(uint32(n(1))), uint64(n(2)))
		return res(e, t)
	case "fstat":
		e, t := w.call("fd_filestat_get", uint64(uint32(n(1))), aStat)
		ft, sz := w.stat64()
		if ft == 3 {
			sz = 0 // directory sizes are a host detail
		}
		return res(e, t, int64(ft), int64(sz))
	case "mkdir":
		p, l := w.putPath(aPath, s(1))
		e, t := w.call("path_create_directory", dirfd(), p, l)
		return res(e, t)
	case "rmdir":
		p, l := w.putPath(aPath, s(1))
		e, t := w.call("path_remove_directory", dirfd(), p, l)
		return res(e, t)
	case "unlink":
		p, l := w.putPath(aPath, s(1))
		e, t := w.call("path_unlink_file", dirfd(), p, l)
		return res(e, t)
	case "rename":
		p, l := w.putPath(aPath, s(1))
		p2, l2 := w.putPath(aPath2, s(2))
		e, t := w.call("path_rename", dirfd(), p, l, dirfd(), p2, l2)
		return res(e, t)
	case "stat":
		p, l := w.putPath(aPath, s(1))
		e, t := w.call("path_filestat_get", dirfd(), 0, p, l, aStat)
		ft, sz := w.stat64()
		if ft == 3 {
			sz = 0
		}
		return res(e, t, int64(ft), int64(sz))
	}
	panic("unknown op " + s(0))
}

func hostTree(root string) [][]string {
	var out [][]string
	filepath.Walk(root, func(p string, info os.FileInfo, err error) error {
		if err != nil || p == root {
			return nil
		}
		rel, _ := filepath.Rel(root, p)
		if info.IsDir() {
			out = append(out, []string{rel, "dir"})
		} else {
			b, _ := os.ReadFile(p)
			out = append(out, []string{rel, "file", hex.EncodeToString(b)})
		}
		return nil
	})
	sort.Slice(out, func(i, j int) bool { return out[i][0] < out[j][0] })
	return out
}

func genFs(ctx context.Context, rng *c.Rng, out *c.Out, root string, n int, compilerEvery int) {
	for ci := 0; ci < n; ci++ {
		dir := filepath.Join(root, fmt.Sprintf("fs%d", ci))
		if err := os.Mkdir(dir, 0o755); err != nil {
			panic(err)
		}
		compiler := compilerEvery > 0 && ci%compilerEvery == compilerEvery-1
		w := newWasi(ctx, dir, compiler)
		cs := FsCase{Stream: "fs", Engine: "interp"}
		if compiler {
			cs.Engine = "compiler"
		}
		var fds []int64 // descriptors believed open (aims the generator only)
		var known []string // paths created so far
		// descriptors for content operations: never the stdio streams, which the model leaves out
		pickFd := func() int64 {
			switch r := rng.Intn(16); {
			case r < 13 && len(fds) > 0:
				return fds[rng.Intn(len(fds))]
			case r < 14:
				return int64(4 + rng.Intn(5))
			case r == 14:
				return []int64{3, -1, 9, 63, 64, 65, 100}[rng.Intn(7)]
			default:
				return int64(3 + rng.Intn(9))
			}
		}
		// descriptors for close/renumber: stdio and the pre-open included
		pickAnyFd := func() int64 {
			if rng.Intn(6) == 0 {
				return []int64{0, 1, 2, 3, -1, 700}[rng.Intn(6)]
			}
			return pickFd()
		}
		pickPath := func() string {
			if len(known) > 0 && rng.Intn(5) < 3 {
				p := known[rng.Intn(len(known))]
				if rng.Intn(5) == 0 {
					p = p + "/" + fsNames[rng.Intn(6)]
				}
				return p
			}
			return fsPath(rng)
		}
		pickDirfd := func() int64 {
			if rng.Intn(7) == 0 {
				return pickFd()
			}
			return 3
		}
		data := func() string {
			l := rng.Intn(9)
			if rng.Intn(6) == 0 {
				l = rng.Intn(30)
			}
			b := make([]byte, l)
			for i := range b {
				b[i] = byte(1 + rng.Intn(255))
			}
			return hex.EncodeToString(b)
		}
		nops := 8 + rng.Intn(30)
		style := rng.Intn(4) // 0: mixed, 1: content-heavy on few files, 2: directory-heavy, 3: descriptor-heavy
		// a little initial structure
		pre := [][]any{{"mkdir", "d"}, {"open", "a", int64(1), int64(0), int64(66)}}
		if rng.Bool() {
			pre = append(pre, []any{"mkdir", "e"}, []any{"open", "d/a", int64(1), int64(0), int64(66)})
		}
		drop := func(fd int64) {
			for i := 0; i < len(fds); i++ {
				if fds[i] == fd {
					fds = append(fds[:i], fds[i+1:]...)
					i--
				}
			}
		}
		exec := func(op []any) {
			ob := fsExec(w, op)
			cs.Ops = append(cs.Ops, op)
			cs.Obs = append(cs.Obs, ob)
			if ob[0].(int64) != 0 {
				return
			}
			switch op[0] {
			case "open":
				drop(ob[1].(int64))
				fds = append(fds, ob[1].(int64))
				if op[2].(int64)&1 != 0 {
					known = append(known, op[1].(string))
				}
			case "mkdir":
				known = append(known, op[1].(string))
			case "rename":
				known = append(known, op[2].(string))
			case "close":
				drop(op[1].(int64))
			case "renumber":
				if op[1].(int64) != op[2].(int64) {
					drop(op[1].(int64))
					drop(op[2].(int64))
					fds = append(fds, op[2].(int64))
				}
			}
		}
		for _, op := range pre {
			exec(op)
		}
		for j := 0; j < nops; j++ {
			k := rng.Intn(100)
			switch style {
			case 1:
				if k < 30 {
					k = 30 + rng.Intn(45) // content ops
				}
			case 2:
				if k >= 30 && k < 75 && rng.Bool() {
					k = 75 + rng.Intn(25)
				}
			case 3:
				if k >= 30 && rng.Bool() {
					k = rng.Intn(30)
				}
			}
			var op []any
			switch {
			case k < 14: // open
				oflags := int64([]int{0, 0, 1, 1, 1, 9, 8, 5, 2, 3, 13}[rng.Intn(11)])
				fdflags := int64(0)
				if rng.Intn(4) == 0 {
					fdflags = 1 // APPEND
				}
				rights := int64([]int{66, 66, 66, 2, 64, 0}[rng.Intn(6)])
				if oflags&2 != 0 && rng.Intn(4) != 0 {
					rights = 2
				}
				op = []any{"open", pickPath(), oflags, fdflags, rights, pickDirfd()}
			case k < 22:
				op = []any{"close", pickAnyFd()}
			case k < 30:
				to := pickAnyFd()
				if rng.Intn(3) == 0 {
					to = int64([]int{4, 5, 6, 7, 8, 9, 10, 63, 64, 65, 130}[rng.Intn(11)])
				}
				from := pickAnyFd()
				if rng.Intn(8) == 0 {
					to = from
				}
				op = []any{"renumber", from, to}
			case k < 40:
				lens := []int64{int64(rng.Intn(12))}
				if rng.Intn(3) == 0 {
					lens = append(lens, int64(rng.Intn(6)))
				}
				if rng.Intn(8) == 0 {
					lens = append([]int64{0}, lens...)
				}
				op = []any{"read", pickFd(), lens}
			case k < 52:
				ch := []string{data()}
				if rng.Intn(3) == 0 {
					ch = append(ch, data())
				}
				op = []any{"write", pickFd(), ch}
			case k < 57:
				off := int64(rng.Intn(24))
				if rng.Intn(12) == 0 {
					off = -1 - int64(rng.Intn(3))
				}
				lens := []int64{int64(rng.Intn(12))}
				if rng.Intn(3) == 0 {
					lens = append(lens, int64(1+rng.Intn(6)))
				}
				op = []any{"pread", pickFd(), lens, off}
			case k < 63:
				off := int64(rng.Intn(24))
				if rng.Intn(12) == 0 {
					off = -1 - int64(rng.Intn(3))
				}
				ch := []string{data()}
				if rng.Intn(3) == 0 {
					ch = append(ch, data())
				}
				op = []any{"pwrite", pickFd(), ch, off}
			case k < 69:
				wh := int64(rng.Intn(3))
				off := int64(rng.Intn(20))
				if wh != 0 || rng.Intn(6) == 0 {
					off -= int64(rng.Intn(14))
				}
				if rng.Intn(15) == 0 {
					wh = int64(3 + rng.Intn(3))
				}
				op = []any{"seek", pickFd(), off, wh}
			case k < 72:
				op = []any{"tell", pickFd()}
			case k < 76:
				sz := int64(rng.Intn(20))
				if rng.Intn(12) == 0 {
					sz = -1
				}
				op = []any{"setsize", pickFd(), sz}
			case k < 79:
				op = []any{"fstat", pickFd()}
			case k < 83:
				op = []any{"mkdir", fsPath(rng), pickDirfd()}
			case k < 86:
				op = []any{"rmdir", pickPath(), pickDirfd()}
			case k < 90:
				op = []any{"unlink", pickPath(), pickDirfd()}
			case k < 95:
				a, b := pickPath(), pickPath()
				if rng.Intn(10) == 0 {
					b = a
				}
				if rng.Intn(10) == 0 {
					b = a + "/" + fsNames[rng.Intn(6)]
				}
				op = []any{"rename", a, b, pickDirfd()}
			default:
				op = []any{"stat", pickPath(), pickDirfd()}
			}
			exec(op)
		}
		w.Close()
		cs.Tree = hostTree(dir)
		out.Emit(cs)
	}
}
