package descriptor

// VerifState exposes the bitmap words and the number of item slots to the C16 correspondence harness.
func VerifState[K ~int32, I any](t *Table[K, I]) ([]uint64, int) { return t.masks, len(t.items) }
