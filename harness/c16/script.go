// Script mode for the "fs" stream: every line of the script file is one JSON array of operations in the
// format of FsCase.Ops; each line is executed on a fresh runtime + directory and emitted as an FsCase.
// Used for experiments (what does the real code answer?) and for replaying fixed scenarios.
package main

import (
	"bufio"
	"context"
	"encoding/json"
	"fmt"
	"os"
	"path/filepath"

	c "github.com/tetratelabs/wazero/internal/zz_verif/common"
)

// fsDecodeOp turns decoded JSON (float64 / []any) into the types fsExec expects (int64, []int64, []string).
func fsDecodeOp(raw []any) []any {
	op := make([]any, len(raw))
	for i, v := range raw {
		switch x := v.(type) {
		case float64:
			op[i] = int64(x)
		case []any:
			if len(x) > 0 {
				if _, isStr := x[0].(string); isStr {
					ss := make([]string, len(x))
					for j, y := range x {
						ss[j] = y.(string)
					}
					op[i] = ss
					continue
				}
			}
			if len(raw) > 0 && (raw[0] == "write" || raw[0] == "pwrite") {
				op[i] = []string{}
				continue
			}
			ns := make([]int64, len(x))
			for j, y := range x {
				ns[j] = int64(y.(float64))
			}
			op[i] = ns
		default:
			op[i] = v
		}
	}
	return op
}

func runFsScript(ctx context.Context, out *c.Out, root, file string) {
	f, err := os.Open(file)
	if err != nil {
		panic(err)
	}
	defer f.Close()
	sc := bufio.NewScanner(f)
	sc.Buffer(make([]byte, 1<<20), 1<<24)
	ci := 0
	for sc.Scan() {
		line := sc.Bytes()
		if len(line) == 0 || line[0] != '[' {
			continue
		}
		var raw [][]any
		if err := json.Unmarshal(line, &raw); err != nil {
			panic(err)
		}
		dir := filepath.Join(root, fmt.Sprintf("script%d", ci))
		ci++
		if err := os.Mkdir(dir, 0o755); err != nil {
			panic(err)
		}
		w := newWasi(ctx, dir, false)
		cs := FsCase{Stream: "fs", Engine: "interp"}
		for _, r := range raw {
			op := fsDecodeOp(r)
			cs.Ops = append(cs.Ops, op)
			cs.Obs = append(cs.Obs, fsExec(w, op))
		}
		w.Close()
		cs.Tree = hostTree(dir)
		out.Emit(cs)
	}
}
