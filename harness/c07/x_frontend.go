// Overlay file (package frontend): walks the SSA held by the builder after LowerToSSA (and again after RunPasses)
// and projects it on control: which blocks call the checkModuleExitCode trampoline, calls, tail calls, branches.
package frontend

import (
	"github.com/tetratelabs/wazero/internal/engine/wazevo/ssa"
)

type VerifTok struct {
	Pc int     `json:"pc"`
	K  string  `json:"k"`
	T  []int64 `json:"t,omitempty"`
	F  int     `json:"f"`
}

type VerifFunc struct {
	Len  int        `json:"len"`
	Toks []VerifTok `json:"toks"`
}

// VerifDump lists the control tokens of the current function. Blocks are laid out in iteration order (allocation
// order before the passes, reverse post order = final layout after them); a token's Pc is its position in that
// layout and branch targets are the Pc of the first token of the target block.
func (c *Compiler) VerifDump(afterPasses bool) VerifFunc {
	b := c.ssaBuilder
	var blocks []ssa.BasicBlock
	if afterPasses {
		for blk := b.BlockIteratorReversePostOrderBegin(); blk != nil; blk = b.BlockIteratorReversePostOrderNext() {
			blocks = append(blocks, blk)
		}
	} else {
		for blk := b.BlockIteratorBegin(); blk != nil; blk = b.BlockIteratorNext() {
			blocks = append(blocks, blk)
		}
	}
	nTypes := ssa.SignatureID(len(c.m.TypeSection))
	type ptok struct {
		tok  VerifTok
		tgts []ssa.BasicBlockID
	}
	var toks []ptok
	start := map[ssa.BasicBlockID]int{}
	for _, blk := range blocks {
		start[blk.ID()] = len(toks)
		n0 := len(toks)
		for cur := blk.Root(); cur != nil; cur = cur.Next() {
			var t ptok
			switch cur.Opcode() {
			case ssa.OpcodeCall:
				ref, _, _ := cur.CallData()
				t.tok.K, t.tok.F = "call", int(ref)
			case ssa.OpcodeCallIndirect:
				_, sig, _, _ := cur.CallIndirectData()
				switch {
				case sig == c.checkModuleExitCodeSig.ID:
					t.tok.K = "chk"
				case sig < nTypes:
					t.tok.K = "calli" // call_indirect, or a call of an imported function
				default:
					continue // built-in trampolines (memory.grow, table.grow, ...): straight-line host helpers
				}
			case ssa.OpcodeTailCallReturnCall:
				ref, _, _ := cur.CallData()
				t.tok.K, t.tok.F = "tail", int(ref)
			case ssa.OpcodeTailCallReturnCallIndirect:
				t.tok.K = "taili"
			case ssa.OpcodeReturn:
				t.tok.K, t.tok.T = "br", []int64{-1}
			case ssa.OpcodeExitWithCode:
				t.tok.K = "exit"
			case ssa.OpcodeJump, ssa.OpcodeBrz, ssa.OpcodeBrnz:
				_, _, tgt := cur.BranchData()
				t.tok.K = "br"
				if cur.Opcode() != ssa.OpcodeJump {
					t.tok.K = "brc" // conditional: also falls through
				}
				t.tgts = []ssa.BasicBlockID{tgt}
			case ssa.OpcodeBrTable:
				_, tgts := cur.BrTableData()
				t.tok.K = "br"
				for _, v := range tgts.View() {
					t.tgts = append(t.tgts, ssa.BasicBlockID(v))
				}
			default:
				continue
			}
			toks = append(toks, t)
		}
		if len(toks) == n0 { // a block without a terminator cannot be executed; keep its label resolvable
			toks = append(toks, ptok{tok: VerifTok{K: "exit"}})
		}
	}
	vf := VerifFunc{Len: len(toks), Toks: make([]VerifTok, len(toks))}
	for i, t := range toks {
		t.tok.Pc = i
		for _, id := range t.tgts {
			if s, ok := start[id]; ok {
				t.tok.T = append(t.tok.T, int64(s))
			} else if id == b.ReturnBlock().ID() {
				t.tok.T = append(t.tok.T, -1) // jump to the return block = return from the function
			} else {
				t.tok.T = append(t.tok.T, -2) // branch to a block that is not laid out
			}
		}
		if t.tok.K == "brc" {
			t.tok.K = "br"
			t.tok.T = append(t.tok.T, int64(i+1))
		}
		vf.Toks[i] = t.tok
	}
	return vf
}
