// Overlay file (package wasm): drives the closed-word state machine of ModuleInstance (setExitCode CAS, the
// unpacking in FailIfClosed, IsClosed) on a bare instance, for comparison with coq/Engine/TermCheck.v.
package wasm

import (
	"errors"

	"github.com/tetratelabs/wazero/sys"
)

// VerifClosedWord applies the (exitCode, flagKind) pairs in order (flagKind 0 = resources closed, as CloseWithExitCode;
// 1 = resources not closed yet, as the context watcher) and returns, after each step, whether the CAS succeeded, the
// closed word, IsClosed and the exit code reported by FailIfClosed (-1 when it returns nil).
func VerifClosedWord(steps [][2]uint32) (out [][4]uint64) {
	m := &ModuleInstance{}
	for _, s := range steps {
		flag := exitCodeFlag(exitCodeFlagResourceClosed)
		if s[1] == 1 {
			flag = exitCodeFlagResourceNotClosed
		}
		var o [4]uint64
		if m.setExitCode(s[0], flag) {
			o[0] = 1
		}
		o[1] = m.Closed.Load()
		if m.IsClosed() {
			o[2] = 1
		}
		o[3] = ^uint64(0)
		if err := m.FailIfClosed(); err != nil {
			var ee *sys.ExitError
			if errors.As(err, &ee) {
				o[3] = uint64(ee.ExitCode())
			} else {
				o[3] = ^uint64(0) - 1
			}
		}
		out = append(out, o)
	}
	return
}

// VerifFlags: the packing constants.
func VerifFlags() (mask, closed, notClosed uint64) {
	return exitCodeFlagMask, exitCodeFlagResourceClosed, exitCodeFlagResourceNotClosed
}
