// Overlay file (package interpreter): the lowered operation list the interpreter executes, projected on control.
package interpreter

import (
	"math"

	"github.com/tetratelabs/wazero/internal/wasm"
)

// VerifTok is one control-relevant operation: K in chk call calli tail taili br brif brtable exit;
// T = branch targets as operation indices (-1 = return from the function); F = callee (module index space).
type VerifTok struct {
	Pc int     `json:"pc"`
	K  string  `json:"k"`
	T  []int64 `json:"t,omitempty"`
	F  int     `json:"f"`
}

type VerifFunc struct {
	Len  int        `json:"len"`
	Toks []VerifTok `json:"toks"`
}

func verifTarget(u uint64) int64 {
	if u == math.MaxUint64 {
		return -1
	}
	return int64(u)
}

// VerifBodies returns, for every local function of m, the body compiled by e (nil, false when e is not the
// interpreter or m was not compiled by it), and whether the bodies were compiled with ensureTermination.
func VerifBodies(e wasm.Engine, m *wasm.Module) (fs []VerifFunc, ensure bool, ok bool) {
	ie, isInterp := e.(*engine)
	if !isInterp {
		return nil, false, false
	}
	cfs, found := ie.getCompiledFunctions(m)
	if !found {
		return nil, false, false
	}
	ensure = true
	for i := range cfs {
		cf := &cfs[i]
		ensure = ensure && cf.ensureTermination
		vf := VerifFunc{Len: len(cf.body), Toks: []VerifTok{}}
		for pc := range cf.body {
			op := &cf.body[pc]
			t := VerifTok{Pc: pc}
			switch op.Kind {
			case operationKindBuiltinFunctionCheckExitCode:
				t.K = "chk"
			case operationKindUnreachable:
				t.K = "exit"
			case operationKindBr:
				t.K, t.T = "br", []int64{verifTarget(op.U1)}
			case operationKindBrIf:
				t.K, t.T = "br", []int64{verifTarget(op.U1), verifTarget(op.U2)}
			case operationKindBrTable:
				t.K = "br"
				for j := 0; j < len(op.Us); j += 2 {
					t.T = append(t.T, verifTarget(op.Us[j]))
				}
			case operationKindCall:
				t.K, t.F = "call", int(op.U1)
			case operationKindCallIndirect:
				t.K = "calli"
			case operationKindTailCallReturnCall:
				t.K, t.F = "tail", int(op.U1)
			case operationKindTailCallReturnCallIndirect:
				// falls back to call + jump to Us[1] when the callee lives in another module
				t.K, t.T = "taili", []int64{verifTarget(op.Us[1])}
			default:
				continue
			}
			vf.Toks = append(vf.Toks, t)
		}
		fs = append(fs, vf)
	}
	return fs, ensure, true
}
