// Loops in an IMPORTED module (mode imported): A.run -> B.f_N -> .. -> B.f_0, where f_0 never terminates, N = number
// of call levels below the import boundary. The call is made on A, so the watcher goroutine (and a close from another
// goroutine) closes A; the exit-code checks that execute inside B must observe THAT (coq/Engine/Watcher.v (iii)).
// Kinds: direct (call), indirect (call_indirect for every hop, the import boundary included), tail (f_0 is a tail-call
// cycle instead of a loop). Cases run concurrently in a small worker pool; a call that does not return within the bound
// is reported as a hang and then stopped by closing both modules (if that does not stop it either, the goroutine is left
// behind: the process exits at the end of the batch, GC is off).
package main

import (
	"context"
	"fmt"
	"runtime/debug"
	"sync"
	"time"

	"github.com/tetratelabs/wazero"
	"github.com/tetratelabs/wazero/api"
	"github.com/tetratelabs/wazero/experimental"
	c "github.com/tetratelabs/wazero/internal/zz_verif/common"
	"github.com/tetratelabs/wazero/sys"
)

type IShape struct {
	Name  string
	Depth int
	Kind  string // direct | indirect | tail
}

func importedShapes() []IShape {
	var o []IShape
	for d := 0; d <= 2; d++ {
		o = append(o, IShape{fmt.Sprintf("imported_loop_depth_%d", d), d, "direct"})
	}
	for d := 0; d <= 2; d++ {
		o = append(o, IShape{fmt.Sprintf("imported_loop_indirect_depth_%d", d), d, "indirect"})
	}
	for d := 0; d <= 2; d++ {
		o = append(o, IShape{fmt.Sprintf("imported_tail_cycle_depth_%d", d), d, "tail"})
	}
	return o
}

// B imports env.h0 (function index 0: "the innermost function has been entered") and defines g_0 .. g_depth at function
// indices 1 .. depth+1, exported as f<index>; A imports B.f<depth+1> (index 0) and defines run (index 1, export f1).
func importedProgs(sh IShape) (a, b *Prog) {
	F := func(is ...I) Func { return Func{Body: is} }
	b = &Prog{NImp: 1}
	if sh.Kind == "tail" {
		// g_0 = entered(); return_call t   with t = return_call t (appended last, so that g_i keeps index i+1)
		b.Funcs = append(b.Funcs, F(lget(0), call(0), lget(0), rcall(sh.Depth+2)))
	} else {
		b.Funcs = append(b.Funcs, F(lget(0), call(0), loop(br(0))))
	}
	for i := 1; i <= sh.Depth; i++ {
		if sh.Kind == "indirect" {
			b.Funcs = append(b.Funcs, F(lget(0), konst(int32(i)), calli())) // table slot i = function index i = g_(i-1)
		} else {
			b.Funcs = append(b.Funcs, F(lget(0), call(i)))
		}
	}
	if sh.Kind == "tail" {
		b.Funcs = append(b.Funcs, F(lget(0), rcall(sh.Depth+2)))
	}
	a = &Prog{NImp: 1, Imports: []string{fmt.Sprintf("B.f%d", sh.Depth+1)}}
	if sh.Kind == "indirect" {
		a.Funcs = []Func{F(lget(0), konst(0), calli())}
	} else {
		a.Funcs = []Func{F(lget(0), call(0))}
	}
	return
}

type icase struct {
	sh    IShape
	cause string
}

func importedCases(quick bool) []icase {
	var cs []icase
	for _, sh := range importedShapes() {
		for _, cause := range []string{"cancel", "deadline", "close"} {
			if quick && cause != "cancel" && !(sh.Kind == "direct" && sh.Depth != 1) {
				continue
			}
			cs = append(cs, icase{sh, cause})
		}
	}
	return cs
}

type IRes struct {
	Idx       int     `json:"idx"`
	Engine    string  `json:"engine"`
	Shape     string  `json:"shape"`
	Family    string  `json:"family"`
	Depth     int     `json:"depth"`
	Kind      string  `json:"kind"`
	Cause     string  `json:"cause"`
	Arrival   string  `json:"arrival"`
	Want      uint32  `json:"want"`
	Entered   bool    `json:"entered"` // the innermost function of B was running when the cause was delivered
	Returned  bool    `json:"returned"`
	Class     string  `json:"class"`
	Closed    bool    `json:"closed"`       // A, the module the call was made on
	ClosedB   bool    `json:"closed_other"` // B, the imported module
	LatencyMs float64 `json:"latency_ms"`
	BoundMs   int     `json:"bound_ms"`
	Cleanup   string  `json:"cleanup,omitempty"` // after a hang: what closing A and B with code 99 did
	Setup     string  `json:"setup,omitempty"`
	WasmA     string  `json:"wasm,omitempty"`
	WasmB     string  `json:"wasm_imported,omitempty"`
	Schedule  string  `json:"schedule"`
}

func runImported(engine string, quick bool, only, par int, bound time.Duration, out *c.Out) {
	debug.SetGCPercent(-1)
	cs := importedCases(quick)
	var mu sync.Mutex
	var wg sync.WaitGroup
	sem := make(chan struct{}, par)
	for idx := range cs {
		if only >= 0 && idx != only {
			continue
		}
		wg.Add(1)
		sem <- struct{}{}
		go func(idx int) {
			defer wg.Done()
			res := runImportedOne(engine, idx, cs[idx], bound)
			mu.Lock()
			out.Emit(res)
			out.Flush()
			mu.Unlock()
			<-sem
		}(idx)
	}
	wg.Wait()
}

func runImportedOne(engine string, idx int, ic icase, bound time.Duration) (res IRes) {
	sh := ic.sh
	res = IRes{Idx: idx, Engine: engine, Shape: sh.Name, Family: "imported_loop", Depth: sh.Depth, Kind: sh.Kind, Cause: ic.cause, Arrival: "during",
		BoundMs: int(bound / time.Millisecond)}
	switch ic.cause {
	case "cancel":
		res.Want = sys.ExitCodeContextCanceled
	case "deadline":
		res.Want = sys.ExitCodeDeadlineExceeded
	default:
		res.Want = closeCode
	}
	res.Schedule = fmt.Sprintf("instantiate env (h0 = signal), B (case.wasm_imported, name \"B\": f%d -> .. -> f1, f1 never terminates) and A (case.wasm: f1 calls the import B.f%d); "+
		"call A.f1(0) with close-on-context-done; once B.f1 runs: %s", sh.Depth+1, sh.Depth+1,
		map[string]string{"cancel": "cancel the context of the call", "deadline": "the deadline of the call's context passes", "close": "A.CloseWithExitCode(7) from another goroutine"}[ic.cause])
	bg := context.Background()
	var rc wazero.RuntimeConfig
	if engine == "compiler" {
		rc = wazero.NewRuntimeConfigCompiler()
	} else {
		rc = wazero.NewRuntimeConfigInterpreter()
	}
	rc = rc.WithCloseOnContextDone(true).WithCoreFeatures(api.CoreFeaturesV2 | experimental.CoreFeaturesTailCall)
	r := wazero.NewRuntimeWithConfig(bg, rc)
	entered := make(chan struct{}, 1)
	i32 := []api.ValueType{api.ValueTypeI32}
	_, err := r.NewHostModuleBuilder("env").
		NewFunctionBuilder().WithGoModuleFunction(api.GoModuleFunc(func(context.Context, api.Module, []uint64) {
		select {
		case entered <- struct{}{}:
		default:
		}
	}), i32, nil).Export("h0").Instantiate(bg)
	if err != nil {
		res.Setup = "env: " + err.Error()
		return
	}
	pa, pb := importedProgs(sh)
	binA, binB := pa.Encode(), pb.Encode()
	res.WasmA, res.WasmB = fmt.Sprintf("%x", binA), fmt.Sprintf("%x", binB)
	modB, err := r.InstantiateWithConfig(bg, binB, wazero.NewModuleConfig().WithName("B"))
	if err != nil {
		res.Setup = "instantiate B: " + err.Error()
		return
	}
	modA, err := r.InstantiateWithConfig(bg, binA, wazero.NewModuleConfig().WithName("A"))
	if err != nil {
		res.Setup = "instantiate A: " + err.Error()
		return
	}
	ctx, cancel := context.WithCancel(bg)
	if ic.cause == "deadline" {
		ctx, cancel = context.WithTimeout(bg, 60*time.Millisecond)
	}
	defer cancel()
	done := make(chan error, 1)
	go func() {
		defer func() {
			if e := recover(); e != nil {
				done <- fmt.Errorf("PANIC escaped: %v", e)
			}
		}()
		_, err := modA.ExportedFunction("f1").Call(ctx, 0)
		done <- err
	}()
	select {
	case <-entered:
		res.Entered = true
		time.Sleep(time.Millisecond)
	case <-ctx.Done(): // the deadline may pass before B.f1 is reached on a loaded machine: the call is in flight all the same
	case <-time.After(bound):
		res.Setup = "the innermost function was not reached"
	}
	switch ic.cause {
	case "cancel":
		cancel()
	case "deadline":
		<-ctx.Done()
	case "close":
		_ = modA.CloseWithExitCode(bg, closeCode)
	}
	causeAt := time.Now()
	select {
	case err = <-done:
		res.Returned = true
		if d := time.Since(causeAt); d > 0 {
			res.LatencyMs = float64(d.Microseconds()) / 1000
		}
		res.Class = c.TrapClass(err)
		if err == nil {
			res.Class = "nil"
		}
		res.Closed, res.ClosedB = modA.IsClosed(), modB.IsClosed()
		_ = r.Close(bg)
	case <-time.After(bound):
		res.Class = "hang"
		res.Closed, res.ClosedB = modA.IsClosed(), modB.IsClosed()
		_ = modA.CloseWithExitCode(bg, 99)
		_ = modB.CloseWithExitCode(bg, 99)
		select {
		case err = <-done:
			res.Cleanup = "returned " + c.TrapClass(err) + " after A and B were closed with code 99"
		case <-time.After(3 * time.Second):
			res.Cleanup = "still running 3 s after A and B were closed with code 99"
		}
	}
	return
}
