// Overlay file (package wazero), mapped to /repo/zz_verif_c07.go by `go build -overlay`; /repo is not changed.
// Gives the C07 harness the internal module and the engine behind a CompiledModule obtained through the public API,
// so that the structural tie looks at what Runtime.CompileModule really produced for the given RuntimeConfig.
package wazero

import "github.com/tetratelabs/wazero/internal/wasm"

func VerifInternals(cm CompiledModule) (*wasm.Module, wasm.Engine) {
	c := cm.(*compiledModule)
	return c.module, c.compiledEngine
}
