// The structured control AST of coq/Engine/TermCheck.v on the Go side: every node carries its binary
// encoding and its Coq term. All functions (local and imported) have type 0 = [i32] -> [] and all blocks
// have the empty block type, so control transfers need no operands beyond what `raw` nodes push.
package main

import (
	"fmt"
	"strings"

	c "github.com/tetratelabs/wazero/internal/zz_verif/common"
)

type I struct {
	K       string // other raw block loop if br brif brtable call calli rcall rcalli ret
	B, E    []I
	HasElse bool
	L       int
	Ls      []int
	F       int
	Raw     []byte
}

type Func struct {
	Locals int // extra i32 locals
	Body   []I
}

type Prog struct {
	NImp    int      // imported functions env.h0 .. (all of type 0)
	Imports []string // optional "module.name" per import (default env.h<i>): imports from another wasm module
	Funcs   []Func
}

func raw(b ...byte) I            { return I{K: "raw", Raw: b} }
func lget(i int) I               { return I{K: "raw", Raw: c.LocalGet(uint32(i))} }
func lset(i int) I               { return I{K: "raw", Raw: c.LocalSet(uint32(i))} }
func ltee(i int) I               { return I{K: "raw", Raw: c.LocalTee(uint32(i))} }
func konst(v int32) I            { return I{K: "raw", Raw: c.I32Const(v)} }
func block(b ...I) I             { return I{K: "block", B: b} }
func loop(b ...I) I              { return I{K: "loop", B: b} }
func ifThen(t ...I) I            { return I{K: "if", B: t} }
func ifElse(t []I, e []I) I      { return I{K: "if", B: t, E: e, HasElse: true} }
func br(l int) I                 { return I{K: "br", L: l} }
func brif(l int) I               { return I{K: "brif", L: l} }
func brtable(d int, ls ...int) I { return I{K: "brtable", Ls: ls, L: d} }
func call(f int) I               { return I{K: "call", F: f} }
func calli() I                   { return I{K: "calli"} }
func rcall(f int) I              { return I{K: "rcall", F: f} }
func rcalli() I                  { return I{K: "rcalli"} }
func ret() I                     { return I{K: "ret"} }

var (
	eqz = raw(0x45)
	sub = raw(0x6b)
	add = raw(0x6a)
)

func seqBin(is []I) []byte {
	var o []byte
	for _, i := range is {
		o = append(o, i.Bin()...)
	}
	return o
}

func (i I) Bin() []byte {
	switch i.K {
	case "other":
		return c.B(0x01)
	case "raw":
		return i.Raw
	case "block":
		return c.Cat(c.B(0x02, 0x40), seqBin(i.B), c.B(0x0b))
	case "loop":
		return c.Cat(c.B(0x03, 0x40), seqBin(i.B), c.B(0x0b))
	case "if":
		if i.HasElse {
			return c.Cat(c.B(0x04, 0x40), seqBin(i.B), c.B(0x05), seqBin(i.E), c.B(0x0b))
		}
		return c.Cat(c.B(0x04, 0x40), seqBin(i.B), c.B(0x0b))
	case "br":
		return c.Cat(c.B(0x0c), c.U32(uint32(i.L)))
	case "brif":
		return c.Cat(c.B(0x0d), c.U32(uint32(i.L)))
	case "brtable":
		o := c.Cat(c.B(0x0e), c.U32(uint32(len(i.Ls))))
		for _, l := range i.Ls {
			o = append(o, c.U32(uint32(l))...)
		}
		return append(o, c.U32(uint32(i.L))...)
	case "call":
		return c.Cat(c.B(0x10), c.U32(uint32(i.F)))
	case "calli":
		return c.B(0x11, 0, 0)
	case "rcall":
		return c.Cat(c.B(0x12), c.U32(uint32(i.F)))
	case "rcalli":
		return c.B(0x13, 0, 0)
	case "ret":
		return c.B(0x0f)
	}
	panic("kind " + i.K)
}

func seqCoq(is []I) string {
	ss := make([]string, len(is))
	for k, i := range is {
		ss[k] = i.Coq()
	}
	return "[" + strings.Join(ss, "; ") + "]"
}

func nats(xs []int) string {
	ss := make([]string, len(xs))
	for k, x := range xs {
		ss[k] = fmt.Sprint(x)
	}
	return "[" + strings.Join(ss, "; ") + "]"
}

// Coq renders the node as a term of TermCheck.instr (source programs carry no checks: flags false).
func (i I) Coq() string {
	switch i.K {
	case "other", "raw":
		return "IOther"
	case "block":
		return "IBlock " + seqCoq(i.B)
	case "loop":
		return "ILoop false " + seqCoq(i.B)
	case "if":
		return "IIf " + seqCoq(i.B) + " " + seqCoq(i.E)
	case "br":
		return fmt.Sprintf("IBr %d", i.L)
	case "brif":
		return fmt.Sprintf("IBrIf %d", i.L)
	case "brtable":
		return fmt.Sprintf("IBrTable %s %d", nats(i.Ls), i.L)
	case "call":
		return fmt.Sprintf("ICall %d", i.F)
	case "calli":
		return "ICallIndirect"
	case "rcall":
		return fmt.Sprintf("IReturnCall false %d", i.F)
	case "rcalli":
		return "IReturnCallIndirect false"
	case "ret":
		return "IReturn"
	}
	panic("kind " + i.K)
}

func (p *Prog) Coq() string {
	fs := make([]string, len(p.Funcs))
	for k, f := range p.Funcs {
		fs[k] = seqCoq(f.Body)
	}
	return fmt.Sprintf("{| p_nimp := %d; p_funcs := [%s] |}", p.NImp, strings.Join(fs, "; "))
}

// Encode: type 0 = [i32]->[]; imports env.h<i>; a funcref table holding every function (imports included);
// every local function exported as f<index> (module index space).
func (p *Prog) Encode() []byte {
	m := &c.Mod{}
	m.Types = [][]byte{c.FT(c.B(c.I32), nil)}
	for i := 0; i < p.NImp; i++ {
		mod, name := "env", fmt.Sprintf("h%d", i)
		if i < len(p.Imports) {
			if k := strings.IndexByte(p.Imports[i], '.'); k > 0 {
				mod, name = p.Imports[i][:k], p.Imports[i][k+1:]
			}
		}
		m.Imports = append(m.Imports, c.ImportFunc(mod, name, 0))
	}
	n := p.NImp + len(p.Funcs)
	for k, f := range p.Funcs {
		m.Funcs = append(m.Funcs, c.U32(0))
		var locals []byte
		for j := 0; j < f.Locals; j++ {
			locals = append(locals, c.I32)
		}
		m.Codes = append(m.Codes, c.Code(locals, seqBin(f.Body)))
		m.Exports = append(m.Exports, c.Export(fmt.Sprintf("f%d", p.NImp+k), 0, uint32(p.NImp+k)))
	}
	m.Tables = [][]byte{c.Cat(c.B(c.FuncRef, 0), c.U32(uint32(n)))}
	el := c.Cat(c.U32(0), c.I32Const(0), c.B(0x0b), c.U32(uint32(n)))
	for i := 0; i < n; i++ {
		el = append(el, c.U32(uint32(i))...)
	}
	m.Elems = [][]byte{el}
	return m.Bytes()
}

// ---- random structured programs (compiled, never run): unconditional transfers only end a then-arm, so that
// every instruction is statically reachable and both lowerings keep all of it.
type agen struct {
	r    *c.Rng
	nimp int
	nfn  int
}

func (g *agen) callee() int { return g.r.Intn(g.nimp + g.nfn) }

func (g *agen) transfer(depth int) []I {
	switch g.r.Intn(7) {
	case 0:
		return []I{br(g.r.Intn(depth + 1))}
	case 1:
		ls := make([]int, g.r.Intn(4))
		for k := range ls {
			ls[k] = g.r.Intn(depth + 1)
		}
		return []I{lget(0), brtable(g.r.Intn(depth+1), ls...)}
	case 2:
		return []I{ret()}
	case 3, 4:
		return []I{lget(0), rcall(g.callee())}
	default:
		return []I{lget(0), lget(0), rcalli()}
	}
}

// depth = number of enclosing labels excluding the function label (br depth+1 labels are valid: 0..depth)
func (g *agen) seq(depth, budget int) []I {
	var o []I
	for n := 1 + g.r.Intn(3); n > 0; n-- {
		switch k := g.r.Intn(12); {
		case k < 2:
			o = append(o, I{K: "other"})
		case k == 2 && budget > 0:
			o = append(o, block(g.seq(depth+1, budget-1)...))
		case k < 5 && budget > 0:
			o = append(o, loop(g.seq(depth+1, budget-1)...))
		case k == 5 && budget > 0:
			t := g.seq(depth+1, budget-1)
			if g.r.Bool() {
				t = append(t, g.transfer(depth+1)...)
			}
			if g.r.Bool() {
				o = append(o, lget(0), ifElse(t, g.seq(depth+1, budget-1)))
			} else {
				o = append(o, lget(0), ifThen(t...))
			}
		case k == 6:
			o = append(o, lget(0), brif(g.r.Intn(depth+1)))
		case k < 9:
			o = append(o, lget(0), call(g.callee()))
		case k == 9:
			o = append(o, lget(0), lget(0), calli())
		default:
			o = append(o, lget(0), ifThen(g.transfer(depth+1)...))
		}
	}
	return o
}

func genProg(r *c.Rng) *Prog {
	g := &agen{r: r, nimp: r.Intn(3), nfn: 1 + r.Intn(4)}
	p := &Prog{NImp: g.nimp}
	for i := 0; i < g.nfn; i++ {
		body := g.seq(0, 2+r.Intn(2))
		if r.Intn(3) == 0 {
			body = append(body, g.transfer(0)...)
		}
		p.Funcs = append(p.Funcs, Func{Body: body})
	}
	return p
}
