// C07 harness. Modes:
//
//	-mode struct  : compile programs through the public API with close-on-context-done and dump, from inside the engine
//	                packages, where the exit-code checks sit: the interpreter's lowered operation lists and the compiler's
//	                SSA (after the frontend and after the SSA passes). One JSON line per program.
//	-mode behave  : cycle shapes x causes x arrival moments on one engine (see behave.go).
//	-mode word    : the closed-word state machine of a real module instance under sequences of causes.
//	-mode hostrec : host <-> guest recursion shapes x causes x arrival moments on one engine (see hostrec.go).
//	-mode probe   : the call-entry probe on both engines (see hostrec.go).
//	-mode siblings: concurrent calls on one instance / two instances x context relation x cause (see siblings.go).
//	-mode imported: loops in an imported module N call levels below the import boundary (see imported.go).
package main

import (
	"context"
	"encoding/hex"
	"flag"
	"fmt"
	"strings"
	"time"

	"github.com/tetratelabs/wazero"
	"github.com/tetratelabs/wazero/api"
	"github.com/tetratelabs/wazero/experimental"
	"github.com/tetratelabs/wazero/internal/engine/interpreter"
	"github.com/tetratelabs/wazero/internal/engine/wazevo"
	"github.com/tetratelabs/wazero/internal/wasm"
	c "github.com/tetratelabs/wazero/internal/zz_verif/common"
)

type SCase struct {
	ID     int    `json:"id"`
	Src    string `json:"src"` // ast | shape:<name> | gen
	NImp   int    `json:"nimp"`
	NFuncs int    `json:"nfuncs"`
	Ast    string `json:"ast,omitempty"` // TermCheck.prog term (absent for gen)
	Wasm   string `json:"wasm"`
	Ensure bool   `json:"ensure"` // close-on-context-done requested through the RuntimeConfig
	// what each engine reports
	InterpEnsure bool        `json:"interp_ensure"`
	CompEnsure   bool        `json:"comp_ensure"`
	Interp       interface{} `json:"interp"`
	CompPre      interface{} `json:"comp_pre"`
	CompPost     interface{} `json:"comp_post"`
	Err          string      `json:"err,omitempty"`
}

const features = api.CoreFeaturesV2 | experimental.CoreFeaturesTailCall

func dump(sc *SCase, bin []byte, ensure bool) {
	defer func() {
		if e := recover(); e != nil {
			sc.Err = fmt.Sprint("PANIC: ", e)
		}
	}()
	ctx := context.Background()
	sc.Wasm, sc.Ensure = hex.EncodeToString(bin), ensure
	{
		r := wazero.NewRuntimeWithConfig(ctx, wazero.NewRuntimeConfigInterpreter().WithCoreFeatures(features).WithCloseOnContextDone(ensure))
		defer r.Close(ctx)
		cm, err := r.CompileModule(ctx, bin)
		if err != nil {
			sc.Err = "interpreter compile: " + err.Error()
			return
		}
		m, e := wazero.VerifInternals(cm)
		fs, ens, ok := interpreter.VerifBodies(e, m)
		if !ok {
			sc.Err = "interpreter: compiled functions not found"
			return
		}
		sc.Interp, sc.InterpEnsure = fs, ens
		sc.NImp, sc.NFuncs = int(m.ImportFunctionCount), len(m.FunctionSection)
	}
	{
		r := wazero.NewRuntimeWithConfig(ctx, wazero.NewRuntimeConfigCompiler().WithCoreFeatures(features).WithCloseOnContextDone(ensure))
		defer r.Close(ctx)
		cm, err := r.CompileModule(ctx, bin)
		if err != nil {
			sc.Err = "compiler compile: " + err.Error()
			return
		}
		m, e := wazero.VerifInternals(cm)
		pre, post, ens, ok := wazevo.VerifSSA(e, m)
		if !ok {
			sc.Err = "compiler: compiled module not found"
			return
		}
		sc.CompPre, sc.CompPost, sc.CompEnsure = pre, post, ens
	}
}

func runStruct(seed uint64, n int, out *c.Out) {
	rng := c.NewRng(seed)
	id := 0
	emit := func(src, ast string, bin []byte, ensure bool) {
		sc := SCase{ID: id, Src: src, Ast: ast}
		id++
		dump(&sc, bin, ensure)
		out.Emit(sc)
	}
	for _, sh := range shapes() {
		emit("shape:"+sh.Name, sh.P.Coq(), sh.P.Encode(), true)
	}
	for _, sh := range hostShapes() {
		emit("hshape:"+sh.Name, sh.P.Coq(), sh.P.Encode(), true)
	}
	// the same source without close-on-context-done: no checks may appear (the flag is what inserts them)
	emit("shape:simple_loop/off", "", shapes()[0].P.Encode(), false)
	for i := 0; i < n; i++ {
		p := genProg(rng)
		emit("ast", p.Coq(), p.Encode(), true)
	}
	for i := 0; i < n/2; i++ {
		g := &c.Gen{R: rng, OOBRate: 2, TrapRate: 4}
		m := g.Program(2 + rng.Intn(4))
		emit("gen", "", m.Encode(), true)
	}
}

// ---- closed word

type WCase struct {
	ID    int        `json:"id"`
	Kind  string     `json:"kind"`  // api | raw
	Steps [][2]int64 `json:"steps"` // api: (cause, code) cause 0 cancel-watcher 1 deadline-watcher 2 cancel-at-entry 3 deadline-at-entry 4 close(code); raw: (code, flagKind)
	Obs   [][]int64  `json:"obs"`   // after each step: word_lo32 (flags), word_hi32 (exit code), closed, FailIfClosed code (-1 nil)
	Flags []uint64   `json:"flags,omitempty"`
	Err   string     `json:"err,omitempty"`
}

func obsOf(mi *wasm.ModuleInstance) []int64 {
	w := mi.Closed.Load()
	o := []int64{int64(w & 0xffffffff), int64(w >> 32), 0, -1}
	if mi.IsClosed() {
		o[2] = 1
	}
	o[3] = exitOf(mi.FailIfClosed())
	return o
}

func exitOf(err error) int64 {
	if err == nil {
		return -1
	}
	if s := c.TrapClass(err); len(s) > 5 && s[:5] == "exit:" {
		var v int64
		fmt.Sscan(s[5:], &v)
		return v
	}
	return -2
}

func runWord(seed uint64, n int, out *c.Out) {
	rng := c.NewRng(seed)
	bg := context.Background()
	r := wazero.NewRuntimeWithConfig(bg, wazero.NewRuntimeConfigInterpreter())
	defer r.Close(bg)
	empty := (&c.Mod{}).Bytes()
	codes := []uint64{0, 1, 2, 7, 255, 256, 0x7fffffff, 0x80000000, 0xeffffffe, 0xefffffff, 0xf0000000, 0xfffffffe, 0xffffffff}
	mask, fc, fnc := wasm.VerifFlags()
	for i := 0; i < n; i++ {
		wc := WCase{ID: i, Kind: "api", Flags: []uint64{mask, fc, fnc}}
		mod, err := r.InstantiateWithConfig(bg, empty, wazero.NewModuleConfig().WithName(fmt.Sprintf("w%d", i)))
		if err != nil {
			wc.Err = err.Error()
			out.Emit(wc)
			continue
		}
		mi := mod.(*wasm.ModuleInstance)
		for k := 1 + rng.Intn(4); k > 0; k-- {
			cause := int64(rng.Intn(5))
			code := int64(rng.Pick(codes))
			switch cause {
			case 0, 1:
				ctx, cancel := context.WithCancel(bg)
				if cause == 1 {
					ctx, cancel = context.WithTimeout(bg, time.Millisecond)
				}
				done := mi.CloseModuleOnCanceledOrTimeout(ctx)
				if cause == 0 {
					cancel()
				}
				<-ctx.Done()
				for t0 := time.Now(); mi.Closed.Load() == 0 && time.Since(t0) < 5*time.Second; {
					time.Sleep(50 * time.Microsecond)
				}
				time.Sleep(200 * time.Microsecond)
				done()
				cancel()
			case 2, 3:
				ctx, cancel := context.WithCancel(bg)
				if cause == 3 {
					ctx, cancel = context.WithDeadline(bg, time.Now().Add(-time.Second))
				}
				cancel()
				<-ctx.Done()
				mi.CloseWithCtxErr(ctx)
			case 4:
				_ = mi.CloseWithExitCode(bg, uint32(code))
			}
			wc.Steps = append(wc.Steps, [2]int64{cause, code})
			wc.Obs = append(wc.Obs, obsOf(mi))
		}
		out.Emit(wc)
	}
	for i := 0; i < n; i++ {
		wc := WCase{ID: n + i, Kind: "raw"}
		var steps [][2]uint32
		for k := 1 + rng.Intn(3); k > 0; k-- {
			steps = append(steps, [2]uint32{uint32(rng.Pick(codes)), uint32(rng.Intn(2))})
		}
		for j, o := range wasm.VerifClosedWord(steps) {
			wc.Steps = append(wc.Steps, [2]int64{int64(steps[j][0]), int64(steps[j][1])})
			fail := int64(o[3])
			if o[3] == ^uint64(0) {
				fail = -1
			}
			wc.Obs = append(wc.Obs, []int64{int64(o[1] & 0xffffffff), int64(o[1] >> 32), int64(o[2]), fail, int64(o[0])})
		}
		out.Emit(wc)
	}
}

func main() {
	mode := flag.String("mode", "struct", "")
	seed := flag.Uint64("seed", 1, "")
	n := flag.Int("n", 40, "")
	engine := flag.String("engine", "interp", "")
	from := flag.Int("from", 0, "")
	only := flag.Int("only", -1, "")
	boundMs := flag.Int("bound", 4000, "")
	list := flag.Bool("list", false, "behave: print the case list only")
	delayMs := flag.Int("delay", 15, "behave: milliseconds between the start of the call and the cause")
	skip := flag.String("skip", "", "behave: comma-separated shapes to leave out (already known to hang)")
	par := flag.Int("par", 4, "siblings / imported: cases run concurrently")
	quick := flag.Bool("quick", false, "behave: shapes known to hit the watchdog run one combination only")
	flag.Parse()
	out := c.NewOut()
	defer out.Flush()
	switch *mode {
	case "struct":
		runStruct(*seed, *n, out)
	case "word":
		runWord(*seed, *n, out)
	case "probe":
		runProbe(out)
	case "siblings":
		if *list {
			for i, sc := range sibCases(*quick) {
				out.Emit(map[string]any{"idx": i, "shape": "siblings_" + sc.sh.Name, "ctx": sc.cx.Name, "topology": sc.topo, "cause": sc.cause, "spin": sc.spin})
			}
			return
		}
		runSiblings(*engine, *quick, *only, *par, time.Duration(*boundMs)*time.Millisecond, out)
	case "imported":
		if *list {
			for i, ic := range importedCases(*quick) {
				out.Emit(map[string]any{"idx": i, "shape": ic.sh.Name, "cause": ic.cause})
			}
			return
		}
		runImported(*engine, *quick, *only, *par, time.Duration(*boundMs)*time.Millisecond, out)
	case "hostrec":
		if *list {
			for i, hc := range hostCases(*quick) {
				out.Emit(map[string]any{"idx": i, "shape": hc.sh.Name, "cause": hc.cause, "arrival": hc.arrival})
			}
			return
		}
		causeDelay = time.Duration(*delayMs) * time.Millisecond
		runHostrec(*engine, *quick, *from, *only, time.Duration(*boundMs)*time.Millisecond, out)
	case "behave":
		if *list {
			for i, bc := range behaviourCases(*quick) {
				out.Emit(map[string]any{"idx": i, "shape": bc.sh.Name, "cause": bc.cause, "arrival": bc.arrival})
			}
			return
		}
		causeDelay = time.Duration(*delayMs) * time.Millisecond
		sk := map[string]bool{}
		for _, n := range strings.Split(*skip, ",") {
			sk[n] = true
		}
		runBehaviour(*engine, *quick, *from, *only, time.Duration(*boundMs)*time.Millisecond, sk, out)
	}
}
