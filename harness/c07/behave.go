// Behavioural tie: every cycle shape x cause x arrival moment, on one engine per process. Each case prints one
// JSON line as soon as it is decided. A call that does not return within the bound is reported as a hang and the
// process exits at once (a goroutine stuck in native code cannot be stopped and would freeze a later GC cycle);
// the parent restarts the batch after the hanging case.
package main

import (
	"context"
	"fmt"
	"os"
	"runtime/debug"
	"time"

	"github.com/tetratelabs/wazero"
	"github.com/tetratelabs/wazero/api"
	"github.com/tetratelabs/wazero/experimental"
	c "github.com/tetratelabs/wazero/internal/zz_verif/common"
	"github.com/tetratelabs/wazero/sys"
)

const (
	hNop  = 0 // env.h0: returns at once
	hWait = 1 // env.h1: announces that it was entered, then blocks until released
	hCb   = 2 // env.h2: calls back the guest export f<arg> with the same context
	f0    = 3 // first local function
)

type Shape struct {
	Name  string
	P     *Prog
	Arg   uint64
	Wait  bool   // the cycle passes through hWait: the cause can be delivered while the guest is inside a host function
	Allow string // an additional acceptable outcome class ("exhaust": unbounded recursion ends in stack overflow, not in a hang)
	Slow  bool   // expected to run into the watchdog on the current tree: one combination only in the quick tier
}

// dec(n): if n == 0 return; push n-1
func decOrRet() []I { return []I{lget(0), eqz, ifThen(ret()), lget(0), konst(1), sub} }

func shapes() []Shape {
	P := func(fs ...Func) *Prog { return &Prog{NImp: 3, Funcs: fs} }
	F := func(is ...I) Func { return Func{Body: is} }
	cat := func(a []I, b ...I) []I { return append(append([]I{}, a...), b...) }
	return []Shape{
		{Name: "simple_loop", P: P(F(loop(br(0))))},
		{Name: "brif_loop", P: P(F(loop(konst(1), brif(0))))},
		{Name: "nested_loops", P: P(F(loop(konst(1000), lset(0), loop(lget(0), konst(1), sub, ltee(0), brif(0)), br(0))))},
		{Name: "brtable_back_edge", P: P(F(loop(block(lget(0), brtable(1, 1, 0)), br(0)))), Arg: 0},
		{Name: "brtable_via_block", P: P(F(loop(block(lget(0), brtable(1, 1, 0)), br(0)))), Arg: 1},
		{Name: "if_else_back_edges", P: P(F(loop(lget(0), ifElse([]I{br(1)}, []I{br(1)})))), Arg: 1},
		{Name: "loop_in_block_in_loop", P: P(F(loop(block(loop(lget(0), brif(1), br(2))), br(0))))},
		{Name: "mutual_recursion_in_loop", P: P(
			F(loop(konst(200), call(f0+1), br(0))),
			F(cat(decOrRet(), call(f0+2))...),
			F(cat(decOrRet(), call(f0+1))...))},
		{Name: "tail_self", P: P(F(lget(0), rcall(f0)))},
		{Name: "tail_mutual", P: P(F(lget(0), rcall(f0+1)), F(lget(0), rcall(f0)))},
		{Name: "tail_indirect", P: P(F(lget(0), konst(f0), rcalli()))},
		{Name: "tail_indirect_mutual", P: P(F(lget(0), konst(f0+1), rcalli()), F(lget(0), rcall(f0)))},
		{Name: "tail_in_if_in_block", P: P(F(block(lget(0), eqz, ifThen(lget(0), rcall(f0))), lget(0), rcall(f0)))},
		{Name: "call_indirect_cycle_in_loop", P: P(
			F(loop(konst(100), konst(f0+1), calli(), br(0))),
			F(cat(decOrRet(), konst(f0+1), calli())...))},
		{Name: "host_call_each_iteration", P: P(F(loop(lget(0), call(hNop), br(0))))},
		{Name: "host_wait_each_iteration", P: P(F(loop(lget(0), call(hWait), br(0)))), Wait: true},
		{Name: "tail_cycle_with_host_wait", P: P(F(lget(0), call(hWait), lget(0), rcall(f0))), Wait: true},
		{Name: "tail_to_host_in_loop", P: P(F(loop(lget(0), call(f0+1), br(0))), F(lget(0), rcall(hNop)))},
		{Name: "loop_entered_from_host_callback", P: P(F(konst(f0+1), call(hCb)), F(loop(br(0))))},
		{Name: "tail_cycle_entered_from_host_callback", P: P(F(konst(f0+1), call(hCb)), F(lget(0), rcall(f0+1)))},
		{Name: "host_callback_each_iteration", P: P(F(loop(konst(f0+1), call(hCb), br(0))), F(I{K: "other"}))},
		{Name: "unbounded_recursion", P: P(F(lget(0), call(f0))), Allow: "exhaust"},
		{Name: "tree_recursion_depth_64", P: P(F(cat(decOrRet(), call(f0), lget(0), konst(1), sub, call(f0))...)), Arg: 64, Slow: true},
	}
}

type BRes struct {
	Idx       int     `json:"idx"`
	Engine    string  `json:"engine"`
	Shape     string  `json:"shape"`
	Cause     string  `json:"cause"`
	Arrival   string  `json:"arrival"`
	Want      uint32  `json:"want"`
	Allow     string  `json:"allow,omitempty"`
	Returned  bool    `json:"returned"`
	Class     string  `json:"class"`
	Closed    bool    `json:"closed"`
	LatencyMs float64 `json:"latency_ms"` // from the cause to the return of the call (0 when the cause came first)
	BoundMs   int     `json:"bound_ms"`
	Setup     string  `json:"setup,omitempty"`
	Wasm      string  `json:"wasm,omitempty"`
}

type bcase struct {
	sh             Shape
	cause, arrival string
}

func behaviourCases(quick bool) []bcase {
	var cs []bcase
	for _, sh := range shapes() {
		if sh.Slow && quick {
			cs = append(cs, bcase{sh, "cancel", "during"})
			continue
		}
		for _, cause := range []string{"cancel", "deadline", "close"} {
			arr := []string{"before", "during"}
			if sh.Wait {
				arr = []string{"before", "inhost"}
			}
			for _, a := range arr {
				cs = append(cs, bcase{sh, cause, a})
			}
		}
	}
	return cs
}

const closeCode = 7

var causeDelay = 15 * time.Millisecond // how long after the start of the call the cause arrives ("during")

func runBehaviour(engine string, quick bool, from, only int, bound time.Duration, skip map[string]bool, out *c.Out) {
	debug.SetGCPercent(-1) // a goroutine stuck in native code would block a stop-the-world phase
	cs := behaviourCases(quick)
	for idx := from; idx < len(cs); idx++ {
		if only >= 0 && idx != only || skip[cs[idx].sh.Name] {
			continue
		}
		res, hung := runOne(engine, idx, cs[idx], bound)
		out.Emit(res)
		out.Flush()
		if hung {
			os.Exit(3)
		}
	}
}

func runOne(engine string, idx int, bc bcase, bound time.Duration) (res BRes, hung bool) {
	sh := bc.sh
	res = BRes{Idx: idx, Engine: engine, Shape: sh.Name, Cause: bc.cause, Arrival: bc.arrival, Allow: sh.Allow, BoundMs: int(bound / time.Millisecond)}
	switch bc.cause {
	case "cancel":
		res.Want = sys.ExitCodeContextCanceled
	case "deadline":
		res.Want = sys.ExitCodeDeadlineExceeded
	default:
		res.Want = closeCode
	}
	bg := context.Background()
	var rc wazero.RuntimeConfig
	if engine == "compiler" {
		rc = wazero.NewRuntimeConfigCompiler()
	} else {
		rc = wazero.NewRuntimeConfigInterpreter()
	}
	rc = rc.WithCloseOnContextDone(true).WithCoreFeatures(api.CoreFeaturesV2 | experimental.CoreFeaturesTailCall)
	r := wazero.NewRuntimeWithConfig(bg, rc)
	entered := make(chan struct{}, 1)
	release := make(chan struct{})
	i32 := []api.ValueType{api.ValueTypeI32}
	_, err := r.NewHostModuleBuilder("env").
		NewFunctionBuilder().WithGoModuleFunction(api.GoModuleFunc(func(context.Context, api.Module, []uint64) {}), i32, nil).Export("h0").
		NewFunctionBuilder().WithGoModuleFunction(api.GoModuleFunc(func(context.Context, api.Module, []uint64) {
		select {
		case entered <- struct{}{}:
		default:
		}
		<-release
	}), i32, nil).Export("h1").
		NewFunctionBuilder().WithGoModuleFunction(api.GoModuleFunc(func(ctx context.Context, m api.Module, stack []uint64) {
		if _, err := m.ExportedFunction(fmt.Sprintf("f%d", uint32(stack[0]))).Call(ctx, 0); err != nil {
			panic(err)
		}
	}), i32, nil).Export("h2").Instantiate(bg)
	if err != nil {
		res.Setup = "env: " + err.Error()
		return
	}
	bin := sh.P.Encode()
	mod, err := r.Instantiate(bg, bin)
	if err != nil {
		res.Setup = "instantiate: " + err.Error()
		return
	}
	fn := mod.ExportedFunction(fmt.Sprintf("f%d", f0))

	ctx, cancel := context.WithCancel(bg)
	var causeAt time.Time
	causeDone := make(chan struct{})
	doCause := func() {
		switch bc.cause {
		case "cancel":
			cancel()
		case "deadline":
			<-ctx.Done()
		case "close":
			_ = mod.CloseWithExitCode(bg, closeCode)
		}
		causeAt = time.Now()
		close(causeDone)
	}
	delay := causeDelay
	switch bc.arrival {
	case "before":
		if bc.cause == "deadline" {
			ctx, cancel = context.WithDeadline(bg, time.Now().Add(-time.Second))
		}
		doCause()
		close(release)
	case "during":
		if bc.cause == "deadline" {
			ctx, cancel = context.WithTimeout(bg, delay)
			go doCause()
		} else {
			go func() { time.Sleep(delay); doCause() }()
		}
	case "inhost":
		if bc.cause == "deadline" {
			ctx, cancel = context.WithTimeout(bg, delay)
		}
		go func() {
			select {
			case <-entered:
			case <-ctx.Done(): // the deadline may pass before the host function is reached on a loaded machine
			}
			doCause()
			time.Sleep(3 * time.Millisecond)
			close(release)
		}()
	}
	defer cancel()

	done := make(chan error, 1)
	go func() {
		defer func() {
			if e := recover(); e != nil {
				done <- fmt.Errorf("PANIC escaped: %v", e)
			}
		}()
		_, err := fn.Call(ctx, sh.Arg)
		done <- err
	}()
	// the bound counts from the cause
	select {
	case <-causeDone:
	case <-time.After(bound):
	}
	select {
	case err = <-done:
		ret := time.Now()
		res.Returned = true
		select {
		case <-causeDone:
			if d := ret.Sub(causeAt); d > 0 {
				res.LatencyMs = float64(d.Microseconds()) / 1000
			}
		default:
		}
		res.Class = c.TrapClass(err)
		if err == nil {
			res.Class = "nil"
		}
		res.Closed = mod.IsClosed()
		_ = r.Close(bg)
	case <-time.After(bound):
		hung = true
		res.Class = "hang"
		res.Closed = mod.IsClosed()
		res.Wasm = fmt.Sprintf("%x", bin)
	}
	return
}
