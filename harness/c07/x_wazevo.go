// Overlay file (package wazevo): re-runs the compiler's frontend exactly as compileLocalWasmFunction does, with the
// ensureTermination flag recorded in the compiled module that Runtime.CompileModule produced, and dumps the SSA.
package wazevo

import (
	"github.com/tetratelabs/wazero/internal/engine/wazevo/frontend"
	"github.com/tetratelabs/wazero/internal/engine/wazevo/ssa"
	"github.com/tetratelabs/wazero/internal/wasm"
)

func VerifSSA(e wasm.Engine, m *wasm.Module) (pre, post []frontend.VerifFunc, ensure bool, ok bool) {
	we, isW := e.(*engine)
	if !isW {
		return nil, nil, false, false
	}
	cm, found := we.getCompiledModuleFromMemory(m)
	if !found {
		return nil, nil, false, false
	}
	ensure = cm.ensureTermination
	ssaBuilder := ssa.NewBuilder()
	fe := frontend.NewFrontendCompiler(m, ssaBuilder, &cm.offsets, ensure, false, false)
	for i := range m.CodeSection {
		typIndex := m.FunctionSection[i]
		typ := &m.TypeSection[typIndex]
		codeSeg := &m.CodeSection[i]
		fe.Init(wasm.Index(i), typIndex, typ, codeSeg.LocalTypes, codeSeg.Body, false, codeSeg.BodyOffsetInCodeSection)
		fe.LowerToSSA()
		pre = append(pre, fe.VerifDump(false))
		ssaBuilder.RunPasses()
		post = append(post, fe.VerifDump(true))
	}
	return pre, post, ensure, true
}
