// Host <-> guest recursion (mode hostrec) and the call-entry probe (mode probe).
//
// hostrec: non-terminating cycles that pass through the HOST: guest function -> imported Go function ->
// api.Function.Call -> guest function -> ... The only check point on such a cycle is the ENTRY of the nested call
// (coq/Engine/TermHost.v). Each case runs shape x cause x arrival moment on one engine and reports how many host
// <-> guest nesting levels were entered AFTER the cause had been delivered. The recursion is unbounded, so the host
// callback carries a safety net: it stops recursing `safetyLevels` levels after the cause, and it parks (waiting for
// the cause) at `capLevels` levels so that memory stays bounded. A correct engine enters 0 or 1 further level.
//
// probe: an exported function is called in a prepared situation (context already cancelled / past its deadline, module
// closed from outside, closed word written by a watcher goroutine, nothing) and the harness observes whether ANY guest
// code ran before the call returned, and what it returned.
package main

import (
	"context"
	"fmt"
	"os"
	"runtime"
	"runtime/debug"
	"sync/atomic"
	"time"

	"github.com/tetratelabs/wazero"
	"github.com/tetratelabs/wazero/api"
	"github.com/tetratelabs/wazero/experimental"
	"github.com/tetratelabs/wazero/internal/wasm"
	c "github.com/tetratelabs/wazero/internal/zz_verif/common"
	"github.com/tetratelabs/wazero/sys"
)

const (
	hRec  = 3 // env.h3: calls back the guest export f<arg> (same instance, or the other instance); safety-netted
	hSync = 4 // env.h4: returns at once; the "inguest" arrival delivers the cause from inside it
	g0    = 5 // first local function of the host-recursion shapes (5 imports)

	safetyLevels = 40   // the host callback stops recursing this many levels after the cause
	capLevels    = 3000 // ... and parks at this depth until the cause has been delivered
	hookLevel    = 3    // nesting level at which the inhost / inguest arrivals deliver the cause
)

type HShape struct {
	Name  string
	P     *Prog
	Cross bool   // two instances of the module; the host callback always enters the OTHER instance
	Ctx   string // context handed to the nested call: same | derived | fresh
	Sync  bool   // the guest calls env.h4 before recursing (needed for the inguest arrival)
	Quick bool   // part of the quick tier with every arrival (the others: a reduced matrix)
}

func hostShapes() []HShape {
	P := func(fs ...Func) *Prog { return &Prog{NImp: 5, Funcs: fs} }
	F := func(is ...I) Func { return Func{Body: is} }
	return []HShape{
		// f -> host -> f : the seeded defect's shape, direct import call, the callback enters the same function
		{Name: "hostrec_direct_self", P: P(F(lget(0), call(hSync), konst(g0), call(hRec))), Ctx: "same", Sync: true, Quick: true},
		// the pure cycle (no other host call on it)
		{Name: "hostrec_pure", P: P(F(konst(g0), call(hRec))), Ctx: "same"},
		// f -> host -> g -> host -> f
		{Name: "hostrec_direct_other", P: P(F(lget(0), call(hSync), konst(g0+1), call(hRec)), F(konst(g0), call(hRec))), Ctx: "same", Sync: true, Quick: true},
		// the import is reached through call_indirect
		{Name: "hostrec_call_indirect", P: P(F(lget(0), call(hSync), konst(g0), konst(hRec), calli())), Ctx: "same", Sync: true, Quick: true},
		// the callback enters another instance's function, whose callback enters this instance again
		{Name: "hostrec_cross_instance", P: P(F(lget(0), call(hSync), konst(g0), call(hRec))), Cross: true, Ctx: "same", Sync: true, Quick: true},
		// guest -> guest -> host -> guest: two frames per call engine
		{Name: "hostrec_guest_hop", P: P(F(lget(0), call(g0+1)), F(lget(0), call(hSync), konst(g0), call(hRec))), Ctx: "same", Sync: true},
		// the import is tail-called: call + return in the interpreter, a checked return_call in the compiler
		{Name: "hostrec_tail_call_import", P: P(F(lget(0), call(hSync), konst(g0), rcall(hRec))), Ctx: "same", Sync: true},
		// the host callback hands a context derived from the call's context to the nested call
		{Name: "hostrec_derived_ctx", P: P(F(lget(0), call(hSync), konst(g0), call(hRec))), Ctx: "derived", Sync: true},
		// control: a loop header on the cycle (its exit-code check reads the closed word on every entry of f)
		{Name: "hostrec_through_loop_header", P: P(F(loop(lget(0), call(hSync), konst(g0), call(hRec), br(0)))), Ctx: "same", Sync: true, Quick: true},
		// the host callback hands a FRESH context to the nested call: only the closed word (written by the watcher of
		// the outer call) tells the nested calls that the outer call's context is done
		{Name: "hostrec_fresh_ctx", P: P(F(lget(0), call(hSync), konst(g0), call(hRec))), Ctx: "fresh", Sync: true, Quick: true},
	}
}

type hcase struct {
	sh             HShape
	cause, arrival string
}

func hostCases(quick bool) []hcase {
	var cs []hcase
	for _, sh := range hostShapes() {
		for _, cause := range []string{"cancel", "deadline", "close"} {
			arr := []string{"before", "inhost", "during"}
			if sh.Sync {
				arr = []string{"before", "inhost", "inguest", "during"}
			}
			if quick && !sh.Quick {
				arr = []string{"inhost"}
				if sh.Sync {
					arr = []string{"inguest"}
				}
			}
			if sh.Ctx == "fresh" && cause == "close" {
				continue // identical to hostrec_direct_self / close
			}
			if sh.Cross && cause == "cancel" {
				// the cause is delivered by the calling goroutine itself with GOMAXPROCS(1): no watcher goroutine can run
				// between the cancellation and the return of the call
				arr = append(arr, "inhost_1p")
			}
			for _, a := range arr {
				if sh.Ctx == "fresh" && a == "before" {
					continue // the outer call itself is stopped at its entry
				}
				cs = append(cs, hcase{sh, cause, a})
			}
		}
	}
	return cs
}

type HRes struct {
	Idx       int     `json:"idx"`
	Engine    string  `json:"engine"`
	Shape     string  `json:"shape"`
	Cause     string  `json:"cause"`
	Arrival   string  `json:"arrival"`
	Ctx       string  `json:"ctx"`
	Cross     bool    `json:"cross"`
	Want      uint32  `json:"want"`
	Returned  bool    `json:"returned"`
	Class     string  `json:"class"`
	Closed    bool    `json:"closed"`       // the module of the outermost call
	ClosedB   bool    `json:"closed_other"` // the other instance (cross-instance shapes)
	Total     int64   `json:"levels_total"` // host callback entries
	After     int64   `json:"levels_after"` // ... after the cause had been delivered
	MaxLevel  int64   `json:"max_level"`
	Watcher   bool    `json:"relies_on_watcher"` // the cause reaches the nested calls through a watcher goroutine only: judged by the safety net, not by the level count
	GaveUp    bool    `json:"gave_up"`   // the safety net stopped the recursion
	Parked    bool    `json:"parked"`    // the depth cap was reached before the cause
	Delivered string  `json:"delivered"` // before | hook | timer | (empty: the call ended first)
	LatencyMs float64 `json:"latency_ms"`
	BoundMs   int     `json:"bound_ms"`
	DelayMs   int     `json:"delay_ms"`
	Setup     string  `json:"setup,omitempty"`
	Wasm      string  `json:"wasm"`
	Schedule  string  `json:"schedule"`
}

func runHostrec(engine string, quick bool, from, only int, bound time.Duration, out *c.Out) {
	debug.SetGCPercent(-1)
	cs := hostCases(quick)
	for idx := from; idx < len(cs); idx++ {
		if only >= 0 && idx != only {
			continue
		}
		res, hung := runHostOne(engine, idx, cs[idx], bound)
		out.Emit(res)
		out.Flush()
		if hung {
			os.Exit(3)
		}
	}
}

type derivedKey struct{}

func runHostOne(engine string, idx int, hc hcase, bound time.Duration) (res HRes, hung bool) {
	sh := hc.sh
	res = HRes{Idx: idx, Engine: engine, Shape: sh.Name, Cause: hc.cause, Arrival: hc.arrival, Ctx: sh.Ctx, Cross: sh.Cross, Watcher: sh.Ctx == "fresh",
		BoundMs: int(bound / time.Millisecond), DelayMs: int(causeDelay / time.Millisecond)}
	switch hc.cause {
	case "cancel":
		res.Want = sys.ExitCodeContextCanceled
	case "deadline":
		res.Want = sys.ExitCodeDeadlineExceeded
	default:
		res.Want = closeCode
	}
	res.Schedule = fmt.Sprintf("instantiate env (h3 = callback into export f<arg> with the %s context%s, h4 = no-op) and the module; call f%d(0) with close-on-context-done; cause %q delivered %s",
		sh.Ctx, map[bool]string{true: " of the OTHER instance", false: ""}[sh.Cross], g0, hc.cause,
		map[string]string{"before": "before the call", "inhost": fmt.Sprintf("from inside h3 at nesting level %d, before it calls back", hookLevel),
			"inhost_1p": fmt.Sprintf("by the calling goroutine itself inside h3 at nesting level %d, with runtime.GOMAXPROCS(1)", hookLevel),
			"inguest": fmt.Sprintf("from inside h4 at nesting level %d, i.e. while the guest function is running", hookLevel),
			"during":  fmt.Sprintf("by a timer %v after the start of the call", causeDelay)}[hc.arrival])
	bg := context.Background()
	var rc wazero.RuntimeConfig
	if engine == "compiler" {
		rc = wazero.NewRuntimeConfigCompiler()
	} else {
		rc = wazero.NewRuntimeConfigInterpreter()
	}
	rc = rc.WithCloseOnContextDone(true).WithCoreFeatures(api.CoreFeaturesV2 | experimental.CoreFeaturesTailCall)
	r := wazero.NewRuntimeWithConfig(bg, rc)
	if hc.arrival == "inhost_1p" {
		prev := runtime.GOMAXPROCS(1)
		defer runtime.GOMAXPROCS(prev)
	}

	var (
		modA, modB            api.Module
		level, total, after   int64
		maxLevel, syncCalls   int64
		gaveUp, parked        bool
		arrived               atomic.Bool
		causeAt               time.Time
		causeDone             = make(chan struct{})
		delivered             atomic.Value
		ctx, cancel           = context.WithCancel(bg)
		deliverOnce           atomic.Bool
		hookFired             bool
		callCtx               context.Context
	)
	delivered.Store("")
	doCause := func(how string) {
		if deliverOnce.Swap(true) {
			<-causeDone
			return
		}
		switch hc.cause {
		case "cancel":
			cancel()
		case "deadline":
			<-ctx.Done()
		case "close":
			_ = modA.CloseWithExitCode(bg, closeCode)
		}
		causeAt = time.Now()
		delivered.Store(how)
		arrived.Store(true)
		close(causeDone)
	}
	// the cause always comes from another goroutine; the hook waits for it, so the arrival moment is exact
	hook := func() {
		if hookFired {
			return
		}
		hookFired = true
		if hc.arrival == "inhost_1p" {
			doCause("hook")
			return
		}
		ch := make(chan struct{})
		go func() { doCause("hook"); close(ch) }()
		select {
		case <-ch:
		case <-causeDone:
		}
	}
	i32 := []api.ValueType{api.ValueTypeI32}
	nop := api.GoModuleFunc(func(context.Context, api.Module, []uint64) {})
	_, err := r.NewHostModuleBuilder("env").
		NewFunctionBuilder().WithGoModuleFunction(nop, i32, nil).Export("h0").
		NewFunctionBuilder().WithGoModuleFunction(nop, i32, nil).Export("h1").
		NewFunctionBuilder().WithGoModuleFunction(nop, i32, nil).Export("h2").
		NewFunctionBuilder().WithGoModuleFunction(api.GoModuleFunc(func(hctx context.Context, m api.Module, stack []uint64) {
		total++
		level++
		defer func() { level-- }()
		if level > maxLevel {
			maxLevel = level
		}
		if arrived.Load() {
			after++
			if after > safetyLevels {
				gaveUp = true
				return
			}
			if sh.Ctx == "fresh" {
				// only the watcher goroutine of the outer call can tell these nested calls that the outer context is
				// done: give it time to be scheduled (the safety net then means >= 40 ms with the word unread)
				time.Sleep(time.Millisecond)
			}
		} else if (hc.arrival == "inhost" || hc.arrival == "inhost_1p") && level == hookLevel {
			hook()
		} else if level >= capLevels {
			parked = true
			select {
			case <-causeDone:
			case <-time.After(bound):
			}
		} else if hc.arrival == "during" {
			time.Sleep(50 * time.Microsecond) // keeps the depth moderate until the timer fires
		}
		target := m
		if sh.Cross {
			if m == modA {
				target = modB
			} else {
				target = modA
			}
		}
		nctx := hctx
		switch sh.Ctx {
		case "derived":
			nctx = context.WithValue(hctx, derivedKey{}, level)
		case "fresh":
			nctx = bg
		}
		if _, err := target.ExportedFunction(fmt.Sprintf("f%d", uint32(stack[0]))).Call(nctx, 0); err != nil {
			panic(err)
		}
	}), i32, nil).Export("h3").
		NewFunctionBuilder().WithGoModuleFunction(api.GoModuleFunc(func(context.Context, api.Module, []uint64) {
		syncCalls++
		if hc.arrival == "inguest" && syncCalls == hookLevel && !arrived.Load() {
			hook()
		}
	}), i32, nil).Export("h4").Instantiate(bg)
	if err != nil {
		res.Setup = "env: " + err.Error()
		return
	}
	bin := sh.P.Encode()
	res.Wasm = fmt.Sprintf("%x", bin)
	modA, err = r.InstantiateWithConfig(bg, bin, wazero.NewModuleConfig().WithName("A"))
	if err == nil && sh.Cross {
		modB, err = r.InstantiateWithConfig(bg, bin, wazero.NewModuleConfig().WithName("B"))
	}
	if err != nil {
		res.Setup = "instantiate: " + err.Error()
		return
	}
	fn := modA.ExportedFunction(fmt.Sprintf("f%d", g0))

	if hc.cause == "deadline" {
		cancel()
		if hc.arrival == "before" {
			ctx, cancel = context.WithDeadline(bg, time.Now().Add(-time.Second))
		} else {
			ctx, cancel = context.WithTimeout(bg, causeDelay)
		}
	}
	defer cancel()
	callCtx = ctx
	switch hc.arrival {
	case "before":
		doCause("before")
	case "during":
		go func() {
			if hc.cause != "deadline" {
				time.Sleep(causeDelay)
			}
			doCause("timer")
		}()
	default:
		if hc.cause == "deadline" {
			// the deadline may pass before the hook level is reached on a loaded machine
			go func() { <-ctx.Done(); doCause("timer") }()
		}
	}

	done := make(chan error, 1)
	go func() {
		defer func() {
			if e := recover(); e != nil {
				done <- fmt.Errorf("PANIC escaped: %v", e)
			}
		}()
		_, err := fn.Call(callCtx, 0)
		done <- err
	}()
	var ended bool
	select {
	case <-causeDone:
	case err = <-done:
		ended = true
	case <-time.After(bound):
	}
	if !ended {
		select {
		case err = <-done:
			ended = true
		case <-time.After(bound):
		}
	}
	res.Total, res.After, res.MaxLevel, res.GaveUp, res.Parked = total, after, maxLevel, gaveUp, parked
	res.Delivered = delivered.Load().(string)
	if !ended {
		hung = true
		res.Class = "hang"
		res.Closed = modA.IsClosed()
		return
	}
	ret := time.Now()
	res.Returned = true
	if arrived.Load() {
		if d := ret.Sub(causeAt); d > 0 {
			res.LatencyMs = float64(d.Microseconds()) / 1000
		}
	}
	res.Class = c.TrapClass(err)
	if err == nil {
		res.Class = "nil"
	}
	res.Closed = modA.IsClosed()
	if modB != nil {
		res.ClosedB = modB.IsClosed()
	}
	_ = r.Close(bg)
	return
}

// ---- the call-entry probe

type PCase struct {
	ID     int    `json:"id"`
	Engine string `json:"engine"`
	Sit    int    `json:"sit"`  // 0 context cancelled, 1 deadline passed, 2 module closed with Code from outside, 3 word written by a watcher (cancel), 4 ditto (deadline), 5 nothing
	Code   uint32 `json:"code"` // sit 2
	Ran    bool   `json:"ran"`  // any guest code ran (host import counter or the global written by the function)
	Ticks  int64  `json:"ticks"`
	Global uint64 `json:"global"`
	Exit   int64  `json:"exit"` // exit code of the returned error, -1 nil, -2 another error
	Closed bool   `json:"closed"`
	Wasm   string `json:"wasm"`
	Sched  string `json:"schedule"`
	Err    string `json:"err,omitempty"`
}

// (module (import "env" "tick" (func)) (global (export "g") (mut i32) (i32.const 0))
//
//	(func (export "touch") call 0  i32.const 1  global.set 0))
func probeModule() []byte {
	m := &c.Mod{}
	m.Types = [][]byte{c.FT(nil, nil)}
	m.Imports = [][]byte{c.ImportFunc("env", "tick", 0)}
	m.Funcs = [][]byte{c.U32(0)}
	m.Globals = [][]byte{c.Cat(c.B(c.I32, 1), c.I32Const(0), c.B(0x0b))}
	m.Exports = [][]byte{c.Export("touch", 0, 1), c.Export("g", 3, 0)}
	m.Codes = [][]byte{c.Code(nil, c.Call(0), c.I32Const(1), c.GlobalSet(0))}
	return m.Bytes()
}

var sitNames = []string{"call with a context that is already cancelled", "call with a context whose deadline has passed",
	"module closed with CloseWithExitCode(code) before the call, live context",
	"closed word written by CloseModuleOnCanceledOrTimeout for a cancelled context, then a call with a live context",
	"closed word written by CloseModuleOnCanceledOrTimeout for an expired context, then a call with a live context",
	"nothing happened, live context"}

func runProbe(out *c.Out) {
	bg := context.Background()
	bin := probeModule()
	id := 0
	for _, engine := range []string{"interp", "compiler"} {
		var rc wazero.RuntimeConfig
		if engine == "compiler" {
			rc = wazero.NewRuntimeConfigCompiler()
		} else {
			rc = wazero.NewRuntimeConfigInterpreter()
		}
		r := wazero.NewRuntimeWithConfig(bg, rc.WithCloseOnContextDone(true))
		var ticks int64
		if _, err := r.NewHostModuleBuilder("env").NewFunctionBuilder().
			WithGoModuleFunction(api.GoModuleFunc(func(context.Context, api.Module, []uint64) { ticks++ }), nil, nil).Export("tick").Instantiate(bg); err != nil {
			out.Emit(PCase{ID: id, Engine: engine, Err: "env: " + err.Error()})
			id++
			continue
		}
		for sit := 0; sit <= 5; sit++ {
			codes := []uint32{0}
			if sit == 2 {
				codes = []uint32{7, 0, 255, 0xfffffffe}
			}
			for _, code := range codes {
				pc := PCase{ID: id, Engine: engine, Sit: sit, Code: code, Wasm: fmt.Sprintf("%x", bin), Sched: sitNames[sit] + "; then touch()"}
				id++
				mod, err := r.InstantiateWithConfig(bg, bin, wazero.NewModuleConfig().WithName(fmt.Sprintf("p%d", id)))
				if err != nil {
					pc.Err = err.Error()
					out.Emit(pc)
					continue
				}
				mi := mod.(*wasm.ModuleInstance)
				ticks = 0
				ctx, cancel := context.WithCancel(bg)
				switch sit {
				case 0:
					cancel()
				case 1:
					cancel()
					ctx, cancel = context.WithDeadline(bg, time.Now().Add(-time.Second))
					<-ctx.Done()
				case 2:
					_ = mod.CloseWithExitCode(bg, code)
				case 3, 4:
					wctx, wcancel := context.WithCancel(bg)
					if sit == 4 {
						wcancel()
						wctx, wcancel = context.WithDeadline(bg, time.Now().Add(-time.Second))
					}
					wcancel()
					<-wctx.Done()
					stop := mi.CloseModuleOnCanceledOrTimeout(wctx)
					for t0 := time.Now(); mi.Closed.Load() == 0 && time.Since(t0) < 10*time.Second; {
						time.Sleep(50 * time.Microsecond)
					}
					stop()
				}
				fn := mod.ExportedFunction("touch")
				g := mod.ExportedGlobal("g")
				func() {
					defer func() {
						if e := recover(); e != nil {
							pc.Err = fmt.Sprint("PANIC: ", e)
						}
					}()
					_, err = fn.Call(ctx)
				}()
				cancel()
				pc.Ticks, pc.Exit, pc.Closed = ticks, exitOf(err), mod.IsClosed()
				if g != nil {
					pc.Global = g.Get()
				}
				pc.Ran = pc.Ticks > 0 || pc.Global != 0
				out.Emit(pc)
			}
		}
		_ = r.Close(bg)
	}
}
