// Sibling calls (mode siblings): 2-3 CONCURRENT calls from different goroutines on ONE module instance (or on two
// instances of one runtime), with the same context / contexts derived from one another / different contexts. A finite
// call parks inside a host function until the harness releases it; a looping call signals that it has entered the guest
// and then never terminates. The order of events is fixed by the harness (every step waits for the previous one to have
// happened), so each case is ONE schedule of the interleaving semantics of coq/Engine/Watcher.v, and it is reported in
// that vocabulary too. Oracle (checks/c07.py), from the property: every call in flight when the cause arrives on a
// module that the cause concerns returns with the exit error of the cause and that module is closed afterwards; calls
// that finished before are unaffected; calls on a module the cause does not concern keep running.
// Judged by progress: nothing is expected to happen within a given time except "returns within the bound after the
// cause" (seconds); a deadline that passes before the schedule has reached the point where the cause is due makes the
// attempt void, and it is repeated with a four times longer deadline.
package main

import (
	"context"
	"fmt"
	"runtime/debug"
	"strings"
	"sync"
	"time"

	"github.com/tetratelabs/wazero"
	"github.com/tetratelabs/wazero/api"
	"github.com/tetratelabs/wazero/experimental"
	c "github.com/tetratelabs/wazero/internal/zz_verif/common"
	"github.com/tetratelabs/wazero/sys"
)

type sibRole struct {
	Kind string // finite | loop
	End  string // finite: before (released and awaited before the cause) | after (released once the cause has had its effect)
}

type sibShape struct {
	Name  string
	Roles []sibRole // in start order
}

func sibShapes() []sibShape {
	fb, fa, lp := sibRole{"finite", "before"}, sibRole{"finite", "after"}, sibRole{"loop", ""}
	return []sibShape{
		{"finite_first_ends_before", []sibRole{fb, lp}},      // the seeded schedule
		{"loop_first_finite_ends_before", []sibRole{lp, fb}}, // the calls started the other way round
		{"both_loop", []sibRole{lp, lp}},
		{"finite_first_ends_after", []sibRole{fa, lp}},
		{"finite_first_two_loops", []sibRole{fb, lp, lp}},
		{"two_finite_then_loop", []sibRole{fb, fb, lp}},
	}
}

// how the contexts of the calls relate: the FIRST call gets `first`, every other call `rest`.
// c0 = the context the cause acts on; c0+value = context.WithValue(c0) (same Done channel); c0+cancel = context.WithCancel(c0)
// (its own Done channel, done with c0); c1 = an unrelated context that stays live.
type sibCtx struct{ Name, First, Rest string }

func sibCtxs(quick bool) []sibCtx {
	cs := []sibCtx{{"same", "c0", "c0"}, {"derived_value", "c0", "c0+value"}, {"derived_cancel", "c0", "c0+cancel"}, {"distinct", "c1", "c0"}}
	if !quick {
		cs = append(cs, sibCtx{"derived_value_rev", "c0+value", "c0"}, sibCtx{"derived_cancel_rev", "c0+cancel", "c0"}, sibCtx{"distinct_rev", "c0", "c1"})
	}
	return cs
}

type sibcase struct {
	sh    sibShape
	cx    sibCtx
	topo  string // one | two (the first call on instance A, the others on instance B)
	cause string
	spin  string // loop | tail
}

func sibCases(quick bool) []sibcase {
	var cs []sibcase
	for _, topo := range []string{"one", "two"} {
		for _, cx := range sibCtxs(quick) {
			for _, sh := range sibShapes() {
				if quick && topo == "two" && !((cx.Name == "same" || cx.Name == "distinct") && len(sh.Roles) == 2 && sh.Name != "loop_first_finite_ends_before") {
					continue
				}
				for _, cause := range []string{"cancel", "deadline", "close"} {
					if cx.Name == "distinct_rev" && cause != "close" && sh.Roles[0].Kind != "loop" {
						continue // the cause would concern a call that parks in a host function only
					}
					cs = append(cs, sibcase{sh, cx, topo, cause, "loop"})
					if !quick && topo == "one" {
						cs = append(cs, sibcase{sh, cx, topo, cause, "tail"})
					}
				}
			}
		}
	}
	return cs
}

type SCall struct {
	ID       int     `json:"id"`
	Kind     string  `json:"kind"`
	End      string  `json:"end,omitempty"`
	Inst     string  `json:"inst"`
	Ctx      string  `json:"ctx"`
	InFlight bool    `json:"in_flight_at_cause"`
	Returned bool    `json:"returned"` // by itself (before the harness cleaned up)
	Class    string  `json:"class"`
	Latency  float64 `json:"latency_ms"` // cause -> return, looping calls only
	Err      string  `json:"err,omitempty"`
}

type SRes struct {
	Idx        int             `json:"idx"`
	Engine     string          `json:"engine"`
	Shape      string          `json:"shape"`
	Family     string          `json:"family"`
	CtxRel     string          `json:"ctx"`
	Topo       string          `json:"topology"`
	Cause      string          `json:"cause"`
	Spin       string          `json:"spin"`
	Target     string          `json:"target"` // cancel / deadline: the context; close: the instance
	Want       uint32          `json:"want"`
	Calls      []SCall         `json:"calls"`
	Closed     map[string]bool `json:"closed"`   // per instance, before the harness cleaned up
	Events     [][]int         `json:"events"`   // the schedule in the vocabulary of Watcher.v: [0,k,c] enter, [1,k] return, [2,c,r] done (r 1 cancel 2 deadline), [4,code] close
	EvInst     []string        `json:"ev_inst"`  // per event: the instance it concerns ("" = every instance)
	Schedule   string          `json:"schedule"` // the same for a human, with times
	Attempts   int             `json:"attempts"`
	Void       bool            `json:"void"` // the deadline passed too early in every attempt: nothing to judge
	HardHang   bool            `json:"hard_hang"`
	DeadlineMs int             `json:"deadline_ms,omitempty"`
	BoundMs    int             `json:"bound_ms"`
	Setup      string          `json:"setup,omitempty"`
	Wasm       string          `json:"wasm"`
}

// f3 finite: wait(id). f4 loop: entered(id); loop. f5 tail cycle: entered(id); return_call f6; f6: return_call f6
func sibProg() *Prog {
	F := func(is ...I) Func { return Func{Body: is} }
	return &Prog{NImp: 3, Funcs: []Func{
		F(lget(0), call(hWait)),
		F(lget(0), call(hNop), loop(br(0))),
		F(lget(0), call(hNop), lget(0), rcall(f0+3)),
		F(lget(0), rcall(f0+3)),
	}}
}

var ctxNum = map[string]int{"c0": 0, "c0+value": 1, "c0+cancel": 2, "c1": 3}

func runSiblings(engine string, quick bool, only, par int, bound time.Duration, out *c.Out) {
	debug.SetGCPercent(-1)
	cs := sibCases(quick)
	var mu sync.Mutex
	var wg sync.WaitGroup
	sem := make(chan struct{}, par)
	for idx := range cs {
		if only >= 0 && idx != only {
			continue
		}
		wg.Add(1)
		sem <- struct{}{}
		go func(idx int) {
			defer wg.Done()
			var res SRes
			dl := 120 * time.Millisecond
			for attempt := 1; attempt <= 4; attempt++ {
				res = runSibOne(engine, idx, cs[idx], bound, dl)
				res.Attempts = attempt
				if !res.Void {
					break
				}
				dl *= 4
			}
			mu.Lock()
			out.Emit(res)
			out.Flush()
			mu.Unlock()
			<-sem
		}(idx)
	}
	wg.Wait()
}

type sibKey struct{}

func runSibOne(engine string, idx int, sc sibcase, bound, deadline time.Duration) (res SRes) {
	res = SRes{Idx: idx, Engine: engine, Shape: "siblings_" + sc.sh.Name, Family: "siblings", CtxRel: sc.cx.Name, Topo: sc.topo, Cause: sc.cause, Spin: sc.spin,
		BoundMs: int(bound / time.Millisecond), Closed: map[string]bool{}}
	switch sc.cause {
	case "cancel":
		res.Want = sys.ExitCodeContextCanceled
	case "deadline":
		res.Want = sys.ExitCodeDeadlineExceeded
		res.DeadlineMs = int(deadline / time.Millisecond)
	default:
		res.Want = closeCode
	}
	t0 := time.Now()
	var log []string
	ev := func(inst string, e []int, format string, a ...any) {
		if e != nil {
			res.Events = append(res.Events, e)
			res.EvInst = append(res.EvInst, inst)
		}
		log = append(log, fmt.Sprintf("+%.1fms %s", float64(time.Since(t0).Microseconds())/1000, fmt.Sprintf(format, a...)))
	}
	defer func() { res.Schedule = strings.Join(log, "; ") }()

	bg := context.Background()
	var rc wazero.RuntimeConfig
	if engine == "compiler" {
		rc = wazero.NewRuntimeConfigCompiler()
	} else {
		rc = wazero.NewRuntimeConfigInterpreter()
	}
	rc = rc.WithCloseOnContextDone(true).WithCoreFeatures(api.CoreFeaturesV2 | experimental.CoreFeaturesTailCall)
	r := wazero.NewRuntimeWithConfig(bg, rc)
	n := len(sc.sh.Roles)
	entered := make([]chan struct{}, n)
	release := make([]chan struct{}, n)
	released := make([]bool, n)
	done := make([]chan error, n)
	for i := range entered {
		entered[i], release[i], done[i] = make(chan struct{}, 1), make(chan struct{}), make(chan error, 1)
	}
	rel := func(i int) {
		if !released[i] {
			released[i] = true
			close(release[i])
		}
	}
	i32 := []api.ValueType{api.ValueTypeI32}
	sig := func(id uint64) {
		if int(id) < n {
			select {
			case entered[id] <- struct{}{}:
			default:
			}
		}
	}
	_, err := r.NewHostModuleBuilder("env").
		NewFunctionBuilder().WithGoModuleFunction(api.GoModuleFunc(func(_ context.Context, _ api.Module, st []uint64) { sig(st[0]) }), i32, nil).Export("h0").
		NewFunctionBuilder().WithGoModuleFunction(api.GoModuleFunc(func(_ context.Context, _ api.Module, st []uint64) {
		sig(st[0])
		if int(st[0]) < n {
			<-release[st[0]]
		}
	}), i32, nil).Export("h1").
		NewFunctionBuilder().WithGoModuleFunction(api.GoModuleFunc(func(context.Context, api.Module, []uint64) {}), i32, nil).Export("h2").Instantiate(bg)
	if err != nil {
		res.Setup = "env: " + err.Error()
		return
	}
	bin := sibProg().Encode()
	res.Wasm = fmt.Sprintf("%x", bin)
	insts := map[string]api.Module{}
	for _, nm := range []string{"A", "B"} {
		if nm == "B" && sc.topo != "two" {
			break
		}
		m, err := r.InstantiateWithConfig(bg, bin, wazero.NewModuleConfig().WithName(nm))
		if err != nil {
			res.Setup = "instantiate: " + err.Error()
			return
		}
		insts[nm] = m
	}

	// contexts
	c0, cancel0 := context.WithCancel(bg)
	if sc.cause == "deadline" {
		cancel0()
		c0, cancel0 = context.WithTimeout(bg, deadline)
	}
	c1, cancel1 := context.WithCancel(bg)
	cchild, cancelChild := context.WithCancel(c0)
	ctxs := map[string]context.Context{"c0": c0, "c1": c1, "c0+value": context.WithValue(c0, sibKey{}, 1), "c0+cancel": cchild}
	cleanupCtx := func() { cancel0(); cancel1(); cancelChild() }

	calls := make([]SCall, n)
	for i, role := range sc.sh.Roles {
		inst, cx := "A", sc.cx.Rest
		if i == 0 {
			cx = sc.cx.First
		} else if sc.topo == "two" {
			inst = "B"
		}
		calls[i] = SCall{ID: i, Kind: role.Kind, End: role.End, Inst: inst, Ctx: cx, InFlight: true}
	}
	res.Calls = calls
	target := calls[n-1].Inst // close: the instance of the last call (a looping one)
	if sc.cause == "close" {
		res.Target = target
	} else {
		res.Target = "c0"
	}
	finishAll := func() {
		// stop whatever is still running: close the instances, release the parked calls, give them a moment
		for _, m := range insts {
			_ = m.CloseWithExitCode(bg, 99)
		}
		cleanupCtx()
		for i := range calls {
			rel(i)
		}
		for i := range calls {
			if calls[i].Class == "" || calls[i].Class == "running" || calls[i].Class == "hang" {
				select {
				case <-done[i]:
				case <-time.After(3 * time.Second):
					res.HardHang = true
				}
			}
		}
		if !res.HardHang {
			_ = r.Close(bg)
		}
	}
	classOf := func(err error) string {
		if err == nil {
			return "nil"
		}
		return c.TrapClass(err)
	}

	// 1. start the calls in order; each one is awaited inside the guest (resp. parked in the host function)
	for i := range calls {
		fn := "f3"
		if calls[i].Kind == "loop" {
			fn = "f4"
			if sc.spin == "tail" {
				fn = "f5"
			}
		}
		f := insts[calls[i].Inst].ExportedFunction(fn)
		cx := ctxs[calls[i].Ctx]
		go func(i int) {
			defer func() {
				if e := recover(); e != nil {
					done[i] <- fmt.Errorf("PANIC escaped: %v", e)
				}
			}()
			_, err := f.Call(cx, uint64(i))
			done[i] <- err
		}(i)
		select {
		case <-entered[i]:
			ev(calls[i].Inst, []int{0, i, ctxNum[calls[i].Ctx]}, "call %d = %s.%s(%d) [%s] with context %s is in flight", i, calls[i].Inst, fn, i, calls[i].Kind, calls[i].Ctx)
		case err := <-done[i]:
			calls[i].Class = classOf(err)
			if sc.cause == "deadline" && c0.Err() != nil {
				res.Void = true
				ev("", nil, "the deadline passed before call %d had started: attempt void", i)
			} else {
				res.Setup = fmt.Sprintf("call %d returned %s before it entered the guest", i, calls[i].Class)
			}
			finishAll()
			return
		case <-time.After(bound):
			res.Setup = fmt.Sprintf("call %d did not enter the guest within the bound", i)
			finishAll()
			return
		}
	}
	// 2. the finite calls that end before the cause, in start order
	for i := range calls {
		if calls[i].End != "before" {
			continue
		}
		rel(i)
		select {
		case err := <-done[i]:
			calls[i].Returned, calls[i].InFlight, calls[i].Class = true, false, classOf(err)
			ev(calls[i].Inst, []int{1, i}, "call %d released, returned %s", i, calls[i].Class)
		case <-time.After(bound):
			res.Setup = fmt.Sprintf("finite call %d did not return within the bound after its release", i)
			calls[i].Class = "hang"
			finishAll()
			return
		}
	}
	if sc.cause == "deadline" && c0.Err() != nil {
		res.Void = true
		ev("", nil, "the deadline passed before the finite calls had returned: attempt void")
		finishAll()
		return
	}
	// 3. the cause
	switch sc.cause {
	case "cancel":
		cancel0()
		ev("", []int{2, 0, 1}, "cancel(c0) returned")
	case "deadline":
		<-c0.Done()
		ev("", []int{2, 0, 2}, "the deadline of c0 passed (c0.Done() closed)")
	case "close":
		_ = insts[target].CloseWithExitCode(bg, closeCode)
		ev(target, []int{4, closeCode}, "%s.CloseWithExitCode(%d) returned", target, closeCode)
	}
	causeAt := time.Now()
	// which instances the cause concerns: close: the target; cancel / deadline: every instance with an in-flight call whose
	// context is c0 or derived from it
	concerned := map[string]bool{}
	for i := range calls {
		if !calls[i].InFlight {
			continue
		}
		if sc.cause == "close" {
			concerned[target] = true
		} else if calls[i].Ctx != "c1" {
			concerned[calls[i].Inst] = true
		}
	}
	// 4. the looping calls on the instances concerned must return
	limit := time.After(bound)
	expired := false
	for i := range calls {
		if !calls[i].InFlight || calls[i].Kind != "loop" || !concerned[calls[i].Inst] {
			continue
		}
		if expired {
			select {
			case err := <-done[i]:
				calls[i].Returned, calls[i].Class = true, classOf(err)
			default:
				calls[i].Class = "hang"
			}
		} else {
			select {
			case err := <-done[i]:
				calls[i].Returned, calls[i].Class = true, classOf(err)
				calls[i].Latency = float64(time.Since(causeAt).Microseconds()) / 1000
				if strings.HasPrefix(calls[i].Class, "other") {
					calls[i].Err = err.Error()
					if len(calls[i].Err) > 3000 {
						calls[i].Err = calls[i].Err[:3000]
					}
				}
			case <-limit:
				expired = true
				calls[i].Class = "hang"
			}
		}
		if calls[i].Returned {
			ev("", nil, "call %d returned %s", i, calls[i].Class)
		} else {
			ev("", nil, "call %d has NOT returned %d ms after the cause; %s.IsClosed() = %v", i, res.BoundMs, calls[i].Inst, insts[calls[i].Inst].IsClosed())
		}
	}
	// 5. the finite calls still parked: on an instance concerned, wait until the module is closed (the call's own watcher, or a
	// sibling's, must do it), then release; elsewhere just release. Then they return.
	for i := range calls {
		if !calls[i].InFlight || calls[i].Kind != "finite" {
			continue
		}
		if concerned[calls[i].Inst] && !expired {
			m := insts[calls[i].Inst]
			for !m.IsClosed() && !expired {
				select {
				case <-limit:
					expired = true
				default:
					time.Sleep(200 * time.Microsecond)
				}
			}
		}
		rel(i)
		select {
		case err := <-done[i]:
			calls[i].Returned, calls[i].Class = true, classOf(err)
			ev("", nil, "call %d released after the cause, returned %s; %s.IsClosed() = %v", i, calls[i].Class, calls[i].Inst, insts[calls[i].Inst].IsClosed())
		case <-time.After(bound):
			calls[i].Class = "hang"
		}
	}
	// 6. looping calls on an instance the cause does not concern keep running
	for i := range calls {
		if calls[i].InFlight && calls[i].Kind == "loop" && !concerned[calls[i].Inst] {
			time.Sleep(20 * time.Millisecond)
			select {
			case err := <-done[i]:
				calls[i].Returned, calls[i].Class = true, classOf(err)
			default:
				calls[i].Class = "running"
			}
			ev("", nil, "call %d (instance %s, not concerned by the cause): %s", i, calls[i].Inst, calls[i].Class)
		}
	}
	for nm, m := range insts {
		res.Closed[nm] = m.IsClosed()
	}
	finishAll()
	return
}
