// Overlay file for package experimental/sock (mapped to /repo/experimental/sock/zz_verif_export.go):
// exposes the internal *sock.Config an experimental sock.Config wraps, for the C19 harness.
package sock

import internalsock "github.com/tetratelabs/wazero/internal/sock"

// VerifInternal returns the wrapped internal configuration (nil for foreign implementations).
func VerifInternal(c Config) *internalsock.Config {
	if i, ok := c.(*internalSockConfig); ok {
		return i.c
	}
	return nil
}
