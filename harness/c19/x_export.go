// Overlay file for package wazero (mapped to /repo/zz_verif_export.go by harness/c19/overlay.json):
// a field-by-field deep dump of the unexported configuration structs for the C19
// correspondence harness. Nothing here writes to a configuration.
package wazero

import (
	"reflect"
	"unsafe"

	experimentalsys "github.com/tetratelabs/wazero/experimental/sys"
	internalsock "github.com/tetratelabs/wazero/internal/sock"
)

// VerifSlice is a slice as the heap model sees it: the address of its backing array (0 when cap == 0),
// len, cap.
type VerifSlice struct {
	Data     uintptr
	Len, Cap int
}

func verifSliceOf(v interface{}) VerifSlice {
	rv := reflect.ValueOf(v)
	s := VerifSlice{Len: rv.Len(), Cap: rv.Cap()}
	if rv.Cap() > 0 {
		s.Data = rv.Pointer()
	}
	return s
}

func verifMapPtr(v interface{}) uintptr {
	rv := reflect.ValueOf(v)
	if rv.IsNil() {
		return 0
	}
	return rv.Pointer()
}

func verifFuncPtr(v interface{}) uintptr {
	rv := reflect.ValueOf(v)
	if rv.IsNil() {
		return 0
	}
	return rv.Pointer()
}

type VerifR struct {
	Ptr                   uintptr
	EnabledFeatures       uint64
	MemoryLimitPages      uint32
	MemoryCapacityFromMax bool
	EngineKind            int
	DwarfDisabled         bool
	NewEngineSet          bool
	Cache                 interface{}
	StoreCustomSections   bool
	EnsureTermination     bool
}

type VerifF struct {
	Ptr           uintptr
	FS            []experimentalsys.FS
	FSSlice       VerifSlice
	GuestPaths    []string
	GuestPathsSl  VerifSlice
	GuestPathToFS map[string]int
	MapPtr        uintptr
}

type VerifS struct {
	Ptr    uintptr
	Addrs  []internalsock.TCPAddress
	AddrSl VerifSlice
}

type VerifM struct {
	Ptr                                    uintptr
	Name                                   string
	NameSet                                bool
	StartFunctions                         []string
	StartSl                                VerifSlice
	Stdin, Stdout, Stderr, RandSource      interface{}
	Walltime, Nanotime, Nanosleep, Osyield uintptr
	WalltimeResolution, NanotimeResolution int64
	Args                                   [][]byte
	ArgsSl                                 VerifSlice
	Environ                                [][]byte
	EnvironSl                              VerifSlice
	EnvironKeys                            map[string]int
	KeysPtr                                uintptr
	FSIsNil                                bool
	FSOther                                bool // an FSConfig that is not a *fsConfig
	FS                                     *VerifF
	Sock                                   *VerifS
}

// VerifDump returns *VerifR, *VerifM or *VerifF for the three configuration interfaces of this package.
// The slices and maps in the result ALIAS the configuration's own: the caller must copy what it keeps.
func VerifDump(cfg interface{}) interface{} {
	switch c := cfg.(type) {
	case *runtimeConfig:
		return &VerifR{
			Ptr: uintptr(unsafe.Pointer(c)), EnabledFeatures: uint64(c.enabledFeatures), MemoryLimitPages: c.memoryLimitPages,
			MemoryCapacityFromMax: c.memoryCapacityFromMax, EngineKind: int(c.engineKind), DwarfDisabled: c.dwarfDisabled,
			NewEngineSet: c.newEngine != nil, Cache: c.cache, StoreCustomSections: c.storeCustomSections,
			EnsureTermination: c.ensureTermination,
		}
	case *moduleConfig:
		m := &VerifM{
			Ptr: uintptr(unsafe.Pointer(c)), Name: c.name, NameSet: c.nameSet,
			StartFunctions: c.startFunctions, StartSl: verifSliceOf(c.startFunctions),
			Stdin: c.stdin, Stdout: c.stdout, Stderr: c.stderr, RandSource: c.randSource,
			Walltime: verifFuncPtr(c.walltime), Nanotime: verifFuncPtr(c.nanotime), Nanosleep: verifFuncPtr(c.nanosleep),
			Osyield: verifFuncPtr(c.osyield), WalltimeResolution: int64(c.walltimeResolution),
			NanotimeResolution: int64(c.nanotimeResolution),
			Args:               c.args, ArgsSl: verifSliceOf(c.args), Environ: c.environ, EnvironSl: verifSliceOf(c.environ),
			EnvironKeys: c.environKeys, KeysPtr: verifMapPtr(c.environKeys),
		}
		switch f := c.fsConfig.(type) {
		case nil:
			m.FSIsNil = true
		case *fsConfig:
			if f == nil {
				m.FSIsNil = true
			} else {
				m.FS = verifDumpF(f)
			}
		default:
			m.FSOther = true
		}
		if c.sockConfig != nil {
			m.Sock = VerifDumpSock(c.sockConfig)
		}
		return m
	case *fsConfig:
		return verifDumpF(c)
	}
	return nil
}

func verifDumpF(c *fsConfig) *VerifF {
	return &VerifF{
		Ptr: uintptr(unsafe.Pointer(c)), FS: c.fs, FSSlice: verifSliceOf(c.fs), GuestPaths: c.guestPaths,
		GuestPathsSl: verifSliceOf(c.guestPaths), GuestPathToFS: c.guestPathToFS, MapPtr: verifMapPtr(c.guestPathToFS),
	}
}

// VerifDumpSock dumps an internal sock.Config (all its fields are exported).
func VerifDumpSock(c *internalsock.Config) *VerifS {
	return &VerifS{Ptr: uintptr(unsafe.Pointer(c)), Addrs: c.TCPAddresses, AddrSl: verifSliceOf(c.TCPAddresses)}
}
