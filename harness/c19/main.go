// C19 correspondence harness: random derivation trees over every With... method of RuntimeConfig,
// ModuleConfig, FSConfig (incl. the experimental WithSysFSMount) and the experimental sock Config, plus
// InstantiateModule / NewRuntimeWithConfig with nodes of the tree. Every node is deep-dumped (through the
// overlay export in package wazero) when created, after EVERY later operation and at the end; one JSON
// case per line. A sample of trees is additionally extended from 8 goroutines at once.
package main

import (
	"context"
	"flag"
	"fmt"
	"io"
	"io/fs"
	"reflect"
	"sort"
	"strings"
	"sync"
	"sync/atomic"
	"testing/fstest"

	"github.com/tetratelabs/wazero"
	"github.com/tetratelabs/wazero/api"
	"github.com/tetratelabs/wazero/experimental/sock"
	experimentalsys "github.com/tetratelabs/wazero/experimental/sys"
	expsysfs "github.com/tetratelabs/wazero/experimental/sysfs"
	"github.com/tetratelabs/wazero/internal/platform"
	internalsys "github.com/tetratelabs/wazero/internal/sys"
	"github.com/tetratelabs/wazero/internal/sysfs"
	"github.com/tetratelabs/wazero/internal/wasm"
	c "github.com/tetratelabs/wazero/internal/zz_verif/common"
	"github.com/tetratelabs/wazero/sys"
)

// ---- opaque values with identities ----
type tagRW struct{ id int64 }

func (t *tagRW) Read(p []byte) (int, error)  { return 0, io.EOF }
func (t *tagRW) Write(p []byte) (int, error) { return len(p), nil }

type tagFS struct {
	fstest.MapFS
	id int64
}

type rawFS struct {
	experimentalsys.UnimplementedFS
	id int64
}

func wall1() (int64, int32) { return 1, 0 }
func wall2() (int64, int32) { return 2, 0 }
func nano1() int64          { return 1 }
func nano2() int64          { return 2 }
func sleep1(int64)                         {}
func sleep2(int64)                         { _ = 2 }
func yield1()                              {}
func yield2()                              { _ = 2 }

var (
	rws    = []*tagRW{nil, {1}, {2}, {3}}
	tfs    = []*tagFS{nil, {fstest.MapFS{}, 1}, {fstest.MapFS{}, 2}}
	rfs    = []*rawFS{nil, {id: 1}, {id: 2}}
	walls  = []sys.Walltime{nil, wall1, wall2}
	nanos  = []sys.Nanotime{nil, nano1, nano2}
	sleeps = []sys.Nanosleep{nil, sleep1, sleep2}
	yields = []sys.Osyield{nil, yield1, yield2}
	caches []wazero.CompilationCache
)

func fptr(f interface{}) uintptr {
	v := reflect.ValueOf(f)
	if !v.IsValid() || v.IsNil() {
		return 0
	}
	return v.Pointer()
}

var funcIDs map[uintptr]int64

func initFuncIDs() {
	funcIDs = map[uintptr]int64{0: 0}
	for i := 1; i < 3; i++ {
		funcIDs[fptr(walls[i])] = int64(i)
		funcIDs[fptr(nanos[i])] = int64(i)
		funcIDs[fptr(sleeps[i])] = int64(i)
		funcIDs[fptr(yields[i])] = int64(i)
	}
	funcIDs[fptr(sys.Walltime(platform.Walltime))] = 1000
	funcIDs[fptr(sys.Nanotime(platform.Nanotime))] = 1001
	funcIDs[fptr(sys.Nanosleep(platform.Nanosleep))] = 1002
}

func funcID(p uintptr) int64 {
	if id, ok := funcIDs[p]; ok {
		return id
	}
	return -777
}

// ---- strings as identities ----
var (
	strMu  sync.Mutex
	strTab = []string{"", "_start"}
	strIdx = map[string]int64{"": 0, "_start": 1}
)

func sid(s string) int64 {
	strMu.Lock()
	defer strMu.Unlock()
	if i, ok := strIdx[s]; ok {
		return i
	}
	i := int64(len(strTab))
	strTab = append(strTab, s)
	strIdx[s] = i
	return i
}

func rwID(v interface{}) int64 {
	if v == nil {
		return 0
	}
	if t, ok := v.(*tagRW); ok {
		if t == nil {
			return 0
		}
		return t.id
	}
	return -777
}

func fsValID(f experimentalsys.FS) int64 {
	switch v := f.(type) {
	case nil:
		return 0
	case *sysfs.AdaptFS:
		if t, ok := v.FS.(*tagFS); ok {
			return 4*t.id + 3
		}
		return -777
	case *sysfs.ReadFS:
		return 4*sid(fmt.Sprint(v.FS)) + 2
	case *rawFS:
		return 4*v.id + 4
	}
	if fmt.Sprintf("%T", f) == "*sysfs.dirFS" {
		return 4*sid(fmt.Sprint(f)) + 1
	}
	return -777
}

func b2i(b bool) int64 {
	if b {
		return 1
	}
	return 0
}

func sortedMap(m map[string]int) []int64 {
	type kv struct{ k, v int64 }
	var l []kv
	for k, v := range m {
		l = append(l, kv{sid(k), int64(v)})
	}
	sort.Slice(l, func(i, j int) bool { return l[i].k < l[j].k })
	o := []int64{}
	for _, e := range l {
		o = append(o, e.k, e.v)
	}
	return o
}

func strRow(l []string) []int64 {
	o := []int64{}
	for _, s := range l {
		o = append(o, sid(s))
	}
	return o
}
func bytesRow(l [][]byte) []int64 {
	o := []int64{}
	for _, s := range l {
		o = append(o, sid(string(s)))
	}
	return o
}

// ---- nodes ----
type node struct {
	kind byte // 'R' 'M' 'F' 'S'
	r    wazero.RuntimeConfig
	m    wazero.ModuleConfig
	f    wazero.FSConfig
	s    sock.Config
}

func cacheID(v interface{}) int64 {
	if v == nil {
		return 0
	}
	for i, ca := range caches {
		if ca != nil && v == interface{}(ca) {
			return int64(i)
		}
	}
	return -777
}

func fRows(f *wazero.VerifF) [][]int64 {
	fsr := []int64{}
	for _, x := range f.FS {
		fsr = append(fsr, fsValID(x))
	}
	return [][]int64{fsr, strRow(f.GuestPaths), sortedMap(f.GuestPathToFS)}
}
func sRows(s *wazero.VerifS) [][]int64 {
	o := []int64{}
	for _, a := range s.Addrs {
		o = append(o, sid(a.String()))
	}
	return [][]int64{o}
}
func slID(s wazero.VerifSlice) int64 {
	if s.Cap == 0 {
		return -1
	}
	return int64(s.Data)
}
func ptrOr(p uintptr) int64 {
	if p == 0 {
		return -1
	}
	return int64(p)
}

// dump returns the address-free rows of a node (the same rendering as Rt/Config.v `rows`) and its raw identities (`ids`).
func dump(n *node) (rows [][]int64, ids []int64) {
	switch n.kind {
	case 'R':
		d := wazero.VerifDump(n.r).(*wazero.VerifR)
		return [][]int64{{0}, {int64(d.EnabledFeatures), int64(d.MemoryLimitPages), b2i(d.MemoryCapacityFromMax), int64(d.EngineKind),
			b2i(d.DwarfDisabled), b2i(d.NewEngineSet), cacheID(d.Cache), b2i(d.StoreCustomSections), b2i(d.EnsureTermination)}}, []int64{int64(d.Ptr)}
	case 'M':
		d := wazero.VerifDump(n.m).(*wazero.VerifM)
		rows = [][]int64{{1}, {sid(d.Name), b2i(d.NameSet), rwID(d.Stdin), rwID(d.Stdout), rwID(d.Stderr), rwID(d.RandSource),
			funcID(d.Walltime), d.WalltimeResolution, funcID(d.Nanotime), d.NanotimeResolution, funcID(d.Nanosleep), funcID(d.Osyield)},
			strRow(d.StartFunctions), bytesRow(d.Args), bytesRow(d.Environ), sortedMap(d.EnvironKeys)}
		ids = []int64{int64(d.Ptr), slID(d.StartSl), slID(d.ArgsSl), slID(d.EnvironSl), ptrOr(d.KeysPtr)}
		switch {
		case d.FSOther:
			rows = append(rows, []int64{-1})
			ids = append(ids, -1)
		case d.FSIsNil:
			rows = append(rows, []int64{0})
			ids = append(ids, -1)
		default:
			rows = append(rows, []int64{1})
			rows = append(rows, fRows(d.FS)...)
			ids = append(ids, int64(d.FS.Ptr))
		}
		if d.Sock == nil {
			rows = append(rows, []int64{0})
			ids = append(ids, -1)
		} else {
			rows = append(rows, []int64{1})
			rows = append(rows, sRows(d.Sock)...)
			ids = append(ids, int64(d.Sock.Ptr))
		}
		return rows, ids
	case 'F':
		d := wazero.VerifDump(n.f).(*wazero.VerifF)
		return append([][]int64{{2}}, fRows(d)...), []int64{int64(d.Ptr), slID(d.FSSlice), slID(d.GuestPathsSl), ptrOr(d.MapPtr)}
	case 'S':
		d := wazero.VerifDumpSock(sock.VerifInternal(n.s))
		return append([][]int64{{3}}, sRows(d)...), []int64{int64(d.Ptr), slID(d.AddrSl)}
	}
	return nil, nil
}

func canon(ids []int64) []int64 {
	t := map[int64]int64{}
	o := make([]int64, len(ids))
	for i, x := range ids {
		if x < 0 {
			o[i] = x
			continue
		}
		v, ok := t[x]
		if !ok {
			v = int64(len(t))
			t[x] = v
		}
		o[i] = v
	}
	return o
}

func rowsEq(a, b [][]int64) bool {
	if len(a) != len(b) {
		return false
	}
	for i := range a {
		if len(a[i]) != len(b[i]) {
			return false
		}
		for j := range a[i] {
			if a[i][j] != b[i][j] {
				return false
			}
		}
	}
	return true
}

// ---- string pools ----
var (
	envKeys  = []string{"K0", "K1", "K2", "K3", "K4", "K5", "HOME", "PATH"}
	badKeys  = []string{"", "A=B"}
	envVals  = []string{"", "v0", "v1", "v2", "v3", "x=y", "a b"}
	argPool  = []string{"a0", "a1", "--flag", "x", "arg with space"}
	badArgs  = []string{"", "nul\x00x"}
	names    = []string{"", "m0", "m1", "m2"}
	dirs     = []string{"/tmp", "/nonexistent-dir", ".", "/"}
	gpaths   = []string{"", "/", ".", "./", "tmp", "/tmp", "/tmp/", "a/b", "./a/b/", "/a", "b", "/c", "d/", "e", "/f", "g", "x/y", "/z"}
	startFns = []string{"_start", "_initialize", "run", ""}
)

type Case struct {
	Ops     [][]any     `json:"ops"`
	Kinds   string      `json:"kinds"`
	Created [][][]int64 `json:"created"`
	Final   [][][]int64 `json:"final"`
	Ids     []int64     `json:"ids"`
	Obs     [][][]int64 `json:"obs"`
	Changed [][]int     `json:"changed"` // [op index, node index] where a node's dump differed from its creation dump
	Conc    bool        `json:"conc"`
	ConcOps int         `json:"conc_ops"`
	Errs    []string    `json:"errs,omitempty"`
}

type env struct {
	ctx      context.Context
	rt       wazero.Runtime
	compiled wazero.CompiledModule
	named    wazero.CompiledModule // the same empty module with a name section: module name "alpha"
	ninst    atomic.Int32
}

func pickS(r *c.Rng, pool []string) string { return pool[r.Intn(len(pool))] }

// gen builds one random operation applicable to the current nodes. Returns nil if none applies.
type opFn func() (res *node, obs [][]int64)

func idsOf(l []string) []int64 { return strRow(l) }

func (e *env) instantiate(n *node, sc sock.Config) [][]int64 {
	ctx := e.ctx
	if sc != nil {
		ctx = sock.WithConfig(ctx, sc)
	}
	// the binary alternates between one whose name section names the module and one without a name section: a name
	// taken from the binary must not stick to the configuration (the dumps of all nodes are compared after every operation)
	cm := e.compiled
	if e.named != nil {
		if e.ninst.Add(1)%2 == 1 {
			cm = e.named
		}
	}
	mod, err := e.rt.InstantiateModule(ctx, cm, n.m)
	if err != nil || mod == nil {
		if mod != nil {
			mod.Close(e.ctx)
		}
		return [][]int64{{-2}}
	}
	defer mod.Close(e.ctx)
	sc2 := mod.(*wasm.ModuleInstance).Sys
	envr := []int64{}
	for _, kv := range sc2.Environ() {
		s := string(kv)
		i := strings.IndexByte(s, '=')
		envr = append(envr, sid(s[:i]), sid(s[i+1:]))
	}
	pre := []int64{}
	for fd := int32(3); ; fd++ {
		fe, ok := sc2.FS().LookupFile(fd)
		if !ok {
			break
		}
		if fe.IsPreopen && fe.Name != "" {
			pre = append(pre, fsValID(fe.FS))
		}
	}
	return [][]int64{bytesRow(sc2.Args()), envr, pre}
}

// one derivation from `nodes` chosen by rng; returns the encoded op, the new node (or nil) and the observation.
func (e *env) randomOp(r *c.Rng, nodes []*node, allowNew bool) (op []any, res *node, obs [][]int64) {
	guard := func(f func() *node) (n *node, ob [][]int64) {
		defer func() {
			if x := recover(); x != nil {
				n, ob = nil, [][]int64{{-1}}
			}
		}()
		return f(), [][]int64{}
	}
	byKind := func(k byte) []int {
		var l []int
		for i, n := range nodes {
			if n.kind == k {
				l = append(l, i)
			}
		}
		return l
	}
	pickNode := func(k byte) int {
		l := byKind(k)
		if len(l) == 0 {
			return -1
		}
		// bias towards recent nodes and towards re-using the same parent (siblings)
		if r.Intn(3) == 0 {
			return l[len(l)-1]
		}
		return l[r.Intn(len(l))]
	}
	have := func(k byte) bool { return len(byKind(k)) > 0 }
	// roots are created when missing, otherwise rarely: trees should be deep and bushy, not wide at the root
	wantRoot := func(k byte) bool { return allowNew && (!have(k) || r.Intn(5) == 0) }
	for tries := 0; tries < 80; tries++ {
		switch k := r.Intn(22); {
		case k == 0:
			if !wantRoot('R') {
				continue
			}
			kind := int64(r.Intn(3)) - 1
			return []any{"newR", kind}, &node{kind: 'R', r: []func() wazero.RuntimeConfig{wazero.NewRuntimeConfig, wazero.NewRuntimeConfigCompiler, wazero.NewRuntimeConfigInterpreter}[kind+1]()}, [][]int64{}
		case k == 1:
			if !wantRoot('M') {
				continue
			}
			return []any{"newM"}, &node{kind: 'M', m: wazero.NewModuleConfig()}, [][]int64{}
		case k == 2:
			if !wantRoot('F') {
				continue
			}
			return []any{"newF"}, &node{kind: 'F', f: wazero.NewFSConfig()}, [][]int64{}
		case k == 3:
			if !wantRoot('S') {
				continue
			}
			return []any{"newS"}, &node{kind: 'S', s: sock.NewConfig()}, [][]int64{}
		case k == 4 || k == 5: // RuntimeConfig
			i := pickNode('R')
			if i < 0 {
				continue
			}
			p := nodes[i].r
			b := r.Bool()
			switch m := r.Intn(7); m {
			case 0:
				v := []uint64{0, uint64(api.CoreFeaturesV1), uint64(api.CoreFeaturesV2), uint64(api.CoreFeaturesV2) | 1<<20, r.U64() & 0xffff}[r.Intn(5)]
				n, ob := guard(func() *node { return &node{kind: 'R', r: p.WithCoreFeatures(api.CoreFeatures(v))} })
				return []any{"R", i, "CoreFeatures", int64(v)}, n, ob
			case 1:
				n, ob := guard(func() *node { return &node{kind: 'R', r: p.WithCloseOnContextDone(b)} })
				return []any{"R", i, "CloseOnContextDone", b2i(b)}, n, ob
			case 2:
				v := []uint32{0, 1, 2, 10, 65535, 65536, 65537, 1 << 31}[r.Intn(8)]
				n, ob := guard(func() *node { return &node{kind: 'R', r: p.WithMemoryLimitPages(v)} })
				return []any{"R", i, "MemoryLimitPages", int64(v)}, n, ob
			case 3:
				ci := r.Intn(len(caches))
				n, ob := guard(func() *node { return &node{kind: 'R', r: p.WithCompilationCache(caches[ci])} })
				return []any{"R", i, "CompilationCache", int64(ci)}, n, ob
			case 4:
				n, ob := guard(func() *node { return &node{kind: 'R', r: p.WithMemoryCapacityFromMax(b)} })
				return []any{"R", i, "MemoryCapacityFromMax", b2i(b)}, n, ob
			case 5:
				n, ob := guard(func() *node { return &node{kind: 'R', r: p.WithDebugInfoEnabled(b)} })
				return []any{"R", i, "DebugInfoEnabled", b2i(b)}, n, ob
			default:
				n, ob := guard(func() *node { return &node{kind: 'R', r: p.WithCustomSections(b)} })
				return []any{"R", i, "CustomSections", b2i(b)}, n, ob
			}
		case k >= 6 && k <= 13: // ModuleConfig
			i := pickNode('M')
			if i < 0 {
				continue
			}
			p := nodes[i].m
			mk := func(f func() wazero.ModuleConfig) (*node, [][]int64) {
				return guard(func() *node { return &node{kind: 'M', m: f()} })
			}
			switch m := r.Intn(24); {
			case m < 7: // WithEnv dominates: it is where aliasing can happen
				key := pickS(r, envKeys)
				if r.Intn(25) == 0 {
					key = pickS(r, badKeys)
				}
				val := pickS(r, envVals)
				n, ob := mk(func() wazero.ModuleConfig { return p.WithEnv(key, val) })
				return []any{"M", i, "Env", sid(key), sid(val)}, n, ob
			case m < 9:
				var args []string
				for j := r.Intn(4); j > 0; j-- {
					if r.Intn(30) == 0 {
						args = append(args, pickS(r, badArgs))
					} else {
						args = append(args, pickS(r, argPool))
					}
				}
				n, ob := mk(func() wazero.ModuleConfig { return p.WithArgs(args...) })
				return []any{"M", i, "Args", idsOf(args)}, n, ob
			case m == 9:
				fi := r.Intn(len(tfs))
				n, ob := mk(func() wazero.ModuleConfig {
					if fi == 0 {
						return p.WithFS(nil)
					}
					return p.WithFS(tfs[fi])
				})
				return []any{"M", i, "FS", int64(fi)}, n, ob
			case m == 10 || m == 11:
				fi := pickNode('F')
				if fi < 0 || r.Intn(5) == 0 {
					n, ob := mk(func() wazero.ModuleConfig { return p.WithFSConfig(nil) })
					return []any{"M", i, "FSConfig", int64(-1)}, n, ob
				}
				fc := nodes[fi].f
				n, ob := mk(func() wazero.ModuleConfig { return p.WithFSConfig(fc) })
				return []any{"M", i, "FSConfig", int64(fi)}, n, ob
			case m == 12:
				nm := pickS(r, names)
				n, ob := mk(func() wazero.ModuleConfig { return p.WithName(nm) })
				return []any{"M", i, "Name", sid(nm)}, n, ob
			case m == 13:
				var fns []string
				for j := r.Intn(3); j > 0; j-- {
					fns = append(fns, pickS(r, startFns))
				}
				n, ob := mk(func() wazero.ModuleConfig { return p.WithStartFunctions(fns...) })
				return []any{"M", i, "StartFunctions", idsOf(fns)}, n, ob
			case m == 14:
				w := r.Intn(len(rws))
				n, ob := mk(func() wazero.ModuleConfig {
					if w == 0 {
						return p.WithStderr(nil)
					}
					return p.WithStderr(rws[w])
				})
				return []any{"M", i, "Stderr", int64(w)}, n, ob
			case m == 15:
				w := r.Intn(len(rws))
				n, ob := mk(func() wazero.ModuleConfig {
					if w == 0 {
						return p.WithStdin(nil)
					}
					return p.WithStdin(rws[w])
				})
				return []any{"M", i, "Stdin", int64(w)}, n, ob
			case m == 16:
				w := r.Intn(len(rws))
				n, ob := mk(func() wazero.ModuleConfig {
					if w == 0 {
						return p.WithStdout(nil)
					}
					return p.WithStdout(rws[w])
				})
				return []any{"M", i, "Stdout", int64(w)}, n, ob
			case m == 17:
				fi := r.Intn(len(walls))
				res := []int64{0, 1, 1000, 1000000, 4294967295}[r.Intn(5)]
				n, ob := mk(func() wazero.ModuleConfig { return p.WithWalltime(walls[fi], sys.ClockResolution(res)) })
				return []any{"M", i, "Walltime", int64(fi), res}, n, ob
			case m == 18:
				n, ob := mk(func() wazero.ModuleConfig { return p.WithSysWalltime() })
				return []any{"M", i, "SysWalltime"}, n, ob
			case m == 19:
				fi := r.Intn(len(nanos))
				res := []int64{0, 1, 1000, 1000000}[r.Intn(4)]
				n, ob := mk(func() wazero.ModuleConfig { return p.WithNanotime(nanos[fi], sys.ClockResolution(res)) })
				return []any{"M", i, "Nanotime", int64(fi), res}, n, ob
			case m == 20:
				n, ob := mk(func() wazero.ModuleConfig { return p.WithSysNanotime() })
				return []any{"M", i, "SysNanotime"}, n, ob
			case m == 21:
				switch r.Intn(3) {
				case 0:
					fi := r.Intn(len(sleeps))
					n, ob := mk(func() wazero.ModuleConfig { return p.WithNanosleep(sleeps[fi]) })
					return []any{"M", i, "Nanosleep", int64(fi)}, n, ob
				case 1:
					n, ob := mk(func() wazero.ModuleConfig { return p.WithSysNanosleep() })
					return []any{"M", i, "SysNanosleep"}, n, ob
				default:
					fi := r.Intn(len(yields))
					n, ob := mk(func() wazero.ModuleConfig { return p.WithOsyield(yields[fi]) })
					return []any{"M", i, "Osyield", int64(fi)}, n, ob
				}
			default:
				w := r.Intn(len(rws))
				n, ob := mk(func() wazero.ModuleConfig {
					if w == 0 {
						return p.WithRandSource(nil)
					}
					return p.WithRandSource(rws[w])
				})
				return []any{"M", i, "RandSource", int64(w)}, n, ob
			}
		case k >= 14 && k <= 16: // FSConfig
			i := pickNode('F')
			if i < 0 {
				continue
			}
			p := nodes[i].f
			gp := pickS(r, gpaths)
			cl := internalsys.StripPrefixesAndTrailingSlash(gp)
			mk := func(f func() wazero.FSConfig) (*node, [][]int64) {
				return guard(func() *node { return &node{kind: 'F', f: f()} })
			}
			switch r.Intn(5) {
			case 0:
				d := pickS(r, dirs)
				if r.Intn(40) == 0 {
					d = "" // sysfs.DirFS("") panics
				}
				n, ob := mk(func() wazero.FSConfig { return p.WithDirMount(d, gp) })
				return []any{"F", i, "DirMount", sid(d), sid(gp), sid(cl)}, n, ob
			case 1:
				d := pickS(r, dirs)
				n, ob := mk(func() wazero.FSConfig { return p.WithReadOnlyDirMount(d, gp) })
				return []any{"F", i, "ReadOnlyDirMount", sid(d), sid(gp), sid(cl)}, n, ob
			case 2, 3:
				fi := r.Intn(len(tfs))
				n, ob := mk(func() wazero.FSConfig {
					if fi == 0 {
						return p.WithFSMount(nil, gp)
					}
					var f fs.FS = tfs[fi]
					return p.WithFSMount(f, gp)
				})
				return []any{"F", i, "FSMount", int64(fi), sid(gp), sid(cl)}, n, ob
			default:
				sc := p.(expsysfs.FSConfig)
				switch r.Intn(4) {
				case 0:
					n, ob := mk(func() wazero.FSConfig { return sc.WithSysFSMount(experimentalsys.UnimplementedFS{}, gp) })
					return []any{"F", i, "SysFSMount", int64(0), sid(gp), sid(cl), int64(1)}, n, ob
				case 1:
					n, ob := mk(func() wazero.FSConfig { return sc.WithSysFSMount(nil, gp) })
					return []any{"F", i, "SysFSMount", int64(0), sid(gp), sid(cl), int64(0)}, n, ob
				default:
					fi := 1 + r.Intn(len(rfs)-1)
					n, ob := mk(func() wazero.FSConfig { return sc.WithSysFSMount(rfs[fi], gp) })
					return []any{"F", i, "SysFSMount", 4*int64(fi) + 4, sid(gp), sid(cl), int64(0)}, n, ob
				}
			}
		case k == 17: // sock config
			i := pickNode('S')
			if i < 0 {
				continue
			}
			p := nodes[i].s
			host := []string{"127.0.0.1", "localhost"}[r.Intn(2)]
			n, ob := guard(func() *node { return &node{kind: 'S', s: p.WithTCPListener(host, 0)} })
			return []any{"S", i, sid(fmt.Sprintf("%s:%d", host, 0))}, n, ob
		case k >= 18 && k <= 20: // InstantiateModule
			i := pickNode('M')
			if i < 0 {
				continue
			}
			si := -1
			var sc sock.Config
			if r.Intn(2) == 0 {
				si = pickNode('S')
				for t := 0; t < 4 && si >= 0 && len(sock.VerifInternal(nodes[si].s).TCPAddresses) == 0; t++ {
					si = pickNode('S') // prefer a sock config with at least one listener (the others are ignored by sock.WithConfig)
				}
				if si >= 0 {
					sc = nodes[si].s
				}
			}
			var ob [][]int64
			func() {
				defer func() {
					if x := recover(); x != nil {
						ob = [][]int64{{-1}}
					}
				}()
				ob = e.instantiate(nodes[i], sc)
			}()
			return []any{"inst", i, int64(si)}, nil, ob
		default: // NewRuntimeWithConfig
			i := pickNode('R')
			if i < 0 || r.Intn(2) != 0 {
				continue
			}
			var ob [][]int64 = [][]int64{}
			func() {
				defer func() {
					if x := recover(); x != nil {
						ob = [][]int64{{-1}}
					}
				}()
				rt := wazero.NewRuntimeWithConfig(e.ctx, nodes[i].r)
				rt.Close(e.ctx)
			}()
			return []any{"newrt", i}, nil, ob
		}
	}
	return nil, nil, nil
}

// a step of a fixed (regression) scenario
type step func(e *env, nodes []*node) ([]any, *node, [][]int64)

func stNewM() step {
	return func(e *env, nodes []*node) ([]any, *node, [][]int64) {
		return []any{"newM"}, &node{kind: 'M', m: wazero.NewModuleConfig()}, [][]int64{}
	}
}
func stNewS() step {
	return func(e *env, nodes []*node) ([]any, *node, [][]int64) {
		return []any{"newS"}, &node{kind: 'S', s: sock.NewConfig()}, [][]int64{}
	}
}
func stNewF() step {
	return func(e *env, nodes []*node) ([]any, *node, [][]int64) {
		return []any{"newF"}, &node{kind: 'F', f: wazero.NewFSConfig()}, [][]int64{}
	}
}
func stEnv(p int, k, v string) step {
	return func(e *env, nodes []*node) ([]any, *node, [][]int64) {
		return []any{"M", p, "Env", sid(k), sid(v)}, &node{kind: 'M', m: nodes[p].m.WithEnv(k, v)}, [][]int64{}
	}
}
func stName(p int, nm string) step {
	return func(e *env, nodes []*node) ([]any, *node, [][]int64) {
		return []any{"M", p, "Name", sid(nm)}, &node{kind: 'M', m: nodes[p].m.WithName(nm)}, [][]int64{}
	}
}
func stNanosleep(p int) step {
	return func(e *env, nodes []*node) ([]any, *node, [][]int64) {
		return []any{"M", p, "Nanosleep", int64(1)}, &node{kind: 'M', m: nodes[p].m.WithNanosleep(sleeps[1])}, [][]int64{}
	}
}
func stFSConfig(p, f int) step {
	return func(e *env, nodes []*node) ([]any, *node, [][]int64) {
		return []any{"M", p, "FSConfig", int64(f)}, &node{kind: 'M', m: nodes[p].m.WithFSConfig(nodes[f].f)}, [][]int64{}
	}
}
func stListener(p int) step {
	return func(e *env, nodes []*node) ([]any, *node, [][]int64) {
		return []any{"S", p, sid("127.0.0.1:0")}, &node{kind: 'S', s: nodes[p].s.WithTCPListener("127.0.0.1", 0)}, [][]int64{}
	}
}
func stFSMount(p, fi int, gp string) step {
	return func(e *env, nodes []*node) ([]any, *node, [][]int64) {
		cl := internalsys.StripPrefixesAndTrailingSlash(gp)
		return []any{"F", p, "FSMount", int64(fi), sid(gp), sid(cl)}, &node{kind: 'F', f: nodes[p].f.WithFSMount(tfs[fi], gp)}, [][]int64{}
	}
}
func stInst(n, s int) step {
	return func(e *env, nodes []*node) ([]any, *node, [][]int64) {
		var sc sock.Config
		if s >= 0 {
			sc = nodes[s].s
		}
		return []any{"inst", n, int64(s)}, nil, e.instantiate(nodes[n], sc)
	}
}

// the shapes of the two defects repaired by `fix:` commits (siblings sharing environ; InstantiateModule writing the
// caller's struct) and their file-system analogue: replayed first on every run, whatever the seed
func fixedScenarios() [][]step {
	return [][]step{
		{stNewM(), stEnv(0, "K0", "v0"), stEnv(1, "K1", "v1"), stEnv(2, "K2", "v2"), stEnv(3, "K3", "v0"), stEnv(3, "K3", "v1"),
			stEnv(3, "K4", "v2"), stEnv(4, "K5", "v3"), stInst(4, -1), stInst(5, -1)},
		{stNewM(), stEnv(0, "K0", "v0"), stEnv(1, "K0", "v1"), stEnv(1, "K0", "v2"), stNanosleep(1), stEnv(4, "K0", "v3"),
			stEnv(4, "K1", "v0"), stEnv(1, "K1", "v1"), stInst(1, -1)},
		{stNewM(), stNewS(), stListener(1), stName(0, "m0"), stInst(3, 2), stInst(0, 2), stInst(3, -1), stInst(3, 1), stListener(2), stInst(3, 4)},
		// derive AFTER instantiating: what an instantiation may have remembered about a configuration must not reach the
		// configurations derived from it later (overwriting a key keeps the number of pairs; adding one changes it)
		{stNewM(), stEnv(0, "K0", "v0"), stEnv(1, "K1", "v1"), stInst(2, -1), stEnv(2, "K0", "v2"), stInst(3, -1), stInst(2, -1), stEnv(3, "K1", "v3"),
			stInst(4, -1), stNanosleep(2), stInst(5, -1), stEnv(5, "K0", "v1"), stInst(6, -1), stEnv(2, "K2", "v0"), stInst(7, -1), stInst(2, -1)},
		{stNewF(), stFSMount(0, 1, "/tmp"), stFSMount(1, 2, "tmp/"), stFSMount(1, 1, "a"), stFSMount(1, 2, "b"), stFSMount(3, 2, "c"),
			stNewM(), stFSConfig(6, 1), stInst(7, -1), stFSMount(1, 1, "/tmp/")},
		// siblings derived from a base holding 3 (then 5, 6, 7) mounts: the shape where a shared backing array with
		// spare capacity shows; the first sibling is then mounted in a guest
		{stNewF(), stFSMount(0, 1, "a"), stFSMount(1, 2, "b"), stFSMount(2, 1, "/c"), stFSMount(3, 1, "x/y"), stFSMount(3, 2, "/z"),
			stFSMount(3, 2, "e"), stNewM(), stFSConfig(7, 4), stInst(8, -1)},
		{stNewF(), stFSMount(0, 1, "a"), stFSMount(1, 2, "b"), stFSMount(2, 1, "/c"), stFSMount(3, 1, "d/"), stFSMount(4, 2, "e"),
			stFSMount(5, 1, "x/y"), stFSMount(5, 2, "/z"), stFSMount(5, 1, "/f"), stFSMount(8, 2, "g"), stFSMount(8, 1, "tmp"), stFSMount(8, 2, "/z"),
			stFSMount(9, 1, "/z"), stFSMount(9, 2, "tmp"), stNewM(), stFSConfig(14, 6), stInst(15, -1), stFSConfig(14, 9), stInst(16, -1)},
	}
}

func runTree(e *env, r *c.Rng, nops int, conc bool, fixed []step) Case {
	cs := Case{Ops: [][]any{}, Obs: [][][]int64{}, Changed: [][]int{}, Conc: conc}
	var nodes []*node
	check := func(opi int) {
		for j, n := range nodes {
			rows, _ := dump(n)
			if !rowsEq(rows, cs.Created[j]) {
				cs.Changed = append(cs.Changed, []int{opi, j})
			}
		}
	}
	// a third of the trees start with a chain of WithEnv on one module configuration (the shape where a shared
	// backing array with spare capacity would show), the rest is random
	var script [][]string
	var fsScript [][]any // a chain of k mounts on distinct guest paths, then sibling derivations from its end and its interior
	if fixed == nil && r.Intn(4) == 0 {
		k := 1 + r.Intn(9)
		perm := []string{"tmp", "/a", "b", "/c", "d/", "e", "/f", "g", "x/y", "/z", "a/b", ""}
		for i := len(perm) - 1; i > 0; i-- {
			j := r.Intn(i + 1)
			perm[i], perm[j] = perm[j], perm[i]
		}
		for j := 0; j < k; j++ {
			fsScript = append(fsScript, []any{-1, 1 + r.Intn(2), perm[j]}) // parent -1: the latest node
		}
		for j := 2 + r.Intn(3); j > 0; j-- {
			par := k // the chain's end (node 0 is the root)
			if r.Intn(3) == 0 {
				par = 1 + r.Intn(k)
			}
			fsScript = append(fsScript, []any{par, 1 + r.Intn(2), perm[(k+j)%len(perm)]})
		}
	} else if fixed == nil && r.Intn(3) == 0 {
		for j := 1 + r.Intn(5); j > 0; j-- {
			script = append(script, []string{pickS(r, envKeys), pickS(r, envVals)})
		}
	}
	for len(cs.Ops) < nops {
		var op []any
		var res *node
		var obs [][]int64
		if fixed != nil {
			if len(cs.Ops) >= len(fixed) {
				break
			}
			op, res, obs = fixed[len(cs.Ops)](e, nodes)
		} else if len(fsScript) > 0 {
			if len(nodes) == 0 {
				op, res, obs = stNewF()(e, nodes)
			} else {
				st := fsScript[0]
				fsScript = fsScript[1:]
				par := st[0].(int)
				if par < 0 {
					par = len(nodes) - 1
				}
				op, res, obs = stFSMount(par, st[1].(int), st[2].(string))(e, nodes)
				if len(fsScript) == 0 { // what a guest sees through the chain's end after its siblings were derived
					fsScript = nil
				}
			}
		} else if len(script) > 0 {
			if len(nodes) == 0 {
				op, res, obs = []any{"newM"}, &node{kind: 'M', m: wazero.NewModuleConfig()}, [][]int64{}
			} else {
				kv := script[0]
				script = script[1:]
				last := len(nodes) - 1
				op, res, obs = []any{"M", last, "Env", sid(kv[0]), sid(kv[1])}, &node{kind: 'M', m: nodes[last].m.WithEnv(kv[0], kv[1])}, [][]int64{}
			}
		} else {
			op, res, obs = e.randomOp(r, nodes, true)
		}
		if op == nil {
			break
		}
		cs.Ops = append(cs.Ops, op)
		cs.Obs = append(cs.Obs, obs)
		check(len(cs.Ops) - 1) // before the new node is added: every earlier node against its creation dump
		if res != nil {
			nodes = append(nodes, res)
			rows, _ := dump(res)
			cs.Created = append(cs.Created, rows)
			cs.Kinds += string(res.kind)
		}
	}
	if conc && len(nodes) > 0 {
		var wg sync.WaitGroup
		var mu sync.Mutex
		for g := 0; g < 8; g++ {
			wg.Add(1)
			gr := c.NewRng(r.U64())
			go func() {
				defer wg.Done()
				local := append([]*node(nil), nodes...)
				n := 0
				for j := 0; j < 12; j++ {
					// derive from the SHARED nodes most of the time, sometimes from this goroutine's own results
					base := local
					if gr.Intn(4) != 0 {
						base = local[:len(nodes)]
					}
					op, res, _ := e.randomOp(gr, base, false)
					if op != nil {
						n++
					}
					if res != nil {
						local = append(local, res)
					}
				}
				mu.Lock()
				cs.ConcOps += n
				mu.Unlock()
			}()
		}
		wg.Wait()
		check(len(cs.Ops))
	}
	var ids []int64
	for _, n := range nodes {
		rows, id := dump(n)
		cs.Final = append(cs.Final, rows)
		ids = append(ids, id...)
	}
	cs.Ids = canon(ids)
	if cs.Created == nil {
		cs.Created, cs.Final = [][][]int64{}, [][][]int64{}
	}
	if cs.Ids == nil {
		cs.Ids = []int64{}
	}
	return cs
}

func main() {
	seed := flag.Uint64("seed", 1, "")
	n := flag.Int("n", 300, "number of trees")
	maxOps := flag.Int("ops", 16, "operations per tree (upper bound)")
	concEvery := flag.Int("conc", 6, "every k-th tree is also extended from 8 goroutines")
	flag.Parse()
	initFuncIDs()
	caches = []wazero.CompilationCache{nil, wazero.NewCompilationCache(), wazero.NewCompilationCache()}
	rng := c.NewRng(*seed)
	out := c.NewOut()
	defer out.Flush()
	ctx := context.Background()
	rt := wazero.NewRuntimeWithConfig(ctx, wazero.NewRuntimeConfigInterpreter())
	defer rt.Close(ctx)
	compiled, err := rt.CompileModule(ctx, (&c.Mod{}).Bytes())
	if err != nil {
		panic(err)
	}
	named, err := rt.CompileModule(ctx, (&c.Mod{Custom: [][]byte{c.Cat(c.Name("name"), c.B(0), c.U32(6), c.Name("alpha"))}}).Bytes())
	if err != nil {
		panic(err)
	}
	e := &env{ctx: ctx, rt: rt, compiled: compiled, named: named}
	for i, sc := range fixedScenarios() {
		out.Emit(runTree(e, rng, len(sc), i%2 == 0, sc))
	}
	for i := 0; i < *n; i++ {
		nops := 4 + rng.Intn(*maxOps-3)
		cs := runTree(e, rng, nops, *concEvery > 0 && i%*concEvery == *concEvery-1, nil)
		out.Emit(cs)
	}
	// probe (reported as a note, not as a violation): WithStartFunctions keeps the caller's slice
	fns := []string{"a", "b"}
	mc := wazero.NewModuleConfig().WithStartFunctions(fns...)
	before, _ := dump(&node{kind: 'M', m: mc})
	fns[0] = "changed-by-caller"
	after, _ := dump(&node{kind: 'M', m: mc})
	out.Emit(map[string]any{"probe": "startfunctions_keeps_callers_slice", "value": !rowsEq(before, after),
		"strtab": strTab, "features_v2": uint64(api.CoreFeaturesV2), "memory_limit_pages": wasm.MemoryLimitPages})
}
