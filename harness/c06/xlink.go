// C06 linked failure histories: programs of two or three linked guest modules (function imports, a shared table), a host
// module whose functions return, panic, exit (close the CALLING module + exit error) or call the guest back, and
// "starter" modules whose start functions run during instantiation. Generator and host module are those of
// harness/c20/link.go (copied: both are package main), without listeners. After EVERY step the closed flag of every
// instance and the availability of every name (Runtime.Module) are recorded; the Coq side replays the history through
// Rt/Linking.v instantiate + W extended with closed flags (Wasm/SemExit.v).
package main

import (
	"context"
	"errors"
	"fmt"
	"sort"
	"strings"

	"github.com/tetratelabs/wazero"
	"github.com/tetratelabs/wazero/api"
	c "github.com/tetratelabs/wazero/internal/zz_verif/common"
	"github.com/tetratelabs/wazero/sys"
)

const tabSize = 8

// every callable function takes (budget n : i32, x) and calls others with n-1; n = 0 returns at once: any call graph
// (cycles through tables and host re-entry included) terminates
var lsigs = []c.Sig{
	{P: []byte{c.I32, c.I32}, R: []byte{c.I32}},
	{P: []byte{c.I32, c.I64}, R: []byte{c.I64}},
	{P: []byte{c.I32, c.I32}, R: nil},
	{P: []byte{c.I32, c.I32}, R: []byte{c.I32, c.I64}},
	{}, // start functions
}

const startSig = 4

// host function kinds (the model code of a host function is kind + 8*k, for a re-entering one 4 + 8*target address)
const (
	hkModule  = 0 // WithGoModuleFunction, returns the standard values
	hkGo      = 1 // WithGoFunction, returns the standard values
	hkPanic   = 2 // panics when x mod 3 = 0
	hkExit    = 3 // closes the calling module with an exit code and panics with the ExitError when x mod 3 = 0
	hkReenter = 4 // calls back an exported function of module a with the same arguments and returns its results
	hkReflect = 5 // WithFunc (reflection), returns the standard values
)

type hostDef struct {
	K      int
	Kind   int
	Sig    int
	Target int  // hkReenter: function index (module a's index space)
	H      int  // model code
	Refl   bool // built with WithFunc (reflection) whatever the kind
}

type limp struct {
	Pos, Name, Sig int
}

type lfunc struct {
	Sig   int
	NLoc  int
	Body  []c.Ins
	Start bool
}

type lmod struct {
	Pos        int
	Name       string // name section = identity of the module in definitions
	InstName   string // instantiation name ("" anonymous)
	ms         *c.ModSpec
	Imps       []limp
	Funcs      []*lfunc
	OwnTable   bool
	ImpTable   bool
	Elems      [][2]int // slot, function index
	Start      int      // start section function index or -1
	PostStarts []int    // function indices run after instantiation (WithStartFunctions / _start)
	PostNames  []string
	GInit      uint32
	bin        []byte
	coq        string
}

type lact struct {
	T    string   `json:"t"` // "inst" | "call"
	Pos  int      `json:"pos"`
	Fi   int      `json:"fi"`
	Args []uint64 `json:"args,omitempty"`
}

type lcase struct {
	hosts   []hostDef
	mods    []*lmod
	acts    []lact
	mask    [][]bool
	mode    string
	closeCM bool
}

func sBin(is []c.Ins) []byte {
	var o []byte
	for _, i := range is {
		o = append(o, i.Bin...)
	}
	return o
}
func sCoq(is []c.Ins) string {
	ss := make([]string, len(is))
	for i, x := range is {
		ss[i] = x.Coq
	}
	return "[" + strings.Join(ss, "; ") + "]"
}
func wds(ts []byte) string {
	ss := make([]string, len(ts))
	for i, t := range ts {
		if t == c.I64 {
			ss[i] = "64"
		} else {
			ss[i] = "32"
		}
	}
	return "[" + strings.Join(ss, "; ") + "]"
}

var posNames = []string{"env", "a", "b", "c"}

// ---------------------------------------------------------------- generator
type lgen struct {
	r        *c.Rng
	lc       *lcase
	slotSig  []int // planned final signature per table slot (-1 empty)
	slotPos  []int // position of the module that writes the slot last
	nGuests  int
	withExit bool
}

func (m *lmod) nimp() int { return len(m.Imps) }

func (m *lmod) sigOf(idx int) int {
	if idx < len(m.Imps) {
		return m.Imps[idx].Sig
	}
	return m.Funcs[idx-len(m.Imps)].Sig
}

// function indices a body may call directly: imports and own regular functions
func (m *lmod) callees() []int {
	var o []int
	for i := range m.Imps {
		o = append(o, i)
	}
	for i, f := range m.Funcs {
		if !f.Start {
			o = append(o, len(m.Imps)+i)
		}
	}
	return o
}

func (g *lgen) body(m *lmod, f *lfunc) {
	r := g.r
	sig := lsigs[f.Sig]
	xT := byte(c.I32)
	var is []c.Ins
	if f.Start {
		f.NLoc = 3
		n := 1 + r.Intn(3)
		if m.Pos <= g.nGuests && r.Intn(4) != 0 {
			n = 1 // a failing start function of a module others import from ends the history early: mostly shallow
		}
		is = append(is, c.IConst(c.I32, uint64(n)), c.ILocalSet(0), c.IConst(c.I32, r.Pick([]uint64{0, 1, 2, 3, 4, 5, 6, 7, 9, 12, r.U64()})), c.ILocalSet(1))
	} else {
		f.NLoc = 1
		xT = sig.P[1]
	}
	xlow := func() []c.Ins {
		if xT == c.I64 {
			return []c.Ins{c.ILocalGet(1), c.IWrap}
		}
		return []c.Ins{c.ILocalGet(1)}
	}
	results := func() []c.Ins {
		var o []c.Ins
		for i, t := range sig.R {
			o = append(o, c.ILocalGet(2), c.IConst(c.I32, uint64(3+5*i)), c.IBin(c.I32, 0))
			if t == c.I64 {
				o = append(o, c.IExtS)
			}
		}
		return o
	}
	args := func(pt byte) []c.Ins {
		o := []c.Ins{c.ILocalGet(0), c.IConst(c.I32, 1), c.IBin(c.I32, 1), c.ILocalGet(2), c.IConst(c.I32, uint64(r.Intn(12))), c.IBin(c.I32, 0)}
		if pt == c.I64 {
			if r.Bool() {
				o = append(o, c.IExtU)
			} else {
				o = append(o, c.IExtS)
			}
		}
		return o
	}
	absorb := func(rs []byte) []c.Ins {
		var o []c.Ins
		for i := len(rs) - 1; i >= 0; i-- {
			if rs[i] == c.I64 {
				o = append(o, c.IWrap)
			}
			o = append(o, c.ILocalGet(2), c.IConst(c.I32, 3), c.IBin(c.I32, 2), c.IBin(c.I32, 0), c.ILocalSet(2))
		}
		return o
	}
	callees := m.callees()
	hasTab := m.OwnTable || m.ImpTable
	call := func() []c.Ins {
		if hasTab && r.Intn(3) == 0 {
			// call_indirect: mostly a slot planned to hold a function of the chosen type
			si := r.Intn(4)
			var slot []c.Ins
			switch r.Intn(30) {
			case 0:
				slot = []c.Ins{c.IConst(c.I32, uint64(r.Intn(tabSize+1)))} // may be null, mistyped or out of range
			case 1, 2:
				slot = []c.Ins{c.ILocalGet(2), c.IConst(c.I32, tabSize), c.IBin(c.I32, 6)}
			default:
				var ok []int
				for s, sg := range g.slotSig {
					// a start function runs before later modules have written their slots
					if sg >= 0 && (!f.Start || g.slotPos[s] <= m.Pos) {
						ok = append(ok, s)
					}
				}
				if len(ok) == 0 {
					slot = []c.Ins{c.IConst(c.I32, 0)}
				} else {
					s := ok[r.Intn(len(ok))]
					si = g.slotSig[s]
					slot = []c.Ins{c.IConst(c.I32, uint64(s))}
				}
			}
			o := args(lsigs[si].P[1])
			o = append(o, slot...)
			o = append(o, c.ICallIndirect(si))
			return append(o, absorb(lsigs[si].R)...)
		}
		t := callees[r.Intn(len(callees))]
		si := m.sigOf(t)
		o := args(lsigs[si].P[1])
		o = append(o, c.ICall(t))
		return append(o, absorb(lsigs[si].R)...)
	}
	is = append(is, xlow()...)
	is = append(is, c.ILocalSet(2))
	// budget exhausted: return at once
	is = append(is, c.ILocalGet(0), c.IEqz(c.I32), m.ms.IIf(nil, nil, append(results(), c.IReturn), nil))
	ns := 1 + r.Intn(3)
	if r.Intn(3) == 0 {
		ns = 1 // chains
	}
	for k := 0; k < ns; k++ {
		switch r.Intn(12) {
		case 0: // conditional trap
			is = append(is, xlow()...)
			is = append(is, c.IConst(c.I32, 7), c.IBin(c.I32, 7), c.IConst(c.I32, uint64(r.Intn(8))), c.IRel(c.I32, 0), m.ms.IIf(nil, nil, []c.Ins{c.IUnreachable}, nil))
			is = append(is, call()...)
		case 1: // division trap after a call
			is = append(is, call()...)
			is = append(is, c.IConst(c.I32, 100))
			is = append(is, xlow()...)
			is = append(is, c.IConst(c.I32, 15), c.IBin(c.I32, 7), c.IBin(c.I32, 4), c.ILocalGet(2), c.IBin(c.I32, 0), c.ILocalSet(2))
		case 2, 3: // a call in each arm
			is = append(is, c.ILocalGet(2), c.IConst(c.I32, 1), c.IBin(c.I32, 7), m.ms.IIf(nil, nil, call(), call()))
		case 4: // state
			is = append(is, c.IGlobalGet(0), c.ILocalGet(2), c.IBin(c.I32, 0), c.IGlobalSet(0))
			is = append(is, call()...)
		default:
			is = append(is, call()...)
		}
	}
	is = append(is, c.IGlobalGet(0), c.ILocalGet(2), c.IBin(c.I32, 9), c.IGlobalSet(0))
	is = append(is, results()...)
	switch r.Intn(4) {
	case 0:
		is = append(is, c.IReturn)
	case 1:
		is = append(is, c.IBr(0))
	}
	f.Body = is
}

func (m *lmod) encode() {
	mod := &c.Mod{}
	for _, t := range m.ms.Types {
		mod.Types = append(mod.Types, c.FT(t.P, t.R))
	}
	impName := func(im limp) (string, string) {
		if im.Pos == 0 {
			return "env", fmt.Sprintf("h%d", im.Name)
		}
		return posNames[im.Pos], fmt.Sprintf("f%d", im.Name)
	}
	var coqImps []string
	for _, im := range m.Imps {
		mn, fn := impName(im)
		mod.Imports = append(mod.Imports, c.ImportFunc(mn, fn, uint32(im.Sig)))
		coqImps = append(coqImps, fmt.Sprintf("{| im_mod := %d; im_name := %d; im_desc := IFunc %d |}", im.Pos, im.Name, im.Sig))
	}
	if m.ImpTable {
		mod.Imports = append(mod.Imports, c.Cat(c.Name("a"), c.Name("tab"), c.B(1), c.B(c.FuncRef, 0), c.U32(tabSize)))
		coqImps = append(coqImps, fmt.Sprintf("{| im_mod := 1; im_name := 1000; im_desc := ITable %d false 0 112 |}", tabSize))
	}
	var coqFuncs, coqExps []string
	for i, f := range m.Funcs {
		idx := len(m.Imps) + i
		mod.Funcs = append(mod.Funcs, c.U32(uint32(f.Sig)))
		loc := make([]byte, f.NLoc)
		for j := range loc {
			loc[j] = c.I32
		}
		mod.Codes = append(mod.Codes, c.Code(loc, sBin(f.Body)))
		mod.Exports = append(mod.Exports, c.Export(fmt.Sprintf("f%d", idx), 0, uint32(idx)))
		coqFuncs = append(coqFuncs, fmt.Sprintf("{| fd_type := %d; fd_locals := %d; fd_body := %s |}", f.Sig, f.NLoc, sCoq(f.Body)))
		coqExps = append(coqExps, fmt.Sprintf("(%d, EFunc %d)", idx, idx))
	}
	for k, fi := range m.PostStarts {
		mod.Exports = append(mod.Exports, c.Export(m.PostNames[k], 0, uint32(fi)))
	}
	tab := "None"
	if m.OwnTable {
		mod.Tables = [][]byte{c.Cat(c.B(c.FuncRef, 0), c.U32(tabSize))}
		mod.Exports = append(mod.Exports, c.Export("tab", 1, 0))
		coqExps = append(coqExps, "(1000, ETab 0)")
		tab = fmt.Sprintf("Some (%d, false, 0)", tabSize)
	}
	mod.Globals = [][]byte{c.Cat(c.B(c.I32, 1), c.I32Const(int32(m.GInit)), c.B(0x0b))}
	mod.Exports = append(mod.Exports, c.Export("g", 3, 0))
	coqExps = append(coqExps, "(2000, EGlob 0)")
	var coqElems []string
	for _, e := range m.Elems {
		mod.Elems = append(mod.Elems, c.Cat(c.U32(0), c.I32Const(int32(e[0])), c.B(0x0b), c.U32(1), c.U32(uint32(e[1]))))
		coqElems = append(coqElems, fmt.Sprintf("(CConst 32 %d, [Some %d%%nat])", e[0], e[1]))
	}
	start := "None"
	if m.Start >= 0 {
		mod.Start = c.U32(uint32(m.Start))
		start = fmt.Sprintf("Some %d%%nat", m.Start)
	}
	mod.Custom = [][]byte{c.Cat(c.Name("name"), c.B(0), c.U32(uint32(len(c.Name(m.Name)))), c.Name(m.Name))}
	m.bin = mod.Bytes()
	var ts []string
	for _, t := range m.ms.Types {
		ts = append(ts, fmt.Sprintf("(%s, %s)", wds(t.P), wds(t.R)))
	}
	m.coq = fmt.Sprintf("{| md_types := [%s];\n md_imports := [%s];\n md_funcs := [%s];\n md_table := %s; md_mem := None;\n md_globals := [{| gd_mut := true; gd_w := 32; gd_init := CConst 32 %d |}];\n md_exports := [%s];\n md_elems := [%s]; md_datas := []; md_start := %s |}",
		strings.Join(ts, "; "), strings.Join(coqImps, "; "), strings.Join(coqFuncs, ";\n   "), tab, m.GInit,
		strings.Join(coqExps, "; "), strings.Join(coqElems, "; "), start)
}

func newLmod(pos int, name, inst string) *lmod {
	m := &lmod{Pos: pos, Name: name, InstName: inst, ms: &c.ModSpec{}, Start: -1}
	for _, s := range lsigs {
		m.ms.TypeIdx(s)
	}
	return m
}

func genLinked(r *c.Rng, id int) *lcase {
	lc := &lcase{closeCM: id%5 == 1}
	g := &lgen{r: r, lc: lc, nGuests: 2 + r.Intn(2), withExit: r.Intn(5) != 0}
	g.slotSig, g.slotPos = make([]int, tabSize), make([]int, tabSize)
	for i := range g.slotSig {
		g.slotSig[i] = -1
	}
	nStart := 1 + r.Intn(3)
	lc.mods = make([]*lmod, 1+g.nGuests+nStart)
	// plan: signatures of every function first (bodies refer to them)
	for p := 1; p < len(lc.mods); p++ {
		starter := p > g.nGuests
		name := fmt.Sprintf("s%d", p)
		inst := name
		if !starter {
			name, inst = posNames[p], posNames[p]
		} else if r.Bool() {
			inst = ""
		}
		m := newLmod(p, name, inst)
		m.GInit = uint32(r.Intn(100))
		nf := 2 + r.Intn(3)
		if starter {
			nf = 1 + r.Intn(2)
		}
		for i := 0; i < nf; i++ {
			m.Funcs = append(m.Funcs, &lfunc{Sig: r.Intn(4)})
		}
		lc.mods[p] = m
	}
	// hosts
	nh := 3 + r.Intn(4)
	for k := 0; k < nh; k++ {
		hd := hostDef{K: k, Sig: r.Intn(4)}
		switch {
		case k == 0:
			hd.Kind = hkModule
		case k == 1:
			hd.Kind = hkReflect
		default:
			kinds := []int{hkModule, hkGo, hkReflect, hkPanic, hkPanic, hkReenter, hkReenter}
			if g.withExit {
				kinds = append(kinds, hkExit, hkExit, hkExit, hkExit)
			}
			hd.Kind = kinds[r.Intn(len(kinds))]
		}
		hd.Refl = hd.Kind == hkReflect || ((hd.Kind == hkPanic || hd.Kind == hkExit || hd.Kind == hkReenter) && r.Bool())
		hd.H = hd.Kind + 8*k
		lc.hosts = append(lc.hosts, hd)
	}
	hasReenter := false
	for _, hd := range lc.hosts {
		hasReenter = hasReenter || hd.Kind == hkReenter
	}
	// imports, tables, start functions
	for p := 1; p < len(lc.mods); p++ {
		m := lc.mods[p]
		starter := p > g.nGuests
		for k := range lc.hosts {
			if p == 1 && lc.hosts[k].Kind == hkExit && hasReenter {
				continue // module a is never closed when re-entering hosts call it back (outside the model: SemExit.reenters_closed)
			}
			if r.Intn(5) < 3 {
				m.Imps = append(m.Imps, limp{Pos: 0, Name: k, Sig: lc.hosts[k].Sig})
			}
		}
		if len(m.Imps) == 0 {
			m.Imps = append(m.Imps, limp{Pos: 0, Name: 0, Sig: lc.hosts[0].Sig})
		}
		lim := p
		if starter {
			lim = g.nGuests + 1
		}
		for q := 1; q < lim; q++ {
			e := lc.mods[q]
			for i, f := range e.Funcs {
				if f.Start {
					continue
				}
				if r.Intn(5) < 2 || (starter && r.Bool()) {
					m.Imps = append(m.Imps, limp{Pos: q, Name: -1 - i, Sig: f.Sig}) // name fixed below, once the exporter's import count is known
				}
			}
		}
		if p == 1 {
			m.OwnTable = true
		} else if (!starter && r.Intn(5) < 4) || (starter && r.Intn(3) == 0) {
			m.ImpTable = true
		}
	}
	// the export name of a function is its index in the exporter's index space: fix the import names now
	for p := 1; p < len(lc.mods); p++ {
		m := lc.mods[p]
		for i := range m.Imps {
			if m.Imps[i].Pos > 0 && m.Imps[i].Name < 0 {
				m.Imps[i].Name = lc.mods[m.Imps[i].Pos].nimp() + (-1 - m.Imps[i].Name)
			}
		}
	}
	// re-entering hosts call back a function of module a of their own signature
	a := lc.mods[1]
	for k := range lc.hosts {
		hd := &lc.hosts[k]
		if hd.Kind != hkReenter {
			continue
		}
		i := r.Intn(len(a.Funcs))
		hd.Target = a.nimp() + i
		hd.Sig = a.Funcs[i].Sig
		hd.H = hkReenter + 8*(8*len(lc.hosts)+i) // module a is allocated right after the host functions (8 caller-specific copies of each: SemExit.expand_hosts)
		for p := 1; p < len(lc.mods); p++ {
			for j := range lc.mods[p].Imps {
				if lc.mods[p].Imps[j].Pos == 0 && lc.mods[p].Imps[j].Name == k {
					lc.mods[p].Imps[j].Sig = hd.Sig
				}
			}
		}
	}
	// table slots
	for p := 1; p < len(lc.mods); p++ {
		m := lc.mods[p]
		if !(m.OwnTable || m.ImpTable) {
			continue
		}
		for i, f := range m.Funcs {
			if r.Intn(3) == 0 {
				continue
			}
			s := r.Intn(tabSize)
			if g.slotSig[s] >= 0 && (r.Intn(5) != 0 || p > g.nGuests) {
				for t := 0; t < tabSize; t++ {
					if g.slotSig[(s+t)%tabSize] < 0 {
						s = (s + t) % tabSize
						break
					}
				}
			}
			if g.slotSig[s] >= 0 && g.slotSig[s] != f.Sig && p > g.nGuests {
				continue // a starter (instantiated at some point of the history) never changes the type of a slot
			}
			if g.slotSig[s] < 0 || p <= g.nGuests {
				g.slotPos[s] = p
			}
			g.slotSig[s] = f.Sig
			m.Elems = append(m.Elems, [2]int{s, m.nimp() + i})
		}
	}
	// start functions
	for p := 1; p < len(lc.mods); p++ {
		m := lc.mods[p]
		starter := p > g.nGuests
		addStart := func() int {
			m.Funcs = append(m.Funcs, &lfunc{Sig: startSig, Start: true})
			return m.nimp() + len(m.Funcs) - 1
		}
		kind := -1
		if starter {
			kind = r.Intn(5)
		} else if p > 1 && r.Intn(3) == 0 { // module a (called back by re-entering hosts) always instantiates
			kind = r.Intn(5)
		}
		switch kind {
		case 0, 4:
			m.Start = addStart()
		case 1:
			m.PostStarts, m.PostNames = []int{addStart()}, []string{"_start"}
		case 2:
			m.PostStarts, m.PostNames = []int{addStart(), addStart()}, []string{"init", "init2"}
		case 3:
			m.Start = addStart()
			m.PostStarts, m.PostNames = []int{addStart()}, []string{"_start"}
		}
	}
	for p := 1; p < len(lc.mods); p++ {
		m := lc.mods[p]
		for _, f := range m.Funcs {
			g.body(m, f)
		}
		m.encode()
	}
	// history
	for p := 1; p <= g.nGuests; p++ {
		lc.acts = append(lc.acts, lact{T: "inst", Pos: p})
	}
	ncalls := 5 + r.Intn(5)
	// starters are instantiated in the order of their positions (the position IS the number of the instantiation)
	at := map[int][]int{}
	ks := make([]int, nStart)
	for i := range ks {
		ks[i] = r.Intn(ncalls + 1)
	}
	sort.Ints(ks)
	for i, k := range ks {
		at[k] = append(at[k], g.nGuests+1+i)
	}
	for k := 0; k <= ncalls; k++ {
		for _, p := range at[k] {
			lc.acts = append(lc.acts, lact{T: "inst", Pos: p})
		}
		if k == ncalls {
			break
		}
		p := 1 + r.Intn(g.nGuests)
		if r.Intn(6) == 0 {
			p = 1 + r.Intn(len(lc.mods)-1) // sometimes a starter's own function
		}
		m := lc.mods[p]
		var reg []int
		for i, f := range m.Funcs {
			if !f.Start {
				reg = append(reg, m.nimp()+i)
			}
		}
		fi := reg[r.Intn(len(reg))]
		n := uint64(1 + r.Intn(4))
		if r.Intn(5) == 0 {
			n = uint64(5 + r.Intn(3))
		}
		x := r.Pick([]uint64{0, 1, 2, 3, 4, 5, 6, 7, 8, 9, 0xffffffff, 0x80000000, r.U64(), r.U64()})
		if lsigs[m.sigOf(fi)].P[1] == c.I32 {
			x &= 0xffffffff
		}
		lc.acts = append(lc.acts, lact{T: "call", Pos: p, Fi: fi, Args: []uint64{n, x}})
		if r.Intn(3) == 0 { // the same function again, at once
			x2 := x + uint64(r.Intn(2))
			if lsigs[m.sigOf(fi)].P[1] == c.I32 {
				x2 &= 0xffffffff
			}
			lc.acts = append(lc.acts, lact{T: "call", Pos: p, Fi: fi, Args: []uint64{n, x2}})
		}
	}
	// listener set
	modes := []string{"all", "hosts", "guests", "alternate", "random", "one-module", "random"}
	lc.mode = modes[r.Intn(len(modes))]
	lc.mask = make([][]bool, len(lc.mods))
	one := 1 + r.Intn(g.nGuests)
	for p := range lc.mask {
		n := len(lc.hosts)
		if p > 0 {
			n = len(lc.mods[p].Funcs)
		}
		lc.mask[p] = make([]bool, n)
		for k := range lc.mask[p] {
			switch lc.mode {
			case "all":
				lc.mask[p][k] = true
			case "hosts":
				lc.mask[p][k] = p == 0
			case "guests":
				lc.mask[p][k] = p != 0
			case "alternate":
				lc.mask[p][k] = (p+k)%2 == 0
			case "random":
				lc.mask[p][k] = r.Bool()
			case "one-module":
				lc.mask[p][k] = p == one
			}
		}
	}
	return lc
}

func (lc *lcase) coqHosts() string {
	var ss []string
	for _, h := range lc.hosts {
		ss = append(ss, fmt.Sprintf("(%d%%nat, %s, %s)", h.H, wds(lsigs[h.Sig].P), wds(lsigs[h.Sig].R)))
	}
	return "[" + strings.Join(ss, "; ") + "]"
}

type lPanic struct{ v uint64 }

func lclassify(err error) string {
	k := c.TrapClass(err)
	if strings.HasPrefix(k, "other:") {
		var ee *sys.ExitError
		if errors.As(err, &ee) {
			return fmt.Sprintf("exit:%d", ee.ExitCode())
		}
		msg := err.Error()
		if strings.Contains(msg, "host error") || strings.Contains(msg, "host string") || strings.Contains(msg, "recovered by wazero") {
			return "panic"
		}
		if strings.Contains(msg, "not instantiated") {
			return "link"
		}
	}
	return k
}

func (r *lrec) hostBody(hd hostDef, ctx context.Context, mod api.Module, stack []uint64) {
	sig := lsigs[hd.Sig]
	args := make([]uint64, len(sig.P))
	copy(args, stack[:len(sig.P)])
	for j, t := range sig.P {
		if t == c.I32 {
			args[j] &= 0xffffffff
		}
	}
	r.log = append(r.log, append([]uint64{uint64(hd.H)}, args...))
	x := args[1]
	switch hd.Kind {
	case hkPanic:
		if x%3 == 0 {
			switch x % 9 {
			case 0:
				panic(fmt.Errorf("host error %d", x))
			case 3:
				panic(fmt.Sprintf("host string %d", x))
			default:
				panic(lPanic{x})
			}
		}
	case hkExit:
		if x%3 == 0 {
			code := uint32(x%5 + 1)
			_ = mod.CloseWithExitCode(ctx, code)
			panic(sys.NewExitError(code))
		}
	case hkReenter:
		res, err := r.mods[1].ExportedFunction(fmt.Sprintf("f%d", hd.Target)).Call(ctx, args...)
		if err != nil {
			panic(err)
		}
		copy(stack, res)
		return
	}
	copy(stack, c.StdHost(hd.H, args, sig.R))
}

func (r *lrec) buildEnv(ctx context.Context, rt wazero.Runtime) error {
	b := rt.NewHostModuleBuilder("env")
	for _, hd := range r.lc.hosts {
		hd := hd
		sig := lsigs[hd.Sig]
		name := fmt.Sprintf("h%d", hd.K)
		body := func(ctx context.Context, mod api.Module, stack []uint64) { r.hostBody(hd, ctx, mod, stack) }
		switch {
		case hd.Refl:
			var fn any
			switch hd.Sig {
			case 0:
				fn = func(ctx context.Context, mod api.Module, n, x uint32) uint32 {
					st := []uint64{uint64(n), uint64(x)}
					body(ctx, mod, st)
					return uint32(st[0])
				}
			case 1:
				fn = func(ctx context.Context, mod api.Module, n uint32, x uint64) uint64 {
					st := []uint64{uint64(n), x}
					body(ctx, mod, st)
					return st[0]
				}
			case 2:
				fn = func(ctx context.Context, mod api.Module, n, x uint32) {
					body(ctx, mod, []uint64{uint64(n), uint64(x)})
				}
			default:
				fn = func(ctx context.Context, mod api.Module, n, x uint32) (uint32, uint64) {
					st := []uint64{uint64(n), uint64(x)}
					body(ctx, mod, st)
					return uint32(st[0]), st[1]
				}
			}
			b = b.NewFunctionBuilder().WithFunc(fn).Export(name)
		case hd.Kind == hkGo:
			b = b.NewFunctionBuilder().WithGoFunction(api.GoFunc(func(ctx context.Context, stack []uint64) { body(ctx, nil, stack) }),
				lvts(sig.P), lvts(sig.R)).Export(name)
		default:
			b = b.NewFunctionBuilder().WithGoModuleFunction(api.GoModuleFunc(body), lvts(sig.P), lvts(sig.R)).Export(name)
		}
	}
	_, err := b.Instantiate(ctx)
	return err
}

func lvts(ts []byte) []api.ValueType {
	o := make([]api.ValueType, len(ts))
	for i, t := range ts {
		o[i] = api.ValueType(t)
	}
	return o
}


// ---------------------------------------------------------------- runner
type lrec struct {
	lc   *lcase
	log  [][]uint64
	mods []api.Module
}

type xStep struct {
	Skip   bool     `json:"skip,omitempty"`
	Inst   string   `json:"inst,omitempty"` // "ok", "link", or the error class of the failing start function
	Res    []uint64 `json:"res,omitempty"`
	Trap   string   `json:"trap,omitempty"`
	Closed [][2]int `json:"closed"` // after the step: (position, IsClosed) of every instance the embedder holds
	Named  [][2]int `json:"named"`  // after the step: (position, Runtime.Module(name) != nil) of every named position
}

type xPass struct {
	Steps   []xStep     `json:"steps"`
	HLog    [][]uint64  `json:"hlog"`
	Globals [][2]uint64 `json:"globals"`
	Err     string      `json:"err,omitempty"`
}

type XCase struct {
	ID      int              `json:"id"`
	Kind    string           `json:"kind"`
	Hosts   string           `json:"hosts"`
	Mods    []string         `json:"mods"`
	Starts  [][]int          `json:"starts"`
	Acts    []lact           `json:"acts"`
	Fixed   bool             `json:"fixed"`
	Wasm    []string         `json:"wasm"`
	Engines map[string]xPass `json:"engines"`
}

func b2i(b bool) int {
	if b {
		return 1
	}
	return 0
}

func runXLinked(engine string, lc *lcase) (po xPass) {
	defer func() {
		if e := recover(); e != nil {
			po.Err = fmt.Sprint("PANIC escaped to the embedder: ", e)
		}
	}()
	ctx := context.Background()
	r := &lrec{lc: lc, mods: make([]api.Module, len(lc.mods))}
	var rc wazero.RuntimeConfig
	if engine == "compiler" {
		rc = wazero.NewRuntimeConfigCompiler()
	} else {
		rc = wazero.NewRuntimeConfigInterpreter()
	}
	rt := wazero.NewRuntimeWithConfig(ctx, rc)
	defer rt.Close(ctx)
	if err := r.buildEnv(ctx, rt); err != nil {
		po.Err = "env: " + err.Error()
		return
	}
	nglobals := 0
	gaddr := make([]int, len(lc.mods))
	fns := map[[2]int]api.Function{}
	flags := func(so *xStep) {
		so.Closed, so.Named = [][2]int{}, [][2]int{}
		for p := 1; p < len(lc.mods); p++ {
			if r.mods[p] != nil {
				so.Closed = append(so.Closed, [2]int{p, b2i(r.mods[p].IsClosed())})
			}
			if lc.mods[p].InstName != "" {
				so.Named = append(so.Named, [2]int{p, b2i(rt.Module(lc.mods[p].InstName) != nil)})
			}
		}
	}
	for _, act := range lc.acts {
		m := lc.mods[act.Pos]
		so := xStep{}
		if act.T == "inst" {
			cm, err := rt.CompileModule(ctx, m.bin)
			if err != nil {
				po.Err = fmt.Sprintf("compile %d: %v", act.Pos, err)
				return
			}
			mod, err := rt.InstantiateModule(ctx, cm, wazero.NewModuleConfig().WithName(m.InstName).WithStartFunctions(m.PostNames...))
			if err != nil {
				so.Inst = lclassify(err)
			} else {
				r.mods[act.Pos] = mod
				so.Inst = "ok"
			}
			if so.Inst != "link" { // the instance was allocated (its global has an address) even if a start function failed
				gaddr[act.Pos] = nglobals
				nglobals++
			}
			flags(&so)
			po.Steps = append(po.Steps, so)
			continue
		}
		if r.mods[act.Pos] == nil {
			po.Steps = append(po.Steps, xStep{Skip: true})
			continue
		}
		// the same function object is reused across failures, also after its module was closed
		key := [2]int{act.Pos, act.Fi}
		f, ok := fns[key]
		if !ok {
			f = r.mods[act.Pos].ExportedFunction(fmt.Sprintf("f%d", act.Fi))
			fns[key] = f
		}
		res, err := f.Call(ctx, act.Args...)
		if err != nil {
			so.Trap = lclassify(err)
		} else {
			so.Res = c.MaskRes(res, lsigs[m.sigOf(act.Fi)].R)
			if so.Res == nil {
				so.Res = []uint64{}
			}
		}
		flags(&so)
		po.Steps = append(po.Steps, so)
	}
	po.HLog = r.log
	for p := 1; p < len(lc.mods); p++ {
		if r.mods[p] == nil {
			continue
		}
		if gl := r.mods[p].ExportedGlobal("g"); gl != nil {
			po.Globals = append(po.Globals, [2]uint64{uint64(gaddr[p]), gl.Get() & 0xffffffff})
		}
	}
	return
}

func (lc *lcase) xexport(id int) XCase {
	o := XCase{ID: id, Kind: "xlinked", Hosts: lc.coqHosts(), Acts: lc.acts, Engines: map[string]xPass{}}
	for p, m := range lc.mods {
		if p == 0 {
			o.Mods, o.Starts, o.Wasm = append(o.Mods, ""), append(o.Starts, nil), append(o.Wasm, "")
			continue
		}
		o.Mods, o.Starts = append(o.Mods, m.coq), append(o.Starts, m.PostStarts)
		o.Wasm = append(o.Wasm, fmt.Sprintf("%x", m.bin))
	}
	return o
}

// xlinkedCases: the fixed three-module cycle (exit 22 frames deep closing module c, then calls on all three) and n generated histories
func xlinkedCases(rng *c.Rng, n int) []XCase {
	var lcs []*lcase
	lcs = append(lcs, fixedLinked(false, "all"), fixedEnterThroughA())
	for i := 0; i < n; i++ {
		lcs = append(lcs, genLinked(rng, i))
	}
	outs := make([]XCase, len(lcs))
	for i, lc := range lcs {
		outs[i] = lc.xexport(i)
		outs[i].Fixed = i < 2
		for _, eng := range []string{"interp", "compiler"} {
			outs[i].Engines[eng] = runXLinked(eng, lc)
		}
	}
	return outs
}

// ---------------------------------------------------------------- fixed cases
// A cycle through three modules, the shared table and a re-entering host: c.k -> b.g -> a.f (directly, or called back by
// host 3) -> table slot 0 = c.k -> ..., the budget decreasing; the leaf (budget 0, in c.k) fails in a way chosen by x:
// unreachable (x = 7), host panic (x mod 3 = 0), exit closing module c (x mod 3 = 2), or returns. The failure unwinds
// through up to 30 frames of three modules (and through the Go frames of re-entering host calls).
func fixedLinked(closeCM bool, mode string) *lcase {
	lc := &lcase{closeCM: closeCM, mode: mode}
	lc.hosts = []hostDef{
		{K: 0, Kind: hkModule, Sig: 0, H: hkModule},
		{K: 1, Kind: hkPanic, Sig: 0, H: hkPanic + 8, Refl: true},
		{K: 2, Kind: hkExit, Sig: 0, H: hkExit + 16},
		{K: 3, Kind: hkReenter, Sig: 0, Target: 0, H: hkReenter + 8*32}, // a.f is function 0 of module a = store address 8*4
	}
	i32 := byte(c.I32)
	a := newLmod(1, "a", "a")
	a.OwnTable = true
	// f(n, x) = n == 0 ? x : table[0](n-1, x) + 1
	a.Funcs = []*lfunc{{Sig: 0, Body: []c.Ins{
		c.ILocalGet(0), c.IEqz(i32), a.ms.IIf(nil, nil, []c.Ins{c.ILocalGet(1), c.IReturn}, nil),
		c.ILocalGet(0), c.IConst(i32, 1), c.IBin(i32, 1), c.ILocalGet(1), c.IConst(i32, 0), c.ICallIndirect(0), c.IConst(i32, 1), c.IBin(i32, 0)}}}
	b := newLmod(2, "b", "b")
	b.Imps = []limp{{Pos: 0, Name: 3, Sig: 0}, {Pos: 1, Name: 0, Sig: 0}}
	// g(n, x) = n == 0 ? x : (x & 8 ? h3 : a.f)(n-1, x) + 1
	b.Funcs = []*lfunc{{Sig: 0, Body: []c.Ins{
		c.ILocalGet(0), c.IEqz(i32), b.ms.IIf(nil, nil, []c.Ins{c.ILocalGet(1), c.IReturn}, nil),
		c.ILocalGet(0), c.IConst(i32, 1), c.IBin(i32, 1), c.ILocalGet(1),
		c.ILocalGet(1), c.IConst(i32, 8), c.IBin(i32, 7),
		b.ms.IIf([]byte{i32, i32}, []byte{i32}, []c.Ins{c.ICall(0)}, []c.Ins{c.ICall(1)}),
		c.IConst(i32, 1), c.IBin(i32, 0)}}}
	cm := newLmod(3, "c", "c")
	cm.Imps = []limp{{Pos: 0, Name: 0, Sig: 0}, {Pos: 0, Name: 1, Sig: 0}, {Pos: 0, Name: 2, Sig: 0}, {Pos: 2, Name: 2, Sig: 0}}
	cm.ImpTable = true
	cm.Elems = [][2]int{{0, 4}}
	// k(n, x): the leaf at n == 0, else b.g(n-1, x) + 1
	cm.Funcs = []*lfunc{{Sig: 0, Body: []c.Ins{
		c.ILocalGet(0), c.IEqz(i32), cm.ms.IIf(nil, nil, []c.Ins{
			c.ILocalGet(1), c.IConst(i32, 7), c.IRel(i32, 0), cm.ms.IIf(nil, nil, []c.Ins{c.IUnreachable}, nil),
			c.ILocalGet(0), c.ILocalGet(1), c.ICall(1), c.IDrop,
			c.ILocalGet(0), c.ILocalGet(1), c.IConst(i32, 1), c.IBin(i32, 0), c.ICall(2), c.IDrop,
			c.ILocalGet(0), c.ILocalGet(1), c.ICall(0), c.IReturn}, nil),
		c.ILocalGet(0), c.IConst(i32, 1), c.IBin(i32, 1), c.ILocalGet(1), c.ICall(3), c.IConst(i32, 1), c.IBin(i32, 0)}}}
	// a starter whose start section runs the cycle and fails deep inside (host panic at the leaf, 7 frames down)
	s := newLmod(4, "s4", "")
	s.Imps = []limp{{Pos: 3, Name: 4, Sig: 0}, {Pos: 1, Name: 0, Sig: 0}}
	s.Funcs = []*lfunc{{Sig: startSig, Start: true, Body: []c.Ins{c.IConst(i32, 2), c.IConst(i32, 4), c.ICall(1), c.IDrop, c.IConst(i32, 6), c.IConst(i32, 3), c.ICall(0), c.IDrop}}}
	s.Start = 2
	lc.mods = []*lmod{nil, a, b, cm, s}
	for _, m := range lc.mods[1:] {
		m.encode()
	}
	call := func(p, fi int, n, x uint64) lact { return lact{T: "call", Pos: p, Fi: fi, Args: []uint64{n, x}} }
	lc.acts = []lact{{T: "inst", Pos: 1}, {T: "inst", Pos: 2}, {T: "inst", Pos: 3},
		call(3, 4, 30, 4), call(3, 4, 30, 3), call(3, 4, 30, 4), call(3, 4, 9, 7), call(1, 0, 5, 4), call(1, 0, 7, 7), call(1, 0, 10, 6),
		{T: "inst", Pos: 4},
		call(3, 4, 12, 12), call(3, 4, 13, 13), call(2, 2, 11, 9), call(2, 2, 6, 1),
		// exit at depth 22 closes module c; afterwards: c's exports keep running (and end in the exit error), calls through c from
		// the other modules are unaffected, and an exit through a re-entering host
		call(3, 4, 21, 5), call(3, 4, 3, 4), call(3, 4, 2, 4), call(1, 0, 4, 4), call(3, 4, 6, 7), call(2, 2, 8, 8), call(2, 2, 8, 10)}
	return lc
}

// the same three-module cycle, entered through module a: a.f -> (table) c.k -> b.g -> a.f -> c.k -> b.g -> a.f -> c.k, whose leaf exits:
// module c (twice in the middle of the chain, and innermost) is closed with code 2, the error reaches the embedder through 8 guest
// frames of three instances; a and b stay open and keep calling through c's functions; c's exports report exit 2; a later exit
// with another code (5) raised by c's leaf again reports 5 and leaves c's code 2.
func fixedEnterThroughA() *lcase {
	lc := fixedLinked(false, "all")
	lc.mods = lc.mods[:4]
	call := func(p, fi int, n, x uint64) lact { return lact{T: "call", Pos: p, Fi: fi, Args: []uint64{n, x}} }
	lc.acts = []lact{{T: "inst", Pos: 1}, {T: "inst", Pos: 2}, {T: "inst", Pos: 3},
		call(1, 0, 5, 4), call(1, 0, 7, 5), call(1, 0, 5, 4), call(2, 2, 6, 1), call(3, 4, 3, 4), call(3, 4, 9, 7),
		call(1, 0, 4, 8), call(3, 4, 2, 4), call(2, 2, 9, 13), call(1, 0, 7, 7), call(1, 0, 3, 3), call(1, 0, 6, 1)}
	return lc
}
