package main

import (
	"context"
	"errors"
	"fmt"
	"strings"

	"github.com/tetratelabs/wazero"
	"github.com/tetratelabs/wazero/api"
	c "github.com/tetratelabs/wazero/internal/zz_verif/common"
	"github.com/tetratelabs/wazero/sys"
)

// Start functions that fail: the new instance's start function (the start section, "_start", or a function named by
// WithStartFunctions) traps, exits itself, exits THROUGH ANOTHER INSTANCE (an imported function of "lib" exits lib),
// or hits a host panic. InstantiateModule must return the documented error, the half-made instance must not stay
// behind (no lookup finds it, its name can be taken at once), and every other instance keeps working.
type StartFail struct {
	Kind       string `json:"kind"` // "startfail"
	Engine     string `json:"engine"`
	How        string `json:"how"`  // trap | exit-self | exit-lib | panic
	Mech       string `json:"mech"` // section | _start | named
	Err        string `json:"err"`  // class of the error InstantiateModule returned
	Returned   bool   `json:"returned_module"`
	RetOpen    bool   `json:"returned_module_open"` // a module handed back with the error must be closed
	Registered bool   `json:"registered"`   // Runtime.Module("app") != nil afterwards
	RegClosed  bool   `json:"reg_closed"`   // ... and it is closed
	Retake     string `json:"retake"`       // instantiating a working module under the same name: "ok" or the error
	RetakeRes  int64  `json:"retake_res"`   // its f() (must be 42)
	Other      int64  `json:"other_res"`    // an untouched instance's f() afterwards (must be 42)
	LibOpen    bool   `json:"lib_open"`     // "lib" after the run (closed exactly when it exited)
	SecondErr  string `json:"second_err"`   // the same failing instantiation once more (must fail the same way when lib is still open)
}

func errClass(err error) string {
	if err == nil {
		return "none"
	}
	var ee *sys.ExitError
	if errors.As(err, &ee) {
		return fmt.Sprintf("exit:%d", ee.ExitCode())
	}
	s := err.Error()
	switch {
	case strings.Contains(s, "unreachable"):
		return "trap:unreachable"
	case strings.Contains(s, "boom"):
		return "panic:boom"
	case strings.Contains(s, "has already been instantiated"):
		return "dup"
	}
	if len(s) > 80 {
		s = s[:80]
	}
	return "other:" + s
}

func startFailApp(how, mech string) []byte {
	m := &c.Mod{}
	m.Types = [][]byte{c.FT(nil, nil), c.FT(c.B(c.I32), nil), c.FT(nil, c.B(c.I32))}
	m.Imports = [][]byte{c.ImportFunc("xenv", "quit", 1), c.ImportFunc("lib", "quit", 1), c.ImportFunc("xenv", "boom", 0)}
	m.Funcs = [][]byte{c.U32(0), c.U32(2)}
	var body []byte
	switch how {
	case "trap":
		body = c.B(0x00)
	case "exit-self":
		body = c.Cat(c.I32Const(7), c.Call(0))
	case "exit-lib":
		body = c.Cat(c.I32Const(7), c.Call(1))
	default:
		body = c.Call(2)
	}
	m.Codes = [][]byte{c.Code(nil, body), c.Code(nil, c.I32Const(42))}
	m.Exports = [][]byte{c.Export("f", 0, 4)}
	switch mech {
	case "section":
		m.Start = c.U32(3)
	case "_start":
		m.Exports = append(m.Exports, c.Export("_start", 0, 3))
	default:
		m.Exports = append(m.Exports, c.Export("run", 0, 3))
	}
	return m.Bytes()
}

var goodApp = (&c.Mod{
	Types:   [][]byte{c.FT(nil, c.B(c.I32))},
	Funcs:   [][]byte{c.U32(0)},
	Exports: [][]byte{c.Export("f", 0, 0)},
	Codes:   [][]byte{c.Code(nil, c.I32Const(42))},
}).Bytes()

func startFails(ctx context.Context, out *c.Out) {
	for _, eng := range []string{"interp", "compiler"} {
		for _, how := range []string{"trap", "exit-self", "exit-lib", "panic"} {
			for _, mech := range []string{"section", "_start", "named"} {
				out.Emit(startFail(ctx, eng, how, mech))
			}
		}
	}
}

func startFail(ctx context.Context, eng, how, mech string) (sf StartFail) {
	sf = StartFail{Kind: "startfail", Engine: eng, How: how, Mech: mech, RetakeRes: -1, Other: -1}
	defer func() {
		if e := recover(); e != nil {
			sf.Err = fmt.Sprint("GO PANIC: ", e)
		}
	}()
	var rc wazero.RuntimeConfig
	if eng == "compiler" {
		rc = wazero.NewRuntimeConfigCompiler()
	} else {
		rc = wazero.NewRuntimeConfigInterpreter()
	}
	r := wazero.NewRuntimeWithConfig(ctx, rc)
	defer r.Close(ctx)
	if _, err := r.NewHostModuleBuilder("xenv").
		NewFunctionBuilder().WithGoModuleFunction(api.GoModuleFunc(func(ctx context.Context, mod api.Module, stack []uint64) {
		_ = mod.CloseWithExitCode(ctx, uint32(stack[0])) // like proc_exit: closes the module that CALLED it
		panic(sys.NewExitError(uint32(stack[0])))
	}), []api.ValueType{api.ValueTypeI32}, nil).Export("quit").
		NewFunctionBuilder().WithFunc(func() { panic(errors.New("boom")) }).Export("boom").
		Instantiate(ctx); err != nil {
		panic(err)
	}
	lib, err := r.InstantiateWithConfig(ctx, helperWasm, wazero.NewModuleConfig().WithName("lib"))
	if err != nil {
		panic(err)
	}
	other, err := r.InstantiateWithConfig(ctx, goodApp, wazero.NewModuleConfig().WithName("other"))
	if err != nil {
		panic(err)
	}
	cfg := wazero.NewModuleConfig().WithName("app")
	if mech == "named" {
		cfg = cfg.WithStartFunctions("run")
	}
	bin := startFailApp(how, mech)
	mod, err := r.InstantiateWithConfig(ctx, bin, cfg)
	sf.Err, sf.Returned = errClass(err), mod != nil
	if mod != nil {
		sf.RetOpen = !mod.IsClosed()
	}
	if m := r.Module("app"); m != nil {
		sf.Registered, sf.RegClosed = true, m.IsClosed()
	}
	if lib.IsClosed() { // a second failing attempt needs a live lib to link against
		sf.SecondErr = "lib-closed"
	} else {
		_, err2 := r.InstantiateWithConfig(ctx, bin, cfg)
		sf.SecondErr = errClass(err2)
	}
	re, err := r.InstantiateWithConfig(ctx, goodApp, wazero.NewModuleConfig().WithName("app"))
	if err != nil {
		sf.Retake = errClass(err)
	} else {
		sf.Retake = "ok"
		if res, err := re.ExportedFunction("f").Call(ctx); err == nil {
			sf.RetakeRes = int64(res[0])
		}
	}
	if res, err := other.ExportedFunction("f").Call(ctx); err == nil {
		sf.Other = int64(res[0])
	}
	sf.LibOpen = !lib.IsClosed()
	return
}
