// C06 correspondence harness: call histories mixing succeeding and failing calls (traps, stack exhaustion,
// host panics of several Go types, exits, re-entrant host functions) on both engines, reusing the same
// api.Function objects, for comparison with the reference semantics call by call.
package main

import (
	"context"
	"encoding/hex"
	"errors"
	"flag"
	"fmt"
	"strings"
	"sync"

	"github.com/tetratelabs/wazero"
	"github.com/tetratelabs/wazero/api"
	"github.com/tetratelabs/wazero/internal/engine/interpreter"
	"github.com/tetratelabs/wazero/internal/engine/wazevo"
	c "github.com/tetratelabs/wazero/internal/zz_verif/common"
	"github.com/tetratelabs/wazero/sys"
)

type EngObs struct {
	Obs     []c.CallObs `json:"obs"`
	HLog    [][]uint64  `json:"hlog"`
	Globals []uint64    `json:"globals"`
	Mem     [][2]uint32 `json:"mem"`
	Pages   uint32      `json:"pages"`
	Closed  bool        `json:"closed"`
	ClosedAt int        `json:"closed_at"` // index of the call after which the module was first seen closed, -1 if never
	CE      [][2]int    `json:"ce"`    // per call: the call engine's state left behind (compiler: [exitCode, -1]; interpreter: [len(stack), len(frames)])
	Other   []c.CallObs `json:"other"` // a second, untouched instance called after the history
	Err     string      `json:"err,omitempty"`
}

type Case struct {
	ID      int               `json:"id"`
	Store   string            `json:"store"`
	HRes    [][]int           `json:"hres"`
	Calls   [][]uint64        `json:"calls"`
	Reent   int               `json:"reent"`
	Engines map[string]EngObs `json:"engines"`
	Wasm    string            `json:"wasm"`
}

type myPanic struct{ v uint64 }

// helperWasm: (import "xenv" "quit" (func (param i32))) (func (export "quit") (param i32) local.get 0 call 0)
var helperWasm = (&c.Mod{
	Types:   [][]byte{c.FT([]byte{c.I32}, nil)},
	Imports: [][]byte{c.ImportFunc("xenv", "quit", 0)},
	Funcs:   [][]byte{c.U32(0)},
	Exports: [][]byte{c.Export("quit", 0, 1)},
	Codes:   [][]byte{c.Code(nil, c.LocalGet(0), c.Call(0))},
}).Bytes()

func env(ctx context.Context, r wazero.Runtime, m *c.ModSpec, log *c.HostLog, reent string) error {
	// "xenv".quit closes the module that called it (the helper) and panics with the exit error, like proc_exit
	if _, err := r.NewHostModuleBuilder("xenv").NewFunctionBuilder().WithGoModuleFunction(api.GoModuleFunc(func(ctx context.Context, mod api.Module, stack []uint64) {
		_ = mod.CloseWithExitCode(ctx, uint32(stack[0]))
		panic(sys.NewExitError(uint32(stack[0])))
	}), []api.ValueType{api.ValueTypeI32}, nil).Export("quit").Instantiate(ctx); err != nil {
		return err
	}
	helper, err := r.CompileModule(ctx, helperWasm)
	if err != nil {
		return err
	}
	b := r.NewHostModuleBuilder("env")
	for i, h := range m.Hosts {
		h := h
		b = b.NewFunctionBuilder().WithGoModuleFunction(api.GoModuleFunc(func(ctx context.Context, mod api.Module, stack []uint64) {
			args := make([]uint64, len(h.Sig.P))
			copy(args, stack[:len(h.Sig.P)])
			for j, t := range h.Sig.P {
				if t == c.I32 {
					args[j] &= 0xffffffff
				}
			}
			log.Events = append(log.Events, append([]uint64{uint64(h.H)}, args...))
			switch h.H {
			case 10:
				if args[0]%2 == 0 {
					switch args[0] % 6 {
					case 0:
						panic(fmt.Errorf("host error %d", args[0]))
					case 2:
						panic(fmt.Sprintf("host string %d", args[0]))
					default:
						panic(myPanic{args[0]})
					}
				}
			case 11:
				if args[0]%4 == 0 {
					_ = mod.CloseWithExitCode(ctx, uint32(args[0]))
					panic(sys.NewExitError(uint32(args[0])))
				}
			case 13:
				if args[0]%4 == 0 { // a fresh nested instance exits; its error is propagated, the caller stays open
					hm, err := r.InstantiateModule(ctx, helper, wazero.NewModuleConfig().WithName(""))
					if err != nil {
						panic(err)
					}
					_, err = hm.ExportedFunction("quit").Call(ctx, args[0])
					if err == nil {
						panic("helper did not exit")
					}
					panic(err)
				}
			case 12:
				res, err := mod.ExportedFunction(reent).Call(ctx, args[0])
				if err != nil {
					panic(err)
				}
				stack[0] = res[0]
			default:
				copy(stack, c.StdHost(h.H, args, h.Sig.R))
			}
		}), vts(h.Sig.P), vts(h.Sig.R)).Export(fmt.Sprintf("h%d", i))
	}
	_, err = b.Instantiate(ctx)
	return err
}

func vts(ts []byte) []api.ValueType {
	o := make([]api.ValueType, len(ts))
	for i, t := range ts {
		o[i] = api.ValueType(t)
	}
	return o
}

func classify(err error) string {
	k := c.TrapClass(err)
	if strings.HasPrefix(k, "other:") {
		var ee *sys.ExitError
		if errors.As(err, &ee) {
			return fmt.Sprintf("exit:%d", ee.ExitCode())
		}
		if strings.Contains(err.Error(), "host error") || strings.Contains(err.Error(), "host string") || strings.Contains(err.Error(), "myPanic") || strings.Contains(err.Error(), "recovered by wazero") {
			return "panic"
		}
	}
	return k
}

func runOn(engine string, m *c.ModSpec, bin []byte, calls [][]uint64, reent string) (eo EngObs) {
	defer func() {
		if e := recover(); e != nil {
			eo.Err = fmt.Sprint("PANIC escaped to the embedder: ", e)
		}
	}()
	ctx := context.Background()
	var rc wazero.RuntimeConfig
	if engine == "compiler" {
		rc = wazero.NewRuntimeConfigCompiler()
	} else {
		rc = wazero.NewRuntimeConfigInterpreter()
	}
	r := wazero.NewRuntimeWithConfig(ctx, rc)
	defer r.Close(ctx)
	log := &c.HostLog{}
	if err := env(ctx, r, m, log, reent); err != nil {
		eo.Err = "env: " + err.Error()
		return
	}
	cm, err := r.CompileModule(ctx, bin)
	if err != nil {
		eo.Err = "compile: " + err.Error()
		return
	}
	mod, err := r.InstantiateModule(ctx, cm, wazero.NewModuleConfig().WithName("m"))
	if err != nil {
		eo.Err = "instantiate: " + err.Error()
		return
	}
	other, err := r.InstantiateModule(ctx, cm, wazero.NewModuleConfig().WithName("other"))
	if err != nil {
		eo.Err = "instantiate other: " + err.Error()
		return
	}
	fns := map[int]api.Function{} // the same function objects are reused across failures
	eo.ClosedAt = -1
	for ci, cl := range calls {
		fi := int(cl[0])
		f, ok := fns[fi]
		if !ok {
			f = mod.ExportedFunction(fmt.Sprintf("f%d", fi))
			fns[fi] = f
		}
		res, err := f.Call(ctx, cl[1:]...)
		if err != nil {
			eo.Obs = append(eo.Obs, c.CallObs{Trap: classify(err)})
		} else {
			eo.Obs = append(eo.Obs, c.CallObs{Res: c.MaskRes(res, m.FuncSig(fi).R)})
		}
		if code, ok := wazevo.VerifExitCode(f); ok {
			eo.CE = append(eo.CE, [2]int{int(code), -1})
		} else if st, fr, ok := interpreter.VerifDepths(f); ok {
			eo.CE = append(eo.CE, [2]int{st, fr})
		} else {
			eo.CE = append(eo.CE, [2]int{-1, -1})
		}
		if eo.ClosedAt < 0 && mod.IsClosed() {
			eo.ClosedAt = ci
		}
	}
	eo.HLog = log.Events
	eo.Closed = mod.IsClosed()
	{
		for i, t := range m.Globals {
			v := mod.ExportedGlobal(fmt.Sprintf("g%d", i)).Get()
			if t == c.I32 {
				v &= 0xffffffff
			}
			eo.Globals = append(eo.Globals, v)
		}
		if m.HasMem {
			eo.Mem = c.NonZero(mod.Memory(), 4096)
			eo.Pages, _ = mod.Memory().Grow(0)
		}
	}
	// the untouched second instance must behave like a fresh one: run the first non-failing-host call on it
	log.Events = nil
	for _, cl := range calls[:1] {
		fi := int(cl[0])
		res, err := other.ExportedFunction(fmt.Sprintf("f%d", fi)).Call(ctx, cl[1:]...)
		if err != nil {
			eo.Other = append(eo.Other, c.CallObs{Trap: classify(err)})
		} else {
			eo.Other = append(eo.Other, c.CallObs{Res: c.MaskRes(res, m.FuncSig(fi).R)})
		}
	}
	return
}

func main() {
	seed := flag.Uint64("seed", 1, "")
	n := flag.Int("n", 100, "")
	nx := flag.Int("nx", 40, "linked failure histories (xlink.go)")
	flag.Parse()
	rng := c.NewRng(*seed)
	out := c.NewOut()
	defer out.Flush()
	startFails(context.Background(), out)
	for _, xc := range xlinkedCases(c.NewRng(*seed*7919+13), *nx) {
		out.Emit(xc)
	}
	cases := make([]Case, *n)
	mods := make([]*c.ModSpec, *n)
	bins := make([][]byte, *n)
	reents := make([]string, *n)
	for i := 0; i < *n; i++ {
		g := &c.Gen{R: rng, OOBRate: 1 + rng.Intn(2), TrapRate: 3 + rng.Intn(6)}
		g.ExtraHosts = []c.HostSpec{{H: 10, Sig: c.Sig{P: []byte{c.I32}}}, {H: 11, Sig: c.Sig{P: []byte{c.I32}}}, {H: 12, Sig: c.Sig{P: []byte{c.I32}, R: []byte{c.I32}}}, {H: 13, Sig: c.Sig{P: []byte{c.I32}}}}
		m := g.Program(2 + rng.Intn(4))
		nh := len(m.Hosts)
		// appended by hand: reent (called back by host 12) and rec (unbounded recursion)
		reentIdx := nh + len(m.Funcs)
		reent := &c.FuncSpec{Sig: c.Sig{P: []byte{c.I32}, R: []byte{c.I32}}}
		reent.Body = []c.Ins{c.ILocalGet(0), c.IConst(c.I32, 13), c.IRel(c.I32, 0), m.IIf(nil, nil, []c.Ins{c.IUnreachable}, nil),
			c.ILocalGet(0), c.IConst(c.I32, 3), c.IBin(c.I32, 2)}
		for gi, gt := range m.Globals {
			if gt == c.I32 {
				reent.Body = append(reent.Body, c.IGlobalGet(gi), c.IBin(c.I32, 0), c.ILocalTee(0), c.IGlobalSet(gi), c.ILocalGet(0))
				break
			}
		}
		m.Funcs = append(m.Funcs, reent)
		recIdx := nh + len(m.Funcs)
		rec := &c.FuncSpec{Sig: c.Sig{P: []byte{c.I32}, R: []byte{c.I32}}, Locals: make([]byte, rng.Intn(12))}
		for j := range rec.Locals {
			rec.Locals[j] = c.I64
		}
		// rec(n) = n == 0 ? 0 : rec(n-1) + 1: succeeds for small n, exhausts the stack for huge n, stays in native code
		rec.Body = []c.Ins{c.ILocalGet(0), c.IEqz(c.I32),
			m.IIf(nil, []byte{c.I32}, []c.Ins{c.IConst(c.I32, 0)},
				[]c.Ins{c.ILocalGet(0), c.IConst(c.I32, 1), c.IBin(c.I32, 1), c.ICall(recIdx), c.IConst(c.I32, 1), c.IBin(c.I32, 0)})}
		m.Funcs = append(m.Funcs, rec)
		// fx(x) = if x != 0 { h13(x) }; return x + 1: fails with a propagated exit for multiples of 4, otherwise never leaves native code
		fxIdx := nh + len(m.Funcs)
		h13 := -1
		for hi, h := range m.Hosts {
			if h.H == 13 {
				h13 = hi
			}
		}
		fx := &c.FuncSpec{Sig: c.Sig{P: []byte{c.I32}, R: []byte{c.I32}}}
		fx.Body = []c.Ins{c.ILocalGet(0), m.IIf(nil, nil, []c.Ins{c.ILocalGet(0), c.ICall(h13)}, nil), c.ILocalGet(0), c.IConst(c.I32, 1), c.IBin(c.I32, 0)}
		m.Funcs = append(m.Funcs, fx)
		bin := m.Encode()
		var calls [][]uint64
		for k := 4 + rng.Intn(6); k > 0; k-- {
			fi := nh + rng.Intn(len(m.Funcs))
			if rng.Intn(4) == 0 {
				fi = recIdx
			}
			cl := []uint64{uint64(fi)}
			if rng.Intn(5) == 0 {
				calls = append(calls, []uint64{uint64(fxIdx), rng.Pick([]uint64{0, 0, 0, 4, 8, 12, 1, 3})})
				continue
			}
			if fi == recIdx {
				// small depths succeed, huge ones overflow on both engines and in the model (nothing in between)
				calls = append(calls, []uint64{uint64(fi), rng.Pick([]uint64{0, 1, 5, 33, 60, 0x7fffffff, 50000000, 0x7fffffff})})
				continue
			}
			for _, t := range m.FuncSig(fi).P {
				v := rng.Pick([]uint64{0, 1, 2, 3, 4, 6, 8, 13, 0xffffffff, 0x80000000, rng.U64(), uint64(rng.Intn(64))})
				if t == c.I32 {
					v &= 0xffffffff
				}
				cl = append(cl, v)
			}
			calls = append(calls, cl)
		}
		hres := make([][]int, 14)
		for j := range hres {
			hres[j] = []int{}
		}
		for _, h := range m.Hosts {
			for _, t := range h.Sig.R {
				if t == c.I64 {
					hres[h.H] = append(hres[h.H], 64)
				} else {
					hres[h.H] = append(hres[h.H], 32)
				}
			}
		}
		cases[i] = Case{ID: i, Store: m.CoqStore(), HRes: hres, Calls: calls, Reent: reentIdx, Wasm: hex.EncodeToString(bin), Engines: map[string]EngObs{}}
		mods[i], bins[i], reents[i] = m, bin, fmt.Sprintf("f%d", reentIdx)
	}
	var wg sync.WaitGroup
	var mu sync.Mutex
	sem := make(chan struct{}, 12)
	for i := range cases {
		for _, eng := range []string{"interp", "compiler"} {
			wg.Add(1)
			sem <- struct{}{}
			go func(i int, eng string) {
				defer wg.Done()
				defer func() { <-sem }()
				eo := runOn(eng, mods[i], bins[i], cases[i].Calls, reents[i])
				mu.Lock()
				cases[i].Engines[eng] = eo
				mu.Unlock()
			}(i, eng)
		}
	}
	wg.Wait()
	for i := range cases {
		out.Emit(cases[i])
	}
}
