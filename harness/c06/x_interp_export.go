// Overlay file for package internal/engine/interpreter (mapped to zz_verif_export.go): exposes the lengths of the
// value stack and of the frame stack a call engine keeps between calls, for the C06 harness.
package interpreter

import "github.com/tetratelabs/wazero/api"

// VerifDepths returns len(ce.stack), len(ce.frames) of the call engine behind f (ok = false when f is not an interpreter call engine).
func VerifDepths(f api.Function) (stack, frames int, ok bool) {
	if ce, isCE := f.(*callEngine); isCE {
		return len(ce.stack), len(ce.frames), true
	}
	return 0, 0, false
}
