// Overlay file for package internal/engine/wazevo (mapped to zz_verif_export.go): exposes the exit code a call engine
// keeps in its execution context between calls, for the C06 harness.
package wazevo

import "github.com/tetratelabs/wazero/api"

// VerifExitCode returns execCtx.exitCode of the call engine behind f (ok = false when f is not a compiler call engine).
func VerifExitCode(f api.Function) (code uint32, ok bool) {
	if c, isCE := f.(*callEngine); isCE {
		return uint32(c.execCtx.exitCode), true
	}
	return 0, false
}
