// C18 correspondence harness: the same WASI-only guest scripts (over all 46 functions of wasi_snapshot_preview1, on open,
// closed and never-opened descriptors, ending in proc_exit or not) are run under the DEFAULT module configuration in
// SEPARATE child processes (this binary re-executes itself) that differ in environment variables, working
// directory, argv, start time (>= 1 s apart) and engine; one child additionally runs two instances of every script
// interleaved call by call in one runtime. Every child prints, per script, the complete trace (WASI errno and the
// bytes written to the result areas of every call). The parent relays the lines tagged with the variant.
package main

import (
	"context"
	"encoding/binary"
	"flag"
	"fmt"
	"os"
	"os/exec"
	"path/filepath"
	"strings"
	"time"

	"github.com/tetratelabs/wazero"
	"github.com/tetratelabs/wazero/api"
	"github.com/tetratelabs/wazero/imports/wasi_snapshot_preview1"
	c "github.com/tetratelabs/wazero/internal/zz_verif/common"
	"github.com/tetratelabs/wazero/sys"
)

type wf struct {
	name   string
	params []byte
	noRes  bool
}

// every function of wasi_snapshot_preview1
var wasiFuncs = []wf{
	{"args_get", c.B(c.I32, c.I32), false},
	{"args_sizes_get", c.B(c.I32, c.I32), false},
	{"environ_get", c.B(c.I32, c.I32), false},
	{"environ_sizes_get", c.B(c.I32, c.I32), false},
	{"clock_res_get", c.B(c.I32, c.I32), false},
	{"clock_time_get", c.B(c.I32, c.I64, c.I32), false},
	{"fd_advise", c.B(c.I32, c.I64, c.I64, c.I32), false},
	{"fd_allocate", c.B(c.I32, c.I64, c.I64), false},
	{"fd_close", c.B(c.I32), false},
	{"fd_datasync", c.B(c.I32), false},
	{"fd_fdstat_get", c.B(c.I32, c.I32), false},
	{"fd_fdstat_set_flags", c.B(c.I32, c.I32), false},
	{"fd_fdstat_set_rights", c.B(c.I32, c.I64, c.I64), false},
	{"fd_filestat_get", c.B(c.I32, c.I32), false},
	{"fd_filestat_set_size", c.B(c.I32, c.I64), false},
	{"fd_filestat_set_times", c.B(c.I32, c.I64, c.I64, c.I32), false},
	{"fd_pread", c.B(c.I32, c.I32, c.I32, c.I64, c.I32), false},
	{"fd_prestat_get", c.B(c.I32, c.I32), false},
	{"fd_prestat_dir_name", c.B(c.I32, c.I32, c.I32), false},
	{"fd_pwrite", c.B(c.I32, c.I32, c.I32, c.I64, c.I32), false},
	{"fd_read", c.B(c.I32, c.I32, c.I32, c.I32), false},
	{"fd_readdir", c.B(c.I32, c.I32, c.I32, c.I64, c.I32), false},
	{"fd_renumber", c.B(c.I32, c.I32), false},
	{"fd_seek", c.B(c.I32, c.I64, c.I32, c.I32), false},
	{"fd_sync", c.B(c.I32), false},
	{"fd_tell", c.B(c.I32, c.I32), false},
	{"fd_write", c.B(c.I32, c.I32, c.I32, c.I32), false},
	{"path_create_directory", c.B(c.I32, c.I32, c.I32), false},
	{"path_filestat_get", c.B(c.I32, c.I32, c.I32, c.I32, c.I32), false},
	{"path_filestat_set_times", c.B(c.I32, c.I32, c.I32, c.I32, c.I64, c.I64, c.I32), false},
	{"path_link", c.B(c.I32, c.I32, c.I32, c.I32, c.I32, c.I32, c.I32), false},
	{"path_open", c.B(c.I32, c.I32, c.I32, c.I32, c.I32, c.I64, c.I64, c.I32, c.I32), false},
	{"path_readlink", c.B(c.I32, c.I32, c.I32, c.I32, c.I32, c.I32), false},
	{"path_remove_directory", c.B(c.I32, c.I32, c.I32), false},
	{"path_rename", c.B(c.I32, c.I32, c.I32, c.I32, c.I32, c.I32), false},
	{"path_symlink", c.B(c.I32, c.I32, c.I32, c.I32, c.I32), false},
	{"path_unlink_file", c.B(c.I32, c.I32, c.I32), false},
	{"poll_oneoff", c.B(c.I32, c.I32, c.I32, c.I32), false},
	{"proc_exit", c.B(c.I32), true},
	{"proc_raise", c.B(c.I32), false},
	{"sched_yield", nil, false},
	{"random_get", c.B(c.I32, c.I32), false},
	{"sock_accept", c.B(c.I32, c.I32, c.I32), false},
	{"sock_recv", c.B(c.I32, c.I32, c.I32, c.I32, c.I32, c.I32), false},
	{"sock_send", c.B(c.I32, c.I32, c.I32, c.I32, c.I32), false},
	{"sock_shutdown", c.B(c.I32, c.I32), false},
}

func proxy() []byte {
	m := &c.Mod{}
	for i, f := range wasiFuncs {
		res := c.B(c.I32)
		if f.noRes {
			res = nil
		}
		m.Types = append(m.Types, c.FT(f.params, res))
		m.Imports = append(m.Imports, c.ImportFunc("wasi_snapshot_preview1", f.name, uint32(i)))
		m.Funcs = append(m.Funcs, c.U32(uint32(i)))
		var body [][]byte
		for p := range f.params {
			body = append(body, c.LocalGet(uint32(p)))
		}
		body = append(body, c.Call(uint32(i)))
		m.Codes = append(m.Codes, c.Code(nil, body...))
		m.Exports = append(m.Exports, c.Export(f.name, 0, uint32(len(wasiFuncs)+i)))
	}
	m.Mems = [][]byte{c.MemLimits(1, nil)}
	m.Exports = append(m.Exports, c.Export("memory", 2, 0))
	return m.Bytes()
}

// ---- scripts: every choice derives from the seed, so parent and children agree without passing them around ----
func pick[T any](r *c.Rng, xs []T) T { return xs[r.Intn(len(xs))] }

func bytesOf(s string) []any {
	o := make([]any, len(s))
	for i := range s {
		o[i] = uint64(s[i])
	}
	return o
}

var somePaths = []string{"", "x", ".", "..", "a/b", "a/../..", "a/../b", "/", "/x", "./x", "a//b", "../x", "a/./b/../../c", "x/", "a/b/../../../c",
	"...", "a/...", "..a", "a/..b/..", "./", "//", "a/", "a/../", "a/../../", "./../x", "stdin", "dev/null"}

func genPath(r *c.Rng) []any {
	if r.Intn(3) > 0 {
		return bytesOf(pick(r, somePaths))
	}
	n := r.Intn(9)
	b := make([]byte, n)
	for i := range b {
		b[i] = pick(r, []byte{'a', '.', '.', '/', '/', 'b', ' ', 0, '~'})
	}
	return bytesOf(string(b))
}

func genLens(r *c.Rng) []any {
	n := pick(r, []int{0, 1, 1, 1, 2, 3})
	o := make([]any, n)
	for i := range o {
		o[i] = pick(r, []uint64{0, 0, 1, 4, 16})
	}
	return o
}

func genChunks(r *c.Rng) []any {
	n := pick(r, []int{0, 1, 1, 1, 2, 3})
	o := make([]any, n)
	for i := range o {
		d := make([]any, pick(r, []int{0, 0, 1, 3, 8}))
		for j := range d {
			d[j] = uint64(r.Intn(256))
		}
		o[i] = d
	}
	return o
}

func genScript(r *c.Rng) [][]any {
	n := 12 + r.Intn(28)
	var calls [][]any
	fd := func() uint64 {
		switch k := r.Intn(10); {
		case k < 6:
			return uint64(r.Intn(3))
		case k < 8:
			return uint64(3 + r.Intn(8))
		}
		return pick(r, []uint64{99, 1 << 31, 0xffffffff, 1<<32 + 1, 1 << 32, 0xfffffffe, 64, 1<<32 + 2})
	}
	i64 := func() uint64 { return pick(r, []uint64{0, 0, 1, 7, 1 << 31, 1<<63 - 1, 1 << 63, ^uint64(0), r.U64()}) }
	add := func(x ...any) { calls = append(calls, x) }
	exited := false
	for i := 0; i < n; i++ {
		switch k := r.Intn(80); {
		case k < 6:
			add("clock_time_get", pick(r, []uint64{0, 0, 0, 1, 1, 1, 2, 3, 99, 1 << 32}), pick(r, []uint64{0, 1, 1000, r.U64()}))
		case k < 8:
			add("clock_res_get", pick(r, []uint64{0, 1, 2, 3, 77, 1 << 32, 1<<32 + 1}))
		case k < 11:
			add("random_get", pick(r, []uint64{0, 1, 3, 7, 8, 16, 33}))
		case k == 11:
			add(pick(r, []string{"args_sizes_get", "environ_sizes_get", "args_get", "environ_get"}))
		case k < 15:
			add("fd_read", fd(), genLens(r))
		case k < 18:
			add("fd_write", fd(), genChunks(r))
		case k < 20:
			add("fd_pread", fd(), genLens(r), i64())
		case k < 22:
			add("fd_pwrite", fd(), genChunks(r), i64())
		case k == 22:
			add("fd_prestat_get", fd())
		case k == 23:
			add("fd_prestat_dir_name", fd(), pick(r, []uint64{0, 0, 1, 5, 1 << 32, 1<<32 + 1}))
		case k < 26:
			add("fd_fdstat_get", fd())
		case k == 26:
			add("fd_fdstat_set_flags", fd(), pick(r, []uint64{0, 1, 4, 5, 2, 8, 16, 31, 1 << 16, 1<<16 + 2, uint64(r.Intn(32))}))
		case k == 27:
			add("fd_fdstat_set_rights", fd(), i64(), i64())
		case k < 31:
			add("fd_filestat_get", fd())
		case k == 31:
			add("fd_filestat_set_size", fd(), i64())
		case k < 35:
			add("fd_filestat_set_times", fd(), i64(), i64(), pick(r, []uint64{0, 1, 2, 2, 3, 4, 8, 8, 10, 12, 5, 6, 9, 15, 1 << 16, 1<<16 + 2, uint64(r.Intn(16))}))
		case k == 35:
			add("fd_advise", fd(), i64(), i64(), pick(r, []uint64{0, 1, 5, 6, 255, 256, 261, uint64(r.Intn(8))}))
		case k == 36:
			add("fd_allocate", fd(), i64(), i64())
		case k < 43:
			add("fd_close", fd())
		case k == 43:
			add(pick(r, []string{"fd_datasync", "fd_sync"}), fd())
		case k == 44:
			add("fd_readdir", fd(), pick(r, []uint64{0, 23, 24, 100, 1 << 32, 1<<32 + 24}), i64())
		case k < 47:
			add("fd_renumber", fd(), fd())
		case k == 47:
			add("fd_seek", fd(), i64(), pick(r, []uint64{0, 1, 2, 3, 99}))
		case k == 48:
			add("fd_tell", fd())
		case k < 52:
			add("poll_clock", uint64(r.Intn(2)), pick(r, []uint64{0, 1000, 5_000_000, 300_000_000, 1_000_000_000}), pick(r, []uint64{0, 0, 0, 0, 1, 2, 3}), r.U64())
		case k < 57:
			calls = append(calls, genPoll(r))
		case k == 57:
			add("sched_yield")
		case k < 60:
			add("path_open", fd(), genPath(r), uint64(r.Intn(2)), uint64(r.Intn(16)), r.U64(), uint64(r.Intn(32)))
		case k == 60:
			add("path_create_directory", fd(), genPath(r))
		case k < 63:
			add("path_filestat_get", fd(), uint64(r.Intn(2)), genPath(r))
		case k < 65:
			add("path_filestat_set_times", fd(), uint64(r.Intn(2)), genPath(r), i64(), i64(), pick(r, []uint64{0, 1, 2, 2, 3, 4, 8, 8, 10, 12, 5, 6, 9, 15, uint64(r.Intn(16))}))
		case k == 65:
			add("path_link", fd(), uint64(r.Intn(2)), genPath(r), fd(), genPath(r))
		case k == 66:
			add("path_readlink", fd(), genPath(r), pick(r, []uint64{0, 1, 64, 1 << 32}))
		case k == 67:
			add(pick(r, []string{"path_remove_directory", "path_unlink_file"}), fd(), genPath(r))
		case k == 68:
			add("path_rename", fd(), genPath(r), fd(), genPath(r))
		case k == 69:
			add("path_symlink", genPath(r), fd(), genPath(r))
		case k == 70:
			add("proc_raise", pick(r, []uint64{0, 1, 9, 255}))
		case k == 71:
			add("sock_accept", fd(), pick(r, []uint64{0, 4}))
		case k == 72:
			add("sock_recv", fd(), genLens(r), pick(r, []uint64{0, 1, 2, 3, 4}))
		case k == 73:
			add("sock_send", fd(), genChunks(r), pick(r, []uint64{0, 0, 1, 1 << 32}))
		case k == 74:
			add("sock_shutdown", fd(), pick(r, []uint64{0, 1, 2, 3, 4}))
		case k == 75 && !exited && i > n/2 && r.Intn(3) == 0:
			exited = true
			add("proc_exit", pick(r, []uint64{0, 1, 3, 255, 1 << 31, 0xffffffff, 1<<32 + 5}))
		default:
			add("clock_time_get", uint64(r.Intn(2)), uint64(0))
		}
	}
	return calls
}

// genPoll: poll_oneoff with 1..8 subscriptions of every kind; half of them are made of fd_read subscriptions on the
// stdio descriptors only (the ones that are answered after all the others).
func genPoll(r *c.Rng) []any {
	n := 1 + r.Intn(8)
	stdio := r.Intn(2) == 0
	subs := make([]any, n)
	for j := range subs {
		ud := pick(r, []uint64{uint64(j + 1), uint64(j + 1), r.U64()})
		switch k := r.Intn(10); {
		case stdio || k < 4:
			fd := uint64(r.Intn(3))
			if !stdio {
				fd = pick(r, []uint64{0, 1, 2, 3, 4, 99, 1 << 31, 0xffffffff})
			}
			subs[j] = []any{"read", fd, ud}
		case k < 7:
			subs[j] = []any{"clock", pick(r, []uint64{0, 1000, 5_000_000, 1 << 63, r.U64()}), pick(r, []uint64{0, 0, 0, 0, 0, 0, 1, 2, 0x10000}), ud}
		case k < 9:
			subs[j] = []any{"write", pick(r, []uint64{0, 1, 2, 3, 99, 1 << 31}), ud}
		default:
			subs[j] = []any{"other", pick(r, []uint64{3, 7, 255}), ud}
		}
	}
	return []any{"poll", subs}
}

// fdProbe: every descriptor-taking function once on descriptor fd
func fdProbe(fd uint64) [][]any {
	x := bytesOf("x")
	return [][]any{
		{"fd_prestat_get", fd}, {"fd_prestat_dir_name", fd, uint64(0)}, {"fd_prestat_dir_name", fd, uint64(5)},
		{"fd_fdstat_get", fd}, {"fd_filestat_get", fd},
		{"fd_read", fd, []any{uint64(8)}}, {"fd_read", fd, []any{uint64(0)}}, {"fd_read", fd, []any{}}, {"fd_read", fd, []any{uint64(0), uint64(4), uint64(4)}},
		{"fd_write", fd, []any{[]any{uint64(104), uint64(105)}}}, {"fd_write", fd, []any{[]any{}}}, {"fd_write", fd, []any{}},
		{"fd_write", fd, []any{[]any{uint64(1)}, []any{}, []any{uint64(2), uint64(3)}}},
		{"fd_pread", fd, []any{uint64(8)}, uint64(0)}, {"fd_pread", fd, []any{uint64(0)}, uint64(3)}, {"fd_pread", fd, []any{}, uint64(1) << 63},
		{"fd_pwrite", fd, []any{[]any{uint64(7)}}, uint64(0)}, {"fd_pwrite", fd, []any{[]any{}}, uint64(9)}, {"fd_pwrite", fd, []any{}, ^uint64(0)},
		{"fd_fdstat_set_flags", fd, uint64(0)}, {"fd_fdstat_set_flags", fd, uint64(4)}, {"fd_fdstat_set_flags", fd, uint64(1)}, {"fd_fdstat_set_flags", fd, uint64(2)},
		{"fd_fdstat_set_rights", fd, uint64(0), uint64(0)},
		{"fd_filestat_set_size", fd, uint64(0)}, {"fd_filestat_set_size", fd, uint64(10)},
		{"fd_filestat_set_times", fd, uint64(5), uint64(6), uint64(0)}, {"fd_filestat_set_times", fd, uint64(5), uint64(6), uint64(5)},
		{"clock_time_get", uint64(0), uint64(0)},
		{"fd_filestat_set_times", fd, uint64(5), uint64(6), uint64(2)}, {"clock_time_get", uint64(0), uint64(0)},
		{"fd_filestat_set_times", fd, uint64(5), uint64(6), uint64(8)}, {"clock_time_get", uint64(0), uint64(0)},
		{"fd_filestat_set_times", fd, uint64(5), uint64(6), uint64(10)}, {"clock_time_get", uint64(0), uint64(0)},
		{"fd_filestat_set_times", fd, uint64(5), uint64(6), uint64(3)}, {"fd_filestat_set_times", fd, uint64(5), uint64(6), uint64(14)},
		{"clock_time_get", uint64(0), uint64(0)}, {"clock_time_get", uint64(1), uint64(0)},
		{"fd_advise", fd, uint64(0), uint64(0), uint64(0)}, {"fd_advise", fd, uint64(0), uint64(0), uint64(5)}, {"fd_advise", fd, uint64(0), uint64(0), uint64(6)},
		{"fd_advise", fd, uint64(0), uint64(0), uint64(256)},
		{"fd_allocate", fd, uint64(0), uint64(0)}, {"fd_allocate", fd, uint64(0), uint64(1)}, {"fd_allocate", fd, uint64(1) << 63, uint64(0)},
		{"fd_allocate", fd, uint64(1) << 63, uint64(1) << 63}, {"fd_allocate", fd, uint64(1)<<63 - 1, uint64(1)},
		{"fd_datasync", fd}, {"fd_sync", fd},
		{"fd_readdir", fd, uint64(23), uint64(0)}, {"fd_readdir", fd, uint64(24), uint64(0)}, {"fd_readdir", fd, uint64(200), uint64(7)},
		{"fd_renumber", fd, fd}, {"fd_renumber", fd, uint64(5)}, {"fd_renumber", fd, uint64(0)}, {"fd_renumber", fd, uint64(0xffffffff)}, {"fd_renumber", uint64(5), fd},
		{"fd_seek", fd, uint64(0), uint64(0)}, {"fd_seek", fd, uint64(3), uint64(1)}, {"fd_seek", fd, uint64(0), uint64(9)}, {"fd_tell", fd},
		{"poll", []any{[]any{"read", fd, uint64(1)}}}, {"poll", []any{[]any{"write", fd, uint64(2)}}},
		{"poll", []any{[]any{"read", fd, uint64(1)}, []any{"clock", uint64(1000), uint64(0), uint64(3)}, []any{"read", uint64(2), uint64(4)}}},
		{"path_open", fd, x, uint64(0), uint64(0), uint64(0), uint64(0)}, {"path_open", fd, bytesOf(".."), uint64(0), uint64(0), uint64(0), uint64(0)},
		{"path_open", fd, bytesOf(""), uint64(1), uint64(1), uint64(64), uint64(1)},
		{"path_create_directory", fd, x}, {"path_create_directory", fd, bytesOf("/x")},
		{"path_filestat_get", fd, uint64(0), x}, {"path_filestat_get", fd, uint64(1), bytesOf(".")}, {"path_filestat_get", fd, uint64(1), bytesOf("a/../..")},
		{"path_filestat_set_times", fd, uint64(0), x, uint64(1), uint64(2), uint64(0)}, {"path_filestat_set_times", fd, uint64(1), x, uint64(1), uint64(2), uint64(10)},
		{"clock_time_get", uint64(0), uint64(0)},
		{"path_filestat_set_times", fd, uint64(1), bytesOf(".."), uint64(1), uint64(2), uint64(2)}, {"path_filestat_set_times", fd, uint64(1), x, uint64(1), uint64(2), uint64(14)},
		{"path_filestat_set_times", fd, uint64(1), x, uint64(1), uint64(2), uint64(3)},
		{"clock_time_get", uint64(0), uint64(0)},
		{"path_link", fd, uint64(0), x, fd, bytesOf("y")}, {"path_link", fd, uint64(0), x, uint64(7), bytesOf("..")}, {"path_link", uint64(7), uint64(0), x, fd, bytesOf("y")},
		{"path_readlink", fd, x, uint64(64)}, {"path_readlink", fd, bytesOf(""), uint64(64)}, {"path_readlink", fd, x, uint64(0)}, {"path_readlink", fd, bytesOf("../x"), uint64(8)},
		{"path_remove_directory", fd, x}, {"path_unlink_file", fd, x}, {"path_unlink_file", fd, bytesOf("a/b/../../../c")},
		{"path_rename", fd, x, fd, bytesOf("y")}, {"path_rename", fd, bytesOf("/"), fd, bytesOf("y")},
		{"path_symlink", x, fd, bytesOf("y")}, {"path_symlink", bytesOf(""), fd, bytesOf("..")},
		{"sock_accept", fd, uint64(0)}, {"sock_accept", fd, uint64(4)},
		{"sock_recv", fd, []any{uint64(8)}, uint64(0)}, {"sock_recv", fd, []any{uint64(8)}, uint64(1)}, {"sock_recv", fd, []any{uint64(8)}, uint64(4)},
		{"sock_send", fd, []any{[]any{uint64(1)}}, uint64(0)}, {"sock_send", fd, []any{[]any{uint64(1)}}, uint64(1)},
		{"sock_shutdown", fd, uint64(1)}, {"sock_shutdown", fd, uint64(3)}, {"sock_shutdown", fd, uint64(0)},
	}
}

var probeFds = []uint64{0, 1, 2, 3, 7, 0xffffffff, 1 << 31, 1<<32 + 1}

func fixedScript() [][]any {
	var calls [][]any
	for i := 0; i < 5; i++ {
		calls = append(calls, []any{"clock_time_get", uint64(0), uint64(0)}, []any{"clock_time_get", uint64(1), uint64(0)})
	}
	calls = append(calls,
		[]any{"clock_res_get", uint64(0)}, []any{"clock_res_get", uint64(1)},
		[]any{"random_get", uint64(200)}, []any{"random_get", uint64(5)}, []any{"random_get", uint64(1)}, []any{"random_get", uint64(64)},
		[]any{"args_sizes_get"}, []any{"args_get"}, []any{"environ_sizes_get"}, []any{"environ_get"},
		[]any{"poll_clock", uint64(0), uint64(1_000_000_000), uint64(0), uint64(0x1122334455667788)},
		[]any{"poll_clock", uint64(1), uint64(1_000_000_000), uint64(0), uint64(7)},
		[]any{"sched_yield"}, []any{"proc_raise", uint64(9)},
		[]any{"clock_time_get", uint64(0), uint64(0)}, []any{"clock_time_get", uint64(1), uint64(0)},
	)
	// fd_read subscriptions on all three stdio descriptors (each is answered after the immediate ones), many times over
	for i := 0; i < 12; i++ {
		calls = append(calls, []any{"poll", []any{[]any{"read", uint64(i % 3), uint64(1)}, []any{"clock", uint64(1000), uint64(0), uint64(2)},
			[]any{"read", uint64((i + 1) % 3), uint64(3)}, []any{"write", uint64(1), uint64(4)}, []any{"read", uint64((i + 2) % 3), uint64(5)},
			[]any{"read", uint64(9), uint64(6)}}})
	}
	for fd := uint64(0); fd <= 10; fd++ {
		calls = append(calls, []any{"fd_prestat_get", fd}, []any{"fd_fdstat_get", fd}, []any{"fd_read", fd, []any{uint64(8)}},
			[]any{"fd_write", fd, []any{[]any{uint64(104), uint64(105)}}}, []any{"path_open", fd, bytesOf("x"), uint64(0), uint64(0), uint64(2), uint64(0)})
	}
	return calls
}

// tableScript: every descriptor function on open, closed and never-opened descriptors while the three stdio
// descriptors are closed one after the other (stdout first, then stdin, then stderr), closing twice, then proc_exit
func tableScript() [][]any {
	var calls [][]any
	probe := func() {
		for _, fd := range probeFds {
			calls = append(calls, fdProbe(fd)...)
		}
	}
	probe()
	for _, fd := range []uint64{1, 0, 1<<32 + 2} {
		calls = append(calls, []any{"fd_close", fd})
		probe()
		calls = append(calls, []any{"fd_close", fd}, []any{"fd_close", uint64(9)}, []any{"fd_close", uint64(0xffffffff)})
	}
	calls = append(calls, []any{"clock_time_get", uint64(0), uint64(0)}, []any{"random_get", uint64(4)}, []any{"proc_exit", uint64(42)},
		[]any{"clock_time_get", uint64(0), uint64(0)}, []any{"fd_close", uint64(2)}, []any{"random_get", uint64(4)}, []any{"proc_exit", uint64(1)},
		[]any{"fd_write", uint64(1), []any{[]any{uint64(65)}}}, []any{"sched_yield"})
	return calls
}

func u(v any) uint64 {
	switch x := v.(type) {
	case uint64:
		return x
	case int:
		return uint64(x)
	}
	panic(fmt.Sprintf("bad number %T", v))
}

type res struct {
	E int64 `json:"e"`
	B []int `json:"b"`
}

const (
	pA     = 256  // first result area
	pB     = 264  // second result area
	pIov   = 512  // iovecs
	pBuf   = 1024 // data buffer
	pSub   = 2048 // poll subscription
	pEvt   = 3072 // poll events
	pPath  = 4000
	pPath2 = 4200
)

func ints(b []byte) []int {
	o := make([]int, len(b))
	for i := range b {
		o[i] = int(b[i])
	}
	return o
}

type exited struct{ code uint32 }

// exec1 runs one call; a call that ends in the instance's exit (proc_exit itself: -1; any call into an instance that
// has exited: -2) reports the exit code as four little-endian bytes.
func exec1(ctx context.Context, mod api.Module, call []any) (out res) {
	defer func() {
		if x := recover(); x != nil {
			ex, ok := x.(exited)
			if !ok {
				panic(x)
			}
			b := make([]byte, 4)
			binary.LittleEndian.PutUint32(b, ex.code)
			out = res{-2, ints(b)}
			if call[0].(string) == "proc_exit" && !isClosed[mod] {
				out.E = -1
			}
			isClosed[mod] = true
		}
	}()
	return exec0(ctx, mod, call)
}

var isClosed = map[api.Module]bool{}

// runScript: the calls of one guest up to and including its proc_exit, if any (afterwards the guest no longer runs)
func runScript(ctx context.Context, m api.Module, calls [][]any) []res {
	var t []res
	for _, cl := range calls {
		if isClosed[m] {
			break
		}
		t = append(t, exec1(ctx, m, cl))
	}
	return t
}

func exec0(ctx context.Context, mod api.Module, call []any) res {
	mem := mod.Memory()
	fn := func(name string, args ...uint64) int64 {
		r, err := mod.ExportedFunction(name).Call(ctx, args...)
		if err != nil {
			if ee, ok := err.(*sys.ExitError); ok {
				panic(exited{ee.ExitCode()})
			}
			panic(fmt.Sprintf("%s trapped: %v", name, err))
		}
		if len(r) == 0 {
			panic(name + " returned")
		}
		return int64(uint32(r[0]))
	}
	rd := func(off, n uint32) []int { b, _ := mem.Read(off, n); return ints(b) }
	fill := func(off, n uint32) {
		b, _ := mem.Read(off, n)
		for i := range b {
			b[i] = 0xaa
		}
	}
	blob := func(v any) []byte {
		d := v.([]any)
		b := make([]byte, len(d))
		for i := range d {
			b[i] = byte(u(d[i]))
		}
		return b
	}
	// iovecs for buffers of the given lengths laid out one after the other in pBuf; returns their number and total
	iovLens := func(v any) (uint64, uint32) {
		ls := v.([]any)
		off := uint32(pBuf)
		for i, l := range ls {
			mem.WriteUint32Le(pIov+uint32(8*i), off)
			mem.WriteUint32Le(pIov+uint32(8*i)+4, uint32(u(l)))
			off += uint32(u(l))
		}
		fill(pBuf, off-pBuf)
		return uint64(len(ls)), off - pBuf
	}
	iovChunks := func(v any) uint64 {
		cs := v.([]any)
		off := uint32(pBuf)
		for i, cv := range cs {
			b := blob(cv)
			mem.Write(off, b)
			mem.WriteUint32Le(pIov+uint32(8*i), off)
			mem.WriteUint32Le(pIov+uint32(8*i)+4, uint32(len(b)))
			off += uint32(len(b))
		}
		return uint64(len(cs))
	}
	path := func(at uint32, v any) (uint64, uint64) {
		b := blob(v)
		mem.Write(at, b)
		return uint64(at), uint64(len(b))
	}
	errOnly := func(e int64) res { return res{e, nil} }
	name := call[0].(string)
	switch name {
	case "clock_time_get":
		fill(pA, 8)
		if e := fn(name, u(call[1]), u(call[2]), pA); e != 0 {
			return res{e, nil}
		}
		return res{0, rd(pA, 8)}
	case "clock_res_get":
		fill(pA, 8)
		if e := fn(name, u(call[1]), pA); e != 0 {
			return res{e, nil}
		}
		return res{0, rd(pA, 8)}
	case "random_get":
		n := uint32(u(call[1]))
		fill(pBuf, n)
		if e := fn(name, pBuf, uint64(n)); e != 0 {
			return res{e, nil}
		}
		return res{0, rd(pBuf, n)}
	case "args_sizes_get", "environ_sizes_get":
		fill(pA, 16)
		if e := fn(name, pA, pA+4); e != 0 {
			return res{e, nil}
		}
		return res{0, rd(pA, 8)}
	case "args_get", "environ_get":
		// the size comes from an unrecorded sizes call (it reads no clock and no randomness)
		sz := "args_sizes_get"
		if name == "environ_get" {
			sz = "environ_sizes_get"
		}
		fn(sz, pA, pA+4)
		size, _ := mem.ReadUint32Le(pA + 4)
		fill(pBuf, size)
		if e := fn(name, pIov, pBuf); e != 0 {
			return res{e, nil}
		}
		return res{0, rd(pBuf, size)}
	case "fd_read", "fd_pread", "sock_recv":
		n, _ := iovLens(call[2])
		fill(pA, 16)
		var e int64
		switch name {
		case "fd_read":
			e = fn(name, u(call[1]), pIov, n, pA)
		case "fd_pread":
			e = fn(name, u(call[1]), pIov, n, u(call[3]), pA)
		default:
			e = fn(name, u(call[1]), pIov, n, u(call[3]), pA, pB)
		}
		if e != 0 {
			return res{e, nil}
		}
		got, _ := mem.ReadUint32Le(pA)
		if got > 512 {
			got = 512
		}
		return res{0, append(rd(pA, 4), rd(pBuf, got)...)}
	case "fd_write", "fd_pwrite", "sock_send":
		n := iovChunks(call[2])
		fill(pA, 4)
		var e int64
		switch name {
		case "fd_write":
			e = fn(name, u(call[1]), pIov, n, pA)
		case "fd_pwrite":
			e = fn(name, u(call[1]), pIov, n, u(call[3]), pA)
		default:
			e = fn(name, u(call[1]), pIov, n, u(call[3]), pA)
		}
		if e != 0 {
			return res{e, nil}
		}
		return res{0, rd(pA, 4)}
	case "fd_prestat_get":
		fill(pA, 8)
		if e := fn(name, u(call[1]), pA); e != 0 {
			return res{e, nil}
		}
		return res{0, rd(pA, 8)}
	case "fd_prestat_dir_name":
		n := uint32(u(call[2]))
		if n > 512 {
			n = 512
		}
		fill(pBuf, n)
		if e := fn(name, u(call[1]), pBuf, u(call[2])); e != 0 {
			return res{e, nil}
		}
		return res{0, rd(pBuf, n)}
	case "fd_fdstat_get":
		fill(pBuf, 24)
		if e := fn(name, u(call[1]), pBuf); e != 0 {
			return res{e, nil}
		}
		return res{0, rd(pBuf, 24)}
	case "fd_filestat_get":
		fill(pBuf, 64)
		if e := fn(name, u(call[1]), pBuf); e != 0 {
			return res{e, nil}
		}
		return res{0, rd(pBuf, 64)}
	case "fd_fdstat_set_flags", "fd_filestat_set_size", "fd_renumber", "sock_shutdown":
		return errOnly(fn(name, u(call[1]), u(call[2])))
	case "fd_fdstat_set_rights", "fd_allocate":
		return errOnly(fn(name, u(call[1]), u(call[2]), u(call[3])))
	case "fd_filestat_set_times", "fd_advise":
		return errOnly(fn(name, u(call[1]), u(call[2]), u(call[3]), u(call[4])))
	case "fd_close", "fd_datasync", "fd_sync", "proc_raise":
		return errOnly(fn(name, u(call[1])))
	case "proc_exit":
		fn(name, u(call[1]))
		panic("proc_exit returned")
	case "fd_readdir":
		fill(pA, 4)
		if e := fn(name, u(call[1]), pBuf, u(call[2]), u(call[3]), pA); e != 0 {
			return res{e, nil}
		}
		return res{0, rd(pA, 4)}
	case "fd_seek":
		fill(pA, 8)
		if e := fn(name, u(call[1]), u(call[2]), u(call[3]), pA); e != 0 {
			return res{e, nil}
		}
		return res{0, rd(pA, 8)}
	case "fd_tell":
		fill(pA, 8)
		if e := fn(name, u(call[1]), pA); e != 0 {
			return res{e, nil}
		}
		return res{0, rd(pA, 8)}
	case "sock_accept":
		fill(pA, 4)
		if e := fn(name, u(call[1]), u(call[2]), pA); e != 0 {
			return res{e, nil}
		}
		return res{0, rd(pA, 4)}
	case "poll_clock": // clockid timeout flags userdata
		sub := make([]byte, 48)
		binary.LittleEndian.PutUint64(sub[0:], u(call[4]))
		sub[8] = 0 // eventtype clock
		binary.LittleEndian.PutUint32(sub[16:], uint32(u(call[1])))
		binary.LittleEndian.PutUint64(sub[24:], u(call[2]))
		binary.LittleEndian.PutUint64(sub[32:], 0)
		binary.LittleEndian.PutUint16(sub[40:], uint16(u(call[3])))
		mem.Write(pSub, sub)
		fill(pEvt, 32)
		fill(pA, 4)
		if e := fn("poll_oneoff", pSub, pEvt, 1, pA); e != 0 {
			return res{e, nil}
		}
		return res{0, append(rd(pA, 4), rd(pEvt, 32)...)}
	case "poll": // a list of subscriptions
		subs := call[1].([]any)
		buf := make([]byte, 48*len(subs))
		for j, sv := range subs {
			sb := sv.([]any)
			b := buf[48*j:]
			switch sb[0].(string) {
			case "clock": // timeout flags userdata
				binary.LittleEndian.PutUint64(b[0:], u(sb[3]))
				b[8] = 0
				binary.LittleEndian.PutUint32(b[16:], uint32(j&1))
				binary.LittleEndian.PutUint64(b[24:], u(sb[1]))
				binary.LittleEndian.PutUint16(b[40:], uint16(u(sb[2])))
			case "read", "write": // fd userdata
				binary.LittleEndian.PutUint64(b[0:], u(sb[2]))
				b[8] = 1
				if sb[0].(string) == "write" {
					b[8] = 2
				}
				binary.LittleEndian.PutUint32(b[16:], uint32(u(sb[1])))
			default: // type userdata
				binary.LittleEndian.PutUint64(b[0:], u(sb[2]))
				b[8] = byte(u(sb[1]))
			}
		}
		mem.Write(pSub, buf)
		fill(pEvt, uint32(32*len(subs)))
		fill(pA, 4)
		if e := fn("poll_oneoff", pSub, pEvt, uint64(len(subs)), pA); e != 0 {
			return res{e, nil}
		}
		return res{0, append(rd(pA, 4), rd(pEvt, uint32(32*len(subs)))...)}
	case "sched_yield":
		return res{fn(name), nil}
	case "path_open": // fd path dirflags oflags rights fdflags
		p, n := path(pPath, call[2])
		fill(pA, 4)
		if e := fn(name, u(call[1]), u(call[3]), p, n, u(call[4]), u(call[5]), 0, u(call[6]), pA); e != 0 {
			return res{e, nil}
		}
		return res{0, rd(pA, 4)}
	case "path_create_directory", "path_remove_directory", "path_unlink_file":
		p, n := path(pPath, call[2])
		return errOnly(fn(name, u(call[1]), p, n))
	case "path_filestat_get":
		p, n := path(pPath, call[3])
		fill(pBuf, 64)
		if e := fn(name, u(call[1]), u(call[2]), p, n, pBuf); e != 0 {
			return res{e, nil}
		}
		return res{0, rd(pBuf, 64)}
	case "path_filestat_set_times":
		p, n := path(pPath, call[3])
		return errOnly(fn(name, u(call[1]), u(call[2]), p, n, u(call[4]), u(call[5]), u(call[6])))
	case "path_link":
		p, n := path(pPath, call[3])
		p2, n2 := path(pPath2, call[5])
		return errOnly(fn(name, u(call[1]), u(call[2]), p, n, u(call[4]), p2, n2))
	case "path_readlink":
		p, n := path(pPath, call[2])
		fill(pA, 4)
		if e := fn(name, u(call[1]), p, n, pBuf, u(call[3]), pA); e != 0 {
			return res{e, nil}
		}
		return res{0, rd(pA, 4)}
	case "path_rename":
		p, n := path(pPath, call[2])
		p2, n2 := path(pPath2, call[4])
		return errOnly(fn(name, u(call[1]), p, n, u(call[3]), p2, n2))
	case "path_symlink":
		p, n := path(pPath, call[1])
		p2, n2 := path(pPath2, call[3])
		return errOnly(fn(name, p, n, u(call[2]), p2, n2))
	}
	panic("unknown call " + name)
}

func newRuntime(ctx context.Context, engine string) wazero.Runtime {
	var rc wazero.RuntimeConfig
	if engine == "interp" {
		rc = wazero.NewRuntimeConfigInterpreter()
	} else {
		rc = wazero.NewRuntimeConfigCompiler()
	}
	r := wazero.NewRuntimeWithConfig(ctx, rc)
	wasi_snapshot_preview1.MustInstantiate(ctx, r)
	return r
}

type line struct {
	T       string  `json:"t"`
	Variant string  `json:"variant"`
	Script  int     `json:"script"`
	Calls   [][]any `json:"calls,omitempty"`
	Trace   []res   `json:"trace"`
	Ms      int64   `json:"ms"`
}

func scripts(seed uint64, n int) [][][]any {
	rng := c.NewRng(seed)
	out := [][][]any{fixedScript(), tableScript()}
	for i := 0; i < n; i++ {
		out = append(out, genScript(rng))
	}
	return out
}

func child(seed uint64, n int, engine, mode, variant string) {
	ctx := context.Background()
	out := c.NewOut()
	defer out.Flush()
	bin := proxy()
	for si, calls := range scripts(seed, n) {
		t0 := time.Now()
		r := newRuntime(ctx, engine)
		inst := func() api.Module {
			m, err := r.InstantiateWithConfig(ctx, bin, wazero.NewModuleConfig()) // the DEFAULT module configuration
			if err != nil {
				panic(err)
			}
			return m
		}
		if mode == "pair" {
			// two instances in one runtime, calls interleaved: each must behave as if alone. Both come from ONE
			// ModuleConfig value (a configuration is reusable); a third instance is made later from the same value,
			// a fourth from a configuration derived from it after it has been used
			cfg := wazero.NewModuleConfig()
			inst = func() api.Module {
				m, err := r.InstantiateWithConfig(ctx, bin, cfg)
				if err != nil {
					panic(err)
				}
				return m
			}
			m1, m2 := inst(), inst()
			var t1, t2 []res
			for _, cl := range calls {
				// a guest that has exited makes no further calls; the other instance goes on
				if !isClosed[m1] {
					t1 = append(t1, exec1(ctx, m1, cl))
				}
				if !isClosed[m2] {
					t2 = append(t2, exec1(ctx, m2, cl))
				}
			}
			el := time.Since(t0).Milliseconds()
			out.Emit(line{T: "trace", Variant: variant + "1", Script: si, Trace: t1, Ms: el})
			out.Emit(line{T: "trace", Variant: variant + "2", Script: si, Trace: t2, Ms: el})
			{
				t3 := time.Now()
				m3 := inst()
				tr3 := runScript(ctx, m3, calls)
				out.Emit(line{T: "trace", Variant: variant + "3", Script: si, Trace: tr3, Ms: time.Since(t3).Milliseconds()})
				t4 := time.Now()
				m4, err := r.InstantiateWithConfig(ctx, bin, cfg.WithName(""))
				if err != nil {
					panic(err)
				}
				tr4 := runScript(ctx, m4, calls)
				out.Emit(line{T: "trace", Variant: variant + "4", Script: si, Trace: tr4, Ms: time.Since(t4).Milliseconds()})
			}
		} else {
			m := inst()
			t := runScript(ctx, m, calls)
			out.Emit(line{T: "trace", Variant: variant, Script: si, Trace: t, Ms: time.Since(t0).Milliseconds()})
		}
		r.Close(ctx)
	}
}

func main() {
	seed := flag.Uint64("seed", 1, "")
	n := flag.Int("n", 40, "random scripts")
	isChild := flag.Bool("child", false, "")
	engine := flag.String("engine", "compiler", "")
	mode := flag.String("mode", "solo", "")
	variant := flag.String("variant", "", "")
	flag.Parse()
	if *isChild {
		child(*seed, *n, *engine, *mode, *variant)
		return
	}
	out := c.NewOut()
	defer out.Flush()
	for si, calls := range scripts(*seed, *n) {
		out.Emit(map[string]any{"t": "script", "script": si, "calls": calls})
	}
	tmp, err := os.MkdirTemp("", "verif-c18-")
	if err != nil {
		panic(err)
	}
	defer os.RemoveAll(tmp)
	os.MkdirAll(filepath.Join(tmp, "deep", "er"), 0o755)
	os.WriteFile(filepath.Join(tmp, "deep", "file.txt"), []byte("host file"), 0o644)
	exe, _ := os.Executable()
	type variantT struct {
		name, engine, mode, cwd string
		env, extra              []string
		delay                   time.Duration
	}
	big := []string{"PATH=/usr/bin:/bin", "HOME=/root", "LANG=de_DE.UTF-8", "TZ=Asia/Tokyo", "WAZERO_SECRET=hunter2", "FAKETIME=+5d"}
	for i := 0; i < 40; i++ {
		big = append(big, fmt.Sprintf("VERIF_VAR_%d=%s", i, strings.Repeat("v", i)))
	}
	vs := []variantT{
		{"A", "compiler", "solo", tmp, []string{"VERIF_ONLY=1", "TZ=UTC"}, []string{"alpha"}, 0},
		{"B", "interp", "solo", "/", big, []string{"beta", "--gamma=1", "delta"}, 1100 * time.Millisecond},
		{"C", "compiler", "solo", filepath.Join(tmp, "deep"), append(os.Environ(), "VERIF_C=zzz"), nil, 0},
		{"D", "interp", "pair", filepath.Join(tmp, "deep", "er"), []string{}, []string{"one", "two", "three", "four"}, 0},
		{"E", "compiler", "pair", tmp, big[:3], []string{"x"}, 0},
	}
	for _, v := range vs {
		time.Sleep(v.delay)
		args := append([]string{"-child", "-seed", fmt.Sprint(*seed), "-n", fmt.Sprint(*n), "-engine", v.engine, "-mode", v.mode, "-variant", v.name}, v.extra...)
		cmd := exec.Command(exe, args...)
		cmd.Env = v.env
		cmd.Dir = v.cwd
		cmd.Stdin = strings.NewReader("host stdin content that must never be seen\n")
		started := time.Now()
		b, err := cmd.Output()
		status := "ok"
		if err != nil {
			status = err.Error()
			if ee, ok := err.(*exec.ExitError); ok {
				status += ": " + string(ee.Stderr)
				if len(status) > 1500 {
					status = status[:1500]
				}
			}
		}
		out.Emit(map[string]any{"t": "child", "variant": v.name, "engine": v.engine, "mode": v.mode, "cwd": v.cwd, "nenv": len(v.env),
			"argv": len(args) + 1, "started_unix_ms": started.UnixMilli(), "status": status, "wall_ms": time.Since(started).Milliseconds()})
		out.Flush()
		os.Stdout.Write(b)
	}
}
