// C18 correspondence harness: the same WASI-only guest scripts are run under the DEFAULT module configuration in
// SEPARATE child processes (this binary re-executes itself) that differ in environment variables, working
// directory, argv, start time (>= 1 s apart) and engine; one child additionally runs two instances of every script
// interleaved call by call in one runtime. Every child prints, per script, the complete trace (WASI errno and the
// bytes written to the result areas of every call). The parent relays the lines tagged with the variant.
package main

import (
	"context"
	"encoding/binary"
	"flag"
	"fmt"
	"os"
	"os/exec"
	"path/filepath"
	"strings"
	"time"

	"github.com/tetratelabs/wazero"
	"github.com/tetratelabs/wazero/api"
	"github.com/tetratelabs/wazero/imports/wasi_snapshot_preview1"
	c "github.com/tetratelabs/wazero/internal/zz_verif/common"
)

type wf struct {
	name   string
	params []byte
}

var wasiFuncs = []wf{
	{"args_get", c.B(c.I32, c.I32)},
	{"args_sizes_get", c.B(c.I32, c.I32)},
	{"environ_get", c.B(c.I32, c.I32)},
	{"environ_sizes_get", c.B(c.I32, c.I32)},
	{"clock_res_get", c.B(c.I32, c.I32)},
	{"clock_time_get", c.B(c.I32, c.I64, c.I32)},
	{"random_get", c.B(c.I32, c.I32)},
	{"fd_read", c.B(c.I32, c.I32, c.I32, c.I32)},
	{"fd_write", c.B(c.I32, c.I32, c.I32, c.I32)},
	{"fd_prestat_get", c.B(c.I32, c.I32)},
	{"fd_fdstat_get", c.B(c.I32, c.I32)},
	{"poll_oneoff", c.B(c.I32, c.I32, c.I32, c.I32)},
	{"sched_yield", nil},
	{"path_open", c.B(c.I32, c.I32, c.I32, c.I32, c.I32, c.I64, c.I64, c.I32, c.I32)},
}

func proxy() []byte {
	m := &c.Mod{}
	for i, f := range wasiFuncs {
		m.Types = append(m.Types, c.FT(f.params, c.B(c.I32)))
		m.Imports = append(m.Imports, c.ImportFunc("wasi_snapshot_preview1", f.name, uint32(i)))
		m.Funcs = append(m.Funcs, c.U32(uint32(i)))
		var body [][]byte
		for p := range f.params {
			body = append(body, c.LocalGet(uint32(p)))
		}
		body = append(body, c.Call(uint32(i)))
		m.Codes = append(m.Codes, c.Code(nil, body...))
		m.Exports = append(m.Exports, c.Export(f.name, 0, uint32(len(wasiFuncs)+i)))
	}
	m.Mems = [][]byte{c.MemLimits(1, nil)}
	m.Exports = append(m.Exports, c.Export("memory", 2, 0))
	return m.Bytes()
}

// ---- scripts: every choice derives from the seed, so parent and children agree without passing them around ----
func pick[T any](r *c.Rng, xs []T) T { return xs[r.Intn(len(xs))] }

func genScript(r *c.Rng) [][]any {
	n := 12 + r.Intn(28)
	var calls [][]any
	fd := func() uint64 {
		if r.Intn(6) == 0 {
			return pick(r, []uint64{99, 1 << 31, 0xffffffff, 1<<32 + 1})
		}
		return uint64(r.Intn(11))
	}
	for i := 0; i < n; i++ {
		switch k := r.Intn(27); {
		case k >= 24:
			calls = append(calls, genPoll(r))
		case k < 6:
			calls = append(calls, []any{"clock_time_get", pick(r, []uint64{0, 0, 0, 1, 1, 1, 2, 3, 99, 1 << 32}), pick(r, []uint64{0, 1, 1000, r.U64()})})
		case k < 8:
			calls = append(calls, []any{"clock_res_get", pick(r, []uint64{0, 1, 2, 3, 77})})
		case k < 12:
			calls = append(calls, []any{"random_get", pick(r, []uint64{0, 1, 3, 7, 8, 16, 33})})
		case k == 12:
			calls = append(calls, []any{pick(r, []string{"args_sizes_get", "environ_sizes_get"})})
		case k == 13:
			calls = append(calls, []any{pick(r, []string{"args_get", "environ_get"})})
		case k < 16:
			calls = append(calls, []any{"fd_read", fd(), pick(r, []uint64{1, 4, 16})})
		case k < 18:
			d := make([]any, 1+r.Intn(8))
			for j := range d {
				d[j] = uint64(r.Intn(256))
			}
			calls = append(calls, []any{"fd_write", fd(), d})
		case k == 18:
			calls = append(calls, []any{"fd_prestat_get", fd()})
		case k == 19:
			calls = append(calls, []any{"fd_fdstat_get", fd()})
		case k < 22:
			calls = append(calls, []any{"poll_clock", uint64(r.Intn(2)), pick(r, []uint64{0, 1000, 5_000_000, 300_000_000, 1_000_000_000}), pick(r, []uint64{0, 0, 0, 0, 1, 2, 3}), r.U64()})
		case k == 22:
			calls = append(calls, []any{"sched_yield"})
		default:
			calls = append(calls, []any{"path_open", pick(r, []uint64{0, 1, 3, 3, 4, 99})})
		}
	}
	return calls
}

// genPoll: poll_oneoff with 1..8 subscriptions of every kind; half of them are made of fd_read subscriptions on the
// stdio descriptors only (the ones that are answered after all the others).
func genPoll(r *c.Rng) []any {
	n := 1 + r.Intn(8)
	stdio := r.Intn(2) == 0
	subs := make([]any, n)
	for j := range subs {
		ud := pick(r, []uint64{uint64(j + 1), uint64(j + 1), r.U64()})
		switch k := r.Intn(10); {
		case stdio || k < 4:
			fd := uint64(r.Intn(3))
			if !stdio {
				fd = pick(r, []uint64{0, 1, 2, 3, 4, 99, 1 << 31, 0xffffffff})
			}
			subs[j] = []any{"read", fd, ud}
		case k < 7:
			subs[j] = []any{"clock", pick(r, []uint64{0, 1000, 5_000_000, 1 << 63, r.U64()}), pick(r, []uint64{0, 0, 0, 0, 0, 0, 1, 2, 0x10000}), ud}
		case k < 9:
			subs[j] = []any{"write", pick(r, []uint64{0, 1, 2, 3, 99, 1 << 31}), ud}
		default:
			subs[j] = []any{"other", pick(r, []uint64{3, 7, 255}), ud}
		}
	}
	return []any{"poll", subs}
}

func fixedScript() [][]any {
	var calls [][]any
	for i := 0; i < 5; i++ {
		calls = append(calls, []any{"clock_time_get", uint64(0), uint64(0)}, []any{"clock_time_get", uint64(1), uint64(0)})
	}
	calls = append(calls,
		[]any{"clock_res_get", uint64(0)}, []any{"clock_res_get", uint64(1)},
		[]any{"random_get", uint64(200)}, []any{"random_get", uint64(5)}, []any{"random_get", uint64(1)}, []any{"random_get", uint64(64)},
		[]any{"args_sizes_get"}, []any{"args_get"}, []any{"environ_sizes_get"}, []any{"environ_get"},
		[]any{"poll_clock", uint64(0), uint64(1_000_000_000), uint64(0), uint64(0x1122334455667788)},
		[]any{"poll_clock", uint64(1), uint64(1_000_000_000), uint64(0), uint64(7)},
		[]any{"sched_yield"},
		[]any{"clock_time_get", uint64(0), uint64(0)}, []any{"clock_time_get", uint64(1), uint64(0)},
	)
	// fd_read subscriptions on all three stdio descriptors (each is answered after the immediate ones), many times over
	for i := 0; i < 12; i++ {
		calls = append(calls, []any{"poll", []any{[]any{"read", uint64(i % 3), uint64(1)}, []any{"clock", uint64(1000), uint64(0), uint64(2)},
			[]any{"read", uint64((i + 1) % 3), uint64(3)}, []any{"write", uint64(1), uint64(4)}, []any{"read", uint64((i + 2) % 3), uint64(5)},
			[]any{"read", uint64(9), uint64(6)}}})
	}
	for fd := uint64(0); fd <= 10; fd++ {
		calls = append(calls, []any{"fd_prestat_get", fd}, []any{"fd_fdstat_get", fd}, []any{"fd_read", fd, uint64(8)},
			[]any{"fd_write", fd, []any{uint64(104), uint64(105)}}, []any{"path_open", fd})
	}
	return calls
}

func u(v any) uint64 {
	switch x := v.(type) {
	case uint64:
		return x
	case int:
		return uint64(x)
	}
	panic(fmt.Sprintf("bad number %T", v))
}

type res struct {
	E uint32 `json:"e"`
	B []int  `json:"b"`
}

const (
	pA    = 256  // first result area
	pB    = 264  // second result area
	pIov  = 512  // iovec
	pBuf  = 1024 // data buffer
	pSub  = 2048 // poll subscription
	pEvt  = 3072 // poll events
	pPath = 4000
)

func ints(b []byte) []int {
	o := make([]int, len(b))
	for i := range b {
		o[i] = int(b[i])
	}
	return o
}

func exec1(ctx context.Context, mod api.Module, call []any) res {
	mem := mod.Memory()
	fn := func(name string, args ...uint64) uint32 {
		r, err := mod.ExportedFunction(name).Call(ctx, args...)
		if err != nil {
			panic(fmt.Sprintf("%s trapped: %v", name, err))
		}
		return uint32(r[0])
	}
	rd := func(off, n uint32) []int { b, _ := mem.Read(off, n); return ints(b) }
	fill := func(off, n uint32) {
		b, _ := mem.Read(off, n)
		for i := range b {
			b[i] = 0xaa
		}
	}
	name := call[0].(string)
	switch name {
	case "clock_time_get":
		fill(pA, 8)
		if e := fn(name, u(call[1]), u(call[2]), pA); e != 0 {
			return res{e, nil}
		}
		return res{0, rd(pA, 8)}
	case "clock_res_get":
		fill(pA, 8)
		if e := fn(name, u(call[1]), pA); e != 0 {
			return res{e, nil}
		}
		return res{0, rd(pA, 8)}
	case "random_get":
		n := uint32(u(call[1]))
		fill(pBuf, n)
		if e := fn(name, pBuf, uint64(n)); e != 0 {
			return res{e, nil}
		}
		return res{0, rd(pBuf, n)}
	case "args_sizes_get", "environ_sizes_get":
		fill(pA, 16)
		if e := fn(name, pA, pA+4); e != 0 {
			return res{e, nil}
		}
		return res{0, rd(pA, 8)}
	case "args_get", "environ_get":
		// the size comes from an unrecorded sizes call (it reads no clock and no randomness)
		sz := "args_sizes_get"
		if name == "environ_get" {
			sz = "environ_sizes_get"
		}
		fn(sz, pA, pA+4)
		size, _ := mem.ReadUint32Le(pA + 4)
		fill(pBuf, size)
		if e := fn(name, pIov, pBuf); e != 0 {
			return res{e, nil}
		}
		return res{0, rd(pBuf, size)}
	case "fd_read":
		n := uint32(u(call[2]))
		mem.WriteUint32Le(pIov, pBuf)
		mem.WriteUint32Le(pIov+4, n)
		fill(pBuf, n)
		fill(pA, 4)
		if e := fn(name, u(call[1]), pIov, 1, pA); e != 0 {
			return res{e, nil}
		}
		got, _ := mem.ReadUint32Le(pA)
		return res{0, append(rd(pA, 4), rd(pBuf, got)...)}
	case "fd_write":
		d := call[2].([]any)
		b := make([]byte, len(d))
		for i := range d {
			b[i] = byte(u(d[i]))
		}
		mem.Write(pBuf, b)
		mem.WriteUint32Le(pIov, pBuf)
		mem.WriteUint32Le(pIov+4, uint32(len(b)))
		fill(pA, 4)
		if e := fn(name, u(call[1]), pIov, 1, pA); e != 0 {
			return res{e, nil}
		}
		return res{0, rd(pA, 4)}
	case "fd_prestat_get":
		fill(pA, 8)
		if e := fn(name, u(call[1]), pA); e != 0 {
			return res{e, nil}
		}
		return res{0, rd(pA, 8)}
	case "fd_fdstat_get":
		fill(pBuf, 24)
		if e := fn(name, u(call[1]), pBuf); e != 0 {
			return res{e, nil}
		}
		return res{0, rd(pBuf, 24)}
	case "poll_clock": // clockid timeout flags userdata
		sub := make([]byte, 48)
		binary.LittleEndian.PutUint64(sub[0:], u(call[4]))
		sub[8] = 0 // eventtype clock
		binary.LittleEndian.PutUint32(sub[16:], uint32(u(call[1])))
		binary.LittleEndian.PutUint64(sub[24:], u(call[2]))
		binary.LittleEndian.PutUint64(sub[32:], 0)
		binary.LittleEndian.PutUint16(sub[40:], uint16(u(call[3])))
		mem.Write(pSub, sub)
		fill(pEvt, 32)
		fill(pA, 4)
		if e := fn("poll_oneoff", pSub, pEvt, 1, pA); e != 0 {
			return res{e, nil}
		}
		return res{0, append(rd(pA, 4), rd(pEvt, 32)...)}
	case "poll": // a list of subscriptions
		subs := call[1].([]any)
		buf := make([]byte, 48*len(subs))
		for j, sv := range subs {
			sb := sv.([]any)
			b := buf[48*j:]
			switch sb[0].(string) {
			case "clock": // timeout flags userdata
				binary.LittleEndian.PutUint64(b[0:], u(sb[3]))
				b[8] = 0
				binary.LittleEndian.PutUint32(b[16:], uint32(j&1))
				binary.LittleEndian.PutUint64(b[24:], u(sb[1]))
				binary.LittleEndian.PutUint16(b[40:], uint16(u(sb[2])))
			case "read", "write": // fd userdata
				binary.LittleEndian.PutUint64(b[0:], u(sb[2]))
				b[8] = 1
				if sb[0].(string) == "write" {
					b[8] = 2
				}
				binary.LittleEndian.PutUint32(b[16:], uint32(u(sb[1])))
			default: // type userdata
				binary.LittleEndian.PutUint64(b[0:], u(sb[2]))
				b[8] = byte(u(sb[1]))
			}
		}
		mem.Write(pSub, buf)
		fill(pEvt, uint32(32*len(subs)))
		fill(pA, 4)
		if e := fn("poll_oneoff", pSub, pEvt, uint64(len(subs)), pA); e != 0 {
			return res{e, nil}
		}
		return res{0, append(rd(pA, 4), rd(pEvt, uint32(32*len(subs)))...)}
	case "sched_yield":
		return res{fn(name), nil}
	case "path_open":
		mem.Write(pPath, []byte("x"))
		return res{fn(name, u(call[1]), 1, pPath, 1, 0, 2, 0, 0, pA), nil}
	}
	panic("unknown call " + name)
}

func newRuntime(ctx context.Context, engine string) wazero.Runtime {
	var rc wazero.RuntimeConfig
	if engine == "interp" {
		rc = wazero.NewRuntimeConfigInterpreter()
	} else {
		rc = wazero.NewRuntimeConfigCompiler()
	}
	r := wazero.NewRuntimeWithConfig(ctx, rc)
	wasi_snapshot_preview1.MustInstantiate(ctx, r)
	return r
}

type line struct {
	T       string  `json:"t"`
	Variant string  `json:"variant"`
	Script  int     `json:"script"`
	Calls   [][]any `json:"calls,omitempty"`
	Trace   []res   `json:"trace"`
	Ms      int64   `json:"ms"`
}

func scripts(seed uint64, n int) [][][]any {
	rng := c.NewRng(seed)
	out := [][][]any{fixedScript()}
	for i := 0; i < n; i++ {
		out = append(out, genScript(rng))
	}
	return out
}

func child(seed uint64, n int, engine, mode, variant string) {
	ctx := context.Background()
	out := c.NewOut()
	defer out.Flush()
	bin := proxy()
	for si, calls := range scripts(seed, n) {
		t0 := time.Now()
		r := newRuntime(ctx, engine)
		inst := func() api.Module {
			m, err := r.InstantiateWithConfig(ctx, bin, wazero.NewModuleConfig()) // the DEFAULT module configuration
			if err != nil {
				panic(err)
			}
			return m
		}
		if mode == "pair" {
			// two instances in one runtime, calls interleaved: each must behave as if alone. Both come from ONE
			// ModuleConfig value (a configuration is reusable); a third instance is made later from the same value,
			// a fourth from a configuration derived from it after it has been used
			cfg := wazero.NewModuleConfig()
			inst = func() api.Module {
				m, err := r.InstantiateWithConfig(ctx, bin, cfg)
				if err != nil {
					panic(err)
				}
				return m
			}
			m1, m2 := inst(), inst()
			var t1, t2 []res
			for _, cl := range calls {
				t1 = append(t1, exec1(ctx, m1, cl))
				t2 = append(t2, exec1(ctx, m2, cl))
			}
			el := time.Since(t0).Milliseconds()
			out.Emit(line{T: "trace", Variant: variant + "1", Script: si, Trace: t1, Ms: el})
			out.Emit(line{T: "trace", Variant: variant + "2", Script: si, Trace: t2, Ms: el})
			{
				t3 := time.Now()
				m3 := inst()
				var tr3 []res
				for _, cl := range calls {
					tr3 = append(tr3, exec1(ctx, m3, cl))
				}
				out.Emit(line{T: "trace", Variant: variant + "3", Script: si, Trace: tr3, Ms: time.Since(t3).Milliseconds()})
				t4 := time.Now()
				m4, err := r.InstantiateWithConfig(ctx, bin, cfg.WithName(""))
				if err != nil {
					panic(err)
				}
				var tr4 []res
				for _, cl := range calls {
					tr4 = append(tr4, exec1(ctx, m4, cl))
				}
				out.Emit(line{T: "trace", Variant: variant + "4", Script: si, Trace: tr4, Ms: time.Since(t4).Milliseconds()})
			}
		} else {
			m := inst()
			var t []res
			for _, cl := range calls {
				t = append(t, exec1(ctx, m, cl))
			}
			out.Emit(line{T: "trace", Variant: variant, Script: si, Trace: t, Ms: time.Since(t0).Milliseconds()})
		}
		r.Close(ctx)
	}
}

func main() {
	seed := flag.Uint64("seed", 1, "")
	n := flag.Int("n", 40, "random scripts")
	isChild := flag.Bool("child", false, "")
	engine := flag.String("engine", "compiler", "")
	mode := flag.String("mode", "solo", "")
	variant := flag.String("variant", "", "")
	flag.Parse()
	if *isChild {
		child(*seed, *n, *engine, *mode, *variant)
		return
	}
	out := c.NewOut()
	defer out.Flush()
	for si, calls := range scripts(*seed, *n) {
		out.Emit(map[string]any{"t": "script", "script": si, "calls": calls})
	}
	tmp, err := os.MkdirTemp("", "verif-c18-")
	if err != nil {
		panic(err)
	}
	defer os.RemoveAll(tmp)
	os.MkdirAll(filepath.Join(tmp, "deep", "er"), 0o755)
	os.WriteFile(filepath.Join(tmp, "deep", "file.txt"), []byte("host file"), 0o644)
	exe, _ := os.Executable()
	type variantT struct {
		name, engine, mode, cwd string
		env, extra             []string
		delay                  time.Duration
	}
	big := []string{"PATH=/usr/bin:/bin", "HOME=/root", "LANG=de_DE.UTF-8", "TZ=Asia/Tokyo", "WAZERO_SECRET=hunter2", "FAKETIME=+5d"}
	for i := 0; i < 40; i++ {
		big = append(big, fmt.Sprintf("VERIF_VAR_%d=%s", i, strings.Repeat("v", i)))
	}
	vs := []variantT{
		{"A", "compiler", "solo", tmp, []string{"VERIF_ONLY=1", "TZ=UTC"}, []string{"alpha"}, 0},
		{"B", "interp", "solo", "/", big, []string{"beta", "--gamma=1", "delta"}, 1100 * time.Millisecond},
		{"C", "compiler", "solo", filepath.Join(tmp, "deep"), append(os.Environ(), "VERIF_C=zzz"), nil, 0},
		{"D", "interp", "pair", filepath.Join(tmp, "deep", "er"), []string{}, []string{"one", "two", "three", "four"}, 0},
		{"E", "compiler", "pair", tmp, big[:3], []string{"x"}, 0},
	}
	for _, v := range vs {
		time.Sleep(v.delay)
		args := append([]string{"-child", "-seed", fmt.Sprint(*seed), "-n", fmt.Sprint(*n), "-engine", v.engine, "-mode", v.mode, "-variant", v.name}, v.extra...)
		cmd := exec.Command(exe, args...)
		cmd.Env = v.env
		cmd.Dir = v.cwd
		cmd.Stdin = strings.NewReader("host stdin content that must never be seen\n")
		started := time.Now()
		b, err := cmd.Output()
		status := "ok"
		if err != nil {
			status = err.Error()
			if ee, ok := err.(*exec.ExitError); ok {
				status += ": " + string(ee.Stderr)
				if len(status) > 1500 {
					status = status[:1500]
				}
			}
		}
		out.Emit(map[string]any{"t": "child", "variant": v.name, "engine": v.engine, "mode": v.mode, "cwd": v.cwd, "nenv": len(v.env),
			"argv": len(args) + 1, "started_unix_ms": started.UnixMilli(), "status": status, "wall_ms": time.Since(started).Milliseconds()})
		out.Flush()
		os.Stdout.Write(b)
	}
}
