// C13 correspondence harness.
//
//	-mode codec : random compiledModule records through the real serializeCompiledModule /
//	              deserializeCompiledModule (overlay-exported): bytes, outcome on the complete entry, on EVERY
//	              truncation length, and on probes (reader-version changes, patched bytes, trailing bytes).
//	-mode fs    : re-executes itself as child processes that compile a small module with
//	              wazero.NewCompilationCacheWithDir: one child per crash point of fileCache.Add
//	              (WAZERO_VERIF_CRASH), concurrent children adding the same key (with hook crashes and
//	              SIGKILLs), three fresh processes for determinism, truncated / other-version entries
//	              planted under the final name. After each step the directory is listed.
//	-mode child : compile + instantiate + call, print one JSON line.
//
// One JSON object per line on stdout.
package main

import (
	"encoding/hex"
	"context"
	"encoding/json"
	"flag"
	"fmt"
	"os"
	"os/exec"
	"os/signal"
	"path/filepath"
	"sort"
	"strings"
	"sync"
	"syscall"
	"time"

	"github.com/tetratelabs/wazero"
	"github.com/tetratelabs/wazero/internal/engine/wazevo"
	c "github.com/tetratelabs/wazero/internal/zz_verif/common"
)

// ------------------------------------------------------------------------------------------ codec

type CM struct {
	Offs []int    `json:"offs"`
	Exec []byte   `json:"exec"`
	Smw  []uint64 `json:"smw"`
	Sme  []uint64 `json:"sme"`
}

type Outcome struct {
	O  string `json:"o"`
	CM *CM    `json:"cm,omitempty"`
}

type Probe struct {
	What   string   `json:"what"`
	V      []byte   `json:"v"`
	Patch  [][2]int `json:"patch"`
	Suffix []byte   `json:"suffix"`
	Out    Outcome  `json:"out"`
}

type CodecCase struct {
	Kind     string             `json:"kind"`
	V        []byte             `json:"v"`
	CM       CM                 `json:"cm"`
	Ser      []byte             `json:"ser"`
	SerOK    bool               `json:"ser_ok"`
	SerPanic string             `json:"ser_panic,omitempty"`
	Full     Outcome            `json:"full"`
	Truncs   string             `json:"truncs"` // per length k: E error, S ok with the same module as Full, X see TruncX
	TruncX   map[string]Outcome `json:"truncx,omitempty"`
	Probes   []Probe            `json:"probes"`
}

func toV(m CM) wazevo.VerifCM {
	return wazevo.VerifCM{Offsets: m.Offs, Exec: m.Exec, SmWasm: m.Smw, SmExec: m.Sme}
}

func deser(v []byte, data []byte) Outcome {
	o, cm, _ := wazevo.VerifDeserialize(string(v), data)
	if o != "ok" {
		return Outcome{O: o}
	}
	r := &CM{Offs: cm.Offsets, Exec: cm.Exec, Smw: cm.SmWasm, Sme: cm.SmExec}
	if r.Offs == nil {
		r.Offs = []int{}
	}
	return Outcome{O: "ok", CM: r}
}

func sameCM(a, b *CM) bool {
	if a == nil || b == nil {
		return a == b
	}
	x, _ := json.Marshal(a)
	y, _ := json.Marshal(b)
	return string(x) == string(y)
}

func genCM(rng *c.Rng) (v []byte, m CM) {
	// version
	switch k := rng.Intn(20); {
	case k == 0:
		v = []byte{}
	case k == 1:
		v = make([]byte, []int{255, 256, 300}[rng.Intn(3)])
	case k < 8:
		v = []byte("dev")
	default:
		v = make([]byte, 1+rng.Intn(24))
	}
	if string(v) != "dev" {
		for i := range v {
			v[i] = byte(33 + rng.Intn(94))
		}
	}
	// function offsets
	bnd := []uint64{0, 1, 16, 4096, 1 << 31, 1 << 32, 1<<62 + 5, 1<<63 - 1, 1 << 63, 1<<64 - 1, 1<<64 - 16}
	m.Offs = []int{}
	for n := rng.Intn(7); n > 0; n-- {
		if rng.Intn(3) == 0 {
			m.Offs = append(m.Offs, int(rng.Pick(bnd)))
		} else {
			m.Offs = append(m.Offs, rng.Intn(1<<16))
		}
	}
	// executable
	m.Exec = []byte{}
	if rng.Intn(8) != 0 {
		m.Exec = make([]byte, 1+rng.Intn(64))
		for i := range m.Exec {
			m.Exec[i] = byte(rng.U64())
		}
		if rng.Intn(4) == 0 { // flag-like and zero bytes everywhere
			for i := range m.Exec {
				m.Exec[i] = byte(rng.Intn(2))
			}
		}
	}
	// source map
	m.Smw, m.Sme = []uint64{}, []uint64{}
	if rng.Bool() {
		n := 1 + rng.Intn(4)
		for i := 0; i < n; i++ {
			if rng.Intn(4) == 0 {
				m.Smw = append(m.Smw, rng.Pick(bnd))
				m.Sme = append(m.Sme, rng.Pick(bnd))
			} else {
				m.Smw = append(m.Smw, uint64(rng.Intn(1<<20)))
				m.Sme = append(m.Sme, uint64(rng.Intn(64)))
			}
		}
		switch rng.Intn(24) {
		case 0: // more wasm offsets than executable offsets: index out of range in the serializer
			m.Smw = append(m.Smw, 7)
		case 1: // fewer: the extra executable offsets are dropped
			m.Smw = m.Smw[:len(m.Smw)-1]
		}
	}
	return
}

func codecCase(rng *c.Rng) (CodecCase, func() []Probe) {
	v, m := genCM(rng)
	cs := CodecCase{Kind: "codec", V: v, CM: m, Probes: []Probe{}}
	ser, p := wazevo.VerifSerialize(string(v), toV(m))
	if p != "" {
		cs.SerPanic = p
		return cs, nil
	}
	cs.Ser, cs.SerOK = ser, true
	cs.Full = deser(v, ser)
	// every truncation length
	tr := make([]byte, len(ser))
	for k := 0; k < len(ser); k++ {
		o := deser(v, ser[:k])
		switch {
		case o.O == "error":
			tr[k] = 'E'
		case o.O == "ok" && cs.Full.O == "ok" && sameCM(o.CM, cs.Full.CM):
			tr[k] = 'S'
		default:
			tr[k] = 'X'
			if cs.TruncX == nil {
				cs.TruncX = map[string]Outcome{}
			}
			cs.TruncX[fmt.Sprint(k)] = o
		}
	}
	cs.Truncs = string(tr)
	var sink *[]Probe = &cs.Probes
	probe := func(what string, rv []byte, patch [][2]int, suffix []byte) {
		data := append([]byte{}, ser...)
		for _, pv := range patch {
			data[pv[0]] = byte(pv[1])
		}
		data = append(data, suffix...)
		if patch == nil {
			patch = [][2]int{}
		}
		if suffix == nil {
			suffix = []byte{}
		}
		*sink = append(*sink, Probe{What: what, V: rv, Patch: patch, Suffix: suffix, Out: deser(rv, data)})
	}
	// reader-side version changes: every single byte, one byte less / more, empty, very long
	sampled := func(i, n int) bool { // long versions: first, last and a few positions in between
		return n <= 40 || i == 0 || i == n-1 || rng.Intn(n/8) == 0
	}
	for i := range v {
		if !sampled(i, len(v)) {
			continue
		}
		w := append([]byte{}, v...)
		w[i] ^= byte(1 + rng.Intn(255))
		probe("reader-version-byte", w, nil, nil)
	}
	// entry-side: magic, version length byte, every version byte
	vl := len(v)
	for pos := 0; pos < 7+vl && pos < len(ser); pos++ {
		what := "entry-version-byte"
		if pos > 6 && !sampled(pos-7, vl) {
			continue
		}
		if pos < 6 {
			what = "entry-magic-byte"
		} else if pos == 6 {
			continue // with the risky probes below
		}
		probe(what, v, [][2]int{{pos, int(ser[pos]) ^ (1 + rng.Intn(255))}}, nil)
	}
	if len(v) < 250 {
		// the rest of the entry, one byte at a time. The three high bytes of the function count and the six high
		// bytes of the executable length are left alone (they only make the implementation allocate gigabytes).
		cnt := 7 + vl
		elen := cnt + 4 + 8*len(m.Offs)
		code := elen + 8
		crcAt := code + len(m.Exec)
		flag := crcAt + 4
		for pos := cnt; pos < len(ser); pos++ {
			var what string
			switch {
			case pos < cnt+4:
				if pos != cnt {
					continue
				}
				what = "count-low-byte"
			case pos < elen:
				what = "offset-byte"
			case pos < code:
				if pos > elen+1 {
					continue
				}
				what = "codelen-low-bytes"
			case pos < crcAt:
				what = "code-byte"
			case pos < flag:
				what = "crc-byte"
			case pos == flag:
				what = "flag-byte"
			default:
				what = "sourcemap-byte"
			}
			nv := int(ser[pos]) ^ (1 + rng.Intn(255))
			if what == "flag-byte" {
				nv = int(ser[pos]) ^ 1
			}
			if what == "count-low-byte" || what == "codelen-low-bytes" {
				nv = (int(ser[pos]) + 1 + rng.Intn(3)) & 0xff
			}
			probe(what, v, [][2]int{{pos, nv}}, nil)
		}
		probe("trailing-bytes", v, nil, []byte{1, 0, 1})
		if len(m.Exec) == 0 {
			// no code: the flag is read from the first checksum byte
			probe("nocode-crc0-set", v, [][2]int{{crcAt, 1}}, nil)
			probe("nocode-crc0-set-long", v, [][2]int{{crcAt, 1}}, make([]byte, 24))
		}
	}
	// Probes that make the reader look for the function count at another position are run last and reported on a
	// line of their own: a reader that no longer rejects them first may try to allocate gigabytes and die.
	risky := func() []Probe {
		ps := []Probe{}
		sink = &ps
		if len(v) >= 256 {
			// the length byte of such an entry has wrapped: a reader with a SHORTER version that is a prefix of v takes
			// part of the version for the function count (outside the hypotheses of C13_other_version_never_ok,
			// see CacheP.ex_long_version_accepted); not probed, the implementation would allocate gigabytes
			return ps
		}
		if len(v) > 0 {
			probe("reader-version-shorter", v[:len(v)-1], nil, nil)
			probe("reader-version-empty", []byte{}, nil, nil)
		}
		probe("reader-version-longer", append(append([]byte{}, v...), 'x'), nil, nil)
		probe("reader-version-longer4", append(append([]byte{}, v...), 'x', 'y', 'z', 'w'), nil, nil)
		long := make([]byte, 256+len(v))
		copy(long, v)
		probe("reader-version-256-longer", long, nil, nil)
		if len(ser) > 6 {
			probe("entry-version-length", v, [][2]int{{6, int(ser[6]) ^ (1 + rng.Intn(255))}}, nil)
		}
		return ps
	}
	return cs, risky
}

// ------------------------------------------------------------------------------------------ modules

// buildMod returns the m-th module of a seed, the argument to call it with and the expected result.
// m == 0 is a module without any function (an entry without code); then there is nothing to call.
func buildMod(seed uint64, m int) (bin []byte, arg, want uint32, hasFn bool) {
	rng := c.NewRng(seed*1000003 + uint64(m)*7919 + 17)
	one := uint32(1)
	if m == 0 {
		md := &c.Mod{}
		md.Mems = [][]byte{c.MemLimits(1, &one)}
		md.Exports = [][]byte{c.Export("mem", 2, 0)}
		md.Custom = [][]byte{c.Cat(c.Name("verif"), c.U32(uint32(rng.U64())))}
		return md.Bytes(), 0, 0, false
	}
	n := 1 + rng.Intn(4)
	arg = uint32(rng.U64())
	md := &c.Mod{}
	md.Types = [][]byte{c.FT(c.B(c.I32), c.B(c.I32))}
	md.Exports = [][]byte{c.Export("f", 0, 0)}
	var body [][]byte
	for j := 1; j <= n; j++ {
		k, cc := uint32(rng.U64()), uint32(rng.U64())
		want += arg*k + cc
		fb := [][]byte{c.LocalGet(0), c.I32Const(int32(k)), c.B(0x6c), c.I32Const(int32(cc)), c.B(0x6a)}
		if m%3 == 0 { // larger code: a chain of additions
			for pad := rng.Intn(400); pad > 0; pad-- {
				pc := uint32(rng.U64())
				want += pc
				fb = append(fb, c.I32Const(int32(pc)), c.B(0x6a))
			}
		}
		md.Codes = append(md.Codes, c.Code(nil, fb...))
		body = append(body, c.LocalGet(0), c.Call(uint32(j)))
		if j > 1 {
			body = append(body, c.B(0x6a))
		}
	}
	md.Codes = append([][]byte{c.Code(nil, body...)}, md.Codes...)
	for j := 0; j <= n; j++ {
		md.Funcs = append(md.Funcs, c.U32(0))
	}
	return md.Bytes(), arg, want, true
}

type ChildOut struct {
	OK    bool   `json:"ok"`
	Stage string `json:"stage,omitempty"`
	Err   string `json:"err,omitempty"`
	Res   uint32 `json:"res"`
}

func child(dir string, seed uint64, m int, startAt int64, fsize int64, uid int, vanish bool) int {
	if uid > 0 && os.Getuid() == 0 {
		// an unprivileged reader: permission bits mean nothing to root
		_ = syscall.Setgroups([]int{})
		if err := syscall.Setgid(uid); err != nil {
			fmt.Println(`{"ok":false,"stage":"setgid"}`)
			return 5
		}
		if err := syscall.Setuid(uid); err != nil {
			fmt.Println(`{"ok":false,"stage":"setuid"}`)
			return 5
		}
	}
	if fsize >= 0 {
		// writes beyond fsize bytes fail with EFBIG: drives the failure path of fileCache.Add
		signal.Ignore(syscall.SIGXFSZ)
		if err := syscall.Setrlimit(syscall.RLIMIT_FSIZE, &syscall.Rlimit{Cur: uint64(fsize), Max: uint64(fsize)}); err != nil {
			fmt.Println(`{"ok":false,"stage":"rlimit"}`)
			return 5
		}
	}
	emit := func(o ChildOut) {
		b, _ := json.Marshal(o)
		fmt.Println(string(b))
	}
	bin, arg, _, hasFn := buildMod(seed, m)
	ctx := context.Background()
	for startAt > 0 && time.Now().UnixNano() < startAt {
	}
	cache, err := wazero.NewCompilationCacheWithDir(dir)
	if err != nil {
		emit(ChildOut{Stage: "cache", Err: err.Error()})
		return 3
	}
	if vanish {
		// the cache directory disappears after the cache object was made
		_ = os.RemoveAll(dir)
	}
	r := wazero.NewRuntimeWithConfig(ctx, wazero.NewRuntimeConfigCompiler().WithCompilationCache(cache))
	cm, err := r.CompileModule(ctx, bin)
	if err != nil {
		emit(ChildOut{Stage: "compile", Err: err.Error()})
		return 3
	}
	mod, err := r.InstantiateModule(ctx, cm, wazero.NewModuleConfig().WithName(""))
	if err != nil {
		emit(ChildOut{Stage: "instantiate", Err: err.Error()})
		return 4
	}
	var res uint32
	if hasFn {
		out, err := mod.ExportedFunction("f").Call(ctx, uint64(arg))
		if err != nil {
			emit(ChildOut{Stage: "call", Err: err.Error()})
			return 4
		}
		res = uint32(out[0])
	}
	emit(ChildOut{OK: true, Res: res})
	return 0
}

// ------------------------------------------------------------------------------------------ parent

type File struct {
	Name string `json:"name"`
	Data []byte `json:"data"`
}

func listDir(dir string) []File {
	fs := []File{}
	subs, _ := os.ReadDir(dir)
	for _, s := range subs {
		if !s.IsDir() {
			continue
		}
		ents, _ := os.ReadDir(filepath.Join(dir, s.Name()))
		for _, e := range ents {
			b, err := os.ReadFile(filepath.Join(dir, s.Name(), e.Name()))
			if err != nil {
				continue
			}
			fs = append(fs, File{Name: e.Name(), Data: b})
		}
	}
	sort.Slice(fs, func(i, j int) bool { return fs[i].Name < fs[j].Name })
	return fs
}

func subDir(dir string) string {
	subs, _ := os.ReadDir(dir)
	for _, s := range subs {
		if s.IsDir() {
			return filepath.Join(dir, s.Name())
		}
	}
	return ""
}

type Run struct {
	RC     int       `json:"rc"` // exit code; -9 when killed by SIGKILL
	Out    *ChildOut `json:"out,omitempty"`
	Stderr string    `json:"stderr,omitempty"`
}

type childProc struct {
	cmd *exec.Cmd
	out strings.Builder
	err strings.Builder
}

func startChild(dir string, seed uint64, m int, crash string, startAt int64, extra ...string) *childProc {
	p := &childProc{}
	fsize := "-1"
	if strings.HasPrefix(crash, "fsize:") {
		fsize, crash = strings.TrimPrefix(crash, "fsize:"), ""
	}
	p.cmd = exec.Command(os.Args[0], "-mode", "child", "-dir", dir, "-seed", fmt.Sprint(seed), "-mod", fmt.Sprint(m),
		"-startat", fmt.Sprint(startAt), "-fsize", fsize)
	p.cmd.Args = append(p.cmd.Args, extra...)
	p.cmd.Env = append(os.Environ(), "WAZERO_VERIF_CRASH="+crash)
	p.cmd.Stdout, p.cmd.Stderr = &p.out, &p.err
	if err := p.cmd.Start(); err != nil {
		panic(err)
	}
	return p
}

func (p *childProc) wait() Run {
	err := p.cmd.Wait()
	r := Run{}
	if err != nil {
		if ee, ok := err.(*exec.ExitError); ok {
			r.RC = ee.ExitCode()
			if ws, ok := ee.Sys().(syscall.WaitStatus); ok && ws.Signaled() {
				r.RC = -int(ws.Signal())
			}
		} else {
			r.RC = -1000
		}
	}
	s := p.err.String()
	if len(s) > 600 {
		s = s[:600]
	}
	r.Stderr = s
	for _, ln := range strings.Split(p.out.String(), "\n") {
		if strings.HasPrefix(ln, "{") {
			var o ChildOut
			if json.Unmarshal([]byte(ln), &o) == nil {
				r.Out = &o
			}
		}
	}
	return r
}

func runChild(dir string, seed uint64, m int, crash string, extra ...string) Run {
	return startChild(dir, seed, m, crash, 0, extra...).wait()
}

type Event struct {
	Kind   string `json:"kind"`
	Mod    int    `json:"mod"`
	Want   uint32 `json:"want"`
	HasFn  bool   `json:"has_fn"`
	What   string `json:"what,omitempty"`
	Point  string `json:"point,omitempty"`
	N      int    `json:"n"`
	Runs   []Run  `json:"runs"`
	Files  []File `json:"files"`
	After  *Run   `json:"after,omitempty"`
	Files2 []File `json:"files_after"`
	Refs   []File `json:"refs,omitempty"`
	Kills  []int  `json:"kills,omitempty"`
}

func fsMode(seed uint64, base string, nmods, nconc, copies int, out *c.Out) {
	rng := c.NewRng(seed ^ 0xC13)
	dirN := 0
	fresh := func() string {
		dirN++
		d := filepath.Join(base, fmt.Sprintf("d%04d", dirN))
		if err := os.MkdirAll(d, 0o700); err != nil {
			panic(err)
		}
		return d
	}
	for m := 0; m < nmods; m++ {
		_, _, want, hasFn := buildMod(seed, m)
		ev := func(kind string) Event {
			return Event{Kind: kind, Mod: m, Want: want, HasFn: hasFn, Runs: []Run{}, Files: []File{}, Files2: []File{}}
		}
		// (d) determinism: three fresh processes, three fresh directories
		e := ev("ref")
		for i := 0; i < 3; i++ {
			d := fresh()
			e.Runs = append(e.Runs, runChild(d, seed, m, ""))
			fs := listDir(d)
			if len(fs) == 1 {
				e.Refs = append(e.Refs, fs[0])
			} else {
				e.Refs = append(e.Refs, File{Name: fmt.Sprintf("?%d files", len(fs))})
			}
		}
		out.Emit(e)
		if len(e.Refs) != 3 || len(e.Refs[0].Data) == 0 {
			continue
		}
		entry, fname := e.Refs[0].Data, e.Refs[0].Name
		L := len(entry)
		// (b) crash points
		type pt struct {
			name string
			n    int
		}
		pts := []pt{{"created", 0}, {"copy", 1}, {"copy", L / 2}, {"copy", L - 1}, {"copy", L},
			{"copied", 0}, {"synced", 0}, {"closed", 0}, {"renamed", 0}, {"none", 0}}
		for i := 0; i < copies; i++ {
			pts = append(pts, pt{"copy", 1 + rng.Intn(L)})
		}
		for _, p := range pts {
			d := fresh()
			e := ev("crash")
			e.Point, e.N = p.name, p.n
			env := p.name
			if p.name == "copy" {
				env = fmt.Sprintf("copy:%d", p.n)
			}
			e.Runs = append(e.Runs, runChild(d, seed, m, env))
			e.Files = listDir(d)
			a := runChild(d, seed, m, "")
			e.After = &a
			e.Files2 = listDir(d)
			out.Emit(e)
		}
		// (b') injected write error after n bytes (file size limit): the failure path of Add
		for _, n := range []int{0, 1, L / 2, L - 1, rng.Intn(L)} {
			d := fresh()
			e := ev("fail")
			e.Point, e.N = "fsize", n
			e.Runs = append(e.Runs, runChild(d, seed, m, fmt.Sprintf("fsize:%d", n)))
			e.Files = listDir(d)
			a := runChild(d, seed, m, "")
			e.After = &a
			e.Files2 = listDir(d)
			out.Emit(e)
		}
		// (c) concurrent processes adding the same key
		for i := 0; i < nconc; i++ {
			d := fresh()
			e := ev("conc")
			np := 2 + rng.Intn(2)
			crashes := make([]string, np)
			kill := make([]int, np) // microseconds after the common start, 0 = no kill
			switch i % 4 {
			case 1:
				crashes[0] = fmt.Sprintf("copy:%d", 1+rng.Intn(L))
			case 2:
				crashes[rng.Intn(np)] = []string{"created", "copied", "synced", "closed", "renamed"}[rng.Intn(5)]
			case 3:
				for j := 0; j < np-1; j++ {
					kill[j] = 1 + rng.Intn(2500)
				}
			}
			e.What = strings.Join(crashes, ",")
			e.Kills = kill
			startAt := time.Now().Add(25 * time.Millisecond).UnixNano()
			ps := make([]*childProc, np)
			for j := range ps {
				ps[j] = startChild(d, seed, m, crashes[j], startAt)
			}
			var wg sync.WaitGroup
			for j := range ps {
				if kill[j] > 0 {
					wg.Add(1)
					go func(j int) {
						defer wg.Done()
						time.Sleep(time.Until(time.Unix(0, startAt)) + time.Duration(kill[j])*time.Microsecond)
						_ = ps[j].cmd.Process.Kill()
					}(j)
				}
			}
			wg.Wait()
			for j := range ps {
				e.Runs = append(e.Runs, ps[j].wait())
			}
			e.Files = listDir(d)
			a := runChild(d, seed, m, "")
			e.After = &a
			e.Files2 = listDir(d)
			out.Emit(e)
		}
		// (e) planted entries under the final name: truncations and another version string
		plant := func(what string, n int, data []byte) {
			d := fresh()
			r0 := runChild(d, seed, m, "created") // creates the version directory; leaves an empty temp file
			sd := subDir(d)
			if sd == "" {
				return
			}
			for _, f := range listDir(d) {
				os.Remove(filepath.Join(sd, f.Name))
			}
			if err := os.WriteFile(filepath.Join(sd, fname), data, 0o600); err != nil {
				panic(err)
			}
			kind := "damaged" // damage in the middle / trailing bytes: judged by the second part of the check
			switch what {
			case "truncated", "other-version", "other-version-length", "code-byte-flipped":
				kind = "planted"
			}
			e := ev(kind)
			e.What, e.N = what, n
			e.Runs = append(e.Runs, r0)
			e.Files = listDir(d)
			a := runChild(d, seed, m, "")
			e.After = &a
			e.Files2 = listDir(d)
			out.Emit(e)
		}
		for _, k := range []int{0, 5, 10, L / 3, L / 2, L - 5, L - 4, L - 1, rng.Intn(L)} {
			if k >= 0 && k < L {
				plant("truncated", k, entry[:k])
			}
		}
		if L > 10 && string(entry[7:10]) == "dev" && hasFn {
			// damage in the MIDDLE of the entry, one field each
			nf := int(entry[10]) | int(entry[11])<<8
			offAt := 14
			elenAt := offAt + 8*nf
			elen := int(entry[elenAt]) | int(entry[elenAt+1])<<8 | int(entry[elenAt+2])<<16
			codeAt := elenAt + 8
			crcAt := codeAt + elen
			flagAt := crcAt + 4
			if flagAt < L {
				patched := func(pos int, bs ...byte) []byte {
					w := append([]byte{}, entry...)
					copy(w[pos:], bs)
					return w
				}
				mp := rng.Intn(6)
				plant("magic-byte", mp, patched(mp, entry[mp]^0x20))
				plant("count-low", 10, patched(10, entry[10]+1))
				plant("count-low-minus", 10, patched(10, entry[10]-1))
				plant("count-high", 13, patched(13, 0x40)) // asks for an 8 GiB slice
				plant("offset0-byte", offAt, patched(offAt, entry[offAt]^0x10))
				plant("offset-last-byte", offAt+8*(nf-1), patched(offAt+8*(nf-1), entry[offAt+8*(nf-1)]^0x10))
				hp := offAt + 8*rng.Intn(nf) + 5
				plant("offset-high-byte", hp, patched(hp, 0x7f))
				plant("codelen-zero", elenAt, patched(elenAt, 0, 0, 0, 0, 0, 0, 0, 0))
				plant("codelen-minus", elenAt, patched(elenAt, entry[elenAt]-1))
				plant("codelen-plus", elenAt, patched(elenAt, entry[elenAt]+1))
				plant("codelen-high", elenAt+5, patched(elenAt+5, 1)) // 1 TiB of code
				plant("codelen-negative", elenAt+7, patched(elenAt+7, 0x80))
				cp := crcAt + rng.Intn(4)
				plant("crc-byte", cp, patched(cp, entry[cp]^byte(1<<uint(rng.Intn(8)))))
				plant("flag-set", flagAt, patched(flagAt, 1))
				plant("flag-other", flagAt, patched(flagAt, 2))
				garbage := make([]byte, 1+rng.Intn(64))
				for i := range garbage {
					garbage[i] = byte(rng.U64())
				}
				plant("trailing-garbage", L, append(append([]byte{}, entry...), garbage...))
				plant("trailing-sourcemap-like", L, append(append([]byte{}, entry...), 1, 0xff, 0xff, 0xff, 0xff, 0xff, 0xff, 0xff, 0x7f))
			}
		}
		// not a regular readable file under the final name; a directory that goes away
		special := func(what string, prep func(sd string) bool, extra ...string) {
			d := fresh()
			r0 := runChild(d, seed, m, "created")
			sd := subDir(d)
			if sd == "" {
				return
			}
			for _, f := range listDir(d) {
				os.Remove(filepath.Join(sd, f.Name))
			}
			if !prep(sd) {
				return
			}
			e := ev("special")
			e.What = what
			e.Runs = append(e.Runs, r0)
			e.Files = listDir(d)
			a := runChild(d, seed, m, "", extra...)
			e.After = &a
			e.Files2 = listDir(d)
			if what == "unreadable" {
				_ = os.Chmod(filepath.Join(sd, fname), 0o600)
				e.Files2 = listDir(d)
			}
			// and one more undisturbed process afterwards
			if what == "dir-vanishes-between-runs" || what == "dir-vanishes-within-run" {
				b := runChild(d, seed, m, "")
				e.Runs = append(e.Runs, b)
				e.Files2 = listDir(d)
			}
			out.Emit(e)
		}
		special("directory", func(sd string) bool { return os.Mkdir(filepath.Join(sd, fname), 0o700) == nil })
		if os.Getuid() == 0 {
			special("unreadable", func(sd string) bool {
				// everything but the entry is open to the unprivileged reader
				for p := sd; len(p) >= len(base); p = filepath.Dir(p) {
					_ = os.Chmod(p, 0o777)
				}
				for p := filepath.Dir(base); p != "/" && p != "."; p = filepath.Dir(p) {
					if st, err := os.Stat(p); err == nil && st.Mode().Perm()&0o005 != 0o005 {
						_ = os.Chmod(p, st.Mode().Perm()|0o005)
					}
				}
				return os.WriteFile(filepath.Join(sd, fname), entry, 0o000) == nil && os.Chmod(filepath.Join(sd, fname), 0o000) == nil
			}, "-uid", "65534")
		}
		special("dir-vanishes-between-runs", func(sd string) bool {
			if err := os.WriteFile(filepath.Join(sd, fname), entry, 0o600); err != nil {
				return false
			}
			return os.RemoveAll(filepath.Dir(sd)) == nil
		})
		special("dir-vanishes-within-run", func(sd string) bool { return true }, "-vanish")
		if L > 10 && string(entry[7:10]) == "dev" {
			w := append([]byte{}, entry...)
			w[9] = 'w'
			plant("other-version", 9, w)
			w = append([]byte{}, entry...)
			w[6] = 2
			plant("other-version-length", 6, w)
			// one code byte flipped (only for entries with code): the checksum must reject it
			codeAt := 7 + 3 + 4
			nf := int(entry[codeAt-4]) | int(entry[codeAt-3])<<8
			codeAt += 8*nf + 8
			if codeAt+4 < L-5 {
				w = append([]byte{}, entry...)
				pos := codeAt + rng.Intn(L-5-codeAt)
				w[pos] ^= 0x10
				plant("code-byte-flipped", pos, w)
			}
		}
	}
}

// manyMode: ONE process compiles k DIFFERENT modules from g goroutines into one cache directory; the directory must
// equal, file by file and byte by byte, the one a sequential compilation of the same modules produces (the entry of a
// module is a function of the module and the settings alone), and a fresh runtime over it must compute every result.
type ManyDiff struct {
	Mod      int    `json:"mod"`
	Name     string `json:"name"`
	RefLen   int    `json:"ref_len"`
	GotLen   int    `json:"got_len"` // -1: no such file
	FirstAt  int    `json:"first_diff_at"`
	EqualsTo int    `json:"equals_entry_of_mod"` // the module whose reference entry these bytes are, -1 if none
}

type ManyEvent struct {
	Kind     string     `json:"kind"`
	Round    int        `json:"round"`
	Mods     int        `json:"mods"`
	Workers  int        `json:"workers"`
	RefFiles int        `json:"ref_files"`
	GotFiles int        `json:"got_files"`
	Extra    []string   `json:"extra_files"`
	Diffs    []ManyDiff `json:"diffs"`
	Wrong    [][]int64  `json:"wrong_results"` // [mod, want, got] (got -1: error) from a fresh runtime over the directory
	Errs     []string   `json:"errs"`
	WasmHex  []string   `json:"wasm_hex,omitempty"` // the modules of the first difference
}

func manyMode(seed uint64, base string, k, g, rounds int, out *c.Out) {
	ctx := context.Background()
	for round := 0; round < rounds; round++ {
		ev := ManyEvent{Kind: "many", Round: round, Mods: k, Workers: g, Extra: []string{}, Diffs: []ManyDiff{}, Wrong: [][]int64{}, Errs: []string{}}
		rs := seed*131 + uint64(round)
		bins := make([][]byte, k)
		args, wants := make([]uint32, k), make([]uint32, k)
		for m := 0; m < k; m++ {
			bins[m], args[m], wants[m], _ = buildMod(rs, 1+m) // every module has functions; every third one is large
		}
		compileAll := func(dir string, workers int) {
			cache, err := wazero.NewCompilationCacheWithDir(dir)
			if err != nil {
				panic(err)
			}
			r := wazero.NewRuntimeWithConfig(ctx, wazero.NewRuntimeConfigCompiler().WithCompilationCache(cache))
			var wg sync.WaitGroup
			var mu sync.Mutex
			next := 0
			for w := 0; w < workers; w++ {
				wg.Add(1)
				go func() {
					defer wg.Done()
					for {
						mu.Lock()
						m := next
						next++
						mu.Unlock()
						if m >= k {
							return
						}
						if _, err := r.CompileModule(ctx, bins[m]); err != nil {
							mu.Lock()
							ev.Errs = append(ev.Errs, fmt.Sprintf("compile %d: %v", m, err))
							mu.Unlock()
						}
					}
				}()
			}
			wg.Wait()
			r.Close(ctx)
		}
		refDir, gotDir := filepath.Join(base, fmt.Sprintf("many%03d_ref", round)), filepath.Join(base, fmt.Sprintf("many%03d_got", round))
		must := func(err error) {
			if err != nil {
				panic(err)
			}
		}
		must(os.MkdirAll(refDir, 0o700))
		must(os.MkdirAll(gotDir, 0o700))
		// the reference also says which file belongs to which module: one module at a time
		nameOf := make([]string, k)
		refData := map[string][]byte{}
		{
			cache, err := wazero.NewCompilationCacheWithDir(refDir)
			must(err)
			r := wazero.NewRuntimeWithConfig(ctx, wazero.NewRuntimeConfigCompiler().WithCompilationCache(cache))
			seen := map[string]bool{}
			for m := 0; m < k; m++ {
				if _, err := r.CompileModule(ctx, bins[m]); err != nil {
					ev.Errs = append(ev.Errs, fmt.Sprintf("reference compile %d: %v", m, err))
				}
				for _, f := range listDir(refDir) {
					if !seen[f.Name] {
						seen[f.Name] = true
						nameOf[m] = f.Name
						refData[f.Name] = f.Data
					}
				}
			}
			r.Close(ctx)
		}
		compileAll(gotDir, g)
		got := map[string][]byte{}
		for _, f := range listDir(gotDir) {
			got[f.Name] = f.Data
			if _, ok := refData[f.Name]; !ok {
				ev.Extra = append(ev.Extra, f.Name)
			}
		}
		ev.RefFiles, ev.GotFiles = len(refData), len(got)
		for m := 0; m < k; m++ {
			ref := refData[nameOf[m]]
			g, ok := got[nameOf[m]]
			if ok && string(g) == string(ref) {
				continue
			}
			d := ManyDiff{Mod: m, Name: nameOf[m], RefLen: len(ref), GotLen: len(g), EqualsTo: -1}
			if !ok {
				d.GotLen = -1
			}
			for d.FirstAt < len(ref) && d.FirstAt < len(g) && ref[d.FirstAt] == g[d.FirstAt] {
				d.FirstAt++
			}
			for m2 := 0; m2 < k; m2++ {
				if ok && string(refData[nameOf[m2]]) == string(g) {
					d.EqualsTo = m2
				}
			}
			if len(ev.Diffs) == 0 {
				ev.WasmHex = []string{hex.EncodeToString(bins[m])}
				if d.EqualsTo >= 0 {
					ev.WasmHex = append(ev.WasmHex, hex.EncodeToString(bins[d.EqualsTo]))
				}
			}
			if len(ev.Diffs) < 8 {
				ev.Diffs = append(ev.Diffs, d)
			}
		}
		// a later runtime over the concurrently written directory
		{
			cache, err := wazero.NewCompilationCacheWithDir(gotDir)
			must(err)
			r := wazero.NewRuntimeWithConfig(ctx, wazero.NewRuntimeConfigCompiler().WithCompilationCache(cache))
			for m := 0; m < k; m++ {
				res := int64(-1)
				func() {
					defer func() {
						if x := recover(); x != nil {
							ev.Errs = append(ev.Errs, fmt.Sprintf("later run of %d: PANIC %v", m, x))
						}
					}()
					cm, err := r.CompileModule(ctx, bins[m])
					if err != nil {
						ev.Errs = append(ev.Errs, fmt.Sprintf("later compile %d: %v", m, err))
						return
					}
					mod, err := r.InstantiateModule(ctx, cm, wazero.NewModuleConfig().WithName(""))
					if err != nil {
						return
					}
					o, err := mod.ExportedFunction("f").Call(ctx, uint64(args[m]))
					if err == nil {
						res = int64(uint32(o[0]))
					}
					mod.Close(ctx)
				}()
				if res != int64(wants[m]) && len(ev.Wrong) < 8 {
					ev.Wrong = append(ev.Wrong, []int64{int64(m), int64(wants[m]), res})
				}
			}
			r.Close(ctx)
		}
		os.RemoveAll(refDir)
		os.RemoveAll(gotDir)
		out.Emit(ev)
		out.Flush()
	}
}

func main() {
	mode := flag.String("mode", "codec", "")
	seed := flag.Uint64("seed", 1, "")
	n := flag.Int("n", 40, "codec: number of records")
	dir := flag.String("dir", "", "fs/child: cache directory (fs: scratch base directory)")
	mods := flag.Int("mods", 3, "fs: number of modules (module 0 has no function)")
	conc := flag.Int("conc", 4, "fs: concurrent rounds per module")
	copies := flag.Int("copies", 1, "fs: extra random crash points inside the copy, per module")
	mod := flag.Int("mod", 1, "child: module index")
	startAt := flag.Int64("startat", 0, "child: spin until this UnixNano")
	fsize := flag.Int64("fsize", -1, "child: RLIMIT_FSIZE (bytes), -1 = none")
	uid := flag.Int("uid", 0, "child: drop to this uid/gid first (only when root)")
	vanish := flag.Bool("vanish", false, "child: remove the cache directory after the cache object was made")
	set := flag.String("set", "", "schild: the settings")
	modFile := flag.String("modfile", "", "schild: compile this file instead of a generated module")
	dwarfMod := flag.String("dwarfmod", "", "settings: a module with DWARF sections")
	full := flag.Bool("full", false, "settings: the larger lattice")
	vhex := flag.String("v", "", "probe: reader version (hex)")
	data := flag.String("data", "", "probe: entry (hex)")
	flag.Parse()
	switch *mode {
	case "child":
		os.Exit(child(*dir, *seed, *mod, *startAt, *fsize, *uid, *vanish))
	case "schild":
		os.Exit(schild(*dir, *seed, *mod, parseSet(*set), *modFile))
	case "probe":
		os.Exit(probeChild(*vhex, *data))
	case "settings":
		out := c.NewOut()
		settingsMode(*seed, *dir, *mods, *conc, *dwarfMod, *full, out)
		out.Flush()
	case "damaged":
		out := c.NewOut()
		damagedMode(*seed, *n, out)
		out.Flush()
	case "samekey":
		out := c.NewOut()
		sameKeyMode(*seed, *dir, *mods, *conc, *n, out)
		out.Flush()
	case "codec":
		out := c.NewOut()
		rng := c.NewRng(*seed)
		for i := 0; i < *n; i++ {
			cs, risky := codecCase(rng)
			out.Emit(cs)
			out.Flush()
			if risky != nil {
				out.Emit(map[string]any{"kind": "codec-extra", "idx": i, "probes": risky()})
				out.Flush()
			}
		}
	case "many":
		out := c.NewOut()
		manyMode(*seed, *dir, *mods, *conc, *n, out)
		out.Flush()
	case "fs":
		out := c.NewOut()
		fsMode(*seed, *dir, *mods, *conc, *copies, out)
		out.Flush()
	}
}
