// Overlay file (package wazevo): exposes serializeCompiledModule / deserializeCompiledModule to the C13 harness.
// It is mapped to internal/engine/wazevo/zz_verif_export.go by `go build -overlay`; /repo is not changed.
package wazevo

import (
	"bytes"
	"fmt"
	"io"
	"runtime"
	"unsafe"

	"github.com/tetratelabs/wazero/internal/platform"
)

// VerifCM is the cached part of a compiledModule; SmExec holds executable offsets RELATIVE to &Exec[0].
type VerifCM struct {
	Offsets []int    `json:"offs"`
	Exec    []byte   `json:"-"`
	SmWasm  []uint64 `json:"smw"`
	SmExec  []uint64 `json:"sme"`
}

// VerifSerialize runs serializeCompiledModule on a record built from c. panicked != "" when it panicked.
func VerifSerialize(version string, c VerifCM) (out []byte, panicked string) {
	defer func() {
		if e := recover(); e != nil {
			out, panicked = nil, fmt.Sprint(e)
		}
	}()
	cm := &compiledModule{executables: &executables{executable: c.Exec}, functionOffsets: c.Offsets}
	var base uintptr
	if len(c.Exec) > 0 {
		base = uintptr(unsafe.Pointer(&c.Exec[0]))
	}
	for _, r := range c.SmExec {
		cm.sourceMap.executableOffsets = append(cm.sourceMap.executableOffsets, base+uintptr(r))
	}
	cm.sourceMap.wasmBinaryOffsets = c.SmWasm
	out, _ = io.ReadAll(serializeCompiledModule(version, cm))
	runtime.KeepAlive(c.Exec)
	return
}

// VerifDeserialize runs deserializeCompiledModule on data; outcome is "ok", "stale", "error" or "panic".
// The executable mapped by a successful call is copied and unmapped again.
func VerifDeserialize(version string, data []byte) (outcome string, c VerifCM, detail string) {
	defer func() {
		if e := recover(); e != nil {
			outcome, detail = "panic", fmt.Sprint(e)
		}
	}()
	cm, stale, err := deserializeCompiledModule(version, io.NopCloser(bytes.NewReader(data)))
	if err != nil {
		return "error", c, err.Error()
	}
	if stale {
		return "stale", c, ""
	}
	c.Offsets = append([]int{}, cm.functionOffsets...)
	c.Exec = append([]byte{}, cm.executable...)
	var base uintptr
	if len(cm.executable) > 0 {
		base = uintptr(unsafe.Pointer(&cm.executable[0]))
	}
	c.SmWasm = append([]uint64{}, cm.sourceMap.wasmBinaryOffsets...)
	c.SmExec = []uint64{}
	for _, a := range cm.sourceMap.executableOffsets {
		c.SmExec = append(c.SmExec, uint64(a-base))
	}
	if len(cm.executable) > 0 {
		if err := platform.MunmapCodeSegment(cm.executable); err != nil {
			return "error", c, "munmap: " + err.Error()
		}
	}
	return "ok", c, ""
}

// VerifDeserializeStats runs deserializeCompiledModule on data and reports the outcome, the number of bytes the call
// allocated on the Go heap (runtime.MemStats.TotalAlloc around the call alone) and the reader's error text.
func VerifDeserializeStats(version string, data []byte) (outcome string, heap int64, detail string) {
	defer func() {
		if e := recover(); e != nil {
			outcome, detail = "panic", fmt.Sprint(e)
		}
	}()
	rd := io.NopCloser(bytes.NewReader(data))
	var m0, m1 runtime.MemStats
	runtime.GC()
	runtime.ReadMemStats(&m0)
	cm, stale, err := deserializeCompiledModule(version, rd)
	runtime.ReadMemStats(&m1)
	heap = int64(m1.TotalAlloc - m0.TotalAlloc)
	if err != nil {
		return "error", heap, err.Error()
	}
	if stale {
		return "stale", heap, ""
	}
	if len(cm.executable) > 0 {
		_ = platform.MunmapCodeSegment(cm.executable)
	}
	return "ok", heap, ""
}
