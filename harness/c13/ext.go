// C13 harness, second part.
//
//	-mode settings : ONE binary under a lattice of settings (listener factory absent / on every function / declining every
//	                 function / on subsets; close-on-context-done; CoreFeatures; capacity-from-max; memory limit; debug info;
//	                 interpreter), every point first cold in a directory of its own (reference), then all points in several
//	                 orders against ONE directory, each in a fresh process (-mode schild); the directory is listed after every
//	                 process.
//	-mode damaged  : entries damaged in the middle, read by the real deserializer in a process of its own (-mode probe) under
//	                 the address-space limit of the harness: the high bytes of the function count, of the code length and of the
//	                 source-map length; outcome, Go heap bytes allocated by the call, length named in the reader's error.
//	-mode samekey  : 16 goroutines of ONE process compile the SAME binary at once (one runtime / one cache object and a runtime
//	                 each / a cache object each over one directory) with the directory empty, warm, holding an entry of another
//	                 version, holding a truncated entry.
package main

import (
	"context"
	"encoding/hex"
	"encoding/json"
	"fmt"
	"os"
	"os/exec"
	"path/filepath"
	"runtime"
	"sort"
	"strconv"
	"strings"
	"sync"
	"syscall"
	"time"

	"github.com/tetratelabs/wazero"
	"github.com/tetratelabs/wazero/api"
	"github.com/tetratelabs/wazero/experimental"
	"github.com/tetratelabs/wazero/internal/engine/wazevo"
	"github.com/tetratelabs/wazero/internal/platform"
	c "github.com/tetratelabs/wazero/internal/zz_verif/common"
)

// ------------------------------------------------------------------------------------------ settings

type Set struct {
	Lis   string // none | all | nil | mask:<hex>
	Term  bool
	Feat  string // v2 | v1 | v2t
	Cap   bool
	Dwarf bool
	Mem   int    // 0 = default limit
	Eng   string // c | i
}

func (s Set) String() string {
	b := func(x bool) int {
		if x {
			return 1
		}
		return 0
	}
	return fmt.Sprintf("lis=%s;term=%d;feat=%s;cap=%d;dwarf=%d;mem=%d;eng=%s", s.Lis, b(s.Term), s.Feat, b(s.Cap), b(s.Dwarf), s.Mem, s.Eng)
}

func parseSet(str string) Set {
	s := Set{Lis: "none", Feat: "v2", Dwarf: true, Eng: "c"}
	for _, kv := range strings.Split(str, ";") {
		p := strings.SplitN(kv, "=", 2)
		if len(p) != 2 {
			continue
		}
		switch p[0] {
		case "lis":
			s.Lis = p[1]
		case "term":
			s.Term = p[1] == "1"
		case "feat":
			s.Feat = p[1]
		case "cap":
			s.Cap = p[1] == "1"
		case "dwarf":
			s.Dwarf = p[1] == "1"
		case "mem":
			s.Mem, _ = strconv.Atoi(p[1])
		case "eng":
			s.Eng = p[1]
		}
	}
	return s
}

// buildSetMod: function 0 "f"(x) = sum of helper_j(x); helpers 1..n: x*k+c (odd m: x is sign-extended from 8 bits first,
// an instruction CoreFeaturesV1 rejects); function n+1 "spin"(n): counts to n, storing the counter at address 0 on the way;
// a memory with a maximum. Returns the binary, the argument, f's result, the number of local functions.
func buildSetMod(seed uint64, m int) (bin []byte, arg, want uint32, nloc int) {
	rng := c.NewRng(seed*7777 + uint64(m)*131 + 5)
	n := 2 + rng.Intn(3)
	if m%2 == 0 { // every other module has 18-21 local functions: listener sets can then differ in functions 8 and 16 apart
		n = 16 + rng.Intn(4)
	}
	arg = uint32(rng.U64())
	md := &c.Mod{}
	md.Types = [][]byte{c.FT(c.B(c.I32), c.B(c.I32))}
	three := uint32(3)
	md.Mems = [][]byte{c.MemLimits(1, &three)}
	var body [][]byte
	var codes [][]byte
	for j := 1; j <= n; j++ {
		k, cc := uint32(rng.U64()), uint32(rng.U64())
		x := arg
		fb := [][]byte{c.LocalGet(0)}
		if m%2 == 1 {
			fb = append(fb, c.B(0xc0)) // i32.extend8_s
			x = uint32(int32(int8(arg)))
		}
		fb = append(fb, c.I32Const(int32(k)), c.B(0x6c), c.I32Const(int32(cc)), c.B(0x6a))
		want += x*k + cc
		codes = append(codes, c.Code(nil, fb...))
		body = append(body, c.LocalGet(0), c.Call(uint32(j)))
		if j > 1 {
			body = append(body, c.B(0x6a))
		}
	}
	spin := c.Code([]byte{c.I32},
		c.B(0x03, 0x40),
		c.LocalGet(1), c.I32Const(1), c.B(0x6a), c.LocalSet(1),
		c.I32Const(0), c.LocalGet(1), c.B(0x36), c.MemArg(2, 0),
		c.LocalGet(1), c.LocalGet(0), c.B(0x49), c.B(0x0d, 0),
		c.B(0x0b),
		c.LocalGet(1))
	md.Codes = append(append([][]byte{c.Code(nil, body...)}, codes...), spin)
	for j := 0; j < n+2; j++ {
		md.Funcs = append(md.Funcs, c.U32(0))
	}
	md.Exports = [][]byte{c.Export("f", 0, 0), c.Export("spin", 0, uint32(n+1)), c.Export("mem", 2, 0)}
	md.Custom = [][]byte{c.Cat(c.Name("verif"), c.U32(uint32(rng.U64())))}
	return md.Bytes(), arg, want, n + 2
}

type recListener struct {
	mu    *sync.Mutex
	trace *[]string
}

func (l recListener) Before(_ context.Context, _ api.Module, def api.FunctionDefinition, params []uint64, _ experimental.StackIterator) {
	l.mu.Lock()
	*l.trace = append(*l.trace, fmt.Sprintf("B%d%v", def.Index(), params))
	l.mu.Unlock()
}
func (l recListener) After(_ context.Context, _ api.Module, def api.FunctionDefinition, results []uint64) {
	l.mu.Lock()
	*l.trace = append(*l.trace, fmt.Sprintf("A%d%v", def.Index(), results))
	l.mu.Unlock()
}
func (l recListener) Abort(_ context.Context, _ api.Module, def api.FunctionDefinition, err error) {
	l.mu.Lock()
	*l.trace = append(*l.trace, fmt.Sprintf("X%d", def.Index()))
	l.mu.Unlock()
}

type recFactory struct {
	mode  string
	mask  uint64
	l     recListener
	flags map[uint32]bool
}

func (f *recFactory) NewFunctionListener(def api.FunctionDefinition) experimental.FunctionListener {
	on := false
	switch f.mode {
	case "all":
		on = true
	case "mask":
		on = f.mask>>(def.Index()%64)&1 == 1
	}
	f.flags[def.Index()] = on
	if !on {
		return nil
	}
	return f.l
}

type SOut struct {
	OK    bool     `json:"ok"`
	Stage string   `json:"stage,omitempty"`
	Err   string   `json:"err,omitempty"`
	Res   uint32   `json:"res"`
	Trace []string `json:"trace"`
	Spin  string   `json:"spin"`  // n/a | early | completed | error:<text>
	Small uint32   `json:"small"` // spin(1000)
	Lis   []bool   `json:"lis"`   // what the factory returned per local function; null without a factory
	Cpu   uint64   `json:"cpu"`
}

func schild(dir string, seed uint64, m int, set Set, modFile string) int {
	out := SOut{Trace: []string{}, Spin: "n/a", Cpu: platform.CpuFeatures.Raw()}
	emit := func() {
		b, _ := json.Marshal(out)
		fmt.Println(string(b))
	}
	var bin []byte
	var arg uint32
	nloc := 0
	callable := true
	if modFile != "" {
		var err error
		if bin, err = os.ReadFile(modFile); err != nil {
			out.Stage, out.Err = "readmod", err.Error()
			emit()
			return 5
		}
		callable = false
	} else {
		bin, arg, _, nloc = buildSetMod(seed, m)
	}
	ctx := context.Background()
	var mu sync.Mutex
	var fac *recFactory
	if set.Lis != "none" {
		fac = &recFactory{l: recListener{&mu, &out.Trace}, flags: map[uint32]bool{}}
		switch {
		case set.Lis == "all":
			fac.mode = "all"
		case set.Lis == "nil":
			fac.mode = "nil"
		case strings.HasPrefix(set.Lis, "mask:"):
			fac.mode = "mask"
			fac.mask, _ = strconv.ParseUint(strings.TrimPrefix(set.Lis, "mask:"), 16, 64)
		}
		ctx = experimental.WithFunctionListenerFactory(ctx, fac)
	}
	cache, err := wazero.NewCompilationCacheWithDir(dir)
	if err != nil {
		out.Stage, out.Err = "cache", err.Error()
		emit()
		return 3
	}
	var cfg wazero.RuntimeConfig
	if set.Eng == "i" {
		cfg = wazero.NewRuntimeConfigInterpreter()
	} else {
		cfg = wazero.NewRuntimeConfigCompiler()
	}
	cfg = cfg.WithCompilationCache(cache).WithCloseOnContextDone(set.Term).WithMemoryCapacityFromMax(set.Cap).WithDebugInfoEnabled(set.Dwarf)
	switch set.Feat {
	case "v1":
		cfg = cfg.WithCoreFeatures(api.CoreFeaturesV1)
	case "v2t":
		cfg = cfg.WithCoreFeatures(api.CoreFeaturesV2 | experimental.CoreFeaturesThreads)
	}
	if set.Mem > 0 {
		cfg = cfg.WithMemoryLimitPages(uint32(set.Mem))
	}
	r := wazero.NewRuntimeWithConfig(ctx, cfg)
	cm, err := r.CompileModule(ctx, bin)
	if fac != nil {
		idx := make([]int, 0, len(fac.flags))
		for i := range fac.flags {
			idx = append(idx, int(i))
		}
		sort.Ints(idx)
		out.Lis = []bool{}
		for _, i := range idx {
			out.Lis = append(out.Lis, fac.flags[uint32(i)])
		}
	}
	if err != nil {
		out.Stage, out.Err = "compile", err.Error()
		emit()
		return 3
	}
	if !callable {
		out.OK = true
		emit()
		return 0
	}
	_ = nloc
	mod, err := r.InstantiateModule(ctx, cm, wazero.NewModuleConfig().WithName(""))
	if err != nil {
		out.Stage, out.Err = "instantiate", err.Error()
		emit()
		return 4
	}
	res, err := mod.ExportedFunction("f").Call(ctx, uint64(arg))
	if err != nil {
		out.Stage, out.Err = "call", err.Error()
		emit()
		return 4
	}
	out.Res = uint32(res[0])
	mu.Lock()
	ntrace := len(out.Trace)
	mu.Unlock()
	res, err = mod.ExportedFunction("spin").Call(ctx, 1000)
	if err != nil {
		out.Stage, out.Err = "spin-small", err.Error()
		emit()
		return 4
	}
	out.Small = uint32(res[0])
	if set.Term {
		// the loop must notice that the context is done; without the checks compiled in it runs to the end
		tctx, cancel := context.WithTimeout(ctx, 5*time.Millisecond)
		_, err = mod.ExportedFunction("spin").Call(tctx, 0xffffffff)
		cancel()
		cnt, _ := mod.Memory().ReadUint32Le(0)
		switch {
		case err == nil || cnt == 0xffffffff:
			out.Spin = "completed"
		case strings.Contains(err.Error(), "deadline") || strings.Contains(err.Error(), "exit_code") || strings.Contains(err.Error(), "closed"):
			out.Spin = "early"
		default:
			out.Spin = "error:" + err.Error()
		}
	}
	mu.Lock()
	out.Trace = out.Trace[:ntrace] // the calls of f only
	mu.Unlock()
	out.OK = true
	emit()
	return 0
}

type SRun struct {
	RC     int    `json:"rc"`
	Out    *SOut  `json:"out,omitempty"`
	Stderr string `json:"stderr,omitempty"`
}

func runSChild(dir string, seed uint64, m int, set Set, modFile string) SRun {
	cmd := exec.Command(os.Args[0], "-mode", "schild", "-dir", dir, "-seed", fmt.Sprint(seed), "-mod", fmt.Sprint(m), "-set", set.String(), "-modfile", modFile)
	var so, se strings.Builder
	cmd.Stdout, cmd.Stderr = &so, &se
	r := SRun{}
	if err := cmd.Start(); err != nil {
		r.RC = -1000
		return r
	}
	done := make(chan error, 1)
	go func() { done <- cmd.Wait() }()
	var err error
	select {
	case err = <-done:
	case <-time.After(90 * time.Second):
		_ = cmd.Process.Kill()
		err = <-done
		r.Stderr = "[killed after 90 s] "
	}
	if err != nil {
		if ee, ok := err.(*exec.ExitError); ok {
			r.RC = ee.ExitCode()
			if ws, ok := ee.Sys().(syscall.WaitStatus); ok && ws.Signaled() {
				r.RC = -int(ws.Signal())
			}
		} else {
			r.RC = -1000
		}
	}
	s := se.String()
	if len(s) > 500 {
		s = s[:500]
	}
	r.Stderr += s
	for _, ln := range strings.Split(so.String(), "\n") {
		if strings.HasPrefix(ln, "{") {
			var o SOut
			if json.Unmarshal([]byte(ln), &o) == nil {
				r.Out = &o
			}
		}
	}
	return r
}

type SPoint struct {
	Set   string `json:"set"`
	Run   SRun   `json:"run"`
	Files []File `json:"files"`
}

type SStep struct {
	I     int    `json:"i"`
	Run   SRun   `json:"run"`
	Files []File `json:"files"`
}

type SEvent struct {
	Kind   string   `json:"kind"`
	Mod    int      `json:"mod"`
	ModF   string   `json:"modfile,omitempty"`
	Wasm   []byte   `json:"wasm,omitempty"`
	NLoc   int      `json:"nloc"`
	Arg    uint32   `json:"arg"`
	Want   uint32   `json:"want"`
	Points []SPoint `json:"points,omitempty"`
	Order  []int    `json:"order,omitempty"`
	Steps  []SStep  `json:"steps,omitempty"`
}

func lattice(rng *c.Rng, nloc int, full bool) []Set {
	base := Set{Lis: "none", Feat: "v2", Dwarf: true, Eng: "c"}
	with := func(f func(*Set)) Set { s := base; f(&s); return s }
	ma := 1 + uint64(rng.Intn(1<<uint(nloc)-1))
	mb := 1 + uint64(rng.Intn(1<<uint(nloc)-1))
	for mb == ma {
		mb = 1 + uint64(rng.Intn(1<<uint(nloc)-1))
	}
	if nloc > 9 { // sets that differ only in a function 8 apart from one that is in both
		ma, mb = 1<<1, 1<<1|1<<9
		if rng.Bool() {
			ma, mb = 0xff, 1<<uint(nloc)-1-(1<<uint(rng.Intn(nloc-8))<<8) // functions 0..7 vs all but one of the later ones
		}
	}
	ps := []Set{
		base,
		with(func(s *Set) { s.Lis = "all" }),
		with(func(s *Set) { s.Lis = "nil" }),
		with(func(s *Set) { s.Lis = fmt.Sprintf("mask:%x", ma) }),
		with(func(s *Set) { s.Lis = fmt.Sprintf("mask:%x", mb) }),
		with(func(s *Set) { s.Term = true }),
		with(func(s *Set) { s.Term = true; s.Lis = "all" }),
		with(func(s *Set) { s.Feat = "v1" }),
		with(func(s *Set) { s.Feat = "v2t" }),
		with(func(s *Set) { s.Cap = true }),
		with(func(s *Set) { s.Mem = 100 }),
		with(func(s *Set) { s.Dwarf = false }),
		with(func(s *Set) { s.Eng = "i" }),
	}
	if full {
		ps = append(ps,
			with(func(s *Set) { s.Term = true; s.Lis = "nil" }),
			with(func(s *Set) { s.Term = true; s.Lis = fmt.Sprintf("mask:%x", ma); s.Cap = true }),
			with(func(s *Set) { s.Term = true; s.Feat = "v2t"; s.Dwarf = false }),
			with(func(s *Set) { s.Lis = "all"; s.Feat = "v1" }),
			with(func(s *Set) { s.Lis = "all"; s.Eng = "i" }),
			with(func(s *Set) { s.Lis = fmt.Sprintf("mask:%x", (1<<uint(nloc))-1) }), // a mask that selects every function = all
		)
	}
	return ps
}

func settingsMode(seed uint64, base string, nmods, norders int, dwarfMod string, full bool, out *c.Out) {
	rng := c.NewRng(seed ^ 0x5e77)
	dirN := 0
	fresh := func() string {
		dirN++
		d := filepath.Join(base, fmt.Sprintf("s%04d", dirN))
		if err := os.MkdirAll(d, 0o700); err != nil {
			panic(err)
		}
		return d
	}
	type job struct {
		m    int
		file string
	}
	jobs := []job{}
	for m := 0; m < nmods; m++ {
		jobs = append(jobs, job{m, ""})
	}
	if dwarfMod != "" {
		jobs = append(jobs, job{-1, dwarfMod})
	}
	for _, jb := range jobs {
		ev := SEvent{Kind: "set-ref", Mod: jb.m, ModF: jb.file}
		var pts []Set
		if jb.file == "" {
			ev.Wasm, ev.Arg, ev.Want, ev.NLoc = buildSetMod(seed, jb.m)
			pts = lattice(rng, ev.NLoc, full)
		} else {
			ev.Wasm, _ = os.ReadFile(jb.file)
			b := Set{Lis: "none", Feat: "v2", Dwarf: true, Eng: "c"}
			d0, l1, t1 := b, b, b
			d0.Dwarf = false
			l1.Lis = "all"
			t1.Term = true
			t1.Dwarf = false
			pts = []Set{b, d0, l1, t1}
		}
		// cold references, four at a time
		ev.Points = make([]SPoint, len(pts))
		var wg sync.WaitGroup
		sem := make(chan struct{}, 4)
		for i := range pts {
			wg.Add(1)
			d := fresh()
			go func(i int, d string) {
				defer wg.Done()
				sem <- struct{}{}
				defer func() { <-sem }()
				ev.Points[i] = SPoint{Set: pts[i].String(), Run: runSChild(d, seed, jb.m, pts[i], jb.file), Files: listDir(d)}
			}(i, d)
		}
		wg.Wait()
		out.Emit(ev)
		out.Flush()
		// orders over ONE directory each: as listed, reversed, then random permutations; every point twice in the last one.
		// The orders are independent of each other (a directory each): four run at a time, the steps of one in sequence.
		oevs := make([]SEvent, norders)
		var owg sync.WaitGroup
		osem := make(chan struct{}, 4)
		for o := 0; o < norders; o++ {
			order := make([]int, len(pts))
			for i := range order {
				order[i] = i
			}
			switch {
			case o == 1:
				for i, j := 0, len(order)-1; i < j; i, j = i+1, j-1 {
					order[i], order[j] = order[j], order[i]
				}
			case o >= 2:
				for i := len(order) - 1; i > 0; i-- {
					j := rng.Intn(i + 1)
					order[i], order[j] = order[j], order[i]
				}
				if o == norders-1 {
					order = append(order, order[:len(order)/2]...)
				}
			}
			d := fresh()
			oevs[o] = SEvent{Kind: "set-order", Mod: jb.m, ModF: jb.file, Order: order}
			owg.Add(1)
			go func(o int, d string, order []int) {
				defer owg.Done()
				osem <- struct{}{}
				defer func() { <-osem }()
				for _, i := range order {
					oevs[o].Steps = append(oevs[o].Steps, SStep{I: i, Run: runSChild(d, seed, jb.m, pts[i], jb.file), Files: listDir(d)})
				}
			}(o, d, order)
		}
		owg.Wait()
		for o := range oevs {
			out.Emit(oevs[o])
		}
		out.Flush()
	}
}

// ------------------------------------------------------------------------------------------ damaged entries, one process each

type ProbeOut struct {
	O      string `json:"o"`
	Heap   int64  `json:"heap"`
	Detail string `json:"detail"`
}

func probeChild(vhex, datahex string) int {
	v, _ := hex.DecodeString(vhex)
	data, _ := hex.DecodeString(datahex)
	o, heap, detail := wazevo.VerifDeserializeStats(string(v), data)
	if len(detail) > 300 {
		detail = detail[:300]
	}
	b, _ := json.Marshal(ProbeOut{O: o, Heap: heap, Detail: detail})
	fmt.Println(string(b))
	return 0
}

type DProbe struct {
	What   string    `json:"what"`
	Pos    int       `json:"pos"`
	Val    int       `json:"val"`
	RC     int       `json:"rc"`
	Out    *ProbeOut `json:"out,omitempty"`
	Stderr string    `json:"stderr,omitempty"`
}

type DEvent struct {
	Kind   string   `json:"kind"`
	V      []byte   `json:"v"`
	Ser    []byte   `json:"ser"`
	Probes []DProbe `json:"probes"`
}

func damagedMode(seed uint64, n int, out *c.Out) {
	rng := c.NewRng(seed ^ 0xda3a6ed)
	for done := 0; done < n; {
		v, m := genCM(rng)
		if len(v) >= 250 || len(m.Smw) != len(m.Sme) || (len(m.Exec) == 0 && len(m.Sme) > 0) {
			continue
		}
		ser, p := wazevo.VerifSerialize(string(v), toV(m))
		if p != "" {
			continue
		}
		done++
		ev := DEvent{Kind: "damaged", V: v, Ser: ser}
		cnt := 7 + len(v)
		elen := cnt + 4 + 8*len(m.Offs)
		flag := elen + 8 + len(m.Exec) + 4
		type pb struct {
			what     string
			pos, val int
		}
		pbs := []pb{}
		for b := 1; b < 4; b++ {
			pbs = append(pbs, pb{fmt.Sprintf("count-byte%d", b), cnt + b, 1 + rng.Intn(255)})
		}
		pbs = append(pbs, pb{"count-byte3", cnt + 3, []int{1, 2, 0x40, 0x80, 0xff}[rng.Intn(5)]})
		for _, b := range []int{2, 3, 4, 5, 6, 7} {
			if rng.Intn(2) == 0 || b == 7 {
				pbs = append(pbs, pb{fmt.Sprintf("codelen-byte%d", b), elen + b, []int{1, 1 + rng.Intn(255), 0x80, 0xff}[rng.Intn(4)]})
			}
		}
		if len(m.Sme) > 0 {
			for _, b := range []int{1, 3, 7} {
				pbs = append(pbs, pb{fmt.Sprintf("smlen-byte%d", b), flag + 1 + b, 1 + rng.Intn(255)})
			}
		}
		ev.Probes = make([]DProbe, len(pbs))
		var wg sync.WaitGroup
		sem := make(chan struct{}, 4)
		for i, q := range pbs {
			wg.Add(1)
			go func(i int, q pb) {
				defer wg.Done()
				sem <- struct{}{}
				defer func() { <-sem }()
				data := append([]byte{}, ser...)
				data[q.pos] = byte(q.val)
				var d DProbe
				// a process that dies without a word is started once more: on a loaded box the Go runtime itself can fail
				// to start under the address-space limit; a reader that asks for gigabytes dies both times
				for attempt := 0; attempt < 2; attempt++ {
					cmd := exec.Command(os.Args[0], "-mode", "probe", "-v", hex.EncodeToString(v), "-data", hex.EncodeToString(data))
					var so, se strings.Builder
					cmd.Stdout, cmd.Stderr = &so, &se
					d = DProbe{What: q.what, Pos: q.pos, Val: q.val}
					if err := cmd.Run(); err != nil {
						d.RC = -1000
						if ee, ok := err.(*exec.ExitError); ok {
							d.RC = ee.ExitCode()
							if ws, ok := ee.Sys().(syscall.WaitStatus); ok && ws.Signaled() {
								d.RC = -int(ws.Signal())
							}
						}
					}
					s := se.String()
					if len(s) > 400 {
						s = s[:400]
					}
					d.Stderr = s
					for _, ln := range strings.Split(so.String(), "\n") {
						if strings.HasPrefix(ln, "{") {
							var o ProbeOut
							if json.Unmarshal([]byte(ln), &o) == nil {
								d.Out = &o
							}
						}
					}
					if d.Out != nil {
						break
					}
				}
				ev.Probes[i] = d
			}(i, q)
		}
		wg.Wait()
		out.Emit(ev)
		out.Flush()
	}
}

// ------------------------------------------------------------------------------------------ goroutines on one key

type SKEvent struct {
	Kind    string   `json:"kind"`
	Variant string   `json:"variant"`
	State   string   `json:"state"`
	Mod     int      `json:"mod"`
	Want    uint32   `json:"want"`
	G       int      `json:"g"`
	OK      int      `json:"ok"`
	Errs    []string `json:"errs"`
	NErr    int      `json:"nerr"`
	Wrong   int      `json:"wrong"`
	Panics  []string `json:"panics"`
	Ref     File     `json:"ref"`
	Planted []byte   `json:"planted,omitempty"`
	Files   []File   `json:"files"`
	After   ChildOut `json:"after"`
	Files2  []File   `json:"files_after"`
	WasmHex string   `json:"wasm_hex,omitempty"`
}

func sameKeyMode(seed uint64, base string, nmods, g, extra int, out *c.Out) {
	ctx := context.Background()
	n := 0
	fresh := func() string {
		n++
		d := filepath.Join(base, fmt.Sprintf("k%04d", n))
		if err := os.MkdirAll(d, 0o700); err != nil {
			panic(err)
		}
		return d
	}
	one := func(dir string, bin []byte, arg uint32) ChildOut {
		o := ChildOut{}
		defer func() {
			if x := recover(); x != nil {
				o = ChildOut{Stage: "panic", Err: fmt.Sprint(x)}
			}
		}()
		cache, err := wazero.NewCompilationCacheWithDir(dir)
		if err != nil {
			return ChildOut{Stage: "cache", Err: err.Error()}
		}
		defer cache.Close(ctx)
		r := wazero.NewRuntimeWithConfig(ctx, wazero.NewRuntimeConfigCompiler().WithCompilationCache(cache))
		defer r.Close(ctx)
		cm, err := r.CompileModule(ctx, bin)
		if err != nil {
			return ChildOut{Stage: "compile", Err: err.Error()}
		}
		mod, err := r.InstantiateModule(ctx, cm, wazero.NewModuleConfig().WithName(""))
		if err != nil {
			return ChildOut{Stage: "instantiate", Err: err.Error()}
		}
		res, err := mod.ExportedFunction("f").Call(ctx, uint64(arg))
		if err != nil {
			return ChildOut{Stage: "call", Err: err.Error()}
		}
		o = ChildOut{OK: true, Res: uint32(res[0])}
		return o
	}
	type job struct {
		m         int
		bin       []byte
		arg, want uint32
		variants  []string
		states    []string
	}
	jobs := []job{}
	for k := 1; k <= nmods; k++ {
		m := k
		if k%2 == 1 {
			m = 3 * k // every third module of buildMod is a large one: a wider window
		}
		bin, arg, want, _ := buildMod(seed*31+7, m)
		jobs = append(jobs, job{m, bin, arg, want, []string{"one-runtime", "one-cache", "cache-each"}, []string{"cold", "warm", "other-version", "truncated"}})
	}
	// a module with many function types, warm, many times: loading an entry does per-type work after the module is known
	for r := 0; r < extra; r++ {
		bin, arg, want := buildTypesMod(seed*17+uint64(r), 96)
		jobs = append(jobs, job{1000 + r, bin, arg, want, []string{[]string{"one-runtime", "one-cache"}[r%2]}, []string{"warm"}})
	}
	for _, jb := range jobs {
		m, bin, arg, want := jb.m, jb.bin, jb.arg, jb.want
		refDir := fresh()
		if o := one(refDir, bin, arg); !o.OK || o.Res != want {
			out.Emit(SKEvent{Kind: "samekey", Variant: "reference", State: "cold", Mod: m, Want: want, After: o, Errs: []string{}, Panics: []string{}, Files: []File{}, Files2: []File{}})
			continue
		}
		rf := listDir(refDir)
		if len(rf) != 1 {
			continue
		}
		ref := rf[0]
		for _, variant := range jb.variants {
			for _, state := range jb.states {
				d := fresh()
				ev := SKEvent{Kind: "samekey", Variant: variant, State: state, Mod: m, Want: want, G: g, Ref: ref, Errs: []string{}, Panics: []string{}}
				// the version directory, then the initial content
				c0, err := wazero.NewCompilationCacheWithDir(d)
				if err != nil {
					panic(err)
				}
				c0.Close(ctx)
				sd := subDir(d)
				switch state {
				case "warm":
					ev.Planted = ref.Data
				case "other-version":
					w := append([]byte{}, ref.Data...)
					w[7+int(w[6])-1] ^= 0x01
					ev.Planted = w
				case "truncated":
					ev.Planted = ref.Data[:len(ref.Data)/2]
				}
				if ev.Planted != nil {
					if err := os.WriteFile(filepath.Join(sd, ref.Name), ev.Planted, 0o600); err != nil {
						panic(err)
					}
				}
				var shared wazero.CompilationCache
				var sharedRt wazero.Runtime
				if variant != "cache-each" {
					shared, _ = wazero.NewCompilationCacheWithDir(d)
				}
				if variant == "one-runtime" {
					sharedRt = wazero.NewRuntimeWithConfig(ctx, wazero.NewRuntimeConfigCompiler().WithCompilationCache(shared))
				}
				var wg sync.WaitGroup
				var mu sync.Mutex
				start := make(chan struct{})
				errset := map[string]bool{}
				for w := 0; w < g; w++ {
					wg.Add(1)
					go func() {
						defer wg.Done()
						defer func() {
							if x := recover(); x != nil {
								mu.Lock()
								ev.Panics = append(ev.Panics, fmt.Sprint(x))
								mu.Unlock()
							}
						}()
						cache := shared
						if cache == nil {
							var err error
							if cache, err = wazero.NewCompilationCacheWithDir(d); err != nil {
								mu.Lock()
								errset["cache: "+err.Error()] = true
								ev.NErr++
								mu.Unlock()
								return
							}
						}
						r := sharedRt
						if r == nil {
							r = wazero.NewRuntimeWithConfig(ctx, wazero.NewRuntimeConfigCompiler().WithCompilationCache(cache))
						}
						<-start
						cm, err := r.CompileModule(ctx, bin)
						if err != nil {
							s := err.Error()
							if i := strings.Index(s, "("); i > 0 {
								s = s[:i]
							}
							mu.Lock()
							errset["compile: "+s] = true
							ev.NErr++
							mu.Unlock()
							return
						}
						mod, err := r.InstantiateModule(ctx, cm, wazero.NewModuleConfig().WithName(""))
						if err != nil {
							mu.Lock()
							errset["instantiate: "+err.Error()] = true
							ev.NErr++
							mu.Unlock()
							return
						}
						res, err := mod.ExportedFunction("f").Call(ctx, uint64(arg))
						mu.Lock()
						switch {
						case err != nil:
							errset["call: "+err.Error()] = true
							ev.NErr++
						case uint32(res[0]) != want:
							ev.Wrong++
						default:
							ev.OK++
						}
						mu.Unlock()
					}()
				}
				close(start)
				wg.Wait()
				for e := range errset {
					ev.Errs = append(ev.Errs, e)
				}
				sort.Strings(ev.Errs)
				ev.Files = listDir(d)
				ev.After = one(d, bin, arg)
				ev.Files2 = listDir(d)
				if ev.Wrong > 0 || len(ev.Panics) > 0 {
					ev.WasmHex = hex.EncodeToString(bin)
				}
				out.Emit(ev)
				out.Flush()
				runtime.GC()
			}
		}
	}
}

// buildTypesMod: nt function types of growing arity, one function "f"(x) = x*k + c of the first type.
func buildTypesMod(seed uint64, nt int) (bin []byte, arg, want uint32) {
	rng := c.NewRng(seed ^ 0x7e5)
	md := &c.Mod{}
	md.Types = [][]byte{c.FT(c.B(c.I32), c.B(c.I32))}
	for t := 1; t < nt; t++ {
		ps := make([]byte, 1+t%40)
		for i := range ps {
			ps[i] = []byte{c.I32, c.I64, c.F32, c.F64}[rng.Intn(4)]
		}
		md.Types = append(md.Types, c.FT(ps, c.B(c.I32)))
	}
	k, cc := uint32(rng.U64()), uint32(rng.U64())
	arg = uint32(rng.U64())
	want = arg*k + cc
	md.Funcs = [][]byte{c.U32(0)}
	md.Codes = [][]byte{c.Code(nil, c.LocalGet(0), c.I32Const(int32(k)), c.B(0x6c), c.I32Const(int32(cc)), c.B(0x6a))}
	md.Exports = [][]byte{c.Export("f", 0, 0)}
	return md.Bytes(), arg, want
}
