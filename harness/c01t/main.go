// Typed mirror terms for the type checker coq/Wasm/Validate.v: reads hex-encoded wasm modules (one per line)
// on stdin, decodes each with wazero's own binary decoder, and prints for each a JSON line with the Coq
// `list tfuncdef` (block types recovered from the bytes the engines execute) and the global types.
package main

import (
	"bufio"
	"encoding/hex"
	"fmt"
	"os"
	"strings"

	"github.com/tetratelabs/wazero/api"
	"github.com/tetratelabs/wazero/internal/wasm"
	"github.com/tetratelabs/wazero/internal/wasm/binary"
	c "github.com/tetratelabs/wazero/internal/zz_verif/common"
)

type Out struct {
	Funcs string `json:"funcs"`
	GT    string `json:"gt"`
	Err   string `json:"err,omitempty"`
}

func vts(ts []wasm.ValueType) []byte { return append([]byte{}, ts...) }

func typed(bin []byte) (o Out) {
	defer func() {
		if e := recover(); e != nil {
			o.Err = fmt.Sprint("PANIC: ", e)
		}
	}()
	m, err := binary.DecodeModule(bin, api.CoreFeaturesV2, 65536, false, false, false)
	if err != nil {
		o.Err = "decode: " + err.Error()
		return
	}
	types := make([]c.Sig, len(m.TypeSection))
	for i := range m.TypeSection {
		types[i] = c.Sig{P: vts(m.TypeSection[i].Params), R: vts(m.TypeSection[i].Results)}
	}
	var fs []string
	for i := range m.ImportSection {
		im := &m.ImportSection[i]
		if im.Type != wasm.ExternTypeFunc {
			o.Err = "non-function import"
			return
		}
		var h int
		if _, err := fmt.Sscanf(im.Name, "h%d", &h); err != nil {
			o.Err = "import name " + im.Name
			return
		}
		fs = append(fs, c.TypedHost(h, types[im.DescFunc]))
	}
	for i, ti := range m.FunctionSection {
		code := &m.CodeSection[i]
		s, err := c.TypedFunc(types[ti], vts(code.LocalTypes), code.Body, types)
		if err != nil {
			o.Err = fmt.Sprintf("function %d: %v", i, err)
			return
		}
		fs = append(fs, s)
	}
	var gt []byte
	for i := range m.GlobalSection {
		gt = append(gt, m.GlobalSection[i].Type.ValType)
	}
	o.Funcs = "[" + strings.Join(fs, ";\n   ") + "]"
	o.GT = (&c.ModSpec{Globals: gt}).CoqGlobalTypes()
	return
}

func main() {
	out := c.NewOut()
	defer out.Flush()
	sc := bufio.NewScanner(os.Stdin)
	sc.Buffer(make([]byte, 1<<20), 1<<26)
	for sc.Scan() {
		line := strings.TrimSpace(sc.Text())
		if line == "" {
			continue
		}
		bin, err := hex.DecodeString(line)
		if err != nil {
			out.Emit(Out{Err: "hex: " + err.Error()})
			continue
		}
		out.Emit(typed(bin))
	}
}
