// C14 extension: allocator that REFUSES by a schedule derived from the seed, SHARED memories (threads feature),
// and an IMPORTED memory operated alternately through its exporter and its importer (two views of one memory).
package main

import (
	"context"
	"fmt"

	"github.com/tetratelabs/wazero"
	"github.com/tetratelabs/wazero/api"
	"github.com/tetratelabs/wazero/experimental"
	c "github.com/tetratelabs/wazero/internal/zz_verif/common"
)

type XCfg struct {
	Cfg
	Shared   bool `json:"shared"`
	Threads  bool `json:"threads"`
	Imported bool `json:"imported"`
	// allocator schedule: request number k (0 = the one made at instantiation) is refused when bit k%64 of Mask is set
	// or when Above != 0 and the requested size exceeds Above bytes.
	Mask  uint64 `json:"mask"`
	Above uint64 `json:"above"`
}

type XCase struct {
	X      bool   `json:"x"`
	Cfg    XCfg   `json:"cfg"`
	Engine string `json:"engine"`
	Status int    `json:"status"` // 0 configuration refused, 1 instantiated, 2 instantiation panicked
	Err    string `json:"err,omitempty"`
	// after a panicking instantiation: "clean" when no module of that name exists and the same binary instantiates
	// under the same name with an agreeing allocator, at its minimum size
	AfterPanic string      `json:"after_panic,omitempty"`
	Ops        [][]any     `json:"ops"`
	View       []int       `json:"view"` // per op: 0 through the exporter, 1 through the importer
	Obs        [][]any     `json:"obs"`
	Pg         []uint32    `json:"pg"`    // host Grow(0) (exporter view) before each op
	Views      [][4]int64  `json:"views"` // after each op: guest memory.size via exporter, via importer (-1: none, -2: trap), host pages via exporter, via importer
	Areq       [][3]uint64 `json:"areq"`  // allocator log: op index + 1 (0: instantiation), size asked, answered (1) or refused (0)
	AllocArgs  []uint64    `json:"alloc_args,omitempty"`
	Committed  []uint64    `json:"committed,omitempty"`
	Fresh      []int       `json:"fresh,omitempty"`
}

func limitsX(min uint32, max *uint32, shared bool) []byte {
	flag := byte(0)
	if shared {
		flag = 2
	}
	if max == nil {
		return c.Cat(c.B(flag), c.U32(min))
	}
	return c.Cat(c.B(flag|1), c.U32(min), c.U32(*max))
}

var xTypes = [][]byte{c.FT(nil, c.B(c.I32)), c.FT(c.B(c.I32), c.B(c.I32)), c.FT(c.B(c.I32, c.I32), nil)}
var xCodes = [][]byte{
	c.Code(nil, c.B(0x3f, 0)),
	c.Code(nil, c.LocalGet(0), c.B(0x2d, 0, 0)),
	c.Code(nil, c.LocalGet(0), c.B(0x40, 0)),
	c.Code(nil, c.LocalGet(0), c.LocalGet(1), c.B(0x3a, 0, 0)),
}
var xExports = [][]byte{c.Export("size", 0, 0), c.Export("load8", 0, 1), c.Export("grow", 0, 2), c.Export("store8", 0, 3)}

func memModX(min uint32, max *uint32, shared bool) []byte {
	m := &c.Mod{Types: xTypes, Codes: xCodes}
	m.Funcs = [][]byte{c.U32(0), c.U32(1), c.U32(1), c.U32(2)}
	m.Mems = [][]byte{limitsX(min, max, shared)}
	m.Exports = append(append([][]byte{}, xExports...), c.Export("mem", 2, 0))
	return m.Bytes()
}

// the importer: same four functions, operating on the memory imported from "b"
func impModX(max *uint32, shared bool) []byte {
	m := &c.Mod{Types: xTypes, Codes: xCodes}
	m.Imports = [][]byte{c.Cat(c.Name("b"), c.Name("mem"), c.B(2), limitsX(0, max, shared))}
	m.Funcs = [][]byte{c.U32(0), c.U32(1), c.U32(1), c.U32(2)}
	m.Exports = xExports
	return m.Bytes()
}

// schedMem: sliceMem (maximum reserved as spare capacity, never moves, poisons the page after the committed size)
// that refuses by schedule and logs every request. A refusal leaves the allocator untouched.
type schedMem struct {
	sliceMem
	mask, above uint64
	k           int
	opIdx       *int
	log         *[][3]uint64
}

func (s *schedMem) Reallocate(size uint64) []byte {
	refuse := (s.mask>>(uint(s.k)%64))&1 == 1 || (s.above != 0 && size > s.above)
	s.k++
	if refuse || size > uint64(cap(s.buf)) {
		*s.log = append(*s.log, [3]uint64{uint64(*s.opIdx + 1), size, 0})
		return nil
	}
	*s.log = append(*s.log, [3]uint64{uint64(*s.opIdx + 1), size, 1})
	return s.sliceMem.Reallocate(size)
}

func runXCase(ctx context.Context, cf XCfg, engine string, ops [][]any, view []int) (cs XCase) {
	cs = XCase{X: true, Cfg: cf, Engine: engine, Ops: ops, View: view, Areq: [][3]uint64{}}
	var rc wazero.RuntimeConfig
	if engine == "compiler" {
		rc = wazero.NewRuntimeConfigCompiler()
	} else {
		rc = wazero.NewRuntimeConfigInterpreter()
	}
	rc = rc.WithMemoryLimitPages(cf.Limit).WithMemoryCapacityFromMax(cf.CapMax)
	if cf.Threads {
		rc = rc.WithCoreFeatures(api.CoreFeaturesV2 | experimental.CoreFeaturesThreads)
	}
	r := wazero.NewRuntimeWithConfig(ctx, rc)
	defer r.Close(ctx)
	var mx *uint32
	if cf.HasMax {
		mx = &cf.Max
	}
	opIdx := -1
	var am *schedMem
	allocCtx := func(mask, above uint64) context.Context {
		return experimental.WithMemoryAllocator(ctx, experimental.MemoryAllocatorFunc(func(cap, max uint64) experimental.LinearMemory {
			am = &schedMem{sliceMem: sliceMem{buf: make([]byte, 0, max)}, mask: mask, above: above, opIdx: &opIdx, log: &cs.Areq}
			cs.AllocArgs = []uint64{cap, max}
			am.poison()
			return am
		}))
	}
	ictx := ctx
	if cf.Alloc {
		ictx = allocCtx(cf.Mask, cf.Above)
	}
	bin := memModX(cf.Min, mx, cf.Shared)
	var mod api.Module
	var err error
	panicked := false
	func() {
		defer func() {
			if e := recover(); e != nil {
				err = fmt.Errorf("PANIC %v", e)
				panicked = true
			}
		}()
		mod, err = r.InstantiateWithConfig(ictx, bin, wazero.NewModuleConfig().WithName("b"))
	}()
	if panicked {
		cs.Status, cs.Err = 2, err.Error()
		cs.AfterPanic = "clean"
		if r.Module("b") != nil {
			cs.AfterPanic = "a module named b exists after the failed instantiation"
			return cs
		}
		log := cs.Areq
		m2, err2 := r.InstantiateWithConfig(allocCtx(0, 0), bin, wazero.NewModuleConfig().WithName("b"))
		cs.Areq = log
		if err2 != nil {
			cs.AfterPanic = "second instantiation fails: " + err2.Error()
		} else if p, _ := m2.Memory().Grow(0); p != cf.Min {
			cs.AfterPanic = fmt.Sprintf("second instantiation has %d pages", p)
		}
		return cs
	}
	if err != nil {
		cs.Err = err.Error()
		return cs
	}
	cs.Status = 1
	mods := []api.Module{mod, mod}
	if cf.Imported {
		im, err := r.InstantiateWithConfig(ctx, impModX(mx, cf.Shared), wazero.NewModuleConfig().WithName("imp"))
		if err != nil {
			cs.Status, cs.Err = -1, "importer: "+err.Error()
			return cs
		}
		mods[1] = im
	}
	gsize := func(m api.Module) int64 {
		res, err := m.ExportedFunction("size").Call(ctx)
		if err != nil {
			return -2
		}
		return int64(uint32(res[0]))
	}
	hpages := func(m api.Module) int64 { p, _ := m.Memory().Grow(0); return int64(p) }
	for i, op := range ops {
		opIdx = i
		entry := mods[view[i]]
		mem := entry.Memory()
		pg, _ := mod.Memory().Grow(0)
		cs.Pg = append(cs.Pg, pg)
		call := func(name string, args ...uint64) ([]uint64, error) {
			return entry.ExportedFunction(name).Call(ctx, args...)
		}
		cs.Obs = append(cs.Obs, doOp(op, mem, call))
		fresh := -1
		if pg2, _ := mem.Grow(0); pg2 > pg {
			if b, k := mem.ReadByte(pg * 65536); k {
				fresh = int(b)
			} else {
				fresh = -2
			}
		}
		cs.Fresh = append(cs.Fresh, fresh)
		if am != nil {
			cs.Committed = append(cs.Committed, am.committed)
		}
		opIdx = len(ops) + 7 // requests made by the probes below would be logged out of range (there must be none)
		v := [4]int64{gsize(mod), -1, hpages(mod), -1}
		if cf.Imported {
			v[1], v[3] = gsize(mods[1]), hpages(mods[1])
		}
		cs.Views = append(cs.Views, v)
	}
	return cs
}

// xJobs generates the extended cases. The generator simulates the allocator's schedule so that the histories stay aimed
// at the boundaries (current size, bound, the allocator's threshold) also after refused grows.
func xJobs(rng *c.Rng, n int, huge bool) (cfs []XCfg, opss [][][]any, views [][]int, hugeFlag []bool) {
	add := func(cf XCfg, ops [][]any, view []int, h bool) {
		cfs, opss, views, hugeFlag = append(cfs, cf), append(opss, ops), append(views, view), append(hugeFlag, h)
	}
	for i := 0; i < n; i++ {
		limit := uint32(rng.Pick([]uint64{3, 6, 10, 100, 1000, 65536, 65536}))
		min := uint32(rng.Pick([]uint64{0, 0, 1, 1, 2, 3}))
		cf := XCfg{Cfg: Cfg{Min: min, HasMax: rng.Intn(5) != 0, Limit: limit, CapMax: rng.Bool(), Alloc: rng.Intn(5) < 3}}
		cf.Shared = rng.Bool()
		cf.Threads = cf.Shared && rng.Intn(12) != 0 || !cf.Shared && rng.Intn(4) == 0
		cf.Imported = rng.Bool()
		if cf.Shared && rng.Intn(10) != 0 {
			cf.HasMax = true
		}
		if cf.HasMax {
			cf.Max = uint32(rng.Pick([]uint64{uint64(min), uint64(min) + 1, uint64(min) + 2, uint64(min) + 5, uint64(min) + 9, uint64(limit), uint64(limit) + 1, 300}))
			if rng.Intn(16) == 0 {
				cf.Max = uint32(rng.Pick([]uint64{uint64(min) - 1, 65537, 1<<32 - 1}))
			}
		}
		bound := uint64(cf.Limit)
		if cf.HasMax && uint64(cf.Max) < bound {
			bound = uint64(cf.Max)
		}
		if bound > 2048 && (cf.CapMax || cf.Alloc || cf.Shared) { // reserving ~4GiB is budgeted (fixed witnesses below)
			cf.Limit, bound = 1000, 1000
			if cf.HasMax && uint64(cf.Max) < bound {
				bound = uint64(cf.Max)
			}
		}
		if cf.Alloc {
			switch k := rng.Intn(10); {
			case k < 2:
			case k < 6:
				t := uint64(min)
				if bound > uint64(min) {
					t += uint64(rng.Intn(int(bound-uint64(min)) + 1))
					if rng.Intn(3) == 0 && bound-uint64(min) > 3 {
						t = uint64(min) + uint64(rng.Intn(4))
					}
				}
				if t == 0 {
					t = 1
				}
				cf.Above = t << 16
			case k < 8:
				cf.Mask = rng.U64() & rng.U64() &^ 1
			default:
				cf.Mask = 1 | rng.U64()&rng.U64()
				if cf.Shared && min == 0 { // Reallocate(0) = nil for a shared memory: outside the model (see MemInstX.xinit)
					cf.Mask &^= 1
				}
			}
		}
		refuses := func(k int, size uint64) bool {
			return (cf.Mask>>(uint(k)%64))&1 == 1 || (cf.Above != 0 && size > cf.Above)
		}
		// simulate
		pg, k := uint64(min), 0
		if cf.Alloc {
			k = 1
		}
		var ops [][]any
		var view []int
		nops := 8 + rng.Intn(16)
		for j := 0; j < nops; j++ {
			v := 0
			if cf.Imported && rng.Bool() {
				v = 1
			}
			view = append(view, v)
			ln := pg << 16
			offs := []uint64{0, 1, ln - 9, ln - 8, ln - 7, ln - 4, ln - 2, ln - 1, ln, ln + 1, ln + 8, ln + 65535, ln + 65536,
				1<<32 - 8, 1<<32 - 1, 65535, 65536, rng.U64()}
			off := uint64(uint32(rng.Pick(offs)))
			switch q := rng.Intn(16); {
			case q < 5:
				tp := cf.Above >> 16
				ds := []uint64{0, 1, 1, 1, 2, 3, bound - pg, bound - pg + 1, bound - pg - 1, tp - pg, tp - pg + 1, 65536, 1 << 31, 1<<32 - 1, 1<<32 - pg}
				d := uint64(uint32(rng.Pick(ds)))
				if d != 0 && pg+d <= bound && pg+d > 2048 { // big sizes only in the fixed witnesses below
					d = uint64(rng.Intn(3))
				}
				name := "hgrow"
				if rng.Bool() {
					name = "ggrow"
				}
				ops = append(ops, []any{name, d})
				if d != 0 && pg+d <= bound && int32(uint32(d)) >= 0 {
					if cf.Alloc {
						if !refuses(k, (pg+d)<<16) {
							pg += d
						}
						k++
					} else {
						pg += d
					}
				}
			case q == 5:
				ops = append(ops, []any{"pages"})
			case q == 6:
				ops = append(ops, []any{"gsize"})
			case q == 7:
				ops = append(ops, []any{"size"})
			case q < 10:
				ops = append(ops, []any{"read", []uint64{1, 2, 4, 8}[rng.Intn(4)], off})
			case q == 10:
				ns := []uint64{0, 1, 8, ln, ln - off, ln - off + 1, 1<<32 - 1}
				ops = append(ops, []any{"readr", off, uint64(uint32(rng.Pick(ns)))})
			case q < 13:
				ops = append(ops, []any{"write", []uint64{1, 2, 4, 8}[rng.Intn(4)], off, rng.U64() | 0x0101010101010101})
			case q == 13:
				op := []any{"writer", off}
				for j := rng.Intn(6); j >= 0; j-- {
					op = append(op, uint64(rng.Intn(255)+1))
				}
				ops = append(ops, op)
			case q == 14:
				ops = append(ops, []any{"gload", off})
			default:
				ops = append(ops, []any{"gstore", off, uint64(rng.Intn(255) + 1)})
			}
		}
		add(cf, ops, view, false)
	}
	if huge {
		// the 65536-page boundary for the new flavours
		top := uint64(1<<32 - 1)
		// accesses first, memory.size last: at 65536 pages the compiler's memory.size is 0 for every flavour (the 32-bit load of F12),
		// while guest accesses of shared and of imported memories use a 64-bit length and must work
		tail := [][]any{{"pages"}, {"size"}, {"read", uint64(1), top}, {"read", uint64(8), top - 7}, {"read", uint64(2), top},
			{"gload", top}, {"gstore", top, uint64(0x5a)}, {"read", uint64(1), top}, {"gload", top}, {"hgrow", uint64(1)}, {"ggrow", uint64(1)}, {"pages"}, {"gsize"}, {"gsize"}}
		alt := func(n int) []int {
			v := make([]int, n)
			for i := range v {
				v[i] = i % 2
			}
			return v
		}
		// (a) shared, no allocator, imported: 1 -> 65535 -> (guest, through the importer) 65536
		ops := append([][]any{{"gsize"}, {"hgrow", uint64(65534)}, {"gsize"}, {"write", uint64(8), top - 65536 - 7, uint64(0x1122334455667788)}, {"ggrow", uint64(1)}}, tail...)
		add(XCfg{Cfg: Cfg{Min: 1, HasMax: true, Max: 65536, Limit: 65536}, Shared: true, Threads: true, Imported: true}, ops, alt(len(ops)), true)
		// (b) allocator that refuses the last page (above 65535 pages), imported, unshared: stays at 65535
		opsb := append([][]any{{"hgrow", uint64(65534)}, {"gstore", top - 65536, uint64(0x77)}, {"ggrow", uint64(1)}, {"hgrow", uint64(1)}, {"gload", top - 65536}, {"read", uint64(1), top - 65535}}, tail...)
		add(XCfg{Cfg: Cfg{Min: 1, HasMax: true, Max: 65536, Limit: 65536, Alloc: true}, Imported: true, Above: 65535 << 16}, opsb, alt(len(opsb)), true)
		// (c) shared with an allocator that refuses once (request 2) and then agrees: reaches 65536 at the second attempt
		opsc := append([][]any{{"ggrow", uint64(65534)}, {"ggrow", uint64(1)}, {"gsize"}, {"hgrow", uint64(1)}}, tail...)
		add(XCfg{Cfg: Cfg{Min: 1, HasMax: true, Max: 65536, Limit: 65536, Alloc: true}, Shared: true, Threads: true, Imported: true, Mask: 4}, opsc, alt(len(opsc)), true)
		// (d) unshared, agreeing allocator, imported, up to 65536: every access at the top goes through the IMPORTER first (64-bit
		// length in compiled code); the exporter's own accesses (local unshared memory: F12) come last
		opsd := append([][]any{{"ggrow", uint64(65534)}, {"hgrow", uint64(1)}}, tail...)
		opsd = append(opsd, []any{"gload", top}, []any{"gstore", top, uint64(0x33)})
		vd := make([]int, len(opsd))
		for i := range vd {
			vd[i] = 1
		}
		vd[len(vd)-1], vd[len(vd)-2], vd[len(vd)-3] = 0, 0, 0
		add(XCfg{Cfg: Cfg{Min: 1, HasMax: true, Max: 65536, Limit: 65536, Alloc: true}, Imported: true}, opsd, vd, true)
	}
	return
}
