// C14 correspondence harness: runs boundary-dense memory configurations and grow/access histories on
// the real runtime (both engines, with and without a custom allocator) and prints one JSON case per line.
package main

import (
	"context"
	"flag"
	"fmt"
	"os"
	"runtime/debug"
	"sync"

	"github.com/tetratelabs/wazero"
	"github.com/tetratelabs/wazero/api"
	"github.com/tetratelabs/wazero/experimental"
	c "github.com/tetratelabs/wazero/internal/zz_verif/common"
)

type Cfg struct {
	Min    uint32 `json:"min"`
	HasMax bool   `json:"hasmax"`
	Max    uint32 `json:"max"`
	Limit  uint32 `json:"limit"`
	CapMax bool   `json:"capmax"`
	Alloc  bool   `json:"alloc"`
}

type Case struct {
	Cfg      Cfg      `json:"cfg"`
	Engine   string   `json:"engine"`
	Accepted bool     `json:"accepted"`
	Ops      [][]any  `json:"ops"`
	Obs      [][]any  `json:"obs"`
	Pg       []uint32 `json:"pg"` // pages (host Grow(0)) before each op
	Committed []uint64 `json:"committed,omitempty"` // custom allocator: bytes it was last asked for, after each op
	Fresh    []int    `json:"fresh,omitempty"`     // after each successful grow: first byte of the new region as the host reads it (-1: no growth)
	Err      string   `json:"err,omitempty"`
	// Front: the guest operations (grow, size, load8, store8) are called THROUGH another module, which imports them and
	// has a memory of its own (3 pages, max 6): the instruction executes in the module under test, the host entered the
	// front module. FrontPg: the front module's own size before each op and at the end (must stay 3).
	Front   bool     `json:"front"`
	FrontPg []uint32 `json:"front_pg,omitempty"`
}

func frontMod() []byte {
	m := &c.Mod{}
	six := uint32(6)
	m.Types = [][]byte{c.FT(nil, c.B(c.I32)), c.FT(c.B(c.I32), c.B(c.I32)), c.FT(c.B(c.I32, c.I32), nil)}
	m.Imports = [][]byte{c.ImportFunc("b", "size", 0), c.ImportFunc("b", "load8", 1), c.ImportFunc("b", "grow", 1), c.ImportFunc("b", "store8", 2)}
	m.Funcs = [][]byte{c.U32(0), c.U32(1), c.U32(1), c.U32(2)}
	m.Mems = [][]byte{c.MemLimits(3, &six)}
	m.Exports = [][]byte{c.Export("size", 0, 4), c.Export("load8", 0, 5), c.Export("grow", 0, 6), c.Export("store8", 0, 7), c.Export("mem", 2, 0)}
	m.Codes = [][]byte{
		c.Code(nil, c.Call(0)),
		c.Code(nil, c.LocalGet(0), c.Call(1)),
		c.Code(nil, c.LocalGet(0), c.Call(2)),
		c.Code(nil, c.LocalGet(0), c.LocalGet(1), c.Call(3)),
	}
	return m.Bytes()
}

func memMod(min uint32, max *uint32) []byte {
	m := &c.Mod{}
	m.Types = [][]byte{c.FT(nil, c.B(c.I32)), c.FT(c.B(c.I32), c.B(c.I32)), c.FT(c.B(c.I32, c.I32), nil)}
	m.Funcs = [][]byte{c.U32(0), c.U32(1), c.U32(1), c.U32(2)}
	m.Mems = [][]byte{c.MemLimits(min, max)}
	m.Exports = [][]byte{c.Export("size", 0, 0), c.Export("load8", 0, 1), c.Export("grow", 0, 2), c.Export("store8", 0, 3), c.Export("mem", 2, 0)}
	m.Codes = [][]byte{
		c.Code(nil, c.B(0x3f, 0)),
		c.Code(nil, c.LocalGet(0), c.B(0x2d, 0, 0)),
		c.Code(nil, c.LocalGet(0), c.B(0x40, 0)),
		c.Code(nil, c.LocalGet(0), c.LocalGet(1), c.B(0x3a, 0, 0)),
	}
	return m.Bytes()
}

// sliceMem reserves the maximum as spare CAPACITY of a Go slice and commits on Reallocate: the page right after the
// committed size is kept poisoned (0xcc) and newly committed bytes are zeroed by Reallocate, so a grow that re-slices
// the buffer without telling the allocator exposes poisoned pages and leaves `committed` behind the memory's size.
type sliceMem struct {
	buf       []byte
	committed uint64
}

const poisonSpan = 65536

func (s *sliceMem) poison() {
	full := s.buf[:cap(s.buf)]
	end := s.committed + poisonSpan
	if end > uint64(len(full)) {
		end = uint64(len(full))
	}
	for i := s.committed; i < end; i++ {
		full[i] = 0xcc
	}
}

func (s *sliceMem) Reallocate(size uint64) []byte {
	if size > uint64(cap(s.buf)) {
		return nil
	}
	full := s.buf[:cap(s.buf)]
	if size > s.committed { // newly committed bytes are zero (only the poisoned span can be non-zero)
		end := s.committed + poisonSpan
		if end > size {
			end = size
		}
		for i := s.committed; i < end; i++ {
			full[i] = 0
		}
	}
	s.committed = size
	s.buf = s.buf[:size]
	s.poison()
	return s.buf
}
func (s *sliceMem) Free() {}


func ok(v uint64) []any { return []any{"ok", v} }

var fail = []any{"fail"}

func guard(f func() []any) (res []any) {
	defer func() {
		if e := recover(); e != nil {
			res = []any{"panic", fmt.Sprint(e)}
		}
	}()
	return f()
}

// doOp performs one operation of a history: host operations on mem, guest operations through call.
func doOp(op []any, mem api.Memory, call func(name string, args ...uint64) ([]uint64, error)) []any {
	u := func(i int) uint64 { return op[i].(uint64) }
	var o []any
	switch op[0].(string) {
	case "ggrow":
		o = guard(func() []any {
			res, err := call("grow", u(1))
			if err != nil {
				return []any{"trap", err.Error()}
			}
			if uint32(res[0]) == 0xffffffff {
				return fail
			}
			return ok(uint64(uint32(res[0])))
		})
	case "hgrow":
		o = guard(func() []any {
			p, k := mem.Grow(uint32(u(1)))
			if !k {
				return fail
			}
			return ok(uint64(p))
		})
	case "pages":
		o = guard(func() []any { p, _ := mem.Grow(0); return ok(uint64(p)) })
	case "gsize":
		o = guard(func() []any {
			res, err := call("size")
			if err != nil {
				return []any{"trap", err.Error()}
			}
			return ok(uint64(uint32(res[0])))
		})
	case "size":
		o = guard(func() []any { return ok(uint64(mem.Size())) })
	case "read":
		n, off := u(1), uint32(u(2))
		o = guard(func() []any {
			var v uint64
			var k bool
			switch n {
			case 1:
				var b byte
				b, k = mem.ReadByte(off)
				v = uint64(b)
			case 2:
				var b uint16
				b, k = mem.ReadUint16Le(off)
				v = uint64(b)
			case 4:
				var b uint32
				b, k = mem.ReadUint32Le(off)
				v = uint64(b)
			case 8:
				v, k = mem.ReadUint64Le(off)
			}
			if !k {
				return fail
			}
			return ok(v)
		})
	case "readr":
		off, n := uint32(u(1)), uint32(u(2))
		o = guard(func() []any {
			b, k := mem.Read(off, n)
			if !k {
				return fail
			}
			if uint32(len(b)) != n {
				return []any{"badlen", len(b)}
			}
			return ok(0)
		})
	case "write":
		n, off, v := u(1), uint32(u(2)), u(3)
		o = guard(func() []any {
			var k bool
			switch n {
			case 1:
				k = mem.WriteByte(off, byte(v))
			case 2:
				k = mem.WriteUint16Le(off, uint16(v))
			case 4:
				k = mem.WriteUint32Le(off, uint32(v))
			case 8:
				k = mem.WriteUint64Le(off, v)
			}
			if !k {
				return fail
			}
			return ok(0)
		})
	case "writer":
		off := uint32(u(1))
		bs := make([]byte, len(op)-2)
		for i := range bs {
			bs[i] = byte(u(i + 2))
		}
		o = guard(func() []any {
			if !mem.Write(off, bs) {
				return fail
			}
			return ok(0)
		})
	case "gload":
		o = guard(func() []any {
			res, err := call("load8", u(1))
			if err != nil {
				return fail
			}
			return ok(uint64(uint32(res[0])))
		})
	case "gstore":
		o = guard(func() []any {
			_, err := call("store8", u(1), u(2))
			if err != nil {
				return fail
			}
			return ok(0)
		})
	}
	return o
}

func runCase(ctx context.Context, cf Cfg, engine string, ops [][]any, front bool) Case {
	cs := Case{Cfg: cf, Engine: engine, Ops: ops, Front: front}
	var rc wazero.RuntimeConfig
	if engine == "compiler" {
		rc = wazero.NewRuntimeConfigCompiler()
	} else {
		rc = wazero.NewRuntimeConfigInterpreter()
	}
	rc = rc.WithMemoryLimitPages(cf.Limit).WithMemoryCapacityFromMax(cf.CapMax)
	r := wazero.NewRuntimeWithConfig(ctx, rc)
	defer r.Close(ctx)
	var mx *uint32
	if cf.HasMax {
		mx = &cf.Max
	}
	ictx := ctx
	var am *sliceMem
	if cf.Alloc {
		ictx = experimental.WithMemoryAllocator(ctx, experimental.MemoryAllocatorFunc(func(cap, max uint64) experimental.LinearMemory {
			am = &sliceMem{buf: make([]byte, 0, max)}
			am.poison()
			return am
		}))
	}
	var mod api.Module
	var err error
	func() {
		defer func() {
			if e := recover(); e != nil {
				err = fmt.Errorf("PANIC %v", e)
			}
		}()
		mod, err = r.InstantiateWithConfig(ictx, memMod(cf.Min, mx), wazero.NewModuleConfig().WithName("b"))
	}()
	if err != nil {
		cs.Err = err.Error()
		return cs
	}
	cs.Accepted = true
	mem := mod.Memory()
	entry := mod
	var frontMem api.Memory
	if front {
		fm, err := r.InstantiateWithConfig(ctx, frontMod(), wazero.NewModuleConfig().WithName("front"))
		if err != nil {
			cs.Err = "front module: " + err.Error()
			cs.Accepted = false
			return cs
		}
		entry, frontMem = fm, fm.Memory()
	}
	call := func(name string, args ...uint64) ([]uint64, error) {
		return entry.ExportedFunction(name).Call(ctx, args...)
	}
	for _, op := range ops {
		pg, _ := mem.Grow(0)
		cs.Pg = append(cs.Pg, pg)
		if front {
			p, _ := frontMem.Grow(0)
			cs.FrontPg = append(cs.FrontPg, p)
		}
		o := doOp(op, mem, call)
		cs.Obs = append(cs.Obs, o)
		fresh := -1
		if pg2, _ := mem.Grow(0); pg2 > pg {
			if b, k := mem.ReadByte(pg * 65536); k {
				fresh = int(b)
			} else {
				fresh = -2
			}
		}
		cs.Fresh = append(cs.Fresh, fresh)
		if am != nil {
			cs.Committed = append(cs.Committed, am.committed)
		}
	}
	if front {
		p, _ := frontMem.Grow(0)
		cs.FrontPg = append(cs.FrontPg, p)
	}
	return cs
}

func main() {
	seed := flag.Uint64("seed", 1, "")
	n := flag.Int("n", 200, "")
	huge := flag.Int("huge", 6, "number of cases allowed to allocate around 4GiB")
	nx := flag.Int("nx", 120, "number of extended configurations (refusing allocator, shared, imported)")
	flag.Parse()
	rng := c.NewRng(*seed)
	out := c.NewOut()
	defer out.Flush()
	ctx := context.Background()

	mkOps := func(cf Cfg, est uint32, nops int, allowHuge bool) [][]any {
		// est: a rough running estimate of the page count used only to aim at boundaries
		var ops [][]any
		bound := cf.Limit
		if cf.HasMax && cf.Max < bound {
			bound = cf.Max
		}
		pg := uint64(est)
		for i := 0; i < nops; i++ {
			ln := pg << 16
			offs := []uint64{0, 1, ln - 9, ln - 8, ln - 7, ln - 5, ln - 4, ln - 3, ln - 2, ln - 1, ln, ln + 1, ln + 7, ln + 8,
				1<<32 - 8, 1<<32 - 5, 1<<32 - 4, 1<<32 - 2, 1<<32 - 1, 65535, 65536, rng.U64()}
			off := uint64(uint32(rng.Pick(offs)))
			switch k := rng.Intn(16); {
			case k < 3:
				ds := []uint64{0, 1, 1, 2, uint64(bound) - pg, uint64(bound) - pg + 1, uint64(bound) - pg - 1, 65535, 65536,
					1<<31 - 1, 1 << 31, 1<<32 - 1, 1<<32 - pg, 1<<32 - pg + 1}
				d := uint64(uint32(rng.Pick(ds)))
				if !allowHuge && d != 0 && pg+d <= uint64(bound) && pg+d > 2048 {
					d = uint64(rng.Intn(3)) // keep ordinary cases cheap: growing towards 4GiB is budgeted
				}
				name := "hgrow"
				if rng.Bool() {
					name = "ggrow"
				}
				ops = append(ops, []any{name, d})
				if d != 0 && pg+d <= uint64(bound) {
					pg += d
				}
			case k == 3:
				ops = append(ops, []any{"pages"})
			case k == 4:
				ops = append(ops, []any{"gsize"})
			case k == 5:
				ops = append(ops, []any{"size"})
			case k < 8:
				ops = append(ops, []any{"read", []uint64{1, 2, 4, 8}[rng.Intn(4)], off})
			case k == 8:
				ns := []uint64{0, 1, 2, 8, ln, ln - off, ln - off + 1, 1<<32 - 1, 1<<32 - off, 1<<32 - off - 1}
				ops = append(ops, []any{"readr", off, uint64(uint32(rng.Pick(ns)))})
			case k < 12:
				ops = append(ops, []any{"write", []uint64{1, 2, 4, 8}[rng.Intn(4)], off, rng.U64() | 0x0101010101010101})
			case k == 12:
				op := []any{"writer", off}
				for j := rng.Intn(6); j >= 0; j-- {
					op = append(op, uint64(rng.Intn(255)+1))
				}
				ops = append(ops, op)
			case k < 15:
				ops = append(ops, []any{"gload", off})
			default:
				ops = append(ops, []any{"gstore", off, uint64(rng.Intn(255) + 1)})
			}
		}
		return ops
	}

	type job struct {
		cf  Cfg
		eng string
		ops [][]any
		huge bool
		x    func() XCase // extended case (xcases.go)
	}
	var jobs []job
	hugeLeft := *huge
	for i := 0; i < *n; i++ {
		limits := []uint64{1, 2, 3, 10, 100, 65535, 65536, 65536, 65536}
		limit := uint32(rng.Pick(limits))
		mins := []uint64{0, 0, 1, 1, 2, 3, uint64(limit) - 1, uint64(limit), uint64(limit) + 1, 65535, 65536, 65537}
		min := uint32(rng.Pick(mins))
		maxs := []uint64{uint64(min) - 1, uint64(min), uint64(min) + 1, uint64(min) + 2, uint64(min) + 5, uint64(limit) - 1, uint64(limit),
			uint64(limit) + 1, 65535, 65536, 65537, 1<<32 - 1}
		cf := Cfg{Min: min, HasMax: rng.Intn(4) != 0, Limit: limit, CapMax: rng.Bool(), Alloc: rng.Intn(3) == 0}
		if cf.HasMax {
			cf.Max = uint32(rng.Pick(maxs))
		}
		// budget for ~4GiB allocations (min, or capacity-from-max / allocator reserving max)
		big := min >= 2048 && min <= limit
		if big {
			if hugeLeft <= 0 {
				big = false
				cf.Min = uint32(rng.Intn(4))
				if cf.HasMax && cf.Max < cf.Min {
					cf.Max = cf.Min
				}
			} else {
				hugeLeft--
			}
		}
		allowHuge := big && hugeLeft >= 0
		if !big && hugeLeft > 0 && rng.Intn(12) == 0 {
			allowHuge = true
			hugeLeft--
		}
		effMax := cf.Limit
		if cf.HasMax && cf.Max < effMax {
			effMax = cf.Max
		}
		reserve := (cf.CapMax || cf.Alloc) && effMax > 2048 // the whole maximum is reserved (and zeroed) up front
		if reserve && !big {
			if hugeLeft > 0 && rng.Intn(4) == 0 {
				hugeLeft--
			} else {
				cf.CapMax, cf.Alloc, reserve = false, false, false
			}
		}
		ops := mkOps(cf, cf.Min, 6+rng.Intn(14), allowHuge)
		for _, eng := range []string{"interp", "compiler"} {
			if big && eng == "compiler" && rng.Intn(2) == 0 {
				continue
			}
			jobs = append(jobs, job{cf: cf, eng: eng, ops: ops, huge: big || allowHuge || reserve})
		}
	}
	// fixed witnesses: 65536 pages on both engines (F12 lives here), and the 4GiB end-of-memory accesses (F13)
	if *huge > 0 {
		cf := Cfg{Min: 65536, HasMax: true, Max: 65536, Limit: 65536}
		ops := [][]any{{"pages"}, {"gsize"}, {"size"}, {"read", uint64(4), uint64(1<<32 - 4)}, {"read", uint64(8), uint64(1<<32 - 8)},
			{"read", uint64(2), uint64(1<<32 - 2)}, {"readr", uint64(1<<32 - 16), uint64(16)}, {"write", uint64(8), uint64(1<<32 - 8), uint64(0x1122334455667788)},
			{"read", uint64(1), uint64(1<<32 - 1)}, {"gload", uint64(1<<32 - 1)}, {"hgrow", uint64(1)}, {"ggrow", uint64(1)}, {"read", uint64(4), uint64(1<<32 - 3)}}
		for _, eng := range []string{"interp", "compiler"} {
			jobs = append(jobs, job{cf: cf, eng: eng, ops: ops, huge: true})
		}
	}
	nbase := len(jobs)
	{
		xrng := c.NewRng(*seed*7919 + 13)
		cfs, opss, views, hf := xJobs(xrng, *nx, *huge > 0)
		for i := range cfs {
			for _, eng := range []string{"interp", "compiler"} {
				cf, ops, view, eng := cfs[i], opss[i], views[i], eng
				jobs = append(jobs, job{eng: eng, huge: hf[i], x: func() XCase { return runXCase(ctx, cf, eng, ops, view) }})
			}
		}
	}
	res := make([]Case, len(jobs))
	xres := make([]XCase, len(jobs))
	var wg sync.WaitGroup
	for _, phase := range []bool{false, true} {
		width := 8
		if phase {
			width = 1 // cases that may touch ~4GiB run one at a time
		}
		sem := make(chan struct{}, width)
		for i := range jobs {
			if jobs[i].huge != phase {
				continue
			}
			wg.Add(1)
			sem <- struct{}{}
			go func(i int) {
				defer wg.Done()
				defer func() { <-sem }()
				if jobs[i].x != nil {
					xres[i] = jobs[i].x()
				} else {
					res[i] = runCase(ctx, jobs[i].cf, jobs[i].eng, jobs[i].ops, !jobs[i].huge && jobs[i].cf.Limit >= 6 && (i/2)%2 == 1)
				}
				if jobs[i].huge {
					debug.FreeOSMemory()
				}
			}(i)
		}
		wg.Wait()
	}
	for i := range res {
		if i < nbase {
			out.Emit(res[i])
		} else {
			out.Emit(xres[i])
		}
	}
	_ = os.Stdout
}
