package main

import (
	"fmt"

	c "github.com/tetratelabs/wazero/internal/zz_verif/common"
)

// ModSpec mirrors coq/Engine/Lifetime.v `mspec`, split by import kind.
// Record index space of a module: impf imports, then imps imports, then own constant functions.
// Holder index space: imported tables, own exported tables, own private tables, then funcref globals: own private
// (mutable) ones, own exported ones (ExpG), imported ones (ImpG).
type ModSpec struct {
	ImpF  [][2]int `json:"impf"`  // (module, record index in that module) of an imported ()->i32 function
	ImpS  [][2]int `json:"imps"`  // (module, holder index in that module): imported store function st<t>
	ImpT  [][2]int `json:"impt"`  // (module, holder index in that module): imported table
	NFun  int      `json:"nfun"`  // own constant functions
	NExp  int      `json:"nexp"`  // own exported tables
	NPriv int      `json:"npriv"` // own private tables
	NGlob int      `json:"nglob"` // own private mutable funcref globals
	Size  int      `json:"size"`
	Elems [][3]int `json:"elems"` // (holder, slot, record): active element segments / global initialisers
	// NoElem: the module has NO element section at all (Elems may then only initialise globals): ref.func is valid
	// for its functions because they are exported (imported ()->i32 functions are re-exported for that purpose)
	NoElem bool `json:"noelem,omitempty"`
	// Shared linear memory / mutable i32 global (coq/Engine/LifetimeMem.v `mmod`).
	// Mem: the module defines a memory (1 page, maximum MemMax) and exports it as "mem". ImpM = [j]: it imports the
	// memory of module j (own or itself imported) and re-exports it as "mem". Either way it exports the accessors
	// msize(), mload(addr), mstore(addr,v), mgrow(n) running its OWN code on that memory.
	// GI / ImpGI: the same for a mutable i32 global "gi" with accessors gget(), gset(v).
	// ImpA: imported accessor functions (module, kind): 0 msize, 1 mload, 2 mstore, 3 mgrow, 4 gget, 5 gset. They are
	// function imports placed after impf and imps in the record index space (never named by ref.func).
	Mem   int      `json:"mem,omitempty"`
	ImpM  []int    `json:"impm,omitempty"`
	GI    int      `json:"gi,omitempty"`
	ImpGI []int    `json:"impgi,omitempty"`
	ImpA  [][2]int `json:"impa,omitempty"`
	// Exported / imported FUNCREF globals (coq/Engine/Lifetime.v gspec / sp_impg / sp_gelems).
	// ExpG: (mutable 0/1, init) exported as "fg<e>"; init -1 = ref.null, j >= 0 = ref.func of own function j,
	// -2-q = global.get of the imported IMMUTABLE global ImpG[q].
	// ImpG: (module, index into that module's ExpG), imported with the exporter's mutability.
	// GElems: (holder, slot, q): an element item `global.get ImpG[q]` into a table, or (holder = a private global, slot 0)
	// the initialiser `global.get ImpG[q]` of that global; ImpG[q] must be immutable.
	// GOnly: generator hint - the module imports nothing but funcref globals (and env.hook).
	ExpG   [][2]int `json:"expg,omitempty"`
	ImpG   [][2]int `json:"impg,omitempty"`
	GElems [][3]int `json:"gelems,omitempty"`
	GOnly  bool     `json:"gonly,omitempty"`
}

const MemMax = 4

var accName = []string{"msize", "mload", "mstore", "mgrow", "gget", "gset"}
var accType = []uint32{tConst, tI_I, tII, tI_I, tConst, tI}

func (m *ModSpec) hasMem() bool  { return m.Mem != 0 || len(m.ImpM) > 0 }
func (m *ModSpec) hasGlob() bool { return m.GI != 0 || len(m.ImpGI) > 0 }

func (m *ModSpec) nImpRec() int { return len(m.ImpF) + len(m.ImpS) + len(m.ImpA) }
func (m *ModSpec) nRec() int    { return m.nImpRec() + m.NFun }
func (m *ModSpec) nTab() int    { return len(m.ImpT) + m.NExp + m.NPriv }
func (m *ModSpec) nHold() int   { return m.nTab() + m.NGlob + len(m.ExpG) + len(m.ImpG) }

// nOwnMut: tables and private globals (the holders an active element segment / a private initialiser may target)
func (m *ModSpec) nOwnMut() int { return m.nTab() + m.NGlob }

// gwasm: wasm global index of the global holder t (t >= nTab): imported funcref globals come first, then the imported
// i32 global, then the private and the exported funcref globals
func (m *ModSpec) gwasm(t int) uint32 {
	g := t - m.nTab()
	base := len(m.ImpG) + len(m.ImpGI)
	switch {
	case g < m.NGlob:
		return uint32(base + g)
	case g < m.NGlob+len(m.ExpG):
		return uint32(base + g)
	default:
		return uint32(g - m.NGlob - len(m.ExpG))
	}
}

// holderMut: may code of module self write holder t? (tables, private globals, mutable exported / imported globals)
func holderMut(mods []ModSpec, self, t int) bool {
	m := &mods[self]
	g := t - m.nTab()
	switch {
	case g < m.NGlob:
		return true
	case g < m.NGlob+len(m.ExpG):
		return m.ExpG[g-m.NGlob][0] != 0
	default:
		p := m.ImpG[g-m.NGlob-len(m.ExpG)]
		return mods[p[0]].ExpG[p[1]][0] != 0
	}
}

func mutHolders(mods []ModSpec, self int) []int {
	var l []int
	for t := 0; t < mods[self].nHold(); t++ {
		if holderMut(mods, self, t) {
			l = append(l, t)
		}
	}
	return l
}

func (m *ModSpec) impGHolder(q int) int { return m.nTab() + m.NGlob + len(m.ExpG) + q }
func (m *ModSpec) expGHolder(e int) int { return m.nTab() + m.NGlob + e }

// immutable imported funcref globals (indices into ImpG)
func immImpG(mods []ModSpec, self int) []int {
	var l []int
	for q, p := range mods[self].ImpG {
		if mods[p[0]].ExpG[p[1]][0] == 0 {
			l = append(l, q)
		}
	}
	return l
}

// record index -> wasm function index (import 0 is env.hook)
func widx(r int) uint32 { return uint32(r + 1) }

func constOf(mod, own int) int32 { return int32(1000*(mod+1) + own) }

const (
	tConst = iota // () -> i32
	tI_I          // (i32) -> i32
	tStore        // (i32, funcref) -> ()
	tVoid         // () -> ()
	tI            // (i32) -> ()
	tII           // (i32, i32) -> ()
)

func refFunc(i uint32) []byte  { return c.Cat(c.B(0xd2), c.U32(i)) }
func tableGet(t uint32) []byte { return c.Cat(c.B(0x25), c.U32(t)) }
func tableSet(t uint32) []byte { return c.Cat(c.B(0x26), c.U32(t)) }
func refNull() []byte          { return c.B(0xd0, c.FuncRef) }
func callInd(t uint32) []byte  { return c.Cat(c.B(0x11), c.U32(tConst), c.U32(t)) }

// Build encodes module number `self` of the case.
func Build(self int, mods []ModSpec) []byte {
	m := &mods[self]
	w := &c.Mod{}
	w.Types = [][]byte{
		c.FT(nil, c.B(c.I32)), c.FT(c.B(c.I32), c.B(c.I32)), c.FT(c.B(c.I32, c.FuncRef), nil),
		c.FT(nil, nil), c.FT(c.B(c.I32), nil), c.FT(c.B(c.I32, c.I32), nil),
	}
	w.Imports = append(w.Imports, c.ImportFunc("env", "hook", tVoid))
	for _, p := range m.ImpF {
		own := p[1] - mods[p[0]].nImpRec()
		w.Imports = append(w.Imports, c.ImportFunc(fmt.Sprintf("m%d", p[0]), fmt.Sprintf("f%d", own), tConst))
	}
	for _, p := range m.ImpS {
		w.Imports = append(w.Imports, c.ImportFunc(fmt.Sprintf("m%d", p[0]), fmt.Sprintf("st%d", p[1]), tStore))
	}
	for _, p := range m.ImpT {
		w.Imports = append(w.Imports, c.Cat(c.Name(fmt.Sprintf("m%d", p[0])), c.Name(fmt.Sprintf("tab%d", p[1])),
			c.B(1, c.FuncRef, 0), c.U32(uint32(m.Size))))
	}
	for _, p := range m.ImpA {
		w.Imports = append(w.Imports, c.ImportFunc(fmt.Sprintf("m%d", p[0]), accName[p[1]], accType[p[1]]))
	}
	mx := uint32(MemMax)
	if len(m.ImpM) > 0 {
		w.Imports = append(w.Imports, c.Cat(c.Name(fmt.Sprintf("m%d", m.ImpM[0])), c.Name("mem"), c.B(2), c.MemLimits(1, &mx)))
	}
	for _, p := range m.ImpG {
		w.Imports = append(w.Imports, c.Cat(c.Name(fmt.Sprintf("m%d", p[0])), c.Name(fmt.Sprintf("fg%d", p[1])),
			c.B(3, c.FuncRef, byte(mods[p[0]].ExpG[p[1]][0]))))
	}
	if len(m.ImpGI) > 0 {
		w.Imports = append(w.Imports, c.Cat(c.Name(fmt.Sprintf("m%d", m.ImpGI[0])), c.Name("gi"), c.B(3, c.I32, 1)))
	}
	if m.Mem != 0 {
		w.Mems = append(w.Mems, c.MemLimits(1, &mx))
	}
	if m.hasMem() {
		w.Exports = append(w.Exports, c.Export("mem", 2, 0))
	}
	// global index space: the imported funcref globals, the imported i32 global, then the own ones: private funcref,
	// exported funcref, one i32 per own function, the shared i32
	gbase := uint32(len(m.ImpG) + len(m.ImpGI))
	nfg := m.NGlob + len(m.ExpG)
	nit := len(m.ImpT)
	ntab := m.nTab()
	scratch := uint32(ntab)
	for i := 0; i < m.NExp+m.NPriv; i++ {
		w.Tables = append(w.Tables, c.Cat(c.B(c.FuncRef, 0), c.U32(uint32(m.Size))))
	}
	if m.nHold() > ntab {
		w.Tables = append(w.Tables, c.Cat(c.B(c.FuncRef, 0), c.U32(1)))
	}
	ginit := make([][]byte, m.NGlob)
	for g := range ginit {
		ginit[g] = refNull()
	}
	for _, e := range m.Elems {
		if e[0] >= ntab {
			ginit[e[0]-ntab] = refFunc(widx(e[2]))
		} else if e[0] == 0 {
			w.Elems = append(w.Elems, c.Cat(c.B(0), c.I32Const(int32(e[1])), c.B(0x0b), c.Vec(c.U32(widx(e[2])))))
		} else {
			w.Elems = append(w.Elems, c.Cat(c.B(2), c.U32(uint32(e[0])), c.I32Const(int32(e[1])), c.B(0x0b), c.B(0), c.Vec(c.U32(widx(e[2])))))
		}
	}
	// element items / private initialisers `global.get g` of imported immutable globals (after the ref.func ones: the
	// model applies them in this order)
	for _, e := range m.GElems {
		item := c.Cat(c.GlobalGet(uint32(e[2])), c.B(0x0b))
		if e[0] >= ntab {
			ginit[e[0]-ntab] = c.GlobalGet(uint32(e[2]))
		} else if e[0] == 0 {
			w.Elems = append(w.Elems, c.Cat(c.B(4), c.I32Const(int32(e[1])), c.B(0x0b), c.Vec(item)))
		} else {
			w.Elems = append(w.Elems, c.Cat(c.B(6), c.U32(uint32(e[0])), c.I32Const(int32(e[1])), c.B(0x0b), c.B(c.FuncRef), c.Vec(item)))
		}
	}
	for g := 0; g < m.NGlob; g++ {
		w.Globals = append(w.Globals, c.Cat(c.B(c.FuncRef, 1), ginit[g], c.B(0x0b)))
	}
	for e, x := range m.ExpG {
		init := refNull()
		switch {
		case x[1] >= 0:
			init = refFunc(widx(m.nImpRec() + x[1]))
		case x[1] <= -2:
			init = c.GlobalGet(uint32(-2 - x[1]))
		}
		w.Globals = append(w.Globals, c.Cat(c.B(c.FuncRef, byte(x[0])), init, c.B(0x0b)))
		w.Exports = append(w.Exports, c.Export(fmt.Sprintf("fg%d", e), 3, gbase+uint32(m.NGlob+e)))
	}
	// the value an own function returns lives in a mutable i32 global of its instance, so that the function
	// reads its module context (a call with a dangling context returns something else or faults)
	for j := 0; j < m.NFun; j++ {
		w.Globals = append(w.Globals, c.Cat(c.B(c.I32, 1), c.I32Const(constOf(self, j)), c.B(0x0b)))
	}
	giIdx := uint32(len(m.ImpG)) // the imported i32 global, if any
	if m.GI != 0 {
		giIdx = gbase + uint32(nfg+m.NFun)
		w.Globals = append(w.Globals, c.Cat(c.B(c.I32, 1), c.I32Const(0), c.B(0x0b)))
	}
	if m.hasGlob() {
		w.Exports = append(w.Exports, c.Export("gi", 3, giIdx))
	}
	// declarative segment: every function that ref.func may name
	var decl [][]byte
	for r := 0; r < m.nRec(); r++ {
		decl = append(decl, c.U32(widx(r)))
	}
	if !m.NoElem {
		w.Elems = append(w.Elems, c.Cat(c.B(3), c.B(0), c.Vec(decl...)))
	} else {
		if len(w.Elems) > 0 {
			panic("noelem module with an active element segment")
		}
		for r := range m.ImpF {
			w.Exports = append(w.Exports, c.Export(fmt.Sprintf("x%d", r), 0, widx(r)))
		}
	}
	for i := 0; i < m.NExp; i++ {
		w.Exports = append(w.Exports, c.Export(fmt.Sprintf("tab%d", nit+i), 1, uint32(nit+i)))
	}

	next := uint32(1 + m.nImpRec())
	add := func(name string, typ uint32, body ...[]byte) {
		w.Funcs = append(w.Funcs, c.U32(typ))
		w.Codes = append(w.Codes, c.Code(nil, body...))
		if name != "" {
			w.Exports = append(w.Exports, c.Export(name, 0, next))
		}
		next++
	}
	// own constant functions first: record index nImpRec()+j  <->  wasm index 1+nImpRec()+j
	for j := 0; j < m.NFun; j++ {
		add(fmt.Sprintf("f%d", j), tConst, c.GlobalGet(gbase+uint32(nfg+j)))
	}
	isRefable := func(r int) bool { return r < len(m.ImpF) || r >= m.nImpRec() }
	// push the reference held by holder t (slot = local 0 for tables)
	get := func(t int, slotLocal uint32) []byte {
		if t < ntab {
			return c.Cat(c.LocalGet(slotLocal), tableGet(uint32(t)))
		}
		return c.GlobalGet(m.gwasm(t))
	}
	// call_indirect through holder t, slot in local 0
	ind := func(t int) []byte {
		if t < ntab {
			return c.Cat(c.LocalGet(0), callInd(uint32(t)))
		}
		return c.Cat(c.I32Const(0), c.GlobalGet(m.gwasm(t)), tableSet(scratch), c.I32Const(0), callInd(scratch))
	}
	for r := 0; r < len(m.ImpF); r++ {
		add(fmt.Sprintf("ci%d", r), tConst, c.Call(widx(r)))
	}
	for t := 0; t < m.nHold(); t++ {
		add(fmt.Sprintf("ind%d", t), tI_I, ind(t))
		add(fmt.Sprintf("hki%d", t), tI_I, c.Call(0), ind(t))
		for d := 0; d < m.nHold(); d++ {
			if !holderMut(mods, self, d) {
				continue
			}
			if d < ntab {
				add(fmt.Sprintf("cp%d_%d", t, d), tII, c.LocalGet(1), get(t, 0), tableSet(uint32(d)))
			} else {
				add(fmt.Sprintf("cp%d_%d", t, d), tII, get(t, 0), c.GlobalSet(m.gwasm(d)))
			}
		}
		if t >= ntab {
			// hand the value of the global on as a parameter of an imported store function
			for q := range m.ImpS {
				add(fmt.Sprintf("gp%d_%d", t, q), tI, c.LocalGet(0), c.GlobalGet(m.gwasm(t)), c.Call(widx(len(m.ImpF)+q)))
			}
		}
		if !holderMut(mods, self, t) {
			continue // an immutable global: no instruction writes it
		}
		for r := 0; r < m.nRec(); r++ {
			if !isRefable(r) {
				continue
			}
			if t < ntab {
				add(fmt.Sprintf("set%d_%d", t, r), tI, c.LocalGet(0), refFunc(widx(r)), tableSet(uint32(t)))
			} else {
				add(fmt.Sprintf("set%d_%d", t, r), tI, refFunc(widx(r)), c.GlobalSet(m.gwasm(t)))
			}
		}
		if t < ntab {
			// the same stores through the bulk instructions: table.fill (one slot), table.grow (one new slot), table.copy
			for r := 0; r < m.nRec(); r++ {
				if isRefable(r) {
					add(fmt.Sprintf("fil%d_%d", t, r), tI, c.LocalGet(0), refFunc(widx(r)), c.I32Const(1), c.Cat(c.B(0xfc, 0x11), c.U32(uint32(t))))
					add(fmt.Sprintf("grw%d_%d", t, r), tVoid, refFunc(widx(r)), c.I32Const(1), c.Cat(c.B(0xfc, 0x0f), c.U32(uint32(t))), c.B(0x1a))
				}
			}
			for d := 0; d < ntab; d++ {
				add(fmt.Sprintf("cpc%d_%d", t, d), tII, c.LocalGet(1), c.LocalGet(0), c.I32Const(1), c.Cat(c.B(0xfc, 0x0e), c.U32(uint32(d)), c.U32(uint32(t))))
			}
			add(fmt.Sprintf("clr%d", t), tI, c.LocalGet(0), refNull(), tableSet(uint32(t)))
			add(fmt.Sprintf("st%d", t), tStore, c.LocalGet(0), c.LocalGet(1), tableSet(uint32(t)))
		} else {
			add(fmt.Sprintf("clr%d", t), tI, refNull(), c.GlobalSet(m.gwasm(t)))
			add(fmt.Sprintf("st%d", t), tStore, c.LocalGet(1), c.GlobalSet(m.gwasm(t)))
		}
	}
	for r := 0; r < m.nRec(); r++ {
		if !isRefable(r) {
			continue
		}
		add(fmt.Sprintf("hkr%d", r), tConst, c.Call(0), c.Call(widx(r)))
		for q := range m.ImpS {
			add(fmt.Sprintf("pass%d_%d", r, q), tI, c.LocalGet(0), refFunc(widx(r)), c.Call(widx(len(m.ImpF)+q)))
		}
	}
	// ---- shared memory / global accessors: the module's OWN code on its (own or imported) memory / global ----
	load := c.Cat(c.B(0x28), c.MemArg(2, 0))
	store := c.Cat(c.B(0x36), c.MemArg(2, 0))
	msize := c.B(0x3f, 0)
	mgrow := c.B(0x40, 0)
	if m.hasMem() {
		add("msize", tConst, msize)
		add("mload", tI_I, c.LocalGet(0), load)
		add("mstore", tII, c.LocalGet(0), c.LocalGet(1), store)
		add("mgrow", tI_I, c.LocalGet(0), mgrow)
		// the same after a host callback (a call in progress while things are closed, grown and collected)
		add("hkm0", tConst, c.Call(0), msize)
		add("hkm1", tI_I, c.Call(0), c.LocalGet(0), load)
		add("hkm2", tII, c.Call(0), c.LocalGet(0), c.LocalGet(1), store)
		add("hkm3", tI_I, c.Call(0), c.LocalGet(0), mgrow)
		// hkm6(n): callback; memory.grow n; store 4747 into the last word but one of the memory; memory.size
		add("hkm6", tI_I, c.Call(0), c.LocalGet(0), mgrow, c.B(0x1a),
			msize, c.I32Const(16), c.B(0x74), c.I32Const(8), c.B(0x6b), c.I32Const(4747), store, msize)
	}
	if m.hasGlob() {
		add("gget", tConst, c.GlobalGet(giIdx))
		add("gset", tI, c.LocalGet(0), c.GlobalSet(giIdx))
		add("hkm4", tConst, c.Call(0), c.GlobalGet(giIdx))
		add("hkm5", tI, c.Call(0), c.LocalGet(0), c.GlobalSet(giIdx))
	}
	// wrappers of the imported accessors: va<q> calls the import, hkva<q> after a host callback
	for q, p := range m.ImpA {
		fi := widx(len(m.ImpF) + len(m.ImpS) + q)
		var args []byte
		switch accType[p[1]] {
		case tI_I, tI:
			args = c.LocalGet(0)
		case tII:
			args = c.Cat(c.LocalGet(0), c.LocalGet(1))
		}
		add(fmt.Sprintf("va%d", q), accType[p[1]], args, c.Call(fi))
		add(fmt.Sprintf("hkva%d", q), accType[p[1]], c.Call(0), args, c.Call(fi))
	}
	return w.Bytes()
}
