package main

import (
	c "github.com/tetratelabs/wazero/internal/zz_verif/common"
)

// Witness is the canonical F08 history: P passes ref.func of its own function to B's PRIVATE table through a
// parameter, then P and its compiled module are closed, dropped and collected; B's call_indirect uses the record.
func Witness(id int, cached, nochurn bool) History {
	return History{ID: id, Cached: cached, Cut: -1, Witness: "F08", NoChurn: nochurn,
		Mods: []ModSpec{
			{NFun: 1, NPriv: 1, Size: 4},
			{ImpS: [][2]int{{0, 0}}, NFun: 1, Size: 4},
		},
		Ops: []Op{{"compile", []int{0}}, {"inst", []int{0}}, {"compile", []int{1}}, {"inst", []int{1}},
			{"pass", []int{1, 1, 0, 0}}, {"ind", []int{0, 0, 0}},
			{"closemod", []int{1}}, {"closecm", []int{1}}, {"dropmod", []int{1}}, {"dropcm", []int{1}}, {"gc", nil},
			{"ind", []int{0, 0, 0}}}}
}

func genMods(r *c.Rng) []ModSpec {
	n := 2 + r.Intn(3)
	mods := make([]ModSpec, n)
	// module 0: exporter of functions and a table
	mods[0] = ModSpec{NFun: 2, NExp: 1, NPriv: r.Intn(2), NGlob: r.Intn(2), Size: 4}
	// exported funcref globals: immutable (initialised with ref.func of an own function, rarely ref.null or the value of
	// an imported immutable global) and mutable (ref.null or ref.func)
	genExpG := func(i int, m *ModSpec, p int) {
		if r.Intn(p) == 0 {
			return
		}
		for k := 1 + r.Intn(2); k > 0; k-- {
			if r.Intn(3) == 0 {
				init := -1
				if r.Intn(2) == 0 {
					init = r.Intn(m.NFun)
				}
				m.ExpG = append(m.ExpG, [2]int{1, init})
				continue
			}
			init := r.Intn(m.NFun)
			switch x := r.Intn(10); {
			case x == 0:
				init = -1
			case x < 3:
				// the value of an imported immutable global, re-exported (a chain of exporters)
				var imm []int
				for q, p := range m.ImpG {
					if mods[p[0]].ExpG[p[1]][0] == 0 {
						imm = append(imm, q)
					}
				}
				if len(imm) > 0 {
					init = -2 - imm[r.Intn(len(imm))]
				}
			}
			m.ExpG = append(m.ExpG, [2]int{0, init})
		}
	}
	genExpG(0, &mods[0], 3)
	for i := 1; i < n; i++ {
		m := ModSpec{NFun: 1 + r.Intn(2), NPriv: r.Intn(2), NGlob: r.Intn(2), Size: 4}
		// imported funcref globals of earlier modules
		var gc [][2]int
		for j := 0; j < i; j++ {
			for e := range mods[j].ExpG {
				gc = append(gc, [2]int{j, e})
			}
		}
		if len(gc) > 0 && r.Intn(3) != 0 {
			for k := 1 + r.Intn(2); k > 0; k-- {
				m.ImpG = append(m.ImpG, gc[r.Intn(len(gc))])
			}
			// sometimes the globals are ALL the module imports: nothing else ties it to their exporters
			m.GOnly = r.Intn(5) < 2
		}
		if r.Intn(4) == 0 {
			m.NExp = 1
		}
		for k := r.Intn(3); k > 0 && !m.GOnly; k-- {
			j := r.Intn(i)
			m.ImpF = append(m.ImpF, [2]int{j, mods[j].nImpRec() + r.Intn(mods[j].NFun)})
		}
		if m.GOnly {
			genExpG(i, &m, 2)
			if m.nTab() == 0 {
				m.NPriv = 1
			}
			mods[i] = m
			continue
		}
		if r.Intn(3) != 0 {
			// import an exported table of an earlier module
			var cands [][2]int
			for j := 0; j < i; j++ {
				for t := 0; t < mods[j].NExp; t++ {
					cands = append(cands, [2]int{j, len(mods[j].ImpT) + t})
				}
			}
			if len(cands) > 0 {
				m.ImpT = append(m.ImpT, cands[r.Intn(len(cands))])
			}
		}
		if r.Intn(2) == 0 {
			j := r.Intn(i)
			if mh := mutHolders(mods, j); len(mh) > 0 {
				m.ImpS = append(m.ImpS, [2]int{j, mh[r.Intn(len(mh))]})
			}
		}
		if m.nOwnMut() == 0 {
			m.NPriv = 1
		}
		genExpG(i, &m, 2)
		mods[i] = m
	}
	genMem(r, mods)
	for i := range mods {
		m := &mods[i]
		for k := r.Intn(3); k > 0 && m.nOwnMut() > 0; k-- {
			rec := pickRec(r, m)
			m.Elems = append(m.Elems, [3]int{r.Intn(m.nOwnMut()), r.Intn(m.Size), rec})
		}
		// element items / private initialisers `global.get g` of imported immutable globals
		if imm := immImpG(mods, i); len(imm) > 0 && m.nOwnMut() > 0 && r.Intn(3) != 0 {
			for k := 1 + r.Intn(2); k > 0; k-- {
				t := r.Intn(m.nOwnMut())
				sl := r.Intn(m.Size)
				if t >= m.nTab() {
					sl = 0
				}
				m.GElems = append(m.GElems, [3]int{t, sl, imm[r.Intn(len(imm))]})
			}
		}
		// a global initialiser is a single value: keep one entry per global, slot 0
		seen := map[int]bool{}
		var el [][3]int
		for _, e := range m.Elems {
			if e[0] >= m.nTab() {
				if seen[e[0]] {
					continue
				}
				seen[e[0]] = true
				e[1] = 0
			}
			el = append(el, e)
		}
		m.Elems = el
		// every other module has no element section at all: its table elements are dropped, global initialisers stay
		if r.Intn(2) == 0 {
			m.NoElem = true
			var gl [][3]int
			for _, e := range m.Elems {
				if e[0] >= m.nTab() {
					gl = append(gl, e)
				}
			}
			m.Elems = gl
			var gg [][3]int
			for _, e := range m.GElems {
				if e[0] >= m.nTab() {
					gg = append(gg, e)
				}
			}
			m.GElems = gg
		}
	}
	return mods
}

// genMem adds shared memories and shared mutable i32 globals to two of three module graphs: an early module defines
// and exports them, later modules import the memory / the global and/or accessor functions of earlier modules.
// Runs after the function imports were chosen (ImpF entries name own functions of earlier modules by record index:
// accessor imports shift those, so they are re-based here).
func genMem(r *c.Rng, mods []ModSpec) {
	if r.Intn(3) == 0 {
		return
	}
	n := len(mods)
	old := make([]int, n)
	for i := range mods {
		old[i] = mods[i].nImpRec()
	}
	def := r.Intn(n - 1)
	mods[def].Mem = 1
	if r.Intn(2) == 0 {
		mods[def].GI = 1
	}
	if n > 2 && r.Intn(3) == 0 { // a second, independent memory
		d2 := r.Intn(n - 1)
		if d2 != def {
			mods[d2].Mem = 1
		}
	}
	linked := false
	for i := 1; i < n; i++ {
		m := &mods[i]
		if m.GOnly {
			continue
		}
		var memSrc, globSrc []int
		for j := 0; j < i; j++ {
			if mods[j].hasMem() {
				memSrc = append(memSrc, j)
			}
			if mods[j].hasGlob() {
				globSrc = append(globSrc, j)
			}
		}
		force := !linked && i == n-1
		if m.Mem == 0 && len(memSrc) > 0 && (force || r.Intn(2) == 0) {
			m.ImpM = []int{memSrc[r.Intn(len(memSrc))]}
		}
		if m.GI == 0 && len(globSrc) > 0 && r.Intn(2) == 0 {
			m.ImpGI = []int{globSrc[r.Intn(len(globSrc))]}
		}
		if len(memSrc) > 0 && (force || r.Intn(3) != 0) {
			j := memSrc[r.Intn(len(memSrc))]
			if len(m.ImpM) > 0 && r.Intn(3) != 0 {
				j = m.ImpM[0] // accessors of the module the memory came from: two paths to the same memory
			}
			m.ImpA = append(m.ImpA, [2]int{j, 0}, [2]int{j, 1})
			for k := r.Intn(3); k > 0; k-- {
				m.ImpA = append(m.ImpA, [2]int{memSrc[r.Intn(len(memSrc))], r.Intn(4)})
			}
			linked = true
		}
		if len(globSrc) > 0 && r.Intn(2) == 0 {
			j := globSrc[r.Intn(len(globSrc))]
			m.ImpA = append(m.ImpA, [2]int{j, 4 + r.Intn(2)})
		}
	}
	// re-base the record indices that name own functions of a module whose import count changed
	for i := range mods {
		for k := range mods[i].ImpF {
			j := mods[i].ImpF[k][0]
			mods[i].ImpF[k][1] += mods[j].nImpRec() - old[j]
		}
	}
}

var memAddrs = []int{8, 16, 65528, 65533, 65536 + 8, 2*65536 - 8, 2*65536 + 8, 3*65536 - 8, 3*65536 + 8, 4*65536 - 8, 4 * 65536}

// a record that ref.func may name: an imported ()->i32 function or an own constant function
func pickRec(r *c.Rng, m *ModSpec) int {
	k := r.Intn(len(m.ImpF) + m.NFun)
	if k < len(m.ImpF) {
		return k
	}
	return m.nImpRec() + k - len(m.ImpF)
}

func generate(seed uint64, n int) {
	r := c.NewRng(seed)
	out := c.NewOut()
	defer out.Flush()
	for id := 0; id < n; id++ {
		mods := genMods(r)
		nm := len(mods)
		h := History{ID: id, Cached: r.Intn(3) != 0, Mods: mods, Cut: -1}
		up := make([]bool, nm) // instantiated, handle held, believed open
		compiled := make([]bool, nm)
		rtOpen := true
		grown := map[[2]int]int{}
		engOpen := true // compiling after the engine was closed is not exercised (see notes in checks/c09.py)
		add := func(k string, a ...int) { h.Ops = append(h.Ops, Op{k, a}) }
		anyMod := func() int {
			var l []int
			for i, u := range up {
				if u {
					l = append(l, i)
				}
			}
			if len(l) == 0 || r.Intn(10) == 0 {
				return r.Intn(nm)
			}
			return l[r.Intn(len(l))]
		}
		slot := func() int {
			switch r.Intn(14) {
			case 0:
				return 5
			case 1:
				return 4 // exists only after a table.grow
			}
			return r.Intn(4)
		}
		xcID := 0
		// xc: n more unrelated modules are compiled, instantiated and closed on the same engine
		xc := func(n int) {
			if rtOpen && engOpen {
				add("xc", n, xcID)
				xcID += n
			}
		}
		mutOf := func(m int) (int, bool) {
			mh := mutHolders(mods, m)
			if len(mh) == 0 {
				return 0, false
			}
			return mh[r.Intn(len(mh))], true
		}
		// storeRef: ref.func f of module m into its holder t, through table.set/global.set, table.fill or table.grow
		storeRef := func(m, t, k, f int) (slotUsed int) {
			if t < mods[m].nTab() {
				switch r.Intn(6) {
				case 0:
					add("fil", m, t, k, f)
					return k
				case 1:
					if grown[[2]int{m, t}] < 2 { // keep tables small
						grown[[2]int{m, t}]++
						add("grw", m, t, f)
						return -1
					}
				}
			}
			add("set", m, t, k, f)
			return k
		}
		// memory / global operations
		var memMods []int // modules with some path to a shared memory or global
		for i := range mods {
			if mods[i].hasMem() || mods[i].hasGlob() || len(mods[i].ImpA) > 0 {
				memMods = append(memMods, i)
			}
		}
		memArgs := func(kind int) (int, int) {
			switch kind {
			case 1:
				return memAddrs[r.Intn(len(memAddrs))], 0
			case 2:
				return memAddrs[r.Intn(len(memAddrs))], 1 + r.Intn(1<<20)
			case 3, 6:
				return []int{1, 1, 1, 0, 2, 5}[r.Intn(6)], 0
			case 5:
				return 1 + r.Intn(1<<20), 0
			}
			return 0, 0
		}
		// pickPath: own code (-1) or an imported accessor of module m, with the accessor kind
		pickPath := func(m int) (p, kind int, ok bool) {
			ms := &mods[m]
			var ps [][2]int
			if ms.hasMem() {
				ps = append(ps, [2]int{-1, 0}, [2]int{-1, 1}, [2]int{-1, 1}, [2]int{-1, 2}, [2]int{-1, 2}, [2]int{-1, 3})
			}
			if ms.hasGlob() {
				ps = append(ps, [2]int{-1, 4}, [2]int{-1, 5})
			}
			for q, a := range ms.ImpA {
				ps = append(ps, [2]int{q, a[1]}, [2]int{q, a[1]})
			}
			if len(ps) == 0 {
				return 0, 0, false
			}
			x := ps[r.Intn(len(ps))]
			return x[0], x[1], true
		}
		memUse := func(m int) {
			ms := &mods[m]
			if ms.hasMem() && r.Intn(5) == 0 {
				kind := r.Intn(4)
				a1, a2 := memArgs(kind)
				add("mh", m, kind, a1, a2)
				return
			}
			if p, kind, ok := pickPath(m); ok {
				a1, a2 := memArgs(kind)
				add("mu", m, p, kind, a1, a2)
			}
		}
		// use: an operation that calls into / mutates an instance
		use := func() {
			if len(memMods) > 0 && r.Intn(3) == 0 {
				m := memMods[r.Intn(len(memMods))]
				if r.Intn(4) != 0 {
					// prefer an instance believed open
					for try := 0; try < 4 && !up[m]; try++ {
						m = memMods[r.Intn(len(memMods))]
					}
				}
				memUse(m)
				return
			}
			m := anyMod()
			ms := &mods[m]
			switch k := r.Intn(10); {
			case k < 2:
				add("call", m, pickRec(r, ms))
			case k < 5:
				if ms.nHold() > 0 {
					add("ind", m, r.Intn(ms.nHold()), slot())
				}
			case k < 7:
				if t, ok := mutOf(m); ok {
					storeRef(m, t, slot(), pickRec(r, ms))
				}
			case k < 8:
				if td, ok := mutOf(m); ok {
					ts := r.Intn(ms.nHold())
					if ng := ms.nHold() - ms.nTab(); ng > 0 && r.Intn(3) == 0 {
						ts = ms.nTab() + r.Intn(ng) // read a global
					}
					if ts < ms.nTab() && td < ms.nTab() && r.Intn(2) == 0 {
						add("cpc", m, ts, slot(), td, slot())
					} else {
						add("cp", m, ts, slot(), td, slot())
					}
				}
			case k < 9:
				if ng := ms.nHold() - ms.nTab(); len(ms.ImpS) > 0 && ng > 0 && r.Intn(2) == 0 {
					// the value of a global handed on as a parameter
					add("gp", m, ms.nTab()+r.Intn(ng), r.Intn(len(ms.ImpS)), slot())
				} else if len(ms.ImpS) > 0 {
					add("pass", m, pickRec(r, ms), r.Intn(len(ms.ImpS)), slot())
				} else if t, ok := mutOf(m); ok {
					add("clr", m, t, slot())
				}
			default:
				if ms.nHold() > 0 {
					add("ind", m, r.Intn(ms.nHold()), slot())
				}
			}
		}
		closing := func() {
			switch k := r.Intn(20); {
			case k < 7:
				m := anyMod()
				add("closemod", m)
				up[m] = false
				if r.Intn(2) == 0 {
					add("dropmod", m)
				}
			case k < 12:
				m := r.Intn(nm)
				add("closecm", m)
				compiled[m] = false
				if r.Intn(2) == 0 {
					add("dropcm", m)
				}
			case k < 14:
				add("closecache")
				if h.Cached {
					engOpen = false
				}
			case k < 15:
				add("closert")
				rtOpen = false
				for i := range up {
					up[i] = false
				}
			case k < 17:
				m := r.Intn(nm)
				add("dropmod", m)
				up[m] = false
			case k < 18:
				m := r.Intn(nm)
				add("dropcm", m)
			case k < 19:
				add("dropcache")
			default:
				if r.Intn(3) == 0 {
					add("droprt")
					rtOpen = false
				}
			}
			if r.Intn(3) != 0 {
				add("gc")
			}
		}
		// set-up: compile and instantiate in import order, with a few uses in between
		for m := 0; m < nm; m++ {
			add("compile", m)
			compiled[m] = true
			add("inst", m)
			up[m] = true
			if r.Intn(2) == 0 {
				use()
			}
		}
		for k := 1 + r.Intn(3); k > 0; k-- {
			use()
		}
		// scenarios aimed at one keep-alive mechanism each; whether the final use is safe is decided by the model
		closeAll := func(m int) {
			add("closemod", m)
			up[m] = false
			if r.Intn(4) != 0 {
				add("closecm", m)
				compiled[m] = false
			}
			if r.Intn(5) != 0 {
				add("dropmod", m)
			}
			if r.Intn(4) != 0 {
				add("dropcm", m)
			}
			add("gc")
		}
		// sharedStore: importer m stores ref.func of its OWN function into slot k of the q-th table it imported (by one
		// of several instruction shapes), the exporter calls it, m is closed/dropped/collected, the exporter calls again
		sharedStore := func(m, q, k, variant int) {
			ms := &mods[m]
			src := ms.ImpT[q]
			f := ms.nImpRec() + r.Intn(ms.NFun)
			priv := -1
			if ms.NPriv > 0 {
				priv = len(ms.ImpT) + ms.NExp
			}
			passq := -1
			for i, p := range ms.ImpS {
				if p == src {
					passq = i
				}
			}
			switch {
			case variant == 1:
				add("fil", m, q, k, f)
			case variant == 2 && priv >= 0: // through a private table and table.copy
				add("set", m, priv, k, f)
				add("cpc", m, priv, k, q, k)
			case variant == 3 && passq >= 0: // through the exporter's own setter, the reference travelling as a parameter
				add("pass", m, f, passq, k)
			case variant == 4 && grown[[2]int{src[0], src[1]}] < 2:
				grown[[2]int{src[0], src[1]}]++
				add("grw", m, q, f)
				k = 4
			default:
				add("set", m, q, k, f)
			}
			add("ind", src[0], src[1], k)
			closeAll(m)
			add("ind", src[0], src[1], k)
			add("ind", src[0], src[1], k)
		}
		// memScenario: the definer of a shared memory is closed (and possibly its compiled module; dropped; collected)
		// while an importer lives; THEN the memory is grown; THEN the importer uses it through the closed definer's
		// functions. Variants: who grows (importer's own code, an imported grow accessor = the closed definer's code,
		// the host), before or after the handles are dropped and collected, with a call of the importer or of the
		// definer itself in progress.
		root := func(m int) int {
			for mods[m].Mem == 0 && len(mods[m].ImpM) > 0 {
				m = mods[m].ImpM[0]
			}
			return m
		}
		memScenario := func() {
			var cands [][2]int
			for b := range mods {
				for q, a := range mods[b].ImpA {
					if a[1] < 4 {
						cands = append(cands, [2]int{b, q})
					}
				}
			}
			if len(cands) == 0 {
				return
			}
			bq := cands[r.Intn(len(cands))]
			b := bq[0]
			a := mods[b].ImpA[bq[1]][0]
			acc := func(kind int) int {
				for q, x := range mods[b].ImpA {
					if x[0] == a && x[1] == kind {
						return q
					}
				}
				return -1
			}
			same := mods[b].hasMem() && root(b) == root(a)
			qs, ql := acc(0), acc(1)
			addr := []int{8, 16, 65528}[r.Intn(3)]
			wr := func(ad int) {
				v := 1 + r.Intn(1<<20)
				switch {
				case same:
					add("mu", b, -1, 2, ad, v)
				case acc(2) >= 0:
					add("mu", b, acc(2), 2, ad, v)
				default:
					add("mh", a, 2, ad, v)
				}
			}
			grow := func() {
				switch {
				case same && r.Intn(3) == 0:
					add("mh", b, 3, 1, 0)
				case same && r.Intn(2) == 0:
					add("mu", b, -1, 3, 1, 0)
				case acc(3) >= 0:
					add("mu", b, acc(3), 3, 1, 0)
				case same:
					add("mu", b, -1, 3, 1, 0)
				default:
					add("mh", a, 3, 1, 0)
				}
			}
			observe := func() {
				if qs >= 0 {
					add("mu", b, qs, 0, 0, 0)
				}
				wr(addr)
				if ql >= 0 {
					add("mu", b, ql, 1, addr, 0)
				}
				wr(65536 + 8)
				if ql >= 0 {
					add("mu", b, ql, 1, 65536+8, 0)
				}
			}
			wr(addr)
			if ql >= 0 {
				add("mu", b, ql, 1, addr, 0)
			}
			variant := r.Intn(5)
			switch variant {
			case 3: // a call of the importer is in progress: close and grow inside, continue into the definer's code
				add("enter", b)
				add("closemod", a)
				up[a] = false
				grow()
				if r.Intn(2) == 0 {
					add("gc")
				}
				q := ql
				if q < 0 {
					q = bq[1]
				}
				k := mods[b].ImpA[q][1]
				a1, a2 := memArgs(k)
				if k == 1 {
					a1 = 65536 + 8
				}
				add("leavem", b, q, k, a1, a2)
			case 4: // a call of the definer itself is in progress: it is closed, then grows and touches the new page
				add("enter", a)
				add("closemod", a)
				up[a] = false
				if r.Intn(2) == 0 {
					add("gc")
				}
				add("leavem", a, -1, 6, 1, 0)
			default:
				add("closemod", a)
				up[a] = false
				if r.Intn(2) == 0 {
					add("closecm", a)
					compiled[a] = false
				}
				if variant == 0 {
					grow() // before the handles go
				}
				if r.Intn(4) != 0 {
					add("dropmod", a)
				}
				if r.Intn(2) == 0 {
					add("dropcm", a)
				}
				add("gc")
				if variant != 0 {
					grow()
					if r.Intn(2) == 0 {
						add("gc")
					}
				}
			}
			observe()
			if r.Intn(2) == 0 {
				grow()
				observe()
			}
		}
		if r.Intn(4) != 0 {
			memScenario()
		}
		// globalScenario: an imported funcref global outlives its exporter. The importer reads it (call_indirect through
		// it), stores the value on (own table / own mutable global / another instance's holder by parameter); the exporter
		// and its compiled module are closed and dropped; more modules are compiled on the engine; collect; the importer
		// uses the global and the copies.
		globalScenario := func() bool {
			var ps [][2]int
			for m := range mods {
				for q := range mods[m].ImpG {
					ps = append(ps, [2]int{m, q})
					if mods[m].GOnly {
						ps = append(ps, [2]int{m, q}, [2]int{m, q})
					}
				}
			}
			if len(ps) == 0 {
				return false
			}
			pq := ps[r.Intn(len(ps))]
			m, q := pq[0], pq[1]
			ms := &mods[m]
			tg := ms.impGHolder(q)
			exp := ms.ImpG[q][0]
			add("ind", m, tg, 0)
			var copies [][2]int
			if td, ok := mutOf(m); ok && td != tg && r.Intn(4) != 0 {
				k := r.Intn(4)
				if td >= ms.nTab() {
					k = 0
				}
				add("cp", m, tg, 0, td, k)
				copies = append(copies, [2]int{td, k})
			}
			if len(ms.ImpS) > 0 && r.Intn(2) == 0 {
				add("gp", m, tg, r.Intn(len(ms.ImpS)), r.Intn(4))
			}
			for _, e := range ms.GElems {
				if e[2] == q {
					copies = append(copies, [2]int{e[0], e[1]})
				}
			}
			// the chain of exporters behind a re-exported value goes as well, now and then
			closeAll(exp)
			if x := mods[exp].ExpG[ms.ImpG[q][1]]; x[1] <= -2 && r.Intn(2) == 0 {
				closeAll(mods[exp].ImpG[-2-x[1]][0])
			}
			if r.Intn(4) != 0 {
				xc(1 + r.Intn(3))
				add("gc")
			}
			add("ind", m, tg, 0)
			for _, c := range copies {
				add("ind", m, c[0], c[1])
			}
			if r.Intn(2) == 0 {
				add("gc")
				add("ind", m, tg, 0)
			}
			return true
		}
		if r.Intn(3) != 0 {
			globalScenario()
		}
		for sc := 1 + r.Intn(2); sc > 0; sc-- {
			switch r.Intn(4) {
			case 0: // F08 pattern around a store-by-parameter import
				var ps []int
				for m := range mods {
					if len(mods[m].ImpS) > 0 {
						ps = append(ps, m)
					}
				}
				if len(ps) > 0 {
					m := ps[r.Intn(len(ps))]
					q := r.Intn(len(mods[m].ImpS))
					tgt := mods[m].ImpS[q]
					k := r.Intn(4)
					add("pass", m, pickRec(r, &mods[m]), q, k)
					if r.Intn(2) == 0 {
						add("ind", tgt[0], tgt[1], k)
					}
					closeAll(m)
					if r.Intn(3) == 0 {
						use()
					}
					add("ind", tgt[0], tgt[1], k)
				}
			case 1: // an imported function outlives its closed, collected definer
				// prefer definers that no shared table pins (then only the importer's module engine keeps them alive)
				pinned := map[int]bool{}
				for m := range mods {
					for _, t := range mods[m].ImpT {
						pinned[t[0]] = true
					}
				}
				var ps, best [][2]int
				for m := range mods {
					for q, f := range mods[m].ImpF {
						ps = append(ps, [2]int{m, q})
						if !pinned[f[0]] {
							best = append(best, [2]int{m, q})
						}
					}
				}
				if len(best) > 0 && r.Intn(4) != 0 {
					ps = best
				}
				if len(ps) > 0 {
					pq := ps[r.Intn(len(ps))]
					m, q := pq[0], pq[1]
					add("call", m, q)
					closeAll(mods[m].ImpF[q][0])
					add("call", m, q)
					if t, ok := mutOf(m); ok {
						k := r.Intn(4)
						add("set", m, t, k, q)
						add("ind", m, t, k)
					}
				}
			case 2: // a function put into a shared table outlives its closed, collected instance
				var ps []int
				for m := range mods {
					if len(mods[m].ImpT) > 0 {
						ps = append(ps, m)
					}
				}
				if len(ps) > 0 {
					m := ps[r.Intn(len(ps))]
					sharedStore(m, r.Intn(len(mods[m].ImpT)), r.Intn(4), r.Intn(5))
				}
			default: // a compiled module is closed and dropped while its instance lives on
				m := r.Intn(nm)
				add("closecm", m)
				compiled[m] = false
				add("dropcm", m)
				add("gc")
				add("call", m, mods[m].nImpRec()+r.Intn(mods[m].NFun))
				if mods[m].nHold() > 0 {
					add("ind", m, r.Intn(mods[m].nHold()), r.Intn(4))
				}
			}
		}
		steps := 4 + r.Intn(6)
		for k := 0; k < steps; k++ {
			switch x := r.Intn(10); {
			case x < 4:
				closing()
			case x < 5 && rtOpen:
				// a call in flight while things are closed and collected
				m := anyMod()
				ms := &mods[m]
				add("enter", m)
				for q := 1 + r.Intn(3); q > 0; q-- {
					if r.Intn(3) == 0 {
						use()
					} else {
						closing()
					}
				}
				if p, kind, ok := pickPath(m); ok && r.Intn(2) == 0 {
					if p < 0 && kind == 3 && r.Intn(2) == 0 {
						kind = 6 // grow, touch the new page, size
					}
					a1, a2 := memArgs(kind)
					add("leavem", m, p, kind, a1, a2)
				} else if ms.nHold() > 0 && r.Intn(2) == 0 {
					add("leavei", m, r.Intn(ms.nHold()), slot())
				} else {
					add("leaver", m, pickRec(r, ms))
				}
			case x < 6 && rtOpen:
				if r.Intn(3) == 0 {
					xc(1 + r.Intn(4))
					break
				}
				m := r.Intn(nm)
				if !compiled[m] && engOpen && r.Intn(2) == 0 {
					add("compile", m)
					compiled[m] = true
				}
				add("inst", m)
			default:
				use()
			}
		}
		add("gc")
		for k := 2 + r.Intn(3); k > 0; k-- {
			use()
		}
		out.Emit(h)
	}
	for i, h := range FixedShared(n + 10) {
		_ = i
		out.Emit(h)
	}
	for _, h := range FixedGlobals(n + 40) {
		out.Emit(h)
	}
	for _, h := range FixedMem(n + 20) {
		out.Emit(h)
	}
	out.Emit(Witness(n, true, false))
	out.Emit(Witness(n+1, false, false))
	out.Emit(Witness(n+2, true, true))
	for i, h := range FixedGlobals(n + 60)[:2] {
		// the first two fixed histories once more, uncut on every engine: on the interpreter GlobalInstance.Me is nil
		h.Witness, h.NoChurn = "GIMM", i == 1
		out.Emit(h)
	}
	out.Emit(History{ID: n + 3, Cached: true, Cut: -1, Witness: "F08b", Probe: "global"})
	out.Emit(History{ID: n + 4, Cached: true, Cut: -1, Witness: "F08b", Probe: "global", NoChurn: true})
	out.Emit(History{ID: n + 5, Cached: false, Cut: -1, Witness: "MEMFREE", Probe: "alloc-importer", NoChurn: true})
	out.Emit(History{ID: n + 6, Cached: true, Cut: -1, Witness: "MEMFREE", Probe: "alloc-definer", NoChurn: true})
	out.Emit(History{ID: n + 7, Cached: false, Cut: -1, Witness: "MEMFREE", Probe: "alloc-ctxclose", NoChurn: true})
	out.Emit(History{ID: n + 8, Cached: false, Cut: -1, Witness: "MEMFREE", Probe: "alloc-dupfail", NoChurn: true})
	out.Emit(History{ID: n + 9, Cached: true, Cut: -1, Witness: "MEMFREE", Probe: "alloc-dupfail-live", NoChurn: true})
}

// FixedGlobals: the importer M of a funcref global imports NOTHING else from the exporter A. M reads the global
// (call_indirect through it), copies it into its table (table.set (global.get g)), an element item `global.get g` fills
// another slot at instantiation, a private mutable global is initialised with `global.get g`. A and its compiled module
// are closed, every handle dropped, ONE MORE unrelated module is compiled and instantiated on the same engine (a compiled
// module that was closed can stay referenced from a vacated slot of the engine's sorted list until the next compilation
// overwrites it), collect, and M uses the global and every copy, twice.
// Tracked iff the global object points to its exporter's module engine (GlobalInstance.Me): the model decides per engine.
func FixedGlobals(id int) []History {
	var hs []History
	mk := func(cached bool, mods []ModSpec, ops ...[]Op) {
		var l []Op
		for _, o := range ops {
			l = append(l, o...)
		}
		hs = append(hs, History{ID: id + len(hs), Cached: cached, Cut: -1, Mods: mods, Ops: l})
	}
	setup := func(n int) []Op {
		var l []Op
		for m := 0; m < n; m++ {
			l = append(l, Op{"compile", []int{m}}, Op{"inst", []int{m}})
		}
		return l
	}
	closeHard := func(m int) []Op {
		return []Op{{"closemod", []int{m}}, {"closecm", []int{m}}, {"dropmod", []int{m}}, {"dropcm", []int{m}}}
	}
	// M: holder 0 = private table, 1 = private mutable global (initialised with global.get g), 2 = the imported global
	a := ModSpec{NFun: 1, Size: 4, NoElem: true, ExpG: [][2]int{{0, 0}}}
	m := ModSpec{NFun: 1, NPriv: 1, NGlob: 1, Size: 4, GOnly: true, ImpG: [][2]int{{0, 0}}, GElems: [][3]int{{0, 1, 0}, {1, 0, 0}}}
	uses := []Op{{"ind", []int{1, 2, 0}}, {"ind", []int{1, 0, 0}}, {"ind", []int{1, 0, 1}}, {"ind", []int{1, 1, 0}}}
	for v := 0; v < 4; v++ {
		var tail []Op
		switch v {
		case 0, 1: // ONE more compile
			tail = []Op{{"xc", []int{1, 0}}, {"gc", nil}}
		case 2: // none
			tail = []Op{{"gc", nil}}
		case 3: // several
			tail = []Op{{"xc", []int{4, 0}}, {"gc", nil}}
		}
		mk(v != 1, []ModSpec{a, m}, setup(2), []Op{{"cp", []int{1, 2, 0, 0, 0}}}, uses, closeHard(0), tail, uses, []Op{{"gc", nil}}, uses)
	}
	// a MUTABLE exported global initialised with ref.func, written by nobody: the same
	am := ModSpec{NFun: 1, Size: 4, NoElem: true, ExpG: [][2]int{{1, 0}}}
	mm := ModSpec{NFun: 1, NPriv: 1, Size: 4, GOnly: true, ImpG: [][2]int{{0, 0}}}
	usesM := []Op{{"ind", []int{1, 1, 0}}, {"ind", []int{1, 0, 0}}}
	mk(true, []ModSpec{am, mm}, setup(2), []Op{{"cp", []int{1, 1, 0, 0, 0}}}, usesM, closeHard(0), []Op{{"xc", []int{1, 0}}, {"gc", nil}}, usesM, []Op{{"gc", nil}}, usesM)
	// a chain: A exports g; B imports g (only) and exports g' = global.get g; M imports g' (only). A and B go.
	b := ModSpec{NFun: 1, NPriv: 1, Size: 4, GOnly: true, ImpG: [][2]int{{0, 0}}, ExpG: [][2]int{{0, -2}}}
	mc := ModSpec{NFun: 1, NPriv: 1, Size: 4, GOnly: true, ImpG: [][2]int{{1, 0}}, GElems: [][3]int{{0, 1, 0}}}
	usesC := []Op{{"ind", []int{2, 1, 0}}, {"ind", []int{2, 0, 1}}}
	for v := 0; v < 2; v++ {
		cl := closeHard(0)
		if v == 1 {
			cl = append(closeHard(1), closeHard(0)...)
		}
		mk(v == 0, []ModSpec{a, b, mc}, setup(3), usesC, cl, []Op{{"xc", []int{2, 0}}, {"gc", nil}}, usesC, []Op{{"gc", nil}}, usesC)
	}
	// the importer hands the value on to a third instance C (which imports nothing) through C's store function: the F08
	// channel, with a reference the sender did not define
	cpriv := ModSpec{NFun: 1, NPriv: 1, Size: 4, NoElem: true}
	mp := ModSpec{NFun: 1, NPriv: 1, Size: 4, ImpS: [][2]int{{1, 0}}, ImpG: [][2]int{{0, 0}}}
	mk(true, []ModSpec{a, cpriv, mp}, setup(3), []Op{{"gp", []int{2, 1, 0, 2}}, {"ind", []int{1, 0, 2}}}, closeHard(0), closeHard(2),
		[]Op{{"xc", []int{1, 0}}, {"gc", nil}, {"ind", []int{1, 0, 2}}})
	return hs
}

// FixedShared: the run-time store into an imported SHARED table by an importer WITHOUT any element section (its
// function is referable because it is exported), in every instruction shape, then close instance + compiled module,
// drop every handle, collect, and the table owner's call_indirect (twice). A tracked channel: the model says safe.
func FixedShared(id int) []History {
	owner := ModSpec{NFun: 1, NExp: 1, Size: 4, NoElem: true}
	var hs []History
	for v, store := range [][]Op{
		{{"set", []int{1, 0, 1, 0}}},
		{{"fil", []int{1, 0, 1, 0}}},
		{{"set", []int{1, 1, 1, 0}}, {"cpc", []int{1, 1, 1, 0, 1}}},
		{{"pass", []int{1, 1, 0, 1}}},
		{{"grw", []int{1, 0, 0}}},
	} {
		plugin := ModSpec{ImpT: [][2]int{{0, 0}}, NFun: 1, Size: 4, NoElem: true}
		slot := 1
		switch v {
		case 2:
			plugin.NPriv = 1
		case 3:
			plugin.ImpS = [][2]int{{0, 0}} // record 0 is the imported setter, record 1 the own function
		case 4:
			slot = 4
		}
		ops := []Op{{"compile", []int{0}}, {"inst", []int{0}}, {"compile", []int{1}}, {"inst", []int{1}}}
		ops = append(ops, store...)
		ops = append(ops, Op{"ind", []int{0, 0, slot}}, Op{"closemod", []int{1}}, Op{"closecm", []int{1}}, Op{"dropmod", []int{1}},
			Op{"dropcm", []int{1}}, Op{"gc", nil}, Op{"ind", []int{0, 0, slot}}, Op{"gc", nil}, Op{"ind", []int{0, 0, slot}})
		hs = append(hs, History{ID: id + v, Cached: v%2 == 0, Cut: -1, Mods: []ModSpec{owner, plugin}, Ops: ops})
	}
	return hs
}

// FixedMem: A defines and exports a memory; B imports the memory and A's accessors msize/mload/mstore/mgrow. A is
// closed while B lives, THEN the memory is grown, THEN B uses it through the functions it imported from A and through
// its own code. One history per way of growing and of closing.
func FixedMem(id int) []History {
	a := ModSpec{NFun: 1, Size: 4, NoElem: true, Mem: 1, GI: 1}
	b := ModSpec{NFun: 1, NPriv: 1, Size: 4, NoElem: true, ImpM: []int{0}, ImpGI: []int{0},
		ImpA: [][2]int{{0, 0}, {0, 1}, {0, 2}, {0, 3}, {0, 4}}}
	cOnly := ModSpec{NFun: 1, NPriv: 1, Size: 4, NoElem: true, ImpA: [][2]int{{0, 0}, {0, 1}, {0, 2}, {0, 3}}} // no memory of its own
	chain := ModSpec{NFun: 1, NPriv: 1, Size: 4, NoElem: true, ImpM: []int{1}, ImpA: [][2]int{{0, 0}, {0, 1}, {1, 0}, {1, 1}}}
	setup := []Op{{"compile", []int{0}}, {"inst", []int{0}}, {"compile", []int{1}}, {"inst", []int{1}}}
	obsB := []Op{{"mu", []int{1, -1, 0, 0, 0}}, {"mu", []int{1, 0, 0, 0, 0}}, {"mu", []int{1, -1, 2, 8, 333}}, {"mu", []int{1, 1, 1, 8, 0}},
		{"mu", []int{1, -1, 2, 65544, 222}}, {"mu", []int{1, 1, 1, 65544, 0}}, {"mu", []int{1, 2, 2, 131064, 555}}, {"mu", []int{1, -1, 1, 131064, 0}},
		{"mh", []int{1, 0, 0, 0}}, {"mh", []int{1, 1, 131064, 0}}}
	closeHard := []Op{{"closemod", []int{0}}, {"closecm", []int{0}}, {"dropmod", []int{0}}, {"dropcm", []int{0}}, {"gc", nil}}
	var hs []History
	mk := func(mods []ModSpec, ops ...[]Op) {
		var l []Op
		for _, o := range ops {
			l = append(l, o...)
		}
		hs = append(hs, History{ID: id + len(hs), Cached: len(hs)%2 == 0, Cut: -1, Mods: mods, Ops: l})
	}
	first := []Op{{"mu", []int{1, -1, 2, 8, 111}}, {"mu", []int{1, 1, 1, 8, 0}}, {"mu", []int{1, 4, 4, 0, 0}}, {"mu", []int{1, -1, 5, 77, 0}}}
	ab := []ModSpec{a, b}
	// 0: B's own memory.grow after a plain close of A
	mk(ab, setup, first, []Op{{"closemod", []int{0}}, {"mu", []int{1, -1, 3, 1, 0}}}, obsB, []Op{{"mu", []int{1, 4, 4, 0, 0}}})
	// 1: api.Memory.Grow on B after A is closed, dropped and collected
	mk(ab, setup, first, closeHard, []Op{{"mh", []int{1, 3, 1, 0}}, {"gc", nil}}, obsB)
	// 2: the grow accessor imported from A (the closed definer's own code grows)
	mk(ab, setup, first, closeHard, []Op{{"mu", []int{1, 3, 3, 1, 0}}, {"gc", nil}}, obsB)
	// 3: api.Memory.Grow on the closed A's handle
	mk(ab, setup, first, []Op{{"closemod", []int{0}}, {"mh", []int{0, 3, 1, 0}}, {"dropmod", []int{0}}, {"gc", nil}}, obsB)
	// 4: grown before AND after the close, twice
	mk(ab, setup, first, []Op{{"mu", []int{1, -1, 3, 1, 0}}}, closeHard, []Op{{"mu", []int{1, -1, 3, 1, 0}}, {"gc", nil}}, obsB,
		[]Op{{"mh", []int{1, 3, 1, 0}}, {"mu", []int{1, 0, 0, 0, 0}}, {"mu", []int{1, -1, 2, 262136, 9}}, {"mu", []int{1, 1, 1, 262136, 0}}})
	// 5: a call of B in progress: A closed and the memory grown inside the host callback, B continues into A's mload
	mk(ab, setup, first, []Op{{"enter", []int{1}}, {"closemod", []int{0}}, {"mh", []int{1, 3, 1, 0}}, {"mh", []int{1, 2, 65544, 4242}}, {"gc", nil},
		{"leavem", []int{1, 1, 1, 65544, 0}}}, obsB)
	// 6: a call of A itself in progress: closed inside the callback, continues with memory.grow and touches the new page
	mk(ab, setup, first, []Op{{"enter", []int{0}}, {"closemod", []int{0}}, {"gc", nil}, {"leavem", []int{0, -1, 6, 1, 0}}}, obsB)
	// 7: an importer without any memory of its own: everything goes through A's code
	mk([]ModSpec{a, cOnly}, setup, []Op{{"mu", []int{1, 2, 2, 8, 111}}}, closeHard, []Op{{"mu", []int{1, 3, 3, 1, 0}}, {"gc", nil},
		{"mu", []int{1, 0, 0, 0, 0}}, {"mu", []int{1, 2, 2, 65544, 5}}, {"mu", []int{1, 1, 1, 65544, 0}}, {"mu", []int{1, 1, 1, 8, 0}}})
	// 8: a chain A <- B <- C (C imports the memory B re-exports, and accessors of both): close A and B, grow from C
	mk([]ModSpec{a, b, chain}, setup, []Op{{"compile", []int{2}}, {"inst", []int{2}}}, first,
		[]Op{{"closemod", []int{1}}, {"closemod", []int{0}}, {"dropmod", []int{0}}, {"dropmod", []int{1}}, {"gc", nil},
			{"mu", []int{2, -1, 3, 1, 0}}, {"gc", nil}, {"mu", []int{2, -1, 2, 65544, 31}}, {"mu", []int{2, 0, 0, 0, 0}}, {"mu", []int{2, 2, 0, 0, 0}},
			{"mu", []int{2, 1, 1, 65544, 0}}, {"mu", []int{2, 3, 1, 65544, 0}}, {"mu", []int{2, -1, 0, 0, 0}}})
	return hs
}
