// C09 correspondence harness: histories of instantiate / call / pass-a-funcref / close / drop / forced GC over
// 2-4 small modules, each executed in a SUPERVISED CHILD PROCESS (this binary re-executes itself) next to a
// twin runtime in which nothing is closed. Modes:
//
//	-gen  -seed S -n N        print generated histories (JSON lines); the Coq model classifies them
//	-run FILE                 run every history of FILE (with its "cut") on both engines, one child per (history, engine)
//	-child -engine E          (internal) read one history from stdin, print "@k" before step k, then one JSON line
package main

import (
	"bufio"
	"bytes"
	"context"
	"encoding/json"
	"flag"
	"fmt"
	"os"
	"os/exec"
	"regexp"
	"runtime"
	"runtime/debug"
	"strconv"
	"strings"
	"sync"
	"time"

	"github.com/tetratelabs/wazero"
	"github.com/tetratelabs/wazero/api"
	c "github.com/tetratelabs/wazero/internal/zz_verif/common"
)

type Op struct {
	K string
	A []int
}

func (o Op) MarshalJSON() ([]byte, error) {
	l := []any{o.K}
	for _, a := range o.A {
		l = append(l, a)
	}
	return json.Marshal(l)
}

func (o *Op) UnmarshalJSON(b []byte) error {
	var l []any
	if err := json.Unmarshal(b, &l); err != nil {
		return err
	}
	o.K = l[0].(string)
	o.A = nil
	for _, a := range l[1:] {
		o.A = append(o.A, int(a.(float64)))
	}
	return nil
}

type History struct {
	ID     int       `json:"id"`
	Cached bool      `json:"cached"`
	Mods   []ModSpec `json:"mods"`
	Ops    []Op      `json:"ops"`
	Cut    int       `json:"cut"` // execute steps [0, Cut); -1 = all
	// Cuts: per engine ("interp"/"compiler") override of Cut: the engines differ in one edge of the model (GlobalInstance.Me)
	Cuts    map[string]int `json:"cuts,omitempty"`
	Witness string         `json:"witness,omitempty"`
	NoChurn bool           `json:"nochurn,omitempty"` // do not re-use freed size classes after a collection
	Probe   string         `json:"probe,omitempty"`   // fixed hand-written witness instead of a generated history
}

type Result struct {
	ID      int      `json:"id"`
	Engine  string   `json:"engine"`
	Witness string   `json:"witness,omitempty"`
	NoChurn bool     `json:"nochurn,omitempty"`
	Cached  bool     `json:"cached"`
	Obs     []string `json:"obs"`
	Twin    []string `json:"twin"`
	Crash   string   `json:"crash,omitempty"` // signal / fatal error class
	Step    int      `json:"step"`            // last step started by the child
	Tail    string   `json:"tail,omitempty"`
	WallMs  int64    `json:"wall_ms"`
	Retried bool     `json:"retried,omitempty"`
}

// ---------------------------------------------------------------------------------------------
// child

type world struct {
	rt    wazero.Runtime
	cache wazero.CompilationCache
	cms   []wazero.CompiledModule
	insts []api.Module
	hook  func()
	// kept: handles that a later compile/instantiate of the same module replaced. Only the TWIN keeps them (there
	// nothing is ever closed, dropped or collected); in the main world a replaced handle is a dropped handle.
	kept []any
}

func newWorld(ctx context.Context, engine string, cached bool, n int) *world {
	w := &world{cms: make([]wazero.CompiledModule, n), insts: make([]api.Module, n)}
	var rc wazero.RuntimeConfig
	if engine == "compiler" {
		rc = wazero.NewRuntimeConfigCompiler()
	} else {
		rc = wazero.NewRuntimeConfigInterpreter()
	}
	if cached {
		w.cache = wazero.NewCompilationCache()
		rc = rc.WithCompilationCache(w.cache)
	}
	w.rt = wazero.NewRuntimeWithConfig(ctx, rc)
	_, err := w.rt.NewHostModuleBuilder("env").NewFunctionBuilder().WithFunc(func() {
		if w.hook != nil {
			w.hook()
		}
	}).Export("hook").Instantiate(ctx)
	if err != nil {
		panic(err)
	}
	return w
}

func errClass(err error) string {
	k := c.TrapClass(err)
	if strings.HasPrefix(k, "other:") {
		msg := k[6:]
		switch {
		case strings.Contains(msg, "not instantiated"), strings.Contains(msg, "must be compiled before instantiation"),
			strings.Contains(msg, "source module must be compiled"):
			return "refused"
		case strings.Contains(msg, "already been instantiated"):
			return "refused:name"
		case strings.Contains(msg, "closed"):
			return "refused"
		}
		return "other:" + msg
	}
	return k
}

func (w *world) call(ctx context.Context, m int, name string, args ...uint64) (out string) {
	defer func() {
		if e := recover(); e != nil {
			out = fmt.Sprint("e:PANIC:", e)
		}
	}()
	if w.insts[m] == nil {
		return "e:nohandle"
	}
	f := w.insts[m].ExportedFunction(name)
	if f == nil {
		return "e:noexport:" + name
	}
	res, err := f.Call(ctx, args...)
	if err != nil {
		return "e:" + errClass(err)
	}
	if len(res) == 0 {
		return "ok"
	}
	return fmt.Sprintf("v:%d", uint32(res[0]))
}

var sink [][]byte
var noChurn bool
var psink [][]*uint64
var dummy = new(uint64)

type sentinel struct {
	p   *int
	pad [96]byte
}

var sizeClasses = []int{8, 16, 24, 32, 48, 64, 80, 96, 112, 128, 144, 160, 176, 192, 208, 224, 240, 256, 288, 320, 352, 384, 416, 448,
	480, 512, 576, 640, 704, 768, 896, 1024, 1152, 1280, 1408, 1536, 1792, 2048, 2304, 2688, 3072, 3200, 3456, 4096}

// forceGC: collect, return memory to the OS, wait until the finalizer goroutine has drained (a sentinel
// allocated before the collection has been finalized), then re-use the freed size classes so that a
// dangling record is overwritten.
func forceGC(rounds int) {
	for i := 0; i < rounds; i++ {
		done := make(chan struct{})
		s := &sentinel{p: new(int)}
		runtime.SetFinalizer(s, func(*sentinel) { close(done) })
		s = nil
		runtime.GC()
		if i == 0 {
			debug.FreeOSMemory()
			runtime.GC()
		}
		select {
		case <-done:
		case <-time.After(300 * time.Millisecond):
		}
		time.Sleep(time.Millisecond)
	}
	if noChurn {
		return
	}
	sink = sink[:0]
	for _, sz := range sizeClasses {
		for i := 0; i < 300; i++ {
			b := make([]byte, sz)
			for j := range b {
				b[j] = 0x5a
			}
			sink = append(sink, b)
		}
	}
	// the same for pointer-carrying (scannable) spans: function records contain Go pointers
	psink = psink[:0]
	for _, sz := range sizeClasses {
		for i := 0; i < 300; i++ {
			b := make([]*uint64, sz/8)
			for j := range b {
				b[j] = dummy
			}
			psink = append(psink, b)
		}
	}
}

func child(engine string) {
	var h History
	if err := json.NewDecoder(os.Stdin).Decode(&h); err != nil {
		fmt.Println("bad history:", err)
		os.Exit(3)
	}
	debug.SetMemoryLimit(1 << 30)
	ctx := context.Background()
	if k, ok := h.Cuts[engine]; ok {
		h.Cut = k
	}
	noChurn = h.NoChurn
	if h.Probe != "" {
		probe(ctx, engine, &h)
		return
	}
	n := len(h.Mods)
	bins := make([][]byte, n)
	for i := range bins {
		bins[i] = Build(i, h.Mods)
	}
	mw := newWorld(ctx, engine, h.Cached, n)
	tw := newWorld(ctx, engine, h.Cached, n)
	end := len(h.Ops)
	if h.Cut >= 0 && h.Cut < end {
		end = h.Cut
	}
	obs := make([]string, end)
	twin := make([]string, end)

	compile := func(w *world, m int) (out string) {
		defer func() {
			if e := recover(); e != nil {
				out = fmt.Sprint("e:PANIC:", e)
			}
		}()
		if w.rt == nil {
			return "e:nohandle"
		}
		cm, err := w.rt.CompileModule(ctx, bins[m])
		if err != nil {
			return "e:" + errClass(err)
		}
		w.cms[m] = cm
		return "ok"
	}
	inst := func(w *world, m int) (out string) {
		defer func() {
			if e := recover(); e != nil {
				out = fmt.Sprint("e:PANIC:", e)
			}
		}()
		if w.rt == nil || w.cms[m] == nil {
			return "e:nohandle"
		}
		mod, err := w.rt.InstantiateModule(ctx, w.cms[m], wazero.NewModuleConfig().WithName(fmt.Sprintf("m%d", m)))
		if err != nil {
			return "e:" + errClass(err)
		}
		w.insts[m] = mod
		return "ok"
	}

	// tiny(k): (module (func (export "f") (result i32) i32.const 7000+k)): unrelated to every module of the history
	tiny := func(k int) []byte {
		w := &c.Mod{}
		w.Types = [][]byte{c.FT(nil, c.B(c.I32))}
		w.Funcs = [][]byte{c.U32(0)}
		w.Exports = [][]byte{c.Export("f", 0, 0)}
		w.Codes = [][]byte{c.Code(nil, c.I32Const(int32(7000+k)))}
		return w.Bytes()
	}
	// extra: compile and instantiate n more (unrelated, distinct) modules on the runtime's engine, call them, close them
	// and their compiled modules. Compiling overwrites vacated slots of the engine's sorted list of compiled modules,
	// which otherwise keep the executables of closed modules reachable (and hide dangling code).
	extra := func(w *world, n, id0 int) (out string) {
		defer func() {
			if e := recover(); e != nil {
				out = fmt.Sprint("e:PANIC:", e)
			}
		}()
		if w.rt == nil {
			return "e:nohandle"
		}
		var cms []wazero.CompiledModule
		var ins []api.Module
		out = "ok"
		for k := 0; k < n; k++ {
			cm, err := w.rt.CompileModule(ctx, tiny(id0+k))
			if err != nil {
				out = "e:" + errClass(err)
				break
			}
			cms = append(cms, cm)
			mod, err := w.rt.InstantiateModule(ctx, cm, wazero.NewModuleConfig().WithName(""))
			if err != nil {
				out = "e:" + errClass(err)
				break
			}
			ins = append(ins, mod)
			res, err := mod.ExportedFunction("f").Call(ctx)
			if err != nil || len(res) != 1 || res[0] != uint64(7000+id0+k) {
				out = fmt.Sprint("e:other:tiny module returned ", res, err)
			}
		}
		for _, mod := range ins {
			mod.Close(ctx)
		}
		for _, cm := range cms {
			cm.Close(ctx)
		}
		return out
	}

	var exec func(i, stop int) int
	// one step on the main world and (unless it closes/drops/collects) on the twin
	exec = func(i, stop int) int {
		for i < stop {
			o := h.Ops[i]
			fmt.Fprintf(os.Stdout, "@%d\n", i)
			a := o.A
			both := func(name string, m int, args ...uint64) {
				if mw.insts[m] == nil { // no handle in the main world: the step does not happen in either world
					obs[i], twin[i] = "e:nohandle", "e:nohandle"
					return
				}
				obs[i] = mw.call(ctx, m, name, args...)
				twin[i] = tw.call(ctx, m, name, args...)
			}
			switch o.K {
			case "compile":
				obs[i] = compile(mw, a[0])
				if obs[i] == "ok" {
					if old := tw.cms[a[0]]; old != nil {
						tw.kept = append(tw.kept, old)
					}
					twin[i] = compile(tw, a[0])
				}
			case "inst":
				obs[i] = inst(mw, a[0])
				if obs[i] == "ok" {
					// the name was free in the main world: free it in the twin as well (the old twin instance stays
					// referenced by its importers and is never collected: no GC is forced on the twin's behalf)
					if old := tw.insts[a[0]]; old != nil {
						old.Close(ctx)
						tw.kept = append(tw.kept, old)
					}
					twin[i] = inst(tw, a[0])
				} else if obs[i] == "e:refused:name" && tw.insts[a[0]] != nil {
					// refused only when registering the name: the instance was built (element segments were applied
					// to shared tables) and then closed; the twin, which holds the same name, goes through the same
					keep := tw.insts[a[0]]
					twin[i] = inst(tw, a[0])
					tw.insts[a[0]] = keep
				}
			case "call":
				m := &h.Mods[a[0]]
				if a[1] < len(m.ImpF) {
					both(fmt.Sprintf("ci%d", a[1]), a[0])
				} else {
					both(fmt.Sprintf("f%d", a[1]-m.nImpRec()), a[0])
				}
			case "ind":
				both(fmt.Sprintf("ind%d", a[1]), a[0], uint64(a[2]))
			case "set":
				both(fmt.Sprintf("set%d_%d", a[1], a[3]), a[0], uint64(a[2]))
			case "cp":
				both(fmt.Sprintf("cp%d_%d", a[1], a[3]), a[0], uint64(a[2]), uint64(a[4]))
			case "fil":
				both(fmt.Sprintf("fil%d_%d", a[1], a[3]), a[0], uint64(a[2]))
			case "grw":
				both(fmt.Sprintf("grw%d_%d", a[1], a[2]), a[0])
			case "cpc":
				both(fmt.Sprintf("cpc%d_%d", a[1], a[3]), a[0], uint64(a[2]), uint64(a[4]))
			case "clr":
				both(fmt.Sprintf("clr%d", a[1]), a[0], uint64(a[2]))
			case "pass":
				both(fmt.Sprintf("pass%d_%d", a[1], a[2]), a[0], uint64(a[3]))
			case "gp": // m, global holder ts, q, slot: the value of the global goes to imps[q] as a parameter
				both(fmt.Sprintf("gp%d_%d", a[1], a[2]), a[0], uint64(a[3]))
			case "xc": // n, id0: n more unrelated modules are compiled, instantiated, called and closed
				obs[i] = extra(mw, a[0], a[1])
				if obs[i] == "ok" {
					twin[i] = extra(tw, a[0], a[1])
				}
			case "mu": // m, path (-1 own code, q imported accessor), kind, a1, a2
				name, args := memCall(&h.Mods[a[0]], a[1], a[2], a[3], a[4], "")
				both(name, a[0], args...)
			case "mh": // m, kind, a1, a2: the host on the instance's api.Memory
				if mw.insts[a[0]] == nil {
					obs[i], twin[i] = "e:nohandle", "e:nohandle"
				} else {
					obs[i] = hostMem(mw.insts[a[0]], &h.Mods[a[0]], a[1], a[2], a[3])
					twin[i] = hostMem(tw.insts[a[0]], &h.Mods[a[0]], a[1], a[2], a[3])
				}
			case "enter":
				// find the matching leave; the steps in between run inside the host function
				j := i + 1
				for j < len(h.Ops) && !strings.HasPrefix(h.Ops[j].K, "leave") {
					j++
				}
				if j >= stop {
					// the history is cut inside the block: do not start it
					return stop
				}
				l := h.Ops[j]
				var name string
				var args []uint64
				if l.K == "leaver" {
					name = fmt.Sprintf("hkr%d", l.A[1])
				} else if l.K == "leavem" {
					name, args = memCall(&h.Mods[a[0]], l.A[1], l.A[2], l.A[3], l.A[4], "hk")
				} else {
					name, args = fmt.Sprintf("hki%d", l.A[1]), []uint64{uint64(l.A[2])}
				}
				obs[i], twin[i] = "ok", "ok"
				ran := false
				mw.hook = func() { ran = true; exec(i+1, j) }
				held := mw.insts[a[0]] != nil
				r := mw.call(ctx, a[0], name, args...)
				mw.hook = nil
				if !ran {
					exec(i+1, j)
				}
				fmt.Fprintf(os.Stdout, "@%d\n", j)
				obs[j] = r
				if held {
					twin[j] = tw.call(ctx, a[0], name, args...)
				} else {
					twin[j] = "e:nohandle"
				}
				i = j
			case "closemod":
				if mw.insts[a[0]] != nil {
					mw.insts[a[0]].Close(ctx)
				}
				obs[i], twin[i] = "ok", "ok"
			case "closecm":
				if mw.cms[a[0]] != nil {
					mw.cms[a[0]].Close(ctx)
				}
				obs[i], twin[i] = "ok", "ok"
			case "closecache":
				if mw.cache != nil {
					mw.cache.Close(ctx)
				}
				obs[i], twin[i] = "ok", "ok"
			case "closert":
				if mw.rt != nil {
					mw.rt.Close(ctx)
				}
				obs[i], twin[i] = "ok", "ok"
			case "dropmod":
				mw.insts[a[0]] = nil
				obs[i], twin[i] = "ok", "ok"
			case "dropcm":
				mw.cms[a[0]] = nil
				obs[i], twin[i] = "ok", "ok"
			case "droprt":
				mw.rt = nil
				obs[i], twin[i] = "ok", "ok"
			case "dropcache":
				mw.cache = nil
				obs[i], twin[i] = "ok", "ok"
			case "gc":
				forceGC(2)
				obs[i], twin[i] = "ok", "ok"
			default:
				obs[i], twin[i] = "e:badop", "e:badop"
			}
			switch o.K {
			case "closemod", "closecm", "closecache", "closert", "dropmod", "dropcm", "droprt", "dropcache", "xc":
				forceGC(1)
			}
			i++
		}
		return i
	}
	exec(0, end)
	runtime.KeepAlive(tw)
	b, _ := json.Marshal(map[string]any{"obs": obs, "twin": twin})
	fmt.Fprintf(os.Stdout, "%s\n", b)
}

// memCall: the exported function that performs accessor `kind` through path p of a module, and its arguments
// (prefix "hk": the variant that first calls back into the host).
func memCall(m *ModSpec, p, kind, a1, a2 int, prefix string) (string, []uint64) {
	var args []uint64
	switch kind {
	case 1, 3, 5, 6:
		args = []uint64{uint64(uint32(a1))}
	case 2:
		args = []uint64{uint64(uint32(a1)), uint64(uint32(a2))}
	}
	if p >= 0 {
		return fmt.Sprintf("%sva%d", prefix, p), args
	}
	if prefix != "" {
		return fmt.Sprintf("hkm%d", kind), args
	}
	return accName[kind], args
}

// hostMem: the embedder's own access to the memory of an instance (api.Memory works on closed modules too)
func hostMem(mod api.Module, m *ModSpec, kind, a1, a2 int) (out string) {
	defer func() {
		if e := recover(); e != nil {
			out = fmt.Sprint("e:PANIC:", e)
		}
	}()
	if mod == nil {
		return "e:nohandle"
	}
	if !m.hasMem() {
		return "e:nomem"
	}
	mem := mod.Memory()
	switch kind {
	case 0:
		return fmt.Sprintf("v:%d", mem.Size()>>16)
	case 1:
		v, ok := mem.ReadUint32Le(uint32(a1))
		if !ok {
			return "e:oob"
		}
		return fmt.Sprintf("v:%d", v)
	case 2:
		if !mem.WriteUint32Le(uint32(a1), uint32(a2)) {
			return "e:oob"
		}
		return "ok"
	case 3:
		prev, ok := mem.Grow(uint32(a1))
		if !ok {
			return "v:4294967295"
		}
		return fmt.Sprintf("v:%d", prev)
	}
	return "e:badop"
}

// ---------------------------------------------------------------------------------------------
// parent

var crashRe = regexp.MustCompile(`SIGSEGV|SIGBUS|SIGILL|SIGABRT|SIGFPE|fatal error: [^\n]*|unexpected signal[^\n]*|panic: [^\n]*|runtime: [^\n]*`)

// supervise runs one history in a child; a child that hits the timeout is run once more (a stall of the loaded
// machine does not repeat, a genuine hang does).
func supervise(self string, h *History, engine string, tmo time.Duration) Result {
	r := superviseOnce(self, h, engine, tmo)
	if r.Crash == "timeout" {
		// the retry gets three times the budget: on an overcommitted machine a child that needs 2 s of CPU has been
		// seen to take 20 s of wall time
		r = superviseOnce(self, h, engine, 3*tmo)
		r.Retried = true
	}
	return r
}

func superviseOnce(self string, h *History, engine string, tmo time.Duration) Result {
	t0 := time.Now()
	res := Result{ID: h.ID, Engine: engine, Witness: h.Witness, NoChurn: h.NoChurn, Cached: h.Cached, Step: -1}
	in, _ := json.Marshal(h)
	ctx, cancel := context.WithTimeout(context.Background(), tmo)
	defer cancel()
	cmd := exec.CommandContext(ctx, self, "-child", "-engine", engine)
	cmd.Stdin = bytes.NewReader(in)
	cmd.Env = append(os.Environ(), "GOTRACEBACK=single", "GOMEMLIMIT=1GiB")
	var out bytes.Buffer
	cmd.Stdout = &out
	cmd.Stderr = &out
	err := cmd.Run()
	text := out.String()
	var last string
	for _, ln := range strings.Split(text, "\n") {
		if strings.HasPrefix(ln, "@") {
			if k, e := strconv.Atoi(ln[1:]); e == nil {
				res.Step = k
			}
		} else if strings.HasPrefix(ln, "{") {
			last = ln
		}
	}
	if err == nil && last != "" {
		var r struct {
			Obs  []string `json:"obs"`
			Twin []string `json:"twin"`
		}
		if json.Unmarshal([]byte(last), &r) == nil {
			res.Obs, res.Twin = r.Obs, r.Twin
			res.WallMs = time.Since(t0).Milliseconds()
			return res
		}
	}
	switch {
	case ctx.Err() != nil:
		res.Crash = "timeout"
	default:
		if m := crashRe.FindString(text); m != "" {
			res.Crash = m
		} else {
			res.Crash = fmt.Sprint("exit: ", err)
		}
	}
	if len(text) > 1500 {
		text = text[:700] + "\n...\n" + text[len(text)-700:]
	}
	res.Tail = text
	res.WallMs = time.Since(t0).Milliseconds()
	return res
}

func runFile(path string, engines []string, par int, tmo time.Duration) {
	self, err := os.Executable()
	if err != nil {
		panic(err)
	}
	f, err := os.Open(path)
	if err != nil {
		panic(err)
	}
	defer f.Close()
	var hs []*History
	sc := bufio.NewScanner(f)
	sc.Buffer(make([]byte, 1<<20), 1<<24)
	for sc.Scan() {
		if !strings.HasPrefix(sc.Text(), "{") {
			continue
		}
		h := &History{Cut: -1}
		if err := json.Unmarshal(sc.Bytes(), h); err != nil {
			panic(err)
		}
		hs = append(hs, h)
	}
	out := c.NewOut()
	defer out.Flush()
	var wg sync.WaitGroup
	var mu sync.Mutex
	sem := make(chan struct{}, par)
	for _, h := range hs {
		for _, e := range engines {
			wg.Add(1)
			sem <- struct{}{}
			go func(h *History, e string) {
				defer wg.Done()
				defer func() { <-sem }()
				r := supervise(self, h, e, tmo)
				mu.Lock()
				out.Emit(r)
				mu.Unlock()
			}(h, e)
		}
	}
	wg.Wait()
}

func main() {
	gen := flag.Bool("gen", false, "")
	run := flag.String("run", "", "")
	isChild := flag.Bool("child", false, "")
	engine := flag.String("engine", "compiler", "")
	engines := flag.String("engines", "interp,compiler", "")
	seed := flag.Uint64("seed", 1, "")
	n := flag.Int("n", 40, "")
	par := flag.Int("par", 8, "")
	tmo := flag.Duration("timeout", 40*time.Second, "")
	flag.Parse()
	switch {
	case *isChild:
		child(*engine)
	case *gen:
		generate(*seed, *n)
	case *run != "":
		runFile(*run, strings.Split(*engines, ","), *par, *tmo)
	default:
		fmt.Println("usage: -gen | -run FILE | -child")
		os.Exit(2)
	}
}
