package main

import (
	"context"
	"encoding/json"
	"fmt"
	"os"

	"github.com/tetratelabs/wazero"
	c "github.com/tetratelabs/wazero/internal/zz_verif/common"
)

// Fixed witness "global" (F08b): the same class as F08 through an IMPORTED mutable funcref global.
// A exports a mutable funcref global g and callit() = table.set 0 0 (global.get g); call_indirect 0.
// B imports a.g, defines f() = 4242 and put() = global.set g (ref.func f).
// put; close B and its compiled module; drop; collect; A.callit dereferences B's collected record.
func probeA() []byte {
	m := &c.Mod{}
	m.Types = [][]byte{c.FT(nil, c.B(c.I32))}
	m.Funcs = [][]byte{c.U32(0)}
	m.Tables = [][]byte{c.Cat(c.B(c.FuncRef, 0), c.U32(1))}
	m.Globals = [][]byte{c.Cat(c.B(c.FuncRef, 1), refNull(), c.B(0x0b))}
	m.Exports = [][]byte{c.Export("g", 3, 0), c.Export("callit", 0, 0)}
	m.Codes = [][]byte{c.Code(nil, c.I32Const(0), c.GlobalGet(0), tableSet(0), c.I32Const(0), callInd(0))}
	return m.Bytes()
}

func probeB() []byte {
	m := &c.Mod{}
	m.Types = [][]byte{c.FT(nil, c.B(c.I32)), c.FT(nil, nil)}
	m.Imports = [][]byte{c.Cat(c.Name("a"), c.Name("g"), c.B(3, c.FuncRef, 1))}
	m.Funcs = [][]byte{c.U32(0), c.U32(1)}
	m.Exports = [][]byte{c.Export("f", 0, 0), c.Export("put", 0, 1)}
	m.Elems = [][]byte{c.Cat(c.B(3), c.B(0), c.Vec(c.U32(0)))}
	m.Codes = [][]byte{c.Code(nil, c.I32Const(4242)), c.Code(nil, refFunc(0), c.GlobalSet(0))}
	return m.Bytes()
}

func probe(ctx context.Context, engine string, h *History) {
	obs := make([]string, 4)
	twin := make([]string, 4)
	run := func(closeB bool, out []string) {
		var rc wazero.RuntimeConfig
		if engine == "compiler" {
			rc = wazero.NewRuntimeConfigCompiler()
		} else {
			rc = wazero.NewRuntimeConfigInterpreter()
		}
		r := wazero.NewRuntimeWithConfig(ctx, rc)
		ca, err := r.CompileModule(ctx, probeA())
		if err != nil {
			panic(err)
		}
		a, err := r.InstantiateModule(ctx, ca, wazero.NewModuleConfig().WithName("a"))
		if err != nil {
			panic(err)
		}
		call := func(name string, f func() ([]uint64, error)) string {
			res, err := f()
			if err != nil {
				return "e:" + errClass(err)
			}
			if len(res) == 0 {
				return "ok"
			}
			return fmt.Sprintf("v:%d", uint32(res[0]))
		}
		func() {
			cb, err := r.CompileModule(ctx, probeB())
			if err != nil {
				panic(err)
			}
			b, err := r.InstantiateModule(ctx, cb, wazero.NewModuleConfig().WithName("b"))
			if err != nil {
				panic(err)
			}
			fmt.Fprintf(os.Stdout, "@0\n")
			out[0] = call("put", func() ([]uint64, error) { return b.ExportedFunction("put").Call(ctx) })
			fmt.Fprintf(os.Stdout, "@1\n")
			out[1] = call("callit", func() ([]uint64, error) { return a.ExportedFunction("callit").Call(ctx) })
			if closeB {
				b.Close(ctx)
				cb.Close(ctx)
			}
		}()
		fmt.Fprintf(os.Stdout, "@2\n")
		if closeB {
			forceGC(2)
		}
		out[2] = "ok"
		fmt.Fprintf(os.Stdout, "@3\n")
		out[3] = call("callit", func() ([]uint64, error) { return a.ExportedFunction("callit").Call(ctx) })
	}
	run(false, twin)
	run(true, obs)
	b, _ := json.Marshal(map[string]any{"obs": obs, "twin": twin})
	fmt.Fprintf(os.Stdout, "%s\n", b)
}
