package main

import (
	"context"
	"encoding/json"
	"fmt"
	"os"
	"strings"
	"time"

	"github.com/tetratelabs/wazero"
	"github.com/tetratelabs/wazero/experimental"
	c "github.com/tetratelabs/wazero/internal/zz_verif/common"
)

// Fixed witness "global" (F08b): the same class as F08 through an IMPORTED mutable funcref global.
// A exports a mutable funcref global g and callit() = table.set 0 0 (global.get g); call_indirect 0.
// B imports a.g, defines f() = 4242 and put() = global.set g (ref.func f).
// put; close B and its compiled module; drop; collect; A.callit dereferences B's collected record.
func probeA() []byte {
	m := &c.Mod{}
	m.Types = [][]byte{c.FT(nil, c.B(c.I32))}
	m.Funcs = [][]byte{c.U32(0)}
	m.Tables = [][]byte{c.Cat(c.B(c.FuncRef, 0), c.U32(1))}
	m.Globals = [][]byte{c.Cat(c.B(c.FuncRef, 1), refNull(), c.B(0x0b))}
	m.Exports = [][]byte{c.Export("g", 3, 0), c.Export("callit", 0, 0)}
	m.Codes = [][]byte{c.Code(nil, c.I32Const(0), c.GlobalGet(0), tableSet(0), c.I32Const(0), callInd(0))}
	return m.Bytes()
}

func probeB() []byte {
	m := &c.Mod{}
	m.Types = [][]byte{c.FT(nil, c.B(c.I32)), c.FT(nil, nil)}
	m.Imports = [][]byte{c.Cat(c.Name("a"), c.Name("g"), c.B(3, c.FuncRef, 1))}
	m.Funcs = [][]byte{c.U32(0), c.U32(1)}
	m.Exports = [][]byte{c.Export("f", 0, 0), c.Export("put", 0, 1)}
	m.Elems = [][]byte{c.Cat(c.B(3), c.B(0), c.Vec(c.U32(0)))}
	m.Codes = [][]byte{c.Code(nil, c.I32Const(4242)), c.Code(nil, refFunc(0), c.GlobalSet(0))}
	return m.Bytes()
}

// Fixed witness "alloc-importer" / "alloc-definer": with a user-supplied memory allocator
// (experimental.WithMemoryAllocator) closing ANY instance bound to a memory hands that memory to LinearMemory.Free,
// also when another live instance still uses it. A defines and exports a memory, B imports it. A stores 111;
// the importer B (or the definer A) is closed; the other, live instance loads: it reads the freed buffer.
// The allocator here is backed by Go slices and Free poisons the buffer with 0xdd (an mmap-backed one unmaps it).
type poisonMem struct {
	buf   []byte
	freed *int
}

func (l *poisonMem) Reallocate(size uint64) []byte {
	if uint64(cap(l.buf)) < size {
		nb := make([]byte, size)
		copy(nb, l.buf)
		l.buf = nb
	}
	l.buf = l.buf[:size]
	return l.buf
}

func (l *poisonMem) Free() {
	*l.freed++
	b := l.buf[:cap(l.buf)]
	for i := range b {
		b[i] = 0xdd
	}
}

func allocA() []byte {
	m := &c.Mod{}
	mx := uint32(4)
	m.Types = [][]byte{c.FT(c.B(c.I32), c.B(c.I32)), c.FT(c.B(c.I32, c.I32), nil)}
	m.Funcs = [][]byte{c.U32(0), c.U32(1)}
	m.Mems = [][]byte{c.MemLimits(1, &mx)}
	m.Exports = [][]byte{c.Export("mem", 2, 0), c.Export("load", 0, 0), c.Export("store", 0, 1)}
	m.Codes = [][]byte{c.Code(nil, c.LocalGet(0), c.B(0x28), c.MemArg(2, 0)),
		c.Code(nil, c.LocalGet(0), c.LocalGet(1), c.B(0x36), c.MemArg(2, 0))}
	return m.Bytes()
}

func allocB() []byte {
	m := &c.Mod{}
	mx := uint32(4)
	m.Types = [][]byte{c.FT(c.B(c.I32), c.B(c.I32)), c.FT(nil, nil)}
	m.Imports = [][]byte{c.Cat(c.Name("a"), c.Name("mem"), c.B(2), c.MemLimits(1, &mx))}
	m.Funcs = [][]byte{c.U32(0), c.U32(1)}
	m.Exports = [][]byte{c.Export("load", 0, 0), c.Export("spin", 0, 1)}
	m.Codes = [][]byte{c.Code(nil, c.LocalGet(0), c.B(0x28), c.MemArg(2, 0)),
		c.Code(nil, c.B(0x03, 0x40, 0x0c, 0x00, 0x0b))} // spin: loop br 0 end
	return m.Bytes()
}

func probeAlloc(ctx0 context.Context, engine string, h *History) {
	obs := make([]string, 4)
	twin := make([]string, 4)
	run := func(doClose bool, out []string) {
		freed := 0
		ctx := experimental.WithMemoryAllocator(ctx0, experimental.MemoryAllocatorFunc(func(cap, max uint64) experimental.LinearMemory {
			return &poisonMem{buf: make([]byte, 0, cap), freed: &freed}
		}))
		var rc wazero.RuntimeConfig
		if engine == "compiler" {
			rc = wazero.NewRuntimeConfigCompiler()
		} else {
			rc = wazero.NewRuntimeConfigInterpreter()
		}
		r := wazero.NewRuntimeWithConfig(ctx, rc.WithCloseOnContextDone(true))
		a, err := r.InstantiateWithConfig(ctx, allocA(), wazero.NewModuleConfig().WithName("a"))
		if err != nil {
			panic(err)
		}
		b, err := r.InstantiateWithConfig(ctx, allocB(), wazero.NewModuleConfig().WithName("b"))
		if err != nil {
			panic(err)
		}
		live, dead := a, b
		if h.Probe == "alloc-definer" {
			live, dead = b, a
		}
		call := func(f func() ([]uint64, error)) string {
			res, err := f()
			if err != nil {
				return "e:" + errClass(err)
			}
			if len(res) == 0 {
				return "ok"
			}
			return fmt.Sprintf("v:%d", uint32(res[0]))
		}
		fmt.Fprintf(os.Stdout, "@0\n")
		out[0] = call(func() ([]uint64, error) { return a.ExportedFunction("store").Call(ctx, 8, 111) })
		fmt.Fprintf(os.Stdout, "@1\n")
		out[1] = call(func() ([]uint64, error) { return live.ExportedFunction("load").Call(ctx, 8) })
		fmt.Fprintf(os.Stdout, "@2\n")
		if doClose && h.Probe == "alloc-ctxclose" {
			// the importer is closed BY ITS CONTEXT while a call is in flight (resource closing deferred to FailIfClosed),
			// then called again a few times: every such call re-runs the deferred resource closing
			tctx, cancel := context.WithTimeout(ctx, 20*time.Millisecond)
			_, _ = b.ExportedFunction("spin").Call(tctx)
			cancel()
			for k := 0; k < 3; k++ {
				_, _ = b.ExportedFunction("load").Call(ctx, 8)
			}
		} else if doClose && strings.HasPrefix(h.Probe, "alloc-dupfail") {
			// an importer whose instantiation FAILS after its imports were resolved (the name "b" is taken): the
			// half-made instance is closed by the runtime and must not give up a share of the memory it never held.
			// alloc-dupfail: b (a live importer) is closed first, so the failing one is the only other party;
			// alloc-dupfail-live: b stays alive during the failure and is closed afterwards.
			if h.Probe == "alloc-dupfail" {
				b.Close(ctx)
				if _, err := r.InstantiateWithConfig(ctx, allocB(), wazero.NewModuleConfig().WithName("a")); err == nil {
					panic("duplicate name accepted")
				}
			} else {
				if _, err := r.InstantiateWithConfig(ctx, allocB(), wazero.NewModuleConfig().WithName("b")); err == nil {
					panic("duplicate name accepted")
				}
				b.Close(ctx)
			}
		} else if doClose {
			dead.Close(ctx)
		}
		out[2] = fmt.Sprintf("ok:free-calls=%d", freed)
		fmt.Fprintf(os.Stdout, "@3\n")
		out[3] = call(func() ([]uint64, error) { return live.ExportedFunction("load").Call(ctx, 8) })
	}
	run(false, twin)
	run(true, obs)
	b, _ := json.Marshal(map[string]any{"obs": obs, "twin": twin})
	fmt.Fprintf(os.Stdout, "%s\n", b)
}

func probe(ctx context.Context, engine string, h *History) {
	if strings.HasPrefix(h.Probe, "alloc") {
		probeAlloc(ctx, engine, h)
		return
	}
	obs := make([]string, 4)
	twin := make([]string, 4)
	run := func(closeB bool, out []string) {
		var rc wazero.RuntimeConfig
		if engine == "compiler" {
			rc = wazero.NewRuntimeConfigCompiler()
		} else {
			rc = wazero.NewRuntimeConfigInterpreter()
		}
		r := wazero.NewRuntimeWithConfig(ctx, rc)
		ca, err := r.CompileModule(ctx, probeA())
		if err != nil {
			panic(err)
		}
		a, err := r.InstantiateModule(ctx, ca, wazero.NewModuleConfig().WithName("a"))
		if err != nil {
			panic(err)
		}
		call := func(name string, f func() ([]uint64, error)) string {
			res, err := f()
			if err != nil {
				return "e:" + errClass(err)
			}
			if len(res) == 0 {
				return "ok"
			}
			return fmt.Sprintf("v:%d", uint32(res[0]))
		}
		func() {
			cb, err := r.CompileModule(ctx, probeB())
			if err != nil {
				panic(err)
			}
			b, err := r.InstantiateModule(ctx, cb, wazero.NewModuleConfig().WithName("b"))
			if err != nil {
				panic(err)
			}
			fmt.Fprintf(os.Stdout, "@0\n")
			out[0] = call("put", func() ([]uint64, error) { return b.ExportedFunction("put").Call(ctx) })
			fmt.Fprintf(os.Stdout, "@1\n")
			out[1] = call("callit", func() ([]uint64, error) { return a.ExportedFunction("callit").Call(ctx) })
			if closeB {
				b.Close(ctx)
				cb.Close(ctx)
			}
		}()
		fmt.Fprintf(os.Stdout, "@2\n")
		if closeB {
			forceGC(2)
		}
		out[2] = "ok"
		fmt.Fprintf(os.Stdout, "@3\n")
		out[3] = call("callit", func() ([]uint64, error) { return a.ExportedFunction("callit").Call(ctx) })
	}
	run(false, twin)
	run(true, obs)
	b, _ := json.Marshal(map[string]any{"obs": obs, "twin": twin})
	fmt.Fprintf(os.Stdout, "%s\n", b)
}
