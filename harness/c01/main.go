// C01 correspondence harness: generated valid programs x argument vectors x call histories on the
// interpreter and the compiler; observations are printed with the program's Coq term so that the
// reference semantics can be evaluated on the same input inside Coq.
package main

import (
	"context"
	"encoding/hex"
	"flag"
	"fmt"
	"sync"

	"github.com/tetratelabs/wazero"
	"github.com/tetratelabs/wazero/api"
	c "github.com/tetratelabs/wazero/internal/zz_verif/common"
)

type EngObs struct {
	Obs     []c.CallObs `json:"obs"`
	HLog    [][]uint64  `json:"hlog"`
	Globals []uint64    `json:"globals"`
	Mem     [][2]uint32 `json:"mem"`
	Pages   uint32      `json:"pages"`
	Err     string      `json:"err,omitempty"`
}

type Case struct {
	ID      int               `json:"id"`
	Store   string            `json:"store"`
	HRes    [][]int           `json:"hres"`
	Calls   [][]uint64        `json:"calls"`
	Engines map[string]EngObs `json:"engines"`
	Wasm    string            `json:"wasm"`
	NInstr  int               `json:"ninstr"`
}

func runOn(ctx context.Context, engine string, m *c.ModSpec, bin []byte, calls [][]uint64) (eo EngObs) {
	defer func() {
		if e := recover(); e != nil {
			eo.Err = fmt.Sprint("PANIC: ", e)
		}
	}()
	var rc wazero.RuntimeConfig
	if engine == "compiler" {
		rc = wazero.NewRuntimeConfigCompiler()
	} else {
		rc = wazero.NewRuntimeConfigInterpreter()
	}
	r := wazero.NewRuntimeWithConfig(ctx, rc)
	defer r.Close(ctx)
	log := &c.HostLog{}
	if err := c.InstantiateEnv(ctx, r, m, log); err != nil {
		eo.Err = "env: " + err.Error()
		return
	}
	mod, err := r.InstantiateWithConfig(ctx, bin, wazero.NewModuleConfig().WithName("m"))
	if err != nil {
		eo.Err = "instantiate: " + err.Error()
		return
	}
	for _, cl := range calls {
		fi := int(cl[0])
		f := mod.ExportedFunction(fmt.Sprintf("f%d", fi))
		res, err := f.Call(ctx, cl[1:]...)
		if err != nil {
			eo.Obs = append(eo.Obs, c.CallObs{Trap: c.TrapClass(err)})
		} else {
			eo.Obs = append(eo.Obs, c.CallObs{Res: c.MaskRes(res, m.FuncSig(fi).R)})
		}
	}
	eo.HLog = log.Events
	for i, t := range m.Globals {
		v := mod.ExportedGlobal(fmt.Sprintf("g%d", i)).Get()
		if t == c.I32 {
			v &= 0xffffffff
		}
		eo.Globals = append(eo.Globals, v)
	}
	if m.HasMem {
		mem := mod.Memory()
		eo.Mem = c.NonZero(mem, 4096)
		eo.Pages, _ = mem.Grow(0)
	}
	return
}

var _ api.Module

func main() {
	seed := flag.Uint64("seed", 1, "")
	n := flag.Int("n", 100, "")
	flag.Parse()
	ctx := context.Background()
	rng := c.NewRng(*seed)
	out := c.NewOut()
	defer out.Flush()
	cases := make([]Case, *n)
	mods := make([]*c.ModSpec, *n)
	bins := make([][]byte, *n)
	for i := 0; i < *n; i++ {
		g := &c.Gen{R: rng, OOBRate: 1 + rng.Intn(3), TrapRate: 4 + rng.Intn(8)}
		m := g.Program(2 + rng.Intn(4))
		carry := -1
		if i%2 == 0 { // every other module also has a loop with a shift register of carried locals
			m.Funcs = append(m.Funcs, c.CarryFunc(m, rng))
			carry = len(m.Hosts) + len(m.Funcs) - 1
		}
		wrapf := -1
		if m.HasMem && i%4 < 2 {
			m.Funcs = append(m.Funcs, c.WrapAddrFunc(m))
			wrapf = len(m.Hosts) + len(m.Funcs) - 1
		}
		bin := m.Encode()
		var calls [][]uint64
		if wrapf >= 0 { // upper half set, lower half in bounds
			calls = append(calls, []uint64{uint64(wrapf), 1<<32 | uint64(8*rng.Intn(64))}, []uint64{uint64(wrapf), uint64(rng.Intn(3))<<40 | 16})
		}
		if carry >= 0 {
			for _, nn := range []uint64{rng.Pick([]uint64{2, 3, 4, 5, 9}), rng.Pick([]uint64{0, 1, 2})} {
				calls = append(calls, []uint64{uint64(carry), nn})
			}
		}
		for k := 3 + rng.Intn(5); k > 0; k-- {
			nrand := len(m.Funcs)
			if carry >= 0 {
				nrand-- // the carry function loops n times: it is only called with the small counts above
			}
			if wrapf >= 0 {
				nrand-- // it comes last; random i64 arguments are fine but it has its own calls
			}
			fi := len(m.Hosts) + rng.Intn(nrand)
			cl := []uint64{uint64(fi)}
			for _, t := range m.FuncSig(fi).P {
				var v uint64
				switch rng.Intn(3) {
				case 0:
					v = rng.U64()
				case 1:
					v = uint64(rng.Intn(70))
				default:
					v = rng.Pick([]uint64{0, 1, 0x7fffffff, 0x80000000, 0xffffffff, 0x100000000, 1 << 63, 1<<64 - 1, 65535, 65536})
				}
				if t == c.I32 {
					v &= 0xffffffff
				}
				cl = append(cl, v)
			}
			calls = append(calls, cl)
		}
		var hres [][]int
		for _, h := range m.Hosts {
			ws := []int{}
			for _, t := range h.Sig.R {
				if t == c.I64 {
					ws = append(ws, 64)
				} else {
					ws = append(ws, 32)
				}
			}
			hres = append(hres, ws)
		}
		ni := 0
		for _, f := range m.Funcs {
			ni += len(f.Body)
		}
		cases[i] = Case{ID: i, Store: m.CoqStore(), HRes: hres, Calls: calls, Wasm: hex.EncodeToString(bin), NInstr: ni, Engines: map[string]EngObs{}}
		mods[i], bins[i] = m, bin
	}
	var wg sync.WaitGroup
	var mu sync.Mutex
	sem := make(chan struct{}, 12)
	for i := range cases {
		for _, eng := range []string{"interp", "compiler"} {
			wg.Add(1)
			sem <- struct{}{}
			go func(i int, eng string) {
				defer wg.Done()
				defer func() { <-sem }()
				eo := runOn(ctx, eng, mods[i], bins[i], cases[i].Calls)
				mu.Lock()
				cases[i].Engines[eng] = eo
				mu.Unlock()
			}(i, eng)
		}
	}
	wg.Wait()
	for i := range cases {
		out.Emit(cases[i])
	}
}
