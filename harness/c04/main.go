// C04 correspondence harness: generated graphs of 2-4 linked modules (an exporter, importers, an importer of
// both) with import declarations covering compatible and incompatible types/limits/mutability, segments with
// offsets taken from imported globals, out-of-range segments, trapping start functions, and interleaved calls
// that read and write the shared memory/globals/table, on both engines. One JSON case per line: the module
// descriptions (also as Coq terms for Rt/Linking.v), the history and each engine's observations.
package main

import (
	"context"
	"encoding/hex"
	"flag"
	"fmt"
	"strings"
	"sync"

	"github.com/tetratelabs/wazero"
	"github.com/tetratelabs/wazero/api"
	exptable "github.com/tetratelabs/wazero/experimental/table"
	"github.com/tetratelabs/wazero/experimental"
	"github.com/tetratelabs/wazero/internal/wasm"
	"github.com/tetratelabs/wazero/internal/wasmruntime"
	c "github.com/tetratelabs/wazero/internal/zz_verif/common"
)

type Step struct {
	K      string   `json:"k"` // inst | call | snap
	N      int      `json:"n"`
	F      int      `json:"f"`
	Args   []uint64 `json:"args,omitempty"`
	RT     []int    `json:"rt,omitempty"`
	Role   string   `json:"role,omitempty"`
	Probe  string   `json:"probe,omitempty"` // mem | global | table : the step reads what another instance wrote
	Expect *uint64  `json:"expect,omitempty"`
	Need   []int    `json:"need,omitempty"` // instantiations that must be live for the step to run
	Tag    string   `json:"tag,omitempty"`  // pre / post : snapshot around instantiation number Of
	Of     int      `json:"of,omitempty"`
	Live   *LiveProbe `json:"live,omitempty"` // live-frame probe: what runs and what the property says it returns
	ExpectTrap string `json:"expecttrap,omitempty"` // the specification says the call traps with this class
}

// InstSizes: the sizes of everything in one instance's table / memory index spaces (read from the instance itself)
type InstSizes struct {
	N     int   `json:"n"`
	Tabs  []int `json:"tabs"`  // per table index: number of elements
	Pages int   `json:"pages"` // -1: no memory
}

type Obs struct {
	Skip    bool           `json:"skip,omitempty"`
	Code    int            `json:"code"`
	Err     string         `json:"err,omitempty"`
	FailIdx int            `json:"failidx"`
	Cur     map[int]uint32 `json:"cur,omitempty"` // import index -> current pages of the memory it names
	CurT    map[int]uint32 `json:"curt,omitempty"` // import index -> current length of the table it names
	Pre     []InstSizes    `json:"pre,omitempty"`  // live-frame probes: every live instance's sizes right before the call ...
	Post    []InstSizes    `json:"post,omitempty"` // ... and right after it
	Res     []uint64       `json:"res,omitempty"`
	Trap    string         `json:"trap,omitempty"`
	Globals []uint64       `json:"globals,omitempty"`
	Mem     [][2]uint32    `json:"mem,omitempty"`
	Pages   int            `json:"pages"`
}

type ModOut struct {
	N       int        `json:"n"`
	Coq     string     `json:"coq"`
	Wasm    string     `json:"wasm"`
	Fault   string     `json:"fault"`
	Imports []Import   `json:"imports"`
	Datas   [][]uint64 `json:"datas"` // resolved offset, bytes...
	NElems  int        `json:"nelems"`
	OwnMem  bool       `json:"ownmem"`
	MemOf   int        `json:"memof"` // owner of the memory the module uses (-1 none)
	NGlob   int        `json:"nglob"`
	GOwner  [][2]int   `json:"gowner"` // per global index: owner module, owner's index
	Start   bool       `json:"start"`
	NImpF   int        `json:"nimpf"`
	GInit   []*uint64  `json:"ginit"` // per global index: the value right after instantiation, when known by design
	Host    bool       `json:"host,omitempty"` // live-frame family: the host module (functions in Case.Hosts)
	Tabs    [][2]int   `json:"tabs"`           // per table index: the table by design identity (owner module, index there)
}

type Case struct {
	ID      int             `json:"id"`
	Limit   uint32          `json:"limit"`
	Mods    []ModOut        `json:"mods"`
	Steps   []Step          `json:"steps"`
	Engines map[string][]Obs `json:"engines"`
	Witness string          `json:"witness,omitempty"`
	Fam     string          `json:"fam,omitempty"`     // "live": the live-frame family (step kind hinst, host functions)
	Threads bool            `json:"threads,omitempty"` // some memory type is shared: the runtime enables the threads proposal
	NoModel bool            `json:"nomodel,omitempty"` // uses instructions outside W (table.set/grow): engines and oracle only
	Hosts   []HostFn        `json:"hosts,omitempty"`
	Blind   int             `json:"blind,omitempty"` // live-frame family: the instance that never sees the shared object (0: none)
	lm      []*LMod
	bins    [][]byte
}

// ---------------------------------------------------------------- graph generation
type graph struct {
	r    *c.Rng
	mods []*LMod
	// witness control: the next importer also imports function forceName of module forceMod; with forceType0 that
	// import is declared with the exporter MODULE's type 0 (the confusion the seeded typeOfFunction defect produces)
	forceMod   int
	forceName  string
	forceType0 bool
	forceShared bool // witness control: the faulty import is the memory import, with the other sharedness
	tgrowBy     uint32 // witness w-table-grown: by how much the exporter's table grows before it is imported
}

func (g *graph) newMod() *LMod {
	m := &LMod{N: len(g.mods), View: &c.ModSpec{}, Start: -1, Fault: "none"}
	m.Name = fmt.Sprintf("m%d", m.N)
	// the module's type 0 is often unrelated to the functions it imports and re-exports
	switch g.r.Intn(4) {
	case 0:
		m.View.TypeIdx(c.Sig{})
	case 1:
		m.View.TypeIdx(c.Sig{P: []byte{c.I64}, R: []byte{c.I64}})
	case 2:
		m.View.TypeIdx(c.Sig{P: []byte{c.I32, c.I64}, R: []byte{c.I64}})
	}
	g.mods = append(g.mods, m)
	return m
}

func (g *graph) exporter(witness string) *LMod {
	r := g.r
	m := g.newMod()
	m.OwnMem, m.MMin = true, uint32(1+r.Intn(2))
	if r.Intn(3) != 0 && witness != "w-maxlimit" {
		m.MHasMax, m.MMax = true, m.MMin+uint32(r.Pick([]uint64{0, 1, 3, 6}))
		if witness == "w-grown" {
			m.MMax = m.MMin + 3
		}
	}
	if witness == "w-shared" || (witness == "" && r.Intn(6) == 0) { // a shared memory (threads proposal): the maximum is mandatory
		m.MShared = true
		if !m.MHasMax {
			m.MHasMax, m.MMax = true, m.MMin+uint32(r.Pick([]uint64{1, 3, 6}))
		}
	}
	if witness == "w-unshared" && !m.MHasMax { // the importer will declare it shared, which needs a maximum that matches
		m.MHasMax, m.MMax = true, m.MMin+uint32(r.Pick([]uint64{1, 3, 6}))
	}
	m.MObj = &Obj{Kind: 2, Owner: m.N, Min: m.MMin, HasMax: m.MHasMax, Max: m.MMax, Shared: m.MShared}
	m.OwnTab, m.TMin = true, uint32(4+r.Intn(5))
	if r.Bool() {
		m.THasMax, m.TMax = true, m.TMin+uint32(r.Pick([]uint64{0, 2, 12}))
	}
	if witness == "w-table-grown" {
		g.tgrowBy = uint32(1 + r.Intn(3))
		if m.THasMax && m.TMax < m.TMin+g.tgrowBy+1 { // room to grow
			m.TMax = m.TMin + g.tgrowBy + uint32(1+r.Intn(2))
		}
	}
	m.TObj = &Obj{Kind: 1, Owner: m.N, Min: m.TMin, HasMax: m.THasMax, Max: m.TMax, Elem: c.FuncRef}
	addG := func(mut bool, t byte, v uint64) {
		if t == c.I32 {
			v &= 0xffffffff
		}
		m.Globals = append(m.Globals, GDef{Mut: mut, T: t, Init: CE{V: v, T: t}})
		m.GObj = append(m.GObj, &Obj{Kind: 3, Owner: m.N, Idx: len(m.Globals) - 1, Mut: mut, VT: t, Val: v})
	}
	addG(true, c.I32, uint64(r.Intn(50)))
	addG(true, c.I64, r.Pick([]uint64{5, 0x1ffffffff, r.U64()}))
	addG(false, c.I32, uint64(r.Intn(3)))
	addG(false, c.I64, r.Pick([]uint64{9, 0xabcdef0123456789, r.U64()}))
	addG(false, c.I32, r.Pick([]uint64{0x7ffffff0, 0xffffffff, 0x80000000, 0xfffffff0})) // an offset no segment can have
	addG(true, c.I32, uint64(1+r.Intn(2)))                                               // mutable and small
	m.addKit(r, 3, 2)
	if witness == "w-table-grown" { // table.grow is outside W: the check renders calls of this function as the model's ATabGrow action
		sg := c.Sig{P: []byte{c.I32}, R: []byte{c.I32}}
		m.Funcs = append(m.Funcs, &Fn{Sig: sg, Role: "tgrow", Body: []c.Ins{rawIns(0xd0, c.FuncRef), c.ILocalGet(0), rawIns(0xfc, 15, 0)}})
		m.FObj = append(m.FObj, &Obj{Kind: 0, Owner: m.N, Idx: len(m.Funcs) - 1, Sig: sg, Role: "tgrow"})
	}
	g.segments(m, "none")
	if witness == "w-elem-null" { // slot 1 surely holds a function
		m.Elems = append(m.Elems, ElemSeg{Off: CE{V: 1, T: c.I32}, Funcs: []int{leaves(m)[0]}, ROff: 1})
	}
	m.finish()
	return m
}

// leaf functions (i32)->i32 visible in m's function index space
func leaves(m *LMod) []int {
	var o []int
	for i, f := range m.FObj {
		if f.IsLeaf {
			o = append(o, i)
		}
	}
	return o
}

func (g *graph) segments(m *LMod, fault string) {
	r := g.r
	var smallG, bigG, mutG []int // imported immutable i32 globals usable as offsets
	for i := 0; i < m.NImpG; i++ {
		o := m.GObj[i]
		if o.VT == c.I32 && !o.Mut {
			if o.Val < 4 {
				smallG = append(smallG, i)
			} else if o.Val >= 0x7ffffff0 {
				bigG = append(bigG, i)
			}
		}
		if o.VT == c.I32 && o.Mut {
			mutG = append(mutG, i)
		}
	}
	if m.HasTab() {
		ls := leaves(m)
		tmin := int(m.TObj.Min)
		n := r.Intn(3)
		if fault == "elem" && n == 0 {
			n = 1
		}
		bad := -1
		if fault == "elem" {
			bad = r.Intn(n)
		}
		for i := 0; i < n && len(ls) > 0; i++ {
			cnt := 1 + r.Intn(2)
			var fs []int
			for j := 0; j < cnt; j++ {
				fs = append(fs, ls[r.Intn(len(ls))])
			}
			var off CE
			switch {
			case i == bad && len(bigG) > 0 && r.Bool():
				k := bigG[r.Intn(len(bigG))]
				off = CE{Get: true, K: k}
			case i == bad:
				off = CE{V: uint64(tmin - cnt + 1 + r.Intn(2)), T: c.I32}
			case len(smallG) > 0 && r.Intn(3) == 0 && tmin >= 3+cnt:
				off = CE{Get: true, K: smallG[r.Intn(len(smallG))]}
			default:
				off = CE{V: uint64(r.Intn(tmin - cnt + 1)), T: c.I32}
			}
			ro := off.V
			if off.Get {
				ro = m.GObj[off.K].Val
			}
			m.Elems = append(m.Elems, ElemSeg{Off: off, Funcs: fs, ROff: ro})
		}
		if fault == "mutoff" && len(mutG) > 0 && len(ls) > 0 {
			m.Elems = append(m.Elems, ElemSeg{Off: CE{Get: true, K: mutG[0]}, Funcs: []int{ls[0]}, ROff: 0})
		}
	}
	if m.HasMem() {
		lo := int(m.MObj.Min) * 65536
		n := r.Intn(4)
		if fault == "data" && n == 0 {
			n = 1
		}
		bad := -1
		if fault == "data" {
			bad = r.Intn(n)
		}
		for i := 0; i < n; i++ {
			bs := make([]byte, r.Intn(9))
			for j := range bs {
				bs[j] = byte(1 + r.Intn(255))
			}
			var off CE
			switch {
			case i == bad && len(bigG) > 0 && r.Bool():
				off = CE{Get: true, K: bigG[r.Intn(len(bigG))]}
			case i == bad && m.MObj.HasMax && m.MObj.Max == m.MObj.Min && r.Bool():
				off = CE{V: uint64(lo - len(bs) + 1), T: c.I32} // the memory cannot grow: exactly one byte too far
			case i == bad:
				off = CE{V: r.Pick([]uint64{0x7fffff00, 0xffffffff, 0x80000000, 0xfffffff8}), T: c.I32}
			case len(smallG) > 0 && r.Intn(3) == 0:
				off = CE{Get: true, K: smallG[r.Intn(len(smallG))]}
			case r.Intn(5) == 0:
				off = CE{V: uint64(lo - len(bs)), T: c.I32} // ends exactly at the declared minimum
			default:
				off = CE{V: uint64(r.Intn(200)), T: c.I32}
			}
			ro := off.V
			if off.Get {
				ro = m.GObj[off.K].Val
			}
			m.Datas = append(m.Datas, DataSeg{Off: off, Bytes: bs, ROff: ro})
		}
	}
}

func flipVT(t byte) byte {
	if t == c.I32 {
		return c.I64
	}
	return c.I32
}

// importer builds a module importing from the given registered-by-design modules.
func (g *graph) importer(exps []*LMod, fault string) *LMod {
	r := g.r
	m := g.newMod()
	m.Fault = fault
	add := func(x *LMod, name string) *Import {
		o := x.Exports[name]
		im := Import{Mod: x.N, Name: name, Kind: o.Kind, obj: o, Variant: "ok"}
		switch o.Kind {
		case 0:
			im.Sig = o.Sig
		case 1, 2:
			im.Elem = o.Elem
			im.Min = uint32(r.Intn(int(o.Min) + 1))
			if r.Bool() {
				im.Min = o.Min
			}
			if o.HasMax && r.Intn(3) != 0 {
				im.HasMax, im.Max = true, o.Max+uint32(r.Pick([]uint64{0, 0, 1, 100}))
			}
			if o.Kind == 2 && o.Shared { // a shared memory type always declares a maximum
				im.Shared = true
				if !im.HasMax {
					im.HasMax, im.Max = true, o.Max+uint32(r.Pick([]uint64{0, 0, 1, 100}))
				}
			}
		case 3:
			im.Mut, im.VT = o.Mut, o.VT
		}
		m.Imports = append(m.Imports, im)
		return &m.Imports[len(m.Imports)-1]
	}
	pick := func() *LMod { return exps[r.Intn(len(exps))] }
	// functions first is not required by the binary format; the order of the import section is kept as generated
	if r.Intn(5) != 0 {
		x := pick()
		if x.HasMem() {
			add(x, "mem")
			m.MObj = x.MObj
		}
	}
	if m.MObj == nil && r.Bool() {
		m.OwnMem, m.MMin = true, 1
		if r.Bool() {
			m.MHasMax, m.MMax = true, uint32(1+r.Intn(3))
		}
		if m.MHasMax && r.Intn(6) == 0 {
			m.MShared = true
		}
		m.MObj = &Obj{Kind: 2, Owner: m.N, Min: 1, HasMax: m.MHasMax, Max: m.MMax, Shared: m.MShared}
	}
	if r.Intn(5) != 0 {
		x := pick()
		if x.HasTab() {
			add(x, "tab")
			m.TObj = x.TObj
		}
	}
	if m.TObj == nil && r.Bool() {
		m.OwnTab, m.TMin = true, uint32(2+r.Intn(4))
		m.TObj = &Obj{Kind: 1, Owner: m.N, Min: m.TMin, Elem: c.FuncRef}
	}
	for _, x := range exps {
		for i := range x.GObj {
			if r.Intn(3) == 0 && m.NImpG < 6 {
				add(x, fmt.Sprintf("g%d", i))
				m.GObj = append(m.GObj, x.GObj[i])
				m.NImpG++
			}
		}
	}
	for k := 1 + r.Intn(3); k > 0; k-- {
		x := pick()
		i := r.Intn(len(x.FObj))
		if x.FObj[i].Role == "grow" || x.FObj[i].Role == "start" || x.FObj[i].Role == "tgrow" {
			continue
		}
		add(x, fmt.Sprintf("f%d", i))
		m.FObj = append(m.FObj, x.FObj[i])
		m.NImpF++
	}
	if g.forceName != "" {
		x := g.mods[g.forceMod]
		add(x, g.forceName)
		var k int
		fmt.Sscanf(g.forceName[1:], "%d", &k)
		m.FObj = append(m.FObj, x.FObj[k])
		m.NImpF++
	}
	// the import section interleaves the kinds at random (the order within one kind, i.e. the index spaces, is kept)
	{
		var byKind [4][]Import
		for _, im := range m.Imports {
			byKind[im.Kind] = append(byKind[im.Kind], im)
		}
		var mixed []Import
		for len(mixed) < len(m.Imports) {
			k := r.Intn(4)
			if len(byKind[k]) > 0 {
				mixed = append(mixed, byKind[k][0])
				byKind[k] = byKind[k][1:]
			}
		}
		m.Imports = mixed
	}
	// one deliberately incompatible / risky import
	if fault == "import" && len(m.Imports) > 0 {
		pos := r.Intn(len(m.Imports))
		if g.forceName != "" && g.forceType0 {
			for i, x := range m.Imports {
				if x.Kind == 0 && x.Mod == g.forceMod && x.Name == g.forceName {
					pos = i
				}
			}
		} else if r.Intn(5) < 3 { // limits are where the interesting comparisons are: prefer the memory / table import
			var lim []int
			for i, x := range m.Imports {
				if x.Kind == 1 || x.Kind == 2 {
					lim = append(lim, i)
				}
			}
			if len(lim) > 0 {
				pos = lim[r.Intn(len(lim))]
			}
		}
		im := &m.Imports[pos]
		o := im.obj
		slot := 0 // position of the import in its own index space
		for _, x := range m.Imports[:pos] {
			if x.Kind == o.Kind {
				slot++
			}
		}
		switch o.Kind {
		case 0:
			s := c.Sig{P: append([]byte{}, o.Sig.P...), R: append([]byte{}, o.Sig.R...)}
			t0 := g.mods[im.Mod].View.Types
			im.Variant = "sig"
			switch k := r.Intn(6); {
			case (k >= 4 || g.forceType0) && len(t0) > 0 && t0[0].Key() != o.Sig.Key():
				// declared with the exporter module's type 0: wrong, and exactly what a confused exporter would report
				s = c.Sig{P: append([]byte{}, t0[0].P...), R: append([]byte{}, t0[0].R...)}
				im.Variant = "sig-type0"
			case k == 0 && len(s.P) > 0:
				j := r.Intn(len(s.P))
				s.P[j] = flipVT(s.P[j])
			case k == 1 && len(s.R) > 0:
				s.R[0] = flipVT(s.R[0])
			case k == 2:
				s.P = append(s.P, c.I32)
			default:
				s.R = append(s.R, c.I64)
			}
			im.Sig = s
			m.FObj[slot] = &Obj{Kind: 0, Owner: -1, Sig: s} // the module is written against its own declaration
		case 1, 2:
			vs := []string{"min+1", "min+5", "kind", "noname"}
			if o.HasMax {
				vs = append(vs, "max-1", "max-1")
				if o.Max > o.Min {
					vs = append(vs, "max=min")
				}
			} else {
				vs = append(vs, "max-vs-none", "max-vs-none")
				if o.Kind == 2 {
					vs = append(vs, "max-at-limit")
				}
			}
			if o.Kind == 1 {
				vs = append(vs, "elem")
			}
			if o.Kind == 2 && (o.Shared || o.HasMax) { // declaring a memory shared needs a maximum, and the limits are to match
				vs = append(vs, "shared-flip", "shared-flip")
			}
			im.Variant = vs[r.Intn(len(vs))]
			if g.forceShared && o.Kind == 2 && (o.Shared || o.HasMax) {
				im.Variant = "shared-flip"
			}
			switch im.Variant {
			case "min+1":
				im.Min = o.Min + 1
				if im.HasMax && im.Max < im.Min {
					im.Max = im.Min
				}
			case "min+5":
				im.Min = o.Min + 5
				if im.HasMax && im.Max < im.Min {
					im.Max = im.Min
				}
			case "max-1":
				im.HasMax, im.Max = true, o.Max-1
				if im.Min > im.Max {
					im.Min = im.Max
				}
			case "max=min":
				im.HasMax, im.Max = true, o.Min
				if im.Min > im.Max {
					im.Min = im.Max
				}
			case "max-vs-none":
				im.HasMax, im.Max = true, o.Min+uint32(r.Intn(4))
			case "shared-flip": // limits that match, the other sharedness: all the specification objects to is the flag
				im.Shared = !o.Shared
				if im.Shared {
					im.HasMax, im.Max = true, o.Max+uint32(r.Pick([]uint64{0, 0, 2}))
				}
			case "max-at-limit":
				im.HasMax, im.Max = true, 65536
			case "elem":
				im.Elem = c.ExternRef
				m.TObj = nil // an externref table: the module makes no indirect calls and has no element segments
			case "kind": // the export is a table/memory, the import asks for a global of that name
				im.Kind, im.Mut, im.VT, im.Shared = 3, false, c.I32, false
				if o.Kind == 1 {
					m.TObj = nil
				} else {
					m.MObj = nil
				}
				// moved to the end of the import section: the new global is the last imported one
				moved := *im
				m.Imports = append(append(m.Imports[:pos:pos], m.Imports[pos+1:]...), moved)
				im = &m.Imports[len(m.Imports)-1]
				m.GObj = append(m.GObj, &Obj{Kind: 3, Owner: -1, VT: c.I32})
				m.NImpG++
			case "noname":
				im.Name = "nope"
			}
		case 3:
			if r.Bool() {
				im.Mut, im.Variant = !o.Mut, "mut"
			} else {
				im.VT, im.Variant = flipVT(o.VT), "vt"
			}
			m.GObj[slot] = &Obj{Kind: 3, Owner: -1, Mut: im.Mut, VT: im.VT, Val: o.Val} // as declared
		}
	}
	if fault == "nomod" && len(m.Imports) > 0 {
		im := &m.Imports[r.Intn(len(m.Imports))]
		im.Mod, im.Variant = 9, "nomod"
	}
	// fill the exporter-side description for the oracle
	g.fillX(m)
	// own globals: constants or the current value of an imported immutable global
	for k := 1 + r.Intn(3); k > 0; k-- {
		t := []byte{c.I32, c.I64}[r.Intn(2)]
		mut := r.Bool()
		var cands []int
		for i := 0; i < m.NImpG; i++ {
			if !m.GObj[i].Mut && m.GObj[i].VT == t {
				cands = append(cands, i)
			}
		}
		var init CE
		var val uint64
		if len(cands) > 0 && r.Intn(3) != 0 {
			k := cands[r.Intn(len(cands))]
			init, val = CE{Get: true, K: k}, m.GObj[k].Val
		} else {
			val = r.Pick([]uint64{0, 1, 3, 77, 0xffffffff, r.U64()})
			if t == c.I32 {
				val &= 0xffffffff
			}
			init = CE{V: val, T: t}
		}
		m.Globals = append(m.Globals, GDef{Mut: mut, T: t, Init: init})
		m.GObj = append(m.GObj, &Obj{Kind: 3, Owner: m.N, Idx: len(m.Globals) - 1, Mut: mut, VT: t, Val: val})
	}
	m.addKit(r, 2, 1+r.Intn(2))
	if fault == "start" || r.Intn(4) == 0 {
		var body []c.Ins
		if m.HasMem() {
			body = append(body, c.IConst(c.I32, uint64(300+r.Intn(50))), c.IConst(c.I32, uint64(0x01010101*uint32(1+r.Intn(200)))), c.IStore(c.I32, 4, 0))
		}
		for i, o := range m.GObj {
			if o.Mut && r.Bool() {
				body = append(body, c.IConst(o.VT, uint64(1000+r.Intn(1000))), c.IGlobalSet(i))
			}
		}
		if fault == "start" {
			body = append(body, c.IUnreachable)
		}
		m.Funcs = append(m.Funcs, &Fn{Sig: c.Sig{}, Role: "start", Body: body})
		m.FObj = append(m.FObj, &Obj{Kind: 0, Owner: m.N, Idx: len(m.Funcs) - 1, Role: "start"})
		m.Start = m.NImpF + len(m.Funcs) - 1
	}
	g.segments(m, fault)
	m.finish()
	return m
}

// role of the function an object denotes, looking through wrappers of imports
func (g *graph) role(o *Obj) (string, *LMod) {
	for o.Role == "wrap" {
		o = g.mods[o.Owner].FObj[o.Arg]
	}
	if o.Owner < 0 { // stands for an import declared with another type: the module never links
		return "", g.mods[0]
	}
	return o.Role, g.mods[o.Owner]
}

func (g *graph) callStep(n int, fi int) Step {
	r := g.r
	m := g.mods[n]
	o := m.FObj[fi]
	role, def := g.role(o)
	st := Step{K: "call", N: n, F: fi, Role: role, Need: []int{n}}
	lo := uint64(65536)
	if def.MObj != nil {
		lo = uint64(def.MObj.Min) * 65536
	}
	adr := func() uint64 {
		return r.Pick([]uint64{uint64(r.Intn(64)), uint64(r.Intn(400)), uint64(r.Intn(int(lo) - 8)), lo - 8, lo - 4, lo - 1, lo, lo + 65536, 0xffffffff})
	}
	for i, t := range o.Sig.P {
		v := r.Pick([]uint64{0, 1, 2, 5, 0xffffffff, 0x80000000, r.U64(), uint64(r.Intn(70))})
		switch {
		case role == "grow":
			v = uint64(r.Intn(3))
		case (role == "ld8" || role == "ld64" || role == "st32" || role == "st64") && i == 0:
			v = adr()
		case (role == "calli" || role == "calli64") && i == 0:
			v = uint64(r.Intn(10))
		}
		if t == c.I32 {
			v &= 0xffffffff
		}
		st.Args = append(st.Args, v)
	}
	for _, t := range o.Sig.R {
		st.RT = append(st.RT, w(t))
	}
	return st
}

// hostCallHazard: function fi of m is an import whose direct exporter imports functions itself. Calling such a
// re-exported function from the host resolved to the wrong function under the compiler (repaired in 5c1e7ea;
// regression witness w-reexport, sig "reexported-import-host-call").
func (g *graph) hostCallHazard(m *LMod, fi int) bool {
	if fi >= m.NImpF {
		return false
	}
	k := 0
	for _, im := range m.Imports {
		if im.Kind == 0 {
			if k == fi {
				return im.Mod < len(g.mods) && g.mods[im.Mod].NImpF > 0
			}
			k++
		}
	}
	return false
}

// chainHazard: the import reaches its definer through a re-exporting module, and the definer imports functions
// (the same defect on wasm-to-wasm calls: three-level chain)
func (g *graph) chainHazard(m *LMod, fi int) bool {
	if fi >= m.NImpF || m.FObj[fi].Owner < 0 {
		return false
	}
	k := 0
	for _, im := range m.Imports {
		if im.Kind == 0 {
			if k == fi {
				return im.Mod != m.FObj[fi].Owner && g.mods[m.FObj[fi].Owner].NImpF > 0
			}
			k++
		}
	}
	return false
}

func (g *graph) randomCalls(steps *[]Step, live []int, k int) {
	for ; k > 0; k-- {
		n := live[g.r.Intn(len(live))]
		m := g.mods[n]
		fi := g.r.Intn(len(m.FObj))
		for m.FObj[fi].Role == "tgrow" { // witness w-table-grown grows its table exactly once, by one
			fi = g.r.Intn(len(m.FObj))
		}
		*steps = append(*steps, g.callStep(n, fi))
	}
}

func snaps(steps *[]Step, live []int, tag string, of int) {
	for _, n := range live {
		*steps = append(*steps, Step{K: "snap", N: n, Need: []int{n}, Tag: tag, Of: of})
	}
}

func u64p(v uint64) *uint64 { return &v }

// probes: a write through one instance followed by a read through another one that shares the object by design
func (g *graph) probes(steps *[]Step, live []int, justInst int) {
	r := g.r
	for _, a := range live {
		for _, b := range live {
			if a == b {
				continue
			}
			x, y := g.mods[a], g.mods[b]
			if x.MObj != nil && x.MObj == y.MObj && r.Intn(2) == 0 {
				addr, v := uint64(r.Intn(int(x.MObj.Min)*65536-8)), r.U64()|1
				*steps = append(*steps,
					Step{K: "call", N: a, F: x.findFn("st64", -1), Args: []uint64{addr, v}, Role: "st64", Need: []int{a, b}},
					Step{K: "call", N: b, F: y.findFn("ld64", -1), Args: []uint64{addr}, RT: []int{64}, Role: "ld64", Need: []int{a, b}, Probe: "mem", Expect: u64p(v)})
			}
			for i, o := range x.GObj {
				if !o.Mut || r.Intn(2) == 0 {
					continue
				}
				for j, p := range y.GObj {
					if p == o {
						v := r.U64() | 1
						if o.VT == c.I32 {
							v &= 0xffffffff
						}
						*steps = append(*steps,
							Step{K: "call", N: a, F: x.findFn("gset", i), Args: []uint64{v}, Role: "gset", Need: []int{a, b}},
							Step{K: "call", N: b, F: y.findFn("gget", j), RT: []int{w(o.VT)}, Role: "gget", Need: []int{a, b}, Probe: "global", Expect: u64p(v)})
						break
					}
				}
			}
		}
	}
	// the element segments of the module just instantiated, read through every other instance sharing the table
	if justInst >= 0 {
		m := g.mods[justInst]
		// (also after an instantiation that fails later, on a data segment or in start: the table was written first)
		if m.TObj != nil && (m.Fault == "none" || m.Fault == "data" || m.Fault == "start") {
			slot := map[uint64]*Obj{}
			for _, e := range m.Elems {
				for i, f := range e.Funcs {
					if f >= 0 {
						slot[e.ROff+uint64(i)] = m.FObj[f]
					}
				}
			}
			for _, b := range live {
				y := g.mods[b]
				if y.TObj != m.TObj {
					continue
				}
				for s, o := range slot {
					if !o.IsLeaf {
						continue
					}
					x := uint64(r.Intn(1000))
					exp := uint64(uint32(x)*o.LeafK + o.LeafC)
					need := []int{b}
					if m.Fault == "none" {
						need = append(need, justInst)
					}
					*steps = append(*steps, Step{K: "call", N: b, F: y.findFn("calli", -1), Args: []uint64{s, x}, RT: []int{32}, Role: "calli",
						Need: need, Probe: "table", Expect: u64p(exp), Of: justInst})
				}
			}
		}
	}
}

var faults = []string{"none", "none", "none", "import", "import", "import", "data", "data", "start", "elem", "nomod"}

func (g *graph) build(id int, witness string) *Case {
	r := g.r
	cs := &Case{ID: id, Limit: 65536, Witness: witness, Engines: map[string][]Obs{}}
	a := g.exporter(witness)
	steps := []Step{{K: "inst", N: a.N}}
	live := []int{a.N}
	g.randomCalls(&steps, live, 2+r.Intn(4))
	if witness == "w-grown" { // the exporter grows its memory before anybody imports it: the import minimum is judged against the current size
		st := g.callStep(a.N, a.findFn("grow", -1))
		st.Args = []uint64{1}
		steps = append(steps, st)
	}
	if witness == "w-table-grown" { // ... and likewise its table: the external type of a table instance has its CURRENT size as minimum
		st := g.callStep(a.N, a.findFn("tgrow", -1))
		st.Args = []uint64{uint64(g.tgrowBy)}
		steps = append(steps, st)
	}
	if witness == "w-elem-null" { // slot 1 holds the exporter's first leaf
		o := a.FObj[leaves(a)[0]]
		steps = append(steps, Step{K: "call", N: a.N, F: a.findFn("calli", -1), Args: []uint64{1, 7}, RT: []int{32}, Role: "calli", Need: []int{a.N},
			Probe: "table", Expect: u64p(uint64(7*o.LeafK + o.LeafC)), Of: a.N})
	}
	good := []*LMod{a}
	nimp := 1 + r.Intn(2)
	if witness == "w-elem-null" {
		nimp = 1
	}
	if witness == "w-reexport" {
		nimp = 3
	}
	if witness == "w-typeof" {
		nimp = 2
	}
	nullBy := -1
	for k := 0; k < nimp; k++ {
		f := faults[r.Intn(len(faults))]
		if witness != "" {
			f = witness
		}
		tries := []string{f}
		if f != "none" && f != "w-reexport" && f != "w-elem-null" && !(f == "w-typeof" && k == 0) {
			tries = append(tries, "none") // the repaired variant follows the failing one
		}
		if f == "w-table-grown" { // the current size as minimum (accepted), one more (rejected), then an ordinary importer
			tries = []string{"w-table-grown", "w-table-grown+", "none"}
		}
		for _, ft := range tries {
			var m *LMod
			switch ft {
			case "w-mutoff":
				m = g.importerWith(good, "mutoff", func(m *LMod) bool { return m.TObj != nil && hasMutI32(m) })
			case "w-maxlimit":
				m = g.importerWith(good, "import", func(m *LMod) bool { return hasVariant(m, "max-at-limit") })
			case "w-dataelem":
				m = g.importerWith(good, "data", func(m *LMod) bool { return m.TObj != nil && m.TObj.Owner != m.N && m.MObj != nil && m.MObj.Owner != m.N && len(m.Elems) > 0 })
			case "w-elemoob":
				m = g.importerWith(good, "elem", func(m *LMod) bool { return m.MObj != nil && m.MObj.Owner != m.N && len(m.Datas) > 0 && m.TObj != nil && m.TObj.Owner != m.N })
			case "w-typeof":
				if k == 0 {
					// b: a non-function import sits directly before the import of its function 0, which it re-exports,
					// and b's type 0 is not that function's type
					m = g.importerWith(good, "none", func(m *LMod) bool {
						for p, im := range m.Imports {
							if im.Kind == 0 {
								return p > 0 && m.Imports[p-1].Kind != 0 && len(m.View.Types) > 0 && m.View.Types[0].Key() != m.FObj[0].Sig.Key()
							}
						}
						return false
					})
					ft = "none"
				} else {
					// d: imports b's re-exported function declared with b's type 0 (must be unlinkable); then c (next try) with its real type
					g.forceMod, g.forceName, g.forceType0 = 1, "f0", true
					m = g.importer(good, "import")
					g.forceType0 = false
				}
			case "w-shared", "w-unshared": // the memory import with the other sharedness (class 9), then the repaired variant
				g.forceShared = true
				m = g.importerWith(good, "import", func(m *LMod) bool { return hasVariant(m, "shared-flip") })
				g.forceShared = false
			case "w-grown":
				m = g.importerWith(good, "import", func(m *LMod) bool {
					for _, im := range m.Imports {
						if im.Kind == 2 && im.Variant == "min+1" && im.Mod == 0 {
							return true
						}
					}
					return false
				})
			case "w-table-grown", "w-table-grown+":
				// the table import asks for more than the DECLARED minimum: exactly the current size (matches: the external type of a
				// table instance has its current size as minimum), then one element more than that (rejected, class 4, by the
				// specification too)
				m = g.importerWith(good, "import", func(m *LMod) bool {
					for _, im := range m.Imports {
						if im.Kind == 1 && im.Variant == "min+1" && im.Mod == 0 {
							return true
						}
					}
					return false
				})
				for i := range m.Imports {
					if im := &m.Imports[i]; im.Kind == 1 && im.Variant == "min+1" {
						im.Min, im.Variant = a.TMin+g.tgrowBy, "min=current"
						if ft == "w-table-grown+" {
							im.Min, im.Variant = im.Min+1, "min=current+1"
						}
						if im.HasMax && im.Max < im.Min {
							im.Max = im.Min
						}
					}
				}
			case "w-elem-null": // (elem (i32.const 1) funcref (ref.null func)) on the imported table
				m = g.importerWith(good, "none", func(m *LMod) bool { return m.TObj == a.TObj && m.Start < 0 })
				m.Elems = append(m.Elems, ElemSeg{Off: CE{V: 1, T: c.I32}, Funcs: []int{-1}, ROff: 1})
				nullBy = m.N
				ft = "none"
			case "w-reexport":
				switch k {
				case 0: // M1 defines functions and imports some
					m = g.importerWith(good, "none", func(m *LMod) bool { return m.NImpF > 0 })
				case 1: // M2 imports one of M1's own functions (and re-exports it, as every module does)
					m = g.importerWith(good, "none", func(m *LMod) bool {
						for fi := 0; fi < m.NImpF; fi++ {
							if g.hostCallHazard(m, fi) && m.FObj[fi].Owner == 1 {
								return true
							}
						}
						return false
					})
				default: // M3 imports M1's function from M2
					m = g.importerWith(good, "none", func(m *LMod) bool {
						for fi := 0; fi < m.NImpF; fi++ {
							if g.chainHazard(m, fi) {
								return true
							}
						}
						return false
					})
				}
				ft = "none"
			default:
				m = g.importer(good, ft)
			}
			snaps(&steps, live, "pre", m.N)
			steps = append(steps, Step{K: "inst", N: m.N})
			snaps(&steps, live, "post", m.N)
			steps = append(steps, Step{K: "snap", N: m.N, Need: []int{m.N}, Tag: "self", Of: m.N})
			live = append(live, m.N)
			if ft == "none" {
				good = append(good, m)
			}
			g.probes(&steps, live, m.N)
			if nullBy == m.N { // per the specification slot 1 is null now, for everybody who sees the table
				for _, b := range live {
					if y := g.mods[b]; y.TObj == a.TObj {
						steps = append(steps, Step{K: "call", N: b, F: y.findFn("calli", -1), Args: []uint64{1, uint64(r.Intn(1000))}, RT: []int{32}, Role: "calli",
							Need: []int{b, m.N}, Probe: "table-null", ExpectTrap: "indirect", Of: m.N})
					}
				}
			}
			g.randomCalls(&steps, live, 3+r.Intn(5))
			if witness == "w-reexport" {
				for fi := 0; fi < m.NImpF; fi++ {
					if g.hostCallHazard(m, fi) || g.chainHazard(m, fi) {
						a, b := g.callStep(m.N, fi), g.callStep(m.N, m.findFn("wrap", fi))
						a.Tag, b.Tag = "reexport", "reexport"
						steps = append(steps, a, b)
					}
				}
			}
		}
	}
	g.forceName = ""
	snaps(&steps, live, "final", -1)
	cs.Steps = steps
	cs.lm = g.mods
	for _, m := range g.mods {
		if m.MShared {
			cs.Threads = true
		}
		for _, im := range m.Imports {
			if im.Shared {
				cs.Threads = true
			}
		}
	}
	for _, m := range g.mods {
		bin := m.Encode()
		cs.bins = append(cs.bins, bin)
		mo := ModOut{N: m.N, Wasm: hex.EncodeToString(bin), Coq: m.Coq(), Fault: m.Fault, Imports: m.Imports, NElems: len(m.Elems),
			OwnMem: m.OwnMem, MemOf: -1, NGlob: len(m.GObj), Start: m.Start >= 0, NImpF: m.NImpF}
		if m.Imports == nil {
			mo.Imports = []Import{}
		}
		if m.MObj != nil {
			mo.MemOf = m.MObj.Owner
		}
		mo.Tabs = m.tabIdents()
		startSets := false
		if m.Start >= 0 {
			for _, in := range m.Funcs[m.Start-m.NImpF].Body {
				if strings.HasPrefix(in.Coq, "GlobalSet") {
					startSets = true
				}
			}
		}
		for gi, o := range m.GObj {
			mo.GOwner = append(mo.GOwner, [2]int{o.Owner, o.Idx})
			switch {
			case o.Owner < 0:
				mo.GInit = append(mo.GInit, nil)
			case !o.Mut: // immutable: the value its definer computed, whatever happened since
				mo.GInit = append(mo.GInit, u64p(o.Val))
			case gi >= m.NImpG && !startSets: // own mutable global, not yet touched
				mo.GInit = append(mo.GInit, u64p(o.Val))
			default:
				mo.GInit = append(mo.GInit, nil)
			}
		}
		for _, d := range m.Datas {
			row := []uint64{d.ROff}
			for _, b := range d.Bytes {
				row = append(row, uint64(b))
			}
			mo.Datas = append(mo.Datas, row)
		}
		cs.Mods = append(cs.Mods, mo)
	}
	return cs
}

func hasMutI32(m *LMod) bool {
	for i := 0; i < m.NImpG; i++ {
		if m.GObj[i].Mut && m.GObj[i].VT == c.I32 {
			return true
		}
	}
	return false
}
func hasVariant(m *LMod, v string) bool {
	for _, im := range m.Imports {
		if im.Variant == v {
			return true
		}
	}
	return false
}

// importerWith regenerates until the predicate holds (the discarded attempts leave no trace in the graph)
func (g *graph) importerWith(exps []*LMod, fault string, ok func(*LMod) bool) *LMod {
	for i := 0; ; i++ {
		n := len(g.mods)
		m := g.importer(exps, fault)
		if ok(m) || i > 400 {
			return m
		}
		g.mods = g.mods[:n]
	}
}

// ---------------------------------------------------------------- running
func classify(err string) int {
	has := func(s string) bool { return strings.Contains(err, s) }
	switch {
	case has("is not exported in module"):
		return 21
	case has(" is a ") && has(", not a "):
		return 1
	case has("signature mismatch"):
		return 2
	case has("table type mismatch"):
		return 3
	case has("minimum size mismatch"):
		return 4
	case has("but actual has no max"):
		return 5
	case has("maximum size mismatch"):
		return 6
	case has("mutability mismatch"):
		return 7
	case has("value type mismatch"):
		return 8
	case has("shared mismatch"):
		return 9
	case has("not instantiated"):
		return 20
	case has("data[") && has("out of bounds memory access"):
		return 30
	case strings.HasPrefix(err, "start "):
		return 31
	}
	return 99
}

func runCase(engine string, cs *Case) (obs []Obs) {
	ctx := context.Background()
	var rc wazero.RuntimeConfig
	if engine == "compiler" {
		rc = wazero.NewRuntimeConfigCompiler()
	} else {
		rc = wazero.NewRuntimeConfigInterpreter()
	}
	if cs.Threads {
		rc = rc.WithCoreFeatures(api.CoreFeaturesV2 | experimental.CoreFeaturesThreads)
	}
	rt := wazero.NewRuntimeWithConfig(ctx, rc.WithMemoryLimitPages(cs.Limit))
	defer rt.Close(ctx)
	mods := map[int]api.Module{}
	obs = make([]Obs, len(cs.Steps))
	for si, st := range cs.Steps {
		o := &obs[si]
		func() {
			defer func() {
				if e := recover(); e != nil {
					o.Trap, o.Err, o.Code = "gopanic", fmt.Sprint("PANIC: ", e), 97
				}
			}()
			for _, n := range st.Need {
				if mods[n] == nil {
					o.Skip = true
					return
				}
			}
			m := cs.lm[st.N]
			switch st.K {
			case "hinst":
				hm, err := hostModule(ctx, rt, cs, m.Name, mods)
				if err != nil {
					o.Code, o.Err = 99, err.Error()
					return
				}
				mods[st.N] = hm
			case "inst":
				o.FailIdx = -1
				o.Cur = map[int]uint32{}
				o.CurT = map[int]uint32{}
				for i, im := range m.Imports {
					if x := mods[im.Mod]; x != nil && im.XKind == 2 {
						if mem := x.ExportedMemory(im.Name); mem != nil {
							o.Cur[i] = mem.Size() / 65536
							if p, _ := mem.Grow(0); p == 65536 {
								o.Cur[i] = p
							}
						}
					}
					if x, ok := mods[im.Mod].(*wasm.ModuleInstance); ok && x != nil && im.XKind == 1 { // the public API has no table access
						if e := x.Exports[im.Name]; e != nil && e.Type == wasm.ExternTypeTable {
							o.CurT[i] = uint32(len(x.Tables[e.Index].References))
						}
					}
				}
				cm, err := rt.CompileModule(ctx, cs.bins[st.N])
				if err != nil {
					o.Code, o.Err = 98, err.Error()
					return
				}
				mod, err := rt.InstantiateModule(ctx, cm, wazero.NewModuleConfig().WithName(m.Name))
				if err != nil {
					o.Err = err.Error()
					if len(o.Err) > 300 {
						o.Err = o.Err[:300]
					}
					o.Code = classify(o.Err)
					if o.Code == 30 {
						fmt.Sscanf(o.Err[strings.Index(o.Err, "data[")+5:], "%d", &o.FailIdx)
					}
					return
				}
				mods[st.N] = mod
			case "call":
				if st.Live != nil {
					o.Pre = sizesOf(cs, mods)
				}
				res, err := mods[st.N].ExportedFunction(fmt.Sprintf("f%d", st.F)).Call(ctx, st.Args...)
				if st.Live != nil {
					o.Post = sizesOf(cs, mods)
				}
				if err != nil {
					o.Trap = c.TrapClass(err)
					return
				}
				o.Res = make([]uint64, len(res))
				for i, v := range res {
					if st.RT[i] == 32 {
						v &= 0xffffffff
					}
					o.Res[i] = v
				}
			case "snap":
				mod := mods[st.N]
				o.Globals = []uint64{}
				for i, g := range m.GObj {
					v := mod.ExportedGlobal(fmt.Sprintf("g%d", i)).Get()
					if g.VT == c.I32 {
						v &= 0xffffffff
					}
					o.Globals = append(o.Globals, v)
				}
				o.Pages = -1
				if m.HasMem() {
					mem := mod.ExportedMemory("mem")
					o.Mem = c.NonZero(mem, 4096)
					p, _ := mem.Grow(0)
					o.Pages = int(p)
				}
			}
		}()
	}
	return
}

// sizesOf: for every live wasm instance, the length of every table in its index space and the size of its memory, read
// from the instance records (TableInstance.References, MemoryInstance.Buffer): what table.size / memory.size return there
func sizesOf(cs *Case, mods map[int]api.Module) (o []InstSizes) {
	for n, lm := range cs.lm {
		mi, ok := mods[n].(*wasm.ModuleInstance)
		if lm.IsHost || !ok || mi == nil {
			continue
		}
		z := InstSizes{N: n, Tabs: []int{}, Pages: -1}
		for _, t := range mi.Tables {
			z.Tabs = append(z.Tabs, len(t.References))
		}
		if mi.MemoryInstance != nil {
			z.Pages = len(mi.MemoryInstance.Buffer) / 65536
		}
		o = append(o, z)
	}
	return
}

// hostModule builds the host module of a live-frame case. Its functions look the target instance up when they run.
func hostModule(ctx context.Context, rt wazero.Runtime, cs *Case, name string, mods map[int]api.Module) (api.Module, error) {
	b := rt.NewHostModuleBuilder(name)
	vts := func(ws []int) []api.ValueType {
		o := make([]api.ValueType, len(ws))
		for i, x := range ws {
			o[i] = api.ValueTypeI32
			if x == 64 {
				o[i] = api.ValueTypeI64
			}
		}
		return o
	}
	for k := range cs.Hosts {
		h := cs.Hosts[k]
		fn := api.GoModuleFunc(func(ctx context.Context, _ api.Module, stack []uint64) {
			t := mods[h.Mod]
			if t == nil {
				panic(fmt.Sprintf("live host function %d: instance %d is not there", k, h.Mod))
			}
			switch h.Kind {
			case "call":
				args := make([]uint64, len(h.P))
				copy(args, stack)
				res, err := t.ExportedFunction(fmt.Sprintf("f%d", h.F)).Call(ctx, args...)
				if err != nil {
					panic(err)
				}
				copy(stack, res)
			case "gset":
				t.ExportedGlobal(fmt.Sprintf("g%d", h.G)).(api.MutableGlobal).Set(stack[0])
			case "gget":
				stack[0] = t.ExportedGlobal(fmt.Sprintf("g%d", h.G)).Get()
			case "mwrite":
				if !t.ExportedMemory("mem").WriteUint64Le(uint32(stack[0]), stack[1]) {
					panic(wasmruntime.ErrRuntimeOutOfBoundsMemoryAccess) // as the store instruction the model re-enters would
				}
			case "mread":
				v, ok := t.ExportedMemory("mem").ReadUint64Le(uint32(stack[0]))
				if !ok {
					panic(wasmruntime.ErrRuntimeOutOfBoundsMemoryAccess)
				}
				stack[0] = v
			case "mgrow":
				p, ok := t.ExportedMemory("mem").Grow(uint32(stack[0]))
				if !ok {
					p = 0xffffffff
				}
				stack[0] = uint64(p)
			}
		})
		b = b.NewFunctionBuilder().WithGoModuleFunction(fn, vts(h.P), vts(h.R)).Export(fmt.Sprintf("f%d", k))
	}
	return b.Instantiate(ctx)
}

func auxRun(engine string, bin []byte) (res string) {
	defer func() {
		if e := recover(); e != nil {
			res = fmt.Sprint("go panic: ", e)
		}
	}()
	ctx := context.Background()
	rc := wazero.NewRuntimeConfigInterpreter()
	if engine == "compiler" {
		rc = wazero.NewRuntimeConfigCompiler()
	}
	rt := wazero.NewRuntimeWithConfig(ctx, rc)
	defer rt.Close(ctx)
	var got uint64
	if _, err := rt.NewHostModuleBuilder("env").NewFunctionBuilder().WithGoModuleFunction(api.GoModuleFunc(func(_ context.Context, _ api.Module, stack []uint64) {
		got = stack[0]
	}), []api.ValueType{api.ValueTypeI32}, nil).Export("h").Instantiate(ctx); err != nil {
		return "host module: " + err.Error()
	}
	m, err := rt.Instantiate(ctx, bin)
	if err != nil {
		return "instantiate: " + err.Error()
	}
	if _, err := m.ExportedFunction("h").Call(ctx, 7); err != nil {
		return "call: " + err.Error()
	}
	return fmt.Sprint("ok, host function saw ", got)
}

func auxStartRun(engine string, bin []byte) (res string) {
	defer func() {
		if e := recover(); e != nil {
			res = fmt.Sprint("go panic: ", e)
		}
	}()
	ctx := context.Background()
	rc := wazero.NewRuntimeConfigInterpreter()
	if engine == "compiler" {
		rc = wazero.NewRuntimeConfigCompiler()
	}
	rt := wazero.NewRuntimeWithConfig(ctx, rc)
	defer rt.Close(ctx)
	ran := 0
	if _, err := rt.NewHostModuleBuilder("env").NewFunctionBuilder().WithGoModuleFunction(api.GoModuleFunc(func(_ context.Context, _ api.Module, _ []uint64) {
		ran++
	}), nil, nil).Export("h0").Instantiate(ctx); err != nil {
		return "host module: " + err.Error()
	}
	if _, err := rt.Instantiate(ctx, bin); err != nil {
		return "instantiate: " + err.Error()
	}
	return fmt.Sprint("ok, start function ran ", ran, " time(s)")
}

func auxLookupRun(engine string, modA, modB []byte) (res string) {
	defer func() {
		if e := recover(); e != nil {
			res = fmt.Sprint("go panic: ", e)
		}
	}()
	ctx := context.Background()
	rc := wazero.NewRuntimeConfigInterpreter()
	if engine == "compiler" {
		rc = wazero.NewRuntimeConfigCompiler()
	}
	rt := wazero.NewRuntimeWithConfig(ctx, rc)
	defer rt.Close(ctx)
	if _, err := rt.InstantiateWithConfig(ctx, modA, wazero.NewModuleConfig().WithName("A")); err != nil {
		return "instantiate A: " + err.Error()
	}
	b, err := rt.InstantiateWithConfig(ctx, modB, wazero.NewModuleConfig().WithName("B"))
	if err != nil {
		return "instantiate B: " + err.Error()
	}
	out, err := exptable.LookupFunction(b, 0, 0, nil, []api.ValueType{api.ValueTypeI32}).Call(ctx)
	if err != nil {
		return "call: " + err.Error()
	}
	if out[0] != 2 {
		return fmt.Sprint("wrong function: returned ", out[0], ", A.f1 returns 2")
	}
	return "ok, A.f1"
}

func main() {
	seed := flag.Uint64("seed", 1, "")
	n := flag.Int("n", 100, "")
	nlive := flag.Int("nlive", 40, "")
	flag.Parse()
	// the shared splitmix generator makes seed s+1 the stream of seed s advanced by one: decorrelate the seeds first
	rng := c.NewRng(c.NewRng(*seed).U64() ^ 0xc04c04c04)
	out := c.NewOut()
	defer out.Flush()
	var cases []*Case
	// fixed witnesses of the known deviations, then random graphs
	for _, w := range []string{"w-mutoff", "w-maxlimit", "w-dataelem", "w-elemoob", "w-reexport", "w-grown", "w-typeof", "w-shared", "w-unshared"} {
		g := &graph{r: c.NewRng(rng.U64())}
		cases = append(cases, g.build(len(cases), w))
	}
	for i := 0; i < *n; i++ {
		g := &graph{r: c.NewRng(rng.U64())}
		cases = append(cases, g.build(len(cases), ""))
	}
	// later witnesses draw from a generator of their own (the random graphs above keep their streams): a table import judged
	// against the table's current size; a null entry of an active element segment over a non-null slot of an imported table
	wrng := c.NewRng(c.NewRng(*seed).U64() ^ 0x7ab1e7ab1e)
	for _, w := range []string{"w-table-grown", "w-elem-null"} {
		g := &graph{r: c.NewRng(wrng.U64())}
		cases = append(cases, g.build(len(cases), w))
	}
	// live-frame family: fixed witnesses (the graph of the seeded defect C04c, every reader x writer x first-instruction
	// combination per object kind), then random graphs. A generator of its own, so the older families keep their streams.
	lrng := c.NewRng(c.NewRng(*seed).U64() ^ 0x11fe11fe)
	forced := []*liveForce{{kind: "g32", demo: true}, {kind: "g64", demo: true}, {kind: "g32", combo: true}, {kind: "g64", combo: true},
		{kind: "mem", combo: true, grow: 1}, {kind: "mem", combo: true, grow: 2}, {kind: "tab", combo: true, grow: 1}, {kind: "tab", combo: true, grow: 2}}
	for _, f := range forced {
		g := &graph{r: c.NewRng(lrng.U64())}
		cases = append(cases, g.buildLive(len(cases), f))
	}
	for i := 0; i < *nlive; i++ {
		g := &graph{r: c.NewRng(lrng.U64())}
		cases = append(cases, g.buildLive(len(cases), nil))
	}
	var wg sync.WaitGroup
	var mu sync.Mutex
	sem := make(chan struct{}, 12)
	for _, cs := range cases {
		for _, eng := range []string{"interp", "compiler"} {
			wg.Add(1)
			sem <- struct{}{}
			go func(cs *Case, eng string) {
				defer wg.Done()
				defer func() { <-sem }()
				o := runCase(eng, cs)
				mu.Lock()
				cs.Engines[eng] = o
				mu.Unlock()
			}(cs, eng)
		}
	}
	wg.Wait()
	for _, cs := range cases {
		out.Emit(cs)
	}
	out.Emit(auxReexportedHost())
	out.Emit(auxStartHost())
	out.Emit(auxLookupImported())
	out.Emit(auxSiblingInstances())
}
