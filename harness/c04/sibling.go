package main

import (
	"context"
	"fmt"

	"github.com/tetratelabs/wazero"
	"github.com/tetratelabs/wazero/api"
	"github.com/tetratelabs/wazero/experimental"
	c "github.com/tetratelabs/wazero/internal/zz_verif/common"
)

// auxSiblingInstances: ONE compiled module instantiated twice (i1, i2), both importing a table of a third module T.
// Each instance has its own mutable global and writes its own `get` into slot 0 of the shared table at instantiation,
// so after both exist slot 0 holds i2.get. Calling through the shared table from i1 - by call_indirect and by
// return_call_indirect - must run i2's function on i2's global (22), on both engines; and after i1 writes its own
// function back (its `claim`), both instances see i1's global (11).
func auxSiblingInstances() Aux {
	t := &c.Mod{}
	t.Tables = [][]byte{c.Cat(c.B(c.FuncRef, 0), c.U32(2))}
	t.Exports = [][]byte{c.Export("tab", 1, 0)}
	u := &c.Mod{}
	u.Types = [][]byte{c.FT(nil, c.B(c.I32)), c.FT(c.B(c.I32), nil), c.FT(nil, nil)}
	u.Imports = [][]byte{c.Cat(c.Name("T"), c.Name("tab"), c.B(1, c.FuncRef, 0), c.U32(2))}
	u.Funcs = [][]byte{c.U32(0), c.U32(1), c.U32(0), c.U32(0), c.U32(2)}
	u.Globals = [][]byte{c.Cat(c.B(c.I32, 1), c.I32Const(0), c.B(0x0b))}
	u.Exports = [][]byte{c.Export("get", 0, 0), c.Export("set", 0, 1), c.Export("ind", 0, 2), c.Export("tail", 0, 3), c.Export("claim", 0, 4)}
	u.Elems = [][]byte{c.Cat(c.U32(0), c.I32Const(0), c.B(0x0b), c.Vec(c.U32(0))), // slot 0 := own get
		c.Cat(c.U32(3), c.B(0x00), c.Vec(c.U32(0)))} // declarative: ref.func 0 is used by claim
	u.Codes = [][]byte{
		c.Code(nil, c.GlobalGet(0)),
		c.Code(nil, c.LocalGet(0), c.GlobalSet(0)),
		c.Code(nil, c.I32Const(0), c.B(0x11, 0x00, 0x00)),       // call_indirect (type 0) table 0
		c.Code(nil, c.I32Const(0), c.B(0x13, 0x00, 0x00)),       // return_call_indirect (type 0) table 0
		c.Code(nil, c.I32Const(0), c.B(0xd2, 0x00), c.B(0x26, 0)), // table.set 0 (i32.const 0) (ref.func 0)
	}
	a := Aux{Aux: "shared-table-sibling-instances", Engines: map[string]string{}}
	for _, eng := range []string{"interp", "compiler"} {
		a.Engines[eng] = siblingRun(eng, t.Bytes(), u.Bytes())
	}
	return a
}

func siblingRun(engine string, tb, ub []byte) (res string) {
	defer func() {
		if e := recover(); e != nil {
			res = fmt.Sprint("go panic: ", e)
		}
	}()
	ctx := context.Background()
	rc := wazero.NewRuntimeConfigInterpreter()
	if engine == "compiler" {
		rc = wazero.NewRuntimeConfigCompiler()
	}
	rt := wazero.NewRuntimeWithConfig(ctx, rc.WithCoreFeatures(api.CoreFeaturesV2|experimental.CoreFeaturesTailCall))
	defer rt.Close(ctx)
	if _, err := rt.InstantiateWithConfig(ctx, tb, wazero.NewModuleConfig().WithName("T")); err != nil {
		return "instantiate T: " + err.Error()
	}
	cm, err := rt.CompileModule(ctx, ub)
	if err != nil {
		return "compile: " + err.Error()
	}
	i1, err := rt.InstantiateModule(ctx, cm, wazero.NewModuleConfig().WithName("i1"))
	if err != nil {
		return "instantiate i1: " + err.Error()
	}
	i2, err := rt.InstantiateModule(ctx, cm, wazero.NewModuleConfig().WithName("i2"))
	if err != nil {
		return "instantiate i2: " + err.Error()
	}
	call := func(m api.Module, f string, args ...uint64) string {
		r, err := m.ExportedFunction(f).Call(ctx, args...)
		if err != nil {
			return "error"
		}
		if len(r) == 0 {
			return "-"
		}
		return fmt.Sprint(uint32(r[0]))
	}
	call(i1, "set", 11)
	call(i2, "set", 22)
	got := []string{call(i1, "ind"), call(i1, "tail"), call(i2, "ind"), call(i2, "tail"), call(i1, "get"), call(i2, "get")}
	call(i1, "claim")
	got = append(got, call(i1, "ind"), call(i1, "tail"), call(i2, "ind"), call(i2, "tail"))
	want := []string{"22", "22", "22", "22", "11", "22", "11", "11", "11", "11"}
	if fmt.Sprint(got) != fmt.Sprint(want) {
		return fmt.Sprintf("wrong: [i1.ind i1.tail i2.ind i2.tail i1.get i2.get | after i1.claim: i1.ind i1.tail i2.ind i2.tail] = %v, expected %v", got, want)
	}
	return "ok"
}
