package main

// Live-frame family of C04: a frame of one instance touches a shared object (mutable global i32/i64, memory,
// table slot), calls out (direct call of an import, or call_indirect through a shared table), and WHILE THAT
// FRAME IS LIVE the object is written (or read) by somebody else: another instance that shares it, the same
// instance re-entered through one of its exports, or the host through api.MutableGlobal / api.Memory. The
// frame then reads the object again and returns what it saw. The graphs have a host module (number 0) and 3-5
// wasm modules; the instantiation order forces calls to later instances through the shared table or the host.
//
// Index spaces: the instances of one graph bind the shared object at DIFFERENT positions of their index spaces, and the
// instance the host enters is often not the one whose code touches the object. Table graphs give every instance a table
// index space of its own (the shared table at index 0, 1 or 2, next to private "decoy" tables that are defined there or
// imported from an earlier instance, in either order; some instances do not see the shared table at all and have a
// private table at the index where the others have the shared one); a "blind" last instance never sees the object and
// has a private memory / table / global where the others have the shared one; a probe is often entered through an
// "enter" function of another instance (frequently the blind one) that merely calls the probe, so that the instance the
// host invoked differs from the instance whose frame is live, which differs from the instance that writes / grows.
// Every table instruction names its table explicitly: call_indirect, table.set, table.size, table.grow, table.fill,
// table.copy (from a decoy table), table.init (from a passive segment), ref.func (function index space of the executing
// instance). Around every probe the sizes of EVERY table and memory of EVERY instance are recorded (Obs.Pre / Obs.Post):
// growing the wrong object shows twice, the shared object did not grow and somebody's private object did.
//
// Modelled in W (coq/Rt/LinkLive.v): globals and memory (growth included); a host function is "re-enter function
// F of instance M with my arguments", which is also how the host's own writes are modelled (the exported
// setter/store/grow function of an instance that sees the object). Table slots (table.set / table.grow are not
// part of W's syntax) run engine-vs-engine with the oracle only.

import (
	"encoding/hex"
	"fmt"

	c "github.com/tetratelabs/wazero/internal/zz_verif/common"
)

const (
	liveAddr   = 1024 // the shared memory cell (8 bytes)
	liveTMin   = 32   // shared table: chain slots [0,24), leaf slots [24,32)
	liveChainN = 24
	liveSlotS  = 28 // the table slot that is the shared object of kind "tab"
	liveX      = 5  // argument of the leaf called through slot S
)

type HostFn struct {
	Kind string `json:"kind"` // call | gset | gget | mwrite | mread | mgrow
	Mod  int    `json:"mod"`  // the instance whose export the host uses
	F    int    `json:"f"`    // the function the model re-enters (module index space of Mod); kind call: also what the host calls
	G    int    `json:"g"`    // gset / gget: the global's index in Mod
	P    []int  `json:"p"`    // parameter / result widths
	R    []int  `json:"r"`
	sig  c.Sig
	tgt  *lfn // kind call: resolved to (Mod, F) once the target is built
}

type LiveProbe struct {
	Kind   string `json:"kind"`   // g32 | g64 | mem | tab
	Dir    string `json:"dir"`    // cw: the callee writes, the live frame reads | cr: the live frame writes, the callee reads
	Reader string `json:"reader"` // owner | importer : the instance whose frame is live
	Writer string `json:"writer"` // inst | self | host : who touches the object during the call
	Hops   int    `json:"hops"`
	Path   string `json:"path"`  // hop kinds in order: D direct call of an import, I call_indirect through the shared table, H host function calling an export, W the host accessing the object itself
	First  string `json:"first"` // call | call_indirect : the instruction in the live frame
	Touch  string `json:"touch"` // set | get | none : what the frame did with the object before the call
	Loop   int    `json:"loop"`  // iterations of a loop around (touch, call, read); 0 = straight line
	Grow   bool   `json:"grow"`  // the callee also grows the memory / table
	Mods   []int  `json:"mods"`  // the instances along the chain, the live frame's first
	Model  bool   `json:"model"` // compared with W as well
	// oracle data (by design): result index -> expected value; sizes
	ExpIdx  []int    `json:"expidx"`
	ExpVal  []uint64 `json:"expval"`
	SizeIdx []int    `json:"sizeidx,omitempty"` // result indices of the size before / after
	Max     int64    `json:"max"`               // declared maximum of the object (-1 none)
	Grows   int      `json:"grows"`             // growth attempts (by one) during the call
	// index-space variety
	Entry    int    `json:"entry"`              // the instance the host enters (its "enter" function calls the probe); -1: the probe is called directly
	EntryVia string `json:"entryvia,omitempty"` // D | I | H: how the enter function reaches the probe
	Obj      [2]int `json:"obj"`                // the shared object by design identity: table (owner, index there), memory (owner, -1)
	WMode    string `json:"wmode,omitempty"`    // table graphs: how the writer writes the slot: set | fill | init | copy
	Ctx      string `json:"ctx"`                // the instance whose call engine runs the writer's code vs the writer's instance: host-entered | same-instance |
	//                                             same-index-same-object | other-object-at-index | nothing-at-index (what a handler resolving the index in the wrong instance would hit)
	TIdx []int `json:"tidx,omitempty"` // table graphs: per instance along Mods, the index of the shared table there (-1: not visible)
}

// lfn: a function of the live family (to be) defined in module mod
type lfn struct {
	mod  int
	role string // probe | relay | lset | lget | hostobj
	sig  c.Sig
	via  byte // how next is reached: D I H W
	next *lfn
	slot int
	idx  int
	ps   *probeSpec
}

type probeSpec struct {
	meta  LiveProbe
	fn    *lfn
	ent   *lfn // the enter function, if any
	chain c.Sig
	wmode string
}

type liveGraph struct {
	g          *graph
	r          *c.Rng
	kind       string
	vt         byte
	nmods      int // wasm modules 1..nmods
	tabOwner   int
	owner      int
	sees       []bool // per module number: sees the object
	objIdx     []int  // per module: global index of the object (kinds g32/g64)
	grow       bool
	perMod     [][]*lfn
	probes     []*probeSpec
	hosts      []*HostFn
	hostMod    *LMod
	nslot      int
	impIdx     map[*lfn]map[*lfn]int // caller -> callee -> imported function index
	hostObjIdx map[*lfn][]int        // caller -> imported host object functions (grow, access)
	leafAB     [][2]int              // per module: its two leaves (module index space)
	model      bool
	blind      int // the last module never sees the object (0: no such module)
}

// seesTab: the shared table is in m's table index space (in table graphs the blind module has none)
func (lg *liveGraph) seesTab(m int) bool {
	return m >= lg.tabOwner && !(lg.kind == "tab" && m == lg.blind)
}

// tabOp: a table instruction of the 0xfc group with explicit table indices
func tabOp(sub byte, idx ...int) c.Ins {
	b := c.B(0xfc, sub)
	for _, i := range idx {
		b = c.Cat(b, c.U32(uint32(i)))
	}
	return c.Ins{Bin: b, Coq: "Unreachable (* not in W *)"}
}
func refFunc(f int) c.Ins {
	return c.Ins{Bin: c.Cat(c.B(0xd2), c.U32(uint32(f))), Coq: "Unreachable (* ref.func *)"}
}

func rawIns(b ...byte) c.Ins { return c.Ins{Bin: b, Coq: "Unreachable (* not in W *)"} }

func (lg *liveGraph) newFn(mod int, role string, sig c.Sig) *lfn {
	f := &lfn{mod: mod, role: role, sig: sig, slot: -1, idx: -1}
	if mod >= 1 {
		lg.perMod[mod] = append(lg.perMod[mod], f)
	}
	return f
}

// link decides how from reaches to
func (lg *liveGraph) link(from, to *lfn, prefer byte) {
	var opts []byte
	if to.role == "hostobj" {
		opts = []byte{'W'}
	} else {
		if to.mod < from.mod {
			opts = append(opts, 'D')
		}
		if lg.seesTab(from.mod) && lg.seesTab(to.mod) && (to.slot >= 0 || lg.nslot < liveChainN) {
			opts = append(opts, 'I')
		}
		opts = append(opts, 'H')
	}
	via := opts[lg.r.Intn(len(opts))]
	for _, o := range opts {
		if o == prefer {
			via = o
		}
	}
	if prefer == 'X' { // anything but the host, if possible: the call engine of the entered instance stays in charge
		var in []byte
		for _, o := range opts {
			if o != 'H' {
				in = append(in, o)
			}
		}
		if len(in) > 0 {
			via = in[lg.r.Intn(len(in))]
		}
	}
	if via == 'I' && to.slot < 0 {
		to.slot = lg.nslot
		lg.nslot++
	}
	from.via, from.next = via, to
}

type liveWant struct {
	reader, writer, first, dir, touch string
	hops, loop                        int
	entry                             string // none | blind | other
}

func (lg *liveGraph) seers() []int {
	var o []int
	for m := 1; m <= lg.nmods; m++ {
		if lg.sees[m] {
			o = append(o, m)
		}
	}
	return o
}

func (lg *liveGraph) planProbe(w liveWant) {
	r := lg.r
	seers := lg.seers()
	R := lg.owner
	if w.reader == "importer" {
		var imps []int
		for _, m := range seers {
			if m != lg.owner {
				imps = append(imps, m)
			}
		}
		R = imps[r.Intn(len(imps))]
	}
	if lg.kind == "tab" && w.writer == "host" {
		w.writer = "inst" // the public API has no table access
	}
	ps := &probeSpec{}
	ps.meta = LiveProbe{Kind: lg.kind, Dir: w.dir, Reader: w.reader, Writer: w.writer, Hops: w.hops, Touch: w.touch, Loop: w.loop, Grow: lg.grow && w.dir == "cw", Model: lg.model, Max: -1, Entry: -1}
	if lg.kind == "tab" {
		ps.wmode = []string{"set", "set", "fill", "init", "copy"}[r.Intn(5)]
		ps.meta.WMode = ps.wmode
	}
	chainVT := lg.vt
	if w.dir == "cw" {
		ps.chain = c.Sig{P: []byte{chainVT}}
	} else {
		ps.chain = c.Sig{R: []byte{chainVT}}
	}
	var psig c.Sig
	psig.P = []byte{lg.vt, lg.vt}
	switch {
	case w.dir == "cr":
		psig.R = []byte{lg.vt, lg.vt}
	case lg.kind == "mem":
		psig.R = []byte{c.I64, c.I64, c.I32, c.I32, c.I64}
	case lg.kind == "tab":
		psig.R = []byte{c.I32, c.I32, c.I32, c.I32, c.I32}
	default:
		psig.R = []byte{lg.vt, lg.vt}
	}
	ps.fn = lg.newFn(R, "probe", psig)
	ps.fn.ps = ps
	// the host enters another instance, whose function calls the probe
	if w.entry == "blind" && (lg.blind == 0 || lg.blind == R) {
		w.entry = "other"
	}
	if w.entry == "blind" || w.entry == "other" {
		E := lg.blind
		if w.entry == "other" {
			var later, any []int
			for m := 1; m <= lg.nmods; m++ {
				if m != R {
					any = append(any, m)
					if m > R {
						later = append(later, m)
					}
				}
			}
			if len(later) > 0 && r.Intn(4) != 0 { // a later instance can import the probe
				any = later
			}
			E = any[r.Intn(len(any))]
		}
		ps.ent = lg.newFn(E, "enter", psig)
		ps.ent.ps = ps
		prefer := byte('X')
		if r.Intn(6) == 0 {
			prefer = 'H'
		}
		lg.link(ps.ent, ps.fn, prefer)
		ps.meta.Entry, ps.meta.EntryVia = E, string(ps.ent.via)
	}
	// the function at the end of the chain
	var last *lfn
	endRole := "lset"
	if w.dir == "cr" {
		endRole = "lget"
	}
	switch w.writer {
	case "self":
		last = lg.newFn(R, endRole, ps.chain)
	case "host":
		last = &lfn{mod: 0, role: "hostobj", sig: ps.chain, slot: -1, idx: -1}
	default:
		var others []int
		for _, m := range seers {
			if m != R {
				others = append(others, m)
			}
		}
		last = lg.newFn(others[r.Intn(len(others))], endRole, ps.chain)
	}
	last.ps = ps
	cur := ps.fn
	ps.meta.Mods = []int{R}
	for h := w.hops; h >= 1; h-- {
		var to *lfn
		if h == 1 {
			to = last
		} else {
			to = lg.newFn(1+r.Intn(lg.nmods), "relay", ps.chain)
			to.ps = ps
		}
		prefer := byte(0)
		if r.Bool() { // often without the host in between: the call engine of the instance entered first stays in charge
			prefer = 'X'
		}
		if cur == ps.fn {
			if w.first == "call_indirect" {
				prefer = 'I'
			} else if r.Intn(3) != 0 {
				prefer = 'D'
			} else {
				prefer = 'H'
			}
		}
		if w.writer == "self" && h == 1 && cur.mod == R && cur != ps.fn {
			prefer = 'H' // a relay in the reader's own module reaches the reader's setter through the host rather than by a local call
		}
		lg.link(cur, to, prefer)
		ps.meta.Path += string(cur.via)
		ps.meta.Mods = append(ps.meta.Mods, to.mod)
		cur = to
	}
	if ps.fn.via == 'I' {
		ps.meta.First = "call_indirect"
	} else {
		ps.meta.First = "call"
	}
	lg.probes = append(lg.probes, ps)
}

// ---------------------------------------------------------------- instruction sequences per object kind
func (lg *liveGraph) ext(is ...c.Ins) []c.Ins { // an i32 on the stack becomes a value of the object's type
	if lg.vt == c.I64 {
		return append(is, c.IExtU)
	}
	return is
}

// otherTab: a table of m other than the shared one (-1: none)
func otherTab(m *LMod) int {
	for i := range m.Tabs {
		if i != m.TIdx {
			return i
		}
	}
	return -1
}

// write: the running function's module m writes the object; val pushes the value. Table graphs: slot S of the shared
// table (index m.TIdx HERE) receives a reference to one of m's two leaves, by table.set, table.fill, table.init from
// m's passive segment, or table.set on slot 0 of another table of m followed by table.copy
func (lg *liveGraph) write(m *LMod, val []c.Ins, mode string) []c.Ins {
	switch lg.kind {
	case "g32", "g64":
		return append(append([]c.Ins{}, val...), c.IGlobalSet(lg.objIdx[m.N]))
	case "mem":
		return append(append([]c.Ins{c.IConst(c.I32, liveAddr)}, val...), c.IStore(c.I64, 8, 0))
	}
	ab := lg.leafAB[m.N]
	t := m.TIdx
	d := otherTab(m)
	if mode == "copy" && d < 0 {
		mode = "set"
	}
	if mode == "init" { // (table.init t seg0 (S) (val & 1) (1)): the passive segment holds the two leaves in order
		o := append([]c.Ins{c.IConst(c.I32, liveSlotS)}, val...)
		return append(o, c.IConst(c.I32, 1), c.IBin(c.I32, 7), c.IConst(c.I32, 1), tabOp(12, 0, t))
	}
	set := func(f int) []c.Ins {
		switch mode {
		case "fill":
			return []c.Ins{c.IConst(c.I32, liveSlotS), refFunc(f), c.IConst(c.I32, 1), tabOp(17, t)}
		case "copy":
			return []c.Ins{c.IConst(c.I32, 0), refFunc(f), rawIns(0x26, byte(d)),
				c.IConst(c.I32, liveSlotS), c.IConst(c.I32, 0), c.IConst(c.I32, 1), tabOp(14, t, d)}
		}
		return []c.Ins{c.IConst(c.I32, liveSlotS), refFunc(f), rawIns(0x26, byte(t))}
	}
	o := append(append([]c.Ins{}, val...), c.IConst(c.I32, 1), c.IBin(c.I32, 7))
	return append(o, m.View.IIf(nil, nil, set(ab[1]), set(ab[0])))
}

func (lg *liveGraph) read(m *LMod) []c.Ins {
	switch lg.kind {
	case "g32", "g64":
		return []c.Ins{c.IGlobalGet(lg.objIdx[m.N])}
	case "mem":
		return []c.Ins{c.IConst(c.I32, liveAddr), c.ILoad(c.I64, 8, false, 0)}
	}
	return []c.Ins{c.IConst(c.I32, liveX), c.IConst(c.I32, liveSlotS), callInd(m.View.TypeIdx(c.Sig{P: []byte{c.I32}, R: []byte{c.I32}}), m.TIdx)}
}

func (lg *liveGraph) size(m *LMod) []c.Ins {
	if lg.kind == "mem" {
		return []c.Ins{c.IMemSize}
	}
	return []c.Ins{tabOp(16, m.TIdx)}
}

// address of the last 8 bytes of the memory
func lastCell() []c.Ins {
	return []c.Ins{c.IMemSize, c.IConst(c.I32, 16), c.IBin(c.I32, 10), c.IConst(c.I32, 8), c.IBin(c.I32, 1)}
}

func (lg *liveGraph) lastRead(m *LMod) []c.Ins {
	if lg.kind == "mem" {
		return append(lastCell(), c.ILoad(c.I64, 8, false, 0))
	}
	return []c.Ins{c.IConst(c.I32, liveX), tabOp(16, m.TIdx), c.IConst(c.I32, 1), c.IBin(c.I32, 1), callInd(m.View.TypeIdx(c.Sig{P: []byte{c.I32}, R: []byte{c.I32}}), m.TIdx)}
}

// growBy1 grows the object by one (result dropped)
func (lg *liveGraph) growBy1(m *LMod) []c.Ins {
	if lg.kind == "mem" {
		return []c.Ins{c.IConst(c.I32, 1), c.IMemGrow, c.IDrop}
	}
	ab := lg.leafAB[m.N]
	return []c.Ins{refFunc(ab[0]), c.IConst(c.I32, 1), tabOp(15, m.TIdx), c.IDrop}
}

// call emits the hop from f (running in m) to f.next; args pushes the chain's parameters
func (lg *liveGraph) call(m *LMod, f *lfn, args []c.Ins) []c.Ins {
	switch f.via {
	case 'D', 'H':
		return append(append([]c.Ins{}, args...), c.ICall(lg.impIdx[f][f.next]))
	case 'I':
		return append(append([]c.Ins{}, args...), c.IConst(c.I32, uint64(f.next.slot)), callInd(m.View.TypeIdx(f.next.sig), m.TIdx))
	}
	// W: the host accesses the object itself
	hs := lg.hostObjIdx[f]
	var o []c.Ins
	cw := len(f.next.sig.P) == 1
	if lg.kind == "mem" {
		if cw {
			if f.ps.meta.Grow {
				o = append(o, c.IConst(c.I32, 1), c.ICall(hs[0]), c.IDrop)
			}
			o = append(o, c.IConst(c.I32, liveAddr))
			o = append(o, args...)
			return append(o, c.ICall(hs[1]))
		}
		return []c.Ins{c.IConst(c.I32, liveAddr), c.ICall(hs[1])}
	}
	return append(append(o, args...), c.ICall(hs[1]))
}

func (lg *liveGraph) body(m *LMod, f *lfn) (locals []byte, body []c.Ins) {
	ps := f.ps
	wm := ""
	if ps != nil {
		wm = ps.wmode
	}
	switch f.role {
	case "relay", "enter":
		var args []c.Ins
		for i := range f.sig.P {
			args = append(args, c.ILocalGet(i))
		}
		return nil, lg.call(m, f, args)
	case "lget":
		return nil, lg.read(m)
	case "lset":
		if ps.meta.Grow {
			body = append(body, lg.growBy1(m)...)
		}
		body = append(body, lg.write(m, []c.Ins{c.ILocalGet(0)}, wm)...)
		if lg.kind == "mem" {
			body = append(append(append(body, lastCell()...), c.ILocalGet(0)), c.IStore(c.I64, 8, 0))
		}
		return nil, body
	}
	// probe: params v(0) pre(1); locals tmp(2) : vt, s0(3) : i32, i(4) : i32
	locals = []byte{lg.vt, c.I32, c.I32}
	sized := ps.meta.Dir == "cw" && (lg.kind == "mem" || lg.kind == "tab")
	if sized {
		body = append(body, lg.size(m)...)
		body = append(body, c.ILocalSet(3))
	}
	plusI := func(base int) []c.Ins { // base + i
		return append(append([]c.Ins{c.ILocalGet(base)}, lg.ext(c.ILocalGet(4))...), c.IBin(lg.vt, 0))
	}
	acc := func(val []c.Ins) []c.Ins { // tmp = tmp*31 + val
		o := []c.Ins{c.ILocalGet(2), c.IConst(lg.vt, 31), c.IBin(lg.vt, 2)}
		o = append(o, val...)
		return append(o, c.IBin(lg.vt, 0), c.ILocalSet(2))
	}
	if ps.meta.Dir == "cw" {
		if n := ps.meta.Loop; n > 0 {
			var lb []c.Ins
			switch ps.meta.Touch {
			case "set":
				lb = append(lb, lg.write(m, plusI(1), wm)...)
			case "get":
				lb = append(append(lb, lg.read(m)...), c.IDrop)
			}
			lb = append(lb, lg.call(m, f, plusI(0))...)
			lb = append(lb, acc(lg.read(m))...)
			lb = append(lb, c.ILocalGet(4), c.IConst(c.I32, 1), c.IBin(c.I32, 0), c.ILocalTee(4), c.IConst(c.I32, uint64(n)), c.IRel(c.I32, 3), c.IBrIf(0))
			body = append(body, m.View.ILoop(nil, nil, lb))
		} else {
			switch ps.meta.Touch {
			case "set":
				body = append(body, lg.write(m, []c.Ins{c.ILocalGet(1)}, wm)...)
				body = append(body, c.ILocalGet(1), c.ILocalSet(2))
			case "get":
				body = append(append(body, lg.read(m)...), c.ILocalSet(2))
			}
			body = append(body, lg.call(m, f, []c.Ins{c.ILocalGet(0)})...)
		}
		body = append(body, c.ILocalGet(2))
		body = append(body, lg.read(m)...)
		if sized {
			body = append(body, c.ILocalGet(3))
			body = append(body, lg.size(m)...)
			body = append(body, lg.lastRead(m)...)
		}
		return locals, body
	}
	// cr: the frame writes, somebody else reads during the call
	if n := ps.meta.Loop; n > 0 {
		var lb []c.Ins
		lb = append(lb, lg.write(m, plusI(1), wm)...)
		lb = append(lb, acc(lg.call(m, f, nil))...)
		lb = append(lb, c.ILocalGet(4), c.IConst(c.I32, 1), c.IBin(c.I32, 0), c.ILocalTee(4), c.IConst(c.I32, uint64(n)), c.IRel(c.I32, 3), c.IBrIf(0))
		body = append(body, m.View.ILoop(nil, nil, lb), c.ILocalGet(2))
	} else {
		if ps.meta.Touch == "get" {
			body = append(append(body, lg.read(m)...), c.IDrop)
		}
		body = append(body, lg.write(m, []c.Ins{c.ILocalGet(1)}, wm)...)
		body = append(body, lg.call(m, f, nil)...)
	}
	body = append(body, lg.read(m)...)
	return locals, body
}

// ---------------------------------------------------------------- host module
func (lg *liveGraph) addHost(h *HostFn) int {
	for _, t := range h.sig.P {
		h.P = append(h.P, w(t))
	}
	for _, t := range h.sig.R {
		h.R = append(h.R, w(t))
	}
	if h.P == nil {
		h.P = []int{}
	}
	if h.R == nil {
		h.R = []int{}
	}
	lg.hosts = append(lg.hosts, h)
	k := len(lg.hosts) - 1
	o := &Obj{Kind: 0, Owner: 0, Idx: k, Sig: h.sig, Role: "host"}
	lg.hostMod.FObj = append(lg.hostMod.FObj, o)
	lg.hostMod.Exports[fmt.Sprintf("f%d", k)] = o
	return k
}

func (g *graph) fillX(m *LMod) {
	for i := range m.Imports {
		im := &m.Imports[i]
		im.SigS = sigStr(im.Sig)
		im.XKind = -1
		if im.Mod < len(g.mods) {
			if o, ok := g.mods[im.Mod].Exports[im.Name]; ok {
				im.XKind, im.XMin, im.XHasMax, im.XMax, im.XElem, im.XMut, im.XVT, im.XSig = int(o.Kind), o.Min, o.HasMax, o.Max, o.Elem, o.Mut, o.VT, sigStr(o.Sig)
				im.XShared = o.Shared
			}
		}
	}
}

// ---------------------------------------------------------------- modules
func (lg *liveGraph) buildModule(n int) *LMod {
	g, r := lg.g, lg.r
	m := g.newMod()
	if m.N != n {
		panic("module numbering")
	}
	imp := func(x *LMod, name string) *Import {
		o := x.Exports[name]
		im := Import{Mod: x.N, Name: name, Kind: o.Kind, obj: o, Variant: "ok"}
		switch o.Kind {
		case 0:
			im.Sig = o.Sig
		case 1, 2:
			im.Elem = o.Elem
			im.Min = uint32(r.Intn(int(o.Min) + 1))
			if o.HasMax && r.Bool() {
				im.HasMax, im.Max = true, o.Max+uint32(r.Pick([]uint64{0, 1, 50}))
			}
		case 3:
			im.Mut, im.VT = o.Mut, o.VT
		}
		m.Imports = append(m.Imports, im)
		return &m.Imports[len(m.Imports)-1]
	}
	// ---- imports: table(s), memory, globals, functions
	tabGraph := lg.kind == "tab"
	if tabGraph {
		m.Tabs = []TabSlot{}
	}
	impDecoy := func() { // a private table of an earlier instance, imported here
		type cand struct {
			x *LMod
			t TabSlot
		}
		var cs []cand
		for _, x := range g.mods[1:n] {
			for _, t := range x.Tabs {
				if t.Own && t.Obj != g.mods[lg.tabOwner].TObj {
					cs = append(cs, cand{x, t})
				}
			}
		}
		if len(cs) == 0 {
			return
		}
		k := cs[r.Intn(len(cs))]
		imp(k.x, k.t.Exp)
		m.Tabs = append(m.Tabs, TabSlot{Obj: k.t.Obj, Exp: fmt.Sprintf("dtab%d", len(m.Tabs))})
	}
	switch {
	case tabGraph && n > lg.tabOwner && lg.seesTab(n): // the shared table at index 0, 1 or 2 of this instance
		for k := r.Intn(3); k > 0; k-- {
			impDecoy()
		}
		x := g.mods[lg.tabOwner]
		imp(x, "tab")
		m.TObj, m.TIdx = x.TObj, len(m.Tabs)
		m.Tabs = append(m.Tabs, TabSlot{Obj: x.TObj, Exp: "tab"})
		if r.Intn(3) == 0 {
			impDecoy()
		}
	case tabGraph: // the owner (its own tables follow below), an instance before it, or the blind one
		if r.Bool() {
			impDecoy()
		}
	case n > lg.tabOwner:
		x := g.mods[lg.tabOwner]
		imp(x, "tab")
		m.TObj = x.TObj
	}
	isGlob := lg.kind == "g32" || lg.kind == "g64"
	if lg.kind == "mem" && lg.sees[n] && n != lg.owner {
		x := g.mods[lg.owner]
		imp(x, "mem")
		m.MObj = x.MObj
	}
	if isGlob && lg.sees[n] && n != lg.owner {
		// optionally another global of an earlier module first, so that the object's index differs between the instances
		if x := g.mods[1+r.Intn(n-1)]; r.Bool() && len(x.GObj) > 0 {
			k := r.Intn(len(x.GObj))
			imp(x, fmt.Sprintf("g%d", k))
			m.GObj = append(m.GObj, x.GObj[k])
			m.NImpG++
		}
		x := g.mods[lg.owner]
		if r.Intn(3) == 0 && len(x.GObj) > 1 { // ... and one more, possibly the object's neighbour in the owner
			k := r.Intn(len(x.GObj))
			if k != lg.objIdx[lg.owner] {
				imp(x, fmt.Sprintf("g%d", k))
				m.GObj = append(m.GObj, x.GObj[k])
				m.NImpG++
			}
		}
		imp(x, fmt.Sprintf("g%d", lg.objIdx[lg.owner]))
		lg.objIdx[n] = m.NImpG
		m.GObj = append(m.GObj, x.GObj[lg.objIdx[lg.owner]])
		m.NImpG++
	}
	addF := func(o *Obj, mod int, name string) int {
		m.Imports = append(m.Imports, Import{Mod: mod, Name: name, Kind: 0, obj: o, Variant: "ok", Sig: o.Sig})
		m.FObj = append(m.FObj, o)
		m.NImpF++
		return m.NImpF - 1
	}
	for _, f := range lg.perMod[n] {
		if f.next == nil {
			continue
		}
		if lg.impIdx[f] == nil {
			lg.impIdx[f] = map[*lfn]int{}
		}
		switch f.via {
		case 'D':
			x := g.mods[f.next.mod]
			lg.impIdx[f][f.next] = addF(x.FObj[f.next.idx], x.N, fmt.Sprintf("f%d", f.next.idx))
		case 'H':
			k := lg.addHost(&HostFn{Kind: "call", sig: f.next.sig, tgt: f.next})
			lg.impIdx[f][f.next] = addF(lg.hostMod.FObj[k], 0, fmt.Sprintf("f%d", k))
		case 'W':
			// the host accesses the object through the exports of an instance that sees it (resolved at run time)
			seers := lg.seers()
			t := seers[r.Intn(len(seers))]
			cw := len(f.next.sig.P) == 1
			hs := []int{-1, -1}
			if lg.kind == "mem" {
				if cw {
					if f.ps.meta.Grow {
						k := lg.addHost(&HostFn{Kind: "mgrow", Mod: t, sig: c.Sig{P: []byte{c.I32}, R: []byte{c.I32}}})
						hs[0] = addF(lg.hostMod.FObj[k], 0, fmt.Sprintf("f%d", k))
					}
					k := lg.addHost(&HostFn{Kind: "mwrite", Mod: t, sig: c.Sig{P: []byte{c.I32, c.I64}}})
					hs[1] = addF(lg.hostMod.FObj[k], 0, fmt.Sprintf("f%d", k))
				} else {
					k := lg.addHost(&HostFn{Kind: "mread", Mod: t, sig: c.Sig{P: []byte{c.I32}, R: []byte{c.I64}}})
					hs[1] = addF(lg.hostMod.FObj[k], 0, fmt.Sprintf("f%d", k))
				}
			} else if cw {
				k := lg.addHost(&HostFn{Kind: "gset", Mod: t, G: -1, sig: c.Sig{P: []byte{lg.vt}}})
				hs[1] = addF(lg.hostMod.FObj[k], 0, fmt.Sprintf("f%d", k))
			} else {
				k := lg.addHost(&HostFn{Kind: "gget", Mod: t, G: -1, sig: c.Sig{R: []byte{lg.vt}}})
				hs[1] = addF(lg.hostMod.FObj[k], 0, fmt.Sprintf("f%d", k))
			}
			lg.hostObjIdx[f] = hs
		}
	}
	// a couple of unrelated function imports (re-exported like everything else)
	for k := r.Intn(2); k > 0 && n > 1; k-- {
		x := g.mods[1+r.Intn(n-1)]
		i := r.Intn(len(x.FObj))
		if x.FObj[i].Role == "grow" || x.FObj[i].Role == "probe" {
			continue
		}
		addF(x.FObj[i], x.N, fmt.Sprintf("f%d", i))
	}
	// the import section interleaves the kinds (the order within one kind is kept)
	{
		var byKind [4][]Import
		for _, im := range m.Imports {
			byKind[im.Kind] = append(byKind[im.Kind], im)
		}
		var mixed []Import
		for len(mixed) < len(m.Imports) {
			k := r.Intn(4)
			if len(byKind[k]) > 0 {
				mixed = append(mixed, byKind[k][0])
				byKind[k] = byKind[k][1:]
			}
		}
		m.Imports = mixed
	}
	g.fillX(m)
	// ---- own objects
	ownDecoy := func() { // a private table, at whatever index comes next
		o := &Obj{Kind: 1, Owner: n, Idx: len(m.Tabs), Min: uint32(1 + r.Intn(4)), Elem: c.FuncRef}
		if r.Bool() {
			o.HasMax, o.Max = true, o.Min+uint32(r.Pick([]uint64{0, 1, 5}))
		}
		m.Tabs = append(m.Tabs, TabSlot{Obj: o, Own: true, Exp: fmt.Sprintf("dtab%d", len(m.Tabs))})
	}
	if n == lg.tabOwner {
		if tabGraph && r.Bool() { // a private table first: the shared one is not at index 0 in its owner
			ownDecoy()
		}
		m.OwnTab, m.TMin = true, liveTMin
		if r.Bool() {
			m.THasMax, m.TMax = true, liveTMin+uint32(r.Pick([]uint64{0, 2, 8}))
			if lg.kind == "tab" && lg.grow && r.Intn(4) != 0 { // mostly room to grow
				m.TMax = liveTMin + uint32(r.Pick([]uint64{2, 8, 40}))
			}
		}
		m.TObj = &Obj{Kind: 1, Owner: n, Min: m.TMin, HasMax: m.THasMax, Max: m.TMax, Elem: c.FuncRef}
		if tabGraph {
			m.TIdx, m.TObj.Idx = len(m.Tabs), len(m.Tabs)
			m.Tabs = append(m.Tabs, TabSlot{Obj: m.TObj, Own: true, Exp: "tab"})
		}
	}
	if tabGraph && (r.Bool() || (n == lg.blind && len(m.Tabs) == 0 && r.Intn(3) != 0)) {
		ownDecoy()
	}
	if lg.kind == "mem" && n == lg.owner {
		m.OwnMem, m.MMin = true, uint32(1+r.Intn(2))
		if r.Intn(3) != 0 {
			m.MHasMax, m.MMax = true, m.MMin+uint32(r.Pick([]uint64{0, 1, 3, 6}))
			if lg.grow && r.Intn(4) != 0 { // mostly room to grow
				m.MMax = m.MMin + uint32(r.Pick([]uint64{3, 6, 40}))
			}
		}
		m.MObj = &Obj{Kind: 2, Owner: n, Min: m.MMin, HasMax: m.MHasMax, Max: m.MMax}
	} else if m.MObj == nil && (r.Bool() || (n == lg.blind && r.Bool())) { // a private memory (the blind instance: mostly)
		m.OwnMem, m.MMin = true, 1
		m.MObj = &Obj{Kind: 2, Owner: n, Min: 1}
		if n == lg.blind && r.Bool() {
			m.MMin = 2
			m.MObj.Min = 2
			if r.Bool() {
				m.MHasMax, m.MMax = true, 2+uint32(r.Intn(3))
				m.MObj.HasMax, m.MObj.Max = true, m.MMax
			}
		}
	}
	addG := func(mut bool, t byte, v uint64) int {
		if t == c.I32 {
			v &= 0xffffffff
		}
		m.Globals = append(m.Globals, GDef{Mut: mut, T: t, Init: CE{V: v, T: t}})
		m.GObj = append(m.GObj, &Obj{Kind: 3, Owner: n, Idx: len(m.Globals) - 1, Mut: mut, VT: t, Val: v})
		return len(m.GObj) - 1
	}
	if isGlob && n == lg.blind { // private mutable globals of the object's type where the others have the shared one
		for k := 1 + r.Intn(3); k > 0; k-- {
			addG(true, lg.vt, uint64(200+r.Intn(50)))
		}
	}
	for k := r.Intn(3); k > 0; k-- {
		addG(r.Bool(), []byte{c.I32, c.I64}[r.Intn(2)], r.Pick([]uint64{0, 3, 77, 0xffffffff, r.U64()}))
	}
	if isGlob && n == lg.owner {
		lg.objIdx[n] = addG(true, lg.vt, uint64(1+r.Intn(9)))
		if r.Bool() {
			addG(true, []byte{c.I32, c.I64}[r.Intn(2)], uint64(r.Intn(100)))
		}
	}
	m.addKit(r, 2, r.Intn(2))
	ls := leaves(m)
	lg.leafAB[n] = [2]int{ls[len(ls)-2], ls[len(ls)-1]} // the module's own two leaves
	// ---- the live functions
	for _, f := range lg.perMod[n] {
		f.idx = m.NImpF + len(m.Funcs)
		locals, body := lg.body(m, f)
		m.Funcs = append(m.Funcs, &Fn{Sig: f.sig, Locals: locals, Body: body, Role: f.role})
		m.FObj = append(m.FObj, &Obj{Kind: 0, Owner: n, Idx: len(m.Funcs) - 1, Sig: f.sig, Role: f.role})
		if f.slot >= 0 {
			m.Elems = append(m.Elems, ElemSeg{Off: CE{V: uint64(f.slot), T: c.I32}, Funcs: []int{f.idx}, ROff: uint64(f.slot), Tab: m.TIdx})
		}
	}
	// ---- leaves in the table, a little data
	if m.TObj != nil {
		ab := lg.leafAB[n]
		if n == lg.tabOwner { // every leaf slot holds a function from the start
			var fs []int
			for i := liveChainN; i < liveTMin; i++ {
				fs = append(fs, ab[i%2])
			}
			m.Elems = append(m.Elems, ElemSeg{Off: CE{V: liveChainN, T: c.I32}, Funcs: fs, ROff: liveChainN, Tab: m.TIdx})
		} else if r.Bool() {
			s := liveChainN + r.Intn(liveTMin-liveChainN)
			if s == liveSlotS {
				s++
			}
			m.Elems = append(m.Elems, ElemSeg{Off: CE{V: uint64(s), T: c.I32}, Funcs: []int{ab[r.Intn(2)]}, ROff: uint64(s), Tab: m.TIdx})
		}
		if lg.kind == "tab" {
			m.DeclFuncs = []int{ab[0], ab[1]}
			m.PassiveFuncs = []int{ab[0], ab[1]} // element segment 0: the source of table.init
		}
	}
	if m.MObj != nil {
		for k := r.Intn(3); k > 0; k-- {
			bs := make([]byte, 1+r.Intn(6))
			for j := range bs {
				bs[j] = byte(1 + r.Intn(255))
			}
			off := uint64(r.Intn(200))
			m.Datas = append(m.Datas, DataSeg{Off: CE{V: off, T: c.I32}, Bytes: bs, ROff: off})
		}
	}
	m.finish()
	return m
}

// randomCalls: like graph.randomCalls, but a (re-)exported HOST function is called through the module's wasm wrapper of
// that import: obtaining an imported host function from Go (Module.ExportedFunction on a re-export) panics inside the
// compiler engine's NewFunction (index out of range in module_engine.go; the interpreter returns a callable function).
// Reported separately; not what this family is about.
func (lg *liveGraph) randomCalls(steps *[]Step, live []int, k int) {
	g := lg.g
	for ; k > 0; k-- {
		n := live[g.r.Intn(len(live))]
		m := g.mods[n]
		fi := g.r.Intn(len(m.FObj))
		if fi < m.NImpF && m.FObj[fi].Role == "host" {
			fi = m.findFn("wrap", fi)
		}
		*steps = append(*steps, g.callStep(n, fi))
	}
}

// ---------------------------------------------------------------- expectations (by design)
func (lg *liveGraph) value(writerMod int, v uint64) uint64 { // what a read returns after "v" was written through writerMod
	switch lg.kind {
	case "g32":
		return v & 0xffffffff
	case "tab":
		o := lg.g.mods[writerMod].FObj[lg.leafAB[writerMod][v&1]]
		return uint64(uint32(liveX)*o.LeafK + o.LeafC)
	}
	return v
}

func (lg *liveGraph) probeStep(ps *probeSpec) Step {
	r := lg.r
	meta := ps.meta
	mask := uint64(0xffffffffffffffff)
	if lg.vt == c.I32 {
		mask = 0xffffffff
	}
	v := r.Pick([]uint64{42, 7, 0xffffffff, 0x100000001, r.U64(), uint64(r.Intn(1000))}) & mask
	pre := r.Pick([]uint64{7, 1, 0x80000000, r.U64(), uint64(r.Intn(1000))}) & mask
	if pre == v {
		pre ^= 1
	}
	st := Step{K: "call", N: ps.fn.mod, F: ps.fn.idx, Args: []uint64{v, pre}, Role: "live", Probe: "live"}
	if ps.ent != nil {
		st.N, st.F = ps.ent.mod, ps.ent.idx
	}
	for _, t := range ps.fn.sig.R {
		st.RT = append(st.RT, w(t))
	}
	for m := 0; m <= lg.nmods; m++ {
		st.Need = append(st.Need, m)
	}
	end := ps.fn
	for end.next != nil {
		end = end.next
	}
	wm := end.mod // the instance through which the write happened (tab: whose leaves)
	n := meta.Loop
	// whose call engine runs the code that touches the object during the call: the instance the host (or a host function)
	// entered last on the way; what does that instance have at the writer's index?
	eng, cur := st.N, ps.fn
	if ps.ent != nil {
		cur = ps.ent
	}
	for ; cur.next != nil; cur = cur.next {
		if cur.via == 'H' {
			eng = cur.next.mod
		}
	}
	switch lg.kind {
	case "tab":
		meta.Obj = [2]int{lg.tabOwner, lg.g.mods[lg.tabOwner].TIdx}
		for _, k := range meta.Mods {
			if k >= 1 && lg.g.mods[k].TObj != nil {
				meta.TIdx = append(meta.TIdx, lg.g.mods[k].TIdx)
			} else {
				meta.TIdx = append(meta.TIdx, -1)
			}
		}
	case "mem":
		meta.Obj = [2]int{lg.owner, -1}
	default:
		meta.Obj = [2]int{lg.owner, lg.objIdx[lg.owner]}
	}
	switch {
	case end.role == "hostobj":
		meta.Ctx = "host-entered"
	case eng == end.mod:
		meta.Ctx = "same-instance"
	default:
		a, b := lg.g.mods[eng], lg.g.mods[end.mod]
		var there, here interface{}
		switch lg.kind {
		case "tab":
			here = b.TObj
			if b.TIdx < len(a.Tabs) {
				there = a.Tabs[b.TIdx].Obj
			}
		case "mem":
			here = b.MObj
			if a.MObj != nil {
				there = a.MObj
			}
		default:
			here = b.GObj[lg.objIdx[b.N]]
			if lg.objIdx[b.N] < len(a.GObj) {
				there = a.GObj[lg.objIdx[b.N]]
			}
		}
		switch {
		case there == nil:
			meta.Ctx = "nothing-at-index"
		case there == here:
			meta.Ctx = "same-index-same-object"
		default:
			meta.Ctx = "other-object-at-index"
		}
	}
	exp := func(i int, x uint64) { meta.ExpIdx = append(meta.ExpIdx, i); meta.ExpVal = append(meta.ExpVal, x) }
	fold := func(val func(i int) uint64) uint64 {
		var a uint64
		for i := 0; i < n; i++ {
			a = (a*31 + val(i)) & mask
		}
		return a
	}
	if meta.Dir == "cw" {
		if n > 0 {
			exp(0, fold(func(i int) uint64 { return lg.value(wm, (v+uint64(i))&mask) }))
			exp(1, lg.value(wm, (v+uint64(n-1))&mask))
			meta.Grows = n
		} else {
			if meta.Touch == "set" {
				exp(0, pre)
			}
			exp(1, lg.value(wm, v))
			meta.Grows = 1
		}
		if !meta.Grow {
			meta.Grows = 0
		}
		if lg.kind == "mem" || lg.kind == "tab" {
			meta.SizeIdx = []int{2, 3}
			if lg.kind == "mem" {
				if o := lg.g.mods[lg.owner].MObj; o.HasMax {
					meta.Max = int64(o.Max)
				}
				if meta.Writer != "host" {
					exp(4, (v+uint64(max(n, 1)-1))&mask) // the writer also stored into the last cell of the (grown) memory
				}
			} else if o := lg.g.mods[lg.tabOwner].TObj; o.HasMax {
				meta.Max = int64(o.Max)
			}
		}
	} else {
		rm := ps.fn.mod // the frame's own write
		if n > 0 {
			exp(0, fold(func(i int) uint64 { return lg.value(rm, (pre+uint64(i))&mask) }))
			exp(1, lg.value(rm, (pre+uint64(n-1))&mask))
		} else {
			exp(0, lg.value(rm, pre))
			exp(1, lg.value(rm, pre))
		}
	}
	st.Live = &meta
	return st
}

// ---------------------------------------------------------------- the case
type liveForce struct {
	kind  string
	demo  bool // the three-instance graph of the seeded defect C04c: H (table, f = call_indirect 0), A (owner, direct call of H.f), B (setter in the table)
	combo bool // every reader x writer x first-instruction combination
	grow  int  // 1: the callee grows the object, 2: it does not, 0: random
}

var liveKinds = []string{"g32", "g64", "mem", "tab"}

func (g *graph) buildLive(id int, force *liveForce) *Case {
	r := g.r
	lg := &liveGraph{g: g, r: r, impIdx: map[*lfn]map[*lfn]int{}, hostObjIdx: map[*lfn][]int{}}
	lg.kind = liveKinds[r.Intn(len(liveKinds))]
	lg.nmods = 3 + r.Intn(3)
	lg.tabOwner = 1 + r.Intn(2)*r.Intn(2)
	if force != nil {
		lg.kind = force.kind
		if force.combo {
			lg.nmods = 4 + r.Intn(2)
		}
		if force.demo {
			lg.nmods, lg.tabOwner = 3, 1
		}
	}
	lg.vt = c.I64
	if lg.kind == "g32" || lg.kind == "tab" {
		lg.vt = c.I32
	}
	lg.model = lg.kind != "tab"
	lg.owner = 1 + r.Intn(lg.nmods-2) // at least two later instances
	if lg.kind == "tab" {
		lg.owner = lg.tabOwner
	}
	if force != nil && force.demo {
		lg.owner = 2
	}
	lg.sees = make([]bool, lg.nmods+2)
	lg.sees[lg.owner] = true
	cnt := 0
	for m := lg.owner + 1; m <= lg.nmods; m++ {
		lg.sees[m] = r.Intn(4) != 0 || lg.kind == "tab" || (force != nil && force.combo)
		if lg.sees[m] {
			cnt++
		}
	}
	for m := lg.nmods; cnt < 2 && m > lg.owner; m-- { // two importers at least (a reader and a writer besides the owner)
		if !lg.sees[m] {
			lg.sees[m] = true
			cnt++
		}
	}
	if force != nil && force.demo {
		lg.sees[3], cnt = true, 1
	}
	// a last instance that never sees the object: it has a private memory / table / global where the others have the shared one
	if (force == nil && r.Intn(3) != 0) || (force != nil && force.combo) {
		lg.nmods++
		lg.blind = lg.nmods
	}
	lg.sees = lg.sees[:lg.nmods+1]
	lg.objIdx = make([]int, lg.nmods+1)
	lg.leafAB = make([][2]int, lg.nmods+1)
	lg.perMod = make([][]*lfn, lg.nmods+1)
	lg.grow = (lg.kind == "mem" || lg.kind == "tab") && r.Bool()
	if force != nil && force.grow != 0 {
		lg.grow = (lg.kind == "mem" || lg.kind == "tab") && force.grow == 1
	}
	// the probes
	switch {
	case force != nil && force.demo:
		ps := &probeSpec{chain: c.Sig{P: []byte{lg.vt}}}
		ps.meta = LiveProbe{Kind: lg.kind, Dir: "cw", Reader: "owner", Writer: "inst", Hops: 2, Touch: "set", Model: true, Max: -1, Path: "DI", First: "call", Mods: []int{2, 1, 3}, Entry: -1}
		ps.fn = lg.newFn(2, "probe", c.Sig{P: []byte{lg.vt, lg.vt}, R: []byte{lg.vt, lg.vt}})
		relay := lg.newFn(1, "relay", ps.chain)
		set := lg.newFn(3, "lset", ps.chain)
		ps.fn.ps, relay.ps, set.ps = ps, ps, ps
		ps.fn.via, ps.fn.next = 'D', relay
		relay.via, relay.next = 'I', set
		set.slot, lg.nslot = 0, 1
		lg.probes = append(lg.probes, ps)
	case force != nil && force.combo:
		for _, rd := range []string{"owner", "importer"} {
			for _, wr := range []string{"inst", "self", "host"} {
				for _, first := range []string{"call", "call_indirect"} {
					lg.planProbe(liveWant{reader: rd, writer: wr, first: first, dir: "cw", touch: []string{"set", "get", "none"}[r.Intn(3)], hops: 1 + r.Intn(3), loop: r.Intn(2) * (2 + r.Intn(3)),
						entry: []string{"blind", "none", "other"}[len(lg.probes)%3]})
				}
			}
		}
		for _, rd := range []string{"owner", "importer"} {
			lg.planProbe(liveWant{reader: rd, writer: []string{"inst", "self", "host"}[r.Intn(3)], first: "call", dir: "cr", touch: "set", hops: 1 + r.Intn(3), loop: r.Intn(2) * 3,
				entry: []string{"blind", "none", "other"}[r.Intn(3)]})
		}
	default:
		for k := 2 + r.Intn(4); k > 0; k-- {
			w := liveWant{reader: []string{"owner", "importer"}[r.Intn(2)], writer: []string{"inst", "inst", "self", "host"}[r.Intn(4)],
				first: []string{"call", "call", "call_indirect"}[r.Intn(3)], dir: "cw", touch: []string{"set", "set", "get", "none"}[r.Intn(4)], hops: 1 + r.Intn(3)}
			if r.Intn(4) == 0 {
				w.dir = "cr"
			}
			if r.Intn(3) == 0 {
				w.loop = 2 + r.Intn(4)
			}
			w.entry = []string{"none", "none", "blind", "other"}[r.Intn(4)]
			lg.planProbe(w)
		}
	}
	// the host module is number 0
	hm := g.newMod()
	hm.IsHost, hm.Exports = true, map[string]*Obj{}
	lg.hostMod = hm
	cs := &Case{ID: id, Limit: 65536, Engines: map[string][]Obs{}, Fam: "live", NoModel: !lg.model, Blind: lg.blind}
	if force != nil {
		cs.Witness = "lw-" + force.kind
		if lg.grow {
			cs.Witness += "-grow"
		}
		if force.demo {
			cs.Witness = "lw-demo"
		}
	}
	steps := []Step{{K: "hinst", N: 0}}
	var live []int
	for n := 1; n <= lg.nmods; n++ {
		m := lg.buildModule(n)
		snaps(&steps, live, "pre", m.N)
		steps = append(steps, Step{K: "inst", N: m.N})
		snaps(&steps, live, "post", m.N)
		steps = append(steps, Step{K: "snap", N: m.N, Need: []int{m.N}, Tag: "self", Of: m.N})
		live = append(live, m.N)
		g.probes(&steps, live, m.N) // (no other calls yet: host functions may name instances that are not there so far)
	}
	lg.randomCalls(&steps, live, 2+r.Intn(4))
	// resolve the host functions
	for _, h := range lg.hosts {
		switch h.Kind {
		case "call":
			h.Mod, h.F = h.tgt.mod, h.tgt.idx
		case "gset":
			h.G = lg.objIdx[h.Mod]
			h.F = g.mods[h.Mod].findFn("gset", h.G)
		case "gget":
			h.G = lg.objIdx[h.Mod]
			h.F = g.mods[h.Mod].findFn("gget", h.G)
		case "mwrite":
			h.F = g.mods[h.Mod].findFn("st64", -1)
		case "mread":
			h.F = g.mods[h.Mod].findFn("ld64", -1)
		case "mgrow":
			h.F = g.mods[h.Mod].findFn("grow", -1)
		}
		cs.Hosts = append(cs.Hosts, *h)
	}
	// the probes, each once or twice, other calls in between
	order := make([]*probeSpec, 0, 2*len(lg.probes))
	for _, ps := range lg.probes {
		order = append(order, ps)
		if r.Bool() {
			order = append(order, ps)
		}
	}
	for i := len(order) - 1; i > 0; i-- {
		j := r.Intn(i + 1)
		order[i], order[j] = order[j], order[i]
	}
	for _, ps := range order {
		steps = append(steps, lg.probeStep(ps))
		if r.Intn(3) == 0 {
			lg.randomCalls(&steps, live, 1)
		}
		if r.Intn(6) == 0 {
			snaps(&steps, live, "mid", -1)
		}
	}
	snaps(&steps, live, "final", -1)
	cs.Steps = steps
	cs.lm = g.mods
	for _, m := range g.mods {
		if m.IsHost {
			cs.bins = append(cs.bins, nil)
			cs.Mods = append(cs.Mods, ModOut{N: m.N, Host: true, Fault: "none", Imports: []Import{}, MemOf: -1})
			continue
		}
		bin := m.Encode()
		cs.bins = append(cs.bins, bin)
		mo := ModOut{N: m.N, Wasm: hex.EncodeToString(bin), Fault: m.Fault, Imports: m.Imports, NElems: len(m.Elems),
			OwnMem: m.OwnMem, MemOf: -1, NGlob: len(m.GObj), NImpF: m.NImpF, Tabs: m.tabIdents()}
		if lg.model {
			mo.Coq = m.Coq()
		}
		if m.Imports == nil {
			mo.Imports = []Import{}
		}
		if m.MObj != nil {
			mo.MemOf = m.MObj.Owner
		}
		for gi, o := range m.GObj {
			mo.GOwner = append(mo.GOwner, [2]int{o.Owner, o.Idx})
			if !o.Mut || gi >= m.NImpG {
				mo.GInit = append(mo.GInit, u64p(o.Val))
			} else {
				mo.GInit = append(mo.GInit, nil)
			}
		}
		for _, d := range m.Datas {
			row := []uint64{d.ROff}
			for _, b := range d.Bytes {
				row = append(row, uint64(b))
			}
			mo.Datas = append(mo.Datas, row)
		}
		cs.Mods = append(cs.Mods, mo)
	}
	return cs
}

// ---------------------------------------------------------------- an observation outside the property (reported, never judged)
// Aux: a wasm module re-exports a host function it imports; the host obtains it with Module.ExportedFunction and calls it.
type Aux struct {
	Aux     string            `json:"aux"`
	Engines map[string]string `json:"engines"`
}

func auxReexportedHost() Aux {
	// (module (import "env" "h" (func (param i32))) (export "h" (func 0)))
	bin := []byte{0, 0x61, 0x73, 0x6d, 1, 0, 0, 0,
		0x01, 0x05, 0x01, 0x60, 0x01, 0x7f, 0x00,
		0x02, 0x09, 0x01, 0x03, 'e', 'n', 'v', 0x01, 'h', 0x00, 0x00,
		0x07, 0x05, 0x01, 0x01, 'h', 0x00, 0x00}
	a := Aux{Aux: "reexported-host-function-called-from-go", Engines: map[string]string{}}
	for _, eng := range []string{"interp", "compiler"} {
		a.Engines[eng] = auxRun(eng, bin)
	}
	return a
}

// auxStartHost: a module whose START section names an imported host function (same root as the re-exported host function)
func auxStartHost() Aux {
	// (module (import "env" "h0" (func)) (start 0))
	bin := []byte{0, 0x61, 0x73, 0x6d, 1, 0, 0, 0,
		0x01, 0x04, 0x01, 0x60, 0x00, 0x00,
		0x02, 0x0a, 0x01, 0x03, 'e', 'n', 'v', 0x02, 'h', '0', 0x00, 0x00,
		0x08, 0x01, 0x00}
	a := Aux{Aux: "start-section-names-imported-host-function", Engines: map[string]string{}}
	for _, eng := range []string{"interp", "compiler"} {
		a.Engines[eng] = auxStartRun(eng, bin)
	}
	return a
}

// auxLookupImported: experimental/table.LookupFunction on a table element that refers to an IMPORTED function must
// return that function (A.f1, which returns 2), on both engines
func auxLookupImported() Aux {
	// A: (func (export "f0") (result i32) i32.const 1) (func (export "f1") (result i32) i32.const 2)
	modA := []byte{0, 0x61, 0x73, 0x6d, 1, 0, 0, 0,
		1, 5, 1, 0x60, 0, 1, 0x7f,
		3, 3, 2, 0, 0,
		7, 11, 2, 2, 'f', '0', 0, 0, 2, 'f', '1', 0, 1,
		10, 11, 2, 4, 0, 0x41, 1, 0x0b, 4, 0, 0x41, 2, 0x0b}
	// B: (import "A" "f1" (func (result i32))) (table 1 funcref) (elem (i32.const 0) 0)
	modB := []byte{0, 0x61, 0x73, 0x6d, 1, 0, 0, 0,
		1, 5, 1, 0x60, 0, 1, 0x7f,
		2, 8, 1, 1, 'A', 2, 'f', '1', 0, 0,
		4, 4, 1, 0x70, 0, 1,
		9, 7, 1, 0, 0x41, 0, 0x0b, 1, 0}
	a := Aux{Aux: "lookup-imported-function", Engines: map[string]string{}}
	for _, eng := range []string{"interp", "compiler"} {
		a.Engines[eng] = auxLookupRun(eng, modA, modB)
	}
	return a
}
