package main

// Generation of linked module graphs for C04: every module is described once and rendered twice, as a
// WebAssembly binary and as a Coq term of type Rt.Linking.modul.

import (
	"fmt"
	"strings"

	c "github.com/tetratelabs/wazero/internal/zz_verif/common"
)

// Obj is a store object by design identity: the module that defines it and its position there.
type Obj struct {
	Kind   byte // 0 func, 1 table, 2 memory, 3 global
	Owner  int
	Idx    int
	Sig    c.Sig
	Min    uint32
	HasMax bool
	Max    uint32
	Elem   byte
	Shared bool // memories: the threads proposal's shared flag
	Mut    bool
	VT     byte
	Val    uint64 // immutable globals: the value (known by design)
	LeafK  uint32 // functions (i32)->i32 computing x*K+C
	LeafC  uint32
	IsLeaf bool
	Role   string // functions: the role of the defining function
	Arg    int
}

type CE struct { // constant expression
	Get bool
	K   int // global index (imported)
	V   uint64
	T   byte
}

func (e CE) bin() []byte {
	if e.Get {
		return c.Cat(c.GlobalGet(uint32(e.K)), c.B(0x0b))
	}
	if e.T == c.I64 {
		return c.Cat(c.I64Const(int64(e.V)), c.B(0x0b))
	}
	return c.Cat(c.I32Const(int32(uint32(e.V))), c.B(0x0b))
}
func (e CE) coq() string {
	if e.Get {
		return fmt.Sprintf("CGlobalGet %d", e.K)
	}
	if e.T == c.I64 {
		return fmt.Sprintf("CConst 64 %d", e.V)
	}
	return fmt.Sprintf("CConst 32 %d", e.V&0xffffffff)
}

type Import struct {
	Mod    int    `json:"mod"` // exporter: instantiation number
	Name   string `json:"name"`
	Kind   byte   `json:"kind"`
	Sig    c.Sig  `json:"-"`
	TypIdx int    `json:"-"`
	Min    uint32 `json:"min"`
	HasMax bool   `json:"hasmax"`
	Max    uint32 `json:"max"`
	Elem   byte   `json:"elem"`
	Shared bool   `json:"shared"` // memory imports: declared shared (limits flag 0x03)
	Mut    bool   `json:"mut"`
	VT     byte   `json:"vt"`
	SigS   string `json:"sig"`
	// what the exporter offers under that name (by design), for the Python oracle
	XKind   int    `json:"xkind"` // -1: no such export
	XMin    uint32 `json:"xmin"`
	XHasMax bool   `json:"xhasmax"`
	XMax    uint32 `json:"xmax"`
	XElem   byte   `json:"xelem"`
	XShared bool   `json:"xshared"`
	XMut    bool   `json:"xmut"`
	XVT     byte   `json:"xvt"`
	XSig    string `json:"xsig"`
	Variant string `json:"variant"`
	obj     *Obj
}

type GDef struct {
	Mut  bool
	T    byte
	Init CE
}
type ElemSeg struct {
	Off   CE
	Funcs []int  // function indices; -1 = ref.null func (the segment is then encoded with expressions)
	ROff  uint64 // resolved offset (by design)
	Tab   int    // table index (0: the short encodings)
}

// TabSlot: one entry of a module's table index space (live-frame family, table graphs: several tables per module)
type TabSlot struct {
	Obj *Obj   // the table by design identity (Owner, Idx = its index in the owner's index space)
	Own bool   // defined here (imported otherwise: the import is in LMod.Imports, same relative order)
	Exp string // the name it is exported under
}
type DataSeg struct {
	Off   CE
	Bytes []byte
	ROff  uint64
}

type Fn struct {
	Sig    c.Sig
	Locals []byte
	Body   []c.Ins
	Role   string // ld8, ld64, st32, st64, size, grow, gget, gset, calli, calli64, leaf, leaf64, wrap, mix, start
	Arg    int    // global index / imported function index
}

type LMod struct {
	N       int
	Name    string
	View    *c.ModSpec // type registry
	Imports []Import
	Funcs   []*Fn // own
	OwnTab  bool
	TMin    uint32
	THasMax bool
	TMax    uint32
	OwnMem  bool
	MMin    uint32
	MHasMax bool
	MMax    uint32
	MShared bool
	Globals []GDef
	Elems   []ElemSeg
	Datas   []DataSeg
	Start   int
	Fault   string
	// index spaces (objects by design)
	FObj []*Obj
	GObj []*Obj
	MObj *Obj
	TObj *Obj
	Exports map[string]*Obj
	NImpF, NImpG int
	IsHost    bool  // live-frame family: the host module (never encoded)
	DeclFuncs []int // functions named by ref.func (a declarative element segment)
	// table index space of the live-frame family's table graphs (nil: at most one table, index 0, exported as "tab")
	Tabs         []TabSlot
	TIdx         int   // index of TObj (the shared table) in this module's table index space
	PassiveFuncs []int // a passive element segment (emitted first: element index 0), the source of table.init
}

// callInd: call_indirect through table tab
func callInd(ty, tab int) c.Ins {
	if tab == 0 {
		return c.ICallIndirect(ty)
	}
	return c.Ins{Bin: c.Cat(c.B(0x11), c.U32(uint32(ty)), c.U32(uint32(tab))), Coq: fmt.Sprintf("CallIndirect %d", ty)}
}

func w(t byte) int {
	if t == c.I64 {
		return 64
	}
	return 32
}
func widths(ts []byte) string {
	ss := make([]string, len(ts))
	for i, t := range ts {
		ss[i] = fmt.Sprint(w(t))
	}
	return "[" + strings.Join(ss, "; ") + "]"
}
func sigStr(s c.Sig) string { return widths(s.P) + "->" + widths(s.R) }

func nameID(name string) int {
	var k int
	switch {
	case name == "mem":
		return 2000
	case name == "tab":
		return 3000
	case strings.HasPrefix(name, "f"):
		fmt.Sscanf(name[1:], "%d", &k)
		return k
	case strings.HasPrefix(name, "g"):
		fmt.Sscanf(name[1:], "%d", &k)
		return 1000 + k
	}
	return 9999
}

func limitsBin(min uint32, hasmax bool, max uint32) []byte {
	if hasmax {
		return c.MemLimits(min, &max)
	}
	return c.MemLimits(min, nil)
}

// memLimitsBin: limits of a memory type; a shared memory (flag 0x03) always declares its maximum
func memLimitsBin(min uint32, hasmax bool, max uint32, shared bool) []byte {
	if shared {
		return c.Cat(c.B(3), c.U32(min), c.U32(max))
	}
	return limitsBin(min, hasmax, max)
}

// tabIdents: per table index, the table by design identity
func (m *LMod) tabIdents() [][2]int {
	o := [][2]int{}
	if m.Tabs != nil {
		for _, t := range m.Tabs {
			o = append(o, [2]int{t.Obj.Owner, t.Obj.Idx})
		}
	} else if m.TObj != nil {
		o = append(o, [2]int{m.TObj.Owner, m.TObj.Idx})
	}
	return o
}

func (m *LMod) HasMem() bool { return m.MObj != nil }
func (m *LMod) HasTab() bool { return m.TObj != nil }

func seqBin(is []c.Ins) []byte {
	var o []byte
	for _, i := range is {
		o = append(o, i.Bin...)
	}
	return o
}
func seqCoq(is []c.Ins) string {
	ss := make([]string, len(is))
	for i, x := range is {
		ss[i] = x.Coq
	}
	return "[" + strings.Join(ss, "; ") + "]"
}

// Encode renders the binary. All functions, globals, the memory and the table are exported.
func (m *LMod) Encode() []byte {
	mod := &c.Mod{}
	for i := range m.Imports {
		im := &m.Imports[i]
		if im.Kind == 0 {
			im.TypIdx = m.View.TypeIdx(im.Sig)
		}
	}
	for _, f := range m.Funcs {
		m.View.TypeIdx(f.Sig)
	}
	for _, im := range m.Imports {
		mn := fmt.Sprintf("m%d", im.Mod)
		switch im.Kind {
		case 0:
			mod.Imports = append(mod.Imports, c.ImportFunc(mn, im.Name, uint32(im.TypIdx)))
		case 1:
			mod.Imports = append(mod.Imports, c.Cat(c.Name(mn), c.Name(im.Name), c.B(1, im.Elem), limitsBin(im.Min, im.HasMax, im.Max)))
		case 2:
			mod.Imports = append(mod.Imports, c.Cat(c.Name(mn), c.Name(im.Name), c.B(2), memLimitsBin(im.Min, im.HasMax, im.Max, im.Shared)))
		case 3:
			mu := byte(0)
			if im.Mut {
				mu = 1
			}
			mod.Imports = append(mod.Imports, c.Cat(c.Name(mn), c.Name(im.Name), c.B(3, im.VT, mu)))
		}
	}
	for i, f := range m.Funcs {
		mod.Funcs = append(mod.Funcs, c.U32(uint32(m.View.TypeIdx(f.Sig))))
		mod.Codes = append(mod.Codes, c.Code(f.Locals, seqBin(f.Body)))
		_ = i
	}
	for i := 0; i < m.NImpF+len(m.Funcs); i++ {
		mod.Exports = append(mod.Exports, c.Export(fmt.Sprintf("f%d", i), 0, uint32(i)))
	}
	for _, t := range m.View.Types {
		mod.Types = append(mod.Types, c.FT(t.P, t.R))
	}
	if m.Tabs != nil {
		for i, t := range m.Tabs {
			if t.Own {
				mod.Tables = append(mod.Tables, c.Cat(c.B(c.FuncRef), limitsBin(t.Obj.Min, t.Obj.HasMax, t.Obj.Max)))
			}
			mod.Exports = append(mod.Exports, c.Export(t.Exp, 1, uint32(i)))
		}
	} else {
		if m.OwnTab {
			mod.Tables = [][]byte{c.Cat(c.B(c.FuncRef), limitsBin(m.TMin, m.THasMax, m.TMax))}
		}
		if m.HasTab() {
			mod.Exports = append(mod.Exports, c.Export("tab", 1, 0))
		}
	}
	if m.OwnMem {
		mod.Mems = [][]byte{memLimitsBin(m.MMin, m.MHasMax, m.MMax, m.MShared)}
	}
	if m.HasMem() {
		mod.Exports = append(mod.Exports, c.Export("mem", 2, 0))
	}
	for _, g := range m.Globals {
		mu := byte(0)
		if g.Mut {
			mu = 1
		}
		mod.Globals = append(mod.Globals, c.Cat(c.B(g.T, mu), g.Init.bin()))
	}
	for i := 0; i < m.NImpG+len(m.Globals); i++ {
		mod.Exports = append(mod.Exports, c.Export(fmt.Sprintf("g%d", i), 3, uint32(i)))
	}
	if m.Start >= 0 {
		mod.Start = c.U32(uint32(m.Start))
	}
	if len(m.PassiveFuncs) > 0 {
		fs := [][]byte{}
		for _, f := range m.PassiveFuncs {
			fs = append(fs, c.U32(uint32(f)))
		}
		mod.Elems = append(mod.Elems, c.Cat(c.U32(1), c.B(0), c.Vec(fs...)))
	}
	for _, e := range m.Elems {
		fs, xs, null := [][]byte{}, [][]byte{}, false
		for _, f := range e.Funcs {
			if f < 0 {
				null = true
				xs = append(xs, c.B(0xd0, c.FuncRef, 0x0b)) // ref.null func
				continue
			}
			fs = append(fs, c.U32(uint32(f)))
			xs = append(xs, c.Cat(c.B(0xd2), c.U32(uint32(f)), c.B(0x0b))) // ref.func f
		}
		switch {
		case null && e.Tab == 0: // (elem (offset) funcref (item ...)...)
			mod.Elems = append(mod.Elems, c.Cat(c.U32(4), e.Off.bin(), c.Vec(xs...)))
		case null:
			mod.Elems = append(mod.Elems, c.Cat(c.U32(6), c.U32(uint32(e.Tab)), e.Off.bin(), c.B(c.FuncRef), c.Vec(xs...)))
		case e.Tab != 0: // explicit table index, element kind funcref
			mod.Elems = append(mod.Elems, c.Cat(c.U32(2), c.U32(uint32(e.Tab)), e.Off.bin(), c.B(0), c.Vec(fs...)))
		default:
			mod.Elems = append(mod.Elems, c.Cat(c.U32(0), e.Off.bin(), c.Vec(fs...)))
		}
	}
	if len(m.DeclFuncs) > 0 {
		fs := [][]byte{}
		for _, f := range m.DeclFuncs {
			fs = append(fs, c.U32(uint32(f)))
		}
		mod.Elems = append(mod.Elems, c.Cat(c.U32(3), c.B(0), c.Vec(fs...)))
	}
	for _, d := range m.Datas {
		mod.Datas = append(mod.Datas, c.Cat(c.U32(0), d.Off.bin(), c.U32(uint32(len(d.Bytes))), d.Bytes))
	}
	return mod.Bytes()
}

func coqBool(b bool) string {
	if b {
		return "true"
	}
	return "false"
}

// Coq renders the Rt.Linking.modul term (call after Encode: the type section is complete then).
func (m *LMod) Coq() string {
	ts := make([]string, len(m.View.Types))
	for i, t := range m.View.Types {
		ts[i] = fmt.Sprintf("(%s, %s)", widths(t.P), widths(t.R))
	}
	var ims []string
	for _, im := range m.Imports {
		var d string
		switch im.Kind {
		case 0:
			d = fmt.Sprintf("IFunc %d", im.TypIdx)
		case 1:
			d = fmt.Sprintf("ITable %d %s %d %d", im.Min, coqBool(im.HasMax), im.Max, im.Elem)
		case 2:
			d = fmt.Sprintf("IMem %d %s %d %s", im.Min, coqBool(im.HasMax), im.Max, coqBool(im.Shared))
		case 3:
			d = fmt.Sprintf("IGlobal %s %d", coqBool(im.Mut), w(im.VT))
		}
		ims = append(ims, fmt.Sprintf("Build_import %d %d (%s)", im.Mod, nameID(im.Name), d))
	}
	var fs []string
	for _, f := range m.Funcs {
		fs = append(fs, fmt.Sprintf("Build_fdef %d %d %s", m.View.TypeIdx(f.Sig), len(f.Locals), seqCoq(f.Body)))
	}
	tab, mem := "None", "None"
	if m.OwnTab {
		tab = fmt.Sprintf("(Some (%d, %s, %d))", m.TMin, coqBool(m.THasMax), m.TMax)
	}
	if m.OwnMem {
		mem = fmt.Sprintf("(Some (%d, %s, %d, %s))", m.MMin, coqBool(m.MHasMax), m.MMax, coqBool(m.MShared))
	}
	var gs []string
	for _, g := range m.Globals {
		gs = append(gs, fmt.Sprintf("Build_gdef %s %d (%s)", coqBool(g.Mut), w(g.T), g.Init.coq()))
	}
	var xs []string
	for i := 0; i < m.NImpF+len(m.Funcs); i++ {
		xs = append(xs, fmt.Sprintf("(%d, EFunc %d)", i, i))
	}
	if m.HasTab() {
		xs = append(xs, "(3000, ETab 0)")
	}
	if m.HasMem() {
		xs = append(xs, "(2000, EMem 0)")
	}
	for i := 0; i < m.NImpG+len(m.Globals); i++ {
		xs = append(xs, fmt.Sprintf("(%d, EGlob %d)", 1000+i, i))
	}
	var es []string
	for _, e := range m.Elems {
		fi := make([]string, len(e.Funcs))
		for i, f := range e.Funcs {
			fi[i] = fmt.Sprintf("Some %d%%nat", f)
			if f < 0 {
				fi[i] = "None"
			}
		}
		es = append(es, fmt.Sprintf("(%s, [%s])", e.Off.coq(), strings.Join(fi, "; ")))
	}
	var ds []string
	for _, d := range m.Datas {
		bs := make([]string, len(d.Bytes))
		for i, b := range d.Bytes {
			bs[i] = fmt.Sprint(b)
		}
		ds = append(ds, fmt.Sprintf("(%s, [%s])", d.Off.coq(), strings.Join(bs, "; ")))
	}
	start := "None"
	if m.Start >= 0 {
		start = fmt.Sprintf("(Some %d%%nat)", m.Start)
	}
	j := func(xs []string) string { return "[" + strings.Join(xs, ";\n   ") + "]" }
	return fmt.Sprintf("(Build_modul [%s]\n  %s\n  %s\n  %s %s %s\n  %s\n  %s %s %s)",
		strings.Join(ts, "; "), j(ims), j(fs), tab, mem, j(gs), j(xs), j(es), j(ds), start)
}

// ---------------------------------------------------------------- function bodies
type bodyGen struct {
	r      *c.Rng
	m      *LMod
	locals []byte // params + locals
	calls  []int  // callable function indices (module index space)
	memLo  uint32 // bytes surely inside the memory
	depth  int
}

func (m *LMod) fsig(i int) c.Sig {
	if i < m.NImpF {
		return m.FObj[i].Sig
	}
	return m.Funcs[i-m.NImpF].Sig
}

var safeBin = []int{0, 1, 2, 7, 8, 9, 10, 11, 12, 13, 14}

func (g *bodyGen) konst(t byte) c.Ins {
	if t == c.I64 {
		return c.IConst(t, g.r.Pick([]uint64{0, 1, 2, 7, 255, 0xffffffff, 0x100000000, 0x8000000000000000, g.r.U64(), uint64(g.r.Intn(100))}))
	}
	return c.IConst(t, g.r.Pick([]uint64{0, 1, 2, 7, 255, 65535, 0x7fffffff, 0x80000000, 0xffffffff, g.r.U64(), uint64(g.r.Intn(100))}))
}

func (g *bodyGen) addr() []c.Ins {
	switch k := g.r.Intn(10); {
	case k < 5:
		return []c.Ins{c.IConst(c.I32, uint64(g.r.Intn(int(g.memLo)-8)))}
	case k < 8:
		return append(g.expr(c.I32, 1), c.IConst(c.I32, 0x3f8), c.IBin(c.I32, 7))
	case k == 8:
		return []c.Ins{c.IConst(c.I32, uint64(g.memLo)-uint64(g.r.Intn(10)))}
	default:
		return []c.Ins{c.IConst(c.I32, g.r.Pick([]uint64{65535, 65536, 131071, 131072, 0xffffffff, 70000, 200000}))}
	}
}

func (g *bodyGen) expr(t byte, d int) []c.Ins {
	if d <= 0 {
		switch g.r.Intn(3) {
		case 0:
			var ls []int
			for i, lt := range g.locals {
				if lt == t {
					ls = append(ls, i)
				}
			}
			if len(ls) > 0 {
				return []c.Ins{c.ILocalGet(ls[g.r.Intn(len(ls))])}
			}
		case 1:
			var gs []int
			for i, o := range g.m.GObj {
				if o.VT == t {
					gs = append(gs, i)
				}
			}
			if len(gs) > 0 {
				return []c.Ins{c.IGlobalGet(gs[g.r.Intn(len(gs))])}
			}
		}
		return []c.Ins{g.konst(t)}
	}
	switch k := g.r.Intn(14); {
	case k < 4:
		return append(append(g.expr(t, d-1), g.expr(t, d-1)...), c.IBin(t, safeBin[g.r.Intn(len(safeBin))]))
	case k < 6 && g.m.HasMem():
		ns := []int{1, 2, 4}
		if t == c.I64 {
			ns = []int{1, 2, 4, 8}
		}
		return append(g.addr(), c.ILoad(t, ns[g.r.Intn(len(ns))], g.r.Bool(), uint32(g.r.Intn(3))))
	case k == 6:
		if t == c.I32 {
			return append(g.expr(c.I64, d-1), c.IWrap)
		}
		if g.r.Bool() {
			return append(g.expr(c.I32, d-1), c.IExtS)
		}
		return append(g.expr(c.I32, d-1), c.IExtU)
	case k == 7 && t == c.I32:
		ot := []byte{c.I32, c.I64}[g.r.Intn(2)]
		return append(append(g.expr(ot, d-1), g.expr(ot, d-1)...), c.IRel(ot, g.r.Intn(10)))
	case k == 8 && t == c.I32 && g.m.HasMem():
		return []c.Ins{c.IMemSize}
	case k < 11:
		var cs []int
		for _, f := range g.calls {
			if s := g.m.fsig(f); len(s.R) == 1 && s.R[0] == t {
				cs = append(cs, f)
			}
		}
		if len(cs) > 0 {
			f := cs[g.r.Intn(len(cs))]
			var o []c.Ins
			for _, pt := range g.m.fsig(f).P {
				o = append(o, g.expr(pt, d-1)...)
			}
			return append(o, c.ICall(f))
		}
	case k == 11:
		return append(append(append(g.expr(t, d-1), g.expr(t, d-1)...), g.expr(c.I32, d-1)...), c.ISelect)
	case k == 12:
		cnd := g.expr(c.I32, d-1)
		return append(cnd, g.m.View.IIf(nil, []byte{t}, g.expr(t, d-1), g.expr(t, d-1)))
	}
	return g.expr(t, d-1)
}

func (g *bodyGen) stmt(d int) []c.Ins {
	t := []byte{c.I32, c.I64}[g.r.Intn(2)]
	switch k := g.r.Intn(12); {
	case k < 3 && g.m.HasMem():
		ns := []int{1, 2, 4}
		if t == c.I64 {
			ns = []int{1, 2, 4, 8}
		}
		return append(append(g.addr(), g.expr(t, d)...), c.IStore(t, ns[g.r.Intn(len(ns))], uint32(g.r.Intn(3))))
	case k < 6:
		var gs []int
		for i, o := range g.m.GObj {
			if o.VT == t && o.Mut {
				gs = append(gs, i)
			}
		}
		if len(gs) > 0 {
			return append(g.expr(t, d), c.IGlobalSet(gs[g.r.Intn(len(gs))]))
		}
	case k < 8:
		var ls []int
		for i, lt := range g.locals {
			if lt == t {
				ls = append(ls, i)
			}
		}
		if len(ls) > 0 {
			return append(g.expr(t, d), c.ILocalSet(ls[g.r.Intn(len(ls))]))
		}
	case k < 10:
		if len(g.calls) > 0 {
			f := g.calls[g.r.Intn(len(g.calls))]
			var o []c.Ins
			for _, pt := range g.m.fsig(f).P {
				o = append(o, g.expr(pt, d-1)...)
			}
			o = append(o, c.ICall(f))
			for range g.m.fsig(f).R {
				o = append(o, c.IDrop)
			}
			return o
		}
	case k == 10 && g.m.HasMem():
		ds := []uint64{0, 1, 1}
		if g.m.MObj.HasMax && g.m.MObj.Max <= 64 {
			ds = append(ds, 65535, 0xffffffff) // fails: beyond the declared maximum
		}
		return []c.Ins{c.IConst(c.I32, g.r.Pick(ds)), c.IMemGrow, c.IDrop}
	case k == 11 && d > 0:
		cnd := g.expr(c.I32, d-1)
		return append(cnd, g.m.View.IIf(nil, nil, g.stmt(d-1), g.stmt(d-1)))
	}
	return []c.Ins{c.INop}
}

// addKit appends the accessor functions for everything in the module's index spaces, then mixers.
func (m *LMod) addKit(r *c.Rng, nleaf, nmix int) {
	add := func(f *Fn) int {
		m.Funcs = append(m.Funcs, f)
		o := &Obj{Kind: 0, Owner: m.N, Idx: len(m.Funcs) - 1, Sig: f.Sig, Role: f.Role, Arg: f.Arg}
		m.FObj = append(m.FObj, o)
		return m.NImpF + len(m.Funcs) - 1
	}
	i32, i64 := []byte{c.I32}, []byte{c.I64}
	// leaves first (targets of element segments)
	for i := 0; i < nleaf; i++ {
		k, cc := uint32(r.Intn(7)+1), uint32(r.Intn(1000)+100*m.N)
		idx := add(&Fn{Sig: c.Sig{P: i32, R: i32}, Role: "leaf", Body: []c.Ins{c.ILocalGet(0), c.IConst(c.I32, uint64(k)), c.IBin(c.I32, 2), c.IConst(c.I32, uint64(cc)), c.IBin(c.I32, 0)}})
		o := m.FObj[idx]
		o.IsLeaf, o.LeafK, o.LeafC = true, k, cc
	}
	add(&Fn{Sig: c.Sig{R: i64}, Role: "leaf64", Body: []c.Ins{c.IConst(c.I64, uint64(0x100000000+uint64(m.N)))}})
	if m.HasMem() {
		add(&Fn{Sig: c.Sig{P: i32, R: i32}, Role: "ld8", Body: []c.Ins{c.ILocalGet(0), c.ILoad(c.I32, 1, false, 0)}})
		add(&Fn{Sig: c.Sig{P: i32, R: i64}, Role: "ld64", Body: []c.Ins{c.ILocalGet(0), c.ILoad(c.I64, 8, false, 0)}})
		add(&Fn{Sig: c.Sig{P: []byte{c.I32, c.I32}}, Role: "st32", Body: []c.Ins{c.ILocalGet(0), c.ILocalGet(1), c.IStore(c.I32, 4, 0)}})
		add(&Fn{Sig: c.Sig{P: []byte{c.I32, c.I64}}, Role: "st64", Body: []c.Ins{c.ILocalGet(0), c.ILocalGet(1), c.IStore(c.I64, 8, 0)}})
		add(&Fn{Sig: c.Sig{R: i32}, Role: "size", Body: []c.Ins{c.IMemSize}})
		add(&Fn{Sig: c.Sig{P: i32, R: i32}, Role: "grow", Body: []c.Ins{c.ILocalGet(0), c.IMemGrow}})
	}
	for gi, o := range m.GObj {
		t := []byte{o.VT}
		add(&Fn{Sig: c.Sig{R: t}, Role: "gget", Arg: gi, Body: []c.Ins{c.IGlobalGet(gi)}})
		if o.Mut {
			add(&Fn{Sig: c.Sig{P: t}, Role: "gset", Arg: gi, Body: []c.Ins{c.ILocalGet(0), c.IGlobalSet(gi)}})
		}
	}
	if m.HasTab() {
		ty := m.View.TypeIdx(c.Sig{P: i32, R: i32})
		add(&Fn{Sig: c.Sig{P: []byte{c.I32, c.I32}, R: i32}, Role: "calli", Body: []c.Ins{c.ILocalGet(1), c.ILocalGet(0), callInd(ty, m.TIdx)}})
		ty64 := m.View.TypeIdx(c.Sig{R: i64})
		add(&Fn{Sig: c.Sig{P: i32, R: i64}, Role: "calli64", Body: []c.Ins{c.ILocalGet(0), callInd(ty64, m.TIdx)}})
	}
	for k := 0; k < m.NImpF; k++ {
		s := m.FObj[k].Sig
		var b []c.Ins
		for i := range s.P {
			b = append(b, c.ILocalGet(i))
		}
		add(&Fn{Sig: s, Role: "wrap", Arg: k, Body: append(b, c.ICall(k))})
	}
	// mixers may call everything defined so far (imports and kit), never each other
	ncall := m.NImpF + len(m.Funcs)
	for i := 0; i < nmix; i++ {
		g := &bodyGen{r: r, m: m, locals: []byte{c.I32, c.I64, c.I32, c.I64}, memLo: 65536}
		if m.HasMem() {
			g.memLo = m.MObj.Min * 65536
		}
		for f := 0; f < ncall; f++ {
			if m.FObj[f].Role != "grow" { // growth stays bounded: mixers grow by at most one page per statement
				g.calls = append(g.calls, f)
			}
		}
		var body []c.Ins
		for j := 2 + r.Intn(4); j > 0; j-- {
			body = append(body, g.stmt(2)...)
		}
		body = append(body, g.expr(c.I64, 2)...)
		add(&Fn{Sig: c.Sig{P: []byte{c.I32, c.I64}, R: i64}, Locals: []byte{c.I32, c.I64}, Role: "mix", Body: body})
	}
}

func (m *LMod) findFn(role string, arg int) int {
	for i, f := range m.Funcs {
		if f.Role == role && (arg < 0 || f.Arg == arg) {
			return m.NImpF + i
		}
	}
	return -1
}

func (m *LMod) finish() {
	_ = m.Encode() // fixes the type section (type 0 in particular) before anybody imports from this module
	m.Exports = map[string]*Obj{}
	for i, o := range m.FObj {
		m.Exports[fmt.Sprintf("f%d", i)] = o
	}
	for i, o := range m.GObj {
		m.Exports[fmt.Sprintf("g%d", i)] = o
	}
	if m.MObj != nil {
		m.Exports["mem"] = m.MObj
	}
	if m.Tabs != nil {
		for _, t := range m.Tabs {
			m.Exports[t.Exp] = t.Obj
		}
	} else if m.TObj != nil {
		m.Exports["tab"] = m.TObj
	}
}
