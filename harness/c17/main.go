// C17 correspondence harness: read-only mounts (WithReadOnlyDirMount) and fs.FS mounts (WithFSMount over
// os.DirFS and fstest.MapFS) are driven through the REAL WASI host functions by a proxy guest, and directly
// through the sys.FS API of sysfs.ReadFS / sysfs.AdaptFS. After EVERY operation the backing tree is
// snapshotted recursively (names, types, sizes, content hashes, mtimes, permissions) and compared with the
// baseline; a difference is recorded ("mut") and the tree is rebuilt so that the run can continue.
// Output: one JSON object per line (tree descriptions, exhaustive path_open products run-length encoded,
// operation sequences with observations, direct sys.FS cases).
package main

import (
	"context"
	"crypto/sha256"
	"encoding/hex"
	"flag"
	"fmt"
	"io/fs"
	"os"
	"path/filepath"
	"sort"
	"strings"
	"testing/fstest"
	"time"

	"github.com/tetratelabs/wazero"
	"github.com/tetratelabs/wazero/api"
	experimentalsys "github.com/tetratelabs/wazero/experimental/sys"
	"github.com/tetratelabs/wazero/imports/wasi_snapshot_preview1"
	"github.com/tetratelabs/wazero/internal/sysfs"
	"github.com/tetratelabs/wazero/internal/wasip1"
	c "github.com/tetratelabs/wazero/internal/zz_verif/common"
)

// ---------------------------------------------------------------------------------------------
// the fixed tree

type ent struct {
	Path  string `json:"path"` // "" is the root
	Dir   bool   `json:"dir"`
	Data  []int  `json:"data"`
	Mtime int64  `json:"mtime"` // ns
	Perm  uint32 `json:"perm"`
	Link  string `json:"link,omitempty"` // symbolic link target (relative, inside the mount); oracle-only: not modelled
}

func bytesOf(s string) []int {
	o := make([]int, len(s))
	for i := range s {
		o[i] = int(s[i])
	}
	return o
}

var base = int64(1_600_000_000)

func treeSpec() []ent {
	bin := make([]int, 40)
	for i := range bin {
		bin[i] = (i*37 + 11) % 256
	}
	es := []ent{
		{Path: "", Dir: true, Perm: 0o755},
		{Path: "f.txt", Data: bytesOf("hello read-only\n"), Perm: 0o644},
		{Path: "empty", Data: []int{}, Perm: 0o644},
		{Path: "sub", Dir: true, Perm: 0o755},
		{Path: "sub/g.bin", Data: bin, Perm: 0o600},
		{Path: "sub/deep", Dir: true, Perm: 0o755},
		{Path: "sub/deep/h", Data: bytesOf("deep"), Perm: 0o644},
		{Path: "emptydir", Dir: true, Perm: 0o700},
	}
	for i := range es {
		es[i].Mtime = (base + int64(i)*1000) * 1_000_000_000
	}
	// symbolic links: to a file, to a directory, and dangling (target absent, inside the mount)
	es = append(es,
		ent{Path: "lfile", Link: "f.txt"},
		ent{Path: "ldir", Link: "sub"},
		ent{Path: "dangling", Link: "nowhere"},
		ent{Path: "sub/dangling2", Link: "../nowhere2"})
	return es
}

func toBytes(d []int) []byte {
	b := make([]byte, len(d))
	for i, x := range d {
		b[i] = byte(x)
	}
	return b
}

func buildDir(dir string) {
	es := treeSpec()
	_ = os.Chmod(dir, 0o755)
	ents, _ := os.ReadDir(dir)
	for _, e := range ents {
		_ = os.Chmod(filepath.Join(dir, e.Name()), 0o755)
		_ = os.RemoveAll(filepath.Join(dir, e.Name()))
	}
	for _, e := range es {
		p := filepath.Join(dir, e.Path)
		if e.Link != "" {
			must(os.Symlink(e.Link, p))
		} else if e.Dir {
			if e.Path != "" {
				must(os.Mkdir(p, 0o755))
			}
		} else {
			must(os.WriteFile(p, toBytes(e.Data), 0o644))
		}
	}
	// permissions and times last, deepest first, so that parents keep their times
	for i := len(es) - 1; i >= 0; i-- {
		e := es[i]
		if e.Link != "" {
			continue
		}
		p := filepath.Join(dir, e.Path)
		must(os.Chmod(p, fs.FileMode(e.Perm)))
		t := time.Unix(0, e.Mtime)
		must(os.Chtimes(p, t, t))
	}
}

func buildMap() fstest.MapFS {
	m := fstest.MapFS{}
	for _, e := range treeSpec() {
		if e.Path == "" {
			continue
		}
		mf := &fstest.MapFile{Data: toBytes(e.Data), Mode: fs.FileMode(e.Perm), ModTime: time.Unix(0, e.Mtime)}
		if e.Link != "" {
			mf = &fstest.MapFile{Data: []byte(e.Link), Mode: fs.ModeSymlink | 0o777}
		} else if e.Dir {
			mf.Mode |= fs.ModeDir
			mf.Data = nil
		}
		m[e.Path] = mf
	}
	return m
}

func must(err error) {
	if err != nil {
		panic(err)
	}
}

func snapDir(dir string) string {
	var sb strings.Builder
	err := filepath.WalkDir(dir, func(p string, d fs.DirEntry, err error) error {
		if err != nil {
			fmt.Fprintf(&sb, "%s ERR %v\n", p, err)
			return nil
		}
		rel, _ := filepath.Rel(dir, p)
		fi, err := os.Lstat(p)
		if err != nil {
			fmt.Fprintf(&sb, "%s LSTATERR\n", rel)
			return nil
		}
		switch {
		case fi.Mode().IsDir():
			fmt.Fprintf(&sb, "%s dir %o %d\n", rel, fi.Mode().Perm(), fi.ModTime().UnixNano())
		case fi.Mode().IsRegular():
			b, _ := os.ReadFile(p)
			h := sha256.Sum256(b)
			fmt.Fprintf(&sb, "%s file %o %d %d %s\n", rel, fi.Mode().Perm(), fi.ModTime().UnixNano(), fi.Size(), hex.EncodeToString(h[:8]))
		default:
			tgt, _ := os.Readlink(p)
			fmt.Fprintf(&sb, "%s other %v %q\n", rel, fi.Mode(), tgt)
		}
		return nil
	})
	if err != nil {
		fmt.Fprintf(&sb, "WALKERR %v\n", err)
	}
	return sb.String()
}

func snapMap(m fstest.MapFS) string {
	var ks []string
	for k := range m {
		ks = append(ks, k)
	}
	sort.Strings(ks)
	var sb strings.Builder
	for _, k := range ks {
		f := m[k]
		h := sha256.Sum256(f.Data)
		fmt.Fprintf(&sb, "%s %v %d %d %s\n", k, f.Mode, f.ModTime.UnixNano(), len(f.Data), hex.EncodeToString(h[:8]))
	}
	return sb.String()
}

// ---------------------------------------------------------------------------------------------
// proxy guest

type wf struct {
	name   string
	params []byte
}

var wasiFuncs = []wf{
	{"fd_allocate", c.B(c.I32, c.I64, c.I64)},
	{"fd_close", c.B(c.I32)},
	{"fd_datasync", c.B(c.I32)},
	{"fd_fdstat_set_flags", c.B(c.I32, c.I32)},
	{"fd_filestat_set_size", c.B(c.I32, c.I64)},
	{"fd_filestat_set_times", c.B(c.I32, c.I64, c.I64, c.I32)},
	{"fd_pread", c.B(c.I32, c.I32, c.I32, c.I64, c.I32)},
	{"fd_pwrite", c.B(c.I32, c.I32, c.I32, c.I64, c.I32)},
	{"fd_read", c.B(c.I32, c.I32, c.I32, c.I32)},
	{"fd_sync", c.B(c.I32)},
	{"fd_write", c.B(c.I32, c.I32, c.I32, c.I32)},
	{"path_create_directory", c.B(c.I32, c.I32, c.I32)},
	{"path_filestat_get", c.B(c.I32, c.I32, c.I32, c.I32, c.I32)},
	{"path_filestat_set_times", c.B(c.I32, c.I32, c.I32, c.I32, c.I64, c.I64, c.I32)},
	{"path_link", c.B(c.I32, c.I32, c.I32, c.I32, c.I32, c.I32, c.I32)},
	{"path_open", c.B(c.I32, c.I32, c.I32, c.I32, c.I32, c.I64, c.I64, c.I32, c.I32)},
	{"path_remove_directory", c.B(c.I32, c.I32, c.I32)},
	{"path_rename", c.B(c.I32, c.I32, c.I32, c.I32, c.I32, c.I32)},
	{"path_symlink", c.B(c.I32, c.I32, c.I32, c.I32, c.I32)},
	{"path_unlink_file", c.B(c.I32, c.I32, c.I32)},
}

func proxy() []byte {
	m := &c.Mod{}
	for i, f := range wasiFuncs {
		m.Types = append(m.Types, c.FT(f.params, c.B(c.I32)))
		m.Imports = append(m.Imports, c.ImportFunc("wasi_snapshot_preview1", f.name, uint32(i)))
		m.Funcs = append(m.Funcs, c.U32(uint32(i)))
		var body [][]byte
		for p := range f.params {
			body = append(body, c.LocalGet(uint32(p)))
		}
		body = append(body, c.Call(uint32(i)))
		m.Codes = append(m.Codes, c.Code(nil, body...))
		m.Exports = append(m.Exports, c.Export(f.name, 0, uint32(len(wasiFuncs)+i)))
	}
	m.Mems = [][]byte{c.MemLimits(1, nil)}
	m.Exports = append(m.Exports, c.Export("memory", 2, 0))
	return m.Bytes()
}

// ---------------------------------------------------------------------------------------------
// a mount under test

type mount struct {
	kind   string // "ro" | "os" | "map"
	dir    string
	mapfs  fstest.MapFS
	base   string
	ctx    context.Context
	rt     wazero.Runtime
	mod    api.Module
	engine string
	sysfs  experimentalsys.FS
	ninst  int
	cfgHow string
	sib    string // an empty host directory for sibling configurations of mounts without a host directory
}

func (m *mount) snapshot() string {
	if m.kind == "map" {
		return snapMap(m.mapfs)
	}
	return snapDir(m.dir)
}

func (m *mount) rebuild() {
	if m.kind == "map" {
		for k := range m.mapfs {
			delete(m.mapfs, k)
		}
		for k, v := range buildMap() {
			m.mapfs[k] = v
		}
		return
	}
	buildDir(m.dir)
}

func (m *mount) fsconfig() wazero.FSConfig {
	var cfg wazero.FSConfig
	switch m.kind {
	case "ro":
		cfg = wazero.NewFSConfig().WithReadOnlyDirMount(m.dir, "/")
	case "os":
		cfg = wazero.NewFSConfig().WithFSMount(os.DirFS(m.dir), "/")
	default:
		cfg = wazero.NewFSConfig().WithFSMount(m.mapfs, "/")
	}
	// The protection must not depend on what else was derived from the configuration: on two of every three
	// instantiations a sibling configuration re-mounting the SAME guest path writable (same host directory where there
	// is one) is derived from cfg and thrown away before cfg is used.
	m.ninst++
	m.cfgHow = "fresh"
	if v := m.ninst % 3; v != 0 {
		dir := m.dir
		if dir == "" {
			dir = m.sib
		}
		gp := []string{"/", "", "."}[(m.ninst/3)%3]
		_ = cfg.WithDirMount(dir, gp)
		m.cfgHow = fmt.Sprintf("cfg, after deriving (and discarding) cfg.WithDirMount(dir, %q)", gp)
		if v == 2 {
			_ = cfg.WithDirMount(dir, "/x").WithDirMount(dir, "/")
			m.cfgHow += ` and cfg.WithDirMount(dir, "/x").WithDirMount(dir, "/")`
		}
	}
	return cfg
}

// instantiate (re)creates the runtime and the proxy guest: a fresh descriptor table with the mount at fd 3.
func (m *mount) instantiate() {
	if m.rt != nil {
		m.rt.Close(m.ctx)
	}
	var rc wazero.RuntimeConfig
	if m.engine == "interp" {
		rc = wazero.NewRuntimeConfigInterpreter()
	} else {
		rc = wazero.NewRuntimeConfigCompiler()
	}
	m.rt = wazero.NewRuntimeWithConfig(m.ctx, rc)
	wasi_snapshot_preview1.MustInstantiate(m.ctx, m.rt)
	mod, err := m.rt.InstantiateWithConfig(m.ctx, proxy(), wazero.NewModuleConfig().WithFSConfig(m.fsconfig()))
	must(err)
	m.mod = mod
}

func newMount(ctx context.Context, kind, root, engine string) *mount {
	m := &mount{kind: kind, ctx: ctx, engine: engine}
	if kind == "map" {
		m.mapfs = buildMap()
		m.sysfs = &sysfs.AdaptFS{FS: m.mapfs}
		m.sib = filepath.Join(root, "map_sibling_"+engine)
		must(os.MkdirAll(m.sib, 0o755))
	} else {
		m.dir = filepath.Join(root, kind)
		must(os.Mkdir(m.dir, 0o755))
		buildDir(m.dir)
		if kind == "ro" {
			m.sysfs = &sysfs.ReadFS{FS: sysfs.DirFS(m.dir)}
		} else {
			m.sysfs = &sysfs.AdaptFS{FS: os.DirFS(m.dir)}
		}
	}
	m.base = m.snapshot()
	m.instantiate()
	return m
}

// check compares the tree with the baseline; on a difference it returns a short description and rebuilds.
func (m *mount) check() string {
	s := m.snapshot()
	if s == m.base {
		return ""
	}
	d := diffLines(m.base, s)
	m.rebuild()
	if again := m.snapshot(); again != m.base {
		panic("cannot rebuild the tree:\n" + diffLines(m.base, again))
	}
	return d
}

func diffLines(a, b string) string {
	as, bs := strings.Split(a, "\n"), strings.Split(b, "\n")
	am, bm := map[string]bool{}, map[string]bool{}
	for _, l := range as {
		am[l] = true
	}
	for _, l := range bs {
		bm[l] = true
	}
	var o []string
	for _, l := range as {
		if !bm[l] {
			o = append(o, "-"+l)
		}
	}
	for _, l := range bs {
		if !am[l] {
			o = append(o, "+"+l)
		}
	}
	if len(o) > 8 {
		o = o[:8]
	}
	return strings.Join(o, "; ")
}

// ---- guest calls ----
const (
	pPath1 = 1024
	pPath2 = 2048
	pIovec = 3072
	pData  = 4096
	pRes   = 512
	pStat  = 640
)

func (m *mount) call(name string, args ...uint64) string {
	res, err := m.mod.ExportedFunction(name).Call(m.ctx, args...)
	if err != nil {
		return "TRAP:" + err.Error()
	}
	e := uint32(res[0])
	if e == 0 {
		return "0"
	}
	return wasip1.ErrnoName(e)
}

func (m *mount) putPath(at uint32, p string) (uint64, uint64) {
	if !m.mod.Memory().Write(at, []byte(p)) {
		panic("path write")
	}
	return uint64(at), uint64(len(p))
}

type obs struct {
	E string `json:"e"`
	P []int  `json:"p"`
}

func u(v any) uint64 {
	switch x := v.(type) {
	case uint64:
		return x
	case int:
		return uint64(x)
	case int64:
		return uint64(x)
	case float64:
		return uint64(x)
	}
	panic(fmt.Sprintf("bad number %T", v))
}

// exec runs one operation (same vocabulary as the Coq model's wop) and returns its observation.
func (m *mount) exec(op []any) obs {
	mem := m.mod.Memory()
	s := func(i int) string { return op[i].(string) }
	n := func(i int) uint64 { return u(op[i]) }
	switch s(0) {
	case "open": // dirfd dirflags oflags fdflags rights path
		p, l := m.putPath(pPath1, s(6))
		mem.WriteUint32Le(pRes, 0xffffffff)
		e := m.call("path_open", n(1), n(2), p, l, n(3), n(5), 0, n(4), pRes)
		if e == "0" {
			fd, _ := mem.ReadUint32Le(pRes)
			return obs{e, []int{int(fd)}}
		}
		return obs{e, nil}
	case "close":
		return obs{m.call("fd_close", n(1)), nil}
	case "write", "pwrite":
		data := op[len(op)-1].([]any)
		b := make([]byte, len(data))
		for i := range data {
			b[i] = byte(u(data[i]))
		}
		mem.Write(pData, b)
		mem.WriteUint32Le(pIovec, pData)
		mem.WriteUint32Le(pIovec+4, uint32(len(b)))
		if s(0) == "write" {
			return obs{m.call("fd_write", n(1), pIovec, 1, pRes), nil}
		}
		return obs{m.call("fd_pwrite", n(1), pIovec, 1, n(2), pRes), nil}
	case "allocate":
		return obs{m.call("fd_allocate", n(1), n(2), n(3)), nil}
	case "setsize":
		return obs{m.call("fd_filestat_set_size", n(1), n(2)), nil}
	case "fdtimes":
		return obs{m.call("fd_filestat_set_times", n(1), n(2), n(3), n(4)), nil}
	case "setflags":
		return obs{m.call("fd_fdstat_set_flags", n(1), n(2)), nil}
	case "sync":
		return obs{m.call("fd_sync", n(1)), nil}
	case "datasync":
		return obs{m.call("fd_datasync", n(1)), nil}
	case "mkdir":
		p, l := m.putPath(pPath1, s(2))
		return obs{m.call("path_create_directory", n(1), p, l), nil}
	case "rmdir":
		p, l := m.putPath(pPath1, s(2))
		return obs{m.call("path_remove_directory", n(1), p, l), nil}
	case "unlink":
		p, l := m.putPath(pPath1, s(2))
		return obs{m.call("path_unlink_file", n(1), p, l), nil}
	case "rename":
		p, l := m.putPath(pPath1, s(2))
		p2, l2 := m.putPath(pPath2, s(4))
		return obs{m.call("path_rename", n(1), p, l, n(3), p2, l2), nil}
	case "link":
		p, l := m.putPath(pPath1, s(2))
		p2, l2 := m.putPath(pPath2, s(4))
		return obs{m.call("path_link", n(1), 0, p, l, n(3), p2, l2), nil}
	case "symlink": // target fd path
		p, l := m.putPath(pPath1, s(1))
		p2, l2 := m.putPath(pPath2, s(3))
		return obs{m.call("path_symlink", p, l, n(2), p2, l2), nil}
	case "pathtimes": // dirfd lookup path atim mtim fst
		p, l := m.putPath(pPath1, s(3))
		return obs{m.call("path_filestat_set_times", n(1), n(2), p, l, n(4), n(5), n(6)), nil}
	case "read", "pread":
		cnt := n(2)
		if s(0) == "pread" {
			cnt = n(3)
		}
		mem.WriteUint32Le(pIovec, pData)
		mem.WriteUint32Le(pIovec+4, uint32(cnt))
		mem.WriteUint32Le(pRes, 0)
		var e string
		if s(0) == "read" {
			e = m.call("fd_read", n(1), pIovec, 1, pRes)
		} else {
			e = m.call("fd_pread", n(1), pIovec, 1, n(2), pRes)
		}
		if e != "0" {
			return obs{e, nil}
		}
		got, _ := mem.ReadUint32Le(pRes)
		b, _ := mem.Read(pData, got)
		o := obs{e, make([]int, len(b))}
		for i := range b {
			o.P[i] = int(b[i])
		}
		return o
	case "stat": // dirfd path  (follows symlinks)
		p, l := m.putPath(pPath1, s(2))
		e := m.call("path_filestat_get", n(1), 1, p, l, pStat)
		if e != "0" {
			return obs{e, nil}
		}
		ft, _ := mem.ReadByte(pStat + 16)
		sz, _ := mem.ReadUint64Le(pStat + 32)
		size := int(sz)
		if ft == 3 {
			size = -1 // directory sizes are host specific
		}
		return obs{e, []int{int(ft), size}}
	}
	panic("unknown op " + s(0))
}

type mut struct {
	Op   int    `json:"op"`
	Diff string `json:"diff"`
}

// ---------------------------------------------------------------------------------------------
// generators

var paths = []string{"f.txt", "missing", "sub", "sub/g.bin", "sub/deep/h", "f.txt/x", "emptydir", ".", "empty", "sub/missing", "missing/x", "sub/deep"}
var relInSub = []string{"g.bin", "deep", "deep/h", "missing", "g.bin/x"}

var symPaths = []string{"lfile", "ldir", "dangling", "ldir/g.bin", "ldir/deep/h", "ldir/missing", "dangling/x", "lfile/x", "sub/dangling2", "ldir/dangling2", "ldir/deep"}
var symProduct = []string{"lfile", "ldir", "dangling"}

func pick[T any](r *c.Rng, xs []T) T { return xs[r.Intn(len(xs))] }

// symbolise redirects most path arguments of a generated sequence to the symbolic links of the tree.
func symbolise(r *c.Rng, ops [][]any) [][]any {
	for _, op := range ops {
		for i := 1; i < len(op); i++ {
			if _, ok := op[i].(string); ok && r.Intn(10) < 7 {
				op[i] = pick(r, symPaths)
			}
		}
	}
	return ops
}

// symSingles: opens with every kind of write intent and every other mutating operation aimed at the three links,
// following and not following, directly and below a descriptor opened through the directory link.
func symSingles() [][]any {
	var ops [][]any
	for _, p := range []string{"lfile", "ldir", "dangling", "sub/dangling2", "ldir/dangling2", "ldir/g.bin", "ldir/newfile"} {
		for _, d := range []uint64{0, 1} {
			for _, o := range []uint64{0, 1, 8, 9, 5, 3, 2} { // -, CREAT, TRUNC, CREAT|TRUNC, CREAT|EXCL, CREAT|DIRECTORY, DIRECTORY
				for _, rt := range []uint64{2, 0, 64, 66} {
					ops = append(ops, []any{"open", uint64(3), d, o, uint64(0), rt, p})
				}
			}
			ops = append(ops, []any{"open", uint64(3), d, uint64(1), uint64(1), uint64(2), p}, // CREAT + APPEND
				[]any{"pathtimes", uint64(3), d, p, uint64(5), uint64(7), uint64(5)},
				[]any{"pathtimes", uint64(3), d, p, uint64(0), uint64(0), uint64(10)})
		}
		ops = append(ops, []any{"mkdir", uint64(3), p}, []any{"rmdir", uint64(3), p}, []any{"unlink", uint64(3), p},
			[]any{"rename", uint64(3), p, uint64(3), "renamed"}, []any{"rename", uint64(3), "f.txt", uint64(3), p},
			[]any{"link", uint64(3), p, uint64(3), "hard"}, []any{"link", uint64(3), "f.txt", uint64(3), p},
			[]any{"symlink", "f.txt", uint64(3), p}, []any{"stat", uint64(3), p})
	}
	// descriptors obtained THROUGH links (numbers depend on which opens above succeeded, so aim at a range)
	for fd := uint64(4); fd < 40; fd += 3 {
		data := []any{uint64(88)}
		ops = append(ops, []any{"write", fd, data}, []any{"pwrite", fd, uint64(0), data}, []any{"setsize", fd, uint64(0)},
			[]any{"allocate", fd, uint64(0), uint64(100)}, []any{"fdtimes", fd, uint64(5), uint64(7), uint64(5)},
			[]any{"mkdir", fd, "viafd"}, []any{"unlink", fd, "g.bin"}, []any{"open", fd, uint64(1), uint64(1), uint64(0), uint64(2), "created"},
			[]any{"open", fd, uint64(1), uint64(1), uint64(0), uint64(2), "dangling2"}, []any{"read", fd, uint64(8)})
	}
	return ops
}

func randFlags16(r *c.Rng, defined int) uint64 {
	switch r.Intn(4) {
	case 0:
		return uint64(r.Intn(1 << defined))
	case 1:
		return r.U64() & 0xffff
	case 2:
		return uint64(r.Intn(1<<defined)) | uint64(1)<<uint(defined+r.Intn(16-defined))
	default:
		return 0
	}
}

func randRights(r *c.Rng) uint64 {
	base := pick(r, []uint64{0, 2, 64, 66})
	switch r.Intn(4) {
	case 0:
		return base
	case 1:
		return base | r.U64()&^66 // every other bit random, 64-bit wide (the host truncates to 32)
	case 2:
		return r.U64()
	default:
		return base | (r.U64() & 0xffffffff &^ 66)
	}
}

func randData(r *c.Rng) []any {
	n := 1 + r.Intn(6)
	d := make([]any, n)
	for i := range d {
		d[i] = uint64(r.Intn(256))
	}
	return d
}

func randTime(r *c.Rng) uint64 {
	return pick(r, []uint64{0, 1, 1_000_000_000, 1_700_000_000_000_000_000, uint64(r.Intn(1 << 30)), ^uint64(0)})
}

// genSeq builds a random operation sequence; fds/dirs track the descriptors the generator believes to be
// open (only used to aim; the model and the implementation decide what really happens).
func genSeq(r *c.Rng, n int) [][]any {
	var ops [][]any
	fds := []uint64{3}
	nextFd := uint64(4)
	anyFd := func() uint64 {
		switch r.Intn(8) {
		case 0:
			return pick(r, []uint64{3, 99, 1 << 31, ^uint64(0) >> 32, 1<<32 + 3}) // not 0..2: stdio is not part of the mount
		default:
			return pick(r, fds)
		}
	}
	dirFd := func() uint64 {
		if r.Intn(4) == 0 {
			return anyFd()
		}
		return 3
	}
	anyPath := func(fd uint64) string {
		if fd != 3 && r.Intn(2) == 0 {
			return pick(r, relInSub)
		}
		return pick(r, paths)
	}
	for i := 0; i < n; i++ {
		switch k := r.Intn(30); {
		case k < 6: // an open that is likely to succeed: read rights, no write intent
			fd := dirFd()
			of := uint64(0)
			if r.Intn(4) == 0 {
				of = 2 // O_DIRECTORY
			}
			ops = append(ops, []any{"open", fd, uint64(r.Intn(2)), of, pick(r, []uint64{0, 0, 4, 2, 8, 16, 30}), pick(r, []uint64{2, 2, 0}), anyPath(fd)})
			fds = append(fds, nextFd)
			nextFd++
		case k < 10: // any open
			fd := dirFd()
			ops = append(ops, []any{"open", fd, randFlags16(r, 1), randFlags16(r, 4), randFlags16(r, 5), randRights(r), anyPath(fd)})
			if r.Intn(3) == 0 {
				fds = append(fds, nextFd)
				nextFd++
			}
		case k == 10:
			ops = append(ops, []any{"close", pick(r, append([]uint64{99}, fds[1:]...))})
		case k < 13:
			ops = append(ops, []any{"write", anyFd(), randData(r)})
		case k == 13:
			ops = append(ops, []any{"pwrite", anyFd(), pick(r, []uint64{0, 3, 100}), randData(r)})
		case k == 14:
			ops = append(ops, []any{"allocate", anyFd(), pick(r, []uint64{0, 10, 1 << 40, 1<<63 - 1}), pick(r, []uint64{0, 1, 100, 1 << 62, 1 << 63})})
		case k == 15:
			ops = append(ops, []any{"setsize", anyFd(), pick(r, []uint64{0, 1, 5, 1000, ^uint64(0)})})
		case k == 16:
			ops = append(ops, []any{"fdtimes", anyFd(), randTime(r), randTime(r), uint64(r.Intn(16))})
		case k == 17:
			ops = append(ops, []any{"setflags", anyFd(), pick(r, []uint64{0, 1, 4, 5, 2, 8, 16, 31})})
		case k == 18:
			ops = append(ops, []any{pick(r, []string{"sync", "datasync"}), anyFd()})
		case k == 19:
			fd := dirFd()
			ops = append(ops, []any{"mkdir", fd, pick(r, []string{"newdir", "sub/newdir", "f.txt", "sub", "missing/x", "emptydir/x"})})
		case k == 20:
			fd := dirFd()
			ops = append(ops, []any{"rmdir", fd, pick(r, []string{"emptydir", "sub", "sub/deep", "f.txt", "missing"})})
		case k == 21:
			fd := dirFd()
			ops = append(ops, []any{"unlink", fd, pick(r, []string{"f.txt", "empty", "sub/g.bin", "sub/deep/h", "sub", "missing"})})
		case k == 22:
			ops = append(ops, []any{"rename", dirFd(), pick(r, []string{"f.txt", "sub", "emptydir", "sub/g.bin", "missing"}), dirFd(), pick(r, []string{"renamed", "empty", "emptydir", "sub/renamed", "f.txt"})})
		case k == 23:
			ops = append(ops, []any{"link", dirFd(), pick(r, []string{"f.txt", "sub/g.bin", "sub", "missing"}), dirFd(), pick(r, []string{"hard", "sub/hard", "empty"})})
		case k == 24:
			ops = append(ops, []any{"symlink", pick(r, []string{"f.txt", "../x", "sub"}), dirFd(), pick(r, []string{"sym", "sub/sym", "f.txt"})})
		case k == 25:
			fd := dirFd()
			ops = append(ops, []any{"pathtimes", fd, uint64(r.Intn(2)), anyPath(fd), randTime(r), randTime(r), uint64(r.Intn(16))})
		case k < 28:
			if r.Bool() {
				ops = append(ops, []any{"read", anyFd(), pick(r, []uint64{1, 4, 16, 64})})
			} else {
				ops = append(ops, []any{"pread", anyFd(), pick(r, []uint64{0, 2, 15, 16, 100}), pick(r, []uint64{1, 8, 64})})
			}
		default:
			fd := dirFd()
			ops = append(ops, []any{"stat", fd, anyPath(fd)})
		}
	}
	return ops
}

// singles: every mutating operation once on representative targets, after opening a file, a directory and
// the nested file with read rights (fds 4, 5, 6).
func singles() [][]any {
	ops := [][]any{
		{"open", uint64(3), uint64(1), uint64(0), uint64(0), uint64(2), "f.txt"},
		{"open", uint64(3), uint64(1), uint64(2), uint64(0), uint64(2), "sub"},
		{"open", uint64(5), uint64(1), uint64(0), uint64(0), uint64(2), "deep/h"},
	}
	data := []any{uint64(88), uint64(89)}
	for _, fd := range []uint64{3, 4, 5, 6, 7} {
		ops = append(ops,
			[]any{"write", fd, data}, []any{"pwrite", fd, uint64(0), data},
			[]any{"allocate", fd, uint64(0), uint64(100)}, []any{"allocate", fd, uint64(0), uint64(1)},
			[]any{"setsize", fd, uint64(0)}, []any{"setsize", fd, uint64(100)},
			[]any{"fdtimes", fd, uint64(5), uint64(7), uint64(5)}, []any{"fdtimes", fd, uint64(0), uint64(0), uint64(10)},
			[]any{"fdtimes", fd, uint64(0), uint64(0), uint64(3)},
			[]any{"setflags", fd, uint64(1)}, []any{"setflags", fd, uint64(0)}, []any{"setflags", fd, uint64(4)}, []any{"setflags", fd, uint64(2)},
			[]any{"sync", fd}, []any{"datasync", fd})
	}
	for _, fd := range []uint64{3, 5, 4, 7} {
		ops = append(ops,
			[]any{"mkdir", fd, "newdir"}, []any{"mkdir", fd, "deep"}, []any{"rmdir", fd, "deep"}, []any{"unlink", fd, "g.bin"},
			[]any{"symlink", "f.txt", fd, "sym"}, []any{"pathtimes", fd, uint64(1), "g.bin", uint64(5), uint64(7), uint64(5)},
			[]any{"pathtimes", fd, uint64(0), "g.bin", uint64(5), uint64(7), uint64(5)})
	}
	ops = append(ops,
		[]any{"mkdir", uint64(3), "sub/newdir"}, []any{"rmdir", uint64(3), "emptydir"}, []any{"rmdir", uint64(3), "sub"},
		[]any{"unlink", uint64(3), "f.txt"}, []any{"unlink", uint64(3), "sub/deep/h"}, []any{"unlink", uint64(3), "missing"},
		[]any{"rename", uint64(3), "f.txt", uint64(3), "renamed"}, []any{"rename", uint64(3), "sub", uint64(3), "sub2"},
		[]any{"rename", uint64(3), "f.txt", uint64(5), "moved"}, []any{"rename", uint64(3), "missing", uint64(3), "x"},
		[]any{"link", uint64(3), "f.txt", uint64(3), "hard"}, []any{"link", uint64(5), "g.bin", uint64(3), "hard2"},
		[]any{"symlink", "f.txt", uint64(3), "sym"}, []any{"symlink", "../escape", uint64(3), "sub/sym"},
		[]any{"pathtimes", uint64(3), uint64(1), "f.txt", uint64(5), uint64(7), uint64(5)},
		[]any{"pathtimes", uint64(3), uint64(0), "f.txt", uint64(5), uint64(7), uint64(5)},
		[]any{"pathtimes", uint64(3), uint64(1), "sub", uint64(0), uint64(0), uint64(10)},
		[]any{"pathtimes", uint64(3), uint64(0), "missing", uint64(0), uint64(0), uint64(10)},
		[]any{"pathtimes", uint64(3), uint64(1), "f.txt", uint64(0), uint64(0), uint64(12)},
		[]any{"read", uint64(4), uint64(64)}, []any{"pread", uint64(6), uint64(1), uint64(2)}, []any{"read", uint64(6), uint64(64)},
		[]any{"stat", uint64(3), "f.txt"}, []any{"stat", uint64(3), "sub"}, []any{"stat", uint64(5), "g.bin"}, []any{"stat", uint64(3), "missing"},
		[]any{"close", uint64(4)}, []any{"write", uint64(4), data}, []any{"close", uint64(4)},
	)
	return ops
}

// readsSeq: reading every file through the mount, whole and in pieces, before and after refused mutations.
func readsSeq() [][]any {
	var ops [][]any
	fd := uint64(4)
	for _, p := range []string{"f.txt", "empty", "sub/g.bin", "sub/deep/h"} {
		ops = append(ops,
			[]any{"open", uint64(3), uint64(1), uint64(0), uint64(0), uint64(2), p},
			[]any{"write", fd, []any{uint64(1)}},
			[]any{"read", fd, uint64(7)}, []any{"setsize", fd, uint64(0)}, []any{"read", fd, uint64(200)}, []any{"read", fd, uint64(5)},
			[]any{"pread", fd, uint64(0), uint64(200)}, []any{"unlink", uint64(3), p}, []any{"pread", fd, uint64(0), uint64(4)},
			[]any{"stat", uint64(3), p})
		fd++
	}
	return ops
}

type seqCase struct {
	T      string  `json:"t"`
	Kind   string  `json:"kind"`
	Engine string  `json:"engine"`
	Name   string  `json:"name"`
	Config string  `json:"config"` // how the mount's configuration was obtained (see fsconfig)
	Ops    [][]any `json:"ops"`
	Obs    []obs   `json:"obs"`
	Mut    []mut   `json:"mut"`
}

func (m *mount) runSeq(name string, ops [][]any) seqCase {
	m.instantiate()
	cs := seqCase{T: "seq", Kind: m.kind, Engine: m.engine, Name: name, Config: m.cfgHow, Ops: ops, Mut: []mut{}}
	for i, op := range ops {
		cs.Obs = append(cs.Obs, m.exec(op))
		if d := m.check(); d != "" {
			cs.Mut = append(cs.Mut, mut{i, d})
		}
	}
	return cs
}

type rleItem struct {
	E string `json:"e"`
	N int    `json:"n"`
}

type prodCase struct {
	T      string    `json:"t"`
	Kind   string    `json:"kind"`
	Engine string    `json:"engine"`
	Path   string    `json:"path"`
	Rle    []rleItem `json:"rle"`
	Count  int       `json:"count"`
	Mut    []mut     `json:"mut"`
}

var rights4 = []uint64{0, 2, 64, 66}

// sums enumerates the subset sums of bits: first every sum without bits[0], then every sum with it
// (the same function defines the enumeration order in the Coq model, so that the run-length encoded
// observations line up with the model's table).
func sums(bits []uint64) []uint64 {
	if len(bits) == 0 {
		return []uint64{0}
	}
	s := sums(bits[1:])
	o := append([]uint64{}, s...)
	for _, x := range s {
		o = append(o, bits[0]+x)
	}
	return o
}

// product: all lookup flags x oflags x fdflags x the two interpreted rights bits, on one path.
func (m *mount) runProduct(path string) prodCase {
	m.instantiate()
	pc := prodCase{T: "product", Kind: m.kind, Engine: m.engine, Path: path, Mut: []mut{}}
	idx := 0
	for _, r := range rights4 {
		for _, o := range sums([]uint64{1, 8, 2, 4}) {
			for _, f := range sums([]uint64{1, 16, 8, 4, 2}) {
				for d := uint64(0); d < 2; d++ {
					ob := m.exec([]any{"open", uint64(3), d, o, f, r, path})
					if ob.E == "0" {
						if ob.P[0] != 4 {
							ob.E = fmt.Sprintf("FD%d", ob.P[0])
						}
						m.exec([]any{"close", uint64(ob.P[0])})
					}
					if dd := m.check(); dd != "" && len(pc.Mut) < 16 {
						pc.Mut = append(pc.Mut, mut{idx, dd})
					}
					if k := len(pc.Rle); k > 0 && pc.Rle[k-1].E == ob.E {
						pc.Rle[k-1].N++
					} else {
						pc.Rle = append(pc.Rle, rleItem{ob.E, 1})
					}
					idx++
				}
			}
		}
	}
	pc.Count = idx
	return pc
}

// ---- direct sys.FS level ----
type dCase struct {
	T    string `json:"t"`
	Kind string `json:"kind"`
	Op   []any  `json:"op"`
	E1   uint32 `json:"e1"`
	E2   uint32 `json:"e2"`
	Mut  string `json:"mut"`
}

func (m *mount) direct(op []any) dCase {
	dc := dCase{T: "direct", Kind: m.kind, Op: op}
	s := func(i int) string { return op[i].(string) }
	n := func(i int) uint64 { return u(op[i]) }
	f := m.sysfs
	switch s(0) {
	case "dopen": // path flag fop args...
		file, errno := f.OpenFile(s(1), experimentalsys.Oflag(uint32(n(2))), 0o600)
		dc.E1 = uint32(errno)
		if errno == 0 {
			var e2 experimentalsys.Errno
			switch s(3) {
			case "write":
				_, e2 = file.Write([]byte{1, 2, 3})
			case "pwrite":
				_, e2 = file.Pwrite([]byte{1, 2, 3}, int64(n(4)))
			case "truncate":
				e2 = file.Truncate(int64(n(4)))
			case "sync":
				e2 = file.Sync()
			case "datasync":
				e2 = file.Datasync()
			case "utimens":
				e2 = file.Utimens(int64(n(4)), int64(n(5)))
			}
			dc.E2 = uint32(e2)
			file.Close()
		}
	case "mkdir":
		dc.E1 = uint32(f.Mkdir(s(1), fs.FileMode(n(2))))
	case "chmod":
		dc.E1 = uint32(f.Chmod(s(1), fs.FileMode(n(2))))
	case "rename":
		dc.E1 = uint32(f.Rename(s(1), s(2)))
	case "rmdir":
		dc.E1 = uint32(f.Rmdir(s(1)))
	case "link":
		dc.E1 = uint32(f.Link(s(1), s(2)))
	case "symlink":
		dc.E1 = uint32(f.Symlink(s(1), s(2)))
	case "unlink":
		dc.E1 = uint32(f.Unlink(s(1)))
	case "utimens":
		dc.E1 = uint32(f.Utimens(s(1), int64(n(2)), int64(n(3))))
	default:
		panic("direct op " + s(0))
	}
	dc.Mut = m.check()
	return dc
}

type dprodCase struct {
	T     string   `json:"t"`
	Kind  string   `json:"kind"`
	Path  string   `json:"path"`
	Rle   [][2]int `json:"rle"`
	Count int      `json:"count"`
	Mut   []mut    `json:"mut"`
}

// dproduct: FS.OpenFile with EVERY value of the 13 low flag bits (access mode, the unused bit, all O_ flags).
func (m *mount) dproduct(path string) dprodCase {
	pc := dprodCase{T: "dproduct", Kind: m.kind, Path: path, Mut: []mut{}}
	idx := 0
	for md := uint64(0); md < 4; md++ {
		for _, x := range sums([]uint64{16, 4096, 32, 2048, 1024, 512, 256, 128, 64, 8, 4}) {
			fl := md + x
			file, errno := m.sysfs.OpenFile(path, experimentalsys.Oflag(fl), 0o600)
			if errno == 0 {
				file.Close()
			}
			if dd := m.check(); dd != "" && len(pc.Mut) < 16 {
				pc.Mut = append(pc.Mut, mut{idx, dd})
			}
			if k := len(pc.Rle); k > 0 && pc.Rle[k-1][0] == int(errno) {
				pc.Rle[k-1][1]++
			} else {
				pc.Rle = append(pc.Rle, [2]int{int(errno), 1})
			}
			idx++
		}
	}
	pc.Count = idx
	return pc
}

func genDirect(r *c.Rng) []any {
	p := pick(r, paths)
	if r.Intn(4) == 0 {
		p = pick(r, symPaths) // through a symbolic link: oracle-only
	}
	switch k := r.Intn(16); {
	case k < 8:
		fl := uint64(r.Intn(8192))
		if r.Intn(3) == 0 {
			fl |= r.U64() & 0xffffe000
		}
		if r.Intn(2) == 0 { // likely to pass the guards: read-only, harmless flags
			fl = uint64(r.Intn(4))*0 + pick(r, []uint64{0, 8, 32, 64, 256, 512, 1024, 2048, 3, 4}) | pick(r, []uint64{0, 0, 8, 512})
		}
		fop := pick(r, []string{"none", "write", "pwrite", "truncate", "sync", "datasync", "utimens"})
		return []any{"dopen", p, fl, fop, pick(r, []uint64{0, 1, 5, 1000}), pick(r, []uint64{0, 7, 1_000_000_000})}
	case k == 8:
		return []any{"mkdir", pick(r, []string{"newdir", "sub/newdir", "f.txt", "missing/x"}), uint64(0o700)}
	case k == 9:
		return []any{"chmod", p, pick(r, []uint64{0o600, 0o777, 0})}
	case k == 10:
		return []any{"rename", p, pick(r, []string{"renamed", "sub/renamed", "empty"})}
	case k == 11:
		return []any{"rmdir", p}
	case k == 12:
		return []any{"link", p, pick(r, []string{"hard", "sub/hard"})}
	case k == 13:
		return []any{"symlink", pick(r, []string{"f.txt", "../x"}), pick(r, []string{"sym", "sub/sym"})}
	case k == 14:
		return []any{"unlink", p}
	default:
		return []any{"utimens", p, pick(r, []uint64{0, 5, 1_000_000_000}), pick(r, []uint64{0, 7, 1_000_000_000})}
	}
}

func main() {
	seed := flag.Uint64("seed", 1, "")
	nseq := flag.Int("n", 40, "random sequences per mount kind")
	seqLen := flag.Int("len", 30, "operations per sequence")
	ndirect := flag.Int("direct", 300, "random direct sys.FS cases per mount kind")
	full := flag.Bool("full", false, "run the products on every path (thorough)")
	flag.Parse()
	rng := c.NewRng(*seed)
	out := c.NewOut()
	defer out.Flush()
	ctx := context.Background()
	root, err := os.MkdirTemp("", "verif-c17-")
	must(err)
	defer func() {
		filepath.WalkDir(root, func(p string, d fs.DirEntry, err error) error { os.Chmod(p, 0o755); return nil })
		os.RemoveAll(root)
	}()

	out.Emit(map[string]any{"t": "tree", "tree": treeSpec()})

	prodPaths := []string{"f.txt", "missing", "sub", "sub/g.bin"}
	if *full {
		prodPaths = append([]string{}, paths...)
		prodPaths = append(prodPaths, symPaths...)
	} else {
		prodPaths = append(prodPaths, pick(rng, paths[4:]))
		prodPaths = append(prodPaths, symProduct...)
	}
	for _, kind := range []string{"ro", "os", "map"} {
		m := newMount(ctx, kind, root, "compiler")
		// 1. exhaustive path_open product
		for i, p := range prodPaths {
			if i%2 == 1 {
				m.engine = "interp"
			} else {
				m.engine = "compiler"
			}
			out.Emit(m.runProduct(p))
		}
		// 2. every other mutating operation singly, and the read-back sequence, on both engines
		for _, eng := range []string{"compiler", "interp"} {
			m.engine = eng
			out.Emit(m.runSeq("singles", singles()))
			out.Emit(m.runSeq("reads", readsSeq()))
			out.Emit(m.runSeq("symsingles", symSingles()))
		}
		// 3. random sequences
		for i := 0; i < *nseq; i++ {
			m.engine = []string{"compiler", "interp"}[i%2]
			out.Emit(m.runSeq("random", genSeq(rng, *seqLen)))
			if i%2 == 0 {
				out.Emit(m.runSeq("symrandom", symbolise(rng, genSeq(rng, *seqLen))))
			}
		}
		// 4. the sys.FS level, directly
		dpaths := prodPaths
		if !*full {
			if kind == "ro" {
				dpaths = []string{"f.txt", "missing", "sub", "lfile", "ldir", "dangling"}
			} else {
				dpaths = []string{"f.txt", "dangling"}
			}
		}
		for _, p := range dpaths {
			out.Emit(m.dproduct(p))
		}
		for i := 0; i < *ndirect; i++ {
			out.Emit(m.direct(genDirect(rng)))
		}
		m.rt.Close(ctx)
	}
}
