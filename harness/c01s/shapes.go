// Hand-written CFG-heavy functions: nested loops, br_table dispatch, early returns, unreachable code after br,
// loops with several back edges, critical edges (also towards the return block), self loops, loops with parameters.
// All of them terminate for every argument (bounded counters); signature (i32, i32) -> i32;
// locals: 0,1 = parameters, 2 = i, 3 = acc, 4 = j.
package main

import (
	c "github.com/tetratelabs/wazero/internal/zz_verif/common"
)

type shape struct {
	Name string
	M    *c.ModSpec
}

const (
	opAdd, opSub, opMul, opAnd, opOr, opXor = 0, 1, 2, 7, 8, 9
	relEq, relNe, relLtU, relGtU            = 0, 1, 3, 5
)

func lg(i int) c.Ins     { return c.ILocalGet(i) }
func ls(i int) c.Ins     { return c.ILocalSet(i) }
func k32(v uint64) c.Ins { return c.IConst(c.I32, v) }
func bin(k int) c.Ins    { return c.IBin(c.I32, k) }
func rel(k int) c.Ins    { return c.IRel(c.I32, k) }
func seq(xs ...[]c.Ins) []c.Ins {
	var o []c.Ins
	for _, x := range xs {
		o = append(o, x...)
	}
	return o
}
func is(xs ...c.Ins) []c.Ins { return xs }

// local l += v
func inc(l int, v uint64) []c.Ins { return is(lg(l), k32(v), bin(opAdd), ls(l)) }

// push (local l < v)
func lt(l int, v uint64) []c.Ins { return is(lg(l), k32(v), rel(relLtU)) }

// push (local l & v)
func and(l int, v uint64) []c.Ins { return is(lg(l), k32(v), bin(opAnd)) }

func shapes() []shape {
	var out []shape
	add := func(name string, bodies ...func(m *c.ModSpec) []c.Ins) {
		m := &c.ModSpec{Globals: []byte{c.I32, c.I32}, GInit: []uint64{0, 0}}
		for _, b := range bodies {
			f := &c.FuncSpec{Sig: c.Sig{P: []byte{c.I32, c.I32}, R: []byte{c.I32}}, Locals: []byte{c.I32, c.I32, c.I32}}
			m.Funcs = append(m.Funcs, f)
			f.Body = b(m)
		}
		out = append(out, shape{name, m})
	}
	none := []byte(nil)

	add("nested_loops", func(m *c.ModSpec) []c.Ins {
		inner := m.IBlock(none, none, is(m.ILoop(none, none, seq(
			is(lg(3), lg(2), bin(opAdd), ls(3)),
			and(3, 7), is(c.IEqz(c.I32), c.IBrIf(1)),
			inc(3, 1),
			lt(3, 50), is(c.IBrIf(0)),
		))))
		return seq(is(m.IBlock(none, none, is(m.ILoop(none, none, seq(
			inc(2, 1), is(inner), lt(2, 5), is(c.IBrIf(0)),
		))))), is(lg(3)))
	}, func(m *c.ModSpec) []c.Ins { // three levels, break from the innermost to the outermost, continue of the middle one
		l3 := m.ILoop(none, none, seq(
			inc(4, 1), inc(3, 3),
			and(4, 7), is(k32(7), rel(relEq), c.IBrIf(3)), // leave everything
			and(4, 3), is(c.IEqz(c.I32), c.IBrIf(1)), // continue the middle loop
			lt(4, 40), is(c.IBrIf(0)),
		))
		l2 := m.ILoop(none, none, seq(inc(2, 1), is(lg(2), k32(12), rel(relGtU), c.IBrIf(2)), is(l3), lt(2, 9), is(c.IBrIf(0))))
		l1 := m.ILoop(none, none, seq(inc(3, 100), is(l2), lt(3, 350), is(c.IBrIf(0))))
		return seq(is(m.IBlock(none, none, is(l1))), is(lg(3)))
	})

	add("br_table_dispatch", func(m *c.ModSpec) []c.Ins {
		c0 := m.IBlock(none, none, seq(and(0, 3), is(c.IBrTable([]int{0, 1, 2}, 4))))
		c1 := m.IBlock(none, none, seq(is(c0), is(k32(2), ls(0)), inc(3, 1), is(c.IBr(2))))
		c2 := m.IBlock(none, none, seq(is(c1), inc(3, 10), is(c.IBr(2))))
		loop := m.ILoop(none, none, seq(is(c2), is(k32(1), ls(0)), inc(3, 100), is(c.IBr(0))))
		return seq(is(m.IBlock(none, none, is(loop))), is(lg(3)))
	}, func(m *c.ModSpec) []c.Ins { // duplicate targets, a target that is the loop header, default = leave the loop
		body := seq(inc(2, 1), and(2, 7), is(c.IBrTable([]int{0, 0, 1, 1, 0, 1}, 2)))
		loop := m.ILoop(none, none, seq(
			lt(2, 20), is(c.IEqz(c.I32), c.IBrIf(1)),
			is(m.IBlock(none, none, seq(body))),
			inc(3, 5), is(c.IBr(0))))
		return seq(is(m.IBlock(none, none, is(loop))), inc(3, 1000), is(lg(3)))
	})

	add("early_returns", func(m *c.ModSpec) []c.Ins {
		return seq(
			is(lg(0), c.IEqz(c.I32), m.IIf(none, none, is(k32(1), c.IReturn), nil)),
			and(0, 1), is(m.IIf(none, none,
				seq(and(0, 2), is(m.IIf(none, none, is(k32(2), c.IReturn), nil)), is(k32(3), ls(3))),
				is(k32(4), ls(3)))),
			is(lg(1), k32(5), rel(relEq), m.IIf(none, none, is(lg(3), k32(40), bin(opAdd), c.IReturn), inc(3, 7))),
			is(lg(3)))
	}, func(m *c.ModSpec) []c.Ins { // br_if to the function's own label: critical edge towards the return block
		return seq(
			is(k32(11), lg(0), c.IBrIf(0), c.IDrop),
			is(m.ILoop(none, none, seq(inc(2, 1), is(lg(2), lg(2), k32(6), rel(relGtU), c.IBrIf(1), c.IDrop), lt(2, 9), is(c.IBrIf(0))))),
			is(k32(12), lg(1), c.IBrIf(0), c.IDrop),
			is(lg(2)))
	})

	add("dead_code_after_br", func(m *c.ModSpec) []c.Ins {
		dead := seq(inc(3, 1000), is(m.IBlock(none, none, is(m.ILoop(none, none, seq(inc(3, 1), lt(3, 5), is(c.IBrIf(0))))))),
			is(lg(0), m.IIf(none, none, inc(3, 1), inc(3, 2))))
		return seq(
			is(m.IBlock(none, none, seq(inc(3, 1), is(c.IBr(0)), dead))),
			is(m.IBlock(none, none, seq(is(lg(0), c.IBrIf(0)), inc(3, 2), is(c.IBr(0)), dead))),
			is(m.ILoop(none, none, seq(inc(2, 1), lt(2, 3), is(c.IBrIf(0)), is(m.IBlock(none, none, seq(is(c.IBr(0)), dead)))))),
			is(lg(3), c.IReturn), dead, is(c.IUnreachable))
	}, func(m *c.ModSpec) []c.Ins { // unreachable / return inside both arms: the join block has no predecessor
		return seq(
			is(lg(0), m.IIf(none, none, is(lg(1), c.IReturn), is(lg(1), c.IEqz(c.I32), m.IIf(none, none, is(c.IUnreachable), is(k32(9), c.IReturn))))),
			inc(3, 5), is(lg(3)))
	})

	add("multi_back_edges", func(m *c.ModSpec) []c.Ins {
		loop := m.ILoop(none, none, seq(
			inc(2, 1),
			and(2, 3), is(c.IEqz(c.I32), m.IIf(none, none, seq(inc(3, 1), lt(2, 20), is(c.IBrIf(1))), nil)),
			and(2, 2), is(m.IIf(none, none,
				seq(inc(3, 2), lt(2, 30), is(c.IBrIf(1))),
				seq(inc(3, 3), lt(2, 25), is(c.IBrIf(1))))),
			lt(2, 40), is(c.IBrIf(0))))
		return seq(is(loop), is(lg(3)))
	}, func(m *c.ModSpec) []c.Ins { // self loop (single-block loop) followed by a loop whose header has a parameter
		self := m.ILoop(none, none, seq(inc(2, 1), lt(2, 5), is(c.IBrIf(0))))
		ploop := m.ILoop([]byte{c.I32}, []byte{c.I32}, is(k32(1), bin(opSub), c.ILocalTee(4), lg(4), c.IBrIf(0)))
		return seq(is(self), and(0, 15), is(k32(1), bin(opOr)), is(ploop), is(lg(2), bin(opAdd)))
	})

	add("critical_edges", func(m *c.ModSpec) []c.Ins {
		blk := m.IBlock(none, none, seq(
			is(lg(0), c.IBrIf(0)),
			inc(3, 1),
			is(lg(0), k32(1), bin(opXor), c.IBrIf(0)),
			inc(3, 2),
			is(lg(1), c.IBrIf(0)),
			inc(3, 4)))
		loop := m.ILoop(none, none, seq( // header with two predecessors, both continue edges critical
			inc(2, 1),
			and(2, 1), is(m.IIf(none, none, seq(inc(3, 8), lt(2, 7), is(c.IBrIf(1))), nil)),
			lt(2, 11), is(c.IBrIf(0))))
		return seq(is(blk), is(loop), is(lg(3)))
	}, func(m *c.ModSpec) []c.Ins { // diamond whose arms branch conditionally to a common exit two levels up
		inner := m.IBlock(none, none, seq(
			is(lg(0), m.IIf(none, none,
				seq(inc(3, 1), is(lg(1), c.IBrIf(2))),
				seq(inc(3, 2), is(lg(1), c.IEqz(c.I32), c.IBrIf(2))))),
			inc(3, 4), is(lg(0), lg(1), rel(relEq), c.IBrIf(1)), inc(3, 8)))
		return seq(is(m.IBlock(none, none, seq(is(inner), inc(3, 16)))), is(lg(3)))
	})

	add("if_values_in_loop", func(m *c.ModSpec) []c.Ins {
		body := seq(
			inc(2, 1),
			and(2, 1), is(m.IIf(none, []byte{c.I32}, is(lg(3), k32(3), bin(opMul)), is(lg(3), k32(1), bin(opAdd))), ls(3)),
			is(lg(2), lg(0)), and(0, 7), is(c.IDrop, rel(relEq), m.IIf(none, none, is(lg(3), c.IReturn), nil)),
			lt(2, 8), is(c.IBrIf(0)))
		return seq(is(m.ILoop(none, none, body)), is(lg(3)))
	})

	// loops whose state lives in globals: the header has no parameters, the branches carry no arguments, so
	// maybeInvertBranches may invert the conditional back edge (brnz header; jump exit  =>  brz exit; jump header)
	ginc := func(g int, v uint64) []c.Ins { return is(c.IGlobalGet(g), k32(v), bin(opAdd), c.IGlobalSet(g)) }
	glt := func(g int, v uint64) []c.Ins { return is(c.IGlobalGet(g), k32(v), rel(relLtU)) }
	add("global_counter_loops", func(m *c.ModSpec) []c.Ins {
		return seq(is(k32(0), c.IGlobalSet(0)),
			is(m.ILoop(none, none, seq(ginc(0, 1), ginc(1, 3), glt(0, 6), is(c.IBrIf(0))))),
			is(c.IGlobalGet(1)))
	}, func(m *c.ModSpec) []c.Ins { // nested, the inner one leaves through a block, continue edges from an if
		inner := m.IBlock(none, none, is(m.ILoop(none, none, seq(
			ginc(1, 1), is(c.IGlobalGet(1), k32(3), bin(opAnd), c.IEqz(c.I32), c.IBrIf(1)), glt(1, 64), is(c.IBrIf(0))))))
		return seq(is(k32(0), c.IGlobalSet(0)),
			is(m.ILoop(none, none, seq(ginc(0, 1), is(inner),
				is(c.IGlobalGet(0), k32(1), bin(opAnd), m.IIf(none, none, seq(glt(0, 9), is(c.IBrIf(1))), nil)),
				glt(0, 12), is(c.IBrIf(0))))),
			is(c.IGlobalGet(1)))
	}, func(m *c.ModSpec) []c.Ins { // conditional branch over a block straight to the code after it, no locals involved
		return seq(is(k32(0), c.IGlobalSet(0)),
			is(m.IBlock(none, none, seq(is(lg(0), c.IBrIf(0)), ginc(1, 1), is(lg(1), c.IBrIf(0)), ginc(1, 2)))),
			is(m.ILoop(none, none, seq(ginc(0, 1),
				is(m.IBlock(none, none, seq(is(lg(0), c.IEqz(c.I32), c.IBrIf(0)), glt(0, 4), is(c.IBrIf(1))))),
				glt(0, 7), is(c.IBrIf(0))))),
			is(c.IGlobalGet(1)))
	})

	add("dead_join_blocks", func(m *c.ModSpec) []c.Ins { // blocks whose end is never reached: their continuation has no predecessor
		return seq(
			is(m.IBlock(none, none, is(m.IBlock(none, none, is(c.IBr(1)))))),
			is(m.IBlock(none, none, is(m.ILoop(none, none, seq(inc(2, 1), lt(2, 4), is(c.IBrIf(0), c.IBr(1))))))),
			is(lg(0), m.IIf(none, none, is(m.IBlock(none, none, is(lg(2), c.IReturn))), is(m.ILoop(none, none, is(lg(1), c.IReturn))))),
			is(c.IUnreachable))
	}, func(m *c.ModSpec) []c.Ins {
		return seq(
			is(m.IBlock(none, none, seq(and(0, 1), is(c.IBrTable([]int{0}, 0)), inc(3, 1)))),
			is(m.ILoop(none, none, seq(inc(2, 1), lt(2, 3), is(c.IBrIf(0)), is(lg(2), c.IReturn), inc(3, 1), is(c.IBr(0))))),
			is(lg(3)))
	})
	return out
}
