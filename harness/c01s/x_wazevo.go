// Overlay file (package wazevo): re-runs the compiler's frontend exactly as compileLocalWasmFunction does (same
// offsets and ensureTermination flag as the compiled module Runtime.CompileModule produced) and dumps the SSA
// control-flow graph of every local function after lowering, after the pre-layout passes and after the whole of
// RunPasses (phases run one by one); then lowers the function again, runs the REAL RunPasses and dumps once more.
package wazevo

import (
	"github.com/tetratelabs/wazero/internal/engine/wazevo/frontend"
	"github.com/tetratelabs/wazero/internal/engine/wazevo/ssa"
	"github.com/tetratelabs/wazero/internal/wasm"
)

type VerifFuncCFG struct {
	Fn     int            `json:"fn"`
	Stages []ssa.VerifCFG `json:"stages"` // stage 0: lowered, 1: pre-layout passes done, 3: RunPasses done (phases run one by one)
	Real   ssa.VerifCFG   `json:"real"`   // stage 3 of a second lowering + the real RunPasses
}

func VerifCFGs(e wasm.Engine, m *wasm.Module) (out []VerifFuncCFG, ok bool) {
	we, isW := e.(*engine)
	if !isW {
		return nil, false
	}
	cm, found := we.getCompiledModuleFromMemory(m)
	if !found {
		return nil, false
	}
	ssaBuilder := ssa.NewBuilder()
	fe := frontend.NewFrontendCompiler(m, ssaBuilder, &cm.offsets, cm.ensureTermination, false, false)
	lower := func(i int) {
		typIndex := m.FunctionSection[i]
		typ := &m.TypeSection[typIndex]
		codeSeg := &m.CodeSection[i]
		fe.Init(wasm.Index(i), typIndex, typ, codeSeg.LocalTypes, codeSeg.Body, false, codeSeg.BodyOffsetInCodeSection)
		fe.LowerToSSA()
	}
	for i := range m.CodeSection {
		f := VerifFuncCFG{Fn: i}
		lower(i)
		f.Stages = append(f.Stages, ssa.VerifDumpCFG(ssaBuilder, 0))
		ssa.VerifRunPhase(ssaBuilder, 0)
		f.Stages = append(f.Stages, ssa.VerifDumpCFG(ssaBuilder, 1))
		ssa.VerifRunPhase(ssaBuilder, 1)
		ssa.VerifRunPhase(ssaBuilder, 2)
		ssa.VerifRunPhase(ssaBuilder, 3)
		f.Stages = append(f.Stages, ssa.VerifDumpCFG(ssaBuilder, 3))
		lower(i)
		ssaBuilder.RunPasses()
		f.Real = ssa.VerifDumpCFG(ssaBuilder, 3)
		out = append(out, f)
	}
	return out, true
}
