// C01 (SSA stream) harness: dumps the optimizing compiler's SSA control-flow graphs, as the real frontend and the
// real CFG-level passes (ssa/pass.go, pass_cfg.go, pass_blk_layouts.go) produce them, for
//   - hand-written CFG-heavy functions (shapes.go), which are also run on both engines here, and
//   - every module whose hex is given on stdin (the modules checks/c01.py has just run on both engines and in W).
//
// One JSON line per module.
package main

import (
	"bufio"
	"context"
	"encoding/hex"
	"flag"
	"fmt"
	"os"
	"strings"
	"time"

	"github.com/tetratelabs/wazero"
	"github.com/tetratelabs/wazero/api"
	"github.com/tetratelabs/wazero/experimental"
	"github.com/tetratelabs/wazero/internal/engine/wazevo"
	c "github.com/tetratelabs/wazero/internal/zz_verif/common"
)

type MCase struct {
	ID    int                   `json:"id"`
	Src   string                `json:"src"` // shape:<name> | stdin
	Wasm  string                `json:"wasm"`
	Funcs []wazevo.VerifFuncCFG `json:"funcs"`
	Err   string                `json:"err,omitempty"`
	// shapes only: engine-vs-engine observations
	Runs    []ShapeRun `json:"runs,omitempty"`
	EngDiff string     `json:"engdiff,omitempty"`
}

type ShapeRun struct {
	Fn     int      `json:"fn"`
	Args   []uint64 `json:"args"`
	Interp string   `json:"interp"`
	Comp   string   `json:"comp"`
}

const features = api.CoreFeaturesV2 | experimental.CoreFeaturesTailCall

func dump(mc *MCase, bin []byte) {
	defer func() {
		if e := recover(); e != nil {
			mc.Err = fmt.Sprint("PANIC: ", e)
		}
	}()
	ctx := context.Background()
	r := wazero.NewRuntimeWithConfig(ctx, wazero.NewRuntimeConfigCompiler().WithCoreFeatures(features))
	defer r.Close(ctx)
	cm, err := r.CompileModule(ctx, bin)
	if err != nil {
		mc.Err = "compiler compile: " + err.Error()
		return
	}
	m, e := wazero.VerifInternalsC01s(cm)
	fs, ok := wazevo.VerifCFGs(e, m)
	if !ok {
		mc.Err = "compiler: compiled module not found"
		return
	}
	mc.Funcs = fs
}

func callAll(engine string, bin []byte, m *c.ModSpec, argsets [][]uint64) (res []string) {
	ctx := context.Background()
	var rc wazero.RuntimeConfig
	if engine == "compiler" {
		rc = wazero.NewRuntimeConfigCompiler()
	} else {
		rc = wazero.NewRuntimeConfigInterpreter()
	}
	r := wazero.NewRuntimeWithConfig(ctx, rc.WithCoreFeatures(features))
	defer r.Close(ctx)
	mod, err := r.InstantiateWithConfig(ctx, bin, wazero.NewModuleConfig().WithName("m"))
	if err != nil {
		return []string{"instantiate: " + err.Error()}
	}
	for fi := range m.Funcs {
		f := mod.ExportedFunction(fmt.Sprintf("f%d", fi))
		for _, a := range argsets {
			args := a[:len(m.Funcs[fi].Sig.P)]
			func() {
				defer func() {
					if e := recover(); e != nil {
						res = append(res, fmt.Sprint("PANIC: ", e))
					}
				}()
				out, err := f.Call(ctx, args...)
				if err != nil {
					res = append(res, "trap:"+c.TrapClass(err))
				} else {
					res = append(res, fmt.Sprint(c.MaskRes(out, m.Funcs[fi].Sig.R)))
				}
			}()
		}
	}
	return
}

func main() {
	shapesOn := flag.Bool("shapes", true, "emit the hand-written shapes first")
	flag.Parse()
	out := c.NewOut()
	defer out.Flush()
	id := 0
	var shs []shape
	if *shapesOn {
		shs = shapes()
		for _, sh := range shs {
			bin := sh.M.Encode()
			mc := MCase{ID: id, Src: "shape:" + sh.Name, Wasm: hex.EncodeToString(bin)}
			id++
			dump(&mc, bin)
			out.Emit(mc)
		}
	}
	sc := bufio.NewScanner(os.Stdin)
	sc.Buffer(make([]byte, 1<<20), 1<<26)
	for sc.Scan() {
		line := strings.TrimSpace(sc.Text())
		if line == "" {
			continue
		}
		mc := MCase{ID: id, Src: "stdin", Wasm: line}
		id++
		bin, err := hex.DecodeString(line)
		if err != nil {
			mc.Err = "hex: " + err.Error()
		} else {
			dump(&mc, bin)
		}
		out.Emit(mc)
	}
	out.Flush()
	// Last, the shapes run on both engines (every dump is already written: miscompiled code may well not terminate).
	argsets := [][]uint64{{0, 0}, {1, 0}, {2, 1}, {3, 7}, {5, 2}, {6, 3}, {7, 1}, {12, 5}, {0xffffffff, 9}, {0x80000001, 4}}
	for _, sh := range shs {
		bin := sh.M.Encode()
		mc := MCase{Src: "shaperun:" + sh.Name}
		done := make(chan [2][]string, 1)
		go func() {
			done <- [2][]string{callAll("interp", bin, sh.M, argsets), callAll("compiler", bin, sh.M, argsets)}
		}()
		var res [2][]string
		select {
		case res = <-done:
		case <-time.After(20 * time.Second):
			mc.EngDiff = "the engines did not finish the calls of this shape within 20 s (every shape terminates within microseconds by construction)"
			out.Emit(mc)
			out.Flush()
			os.Exit(0)
		}
		ri, rcmp := res[0], res[1]
		k := 0
		for fi := range sh.M.Funcs {
			for _, a := range argsets {
				sr := ShapeRun{Fn: fi, Args: a[:len(sh.M.Funcs[fi].Sig.P)]}
				if k < len(ri) {
					sr.Interp = ri[k]
				}
				if k < len(rcmp) {
					sr.Comp = rcmp[k]
				}
				if sr.Interp != sr.Comp && mc.EngDiff == "" {
					mc.EngDiff = fmt.Sprintf("f%d%v: interpreter %s, compiler %s", fi, sr.Args, sr.Interp, sr.Comp)
				}
				mc.Runs = append(mc.Runs, sr)
				k++
			}
		}
		out.Emit(mc)
	}
}
