// Overlay file (package ssa), mapped to internal/engine/wazevo/ssa/zz_verif_c01s.go by `go build -overlay`; /repo is
// not changed. Projects the builder's control-flow graph and the results of the CFG-level passes (pass.go, pass_cfg.go,
// pass_blk_layouts.go) to plain data, and runs the four phases of RunPasses one by one so that the graph can be dumped
// between them. VerifRunPhase mirrors RunPasses (four calls); the harness also runs the real RunPasses on a second
// lowering of the same function and requires the final dumps to be identical, so the mirror cannot drift unnoticed.
package ssa

import (
	"hash/fnv"
)

// VerifBranch is one branching instruction of a block.
type VerifBranch struct {
	Pos  int      `json:"pos"`            // index of the instruction in the block
	Op   string   `json:"op"`             // jump | brz | brnz | br_table
	T    []int64  `json:"t"`              // targets (block ids; -1 = the return block)
	C    uint64   `json:"c"`              // condition / index value (0 for jump)
	Args []uint64 `json:"args,omitempty"` // block arguments
	FT   bool     `json:"ft,omitempty"`   // marked as fallthrough jump
}

type VerifBlock struct {
	ID     int           `json:"id"`
	Valid  bool          `json:"valid"`
	Entry  bool          `json:"entry,omitempty"`
	Sealed bool          `json:"sealed"`
	Preds  []int64       `json:"preds"`
	Succs  []int64       `json:"succs"`
	NIns   int           `json:"nins"`
	Body   uint64        `json:"body"` // hash of the formatted non-branching instructions, in order
	Last   string        `json:"last"` // opcode of the last instruction ("" for an empty block)
	Params int           `json:"params"`
	Br     []VerifBranch `json:"br"`
	RPO    int           `json:"rpo"`  // basicBlock.reversePostOrder
	Idom   int64         `json:"idom"` // builder.dominators[id] (-2: nil or out of range)
	Hdr    bool          `json:"hdr,omitempty"`
	Kids   []int64       `json:"kids,omitempty"` // loopNestingForestChildren
	RootID int           `json:"rootid"`         // id of the root instruction (the key of passSortSuccessors), -1 if none
}

type VerifCFG struct {
	Stage  int          `json:"stage"`
	N      int          `json:"n"`      // blocks allocated
	Blocks []VerifBlock `json:"blocks"` // all allocated blocks by id
	Order  []int64      `json:"order"`  // builder.reversePostOrderedBasicBlocks
	Roots  []int64      `json:"roots"`  // loopNestingForestRoots
	LCA    [][3]int64   `json:"lca,omitempty"`
}

func verifID(b *basicBlock) int64 {
	if b == nil {
		return -2
	}
	if b.ReturnBlock() {
		return -1
	}
	return int64(b.id)
}

// VerifRunPhase runs phase k (0..3) of RunPasses.
func VerifRunPhase(bi Builder, k int) {
	b := bi.(*builder)
	switch k {
	case 0:
		b.runPreBlockLayoutPasses()
	case 1:
		b.runBlockLayoutPass()
	case 2:
		b.runPostBlockLayoutPasses()
	case 3:
		b.runFinalizingPasses()
	}
}

// VerifDumpCFG projects the current state of the builder.
func VerifDumpCFG(bi Builder, stage int) VerifCFG {
	b := bi.(*builder)
	n := b.basicBlocksPool.Allocated()
	out := VerifCFG{Stage: stage, N: n, Order: []int64{}, Roots: []int64{}}
	for i := 0; i < n; i++ {
		blk := b.basicBlocksPool.View(i)
		vb := VerifBlock{ID: int(blk.id), Valid: !blk.invalid, Entry: blk.EntryBlock(), Sealed: blk.sealed,
			Preds: []int64{}, Succs: []int64{}, Br: []VerifBranch{}, Params: len(blk.params.View()),
			RPO: int(blk.reversePostOrder), Hdr: blk.loopHeader, Idom: -2, RootID: -1}
		for _, p := range blk.preds {
			vb.Preds = append(vb.Preds, verifID(p.blk))
		}
		for _, s := range blk.success {
			vb.Succs = append(vb.Succs, verifID(s))
		}
		if int(blk.id) < len(b.dominators) {
			vb.Idom = verifID(b.dominators[blk.id])
		}
		for _, k := range blk.loopNestingForestChildren.View() {
			vb.Kids = append(vb.Kids, verifID(k.(*basicBlock)))
		}
		if blk.rootInstr != nil {
			vb.RootID = blk.rootInstr.id
		}
		h := fnv.New64a()
		pos := 0
		for cur := blk.rootInstr; cur != nil; cur = cur.next {
			vb.Last = cur.opcode.String()
			switch cur.opcode {
			case OpcodeJump, OpcodeBrz, OpcodeBrnz:
				br := VerifBranch{Pos: pos, T: []int64{}}
				switch cur.opcode {
				case OpcodeJump:
					br.Op = "jump"
					br.FT = cur.u1 != 0
				case OpcodeBrz:
					br.Op, br.C = "brz", uint64(cur.v)
				case OpcodeBrnz:
					br.Op, br.C = "brnz", uint64(cur.v)
				}
				tid := BasicBlockID(cur.rValue)
				if tid == basicBlockIDReturnBlock {
					br.T = append(br.T, -1)
				} else {
					br.T = append(br.T, int64(tid))
				}
				for _, a := range cur.vs.View() {
					br.Args = append(br.Args, uint64(a))
				}
				vb.Br = append(vb.Br, br)
			case OpcodeBrTable:
				br := VerifBranch{Pos: pos, Op: "br_table", C: uint64(cur.v), T: []int64{}}
				for _, t := range cur.rValues.View() {
					if BasicBlockID(t) == basicBlockIDReturnBlock {
						br.T = append(br.T, -1)
					} else {
						br.T = append(br.T, int64(BasicBlockID(t)))
					}
				}
				for _, a := range cur.vs.View() {
					br.Args = append(br.Args, uint64(a))
				}
				vb.Br = append(vb.Br, br)
			default:
				h.Write([]byte(cur.Format(b)))
				h.Write([]byte{'\n'})
			}
			pos++
		}
		vb.NIns = pos
		vb.Body = h.Sum64()
		out.Blocks = append(out.Blocks, vb)
	}
	for _, blk := range b.reversePostOrderedBasicBlocks {
		out.Order = append(out.Order, verifID(blk))
	}
	for _, r := range b.loopNestingForestRoots {
		out.Roots = append(out.Roots, verifID(r.(*basicBlock)))
	}
	if stage == 3 && len(b.sparseTree.euler) > 0 {
		// LowestCommonAncestor (passBuildDominatorTree + findLCA) on a spread of pairs of laid-out blocks
		ord := b.reversePostOrderedBasicBlocks
		m := len(ord)
		step := 1
		if m*m > 24 {
			step = m*m/24 + 1
		}
		for k := 0; k < m*m; k += step {
			u, v := ord[k/m], ord[k%m]
			l := b.sparseTree.findLCA(u.id, v.id)
			out.LCA = append(out.LCA, [3]int64{int64(u.id), int64(v.id), verifID(l)})
		}
	}
	return out
}
