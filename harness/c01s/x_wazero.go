// Overlay file (package wazero), mapped to /repo/zz_verif_c01s.go by `go build -overlay`; /repo is not changed.
// Gives the harness the internal module and the engine behind a CompiledModule obtained through the public API.
package wazero

import "github.com/tetratelabs/wazero/internal/wasm"

func VerifInternalsC01s(cm CompiledModule) (*wasm.Module, wasm.Engine) {
	c := cm.(*compiledModule)
	return c.module, c.compiledEngine
}
