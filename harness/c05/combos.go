// Combo functions: two or three DIFFERENT numeric instructions in one function body, all results returned
// (multi-value). A backend keeps per-function state (constant pool and cached constant labels, scratch registers,
// value numbering); single-instruction functions never share it between instructions. Pairs are formed within the
// families that share lowering helpers, plus random cross-family pairs and triples from VERIF_SEED.
package main

import (
	"math"
	"regexp"
	"sort"
	"strings"

	c "github.com/tetratelabs/wazero/internal/zz_verif/common"
)

type family struct {
	name string
	re   string
}

var families = []family{
	{"vshift", `^i(8x16|16x8|32x4|64x2)\.(shl|shr_s|shr_u)$`},
	{"sat8", `^i8x16\.(add_sat_[su]|sub_sat_[su]|min_[su]|max_[su]|avgr_u|add|sub)$`},
	{"sat16", `^i16x8\.(add_sat_[su]|sub_sat_[su]|min_[su]|max_[su]|avgr_u|q15mulr_sat_s|mul)$`},
	{"minmax32", `^i32x4\.(min_[su]|max_[su]|mul|abs)$|^i64x2\.(mul|abs|neg)$`},
	{"widen16", `^i16x8\.(extend_|extmul_|extadd_|narrow_)|^i8x16\.narrow_`},
	{"widen32", `^i32x4\.(extend_|extmul_|extadd_|dot_)`},
	{"widen64", `^i64x2\.(extend_|extmul_)`},
	{"fminmax", `^f(32x4|64x2)\.(min|max|pmin|pmax)$|^f(32|64)\.(min|max)$`},
	{"fsign", `^f(32x4|64x2|32|64)\.(abs|neg)$|^f(32|64)\.copysign$`},
	{"fround", `^f(32x4|64x2|32|64)\.(ceil|floor|trunc|nearest|sqrt)$`},
	{"truncsat", `^i(32|64)\.trunc_sat_`},
	{"vtruncsat", `^i32x4\.trunc_sat_|^f32x4\.convert_|^f64x2\.convert_|^f32x4\.demote|^f64x2\.promote`},
	{"trunc", `^i(32|64)\.trunc_f`},
	{"convert", `^f(32|64)\.convert_|^f32\.demote|^f64\.promote`},
	{"intdiv", `^i(32|64)\.(div_[su]|rem_[su])$`},
	{"shiftrot", `^i(32|64)\.(shl|shr_s|shr_u|rotl|rotr)$`},
	{"bits", `^i(32|64)\.(clz|ctz|popcnt|extend8_s|extend16_s|extend32_s)$`},
	{"vcmp", `^i(8x16|16x8|32x4)\.(lt_u|gt_u|le_u|ge_u|ne)$|^i64x2\.(ne|lt_s|gt_s|le_s|ge_s)$`},
	{"vfcmp", `^f(32x4|64x2)\.(eq|ne|lt|gt|le|ge)$`},
	{"vbool", `\.(all_true|any_true|bitmask)$`},
	// everything that takes a 16-byte constant from the per-function pool on amd64 (in constant mode v128.const joins them)
	{"constpool", `^i8x16\.(swizzle|shuffle|shl|shr_u|shr_s|popcnt|bitmask|abs|neg)$|^i16x8\.(q15mulr_sat_s|bitmask|extadd_)|^i32x4\.(extadd_|trunc_sat_)|` +
		`^f32x4\.(convert_|abs|neg)|^f64x2\.(convert_|abs|neg)|^i64x2\.(abs|mul|shr_s)$|^v128\.(not|bitselect)$`},
	{"lanes", `\.(extract_lane|replace_lane|splat)`},
}

// mayTrap: operands on which a trapping instruction traps (those are left to the single-instruction functions:
// a combo returns nothing when one component traps). A light Go-side predicate, independent of the Coq spec.
func mayTrap(op *Op, a []Val) bool {
	n := op.Name
	switch {
	case strings.Contains(n, ".div_") || strings.Contains(n, ".rem_"):
		if n[:3] == "i32" {
			x, y := uint32(a[0][0]), uint32(a[1][0])
			return y == 0 || (strings.HasSuffix(n, "div_s") && x == 0x80000000 && y == 0xffffffff)
		}
		return a[1][0] == 0 || (strings.HasSuffix(n, "div_s") && a[0][0] == 1<<63 && a[1][0] == ^uint64(0))
	case strings.Contains(n, ".trunc_f"):
		var x float64
		if strings.Contains(n, "_f32_") {
			x = float64(math.Float32frombits(uint32(a[0][0])))
		} else {
			x = math.Float64frombits(a[0][0])
		}
		if x != x || math.IsInf(x, 0) {
			return true
		}
		t := math.Trunc(x)
		switch {
		case strings.HasPrefix(n, "i32") && strings.HasSuffix(n, "_s"):
			return !(t >= -2147483648 && t <= 2147483647)
		case strings.HasPrefix(n, "i32"):
			return !(t >= 0 && t <= 4294967295)
		case strings.HasSuffix(n, "_s"):
			return !(t >= -9223372036854775808 && t < 9223372036854775808)
		}
		return !(t >= 0 && t < 18446744073709551616)
	}
	return false
}

func sameShape(a, b *Op) bool {
	if a.P != b.P || len(a.Shape) != len(b.Shape) {
		return false
	}
	for i := range a.Shape {
		if a.Shape[i] != b.Shape[i] {
			return false
		}
	}
	return true
}

// comboTuples: n lane tuples, mixing boundary and random values in every position.
func comboTuples(r *c.Rng, ks []laneKind, n int) [][]uint64 {
	out := make([][]uint64, n)
	for i := range out {
		t := make([]uint64, len(ks))
		allCore := r.Intn(3) == 0
		for j := range t {
			if allCore {
				t[j] = r.Pick(ks[j].set.core)
			} else {
				t[j] = randLane(r, ks[j])
			}
		}
		// equal operands now and then (only meaningful when the widths agree)
		if len(t) >= 2 && r.Intn(8) == 0 && ks[0].w == ks[1].w {
			t[1] = t[0]
		}
		out[i] = t
	}
	return out
}

func mkCombo(rng *c.Rng, fam string, members []*Op, calls int) *Variant {
	v := &Variant{}
	var names []string
	var shapes []string
	share := true
	for _, m := range members[1:] {
		if !sameShape(members[0], m) {
			share = false
		}
	}
	for k, m := range members {
		imm := immsOf(m, rng, false)[0]
		cp := Comp{Op: m, Imm: imm, ImmZ: immZ(imm)}
		for j := range m.P {
			if share {
				cp.Arg = append(cp.Arg, j)
			} else {
				cp.Arg = append(cp.Arg, len(v.P)+j)
			}
		}
		if !share || k == 0 {
			v.P += m.P
			shapes = append(shapes, m.Shape...)
		}
		v.Comps = append(v.Comps, cp)
		names = append(names, m.Name)
	}
	v.Name = fam + ":" + strings.Join(names, "+")
	ks := make([]laneKind, len(shapes))
	for j, s := range shapes {
		ks[j] = kindOf(s)
	}
	all := pack(rng, ks, comboTuples(rng, ks, 3*calls*maxLanes(ks)))
	for _, args := range all {
		trap := false
		for _, cp := range v.Comps {
			sub := make([]Val, len(cp.Arg))
			for i, a := range cp.Arg {
				sub[i] = args[a]
			}
			if mayTrap(cp.Op, sub) {
				trap = true
			}
		}
		if !trap {
			v.Calls = append(v.Calls, args)
		}
		if len(v.Calls) == calls {
			break
		}
	}
	v.Const = make([]bool, len(v.Calls))
	for k := 0; k < len(v.Calls) && k < 1+calls/4; k++ {
		v.Const[k] = true
	}
	return v
}

func combos(ops []Op, want map[string]bool, seed uint64, nrandom int, calls int, famcap int) []*Variant {
	rng := c.NewRng(seed*7777777 + 99)
	var vars []*Variant
	seen := map[string]bool{}
	var pool []*Op
	for i := range ops {
		if want[ops[i].Class] {
			pool = append(pool, &ops[i])
		}
	}
	add := func(fam string, ms []*Op) {
		// the order inside the body is seed-dependent (the amd64 backend lowers bottom-up: order matters)
		for i := len(ms) - 1; i > 0; i-- {
			j := rng.Intn(i + 1)
			ms[i], ms[j] = ms[j], ms[i]
		}
		ids := make([]string, len(ms))
		for i, m := range ms {
			ids[i] = m.Name
		}
		sort.Strings(ids)
		key := strings.Join(ids, "+")
		if seen[key] {
			return
		}
		seen[key] = true
		if v := mkCombo(rng, fam, ms, calls); len(v.Calls) > 0 {
			vars = append(vars, v)
		}
	}
	for _, f := range families {
		re := regexp.MustCompile(f.re)
		var ms []*Op
		for _, o := range pool {
			if re.MatchString(o.Name) {
				ms = append(ms, o)
			}
		}
		var prs [][2]*Op
		for i := 0; i < len(ms); i++ {
			for j := i + 1; j < len(ms); j++ {
				prs = append(prs, [2]*Op{ms[i], ms[j]})
			}
		}
		if famcap > 0 && len(prs) > famcap { // a seed-dependent sample of the pairs of a large family
			for i := 0; i < famcap; i++ {
				j := i + rng.Intn(len(prs)-i)
				prs[i], prs[j] = prs[j], prs[i]
			}
			prs = prs[:famcap]
		}
		for _, pr := range prs {
			add(f.name, []*Op{pr[0], pr[1]})
		}
	}
	if len(pool) < 3 {
		return vars
	}
	pick := func(n int) []*Op {
		var ms []*Op
		for len(ms) < n {
			o := pool[rng.Intn(len(pool))]
			dup := false
			for _, m := range ms {
				if m == o {
					dup = true
				}
			}
			if !dup {
				ms = append(ms, o)
			}
		}
		return ms
	}
	for i := 0; i < nrandom; i++ {
		add("random", pick(2))
	}
	for i := 0; i < nrandom/3; i++ {
		add("random3", pick(3))
	}
	return vars
}
