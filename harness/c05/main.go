// C05 correspondence harness: one exported function per (opcode, immediate, operand mode) in batched modules,
// run on both engines. Operand modes: "p" operands are function parameters, "c" operands are constants in the
// body, "m" operands are loaded from linear memory. Prints one JSON line per (op, imm, operands) with the six
// observations [interp p, interp c, interp m, compiler p, compiler c, compiler m]; an observation is the result
// bits, a negative trap code (-1 divide by zero, -2 integer overflow, -3 invalid conversion, -9 other), or null
// when that mode was not run for the tuple.
package main

import (
	"bufio"
	"context"
	"errors"
	"flag"
	"fmt"
	"math"
	"math/big"
	"os"
	"strings"
	"sync"

	"github.com/tetratelabs/wazero"
	"github.com/tetratelabs/wazero/api"
	c "github.com/tetratelabs/wazero/internal/zz_verif/common"
	"github.com/tetratelabs/wazero/internal/wasmruntime"
)

func f32bits(f float32) uint32 { return math.Float32bits(f) }
func f64bits(f float64) uint64 { return math.Float64bits(f) }

// Comp is one numeric instruction inside a function body; Arg lists which parameters of the function are its operands.
type Comp struct {
	Op   *Op
	Imm  []byte
	ImmZ *big.Int
	Arg  []int
}

// Variant is one generated function: a single instruction, or a "combo" of two or three instructions in ONE body
// (so that they share the backend's per-function state: constant pool, cached labels, scratch registers) returning
// all their results.
type Variant struct {
	Comps []Comp
	Name  string // "" for single-instruction functions, otherwise family:op1+op2[+op3]
	P     string
	Calls [][]Val
	Const []bool // which calls also run in constant mode
}

func immZ(imm []byte) *big.Int {
	z := new(big.Int)
	for l := len(imm) - 1; l >= 0; l-- {
		z.Lsh(z, 8).Or(z, big.NewInt(int64(imm[l])))
	}
	return z
}

func vt(t byte) byte {
	switch t {
	case 'i':
		return c.I32
	case 'I':
		return c.I64
	case 'f':
		return c.F32
	case 'F':
		return c.F64
	}
	return c.V128
}

func vts(p string) []byte {
	var o []byte
	for i := 0; i < len(p); i++ {
		o = append(o, vt(p[i]))
	}
	return o
}

func le(v uint64, n int) []byte {
	o := make([]byte, n)
	for i := 0; i < n; i++ {
		o[i] = byte(v >> (8 * uint(i)))
	}
	return o
}

func constInstr(t byte, v Val) []byte {
	switch t {
	case 'i':
		return c.I32Const(int32(uint32(v[0])))
	case 'I':
		return c.I64Const(int64(v[0]))
	case 'f':
		return c.Cat(c.B(0x43), le(v[0], 4))
	case 'F':
		return c.Cat(c.B(0x44), le(v[0], 8))
	}
	return c.Cat(c.B(0xfd, 0x0c), le(v[0], 8), le(v[1], 8))
}

func loadInstr(t byte, off uint32) []byte {
	switch t {
	case 'i':
		return c.Cat(c.B(0x28), c.MemArg(0, off))
	case 'I':
		return c.Cat(c.B(0x29), c.MemArg(0, off))
	case 'f':
		return c.Cat(c.B(0x2a), c.MemArg(0, off))
	case 'F':
		return c.Cat(c.B(0x2b), c.MemArg(0, off))
	}
	return c.Cat(c.B(0xfd, 0x00), c.MemArg(0, off))
}

type modBuilder struct {
	m     c.Mod
	types map[string]uint32
	n     uint32
}

func newMB(mem bool) *modBuilder {
	b := &modBuilder{types: map[string]uint32{}}
	if mem {
		b.m.Mems = [][]byte{c.MemLimits(1, nil)}
		b.m.Exports = append(b.m.Exports, c.Export("mem", 2, 0))
	}
	return b
}

func (b *modBuilder) add(params []byte, results []byte, body []byte) uint32 {
	key := string(params) + ">" + string(results)
	ti, ok := b.types[key]
	if !ok {
		ti = uint32(len(b.m.Types))
		b.types[key] = ti
		b.m.Types = append(b.m.Types, c.FT(params, results))
	}
	idx := b.n
	b.n++
	b.m.Funcs = append(b.m.Funcs, c.U32(ti))
	b.m.Codes = append(b.m.Codes, c.Code(nil, body))
	b.m.Exports = append(b.m.Exports, c.Export(fmt.Sprintf("f%d", idx), 0, idx))
	return idx
}

func trapCode(err error) int64 {
	switch {
	case errors.Is(err, wasmruntime.ErrRuntimeIntegerDivideByZero):
		return -1
	case errors.Is(err, wasmruntime.ErrRuntimeIntegerOverflow):
		return -2
	case errors.Is(err, wasmruntime.ErrRuntimeInvalidConversionToInteger):
		return -3
	}
	s := err.Error()
	switch {
	case strings.Contains(s, "integer divide by zero"):
		return -1
	case strings.Contains(s, "integer overflow"):
		return -2
	case strings.Contains(s, "invalid conversion to integer"):
		return -3
	}
	return -9
}

type obs struct {
	set  bool
	trap int64
	v    Val
}

func callFn(ctx context.Context, fn api.Function, rs []byte, args []uint64) (o []obs) {
	o = make([]obs, len(rs))
	defer func() {
		if e := recover(); e != nil {
			for i := range o {
				o[i] = obs{set: true, trap: -8}
			}
		}
	}()
	res, err := fn.Call(ctx, args...)
	if err != nil {
		for i := range o {
			o[i] = obs{set: true, trap: trapCode(err)}
		}
		return
	}
	k := 0
	for i, r := range rs {
		switch r {
		case 'i', 'f':
			o[i] = obs{set: true, v: Val{uint64(uint32(res[k])), 0}}
			k++
		case 'I', 'F':
			o[i] = obs{set: true, v: Val{res[k], 0}}
			k++
		default:
			o[i] = obs{set: true, v: Val{res[k], res[k+1]}}
			k += 2
		}
	}
	return
}

func flatArgs(p string, args []Val) []uint64 {
	var o []uint64
	for i := range args {
		o = append(o, args[i][0])
		if p[i] == 'v' {
			o = append(o, args[i][1])
		}
	}
	return o
}

func main() {
	seed := flag.Uint64("seed", 1, "")
	classes := flag.String("classes", "int,float,simd,simdf", "")
	budget := flag.Int("budget", 300, "crossed core tuples kept per operation")
	nrand := flag.Int("rand", 60, "random lane tuples per operation")
	nconst := flag.Int("const", 40, "calls per operation variant that also run in constant mode")
	ex8 := flag.Bool("ex8", false, "exhaustive operand pairs for 8-bit lane operations")
	extN := flag.Int("ext", 0, "sample size of the extended boundary set per operand position (0 = all)")
	only := flag.String("only", "", "restrict to operations whose name contains this")
	ncombo := flag.Int("combo", 300, "random cross-family pairs (and a third as many triples) on top of the family pairs; -1 disables combos")
	combocalls := flag.Int("combocalls", 10, "calls per combo function")
	famcap := flag.Int("famcap", 0, "at most this many pairs per family (seed-dependent sample; 0 = all unordered pairs)")
	flag.Parse()
	ctx := context.Background()
	want := map[string]bool{}
	for _, s := range strings.Split(*classes, ",") {
		want[s] = true
	}
	ops := allOps()
	var vars []*Variant
	for i := range ops {
		op := &ops[i]
		if !want[op.Class] || (*only != "" && !strings.Contains(op.Name, *only)) {
			continue
		}
		rng := c.NewRng(*seed*1000003 + uint64(op.ID))
		ks := make([]laneKind, len(op.Shape))
		for j, s := range op.Shape {
			ks[j] = kindOf(s)
		}
		imms := immsOf(op, rng, true)
		for _, imm := range imms {
			b, nr := *budget, *nrand
			if len(imms) > 1 { // lane-indexed variants share the budget
				b, nr = b/len(imms)+8, nr/len(imms)+4
			}
			tuples := laneTuples(rng, ks, b*maxLanes(ks), nr*maxLanes(ks), *ex8, *extN*maxLanes(ks))
			calls := pack(rng, ks, tuples)
			arg := make([]int, len(op.P))
			for j := range arg {
				arg[j] = j
			}
			v := &Variant{Comps: []Comp{{Op: op, Imm: imm, ImmZ: immZ(imm), Arg: arg}}, P: op.P, Calls: calls, Const: make([]bool, len(calls))}
			nc := *nconst
			if len(imms) > 1 {
				nc = nc/len(imms) + 2
			}
			for k := 0; k < nc && k < len(calls); k++ {
				v.Const[(k*7919+int(rng.Intn(3)))%len(calls)] = true
			}
			vars = append(vars, v)
		}
	}
	if *ncombo >= 0 && *only == "" {
		vars = append(vars, combos(ops, want, *seed, *ncombo, *combocalls, *famcap)...)
	}

	// ---- modules: parameter mode, memory mode, constant mode (chunked) ----
	pm, mm := newMB(false), newMB(true)
	type cref struct {
		mod int
		fn  uint32
	}
	var cmods []*modBuilder
	cidx := make([][]cref, len(vars))
	lidx, ridx := make([][]uint32, len(vars)), make([][]uint32, len(vars)) // mixed-mode functions (0 = none), same module as cidx
	rtypes := make([][]byte, len(vars)) // result type letters
	const chunk = 4000
	for vi, v := range vars {
		var pb, mb []byte
		var res []byte
		for _, cp := range v.Comps {
			opb := c.Cat(cp.Op.Code, cp.Imm)
			for i, a := range cp.Arg {
				pb = append(pb, c.LocalGet(uint32(a))...)
				mb = append(mb, c.I32Const(0)...)
				mb = append(mb, loadInstr(cp.Op.P[i], uint32(16*a))...)
			}
			pb = append(pb, opb...)
			mb = append(mb, opb...)
			res = append(res, vt(cp.Op.R))
			rtypes[vi] = append(rtypes[vi], cp.Op.R)
		}
		pm.add(vts(v.P), res, pb)
		mm.add(nil, res, mb)
		cidx[vi] = make([]cref, len(v.Calls))
		lidx[vi], ridx[vi] = make([]uint32, len(v.Calls)), make([]uint32, len(v.Calls))
		for ci, args := range v.Calls {
			if !v.Const[ci] {
				continue
			}
			if len(cmods) == 0 || cmods[len(cmods)-1].n >= chunk {
				cmods = append(cmods, newMB(false))
			}
			cb := cmods[len(cmods)-1]
			var body []byte
			for _, cp := range v.Comps {
				for i, a := range cp.Arg {
					body = append(body, constInstr(cp.Op.P[i], args[a])...)
				}
				body = append(body, c.Cat(cp.Op.Code, cp.Imm)...)
			}
			cidx[vi][ci] = cref{len(cmods) - 1, cb.add(nil, res, body)}
			// mixed modes for single-instruction functions with two or more operands: the FIRST operand a constant and
			// the others parameters ("constl"), the LAST a constant and the others parameters ("constr")
			if len(v.Comps) == 1 && len(v.Comps[0].Arg) >= 2 {
				cp := v.Comps[0]
				last := len(cp.Arg) - 1
				for side := 0; side < 2; side++ {
					var b2 []byte
					for i, a := range cp.Arg {
						if (side == 0 && i == 0) || (side == 1 && i == last) {
							b2 = append(b2, constInstr(cp.Op.P[i], args[a])...)
						} else {
							b2 = append(b2, c.LocalGet(uint32(a))...)
						}
					}
					b2 = append(b2, c.Cat(cp.Op.Code, cp.Imm)...)
					fn := cb.add(vts(v.P), res, b2)
					if side == 0 {
						lidx[vi][ci] = fn
					} else {
						ridx[vi][ci] = fn
					}
				}
			}
		}
	}
	pbin, mbin := pm.m.Bytes(), mm.m.Bytes()
	var cbins [][]byte
	for _, cb := range cmods {
		cbins = append(cbins, cb.m.Bytes())
	}

	results := make([][][10][]obs, len(vars))
	for vi, v := range vars {
		results[vi] = make([][10][]obs, len(v.Calls))
	}
	var wg sync.WaitGroup
	var failMu sync.Mutex
	var failures []string
	fail := func(s string) { failMu.Lock(); failures = append(failures, s); failMu.Unlock() }
	instantiate := func(rt wazero.Runtime, bin []byte) (mod api.Module, err error) {
		defer func() {
			if e := recover(); e != nil {
				err = fmt.Errorf("PANIC while compiling/instantiating: %v", e)
			}
		}()
		return rt.Instantiate(ctx, bin)
	}
	for e, eng := range []string{"interp", "compiler"} {
		eng := eng
		newRT := func() wazero.Runtime {
			if eng == "compiler" {
				return wazero.NewRuntimeWithConfig(ctx, wazero.NewRuntimeConfigCompiler())
			}
			return wazero.NewRuntimeWithConfig(ctx, wazero.NewRuntimeConfigInterpreter())
		}
		// parameter mode
		wg.Add(1)
		go func(e int, eng string) {
			defer wg.Done()
			rt := newRT()
			defer rt.Close(ctx)
			mod, err := instantiate(rt, pbin)
			if err != nil {
				fail(eng + " param module: " + err.Error())
				return
			}
			for vi, v := range vars {
				fn := mod.ExportedFunction(fmt.Sprintf("f%d", vi))
				for ci, args := range v.Calls {
					results[vi][ci][5*e+0] = callFn(ctx, fn, rtypes[vi], flatArgs(v.P, args))
				}
			}
		}(e, eng)
		// memory mode
		wg.Add(1)
		go func(e int, eng string) {
			defer wg.Done()
			rt := newRT()
			defer rt.Close(ctx)
			mod, err := instantiate(rt, mbin)
			if err != nil {
				fail(eng + " memory module: " + err.Error())
				return
			}
			mem := mod.Memory()
			for vi, v := range vars {
				fn := mod.ExportedFunction(fmt.Sprintf("f%d", vi))
				for ci, args := range v.Calls {
					for i := range args {
						mem.WriteUint64Le(uint32(16*i), args[i][0])
						mem.WriteUint64Le(uint32(16*i+8), args[i][1])
					}
					results[vi][ci][5*e+2] = callFn(ctx, fn, rtypes[vi], nil)
				}
			}
		}(e, eng)
		// constant mode, one goroutine per chunk
		for mi := range cbins {
			wg.Add(1)
			go func(e int, eng string, mi int) {
				defer wg.Done()
				rt := newRT()
				defer rt.Close(ctx)
				mod, err := instantiate(rt, cbins[mi])
				if err != nil {
					fail(fmt.Sprintf("%s const module %d: %v", eng, mi, err))
					return
				}
				for vi, v := range vars {
					for ci := range v.Calls {
						if v.Const[ci] && cidx[vi][ci].mod == mi {
							fn := mod.ExportedFunction(fmt.Sprintf("f%d", cidx[vi][ci].fn))
							results[vi][ci][5*e+1] = callFn(ctx, fn, rtypes[vi], nil)
							if lidx[vi][ci] != 0 {
								results[vi][ci][5*e+3] = callFn(ctx, mod.ExportedFunction(fmt.Sprintf("f%d", lidx[vi][ci])), rtypes[vi], flatArgs(v.P, v.Calls[ci]))
								results[vi][ci][5*e+4] = callFn(ctx, mod.ExportedFunction(fmt.Sprintf("f%d", ridx[vi][ci])), rtypes[vi], flatArgs(v.P, v.Calls[ci]))
							}
						}
					}
				}
			}(e, eng, mi)
		}
	}
	wg.Wait()
	w := bufio.NewWriterSize(os.Stdout, 1<<20)
	defer w.Flush()
	for _, f := range failures {
		fmt.Fprintf(w, "{\"fail\":%q}\n", f)
	}
	big128 := func(v Val) string {
		if v[1] == 0 {
			return fmt.Sprintf("%d", v[0])
		}
		z := new(big.Int).SetUint64(v[1])
		z.Lsh(z, 64).Or(z, new(big.Int).SetUint64(v[0]))
		return z.String()
	}
	// one line per (function, call, component); "combo" names the function when it holds several instructions
	for vi, v := range vars {
		for ci, args := range v.Calls {
			for k, cp := range v.Comps {
				fmt.Fprintf(w, "{\"op\":%d,\"n\":%q,\"imm\":%s,\"combo\":%q,\"a\":[", cp.Op.ID, cp.Op.Name, cp.ImmZ.String(), v.Name)
				for i, a := range cp.Arg {
					if i > 0 {
						w.WriteByte(',')
					}
					w.WriteString(big128(args[a]))
				}
				w.WriteString("],\"r\":[")
				for s := 0; s < 10; s++ {
					if s > 0 {
						w.WriteByte(',')
					}
					os := results[vi][ci][s]
					switch {
					case os == nil || !os[k].set:
						w.WriteString("null")
					case os[k].trap != 0:
						fmt.Fprintf(w, "%d", os[k].trap)
					default:
						w.WriteString(big128(os[k].v))
					}
				}
				w.WriteString("]}\n")
			}
		}
	}
}

// immsOf lists the immediates exercised for an operation: all lane indices / a fixed set of shuffles for
// single-instruction functions (all = true), one seed-chosen immediate otherwise.
func immsOf(op *Op, rng *c.Rng, all bool) [][]byte {
	switch {
	case op.Imm == 0:
		return [][]byte{nil}
	case op.Imm > 0:
		if !all {
			return [][]byte{{byte(rng.Intn(op.Imm))}}
		}
		var imms [][]byte
		for l := 0; l < op.Imm; l++ {
			imms = append(imms, []byte{byte(l)})
		}
		return imms
	}
	var imms [][]byte
	if all {
		id, rev, hi, il := make([]byte, 16), make([]byte, 16), make([]byte, 16), make([]byte, 16)
		for l := 0; l < 16; l++ {
			id[l], rev[l], hi[l], il[l] = byte(l), byte(31-l), byte(16+l), byte(l/2+16*(l%2))
		}
		imms = append(imms, id, rev, hi, il)
	}
	n := 12
	if !all {
		n = 1
	}
	for k := 0; k < n; k++ {
		s := make([]byte, 16)
		for l := range s {
			s[l] = byte(rng.Intn(32))
		}
		imms = append(imms, s)
	}
	return imms
}

func maxLanes(ks []laneKind) int {
	m := 1
	for _, k := range ks {
		if k.lanes > m {
			m = k.lanes
		}
	}
	return m
}
