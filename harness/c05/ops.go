// Opcode table of the C05 harness: every scalar numeric instruction (0x45..0xC4, 0xFC 0x00..0x07)
// and the 0xFD vector instructions without memory operands.
// Type letters: i=i32 I=i64 f=f32 F=f64 v=v128.
package main

type Op struct {
	ID    uint32 // identifier shared with coq/Wasm/NumericsOps.v: byte | 0xFC00+k | 0xFD000+k
	Name  string
	Code  []byte
	P     string   // parameter types
	R     byte     // result type
	Imm   int      // 0: none; n>0: lane index < n; -1: 16 shuffle lane bytes (< 32)
	Shape []string // per-parameter operand shape (see gen.go)
	Class string   // "int", "float", "simd", "simdf"
}

func u32leb(v uint32) []byte {
	var o []byte
	for {
		b := byte(v & 0x7f)
		v >>= 7
		if v != 0 {
			o = append(o, b|0x80)
		} else {
			return append(o, b)
		}
	}
}

func scalarShape(p string) []string {
	var s []string
	for _, t := range p {
		switch t {
		case 'i':
			s = append(s, "i32")
		case 'I':
			s = append(s, "i64")
		case 'f':
			s = append(s, "f32")
		case 'F':
			s = append(s, "f64")
		}
	}
	return s
}

func allOps() []Op {
	var ops []Op
	sc := func(code int, name, p string, r byte) {
		cl := "int"
		for _, t := range p + string(r) {
			if t == 'f' || t == 'F' {
				cl = "float"
			}
		}
		ops = append(ops, Op{ID: uint32(code), Name: name, Code: []byte{byte(code)}, P: p, R: r, Shape: scalarShape(p), Class: cl})
	}
	rel := []string{"eq", "ne", "lt_s", "lt_u", "gt_s", "gt_u", "le_s", "le_u", "ge_s", "ge_u"}
	frel := []string{"eq", "ne", "lt", "gt", "le", "ge"}
	iun := []string{"clz", "ctz", "popcnt"}
	ibin := []string{"add", "sub", "mul", "div_s", "div_u", "rem_s", "rem_u", "and", "or", "xor", "shl", "shr_s", "shr_u", "rotl", "rotr"}
	fun := []string{"abs", "neg", "ceil", "floor", "trunc", "nearest", "sqrt"}
	fbin := []string{"add", "sub", "mul", "div", "min", "max", "copysign"}
	sc(0x45, "i32.eqz", "i", 'i')
	for k, n := range rel {
		sc(0x46+k, "i32."+n, "ii", 'i')
	}
	sc(0x50, "i64.eqz", "I", 'i')
	for k, n := range rel {
		sc(0x51+k, "i64."+n, "II", 'i')
	}
	for k, n := range frel {
		sc(0x5b+k, "f32."+n, "ff", 'i')
	}
	for k, n := range frel {
		sc(0x61+k, "f64."+n, "FF", 'i')
	}
	for k, n := range iun {
		sc(0x67+k, "i32."+n, "i", 'i')
	}
	for k, n := range ibin {
		sc(0x6a+k, "i32."+n, "ii", 'i')
		if k >= 10 {
			ops[len(ops)-1].Shape = []string{"i32", "sh32"}
		}
	}
	for k, n := range iun {
		sc(0x79+k, "i64."+n, "I", 'I')
	}
	for k, n := range ibin {
		sc(0x7c+k, "i64."+n, "II", 'I')
		if k >= 10 {
			ops[len(ops)-1].Shape = []string{"i64", "sh64"}
		}
	}
	for k, n := range fun {
		sc(0x8b+k, "f32."+n, "f", 'f')
	}
	for k, n := range fbin {
		sc(0x92+k, "f32."+n, "ff", 'f')
	}
	for k, n := range fun {
		sc(0x99+k, "f64."+n, "F", 'F')
	}
	for k, n := range fbin {
		sc(0xa0+k, "f64."+n, "FF", 'F')
	}
	sc(0xa7, "i32.wrap_i64", "I", 'i')
	sc(0xa8, "i32.trunc_f32_s", "f", 'i')
	sc(0xa9, "i32.trunc_f32_u", "f", 'i')
	sc(0xaa, "i32.trunc_f64_s", "F", 'i')
	sc(0xab, "i32.trunc_f64_u", "F", 'i')
	sc(0xac, "i64.extend_i32_s", "i", 'I')
	sc(0xad, "i64.extend_i32_u", "i", 'I')
	sc(0xae, "i64.trunc_f32_s", "f", 'I')
	sc(0xaf, "i64.trunc_f32_u", "f", 'I')
	sc(0xb0, "i64.trunc_f64_s", "F", 'I')
	sc(0xb1, "i64.trunc_f64_u", "F", 'I')
	sc(0xb2, "f32.convert_i32_s", "i", 'f')
	sc(0xb3, "f32.convert_i32_u", "i", 'f')
	sc(0xb4, "f32.convert_i64_s", "I", 'f')
	sc(0xb5, "f32.convert_i64_u", "I", 'f')
	sc(0xb6, "f32.demote_f64", "F", 'f')
	sc(0xb7, "f64.convert_i32_s", "i", 'F')
	sc(0xb8, "f64.convert_i32_u", "i", 'F')
	sc(0xb9, "f64.convert_i64_s", "I", 'F')
	sc(0xba, "f64.convert_i64_u", "I", 'F')
	sc(0xbb, "f64.promote_f32", "f", 'F')
	sc(0xbc, "i32.reinterpret_f32", "f", 'i')
	sc(0xbd, "i64.reinterpret_f64", "F", 'I')
	sc(0xbe, "f32.reinterpret_i32", "i", 'f')
	sc(0xbf, "f64.reinterpret_i64", "I", 'F')
	sc(0xc0, "i32.extend8_s", "i", 'i')
	sc(0xc1, "i32.extend16_s", "i", 'i')
	sc(0xc2, "i64.extend8_s", "I", 'I')
	sc(0xc3, "i64.extend16_s", "I", 'I')
	sc(0xc4, "i64.extend32_s", "I", 'I')
	// the conversions are pure integer operators when no float is involved; mark the ones with floats
	sat := []struct {
		n string
		p string
		r byte
	}{{"i32.trunc_sat_f32_s", "f", 'i'}, {"i32.trunc_sat_f32_u", "f", 'i'}, {"i32.trunc_sat_f64_s", "F", 'i'}, {"i32.trunc_sat_f64_u", "F", 'i'},
		{"i64.trunc_sat_f32_s", "f", 'I'}, {"i64.trunc_sat_f32_u", "f", 'I'}, {"i64.trunc_sat_f64_s", "F", 'I'}, {"i64.trunc_sat_f64_u", "F", 'I'}}
	for k, s := range sat {
		ops = append(ops, Op{ID: 0xFC00 + uint32(k), Name: s.n, Code: []byte{0xfc, byte(k)}, P: s.p, R: s.r, Shape: scalarShape(s.p), Class: "float"})
	}

	// ---- vector instructions ----
	vec := func(code int, name, p string, r byte, imm int, class string, shape ...string) {
		ops = append(ops, Op{ID: 0xFD000 + uint32(code), Name: name, Code: append([]byte{0xfd}, u32leb(uint32(code))...), P: p, R: r, Imm: imm, Shape: shape, Class: class})
	}
	vec(0x0d, "i8x16.shuffle", "vv", 'v', -1, "simd", "v8", "v8")
	vec(0x0e, "i8x16.swizzle", "vv", 'v', 0, "simd", "v8", "vidx")
	vec(0x0f, "i8x16.splat", "i", 'v', 0, "simd", "i32")
	vec(0x10, "i16x8.splat", "i", 'v', 0, "simd", "i32")
	vec(0x11, "i32x4.splat", "i", 'v', 0, "simd", "i32")
	vec(0x12, "i64x2.splat", "I", 'v', 0, "simd", "i64")
	vec(0x13, "f32x4.splat", "f", 'v', 0, "simd", "f32")
	vec(0x14, "f64x2.splat", "F", 'v', 0, "simd", "f64")
	vec(0x15, "i8x16.extract_lane_s", "v", 'i', 16, "simd", "v8")
	vec(0x16, "i8x16.extract_lane_u", "v", 'i', 16, "simd", "v8")
	vec(0x17, "i8x16.replace_lane", "vi", 'v', 16, "simd", "v8", "i32")
	vec(0x18, "i16x8.extract_lane_s", "v", 'i', 8, "simd", "v16")
	vec(0x19, "i16x8.extract_lane_u", "v", 'i', 8, "simd", "v16")
	vec(0x1a, "i16x8.replace_lane", "vi", 'v', 8, "simd", "v16", "i32")
	vec(0x1b, "i32x4.extract_lane", "v", 'i', 4, "simd", "v32")
	vec(0x1c, "i32x4.replace_lane", "vi", 'v', 4, "simd", "v32", "i32")
	vec(0x1d, "i64x2.extract_lane", "v", 'I', 2, "simd", "v64")
	vec(0x1e, "i64x2.replace_lane", "vI", 'v', 2, "simd", "v64", "i64")
	vec(0x1f, "f32x4.extract_lane", "v", 'f', 4, "simd", "vf32")
	vec(0x20, "f32x4.replace_lane", "vf", 'v', 4, "simd", "vf32", "f32")
	vec(0x21, "f64x2.extract_lane", "v", 'F', 2, "simd", "vf64")
	vec(0x22, "f64x2.replace_lane", "vF", 'v', 2, "simd", "vf64", "f64")
	for k, n := range rel {
		vec(0x23+k, "i8x16."+n, "vv", 'v', 0, "simd", "v8", "v8")
		vec(0x2d+k, "i16x8."+n, "vv", 'v', 0, "simd", "v16", "v16")
		vec(0x37+k, "i32x4."+n, "vv", 'v', 0, "simd", "v32", "v32")
	}
	for k, n := range frel {
		vec(0x41+k, "f32x4."+n, "vv", 'v', 0, "simdf", "vf32", "vf32")
		vec(0x47+k, "f64x2."+n, "vv", 'v', 0, "simdf", "vf64", "vf64")
	}
	vec(0x4d, "v128.not", "v", 'v', 0, "simd", "v64")
	vec(0x4e, "v128.and", "vv", 'v', 0, "simd", "v64", "v64")
	vec(0x4f, "v128.andnot", "vv", 'v', 0, "simd", "v64", "v64")
	vec(0x50, "v128.or", "vv", 'v', 0, "simd", "v64", "v64")
	vec(0x51, "v128.xor", "vv", 'v', 0, "simd", "v64", "v64")
	vec(0x52, "v128.bitselect", "vvv", 'v', 0, "simd", "v64", "v64", "v64")
	vec(0x53, "v128.any_true", "v", 'i', 0, "simd", "vsparse")
	vec(0x5e, "f32x4.demote_f64x2_zero", "v", 'v', 0, "simdf", "vf64")
	vec(0x5f, "f64x2.promote_low_f32x4", "v", 'v', 0, "simdf", "vf32")
	// per-shape unary / binary integer families
	vec(0x60, "i8x16.abs", "v", 'v', 0, "simd", "v8")
	vec(0x61, "i8x16.neg", "v", 'v', 0, "simd", "v8")
	vec(0x62, "i8x16.popcnt", "v", 'v', 0, "simd", "v8")
	vec(0x63, "i8x16.all_true", "v", 'i', 0, "simd", "vsparse8")
	vec(0x64, "i8x16.bitmask", "v", 'i', 0, "simd", "v8")
	vec(0x65, "i8x16.narrow_i16x8_s", "vv", 'v', 0, "simd", "v16", "v16")
	vec(0x66, "i8x16.narrow_i16x8_u", "vv", 'v', 0, "simd", "v16", "v16")
	vec(0x67, "f32x4.ceil", "v", 'v', 0, "simdf", "vf32")
	vec(0x68, "f32x4.floor", "v", 'v', 0, "simdf", "vf32")
	vec(0x69, "f32x4.trunc", "v", 'v', 0, "simdf", "vf32")
	vec(0x6a, "f32x4.nearest", "v", 'v', 0, "simdf", "vf32")
	vec(0x6b, "i8x16.shl", "vi", 'v', 0, "simd", "v8", "sh8")
	vec(0x6c, "i8x16.shr_s", "vi", 'v', 0, "simd", "v8", "sh8")
	vec(0x6d, "i8x16.shr_u", "vi", 'v', 0, "simd", "v8", "sh8")
	vec(0x6e, "i8x16.add", "vv", 'v', 0, "simd", "v8", "v8")
	vec(0x6f, "i8x16.add_sat_s", "vv", 'v', 0, "simd", "v8", "v8")
	vec(0x70, "i8x16.add_sat_u", "vv", 'v', 0, "simd", "v8", "v8")
	vec(0x71, "i8x16.sub", "vv", 'v', 0, "simd", "v8", "v8")
	vec(0x72, "i8x16.sub_sat_s", "vv", 'v', 0, "simd", "v8", "v8")
	vec(0x73, "i8x16.sub_sat_u", "vv", 'v', 0, "simd", "v8", "v8")
	vec(0x74, "f64x2.ceil", "v", 'v', 0, "simdf", "vf64")
	vec(0x75, "f64x2.floor", "v", 'v', 0, "simdf", "vf64")
	vec(0x76, "i8x16.min_s", "vv", 'v', 0, "simd", "v8", "v8")
	vec(0x77, "i8x16.min_u", "vv", 'v', 0, "simd", "v8", "v8")
	vec(0x78, "i8x16.max_s", "vv", 'v', 0, "simd", "v8", "v8")
	vec(0x79, "i8x16.max_u", "vv", 'v', 0, "simd", "v8", "v8")
	vec(0x7a, "f64x2.trunc", "v", 'v', 0, "simdf", "vf64")
	vec(0x7b, "i8x16.avgr_u", "vv", 'v', 0, "simd", "v8", "v8")
	vec(0x7c, "i16x8.extadd_pairwise_i8x16_s", "v", 'v', 0, "simd", "v8")
	vec(0x7d, "i16x8.extadd_pairwise_i8x16_u", "v", 'v', 0, "simd", "v8")
	vec(0x7e, "i32x4.extadd_pairwise_i16x8_s", "v", 'v', 0, "simd", "v16")
	vec(0x7f, "i32x4.extadd_pairwise_i16x8_u", "v", 'v', 0, "simd", "v16")
	vec(0x80, "i16x8.abs", "v", 'v', 0, "simd", "v16")
	vec(0x81, "i16x8.neg", "v", 'v', 0, "simd", "v16")
	vec(0x82, "i16x8.q15mulr_sat_s", "vv", 'v', 0, "simd", "v16", "v16")
	vec(0x83, "i16x8.all_true", "v", 'i', 0, "simd", "vsparse16")
	vec(0x84, "i16x8.bitmask", "v", 'i', 0, "simd", "v16")
	vec(0x85, "i16x8.narrow_i32x4_s", "vv", 'v', 0, "simd", "v32", "v32")
	vec(0x86, "i16x8.narrow_i32x4_u", "vv", 'v', 0, "simd", "v32", "v32")
	vec(0x87, "i16x8.extend_low_i8x16_s", "v", 'v', 0, "simd", "v8")
	vec(0x88, "i16x8.extend_high_i8x16_s", "v", 'v', 0, "simd", "v8")
	vec(0x89, "i16x8.extend_low_i8x16_u", "v", 'v', 0, "simd", "v8")
	vec(0x8a, "i16x8.extend_high_i8x16_u", "v", 'v', 0, "simd", "v8")
	vec(0x8b, "i16x8.shl", "vi", 'v', 0, "simd", "v16", "sh16")
	vec(0x8c, "i16x8.shr_s", "vi", 'v', 0, "simd", "v16", "sh16")
	vec(0x8d, "i16x8.shr_u", "vi", 'v', 0, "simd", "v16", "sh16")
	vec(0x8e, "i16x8.add", "vv", 'v', 0, "simd", "v16", "v16")
	vec(0x8f, "i16x8.add_sat_s", "vv", 'v', 0, "simd", "v16", "v16")
	vec(0x90, "i16x8.add_sat_u", "vv", 'v', 0, "simd", "v16", "v16")
	vec(0x91, "i16x8.sub", "vv", 'v', 0, "simd", "v16", "v16")
	vec(0x92, "i16x8.sub_sat_s", "vv", 'v', 0, "simd", "v16", "v16")
	vec(0x93, "i16x8.sub_sat_u", "vv", 'v', 0, "simd", "v16", "v16")
	vec(0x94, "f64x2.nearest", "v", 'v', 0, "simdf", "vf64")
	vec(0x95, "i16x8.mul", "vv", 'v', 0, "simd", "v16", "v16")
	vec(0x96, "i16x8.min_s", "vv", 'v', 0, "simd", "v16", "v16")
	vec(0x97, "i16x8.min_u", "vv", 'v', 0, "simd", "v16", "v16")
	vec(0x98, "i16x8.max_s", "vv", 'v', 0, "simd", "v16", "v16")
	vec(0x99, "i16x8.max_u", "vv", 'v', 0, "simd", "v16", "v16")
	vec(0x9b, "i16x8.avgr_u", "vv", 'v', 0, "simd", "v16", "v16")
	vec(0x9c, "i16x8.extmul_low_i8x16_s", "vv", 'v', 0, "simd", "v8", "v8")
	vec(0x9d, "i16x8.extmul_high_i8x16_s", "vv", 'v', 0, "simd", "v8", "v8")
	vec(0x9e, "i16x8.extmul_low_i8x16_u", "vv", 'v', 0, "simd", "v8", "v8")
	vec(0x9f, "i16x8.extmul_high_i8x16_u", "vv", 'v', 0, "simd", "v8", "v8")
	vec(0xa0, "i32x4.abs", "v", 'v', 0, "simd", "v32")
	vec(0xa1, "i32x4.neg", "v", 'v', 0, "simd", "v32")
	vec(0xa3, "i32x4.all_true", "v", 'i', 0, "simd", "vsparse32")
	vec(0xa4, "i32x4.bitmask", "v", 'i', 0, "simd", "v32")
	vec(0xa7, "i32x4.extend_low_i16x8_s", "v", 'v', 0, "simd", "v16")
	vec(0xa8, "i32x4.extend_high_i16x8_s", "v", 'v', 0, "simd", "v16")
	vec(0xa9, "i32x4.extend_low_i16x8_u", "v", 'v', 0, "simd", "v16")
	vec(0xaa, "i32x4.extend_high_i16x8_u", "v", 'v', 0, "simd", "v16")
	vec(0xab, "i32x4.shl", "vi", 'v', 0, "simd", "v32", "sh32")
	vec(0xac, "i32x4.shr_s", "vi", 'v', 0, "simd", "v32", "sh32")
	vec(0xad, "i32x4.shr_u", "vi", 'v', 0, "simd", "v32", "sh32")
	vec(0xae, "i32x4.add", "vv", 'v', 0, "simd", "v32", "v32")
	vec(0xb1, "i32x4.sub", "vv", 'v', 0, "simd", "v32", "v32")
	vec(0xb5, "i32x4.mul", "vv", 'v', 0, "simd", "v32", "v32")
	vec(0xb6, "i32x4.min_s", "vv", 'v', 0, "simd", "v32", "v32")
	vec(0xb7, "i32x4.min_u", "vv", 'v', 0, "simd", "v32", "v32")
	vec(0xb8, "i32x4.max_s", "vv", 'v', 0, "simd", "v32", "v32")
	vec(0xb9, "i32x4.max_u", "vv", 'v', 0, "simd", "v32", "v32")
	vec(0xba, "i32x4.dot_i16x8_s", "vv", 'v', 0, "simd", "v16", "v16")
	vec(0xbc, "i32x4.extmul_low_i16x8_s", "vv", 'v', 0, "simd", "v16", "v16")
	vec(0xbd, "i32x4.extmul_high_i16x8_s", "vv", 'v', 0, "simd", "v16", "v16")
	vec(0xbe, "i32x4.extmul_low_i16x8_u", "vv", 'v', 0, "simd", "v16", "v16")
	vec(0xbf, "i32x4.extmul_high_i16x8_u", "vv", 'v', 0, "simd", "v16", "v16")
	vec(0xc0, "i64x2.abs", "v", 'v', 0, "simd", "v64")
	vec(0xc1, "i64x2.neg", "v", 'v', 0, "simd", "v64")
	vec(0xc3, "i64x2.all_true", "v", 'i', 0, "simd", "vsparse64")
	vec(0xc4, "i64x2.bitmask", "v", 'i', 0, "simd", "v64")
	vec(0xc7, "i64x2.extend_low_i32x4_s", "v", 'v', 0, "simd", "v32")
	vec(0xc8, "i64x2.extend_high_i32x4_s", "v", 'v', 0, "simd", "v32")
	vec(0xc9, "i64x2.extend_low_i32x4_u", "v", 'v', 0, "simd", "v32")
	vec(0xca, "i64x2.extend_high_i32x4_u", "v", 'v', 0, "simd", "v32")
	vec(0xcb, "i64x2.shl", "vi", 'v', 0, "simd", "v64", "sh64")
	vec(0xcc, "i64x2.shr_s", "vi", 'v', 0, "simd", "v64", "sh64")
	vec(0xcd, "i64x2.shr_u", "vi", 'v', 0, "simd", "v64", "sh64")
	vec(0xce, "i64x2.add", "vv", 'v', 0, "simd", "v64", "v64")
	vec(0xd1, "i64x2.sub", "vv", 'v', 0, "simd", "v64", "v64")
	vec(0xd5, "i64x2.mul", "vv", 'v', 0, "simd", "v64", "v64")
	for k, n := range []string{"eq", "ne", "lt_s", "gt_s", "le_s", "ge_s"} {
		vec(0xd6+k, "i64x2."+n, "vv", 'v', 0, "simd", "v64", "v64")
	}
	vec(0xdc, "i64x2.extmul_low_i32x4_s", "vv", 'v', 0, "simd", "v32", "v32")
	vec(0xdd, "i64x2.extmul_high_i32x4_s", "vv", 'v', 0, "simd", "v32", "v32")
	vec(0xde, "i64x2.extmul_low_i32x4_u", "vv", 'v', 0, "simd", "v32", "v32")
	vec(0xdf, "i64x2.extmul_high_i32x4_u", "vv", 'v', 0, "simd", "v32", "v32")
	for k, n := range []string{"abs", "neg", "", "sqrt"} {
		if n != "" {
			vec(0xe0+k, "f32x4."+n, "v", 'v', 0, "simdf", "vf32")
			vec(0xec+k, "f64x2."+n, "v", 'v', 0, "simdf", "vf64")
		}
	}
	for k, n := range []string{"add", "sub", "mul", "div", "min", "max", "pmin", "pmax"} {
		vec(0xe4+k, "f32x4."+n, "vv", 'v', 0, "simdf", "vf32", "vf32")
		vec(0xf0+k, "f64x2."+n, "vv", 'v', 0, "simdf", "vf64", "vf64")
	}
	vec(0xf8, "i32x4.trunc_sat_f32x4_s", "v", 'v', 0, "simdf", "vf32")
	vec(0xf9, "i32x4.trunc_sat_f32x4_u", "v", 'v', 0, "simdf", "vf32")
	vec(0xfa, "f32x4.convert_i32x4_s", "v", 'v', 0, "simdf", "v32")
	vec(0xfb, "f32x4.convert_i32x4_u", "v", 'v', 0, "simdf", "v32")
	vec(0xfc, "i32x4.trunc_sat_f64x2_s_zero", "v", 'v', 0, "simdf", "vf64")
	vec(0xfd, "i32x4.trunc_sat_f64x2_u_zero", "v", 'v', 0, "simdf", "vf64")
	vec(0xfe, "f64x2.convert_low_i32x4_s", "v", 'v', 0, "simdf", "v32")
	vec(0xff, "f64x2.convert_low_i32x4_u", "v", 'v', 0, "simdf", "v32")
	return ops
}
